package main

import (
	"fmt"
	"go/ast"
	"strings"
)

// genSyncSlots: the `parallel` slot of one regsync step (cmd/regsync/root.go processRef).  A walk over the statements from
// the first `throttleDone, err := opts.throttle.Acquire(` on keeps two facts: whether the step holds a slot (`throttleDone()`
// gives it back, a successful re-acquisition takes one; the `if err != nil` right after an acquisition runs without one) and
// whether a deferred release is registered.  One row per `return` (the step ends: a deferred release must find a held slot,
// and without one nothing may be held) and per explicit `throttleDone()` (must find a held slot).
func genSyncSlots() {
	rel := "cmd/regsync/root.go"
	f := parseFile(rel)
	var fd *ast.FuncDecl
	for _, decl := range f.Decls {
		if d, ok := decl.(*ast.FuncDecl); ok && d.Name.Name == "processRef" && d.Recv != nil {
			fd = d
		}
	}
	if fd == nil {
		die("syncslots: shape not recognised: processRef not found in %s", rel)
	}
	norm := func(s string) string { return strings.Join(strings.Fields(s), " ") }
	type st struct{ held, deferred bool }
	var rows []string
	isAcq := func(s ast.Stmt) bool {
		as, ok := s.(*ast.AssignStmt)
		return ok && strings.HasPrefix(norm(src(as)), "throttleDone, err") && strings.Contains(norm(src(as)), "opts.throttle.Acquire(")
	}
	terminates := func(list []ast.Stmt) bool {
		if len(list) == 0 {
			return false
		}
		_, ok := list[len(list)-1].(*ast.ReturnStmt)
		return ok
	}
	var walk func(list []ast.Stmt, s st) st
	branch := func(list []ast.Stmt, s st, at ast.Node) {
		e := walk(list, s)
		if !terminates(list) && e != s {
			die("syncslots: shape not recognised at %s:%d (a branch that changes the slot state and falls through)", rel, line(at))
		}
	}
	walk = func(list []ast.Stmt, s st) st {
		for i := 0; i < len(list); i++ {
			switch x := list[i].(type) {
			case *ast.ReturnStmt:
				rows = append(rows, fmt.Sprintf("  mkSyncRow %d %s %s %s", line(x), cq("return"), cb(s.held), cb(s.deferred)))
			case *ast.ExprStmt:
				if norm(src(x)) == "throttleDone()" {
					rows = append(rows, fmt.Sprintf("  mkSyncRow %d %s %s %s", line(x), cq("release"), cb(s.held), cb(s.deferred)))
					s.held = false
				}
			case *ast.DeferStmt:
				if strings.Contains(norm(src(x)), "throttleDone()") {
					if s.deferred {
						die("syncslots: shape not recognised at %s:%d (second deferred release)", rel, line(x))
					}
					s.deferred = true
				}
			case *ast.AssignStmt:
				if isAcq(x) {
					// the error branch right after it runs without the slot
					if i+1 < len(list) {
						if is, ok := list[i+1].(*ast.IfStmt); ok && norm(src(is.Cond)) == "err != nil" {
							branch(is.Body.List, st{false, s.deferred}, is)
							i++
						}
					}
					s.held = true
				}
			case *ast.IfStmt:
				branch(x.Body.List, s, x)
				switch e := x.Else.(type) {
				case *ast.BlockStmt:
					branch(e.List, s, e)
				case *ast.IfStmt:
					branch([]ast.Stmt{e}, s, e)
				}
			case *ast.ForStmt:
				branch(x.Body.List, s, x)
			case *ast.RangeStmt:
				branch(x.Body.List, s, x)
			case *ast.BlockStmt:
				s = walk(x.List, s)
			case *ast.SwitchStmt:
				for _, c := range x.Body.List {
					branch(c.(*ast.CaseClause).Body, s, c)
				}
			case *ast.TypeSwitchStmt:
				for _, c := range x.Body.List {
					branch(c.(*ast.CaseClause).Body, s, c)
				}
			case *ast.SelectStmt:
				for _, c := range x.Body.List {
					branch(c.(*ast.CommClause).Body, s, c)
				}
			}
		}
		return s
	}
	start := -1
	for i, s := range fd.Body.List {
		if as, ok := s.(*ast.AssignStmt); ok && strings.HasPrefix(norm(src(as)), "throttleDone, err :=") && strings.Contains(norm(src(as)), "opts.throttle.Acquire(") {
			start = i
			break
		}
	}
	if start < 0 {
		die("syncslots: shape not recognised: no `throttleDone, err := opts.throttle.Acquire(` at the top level of processRef")
	}
	// the first acquisition is written with := ; treat it like a re-acquisition
	first := fd.Body.List[start:]
	s := st{}
	rest := first[1:]
	if is, ok := rest[0].(*ast.IfStmt); ok && norm(src(is.Cond)) == "err != nil" {
		branch(is.Body.List, st{false, false}, is)
		rest = rest[1:]
	}
	s.held = true
	walk(rest, s)
	if len(rows) < 4 {
		die("syncslots: shape not recognised: %d rows", len(rows))
	}
	writeGen("SyncSlots.v", "Record sync_row := mkSyncRow { sr_line : nat; sr_kind : string; sr_held : bool; sr_deferred : bool }.\nDefinition sync_rows : list sync_row := [\n"+strings.Join(rows, ";\n")+"\n].\n")
}
