package main

import (
	"fmt"
	"go/ast"
	"strings"
)

// genGCLocks: the syntactic facts the C08 lock-table model rests on.
//   - every call `<x>.GCLock(<r>)` outside scheme/ocidir is followed, as the next statement of the same block, by
//     `defer <x>.GCUnlock(<r>)` (a copy always gives its lock back, on every return path);
//   - the statements of OCIDir.GCLock / GCUnlock / refMod that touch the lock table, and the guard of OCIDir.Close,
//     have the shapes the model transliterates (locks++ or a fresh record with one lock; locks-- only when positive;
//     refMod keeps an existing record; Close returns before collecting when the record is absent, unmodified or locked).
func genGCLocks() {
	var sites []string
	for _, rel := range append(goFiles("."), append(goFiles("mod"), goFiles("cmd/regctl")...)...) {
		f := parseFile(rel)
		ast.Inspect(f, func(n ast.Node) bool {
			bs, ok := n.(*ast.BlockStmt)
			if !ok {
				return true
			}
			for i, st := range bs.List {
				es, ok := st.(*ast.ExprStmt)
				if !ok {
					continue
				}
				ce, ok := es.X.(*ast.CallExpr)
				if !ok {
					continue
				}
				se, ok := ce.Fun.(*ast.SelectorExpr)
				if !ok || se.Sel.Name != "GCLock" || len(ce.Args) != 1 {
					continue
				}
				paired := false
				if i+1 < len(bs.List) {
					if ds, ok := bs.List[i+1].(*ast.DeferStmt); ok {
						if se2, ok := ds.Call.Fun.(*ast.SelectorExpr); ok && se2.Sel.Name == "GCUnlock" && src(se2.X) == src(se.X) &&
							len(ds.Call.Args) == 1 && src(ds.Call.Args[0]) == src(ce.Args[0]) {
							paired = true
						}
					}
				}
				sites = append(sites, fmt.Sprintf("  mkGCSite %s %d %s", cq(rel), line(ce), cb(paired)))
			}
			return true
		})
	}
	// any other mention of GCLock( outside ocidir that is not an expression statement (e.g. inside a goroutine literal or
	// assigned to a variable) is not recognised
	for _, rel := range append(goFiles("."), append(goFiles("mod"), goFiles("cmd/regctl")...)...) {
		f := parseFile(rel)
		cnt := 0
		ast.Inspect(f, func(n ast.Node) bool {
			if se, ok := n.(*ast.SelectorExpr); ok && se.Sel.Name == "GCLock" {
				cnt++
			}
			return true
		})
		have := 0
		for _, s := range sites {
			if strings.Contains(s, cq(rel)) {
				have++
			}
		}
		if cnt != have {
			die("gclocks: shape not recognised in %s: %d mentions of GCLock, %d call statements", rel, cnt, have)
		}
	}
	if len(sites) == 0 {
		die("gclocks: shape not recognised: no GCLock call site found")
	}
	norm := func(s string) string { return strings.Join(strings.Fields(s), " ") }
	shapes := map[string]string{}
	want := map[string]bool{"GCLock": true, "GCUnlock": true, "refMod": true, "Close": true}
	for _, rel := range goFiles("scheme/ocidir") {
		f := parseFile(rel)
		for _, decl := range f.Decls {
			fd, ok := decl.(*ast.FuncDecl)
			if !ok || fd.Body == nil || fd.Recv == nil || src(fd.Recv.List[0].Type) != "*OCIDir" {
				continue
			}
			if _, ok := want[fd.Name.Name]; !ok {
				continue
			}
			// the first if statement of the body that mentions modRefs, comments dropped
			for _, st := range fd.Body.List {
				if is, ok := st.(*ast.IfStmt); ok && strings.Contains(src(is), "o.modRefs[") {
					var sb strings.Builder
					for _, ln := range strings.Split(src(is), "\n") {
						if t := strings.TrimSpace(ln); !strings.HasPrefix(t, "//") {
							sb.WriteString(ln + "\n")
						}
					}
					shapes[fd.Name.Name] = norm(sb.String())
					break
				}
			}
			// in GCLock / GCUnlock / refMod / Close the table is only touched under o.mu
			if fd.Name.Name != "refMod" {
				if !(len(fd.Body.List) >= 2 && strings.HasPrefix(norm(src(fd.Body.List[0])), "o.mu.Lock()") && norm(src(fd.Body.List[1])) == "defer o.mu.Unlock()") {
					if fd.Name.Name != "Close" || !strings.Contains(norm(src(fd.Body)), "o.mu.Lock() defer o.mu.Unlock()") {
						shapes[fd.Name.Name] = "NOT UNDER o.mu: " + shapes[fd.Name.Name]
					}
				}
			}
		}
	}
	var rows []string
	for _, k := range []string{"GCLock", "GCUnlock", "refMod", "Close"} {
		rows = append(rows, fmt.Sprintf("  (%s, %s)", cq(k), cq(shapes[k])))
	}
	body := "Record gcsite := mkGCSite { gs_file : string; gs_line : nat; gs_paired : bool }.\n" +
		"Definition gc_lock_sites : list gcsite := [\n" + strings.Join(sites, ";\n") + "\n].\n" +
		"(* (function, the statement that touches the lock table, as it is in the source) *)\n" +
		"Definition gc_table_shapes : list (string * string) := [\n" + strings.Join(rows, ";\n") + "\n].\n"
	writeGen("GCLockSites.v", body)
}
