package main

import (
	"fmt"
	"go/ast"
	"go/token"
	"regexp"
	"strconv"
	"strings"
)

// genRefRegex: the source text of the regular expressions of types/ref/ref.go (schemeRE, registryRE, refRE, ocidirRE),
// obtained by evaluating the string expressions of their var block: string literals, `+`, references to earlier
// variables of the block, regexp.QuoteMeta(<literal>) and regexp.MustCompile(<expr>).  Anything else makes the
// translator fail.  The hand-written recognisers of Model/C15_Ref.v were written for exactly these texts; a theorem
// compares them with the expected ones on every run.
func genRefRegex() {
	f := parseFile("types/ref/ref.go")
	vals := map[string]string{}
	var eval func(e ast.Expr) string
	eval = func(e ast.Expr) string {
		switch x := e.(type) {
		case *ast.BasicLit:
			if x.Kind != token.STRING {
				die("refregex: shape not recognised at line %d: non-string literal", line(x))
			}
			s, err := strconv.Unquote(x.Value)
			if err != nil {
				die("refregex: cannot unquote literal at line %d", line(x))
			}
			return s
		case *ast.BinaryExpr:
			if x.Op != token.ADD {
				die("refregex: shape not recognised at line %d: operator %s", line(x), x.Op)
			}
			return eval(x.X) + eval(x.Y)
		case *ast.Ident:
			v, ok := vals[x.Name]
			if !ok {
				die("refregex: shape not recognised at line %d: unknown identifier %s", line(x), x.Name)
			}
			return v
		case *ast.ParenExpr:
			return eval(x.X)
		case *ast.CallExpr:
			switch src(x.Fun) {
			case "regexp.QuoteMeta":
				if len(x.Args) == 1 {
					return regexp.QuoteMeta(eval(x.Args[0]))
				}
			case "regexp.MustCompile":
				if len(x.Args) == 1 {
					return eval(x.Args[0])
				}
			}
		}
		die("refregex: shape not recognised at line %d: %s", line(e), src(e))
		return ""
	}
	want := []string{"schemeRE", "registryRE", "refRE", "ocidirRE"}
	for _, decl := range f.Decls {
		gd, ok := decl.(*ast.GenDecl)
		if !ok || gd.Tok != token.VAR {
			continue
		}
		isBlock := false
		for _, sp := range gd.Specs {
			vs := sp.(*ast.ValueSpec)
			for _, n := range vs.Names {
				if n.Name == "refRE" {
					isBlock = true
				}
			}
		}
		if !isBlock {
			continue
		}
		for _, sp := range gd.Specs {
			vs := sp.(*ast.ValueSpec)
			if len(vs.Names) != 1 || len(vs.Values) != 1 {
				die("refregex: shape not recognised at line %d", line(vs))
			}
			vals[vs.Names[0].Name] = eval(vs.Values[0])
		}
	}
	var rows []string
	for _, n := range want {
		v, ok := vals[n]
		if !ok {
			die("refregex: %s not found in types/ref/ref.go", n)
		}
		rows = append(rows, fmt.Sprintf("  (%s, %s)", cq(n), cq(v)))
	}
	writeGen("RefRegex.v", "Definition ref_regex_sources : list (string * string) := [\n"+strings.Join(rows, ";\n")+"\n].\n")
}
