package main

import (
	"fmt"
	"go/ast"
	"go/token"
	"strings"
)

// genReqSites: every reghttp.Req composite literal under scheme/reg with its Method, whether NoMirrors is
// set to the literal true, whether DirectURL / IgnoreErr are set (in the literal or by a later assignment
// to the same variable in the function).
func genReqSites() {
	var rows []string
	for _, rel := range goFiles("scheme/reg") {
		f := parseFile(rel)
		for _, decl := range f.Decls {
			fd, ok := decl.(*ast.FuncDecl)
			if !ok || fd.Body == nil {
				continue
			}
			ast.Inspect(fd.Body, func(n ast.Node) bool {
				cl, ok := n.(*ast.CompositeLit)
				if !ok || src(cl.Type) != "reghttp.Req" {
					return true
				}
				method, nom, direct, ign := "", false, false, false
				for _, el := range cl.Elts {
					kv, ok := el.(*ast.KeyValueExpr)
					if !ok {
						die("reqsites: shape not recognised at %s:%d (positional field)", rel, line(el))
					}
					switch src(kv.Key) {
					case "Method":
						bl, ok := kv.Value.(*ast.BasicLit)
						if !ok || bl.Kind != token.STRING {
							die("reqsites: shape not recognised at %s:%d (Method is not a string literal)", rel, line(kv))
						}
						method = strings.Trim(bl.Value, `"`)
					case "NoMirrors":
						nom = src(kv.Value) == "true"
					case "DirectURL":
						direct = true
					case "IgnoreErr":
						ign = true
					}
				}
				if method == "" {
					die("reqsites: shape not recognised at %s:%d (no Method)", rel, line(cl))
				}
				rows = append(rows, fmt.Sprintf("  mkReq %s %s %d %s %s %s %s", cq(rel), cq(fd.Name.Name), line(cl), cq(method), cb(nom), cb(direct), cb(ign)))
				return true
			})
		}
	}
	if len(rows) < 10 {
		die("reqsites: shape not recognised: only %d request literals found", len(rows))
	}
	body := "Record reqsite := mkReq { rs_file : string; rs_func : string; rs_line : nat; rs_method : string; rs_nomirrors : bool; rs_direct : bool; rs_ignoreerr : bool }.\n" +
		"Definition req_sites : list reqsite := [\n" + strings.Join(rows, ";\n") + "\n].\n"
	writeGen("ReqSites.v", body)
}

// genStatusClass: the `switch statusCode` of Resp.next: for every case the flags it sets.
func genStatusClass() {
	f := parseFile("internal/reghttp/http.go")
	names := map[string]int{"StatusUnauthorized": 401, "StatusNotFound": 404, "StatusRequestedRangeNotSatisfiable": 416,
		"StatusTooManyRequests": 429, "StatusRequestTimeout": 408, "StatusGatewayTimeout": 504, "StatusBadGateway": 502,
		"StatusInternalServerError": 500, "StatusServiceUnavailable": 503, "StatusForbidden": 403, "StatusBadRequest": 400,
		"StatusConflict": 409, "StatusMethodNotAllowed": 405}
	var rows []string
	var deflt string
	found := false
	var retryLimitDefault, backoffReset string
	ast.Inspect(f, func(n ast.Node) bool {
		if vs, ok := n.(*ast.ValueSpec); ok {
			for i, nm := range vs.Names {
				if i < len(vs.Values) {
					switch nm.Name {
					case "DefaultRetryLimit":
						retryLimitDefault = src(vs.Values[i])
					case "backoffResetCount":
						backoffReset = src(vs.Values[i])
					}
				}
			}
		}
		if fd, ok := n.(*ast.FuncDecl); ok && fd.Name.Name != "next" {
			return false // only the switch inside Resp.next (constants are package-level GenDecls)
		}
		sw, ok := n.(*ast.SwitchStmt)
		if !ok || sw.Tag == nil || src(sw.Tag) != "statusCode" {
			return true
		}
		found = true
		for _, st := range sw.Body.List {
			cc := st.(*ast.CaseClause)
			backoff, drop, retry := false, false, false
			is401 := false
			ast.Inspect(cc, func(m ast.Node) bool {
				if as, ok := m.(*ast.AssignStmt); ok && len(as.Lhs) == 1 && len(as.Rhs) == 1 && src(as.Rhs[0]) == "true" {
					switch src(as.Lhs[0]) {
					case "backoff":
						backoff = true
					case "dropHost":
						drop = true
					case "retryHost":
						retry = true
					}
				}
				return true
			})
			if cc.List == nil {
				deflt = fmt.Sprintf("Definition status_default : bool * bool * bool := (%s, %s, %s).", cb(backoff), cb(drop), cb(retry))
				continue
			}
			for _, e := range cc.List {
				nm := strings.TrimPrefix(src(e), "http.")
				code, ok := names[nm]
				if !ok {
					die("statusclass: shape not recognised at %s:%d (unknown status %s)", "internal/reghttp/http.go", line(e), nm)
				}
				if code == 401 {
					is401 = true
				}
				if is401 {
					// 401: accepted challenge => retryHost, otherwise dropHost; both flags appear in the clause
					rows = append(rows, fmt.Sprintf("  (%d, (false, %s, %s))", code, cb(drop), cb(retry)))
				} else {
					rows = append(rows, fmt.Sprintf("  (%d, (%s, %s, %s))", code, cb(backoff), cb(drop), cb(retry)))
				}
			}
		}
		return false
	})
	if !found || deflt == "" {
		die("statusclass: shape not recognised: switch statusCode not found in internal/reghttp/http.go")
	}
	if retryLimitDefault == "" {
		retryLimitDefault = "0"
	}
	if backoffReset == "" {
		backoffReset = "0"
	}
	body := "(* (backoff, dropHost, retryHost) set by each case of `switch statusCode` in Resp.next; for 401 the pair\n   (dropHost, retryHost) lists the two flags of its two outcomes (challenge refused / accepted) *)\n" +
		"Definition status_class : list (nat * (bool * bool * bool)) := [\n" + strings.Join(rows, ";\n") + "\n].\n" + deflt + "\n" +
		fmt.Sprintf("Definition default_retry_limit : nat := %s.\nDefinition backoff_reset_count : nat := %s.\n", retryLimitDefault, backoffReset)
	writeGen("StatusClass.v", body)
}
