package main

import (
	"fmt"
	"go/ast"
	"strings"
)

// genDigestPaths: every use of <X>.Encoded() / <X>.Hex() (a digest turned into a file-name component)
// in scheme/ocidir, image.go and cmd/regctl/artifact.go, with whether the same expression <X> (or, for a
// local `d := digest.Digest(e)`, the source e) is checked by `.Validate()` earlier in the same function.
func genDigestPaths() {
	files := append(goFiles("scheme/ocidir"), "image.go", "cmd/regctl/artifact.go")
	var rows []string
	for _, rel := range files {
		f := parseFile(rel)
		for _, decl := range f.Decls {
			fd, ok := decl.(*ast.FuncDecl)
			if !ok || fd.Body == nil {
				continue
			}
			type val struct {
				expr string
				pos  int
			}
			var validated []val
			alias := map[string]string{} // d -> r.Digest for d := digest.Digest(r.Digest)
			ast.Inspect(fd.Body, func(n ast.Node) bool {
				switch x := n.(type) {
				case *ast.AssignStmt:
					if len(x.Lhs) == 1 && len(x.Rhs) == 1 {
						if ce, ok := x.Rhs[0].(*ast.CallExpr); ok && src(ce.Fun) == "digest.Digest" && len(ce.Args) == 1 {
							alias[src(x.Lhs[0])] = src(ce.Args[0])
						}
					}
				case *ast.CallExpr:
					if se, ok := x.Fun.(*ast.SelectorExpr); ok && se.Sel.Name == "Validate" && len(x.Args) == 0 {
						validated = append(validated, val{src(se.X), int(x.Pos())})
					}
				}
				return true
			})
			ast.Inspect(fd.Body, func(n ast.Node) bool {
				ce, ok := n.(*ast.CallExpr)
				if !ok {
					return true
				}
				var x string
				if id, ok := ce.Fun.(*ast.Ident); ok && id.Name == "tarOCILayoutDescPath" && len(ce.Args) == 1 {
					// helper that formats blobs/<alg>/<hex>: the caller must have validated <arg>.Digest
					x = src(ce.Args[0]) + ".Digest"
				} else {
					se, ok := ce.Fun.(*ast.SelectorExpr)
					if !ok || (se.Sel.Name != "Encoded" && se.Sel.Name != "Hex") || len(ce.Args) != 0 {
						return true
					}
					x = src(se.X)
				}
				ok2 := false
				for _, v := range validated {
					if v.pos < int(ce.Pos()) && (v.expr == x || (alias[x] != "" && (v.expr == alias[x] || v.expr == "digest.Digest("+alias[x]+")"))) {
						ok2 = true
					}
				}
				rows = append(rows, fmt.Sprintf("  mkSite %s %s %d %s %s", cq(rel), cq(fd.Name.Name), line(ce), cq(x), cb(ok2)))
				return true
			})
		}
	}
	if len(rows) == 0 {
		die("digestpaths: shape not recognised: no .Encoded() site found")
	}
	body := "Record dsite := mkSite { ds_file : string; ds_func : string; ds_line : nat; ds_expr : string; ds_validated : bool }.\n" +
		"Definition digest_path_sites : list dsite := [\n" + strings.Join(rows, ";\n") + "\n].\n"
	writeGen("DigestPathSites.v", body)
}
