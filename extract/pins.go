package main

import (
	"fmt"
	"go/ast"
	"strings"
)

// genCondPins: the conditions of the `if` statements that hand-written models transliterate, printed as they are in the
// source, so that the Coq side can compare them with the text the model was written for (a changed condition forces the
// transliteration to be revisited).  Each pin names a file, a function and a marker the condition must contain.
func genCondPins() {
	type pin struct{ name, file, fn, marker string }
	pins := []pin{
		{"chunk_min_uploadurl", "scheme/reg/blob.go", "blobGetUploadURL", "minSize >"},
		{"chunk_min_mount", "scheme/reg/blob.go", "blobMount", "minSize >"},
		{"copy_head_compare", "image.go", "imageCopyOpt", "opt.fastCheck"},
		{"copy_head_digest_only", "image.go", "imageCopyOpt", "mSrc == nil && !opt.forceRecursive"},
		{"copy_head_need_body", "image.go", "imageCopyOpt", "mTgt.IsList()"},
		{"resume_range", "internal/reghttp/http.go", "next", "resp.readCur > 0"},
		{"resume_done", "internal/reghttp/http.go", "Read", "resp.readCur >= resp.readMax"},
	}
	norm := func(s string) string { return strings.Join(strings.Fields(s), " ") }
	var rows []string
	for _, p := range pins {
		f := parseFile(p.file)
		var found []string
		for _, decl := range f.Decls {
			fd, ok := decl.(*ast.FuncDecl)
			if !ok || fd.Body == nil || fd.Name.Name != p.fn {
				continue
			}
			ast.Inspect(fd.Body, func(n ast.Node) bool {
				if is, ok := n.(*ast.IfStmt); ok {
					if c := norm(src(is.Cond)); strings.Contains(c, p.marker) {
						found = append(found, c)
					}
				}
				return true
			})
		}
		if len(found) != 1 {
			die("condpins: shape not recognised: %d conditions containing %q in %s:%s (expected exactly one)", len(found), p.marker, p.file, p.fn)
		}
		rows = append(rows, fmt.Sprintf("  (%s, %s)", cq(p.name), cq(found[0])))
	}
	writeGen("CondPins.v", "Definition cond_pins : list (string * string) := [\n"+strings.Join(rows, ";\n")+"\n].\n")
}
