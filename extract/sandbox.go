package main

import (
	"fmt"
	"go/ast"
	"strings"
)

// genSandbox: every method `func (s *Sandbox) X(ls *lua.LState) int` of cmd/regbot/sandbox with the
// RegClient calls it contains (`s.rc.<M>(...)`), whether M changes registry/layout state, and whether the
// call is preceded in the same function by `if s.dryRun { ... return ... }`.  Also the Lua names each
// method is bound to.
func genSandbox() {
	mutating := map[string]bool{"BlobPut": true, "BlobDelete": true, "BlobCopy": true, "BlobMount": true, "ManifestPut": true,
		"ManifestDelete": true, "TagDelete": true, "ImageCopy": true, "ImageImport": true, "ImageMod": true, "ReferrerPut": true}
	known := map[string]bool{"BlobGet": true, "BlobHead": true, "BlobGetOCIConfig": true, "ManifestGet": true, "ManifestHead": true,
		"TagList": true, "RepoList": true, "ImageExport": true, "Close": true, "ReferrerList": true, "Ping": true, "ImageCheckBase": true}
	var rows, binds []string
	for _, rel := range goFiles("cmd/regbot/sandbox") {
		f := parseFile(rel)
		for _, decl := range f.Decls {
			fd, ok := decl.(*ast.FuncDecl)
			if !ok || fd.Body == nil {
				continue
			}
			ast.Inspect(fd.Body, func(n ast.Node) bool {
				if kv, ok := n.(*ast.KeyValueExpr); ok {
					if se, ok := kv.Value.(*ast.SelectorExpr); ok && src(se.X) == "s" {
						if bl, ok := kv.Key.(*ast.BasicLit); ok {
							binds = append(binds, fmt.Sprintf("  (%s, %s)", cq(strings.Trim(bl.Value, "\"")), cq(se.Sel.Name)))
						}
					}
				}
				return true
			})
			if fd.Recv == nil || !strings.Contains(src(fd.Recv.List[0].Type), "Sandbox") {
				continue
			}
			// position of the first `if s.dryRun { ...; return }`
			// only a gate that is a top-level statement of the function body dominates what follows it
			gatePos := -1
			for _, st := range fd.Body.List {
				is, ok := st.(*ast.IfStmt)
				if !ok || src(is.Cond) != "s.dryRun" || len(is.Body.List) == 0 || is.Else != nil {
					continue
				}
				if _, isRet := is.Body.List[len(is.Body.List)-1].(*ast.ReturnStmt); isRet && gatePos < 0 {
					gatePos = int(is.Pos())
				}
			}
			ast.Inspect(fd.Body, func(n ast.Node) bool {
				ce, ok := n.(*ast.CallExpr)
				if !ok {
					return true
				}
				se, ok := ce.Fun.(*ast.SelectorExpr)
				if !ok || src(se.X) != "s.rc" {
					return true
				}
				m := se.Sel.Name
				if !mutating[m] && !known[m] {
					die("sandbox: shape not recognised at %s:%d (unknown RegClient method %s: classify it in extract/sandbox.go)", rel, line(ce), m)
				}
				gated := gatePos >= 0 && gatePos < int(ce.Pos())
				rows = append(rows, fmt.Sprintf("  mkCall %s %s %d %s %s", cq(fd.Name.Name), cq(m), line(ce), cb(mutating[m]), cb(gated)))
				return true
			})
		}
	}
	if len(rows) < 8 {
		die("sandbox: shape not recognised: only %d RegClient calls found", len(rows))
	}
	body := "Record sbcall := mkCall { sc_fn : string; sc_method : string; sc_line : nat; sc_mutating : bool; sc_gated : bool }.\n" +
		"Definition sandbox_calls : list sbcall := [\n" + strings.Join(rows, ";\n") + "\n].\n" +
		"Definition sandbox_bindings : list (string * string) := [\n" + strings.Join(binds, ";\n") + "\n].\n"
	writeGen("SandboxFns.v", body)
}
