package main

import (
	"fmt"
	"go/ast"
	"strings"
)

// genRefLocks: every function that reads the referrers fallback list and writes it back (a call of
// referrerListByTag / referrerList followed by ManifestPut / manifestPut / TagDelete / tagDelete in the same body) in
// scheme/reg and scheme/ocidir, with whether the read-modify-write runs under the scheme's lock:
//   scheme/reg    - the body itself has the top-level statements `reg.muRefTag.Lock()` and `defer reg.muRefTag.Unlock()`
//                   before the read, and no other Unlock of that mutex;
//   scheme/ocidir - the function takes `o.mu` that way itself, or every function of the package that calls it is
//                   (transitively) in that situation and there is at least one caller.
func genRefLocks() {
	type fn struct {
		rel      string
		decl     *ast.FuncDecl
		lockLine int // top-level Lock() statement, 0 if none
		deferOK  bool
		unlocks  int // explicit (non-deferred) Unlock calls
		calls    map[string]bool
		readPos  int
		readLine int
		writes   int
	}
	var rows []string
	for _, pkg := range []struct{ dir, recv, mutex string }{{"scheme/reg", "reg", "muRefTag"}, {"scheme/ocidir", "o", "mu"}} {
		fns := map[string]*fn{}
		lockCall := pkg.recv + "." + pkg.mutex + ".Lock()"
		unlockCall := pkg.recv + "." + pkg.mutex + ".Unlock()"
		for _, rel := range goFiles(pkg.dir) {
			f := parseFile(rel)
			for _, decl := range f.Decls {
				fd, ok := decl.(*ast.FuncDecl)
				if !ok || fd.Body == nil || fd.Recv == nil {
					continue
				}
				x := &fn{rel: rel, decl: fd, calls: map[string]bool{}}
				for _, st := range fd.Body.List {
					switch s := st.(type) {
					case *ast.ExprStmt:
						if src(s.X) == lockCall && x.lockLine == 0 {
							x.lockLine = line(s)
						}
					case *ast.DeferStmt:
						if src(s.Call) == unlockCall && x.lockLine != 0 {
							x.deferOK = true
						}
					}
				}
				ast.Inspect(fd.Body, func(n ast.Node) bool {
					switch c := n.(type) {
					case *ast.DeferStmt:
						if src(c.Call) == unlockCall {
							return false // the deferred unlock is not an early one
						}
					case *ast.CallExpr:
						if src(c) == unlockCall {
							x.unlocks++
						}
						if se, ok := c.Fun.(*ast.SelectorExpr); ok && src(se.X) == pkg.recv {
							x.calls[se.Sel.Name] = true
							switch se.Sel.Name {
							case "referrerListByTag", "referrerList":
								if x.readPos == 0 {
									x.readPos, x.readLine = int(c.Pos()), line(c)
								}
							case "ManifestPut", "manifestPut", "TagDelete", "tagDelete":
								if x.readPos != 0 && int(c.Pos()) > x.readPos {
									x.writes++
								}
							}
						}
					}
					return true
				})
				fns[fd.Name.Name] = x
			}
		}
		var locked func(name string, seen map[string]bool) bool
		locked = func(name string, seen map[string]bool) bool {
			x := fns[name]
			if x == nil {
				return false
			}
			if seen[name] {
				return true // a call cycle adds no entry into the package: the other callers decide
			}
			if x.lockLine != 0 && x.deferOK && x.unlocks == 0 && (x.readLine == 0 || x.lockLine < x.readLine) {
				return true
			}
			if pkg.dir == "scheme/reg" {
				return false // sync.Mutex is not re-entrant: a reg function that updates the tag takes the lock itself
			}
			seen[name] = true
			defer delete(seen, name)
			n := 0
			for cn, c := range fns {
				if c.calls[name] && cn != name {
					n++
					if !locked(cn, seen) {
						return false
					}
				}
			}
			return n > 0
		}
		found := 0
		for _, name := range sortedKeys(fns) {
			x := fns[name]
			if x.readPos == 0 || x.writes == 0 {
				continue
			}
			found++
			rows = append(rows, fmt.Sprintf("  mkRL %s %s %d %s", cq(x.rel), cq(name), x.readLine, cb(locked(name, map[string]bool{}))))
		}
		if found == 0 {
			die("reflocks: shape not recognised: no read-modify-write of the referrers fallback list found in %s", pkg.dir)
		}
	}
	body := "Record rlsite := mkRL { rl_file : string; rl_func : string; rl_line : nat; rl_locked : bool }.\n" +
		"Definition ref_lock_sites : list rlsite := [\n" + strings.Join(rows, ";\n") + "\n].\n"
	writeGen("RefLockSites.v", body)
}

func sortedKeys[T any](m map[string]T) []string {
	var l []string
	for k := range m {
		l = append(l, k)
	}
	// insertion sort: tiny maps
	for i := 1; i < len(l); i++ {
		for j := i; j > 0 && strings.Compare(l[j-1], l[j]) > 0; j-- {
			l[j-1], l[j] = l[j], l[j-1]
		}
	}
	return l
}
