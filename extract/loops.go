package main

import (
	"fmt"
	"go/ast"
	"strings"
)

// genDeleteLoops: every loop of scheme/ocidir whose body deletes from the slice it walks
// (`<s> = slices.Delete(<s>, i, i+1)` with the loop variable i): is it the reverse loop
// `for i := len(<s>) - 1; i >= 0; i--` (or down to a lower bound: i > pos) that Model/C06_Loops.v transliterates (rev_loop), or a forward / range loop,
// which skips the element that follows a deleted one?
func genDeleteLoops() {
	var rows []string
	for _, rel := range goFiles("scheme/ocidir") {
		f := parseFile(rel)
		for _, decl := range f.Decls {
			fd, ok := decl.(*ast.FuncDecl)
			if !ok || fd.Body == nil {
				continue
			}
			ast.Inspect(fd.Body, func(n ast.Node) bool {
				var body *ast.BlockStmt
				kind, iv, sl := "", "", ""
				switch x := n.(type) {
				case *ast.ForStmt:
					body = x.Body
					as, ok := x.Init.(*ast.AssignStmt)
					if !ok || len(as.Lhs) != 1 {
						return true
					}
					iv = src(as.Lhs[0])
					init, cond, post := src(x.Init), "", ""
					if x.Cond != nil {
						cond = src(x.Cond)
					}
					if x.Post != nil {
						post = src(x.Post)
					}
					kind = "other: " + init + "; " + cond + "; " + post
					if strings.HasPrefix(init, iv+" := len(") && strings.HasSuffix(init, ") - 1") && (cond == iv+" >= 0" || strings.HasPrefix(cond, iv+" > ")) && post == iv+"--" {
						kind = "reverse"
						sl = strings.TrimSuffix(strings.TrimPrefix(init, iv+" := len("), ") - 1")
					} else if init == iv+" := 0" && post == iv+"++" {
						kind = "forward"
					}
				case *ast.RangeStmt:
					body = x.Body
					if x.Key == nil {
						return true
					}
					iv = src(x.Key)
					kind = "range"
					sl = src(x.X)
				default:
					return true
				}
				// does the body delete element iv of a slice?
				deletes := ""
				ast.Inspect(body, func(m ast.Node) bool {
					ce, ok := m.(*ast.CallExpr)
					if !ok || src(ce.Fun) != "slices.Delete" || len(ce.Args) != 3 {
						return true
					}
					if src(ce.Args[1]) == iv && strings.ReplaceAll(src(ce.Args[2]), " ", "") == iv+"+1" {
						deletes = src(ce.Args[0])
					}
					return true
				})
				if deletes == "" {
					return true
				}
				ok2 := kind == "reverse" && sl == deletes
				rows = append(rows, fmt.Sprintf("  mkDelLoop %s %s %d %s %s %s", cq(rel), cq(fd.Name.Name), line(n), cq(kind), cq(deletes), cb(ok2)))
				return true
			})
		}
	}
	if len(rows) < 2 {
		die("deleteloops: shape not recognised: %d delete-while-iterating loops found in scheme/ocidir (TagDelete and ManifestDelete have one each)", len(rows))
	}
	body := "Record delloop := mkDelLoop { dl_file : string; dl_func : string; dl_line : nat; dl_kind : string; dl_slice : string; dl_reverse : bool }.\n" +
		"Definition delete_loops : list delloop := [\n" + strings.Join(rows, ";\n") + "\n].\n"
	writeGen("DeleteLoops.v", body)
}
