package main

import (
	"fmt"
	"go/ast"
	"strings"
)

// genSetters: every pointer-receiver method of types/manifest that stores into a field of its receiver (the
// setters of the manifest structs): does it end in `return m.updateDesc()` (the funnel that re-serialises the struct
// and recomputes digest and size), or does it assign rawBody and desc itself from one marshalled byte slice
// (schema1 SetOrig)?  And the shape of every updateDesc: json.Marshal of the embedded struct, rawBody = that slice,
// desc.Digest = ...FromBytes(that slice), desc.Size = int64(len(that slice)).
func genSetters() {
	var rows, uds []string
	for _, rel := range goFiles("types/manifest") {
		f := parseFile(rel)
		for _, decl := range f.Decls {
			fd, ok := decl.(*ast.FuncDecl)
			if !ok || fd.Body == nil || fd.Recv == nil || len(fd.Recv.List) != 1 || len(fd.Recv.List[0].Names) != 1 {
				continue
			}
			st, ok := fd.Recv.List[0].Type.(*ast.StarExpr)
			if !ok {
				continue
			}
			recv := fd.Recv.List[0].Names[0].Name
			typ := src(st.X)
			if typ == "common" {
				continue // response metadata (rate limit), not part of the manifest value
			}
			// fields of the receiver that are stored into: assignments, map stores, delete(), ++/--
			fields := map[string]bool{}
			rootField := func(e ast.Expr) string {
				for {
					switch x := e.(type) {
					case *ast.IndexExpr:
						e = x.X
					case *ast.StarExpr:
						e = x.X
					case *ast.ParenExpr:
						e = x.X
					case *ast.SelectorExpr:
						if id, ok := x.X.(*ast.Ident); ok && id.Name == recv {
							return x.Sel.Name
						}
						e = x.X
					default:
						return ""
					}
				}
			}
			ast.Inspect(fd.Body, func(n ast.Node) bool {
				switch x := n.(type) {
				case *ast.AssignStmt:
					for _, l := range x.Lhs {
						if fl := rootField(l); fl != "" {
							fields[fl] = true
						}
					}
				case *ast.IncDecStmt:
					if fl := rootField(x.X); fl != "" {
						fields[fl] = true
					}
				case *ast.CallExpr:
					if id, ok := x.Fun.(*ast.Ident); ok && (id.Name == "delete" || id.Name == "clear") && len(x.Args) > 0 {
						if fl := rootField(x.Args[0]); fl != "" {
							fields[fl] = true
						}
					}
				}
				return true
			})
			if fd.Name.Name == "updateDesc" {
				uds = append(uds, fmt.Sprintf("  (%s, %s)", cq(typ), cb(updateDescShape(fd, recv))))
				continue
			}
			content := false // a stored field other than the bookkeeping ones
			for fl := range fields {
				if fl != "manifSet" && fl != "rawBody" && fl != "desc" {
					content = true
				}
			}
			if len(fields) == 0 {
				continue
			}
			funnel := false
			if n := len(fd.Body.List); n > 0 {
				if rs, ok := fd.Body.List[n-1].(*ast.ReturnStmt); ok && len(rs.Results) == 1 && src(rs.Results[0]) == recv+".updateDesc()" {
					funnel = true
				}
			}
			inline := fields["rawBody"] && fields["desc"] && inlineDescShape(fd, recv)
			rows = append(rows, fmt.Sprintf("  mkSetter %s %s %d %s %s %s", cq(typ), cq(fd.Name.Name), line(fd), cb(content), cb(funnel), cb(inline)))
		}
	}
	if len(rows) < 15 || len(uds) < 5 {
		die("setters: shape not recognised: %d storing methods, %d updateDesc found in types/manifest", len(rows), len(uds))
	}
	body := "Record setter := mkSetter { st_type : string; st_method : string; st_line : nat; st_content : bool; st_funnel : bool; st_inline : bool }.\n" +
		"Definition manifest_setters : list setter := [\n" + strings.Join(rows, ";\n") + "\n].\n" +
		"Definition update_desc_shapes : list (string * bool) := [\n" + strings.Join(uds, ";\n") + "\n].\n"
	writeGen("ManifestSetters.v", body)
}

// updateDescShape: `mj, err := json.Marshal(m.X)` ... `m.rawBody = mj` ... `m.desc = descriptor.Descriptor{...
// Digest: <anything>.FromBytes(mj), Size: int64(len(mj))}` in this order, and nothing else stored into the receiver
func updateDescShape(fd *ast.FuncDecl, recv string) bool {
	v := ""
	stage := 0
	for _, st := range fd.Body.List {
		as, ok := st.(*ast.AssignStmt)
		if !ok {
			continue
		}
		switch {
		case stage == 0 && len(as.Rhs) == 1 && strings.HasPrefix(src(as.Rhs[0]), "json.Marshal("+recv+"."):
			v = src(as.Lhs[0])
			stage = 1
		case stage == 1 && len(as.Lhs) == 1 && src(as.Lhs[0]) == recv+".rawBody" && src(as.Rhs[0]) == v:
			stage = 2
		case stage == 2 && len(as.Lhs) == 1 && src(as.Lhs[0]) == recv+".desc":
			if descLiteralOf(as.Rhs[0], v, "") {
				stage = 3
			}
		}
	}
	return stage == 3
}

// descLiteralOf: a descriptor.Descriptor literal whose Digest is <x>.FromBytes(v) (or FromBytes(alt) when alt is
// given) and whose Size is int64(len(v))
func descLiteralOf(e ast.Expr, v, alt string) bool {
	cl, ok := e.(*ast.CompositeLit)
	if !ok {
		return false
	}
	dig, size := false, false
	for _, el := range cl.Elts {
		kv, ok := el.(*ast.KeyValueExpr)
		if !ok {
			continue
		}
		switch src(kv.Key) {
		case "Digest":
			s := src(kv.Value)
			dig = strings.HasSuffix(s, ".FromBytes("+v+")") || (alt != "" && strings.HasSuffix(s, ".FromBytes("+alt+")"))
		case "Size":
			s := src(kv.Value)
			size = s == "int64(len("+v+"))" || (alt != "" && s == "int64(len("+alt+"))")
		}
	}
	return dig && size
}

// inlineDescShape: the schema1 SetOrig shape: `mj, err := json.Marshal(orig)`, `m.rawBody = mj`, `m.desc =
// Descriptor{Digest: FromBytes(mj) | FromBytes(orig.Canonical), Size: int64(len(mj)) | int64(len(orig.Canonical))}`
func inlineDescShape(fd *ast.FuncDecl, recv string) bool {
	v := ""
	raw, desc := false, false
	for _, st := range fd.Body.List {
		as, ok := st.(*ast.AssignStmt)
		if !ok || len(as.Rhs) != 1 {
			continue
		}
		switch {
		case strings.HasPrefix(src(as.Rhs[0]), "json.Marshal("):
			v = src(as.Lhs[0])
		case v != "" && src(as.Lhs[0]) == recv+".rawBody" && src(as.Rhs[0]) == v:
			raw = true
		case v != "" && src(as.Lhs[0]) == recv+".desc":
			desc = descLiteralOf(as.Rhs[0], v, "orig.Canonical")
		}
	}
	return raw && desc
}
