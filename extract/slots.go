package main

import (
	"fmt"
	"go/ast"
	"strings"
)

// genSlots: how reghttp's Resp.next treats the host throttle slot of a request.
//   - before anything is acquired, the slot of a previous attempt of the same response (a resumed read or a seek) is
//     given back: a top-level `if resp.throttleDone != nil { resp.throttleDone(); ... }` precedes the loop;
//   - inside the loop, after `throttleDone, throttleErr := h.throttle.Acquire(...)`, every way out of the function
//     either hands the slot to the response (`resp.throttleDone = throttleDone`) or gives it back (`throttleDone()`)
//     first - one row per return statement (returns of the inner closure are not ways out of next).
func genSlots() {
	rel := "internal/reghttp/http.go"
	f := parseFile(rel)
	var fn *ast.FuncDecl
	for _, decl := range f.Decls {
		if fd, ok := decl.(*ast.FuncDecl); ok && fd.Name.Name == "next" && fd.Recv != nil && strings.Contains(src(fd.Recv.List[0].Type), "Resp") {
			fn = fd
		}
	}
	if fn == nil {
		die("slots: shape not recognised: func (resp *Resp) next not found in %s", rel)
	}
	norm := func(s string) string { return strings.Join(strings.Fields(s), " ") }
	var loop *ast.ForStmt
	prevReleased := false
	for _, st := range fn.Body.List {
		if fs, ok := st.(*ast.ForStmt); ok {
			loop = fs
			break
		}
		if is, ok := st.(*ast.IfStmt); ok && norm(src(is.Cond)) == "resp.throttleDone != nil" && strings.Contains(norm(src(is.Body)), "resp.throttleDone()") {
			prevReleased = true
		}
	}
	if loop == nil {
		die("slots: shape not recognised: no for loop in Resp.next")
	}
	acq := -1
	for i, st := range loop.Body.List {
		if strings.Contains(norm(src(st)), "h.throttle.Acquire(") {
			acq = i
			break
		}
	}
	if acq < 0 {
		die("slots: shape not recognised: no h.throttle.Acquire in the loop of Resp.next")
	}
	releases := func(st ast.Stmt) bool {
		s := norm(src(st))
		return s == "throttleDone()" || s == "resp.throttleDone = throttleDone"
	}
	var rows []string
	// walk the statements after the acquisition; `released` = a release dominates the current position
	var walk func(list []ast.Stmt, released bool)
	walk = func(list []ast.Stmt, released bool) {
		for _, st := range list {
			switch x := st.(type) {
			case *ast.ReturnStmt:
				kind := "return"
				if norm(src(x)) == "return throttleErr" {
					kind = "acquire-failed" // nothing was acquired
				}
				rows = append(rows, fmt.Sprintf("  mkSlotExit %d %s %s", line(x), cq(kind), cb(released || kind == "acquire-failed")))
			case *ast.IfStmt:
				walk(x.Body.List, released)
				if eb, ok := x.Else.(*ast.BlockStmt); ok {
					walk(eb.List, released)
				} else if ei, ok := x.Else.(*ast.IfStmt); ok {
					walk([]ast.Stmt{ei}, released)
				}
			case *ast.BlockStmt:
				walk(x.List, released)
			case *ast.ForStmt, *ast.RangeStmt, *ast.SwitchStmt, *ast.SelectStmt:
				die("slots: shape not recognised at %s:%d (a loop / switch / select after the acquisition)", rel, line(st))
			default:
				if releases(st) {
					released = true
				}
			}
		}
	}
	walk(loop.Body.List[acq+1:], false)
	if len(rows) < 2 {
		die("slots: shape not recognised: %d ways out of Resp.next after the acquisition", len(rows))
	}
	body := "Record slot_exit := mkSlotExit { se_line : nat; se_kind : string; se_released_or_handed_over : bool }.\n" +
		"Definition prev_slot_released_before_acquire : bool := " + cb(prevReleased) + ".\n" +
		"Definition slot_exits : list slot_exit := [\n" + strings.Join(rows, ";\n") + "\n].\n"
	writeGen("ThrottleSites.v", body)
}
