package main

import (
	"fmt"
	"go/ast"
	"go/token"
	"strings"
)

// genCacheDrops: where reg ManifestPut / ManifestDelete drop the cached referrer list of a subject, relative to the
// request that changes the registry (`reg.reghttp.Do(`): a `reg.cacheRL.Delete(` call that stands after the request or is
// deferred runs once the registry has applied the update ("after"); one that stands before it (ManifestDelete: also the
// call of referrerDelete, which drops the entry itself) runs while the old list can still be fetched ("before").
func genCacheDrops() {
	rel := "scheme/reg/manifest.go"
	f := parseFile(rel)
	var rows []string
	for _, fn := range []string{"ManifestPut", "ManifestDelete"} {
		var fd *ast.FuncDecl
		for _, decl := range f.Decls {
			if d, ok := decl.(*ast.FuncDecl); ok && d.Name.Name == fn && d.Recv != nil {
				fd = d
			}
		}
		if fd == nil {
			die("cachedrops: shape not recognised: %s not found in %s", fn, rel)
		}
		var do token.Pos
		ndo := 0
		deferred := map[ast.Node]bool{}
		ast.Inspect(fd.Body, func(n ast.Node) bool {
			if ds, ok := n.(*ast.DeferStmt); ok {
				deferred[ds.Call] = true
			}
			if ce, ok := n.(*ast.CallExpr); ok && strings.HasPrefix(src(ce), "reg.reghttp.Do(") {
				do = ce.Pos()
				ndo++
			}
			return true
		})
		if ndo != 1 {
			die("cachedrops: shape not recognised: %d requests in %s (expected one)", ndo, fn)
		}
		before, after := false, false
		ast.Inspect(fd.Body, func(n ast.Node) bool {
			ce, ok := n.(*ast.CallExpr)
			if !ok {
				return true
			}
			s := src(ce)
			switch {
			case strings.HasPrefix(s, "reg.cacheRL.Delete("):
				if deferred[ce] || ce.Pos() > do {
					after = true
				} else {
					before = true
				}
			case strings.HasPrefix(s, "reg.referrerDelete(") && ce.Pos() < do:
				before = true
			}
			return true
		})
		rows = append(rows, fmt.Sprintf("  mkDrop %s %s %s", cq(fn), cb(before), cb(after)))
	}
	writeGen("CacheDrops.v", "Record drop_site := mkDrop { ds_func : string; ds_before : bool; ds_after : bool }.\nDefinition cache_drop_sites : list drop_site := [\n"+strings.Join(rows, ";\n")+"\n].\n")
}
