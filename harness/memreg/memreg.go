// Package memreg is an in-memory OCI distribution registry written for the harness: raw state is
// directly inspectable, every feature the client adapts to is switchable, every request is recorded, and
// a fault/gate hook sees every request first.  It is a model of a conforming registry, not a copy of one.
package memreg

import (
	"bytes"
	"crypto/sha256"
	"crypto/sha512"
	"encoding/base64"
	"encoding/hex"
	"encoding/json"
	"fmt"
	"io"
	"net/http"
	"sort"
	"strconv"
	"strings"
	"sync"
)

type Man struct {
	MT   string
	Body []byte
}
type Upload struct {
	Data  []byte
	Short bool // a chunk below the announced minimum was stored: it has to be the last one
}
type Repo struct {
	Blobs     map[string][]byte
	Manifests map[string]Man
	Tags      map[string]string
	Uploads   map[string]*Upload
}

type Features struct {
	TagDelete        bool // DELETE /manifests/<tag>
	Delete           bool // DELETE /manifests/<digest>, blobs
	ReferrersAPI     bool
	ReferrersPage    int // entries per page (0 = all)
	TagPage          int // tags per page when the client does not ask (0 = all)
	MountGrant       bool
	NoHeadDigest     bool            // omit Docker-Content-Digest on manifest HEAD
	ValidateChildren bool            // reject a manifest whose blobs/child manifests are missing
	ChunkMin         int             // OCI-Chunk-Min-Length announced on POST
	ChunkMinStrict   bool            // ... and enforced: a chunk below it must be the last one of the session
	EmptyRange00     bool            // report an empty session as "Range: 0-0" like docker/distribution
	CatalogPage      int             // repositories per catalog page when the client does not ask (0 = all)
	TagHidden        map[string]bool // tags left out of listings AFTER the page was cut (pages may be short or empty yet linked)
}

type PutRecord struct {
	N       int
	Repo    string
	Ref     string
	Digest  string
	Missing []string // referenced digests absent from the repository when the manifest was accepted
}

type Registry struct {
	mu    sync.Mutex
	Name  string
	Repos map[string]*Repo
	F     Features
	Puts  []PutRecord
	upSeq int
	// Hook, when set, sees every request before the registry does; a non-nil response is returned as is
	Hook func(req *http.Request, body []byte, n int) *http.Response
}

func New(name string, f Features) *Registry {
	return &Registry{Name: name, Repos: map[string]*Repo{}, F: f}
}

func (r *Registry) repo(name string, create bool) *Repo {
	rp := r.Repos[name]
	if rp == nil && create {
		rp = &Repo{Blobs: map[string][]byte{}, Manifests: map[string]Man{}, Tags: map[string]string{}, Uploads: map[string]*Upload{}}
		r.Repos[name] = rp
	}
	return rp
}

func Digest(alg string, b []byte) string {
	if alg == "sha512" {
		s := sha512.Sum512(b)
		return "sha512:" + hex.EncodeToString(s[:])
	}
	s := sha256.Sum256(b)
	return "sha256:" + hex.EncodeToString(s[:])
}
func algOf(d string) string {
	if i := strings.IndexByte(d, ':'); i > 0 {
		return d[:i]
	}
	return "sha256"
}
func validDigest(d string) bool {
	i := strings.IndexByte(d, ':')
	if i <= 0 {
		return false
	}
	want := map[string]int{"sha256": 64, "sha512": 128}[d[:i]]
	if want == 0 || len(d)-i-1 != want {
		return false
	}
	_, err := hex.DecodeString(d[i+1:])
	return err == nil && strings.ToLower(d) == d
}

func resp(status int, hdr map[string]string, body []byte) *http.Response {
	h := http.Header{}
	for k, v := range hdr {
		h.Set(k, v)
	}
	if _, ok := hdr["Content-Length"]; !ok {
		h.Set("Content-Length", strconv.Itoa(len(body)))
	}
	return &http.Response{StatusCode: status, Status: http.StatusText(status), Header: h, Body: io.NopCloser(bytes.NewReader(body)), ContentLength: int64(len(body))}
}
func errResp(status int, code string) *http.Response {
	b, _ := json.Marshal(map[string]any{"errors": []map[string]string{{"code": code, "message": code}}})
	return resp(status, map[string]string{"Content-Type": "application/json"}, b)
}

// References extracts the digests a manifest body refers to: (blobs, manifests, subject)
// ManifestDigest: the digest a registry gives a manifest - of its bytes, except for a signed schema1 manifest (a JWS
// envelope in libtrust's pretty form) where it is the digest of the payload: the bytes up to formatLength plus the
// decoded formatTail recorded in the first signature's protected header
func ManifestDigest(alg string, body []byte) string {
	return Digest(alg, ManifestPayload(body))
}
func ManifestPayload(body []byte) []byte {
	var env struct {
		SchemaVersion int `json:"schemaVersion"`
		Signatures    []struct {
			Protected string `json:"protected"`
		} `json:"signatures"`
	}
	if json.Unmarshal(body, &env) != nil || env.SchemaVersion != 1 || len(env.Signatures) == 0 {
		return body
	}
	pb, err := base64.RawURLEncoding.DecodeString(strings.TrimRight(env.Signatures[0].Protected, "="))
	if err != nil {
		return body
	}
	var prot struct {
		FormatLength int    `json:"formatLength"`
		FormatTail   string `json:"formatTail"`
	}
	if json.Unmarshal(pb, &prot) != nil || prot.FormatLength <= 0 || prot.FormatLength > len(body) {
		return body
	}
	tail, err := base64.RawURLEncoding.DecodeString(strings.TrimRight(prot.FormatTail, "="))
	if err != nil {
		return body
	}
	return append(append([]byte{}, body[:prot.FormatLength]...), tail...)
}

func References(body []byte) (blobs, mans []string, subject string) {
	var m struct {
		FSLayers []struct {
			BlobSum string `json:"blobSum"`
		} `json:"fsLayers"`
		Config *struct{ Digest string } `json:"config"`
		Layers []struct {
			Digest    string
			URLs      []string `json:"urls"`
			MediaType string   `json:"mediaType"`
		} `json:"layers"`
		Blobs     []struct{ Digest string }            `json:"blobs"`
		Manifests []struct{ Digest, MediaType string } `json:"manifests"`
		Subject   *struct{ Digest string }             `json:"subject"`
	}
	if json.Unmarshal(body, &m) != nil {
		return
	}
	if m.Config != nil && m.Config.Digest != "" {
		blobs = append(blobs, m.Config.Digest)
	}
	for _, l := range m.Layers {
		if len(l.URLs) > 0 || strings.Contains(l.MediaType, "foreign") {
			continue
		}
		blobs = append(blobs, l.Digest)
	}
	for _, l := range m.Blobs {
		blobs = append(blobs, l.Digest)
	}
	for _, l := range m.FSLayers {
		blobs = append(blobs, l.BlobSum)
	}
	for _, c := range m.Manifests {
		mans = append(mans, c.Digest)
	}
	if m.Subject != nil {
		subject = m.Subject.Digest
	}
	return
}

func splitPath(p string) (repo, kind, rest string, ok bool) {
	if !strings.HasPrefix(p, "/v2/") {
		return
	}
	p = p[4:]
	for _, k := range []string{"/blobs/uploads/", "/blobs/", "/manifests/", "/tags/list", "/referrers/"} {
		if i := strings.LastIndex(p, k); i > 0 {
			return p[:i], strings.Trim(k, "/"), p[i+len(k):], true
		}
	}
	return
}

// Handle serves one request (the memrt.RT handler signature).
func (r *Registry) Handle(req *http.Request, body []byte, n int) *http.Response {
	if r.Hook != nil {
		if rs := r.Hook(req, body, n); rs != nil {
			return rs
		}
	}
	r.mu.Lock()
	defer r.mu.Unlock()
	p := req.URL.Path
	if p == "/v2/" || p == "/v2" {
		return resp(200, nil, []byte("{}"))
	}
	if p == "/v2/_catalog" {
		return r.catalog(req)
	}
	repo, kind, rest, ok := splitPath(p)
	if !ok {
		return errResp(404, "NOT_FOUND")
	}
	switch kind {
	case "blobs":
		return r.blob(req, repo, rest)
	case "blobs/uploads":
		return r.upload(req, body, repo, rest)
	case "manifests":
		return r.manifest(req, body, repo, rest, n)
	case "tags/list":
		return r.tags(req, repo)
	case "referrers":
		return r.referrers(req, repo, rest)
	}
	return errResp(404, "NOT_FOUND")
}

func (r *Registry) catalog(req *http.Request) *http.Response {
	var names []string
	for k := range r.Repos {
		names = append(names, k)
	}
	sort.Strings(names)
	names, link := page(names, req, "/v2/_catalog", r.F.CatalogPage)
	b, _ := json.Marshal(map[string]any{"repositories": names})
	h := map[string]string{"Content-Type": "application/json"}
	if link != "" {
		h["Link"] = link
	}
	return resp(200, h, b)
}

func page(all []string, req *http.Request, base string, defPage int) ([]string, string) {
	q := req.URL.Query()
	last := q.Get("last")
	n, _ := strconv.Atoi(q.Get("n"))
	if n <= 0 {
		n = defPage
	}
	start := 0
	if last != "" {
		start = sort.SearchStrings(all, last)
		if start < len(all) && all[start] == last {
			start++
		}
	}
	all = all[start:]
	if n > 0 && len(all) > n {
		out := all[:n]
		qq := req.URL.Query()
		qq.Set("last", out[len(out)-1])
		qq.Set("n", strconv.Itoa(n))
		return out, fmt.Sprintf("<%s?%s>; rel=\"next\"", base, qq.Encode())
	}
	return all, ""
}

func (r *Registry) tags(req *http.Request, repo string) *http.Response {
	rp := r.repo(repo, false)
	if rp == nil {
		return errResp(404, "NAME_UNKNOWN")
	}
	var tl []string
	for t := range rp.Tags {
		tl = append(tl, t)
	}
	sort.Strings(tl)
	tl, link := page(tl, req, "/v2/"+repo+"/tags/list", r.F.TagPage)
	if len(r.F.TagHidden) > 0 {
		var vis []string
		for _, t := range tl {
			if !r.F.TagHidden[t] {
				vis = append(vis, t)
			}
		}
		tl = vis
	}
	if tl == nil {
		tl = []string{}
	}
	b, _ := json.Marshal(map[string]any{"name": repo, "tags": tl})
	h := map[string]string{"Content-Type": "application/json"}
	if link != "" {
		h["Link"] = link
	}
	return resp(200, h, b)
}

func (r *Registry) blob(req *http.Request, repo, dig string) *http.Response {
	rp := r.repo(repo, false)
	if rp == nil {
		return errResp(404, "NAME_UNKNOWN")
	}
	b, ok := rp.Blobs[dig]
	switch req.Method {
	case "HEAD", "GET":
		if !ok {
			return errResp(404, "BLOB_UNKNOWN")
		}
		h := map[string]string{"Content-Type": "application/octet-stream", "Docker-Content-Digest": dig}
		if rg := req.Header.Get("Range"); rg != "" && req.Method == "GET" {
			var s int
			if _, err := fmt.Sscanf(rg, "bytes=%d-", &s); err == nil && s <= len(b) {
				h["Content-Range"] = fmt.Sprintf("bytes %d-%d/%d", s, len(b)-1, len(b))
				return resp(206, h, b[s:])
			}
		}
		if req.Method == "HEAD" {
			h["Content-Length"] = strconv.Itoa(len(b))
			return resp(200, h, nil)
		}
		return resp(200, h, b)
	case "DELETE":
		if !r.F.Delete {
			return errResp(405, "UNSUPPORTED")
		}
		if !ok {
			return errResp(404, "BLOB_UNKNOWN")
		}
		delete(rp.Blobs, dig)
		return resp(202, nil, nil)
	}
	return errResp(405, "UNSUPPORTED")
}

func (r *Registry) upload(req *http.Request, body []byte, repo, id string) *http.Response {
	q := req.URL.Query()
	rp := r.repo(repo, true)
	loc := func(id string) string { return "/v2/" + repo + "/blobs/uploads/" + id }
	rangeHdr := func(u *Upload) string {
		if len(u.Data) == 0 {
			if r.F.EmptyRange00 {
				return "0-0"
			}
			return ""
		}
		return fmt.Sprintf("0-%d", len(u.Data)-1)
	}
	if id == "" {
		if req.Method != "POST" {
			return errResp(405, "UNSUPPORTED")
		}
		if m := q.Get("mount"); m != "" {
			if from := r.repo(q.Get("from"), false); from != nil && r.F.MountGrant {
				if b, ok := from.Blobs[m]; ok {
					rp.Blobs[m] = b
					return resp(201, map[string]string{"Location": "/v2/" + repo + "/blobs/" + m, "Docker-Content-Digest": m}, nil)
				}
			}
			if b, ok := rp.Blobs[m]; ok && q.Get("from") == "" {
				_ = b
				return resp(201, map[string]string{"Location": "/v2/" + repo + "/blobs/" + m, "Docker-Content-Digest": m}, nil)
			}
		}
		if d := q.Get("digest"); d != "" {
			if Digest(algOf(d), body) != d {
				return errResp(400, "DIGEST_INVALID")
			}
			rp.Blobs[d] = body
			return resp(201, map[string]string{"Location": "/v2/" + repo + "/blobs/" + d, "Docker-Content-Digest": d}, nil)
		}
		r.upSeq++
		nid := fmt.Sprintf("u%d", r.upSeq)
		rp.Uploads[nid] = &Upload{}
		h := map[string]string{"Location": loc(nid), "Docker-Upload-UUID": nid}
		if rg := rangeHdr(rp.Uploads[nid]); rg != "" {
			h["Range"] = rg
		}
		if r.F.ChunkMin > 0 {
			h["OCI-Chunk-Min-Length"] = strconv.Itoa(r.F.ChunkMin)
		}
		return resp(202, h, nil)
	}
	u := rp.Uploads[id]
	if u == nil {
		return errResp(404, "BLOB_UPLOAD_UNKNOWN")
	}
	switch req.Method {
	case "GET":
		h := map[string]string{"Location": loc(id), "Docker-Upload-UUID": id}
		if rg := rangeHdr(u); rg != "" {
			h["Range"] = rg
		}
		return resp(204, h, nil)
	case "PATCH":
		if cr := req.Header.Get("Content-Range"); cr != "" {
			var s, e int
			if _, err := fmt.Sscanf(cr, "%d-%d", &s, &e); err != nil || s != len(u.Data) {
				h := map[string]string{"Location": loc(id)}
				if rg := rangeHdr(u); rg != "" {
					h["Range"] = rg
				}
				return resp(416, h, nil)
			}
		}
		// a registry that announced OCI-Chunk-Min-Length takes a shorter chunk only as the last one of the session
		if r.F.ChunkMinStrict && r.F.ChunkMin > 0 && u.Short {
			h := map[string]string{"Location": loc(id)}
			if rg := rangeHdr(u); rg != "" {
				h["Range"] = rg
			}
			return resp(416, h, nil)
		}
		if r.F.ChunkMin > 0 && len(body) < r.F.ChunkMin {
			u.Short = true
		}
		u.Data = append(u.Data, body...)
		return resp(202, map[string]string{"Location": loc(id), "Range": rangeHdr(u), "Docker-Upload-UUID": id}, nil)
	case "PUT":
		d := q.Get("digest")
		data := append(append([]byte(nil), u.Data...), body...)
		if d == "" || Digest(algOf(d), data) != d {
			return errResp(400, "DIGEST_INVALID")
		}
		rp.Blobs[d] = data
		delete(rp.Uploads, id)
		return resp(201, map[string]string{"Location": "/v2/" + repo + "/blobs/" + d, "Docker-Content-Digest": d}, nil)
	case "DELETE":
		delete(rp.Uploads, id)
		return resp(204, nil, nil)
	}
	return errResp(405, "UNSUPPORTED")
}

func isDigest(s string) bool { return strings.Contains(s, ":") }

func (r *Registry) manifest(req *http.Request, body []byte, repo, ref string, n int) *http.Response {
	create := req.Method == "PUT"
	rp := r.repo(repo, create)
	if rp == nil {
		return errResp(404, "NAME_UNKNOWN")
	}
	resolve := func() (string, bool) {
		if isDigest(ref) {
			_, ok := rp.Manifests[ref]
			return ref, ok
		}
		d, ok := rp.Tags[ref]
		return d, ok
	}
	switch req.Method {
	case "HEAD", "GET":
		d, ok := resolve()
		if !ok {
			return errResp(404, "MANIFEST_UNKNOWN")
		}
		m := rp.Manifests[d]
		h := map[string]string{"Content-Type": m.MT, "Docker-Content-Digest": d}
		if req.Method == "HEAD" {
			if r.F.NoHeadDigest {
				delete(h, "Docker-Content-Digest")
			}
			h["Content-Length"] = strconv.Itoa(len(m.Body))
			return resp(200, h, nil)
		}
		return resp(200, h, m.Body)
	case "PUT":
		alg := "sha256"
		if isDigest(ref) {
			alg = algOf(ref)
		}
		d := ManifestDigest(alg, body)
		if isDigest(ref) && d != ref {
			return errResp(400, "DIGEST_INVALID")
		}
		var probe map[string]any
		if json.Unmarshal(body, &probe) != nil {
			return errResp(400, "MANIFEST_INVALID")
		}
		blobs, mans, subject := References(body)
		var missing []string
		for _, b := range blobs {
			if _, ok := rp.Blobs[b]; !ok {
				missing = append(missing, b)
			}
		}
		for _, c := range mans {
			if _, ok := rp.Manifests[c]; !ok {
				if _, ok2 := rp.Blobs[c]; !ok2 {
					missing = append(missing, c)
				}
			}
		}
		if r.F.ValidateChildren && len(missing) > 0 {
			return errResp(400, "MANIFEST_BLOB_UNKNOWN")
		}
		r.Puts = append(r.Puts, PutRecord{N: n, Repo: repo, Ref: ref, Digest: d, Missing: missing})
		mt := req.Header.Get("Content-Type")
		if bmt, ok := probe["mediaType"].(string); ok && bmt != "" && mt == "" {
			mt = bmt
		}
		rp.Manifests[d] = Man{MT: mt, Body: append([]byte(nil), body...)}
		if !isDigest(ref) {
			rp.Tags[ref] = d
		}
		h := map[string]string{"Location": "/v2/" + repo + "/manifests/" + d, "Docker-Content-Digest": d}
		if subject != "" && r.F.ReferrersAPI {
			h["OCI-Subject"] = subject
		}
		return resp(201, h, nil)
	case "DELETE":
		if !isDigest(ref) {
			if !r.F.TagDelete {
				return errResp(405, "UNSUPPORTED")
			}
			if _, ok := rp.Tags[ref]; !ok {
				return errResp(404, "MANIFEST_UNKNOWN")
			}
			delete(rp.Tags, ref)
			return resp(202, nil, nil)
		}
		if !r.F.Delete {
			return errResp(405, "UNSUPPORTED")
		}
		if _, ok := rp.Manifests[ref]; !ok {
			return errResp(404, "MANIFEST_UNKNOWN")
		}
		delete(rp.Manifests, ref)
		for t, d := range rp.Tags {
			if d == ref {
				delete(rp.Tags, t)
			}
		}
		return resp(202, nil, nil)
	}
	return errResp(405, "UNSUPPORTED")
}

func (r *Registry) referrers(req *http.Request, repo, dig string) *http.Response {
	if !r.F.ReferrersAPI {
		return errResp(404, "NOT_FOUND")
	}
	rp := r.repo(repo, false)
	type desc struct {
		MediaType    string            `json:"mediaType"`
		Digest       string            `json:"digest"`
		Size         int               `json:"size"`
		ArtifactType string            `json:"artifactType,omitempty"`
		Annotations  map[string]string `json:"annotations,omitempty"`
	}
	var list []desc
	if rp != nil {
		var keys []string
		for d := range rp.Manifests {
			keys = append(keys, d)
		}
		sort.Strings(keys)
		for _, d := range keys {
			m := rp.Manifests[d]
			var mm struct {
				MediaType    string                      `json:"mediaType"`
				ArtifactType string                      `json:"artifactType"`
				Config       *struct{ MediaType string } `json:"config"`
				Subject      *struct{ Digest string }    `json:"subject"`
				Annotations  map[string]string           `json:"annotations"`
			}
			if json.Unmarshal(m.Body, &mm) != nil || mm.Subject == nil || mm.Subject.Digest != dig {
				continue
			}
			at := mm.ArtifactType
			if at == "" && mm.Config != nil {
				at = mm.Config.MediaType
			}
			list = append(list, desc{MediaType: m.MT, Digest: d, Size: len(m.Body), ArtifactType: at, Annotations: mm.Annotations})
		}
	}
	h := map[string]string{"Content-Type": "application/vnd.oci.image.index.v1+json"}
	if at := req.URL.Query().Get("artifactType"); at != "" {
		var f []desc
		for _, d := range list {
			if d.ArtifactType == at {
				f = append(f, d)
			}
		}
		list = f
		h["OCI-Filters-Applied"] = "artifactType"
	}
	start, _ := strconv.Atoi(req.URL.Query().Get("page"))
	if r.F.ReferrersPage > 0 {
		end := start + r.F.ReferrersPage
		if end < len(list) {
			q := req.URL.Query()
			q.Set("page", strconv.Itoa(end))
			h["Link"] = fmt.Sprintf("</v2/%s/referrers/%s?%s>; rel=\"next\"", repo, dig, q.Encode())
			list = list[start:end]
		} else if start <= len(list) {
			list = list[start:]
		}
	}
	if list == nil {
		list = []desc{}
	}
	b, _ := json.Marshal(map[string]any{"schemaVersion": 2, "mediaType": "application/vnd.oci.image.index.v1+json", "manifests": list})
	return resp(200, h, b)
}

// ---- direct state access for harnesses ----
func (r *Registry) Lock()   { r.mu.Lock() }
func (r *Registry) Unlock() { r.mu.Unlock() }
func (r *Registry) PutBlob(repo string, b []byte) string {
	r.mu.Lock()
	defer r.mu.Unlock()
	d := Digest("sha256", b)
	r.repo(repo, true).Blobs[d] = b
	return d
}
func (r *Registry) PutManifest(repo, tag, mt string, body []byte) string {
	r.mu.Lock()
	defer r.mu.Unlock()
	d := ManifestDigest("sha256", body)
	rp := r.repo(repo, true)
	rp.Manifests[d] = Man{MT: mt, Body: body}
	if tag != "" {
		rp.Tags[tag] = d
	}
	return d
}
func (r *Registry) TagsOf(repo string) map[string]string {
	r.mu.Lock()
	defer r.mu.Unlock()
	out := map[string]string{}
	if rp := r.Repos[repo]; rp != nil {
		for k, v := range rp.Tags {
			out[k] = v
		}
	}
	return out
}
func (r *Registry) HasManifest(repo, d string) bool {
	r.mu.Lock()
	defer r.mu.Unlock()
	rp := r.Repos[repo]
	if rp == nil {
		return false
	}
	_, ok := rp.Manifests[d]
	return ok
}
func (r *Registry) HasBlob(repo, d string) bool {
	r.mu.Lock()
	defer r.mu.Unlock()
	rp := r.Repos[repo]
	if rp == nil {
		return false
	}
	_, ok := rp.Blobs[d]
	return ok
}
