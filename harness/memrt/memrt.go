// Package memrt: an in-memory http.RoundTripper so that registry traffic of the code under test never
// touches a socket; every request is recorded.  Hosts are distinguished by req.URL.Host.
package memrt

import (
	"bytes"
	"fmt"
	"io"
	"net/http"
	"sync"
)

type Rec struct {
	N      int
	Host   string
	Scheme string
	Method string
	Path   string
	Query  string
	Header http.Header
	Body   []byte
	Status int
}

type RT struct {
	mu      sync.Mutex
	Handler func(req *http.Request, body []byte, n int) *http.Response
	Log     []Rec
}

func (rt *RT) RoundTrip(req *http.Request) (*http.Response, error) {
	if err := req.Context().Err(); err != nil {
		return nil, err
	}
	var body []byte
	if req.Body != nil {
		body, _ = io.ReadAll(req.Body)
		_ = req.Body.Close()
	}
	// net/http's transport fails a request whose body length differs from the declared Content-Length
	if req.ContentLength > 0 && int64(len(body)) != req.ContentLength {
		return nil, fmt.Errorf("http: ContentLength=%d with Body length %d", req.ContentLength, len(body))
	}
	rt.mu.Lock()
	n := len(rt.Log)
	rt.Log = append(rt.Log, Rec{N: n, Host: req.URL.Host, Scheme: req.URL.Scheme, Method: req.Method, Path: req.URL.Path, Query: req.URL.RawQuery, Header: req.Header.Clone(), Body: body})
	rt.mu.Unlock()
	resp := rt.Handler(req, body, n)
	if resp == nil {
		return nil, io.ErrUnexpectedEOF // connection reset
	}
	resp.Request = req
	if resp.Header == nil {
		resp.Header = http.Header{}
	}
	if resp.Body == nil {
		resp.Body = io.NopCloser(bytes.NewReader(nil))
	}
	resp.Proto, resp.ProtoMajor, resp.ProtoMinor = "HTTP/1.1", 1, 1
	rt.mu.Lock()
	rt.Log[n].Status = resp.StatusCode
	rt.mu.Unlock()
	return resp, nil
}

func (rt *RT) Records() []Rec {
	rt.mu.Lock()
	defer rt.mu.Unlock()
	return append([]Rec(nil), rt.Log...)
}

// Resp builds a response with a fixed body.
func Resp(status int, hdr map[string]string, body []byte) *http.Response {
	h := http.Header{}
	for k, v := range hdr {
		h.Set(k, v)
	}
	return &http.Response{StatusCode: status, Status: http.StatusText(status), Header: h, Body: io.NopCloser(bytes.NewReader(body)), ContentLength: int64(len(body))}
}

// DropBody delivers the first k bytes and then fails like a dropped connection.
type DropBody struct {
	B   []byte
	K   int
	pos int
}

func (d *DropBody) Read(p []byte) (int, error) {
	if d.pos >= d.K || d.pos >= len(d.B) {
		if d.K < len(d.B) {
			return 0, io.ErrUnexpectedEOF
		}
		return 0, io.EOF
	}
	end := d.K
	if end > len(d.B) {
		end = len(d.B)
	}
	n := copy(p, d.B[d.pos:end])
	d.pos += n
	return n, nil
}
func (d *DropBody) Close() error { return nil }
