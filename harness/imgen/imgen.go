// Package imgen builds small synthetic image graphs (blobs, configs, image manifests, indexes, nested
// indexes, artifacts with a subject, shared and duplicate layers, foreign layers) as raw JSON, independent of
// the code under test, and loads them into a memreg registry.
package imgen

import (
	"encoding/base64"
	"encoding/json"
	"fmt"
	"sort"
	"strings"

	"verifharness/lib"
	"verifharness/memreg"
)

const (
	MTImage    = "application/vnd.oci.image.manifest.v1+json"
	MTIndex    = "application/vnd.oci.image.index.v1+json"
	MTConfig   = "application/vnd.oci.image.config.v1+json"
	MTLayer    = "application/vnd.oci.image.layer.v1.tar"
	MTDocker   = "application/vnd.docker.distribution.manifest.v2+json"
	MTDockerL  = "application/vnd.docker.distribution.manifest.list.v2+json"
	MTDockerC  = "application/vnd.docker.container.image.v1+json"
	MTDockerLy = "application/vnd.docker.image.rootfs.diff.tar.gzip"
)

type Node struct {
	ID       int
	Kind     string // blob | image | index | artifact
	MT       string
	Body     []byte
	Digest   string
	Children []*Node // referenced manifests (index) or blobs (image/artifact: config first)
	Subject  *Node
	Foreign  map[int]bool // child positions that are foreign layers (have urls): not hosted
	Inline   bool         // every descriptor of this node carries the content in its data field
}

type Graph struct {
	Nodes []*Node
	Root  *Node
	Refs  []*Node // artifacts whose subject is in the graph (referrers)
	// Inline: percentage of descriptors of small content (<= 96 bytes) that carry the content in their data field
	Inline int
	rnd    *lib.Rand
}

type desc struct {
	MediaType    string            `json:"mediaType"`
	Digest       string            `json:"digest"`
	Size         int               `json:"size"`
	URLs         []string          `json:"urls,omitempty"`
	Platform     map[string]string `json:"platform,omitempty"`
	Annotations  map[string]string `json:"annotations,omitempty"`
	ArtifactType string            `json:"artifactType,omitempty"`
	Data         []byte            `json:"data,omitempty"`
}

func (g *Graph) add(n *Node) *Node {
	n.ID = len(g.Nodes)
	n.Digest = memreg.Digest("sha256", n.Body)
	if n.Kind != "blob" {
		n.Digest = memreg.ManifestDigest("sha256", n.Body) // a signed schema1 manifest is named by its payload
	}
	for _, o := range g.Nodes { // content addressed: identical bodies are the same node
		if o.Digest == n.Digest {
			return o
		}
	}
	if n.Kind == "blob" && g.Inline > 0 && g.rnd != nil && len(n.Body) > 0 && len(n.Body) <= 96 && g.rnd.Chance(g.Inline) {
		n.Inline = true
	}
	g.Nodes = append(g.Nodes, n)
	return n
}
func (g *Graph) Blob(data []byte, mt string) *Node {
	return g.add(&Node{Kind: "blob", MT: mt, Body: data})
}
func d(n *Node) desc { return desc{MediaType: n.MT, Digest: n.Digest, Size: len(n.Body)} }

// dd: the descriptor of n as the graph writes it - with the content inline for some small nodes
func (g *Graph) dd(n *Node) desc {
	x := d(n)
	if n.Inline {
		x.Data = n.Body
	}
	return x
}

const (
	MTArtifact = "application/vnd.oci.artifact.manifest.v1+json"
	MTSchema1  = "application/vnd.docker.distribution.manifest.v1+json"
	MTSchema1S = "application/vnd.docker.distribution.manifest.v1+prettyjws"
)

// Artifact builds an OCI artifact manifest (the media type removed from image-spec 1.1, still accepted by the client)
func (g *Graph) Artifact(blobs []*Node, subject *Node, note string) *Node {
	bs := []desc{}
	for _, b := range blobs {
		bs = append(bs, g.dd(b))
	}
	m := map[string]any{"mediaType": MTArtifact, "artifactType": "application/vnd.example.sbom", "blobs": bs, "annotations": map[string]string{"note": note}}
	if subject != nil {
		m["subject"] = d(subject)
	}
	b, _ := json.Marshal(m)
	kind := "image"
	if subject != nil {
		kind = "artifact"
	}
	return g.add(&Node{Kind: kind, MT: MTArtifact, Body: b, Children: blobs, Subject: subject})
}

// Schema1 builds a Docker schema1 manifest, optionally inside a JWS envelope in libtrust's pretty form (the
// signature itself is not genuine; no client or registry model here verifies it)
func (g *Graph) Schema1(layers []*Node, signed bool, note string) *Node {
	fs := []map[string]string{}
	hs := []map[string]string{}
	for i, l := range layers {
		fs = append(fs, map[string]string{"blobSum": l.Digest})
		hs = append(hs, map[string]string{"v1Compatibility": fmt.Sprintf(`{"id":"%s-%d"}`, note, i)})
	}
	m := map[string]any{"schemaVersion": 1, "name": "proj/app", "tag": "v1", "architecture": "amd64", "fsLayers": fs, "history": hs}
	b, _ := json.MarshalIndent(m, "", "   ")
	mt := MTSchema1
	if signed {
		mt = MTSchema1S
		i := len(b) - 2 // the payload ends in "\n}"
		b64 := func(x []byte) string { return strings.TrimRight(base64.URLEncoding.EncodeToString(x), "=") }
		prot := b64([]byte(fmt.Sprintf(`{"formatLength":%d,"formatTail":"%s","time":"2026-01-01T00:00:00Z"}`, i, b64(b[i:]))))
		b = []byte(string(b[:i]) + fmt.Sprintf(",\n   \"signatures\": [\n      {\n         \"header\": {\"alg\": \"ES256\"},\n         \"signature\": \"c2ln\",\n         \"protected\": \"%s\"\n      }\n   ]\n}", prot))
	}
	return g.add(&Node{Kind: "image", MT: mt, Body: b, Children: layers})
}

func (g *Graph) Image(docker bool, config *Node, layers []*Node, foreign map[int]bool, subject *Node, note string) *Node {
	mt := MTImage
	if docker {
		mt = MTDocker
	}
	ls := []desc{}
	for i, l := range layers {
		x := g.dd(l)
		if foreign[i] {
			x.URLs = []string{"http://external.example/" + l.Digest}
			x.MediaType = "application/vnd.docker.image.rootfs.foreign.diff.tar.gzip"
		}
		ls = append(ls, x)
	}
	m := map[string]any{"schemaVersion": 2, "mediaType": mt, "config": g.dd(config), "layers": ls}
	if note != "" {
		m["annotations"] = map[string]string{"note": note}
	}
	if subject != nil {
		m["subject"] = d(subject)
		m["artifactType"] = "application/vnd.example.sig"
	}
	b, _ := json.Marshal(m)
	ch := append([]*Node{config}, layers...)
	f2 := map[int]bool{}
	for i := range foreign {
		f2[i+1] = true
	}
	kind := "image"
	if subject != nil {
		kind = "artifact"
	}
	return g.add(&Node{Kind: kind, MT: mt, Body: b, Children: ch, Subject: subject, Foreign: f2})
}
func (g *Graph) Index(docker bool, children []*Node, note string) *Node {
	mt := MTIndex
	if docker {
		mt = MTDockerL
	}
	ms := []desc{}
	for i, c := range children {
		x := g.dd(c)
		if c.Kind != "blob" {
			x.Platform = map[string]string{"os": "linux", "architecture": []string{"amd64", "arm64", "arm", "386", "ppc64le", "s390x"}[i%6]}
		}
		ms = append(ms, x)
	}
	m := map[string]any{"schemaVersion": 2, "mediaType": mt, "manifests": ms}
	if note != "" {
		m["annotations"] = map[string]string{"note": note}
	}
	b, _ := json.Marshal(m)
	return g.add(&Node{Kind: "index", MT: mt, Body: b, Children: children})
}

// Closure returns the digests that a copy of n must bring along (hosted content only).
func Closure(n *Node, includeExternal bool) map[string]*Node {
	out := map[string]*Node{}
	var walk func(x *Node)
	walk = func(x *Node) {
		if _, ok := out[x.Digest]; ok {
			return
		}
		out[x.Digest] = x
		for i, c := range x.Children {
			if x.Foreign[i] && !includeExternal {
				continue
			}
			walk(c)
		}
	}
	walk(n)
	return out
}

// Load stores the closure of every node (and referrers) into the registry repository, tagging the root.
func (g *Graph) Load(r *memreg.Registry, repo, tag string) {
	for _, n := range g.Nodes {
		if n.Kind == "blob" {
			r.PutBlob(repo, n.Body)
		} else {
			t := ""
			if n == g.Root {
				t = tag
			}
			r.PutManifest(repo, t, n.MT, n.Body)
		}
	}
}

// Random builds a graph of the requested shape.
func Random(r *lib.Rand, uniq string) *Graph { return randomInto(&Graph{}, r, uniq) }

func randomInto(g *Graph, r *lib.Rand, uniq string) *Graph {
	nb := 2 + r.Intn(4)
	var blobs []*Node
	for i := 0; i < nb; i++ {
		sz := 1 + r.Intn(40)
		if r.Chance(10) {
			sz = 0
		}
		data := append([]byte(fmt.Sprintf("%s-layer-%d-", uniq, i)), r.Bytes(sz)...)
		if sz == 0 && r.Chance(50) {
			data = []byte{}
		}
		blobs = append(blobs, g.Blob(data, MTLayer))
	}
	mkImage := func(k int) *Node {
		docker := r.Chance(25)
		cfg := g.Blob([]byte(fmt.Sprintf(`{"architecture":"amd64","os":"linux","config":{"Labels":{"i":"%s-%d"}},"rootfs":{"type":"layers","diff_ids":[]}}`, uniq, k)), MTConfig)
		if r.Chance(15) { // shared config
			cfg = g.Blob([]byte(`{"architecture":"amd64","os":"linux","rootfs":{"type":"layers","diff_ids":[]}}`), MTConfig)
		}
		nl := 1 + r.Intn(3)
		var ls []*Node
		foreign := map[int]bool{}
		for i := 0; i < nl; i++ {
			ls = append(ls, lib.Pick(r, blobs)) // sharing and duplicates happen naturally
			if r.Chance(6) {
				foreign[i] = true
			}
		}
		return g.Image(docker, cfg, ls, foreign, nil, fmt.Sprintf("%s-img-%d", uniq, k))
	}
	switch r.Intn(10) {
	case 0, 1, 2:
		g.Root = mkImage(0)
	case 3, 4, 5, 6:
		n := 2 + r.Intn(3)
		var ch []*Node
		for i := 0; i < n; i++ {
			ch = append(ch, mkImage(i))
		}
		if r.Chance(20) {
			ch = append(ch, lib.Pick(r, blobs)) // blob-typed index entry
		}
		g.Root = g.Index(r.Chance(20), ch, uniq)
	default: // nested index, possibly sharing a child between sub-indexes
		a, b, c := mkImage(0), mkImage(1), mkImage(2)
		p1 := g.Index(false, []*Node{a, b}, uniq+"-p1")
		p2 := g.Index(false, []*Node{b, c}, uniq+"-p2")
		if r.Bool() {
			p2 = g.Index(false, []*Node{c}, uniq+"-p2")
		}
		g.Root = g.Index(false, []*Node{p1, p2}, uniq)
	}
	// referrers: artifacts naming the root (and sometimes a child, and a referrer of a referrer)
	if r.Chance(45) {
		subj := g.Root
		if r.Chance(40) {
			var mans []*Node
			clo := Closure(g.Root, false)
			for _, d := range SortedDigests(clo) { // only manifests the copy of the root visits
				if n := clo[d]; n.Kind == "image" || n.Kind == "index" {
					mans = append(mans, n)
				}
			}
			subj = lib.Pick(r, mans)
		}
		nr := 1 + r.Intn(2)
		for i := 0; i < nr; i++ {
			cfg := g.Blob([]byte("{}"), "application/vnd.oci.empty.v1+json")
			payload := g.Blob([]byte(fmt.Sprintf("%s-sig-%d", uniq, i)), "application/vnd.example.sig.payload")
			a := g.Image(false, cfg, []*Node{payload}, nil, subj, fmt.Sprintf("%s-ref-%d", uniq, i))
			g.Refs = append(g.Refs, a)
			if r.Chance(25) {
				subj = a
			}
		}
	}
	return g
}

// RandomX: the shapes Random does not draw - descriptors with inline data, OCI artifact manifests (as root and as an
// index entry), Docker schema1 images, unsigned and signed
func RandomX(r *lib.Rand, uniq string) *Graph {
	switch r.Intn(5) {
	case 0, 1: // an ordinary graph whose descriptors carry small content inline
		g := &Graph{Inline: 60, rnd: lib.NewRand(r.U64())}
		return randomInto(g, r, uniq)
	case 2: // artifact manifest, alone or inside an index next to an image
		g := &Graph{}
		b1 := g.Blob([]byte(uniq+"-sbom-1"), "application/vnd.example.data")
		b2 := g.Blob([]byte(uniq+"-sbom-2"), "application/vnd.example.data")
		a := g.Artifact([]*Node{b1, b2}[:1+r.Intn(2)], nil, uniq)
		if r.Bool() {
			g.Root = a
		} else {
			cfg := g.Blob([]byte(`{"architecture":"amd64","os":"linux","rootfs":{"type":"layers","diff_ids":[]}}`), MTConfig)
			img := g.Image(false, cfg, []*Node{g.Blob([]byte(uniq+"-x-layer"), MTLayer)}, nil, nil, uniq)
			ch := []*Node{img, a}
			if r.Bool() { // an index entry of a type the client does not know that is a plain blob
				ch = append(ch, g.Blob([]byte(uniq+"-plain-data"), "application/vnd.example.data"))
			}
			g.Root = g.Index(false, ch, uniq)
		}
		if r.Bool() { // an artifact-manifest referrer of the root
			g.Refs = append(g.Refs, g.Artifact([]*Node{g.Blob([]byte(uniq+"-ref-blob"), "application/vnd.example.data")}, g.Root, uniq+"-ref"))
		}
		return g
	default: // schema1
		g := &Graph{}
		var ls []*Node
		for i := 0; i < 1+r.Intn(3); i++ {
			ls = append(ls, g.Blob([]byte(fmt.Sprintf("%s-v1-layer-%d", uniq, i)), MTDockerLy))
		}
		if r.Chance(30) {
			ls = append(ls, ls[0]) // the same layer twice, as schema1 images with empty layers have
		}
		g.Root = g.Schema1(ls, r.Bool(), uniq)
		return g
	}
}

func SortedDigests(m map[string]*Node) []string {
	var l []string
	for k := range m {
		l = append(l, k)
	}
	sort.Strings(l)
	return l
}
