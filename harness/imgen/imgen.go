// Package imgen builds small synthetic image graphs (blobs, configs, image manifests, indexes, nested
// indexes, artifacts with a subject, shared and duplicate layers, foreign layers) as raw JSON, independent of
// the code under test, and loads them into a memreg registry.
package imgen

import (
	"encoding/json"
	"fmt"
	"sort"

	"verifharness/lib"
	"verifharness/memreg"
)

const (
	MTImage    = "application/vnd.oci.image.manifest.v1+json"
	MTIndex    = "application/vnd.oci.image.index.v1+json"
	MTConfig   = "application/vnd.oci.image.config.v1+json"
	MTLayer    = "application/vnd.oci.image.layer.v1.tar"
	MTDocker   = "application/vnd.docker.distribution.manifest.v2+json"
	MTDockerL  = "application/vnd.docker.distribution.manifest.list.v2+json"
	MTDockerC  = "application/vnd.docker.container.image.v1+json"
	MTDockerLy = "application/vnd.docker.image.rootfs.diff.tar.gzip"
)

type Node struct {
	ID       int
	Kind     string // blob | image | index | artifact
	MT       string
	Body     []byte
	Digest   string
	Children []*Node // referenced manifests (index) or blobs (image/artifact: config first)
	Subject  *Node
	Foreign  map[int]bool // child positions that are foreign layers (have urls): not hosted
}

type Graph struct {
	Nodes []*Node
	Root  *Node
	Refs  []*Node // artifacts whose subject is in the graph (referrers)
}

type desc struct {
	MediaType    string            `json:"mediaType"`
	Digest       string            `json:"digest"`
	Size         int               `json:"size"`
	URLs         []string          `json:"urls,omitempty"`
	Platform     map[string]string `json:"platform,omitempty"`
	Annotations  map[string]string `json:"annotations,omitempty"`
	ArtifactType string            `json:"artifactType,omitempty"`
}

func (g *Graph) add(n *Node) *Node {
	n.ID = len(g.Nodes)
	n.Digest = memreg.Digest("sha256", n.Body)
	for _, o := range g.Nodes { // content addressed: identical bodies are the same node
		if o.Digest == n.Digest {
			return o
		}
	}
	g.Nodes = append(g.Nodes, n)
	return n
}
func (g *Graph) Blob(data []byte, mt string) *Node {
	return g.add(&Node{Kind: "blob", MT: mt, Body: data})
}
func d(n *Node) desc { return desc{MediaType: n.MT, Digest: n.Digest, Size: len(n.Body)} }

func (g *Graph) Image(docker bool, config *Node, layers []*Node, foreign map[int]bool, subject *Node, note string) *Node {
	mt := MTImage
	if docker {
		mt = MTDocker
	}
	ls := []desc{}
	for i, l := range layers {
		x := d(l)
		if foreign[i] {
			x.URLs = []string{"http://external.example/" + l.Digest}
			x.MediaType = "application/vnd.docker.image.rootfs.foreign.diff.tar.gzip"
		}
		ls = append(ls, x)
	}
	m := map[string]any{"schemaVersion": 2, "mediaType": mt, "config": d(config), "layers": ls}
	if note != "" {
		m["annotations"] = map[string]string{"note": note}
	}
	if subject != nil {
		m["subject"] = d(subject)
		m["artifactType"] = "application/vnd.example.sig"
	}
	b, _ := json.Marshal(m)
	ch := append([]*Node{config}, layers...)
	f2 := map[int]bool{}
	for i := range foreign {
		f2[i+1] = true
	}
	kind := "image"
	if subject != nil {
		kind = "artifact"
	}
	return g.add(&Node{Kind: kind, MT: mt, Body: b, Children: ch, Subject: subject, Foreign: f2})
}
func (g *Graph) Index(docker bool, children []*Node, note string) *Node {
	mt := MTIndex
	if docker {
		mt = MTDockerL
	}
	ms := []desc{}
	for i, c := range children {
		x := d(c)
		if c.Kind != "blob" {
			x.Platform = map[string]string{"os": "linux", "architecture": []string{"amd64", "arm64", "arm", "386", "ppc64le", "s390x"}[i%6]}
		}
		ms = append(ms, x)
	}
	m := map[string]any{"schemaVersion": 2, "mediaType": mt, "manifests": ms}
	if note != "" {
		m["annotations"] = map[string]string{"note": note}
	}
	b, _ := json.Marshal(m)
	return g.add(&Node{Kind: "index", MT: mt, Body: b, Children: children})
}

// Closure returns the digests that a copy of n must bring along (hosted content only).
func Closure(n *Node, includeExternal bool) map[string]*Node {
	out := map[string]*Node{}
	var walk func(x *Node)
	walk = func(x *Node) {
		if _, ok := out[x.Digest]; ok {
			return
		}
		out[x.Digest] = x
		for i, c := range x.Children {
			if x.Foreign[i] && !includeExternal {
				continue
			}
			walk(c)
		}
	}
	walk(n)
	return out
}

// Load stores the closure of every node (and referrers) into the registry repository, tagging the root.
func (g *Graph) Load(r *memreg.Registry, repo, tag string) {
	for _, n := range g.Nodes {
		if n.Kind == "blob" {
			r.PutBlob(repo, n.Body)
		} else {
			t := ""
			if n == g.Root {
				t = tag
			}
			r.PutManifest(repo, t, n.MT, n.Body)
		}
	}
}

// Random builds a graph of the requested shape.
func Random(r *lib.Rand, uniq string) *Graph {
	g := &Graph{}
	nb := 2 + r.Intn(4)
	var blobs []*Node
	for i := 0; i < nb; i++ {
		sz := 1 + r.Intn(40)
		if r.Chance(10) {
			sz = 0
		}
		data := append([]byte(fmt.Sprintf("%s-layer-%d-", uniq, i)), r.Bytes(sz)...)
		if sz == 0 && r.Chance(50) {
			data = []byte{}
		}
		blobs = append(blobs, g.Blob(data, MTLayer))
	}
	mkImage := func(k int) *Node {
		docker := r.Chance(25)
		cfg := g.Blob([]byte(fmt.Sprintf(`{"architecture":"amd64","os":"linux","config":{"Labels":{"i":"%s-%d"}},"rootfs":{"type":"layers","diff_ids":[]}}`, uniq, k)), MTConfig)
		if r.Chance(15) { // shared config
			cfg = g.Blob([]byte(`{"architecture":"amd64","os":"linux","rootfs":{"type":"layers","diff_ids":[]}}`), MTConfig)
		}
		nl := 1 + r.Intn(3)
		var ls []*Node
		foreign := map[int]bool{}
		for i := 0; i < nl; i++ {
			ls = append(ls, lib.Pick(r, blobs)) // sharing and duplicates happen naturally
			if r.Chance(6) {
				foreign[i] = true
			}
		}
		return g.Image(docker, cfg, ls, foreign, nil, fmt.Sprintf("%s-img-%d", uniq, k))
	}
	switch r.Intn(10) {
	case 0, 1, 2:
		g.Root = mkImage(0)
	case 3, 4, 5, 6:
		n := 2 + r.Intn(3)
		var ch []*Node
		for i := 0; i < n; i++ {
			ch = append(ch, mkImage(i))
		}
		if r.Chance(20) {
			ch = append(ch, lib.Pick(r, blobs)) // blob-typed index entry
		}
		g.Root = g.Index(r.Chance(20), ch, uniq)
	default: // nested index, possibly sharing a child between sub-indexes
		a, b, c := mkImage(0), mkImage(1), mkImage(2)
		p1 := g.Index(false, []*Node{a, b}, uniq+"-p1")
		p2 := g.Index(false, []*Node{b, c}, uniq+"-p2")
		if r.Bool() {
			p2 = g.Index(false, []*Node{c}, uniq+"-p2")
		}
		g.Root = g.Index(false, []*Node{p1, p2}, uniq)
	}
	// referrers: artifacts naming the root (and sometimes a child, and a referrer of a referrer)
	if r.Chance(45) {
		subj := g.Root
		if r.Chance(40) {
			var mans []*Node
			clo := Closure(g.Root, false)
			for _, d := range SortedDigests(clo) { // only manifests the copy of the root visits
				if n := clo[d]; n.Kind == "image" || n.Kind == "index" {
					mans = append(mans, n)
				}
			}
			subj = lib.Pick(r, mans)
		}
		nr := 1 + r.Intn(2)
		for i := 0; i < nr; i++ {
			cfg := g.Blob([]byte("{}"), "application/vnd.oci.empty.v1+json")
			payload := g.Blob([]byte(fmt.Sprintf("%s-sig-%d", uniq, i)), "application/vnd.example.sig.payload")
			a := g.Image(false, cfg, []*Node{payload}, nil, subj, fmt.Sprintf("%s-ref-%d", uniq, i))
			g.Refs = append(g.Refs, a)
			if r.Chance(25) {
				subj = a
			}
		}
	}
	return g
}

func SortedDigests(m map[string]*Node) []string {
	var l []string
	for k := range m {
		l = append(l, k)
	}
	sort.Strings(l)
	return l
}
