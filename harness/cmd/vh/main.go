// vh — the verification harness: drives the implementation under /repo on generated cases,
// writes observations as Coq case files and evaluates the property oracles.
package main

import (
	"flag"
	"fmt"
	"os"

	"verifharness/lib"
	"verifharness/props/c01"
	"verifharness/props/c02"
	"verifharness/props/c05"
	"verifharness/props/c06"
	"verifharness/props/c07"
	"verifharness/props/c08"
	"verifharness/props/c09"
	"verifharness/props/c10"
	"verifharness/props/c11"
	"verifharness/props/c12"
	"verifharness/props/c13"
	"verifharness/props/c15"
	"verifharness/props/c16"
	"verifharness/props/c17"
	"verifharness/props/c18"
	"verifharness/props/c19"
	"verifharness/props/c20"
	"verifharness/props/copyx"
)

var table = map[string]func(lib.Opts){
	"C01": c01.Run,
	"C02": c02.Run,
	"C03": copyx.Run("C03"),
	"C04": copyx.Run("C04"),
	"C14": copyx.Run("C14"),
	"C05": c05.Run,
	"C06": c06.Run,
	"C07": c07.Run,
	"C08": c08.Run,
	"C09": c09.Run,
	"C10": c10.Run,
	"C11": c11.Run,
	"C12": c12.Run,
	"C13": c13.Run,
	"C15": c15.Run,
	"C16": c16.Run,
	"C17": c17.Run,
	"C18": c18.Run,
	"C19": c19.Run,
	"C20": c20.Run,
}

func main() {
	if len(os.Args) < 2 {
		fmt.Println("usage: vh <Cxx> [--tier quick|thorough] [--seed n] [--out dir] [--mode run|search] [--replay file]")
		os.Exit(2)
	}
	prop := os.Args[1]
	fs := flag.NewFlagSet("vh", flag.ExitOnError)
	var o lib.Opts
	fs.StringVar(&o.Tier, "tier", "quick", "")
	fs.Uint64Var(&o.Seed, "seed", 1, "")
	fs.StringVar(&o.Out, "out", "", "")
	fs.StringVar(&o.Mode, "mode", "run", "")
	fs.StringVar(&o.Replay, "replay", "", "")
	fs.IntVar(&o.N, "n", 0, "")
	_ = fs.Parse(os.Args[2:])
	f, ok := table[prop]
	if !ok {
		fmt.Println("unknown property", prop)
		os.Exit(2)
	}
	if o.Out != "" {
		_ = os.MkdirAll(o.Out, 0o755)
	}
	f(o)
}
