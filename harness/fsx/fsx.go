// Package fsx turns a run of a driver process into the ordered list of file-system mutating operations it
// issued below one directory (via strace), and rebuilds the directory as it would be after any prefix of
// that list: every crash point between two consecutive mutating system calls.
package fsx

import (
	"fmt"
	"os"
	"os/exec"
	"path/filepath"
	"regexp"
	"strconv"
	"strings"
)

type Op struct {
	K    string // mkdir | create | write | rename | unlink
	Path string // relative to the root
	To   string `json:",omitempty"`
	Data []byte `json:",omitempty"`
}

func unhex(s string) string {
	var sb strings.Builder
	for i := 0; i < len(s); {
		if s[i] == '\\' && i+3 < len(s) && s[i+1] == 'x' {
			v, err := strconv.ParseUint(s[i+2:i+4], 16, 8)
			if err == nil {
				sb.WriteByte(byte(v))
				i += 4
				continue
			}
		}
		sb.WriteByte(s[i])
		i++
	}
	return sb.String()
}

var (
	lineRE   = regexp.MustCompile(`^(\d+)\s+(\w+)\((.*)\)\s+=\s+(-?\d+)`)
	unfinRE  = regexp.MustCompile(`^(\d+)\s+(\w+)\((.*) <unfinished \.\.\.>$`)
	resumeRE = regexp.MustCompile(`^(\d+)\s+<\.\.\. (\w+) resumed>(.*)$`)
	strRE    = regexp.MustCompile(`"((?:\\x[0-9a-f]{2})*)"`)
	fdRE     = regexp.MustCompile(`^\d+<((?:\\x[0-9a-f]{2})*)>`)
)

// Trace runs cmd under strace and returns the mutating operations on paths below root.
func Trace(root string, workDir string, argv []string, env []string) ([]Op, string, error) {
	tf := filepath.Join(workDir, "strace.out")
	_ = os.Remove(tf)
	args := append([]string{"-f", "-y", "-xx", "-s", "4194304", "-e", "trace=openat,creat,write,pwrite64,renameat,renameat2,rename,unlinkat,unlink,rmdir,mkdirat,mkdir,ftruncate,truncate", "-o", tf}, argv...)
	cmd := exec.Command("strace", args...)
	cmd.Env = env
	out, err := cmd.CombinedOutput()
	if err != nil {
		return nil, string(out), fmt.Errorf("strace: %w: %s", err, out)
	}
	b, err := os.ReadFile(tf)
	if err != nil {
		return nil, string(out), err
	}
	_ = os.Remove(tf)
	root = filepath.Clean(root)
	rel := func(p string) (string, bool) {
		p = filepath.Clean(p)
		if p == root {
			return ".", true
		}
		if strings.HasPrefix(p, root+"/") {
			return p[len(root)+1:], true
		}
		return "", false
	}
	pending := map[string]string{}
	var ops []Op
	for _, ln := range strings.Split(string(b), "\n") {
		if m := unfinRE.FindStringSubmatch(ln); m != nil {
			pending[m[1]] = m[1] + " " + m[2] + "(" + m[3]
			continue
		}
		if m := resumeRE.FindStringSubmatch(ln); m != nil {
			if p, ok := pending[m[1]]; ok {
				ln = p + m[3]
				delete(pending, m[1])
			}
		}
		m := lineRE.FindStringSubmatch(ln)
		if m == nil {
			continue
		}
		name, args, ret := m[2], m[3], m[4]
		if strings.HasPrefix(ret, "-") {
			continue
		}
		strs := strRE.FindAllStringSubmatch(args, -1)
		switch name {
		case "openat", "creat":
			if len(strs) < 1 || !(strings.Contains(args, "O_CREAT") || strings.Contains(args, "O_TRUNC") || name == "creat") {
				continue
			}
			if p, ok := rel(unhex(strs[0][1])); ok {
				// O_CREAT without O_TRUNC on an existing file changes nothing; the replay keeps content then
				k := "create"
				if !strings.Contains(args, "O_TRUNC") && !strings.Contains(args, "O_EXCL") && name != "creat" {
					k = "touch"
				}
				ops = append(ops, Op{K: k, Path: p})
			}
		case "write", "pwrite64":
			fm := fdRE.FindStringSubmatch(args)
			if fm == nil || len(strs) < 1 {
				continue
			}
			if p, ok := rel(unhex(fm[1])); ok {
				ops = append(ops, Op{K: "write", Path: p, Data: []byte(unhex(strs[0][1]))})
			}
		case "rename", "renameat", "renameat2":
			if len(strs) < 2 {
				continue
			}
			a, oka := rel(unhex(strs[0][1]))
			b2, okb := rel(unhex(strs[1][1]))
			if oka && okb {
				ops = append(ops, Op{K: "rename", Path: a, To: b2})
			}
		case "unlink", "unlinkat", "rmdir":
			if len(strs) < 1 {
				continue
			}
			if p, ok := rel(unhex(strs[0][1])); ok {
				ops = append(ops, Op{K: "unlink", Path: p})
			}
		case "mkdir", "mkdirat":
			if len(strs) < 1 {
				continue
			}
			if p, ok := rel(unhex(strs[0][1])); ok {
				ops = append(ops, Op{K: "mkdir", Path: p})
			}
		case "truncate", "ftruncate":
			fm := fdRE.FindStringSubmatch(args)
			if fm != nil {
				if p, ok := rel(unhex(fm[1])); ok {
					ops = append(ops, Op{K: "create", Path: p})
				}
			}
		}
	}
	return ops, string(out), nil
}

// Apply performs the first k operations on the directory root.
func Apply(root string, ops []Op, k int) error {
	for i := 0; i < k && i < len(ops); i++ {
		o := ops[i]
		p := filepath.Join(root, o.Path)
		var err error
		switch o.K {
		case "mkdir":
			err = os.MkdirAll(p, 0o755)
		case "create":
			err = os.WriteFile(p, nil, 0o644)
		case "touch":
			if _, e := os.Stat(p); e != nil {
				err = os.WriteFile(p, nil, 0o644)
			}
		case "write":
			var f *os.File
			f, err = os.OpenFile(p, os.O_APPEND|os.O_WRONLY|os.O_CREATE, 0o644)
			if err == nil {
				_, err = f.Write(o.Data)
				_ = f.Close()
			}
		case "rename":
			err = os.Rename(p, filepath.Join(root, o.To))
		case "unlink":
			err = os.Remove(p)
		}
		if err != nil {
			return fmt.Errorf("op %d %s %s: %w", i, o.K, o.Path, err)
		}
	}
	return nil
}

// CopyDir copies a directory tree (regular files and directories only).
func CopyDir(src, dst string) error {
	return filepath.Walk(src, func(p string, fi os.FileInfo, err error) error {
		if err != nil {
			return err
		}
		rel, _ := filepath.Rel(src, p)
		t := filepath.Join(dst, rel)
		if fi.IsDir() {
			return os.MkdirAll(t, 0o755)
		}
		b, err := os.ReadFile(p)
		if err != nil {
			return err
		}
		return os.WriteFile(t, b, 0o644)
	})
}
