// Package c19: a dry run of regbot changes nothing.  The real `regbot once --dry-run` binary (rebuilt from
// /repo) runs generated Lua scripts against a model registry served on the loopback interface and against
// OCI layouts; the oracle is the method of every request the registry received and a snapshot of the
// layout directories.  No Coq case file: the model side is the generated-table theorem.
package c19

import (
	"bytes"
	"context"
	"encoding/json"
	"fmt"
	"io"
	"io/fs"
	"net"
	"net/http"
	"os"
	"os/exec"
	"path/filepath"
	"sort"
	"strings"
	"sync"
	"time"

	"verifharness/lib"
	"verifharness/memreg"
)

type Script struct {
	Name string
	Lua  string
}
type Case struct {
	Kind    string // each | random | errorlocal | normal
	Scripts []Script
	Dry     bool
}

var manBody = []byte(`{"schemaVersion":2,"mediaType":"application/vnd.oci.image.manifest.v1+json","config":{"mediaType":"application/vnd.oci.image.config.v1+json","digest":"%s","size":%d},"layers":[{"mediaType":"application/vnd.oci.image.layer.v1.tar","digest":"%s","size":%d}]}`)

type env struct {
	mr      *memreg.Registry
	srv     *http.Server
	addr    string
	mu      sync.Mutex
	log     []string
	dir     string
	layout  string
	regbot  string
	tarFile string
	manDig  string
}

func newEnv(outDir string) (*env, error) {
	abs, _ := filepath.Abs(outDir)
	e := &env{dir: filepath.Join(abs, "work")}
	_ = os.RemoveAll(e.dir)
	_ = os.MkdirAll(e.dir, 0o755)
	e.regbot = lib.FindBin(abs, "regbot")
	e.mr = memreg.New("local", memreg.Features{Delete: true, TagDelete: true, ReferrersAPI: true})
	conf := []byte(`{"architecture":"amd64","os":"linux","config":{},"rootfs":{"type":"layers","diff_ids":[]}}`)
	layer := []byte("not really a tar")
	cd := e.mr.PutBlob("repo", conf)
	ld := e.mr.PutBlob("repo", layer)
	mb := []byte(fmt.Sprintf(string(manBody), cd, len(conf), ld, len(layer)))
	e.manDig = e.mr.PutManifest("repo", "v1", "application/vnd.oci.image.manifest.v1+json", mb)
	e.mr.PutManifest("repo", "v2", "application/vnd.oci.image.manifest.v1+json", mb)
	// an image whose config blob is missing, and an index: image.config fails on both
	broken := []byte(fmt.Sprintf(string(manBody), "sha256:"+strings.Repeat("cd", 32), 10, ld, len(layer)))
	e.mr.PutManifest("repo", "broken", "application/vnd.oci.image.manifest.v1+json", broken)
	idx := []byte(fmt.Sprintf(`{"schemaVersion":2,"mediaType":"application/vnd.oci.image.index.v1+json","manifests":[{"mediaType":"application/vnd.oci.image.manifest.v1+json","digest":"%s","size":%d,"platform":{"os":"linux","architecture":"amd64"}}]}`, e.manDig, len(mb)))
	e.mr.PutManifest("repo", "idx", "application/vnd.oci.image.index.v1+json", idx)
	ln, err := net.Listen("tcp", "127.0.0.1:0")
	if err != nil {
		return nil, err
	}
	e.addr = ln.Addr().String()
	n := 0
	e.srv = &http.Server{Handler: http.HandlerFunc(func(w http.ResponseWriter, req *http.Request) {
		body, _ := io.ReadAll(req.Body)
		e.mu.Lock()
		e.log = append(e.log, req.Method+" "+req.URL.Path)
		n++
		k := n
		e.mu.Unlock()
		rs := e.mr.Handle(req, body, k)
		for h, v := range rs.Header {
			w.Header()[h] = v
		}
		w.WriteHeader(rs.StatusCode)
		if rs.Body != nil {
			_, _ = io.Copy(w, rs.Body)
		}
	})}
	go func() { _ = e.srv.Serve(ln) }()
	return e, nil
}

func (e *env) close() { _ = e.srv.Close() }

func (e *env) resetLayout() {
	e.layout = filepath.Join(e.dir, "layout")
	_ = os.RemoveAll(e.layout)
	_ = os.MkdirAll(filepath.Join(e.layout, "blobs", "sha256"), 0o755)
	_ = os.WriteFile(filepath.Join(e.layout, "oci-layout"), []byte(`{"imageLayoutVersion":"1.0.0"}`), 0o644)
	e.mr.Lock()
	rp := e.mr.Repos["repo"]
	var ms []string
	for d, b := range rp.Blobs {
		_ = os.WriteFile(filepath.Join(e.layout, "blobs", "sha256", strings.TrimPrefix(d, "sha256:")), b, 0o644)
	}
	for d, m := range rp.Manifests {
		_ = os.WriteFile(filepath.Join(e.layout, "blobs", "sha256", strings.TrimPrefix(d, "sha256:")), m.Body, 0o644)
		ms = append(ms, fmt.Sprintf(`{"mediaType":"%s","digest":"%s","size":%d,"annotations":{"org.opencontainers.image.ref.name":"v1"}}`, m.MT, d, len(m.Body)))
	}
	e.mr.Unlock()
	// an unreferenced blob: garbage collection on Close would remove it
	_ = os.WriteFile(filepath.Join(e.layout, "blobs", "sha256", strings.Repeat("ab", 32)), []byte("orphan"), 0o644)
	_ = os.WriteFile(filepath.Join(e.layout, "index.json"), []byte(`{"schemaVersion":2,"manifests":[`+strings.Join(ms, ",")+`]}`), 0o644)
}

func snapshot(root string) map[string]string {
	m := map[string]string{}
	_ = filepath.WalkDir(root, func(p string, d fs.DirEntry, err error) error {
		if err != nil {
			return nil
		}
		rel, _ := filepath.Rel(root, p)
		if d.IsDir() {
			m[rel] = "d"
		} else if b, e := os.ReadFile(p); e == nil {
			m[rel] = fmt.Sprintf("f%d:%x", len(b), memreg.Digest("sha256", b)[7:15])
		}
		return nil
	})
	return m
}

func (e *env) run(c Case, res *lib.Result) (reqs []string, layoutDiff []string, out string) {
	e.resetLayout()
	e.mu.Lock()
	e.log = nil
	e.mu.Unlock()
	// fresh registry content for targets
	e.mr.Lock()
	delete(e.mr.Repos, "tgt")
	e.mr.Unlock()
	var sb strings.Builder
	fmt.Fprintf(&sb, "version: 1\ncreds:\n  - registry: %s\n    tls: disabled\ndefaults:\n  parallel: 1\n  timeout: 4s\nscripts:\n", e.addr)
	for _, s := range c.Scripts {
		fmt.Fprintf(&sb, "  - name: %s\n    script: |\n", s.Name)
		for _, l := range strings.Split(s.Lua, "\n") {
			sb.WriteString("      " + l + "\n")
		}
	}
	cfg := filepath.Join(e.dir, "regbot.yml")
	_ = os.WriteFile(cfg, []byte(sb.String()), 0o644)
	before := snapshot(e.layout)
	args := []string{"once", "-c", cfg, "-v", "debug"}
	if c.Dry {
		args = append(args, "--dry-run")
	}
	ctx, cancel := context.WithTimeout(context.Background(), 60*time.Second)
	defer cancel()
	cmd := exec.CommandContext(ctx, e.regbot, args...)
	cmd.Env = append(os.Environ(), "HOME="+e.dir)
	cmd.Dir = e.dir
	ob, _ := cmd.CombinedOutput()
	after := snapshot(e.layout)
	for p, v := range after {
		if before[p] != v {
			layoutDiff = append(layoutDiff, "changed/created "+p)
		}
	}
	for p := range before {
		if _, ok := after[p]; !ok {
			layoutDiff = append(layoutDiff, "removed "+p)
		}
	}
	sort.Strings(layoutDiff)
	e.mu.Lock()
	reqs = append([]string(nil), e.log...)
	e.mu.Unlock()
	return reqs, layoutDiff, string(ob)
}

// one script per documented API function, each on a registry and on a layout where it applies
func (e *env) apiScripts() []Script {
	R := e.addr + "/repo"
	T := e.addr + "/tgt"
	L := "ocidir://" + e.layout
	tar := filepath.Join(e.dir, "img.tar")
	return []Script{
		{"repo-ls", fmt.Sprintf(`repo.ls("%s")`, e.addr)},
		{"tag-ls", fmt.Sprintf(`tag.ls("%s")`, R)},
		{"tag-ls-layout", fmt.Sprintf(`tag.ls("%s")`, L)},
		{"manifest-get", fmt.Sprintf(`m = manifest.get("%s:v1")`, R)},
		{"manifest-head", fmt.Sprintf(`m = manifest.head("%s:v1")`, R)},
		{"manifest-getlist", fmt.Sprintf(`m = manifest.getList("%s:v1")`, R)},
		{"image-config", fmt.Sprintf(`m = manifest.get("%s:v1"); c = image.config(m)`, R)},
		{"blob-get", fmt.Sprintf(`m = manifest.get("%s:v1"); b = blob.get("%s", "%s")`, R, R, e.blobDigest())},
		{"blob-head", fmt.Sprintf(`b = blob.head("%s", "%s")`, R, e.blobDigest())},
		{"blob-put", fmt.Sprintf(`blob.put("%s", "new blob content from a script")`, T)},
		{"blob-put-layout", fmt.Sprintf(`blob.put("%s", "new blob content from a script")`, L)},
		// the documented content kinds of blob.put besides a string: another blob, an image config
		{"blob-put-blob", fmt.Sprintf(`b = blob.get("%s", "%s"); blob.put("%s", b)`, R, e.blobDigest(), T)},
		{"blob-put-blob-layout", fmt.Sprintf(`b = blob.get("%s", "%s"); blob.put("%s", b)`, R, e.blobDigest(), L)},
		{"blob-put-config", fmt.Sprintf(`m = manifest.get("%s:v1"); c = image.config(m); blob.put("%s", c)`, R, T)},
		{"manifest-put", fmt.Sprintf(`m = manifest.get("%s:v1"); manifest.put(m, "%s:copied")`, R, R)},
		{"manifest-put-layout", fmt.Sprintf(`m = manifest.get("%s:v1"); manifest.put(m, "%s:copied")`, L, L)},
		{"manifest-put-layout-notag", fmt.Sprintf(`m = manifest.get("%s:v1"); manifest.put(m, "%s")`, L, L)},
		{"manifest-put-notag", fmt.Sprintf(`m = manifest.get("%s:v1"); manifest.put(m, "%s")`, R, T)},
		{"manifest-delete", fmt.Sprintf(`m = manifest.get("%s:v2"); m:delete()`, R)},
		{"manifest-delete-digest", fmt.Sprintf(`m = manifest.get("%s@%s"); m:delete()`, R, e.manDig)},
		{"manifest-delete-layout", fmt.Sprintf(`m = manifest.get("%s:v1"); m:delete()`, L)},
		{"tag-delete", fmt.Sprintf(`tag.delete("%s:v2")`, R)},
		{"tag-delete-layout", fmt.Sprintf(`tag.delete("%s:v1")`, L)},
		{"image-copy", fmt.Sprintf(`image.copy("%s:v1", "%s:v1")`, R, T)},
		{"image-copy-to-layout", fmt.Sprintf(`image.copy("%s:v1", "%s:copy")`, R, L)},
		// a copy within one repository is a retag: one manifest push, in a registry and in a layout
		{"image-copy-retag", fmt.Sprintf(`image.copy("%s:v1", "%s:retagged")`, R, R)},
		{"image-copy-retag-layout", fmt.Sprintf(`image.copy("%s:v1", "%s:retagged")`, L, L)},
		{"image-export", fmt.Sprintf(`image.exportTar("%s:v1", "%s")`, R, tar)},
		{"image-import", fmt.Sprintf(`image.exportTar("%s:v1", "%s"); image.importTar("%s:imported", "%s")`, R, tar, T, tar)},
		{"image-import-layout", fmt.Sprintf(`image.exportTar("%s:v1", "%s"); image.importTar("%s:imported", "%s")`, R, tar, L, tar)},
		{"reference", fmt.Sprintf(`r = reference.new("%s:v1"); r:tag("v2"); m = manifest.head(r); r:close()`, R)},
		{"reference-close-layout", fmt.Sprintf(`r = reference.new("%s:v1"); m = manifest.head(r); reference.close(r)`, L)},
	}
}
func (e *env) blobDigest() string {
	e.mr.Lock()
	defer e.mr.Unlock()
	var ds []string
	for d := range e.mr.Repos["repo"].Blobs {
		ds = append(ds, d)
	}
	sort.Strings(ds)
	return ds[0]
}

func mutating(reqs []string) []string {
	var m []string
	for _, r := range reqs {
		if !strings.HasPrefix(r, "GET ") && !strings.HasPrefix(r, "HEAD ") {
			m = append(m, r)
		}
	}
	return m
}

func Run(o lib.Opts) {
	res := lib.NewResult("C19", o.Tier, o.Seed)
	res.Rule = "the real regbot binary: (each) every documented API function, on a registry and on an OCI layout where it applies, alone under --dry-run; (random) scripts of 2-8 calls drawn from those with pcall/if/for wrappers under --dry-run; (errorlocal) a script that raises an error followed by scripts whose read requests must still arrive; (normal) the same mutating scripts without --dry-run must mutate (non-vacuity); oracle: request methods seen by the registry and a content snapshot of the layout; non-trivial = script containing a mutating function; distinct by script text"
	e, err := newEnv(o.Out)
	if err != nil {
		res.Notes = append(res.Notes, "cannot listen on loopback: "+err.Error())
		lib.WriteResult(o.Out, res)
		return
	}
	defer e.close()
	e.resetLayout()
	check := func(c Case) {
		res.Evaluations++
		reqs, diff, out := e.run(c, res)
		mut := mutating(reqs)
		names := []string{}
		for _, s := range c.Scripts {
			names = append(names, s.Name)
		}
		if c.Dry {
			if len(mut) > 0 {
				res.Fail("dry-run-mutates-registry scripts="+strings.Join(names, ","), fmt.Sprintf("--dry-run: the registry received %v", mut), c)
			}
			if len(diff) > 0 {
				res.Fail("dry-run-mutates-layout scripts="+strings.Join(names, ","), fmt.Sprintf("--dry-run: the layout directory changed: %v", diff), c)
			}
		}
		_ = out
		res.Count(fmt.Sprintf("%s:dry=%v:mutating-requests=%v", c.Kind, c.Dry, len(mut) > 0 || len(diff) > 0))
		res.Sample(map[string]any{"scripts": names, "dry": c.Dry, "requests": len(reqs)}, 6)
	}
	if o.Replay != "" {
		var f struct{ Case Case }
		b, rerr := os.ReadFile(o.Replay)
		if rerr == nil {
			rerr = json.Unmarshal(b, &f)
		}
		if rerr != nil {
			fmt.Println("replay:", rerr)
			os.Exit(2)
		}
		check(f.Case)
		for _, fl := range res.Failures {
			fmt.Printf("REPLAY-FAIL %s: %s\n", fl.Sig, fl.Desc)
		}
		if len(res.Failures) == 0 {
			fmt.Println("REPLAY-OK")
		}
		return
	}
	api := e.apiScripts()
	seen := lib.Set{}
	isMut := func(s Script) bool {
		return strings.Contains(s.Lua, "put(") || strings.Contains(s.Lua, "delete") || strings.Contains(s.Lua, "copy(") || strings.Contains(s.Lua, "importTar")
	}
	for _, s := range api {
		check(Case{Kind: "each", Dry: true, Scripts: []Script{s}})
		if isMut(s) {
			res.Distinct++
		}
		seen.Add(s.Lua)
	}
	// read-only functions behave exactly as in a normal run: the same requests in the same order, the layout untouched
	for _, s := range api {
		if isMut(s) || strings.Contains(s.Lua, "exportTar") {
			continue
		}
		dryReqs, dryDiff, _ := e.run(Case{Kind: "readonly", Dry: true, Scripts: []Script{s}}, res)
		norReqs, norDiff, _ := e.run(Case{Kind: "readonly", Scripts: []Script{s}}, res)
		res.Evaluations += 2
		if strings.Join(dryReqs, "\n") != strings.Join(norReqs, "\n") || len(dryDiff) != len(norDiff) {
			res.Fail("read-only-differs-under-dry-run script="+s.Name, fmt.Sprintf("%s: --dry-run sent %v, a normal run sent %v", s.Name, dryReqs, norReqs), Case{Kind: "readonly", Dry: true, Scripts: []Script{s}})
		}
		res.Count("readonly:" + s.Name)
	}
	// non-vacuity: without --dry-run the mutating functions do mutate
	mutSeen := 0
	for _, s := range api {
		if isMut(s) && (strings.HasPrefix(s.Name, "tag-delete") || s.Name == "blob-put" || s.Name == "image-copy") {
			reqs, diff, _ := e.run(Case{Kind: "normal", Scripts: []Script{s}}, res)
			res.Evaluations++
			if len(mutating(reqs)) > 0 || len(diff) > 0 {
				mutSeen++
			}
		}
	}
	res.Extra["normal_runs_that_mutated"] = mutSeen
	if mutSeen == 0 {
		res.Notes = append(res.Notes, "WARNING: no normal run mutated anything; the dry-run oracle would be vacuous")
	}
	r := lib.NewRand(o.Seed)
	n := o.Scale(25, 600)
	for i := 0; i < n; i++ {
		k := 2 + r.Intn(7)
		var parts []string
		var names []string
		for j := 0; j < k; j++ {
			s := lib.Pick(r, api)
			names = append(names, s.Name)
			switch r.Intn(4) {
			case 0:
				parts = append(parts, fmt.Sprintf("pcall(function() %s end)", s.Lua))
			case 1:
				parts = append(parts, fmt.Sprintf("for i = 1, 2 do pcall(function() %s end) end", s.Lua))
			case 2:
				parts = append(parts, fmt.Sprintf("if true then pcall(function() %s end) end", s.Lua))
			default:
				parts = append(parts, fmt.Sprintf("pcall(function() %s end)", s.Lua))
			}
		}
		sc := Script{Name: fmt.Sprintf("rand-%d-%s", i, strings.Join(names, "+")), Lua: strings.Join(parts, "\n")}
		if len(sc.Name) > 60 {
			sc.Name = sc.Name[:60]
		}
		if _, dup := seen[sc.Lua]; !dup {
			res.Distinct++
		}
		seen.Add(sc.Lua)
		check(Case{Kind: "random", Dry: true, Scripts: []Script{sc}})
	}
	// a failing script must not stop the following ones: plain errors, and errors raised inside each
	// function that holds the shared throttle
	R := e.addr + "/repo"
	failing := []Script{
		{"boom", `error("script failure on purpose")`},
		{"boom-get", fmt.Sprintf(`m = manifest.get("%s:doesnotexist")`, R)},
		{"boom-config-missing-blob", fmt.Sprintf(`m = manifest.get("%s:broken"); c = image.config(m)`, R)},
		{"boom-config-index", fmt.Sprintf(`m = manifest.getList("%s:idx"); c = image.config(m)`, R)},
		{"boom-copy", fmt.Sprintf(`image.copy("%s:doesnotexist", "%s/tgt:x")`, R, e.addr)},
		{"boom-export", fmt.Sprintf(`image.exportTar("%s:doesnotexist", "%s")`, R, filepath.Join(e.dir, "none.tar"))},
		{"boom-import", fmt.Sprintf(`image.importTar("%s/tgt:x", "%s")`, e.addr, filepath.Join(e.dir, "does-not-exist.tar"))},
	}
	after := []Script{
		{"zz-after-config", fmt.Sprintf(`m = manifest.get("%s:v1"); c = image.config(m); manifest.head("%s:v2")`, R, R)},
		{"zz-after-copy", fmt.Sprintf(`image.copy("%s:v1", "%s/tgt:after"); manifest.head("%s:v2")`, R, e.addr, R)},
	}
	for _, dry := range []bool{true, false} {
		for _, f := range failing {
			for _, a := range after {
				c := Case{Kind: "errorlocal", Dry: dry, Scripts: []Script{f, a}}
				res.Evaluations++
				t0 := time.Now()
				reqs, _, _ := e.run(c, res)
				found := false
				for _, q := range reqs {
					if strings.HasPrefix(q, "HEAD ") && strings.HasSuffix(q, "/manifests/v2") {
						found = true
					}
				}
				if !found {
					res.Fail("script-error-not-local failing="+f.Name+" after="+a.Name, fmt.Sprintf("script %s raised an error and the later script %s did not complete (its final manifest.head never reached the registry, run took %s)", f.Name, a.Name, time.Since(t0).Round(time.Millisecond)), c)
				}
				res.Count("errorlocal")
			}
		}
	}
	_ = bytes.MinRead
	lib.WriteResult(o.Out, res)
}
