// Package c02: a manifest is exactly the bytes its digest names.  Manifest bodies of every supported media type are
// written by an independent JSON writer (random key order, whitespace, unknown fields, embedded data, subject,
// annotations); manifest.New, RegClient.ManifestGet against a model registry that serves chosen bodies and headers,
// and against an OCI layout whose files may not match their names, are driven with every combination of
// expected-digest sources (right and wrong, sha256 and sha512); fetched manifests are pushed elsewhere and the bytes
// compared; programs of setter calls are applied and the descriptor equation re-checked after every step.
package c02

import (
	"bytes"
	"context"
	"crypto/sha256"
	"crypto/sha512"
	"encoding/base64"
	"encoding/hex"
	"encoding/json"
	"fmt"
	"net/http"
	"os"
	"path/filepath"
	"reflect"
	"sort"
	"strings"
	"time"

	digest "github.com/opencontainers/go-digest"

	"github.com/regclient/regclient"
	"github.com/regclient/regclient/config"
	"github.com/regclient/regclient/scheme/reg"
	"github.com/regclient/regclient/types/descriptor"
	"github.com/regclient/regclient/types/manifest"
	"github.com/regclient/regclient/types/ref"

	"verifharness/lib"
	"verifharness/memreg"
	"verifharness/memrt"
)

const (
	mtOCIImage  = "application/vnd.oci.image.manifest.v1+json"
	mtOCIIndex  = "application/vnd.oci.image.index.v1+json"
	mtOCIArt    = "application/vnd.oci.artifact.manifest.v1+json"
	mtDocker    = "application/vnd.docker.distribution.manifest.v2+json"
	mtDockerL   = "application/vnd.docker.distribution.manifest.list.v2+json"
	mtDocker1   = "application/vnd.docker.distribution.manifest.v1+json"
	mtDocker1S  = "application/vnd.docker.distribution.manifest.v1+prettyjws"
	mtOCIConfig = "application/vnd.oci.image.config.v1+json"
	mtOCILayer  = "application/vnd.oci.image.layer.v1.tar+gzip"
)

var mtIDs = map[string]int{"": 0, mtOCIImage: 1, mtOCIIndex: 2, mtOCIArt: 3, mtDocker: 4, mtDockerL: 5, mtDocker1: 6, "text/plain": 7, "application/vnd.docker.distribution.manifest.v1+prettyjws": 8}
var kinds = []string{mtOCIImage, mtOCIIndex, mtOCIArt, mtDocker, mtDockerL, mtDocker1}

// bodies: signed schema1 (a JWS envelope in libtrust's "pretty" form) is generated as a body, never claimed for another body
var bodyKinds = []string{mtOCIImage, mtOCIIndex, mtOCIArt, mtDocker, mtDockerL, mtDocker1, mtOCIImage, mtDocker, mtDocker1S}

const sigMarker = `,"signatures":[`

// named: the bytes a manifest's digest names - the raw bytes, except for signed schema1 where the digest (and size) are
// those of the JWS payload, i.e. the body without the signatures member (Docker's definition, types/manifest follows it)
func named(mt string, raw []byte) []byte {
	if mt != mtDocker1S {
		return raw
	}
	i := bytes.LastIndex(raw, []byte(sigMarker))
	if i < 0 {
		return raw
	}
	return append(append([]byte{}, raw[:i]...), '}')
}
func b64url(b []byte) string { return strings.TrimRight(base64.URLEncoding.EncodeToString(b), "=") }

type Case struct {
	Kind      string // new | fetch | dir | repush | edit
	Seed      uint64
	MT        string // which kind of manifest the body is
	OmitMT    bool   // the body carries no mediaType field
	Malformed bool   // the body is cut short
	EDesc     string `json:",omitempty"` // "", ok256, ok512, bad256, bad512
	ERef      string `json:",omitempty"`
	EHdr      string `json:",omitempty"`
	MTDesc    string `json:",omitempty"` // media type given in the descriptor
	MTHdr     string `json:",omitempty"` // Content-Type header
	Corrupt   bool   `json:",omitempty"` // dir: the file does not hold the bytes its name says
	ByTag     bool   `json:",omitempty"`
	Prog      []int  `json:",omitempty"` // edit: setter program
	Alg512    bool   `json:",omitempty"`
}

func sha(alg string, b []byte) string {
	if alg == "sha512" {
		s := sha512.Sum512(b)
		return "sha512:" + hex.EncodeToString(s[:])
	}
	s := sha256.Sum256(b)
	return "sha256:" + hex.EncodeToString(s[:])
}

// ---------- the independent JSON writer ----------
type kv struct {
	k string
	v string // raw JSON
}

func jstr(s string) string { b, _ := json.Marshal(s); return string(b) }
func wsp(r *lib.Rand) string {
	return lib.Pick(r, []string{"", "", " ", "\n  ", "\t", "  "})
}
func obj(r *lib.Rand, shuffle bool, fields []kv) string {
	if shuffle {
		p := r.Perm(len(fields))
		f2 := make([]kv, len(fields))
		for i, j := range p {
			f2[i] = fields[j]
		}
		fields = f2
	}
	var sb strings.Builder
	sb.WriteString("{")
	for i, f := range fields {
		if i > 0 {
			sb.WriteString(",")
		}
		sb.WriteString(wsp(r) + jstr(f.k) + wsp(r) + ":" + wsp(r) + f.v)
	}
	sb.WriteString(wsp(r) + "}")
	return sb.String()
}
func arr(r *lib.Rand, items []string) string {
	return "[" + wsp(r) + strings.Join(items, ","+wsp(r)) + wsp(r) + "]"
}
func descJ(r *lib.Rand, mt string, content []byte, withData, withPlat bool, k int) string {
	f := []kv{{"mediaType", jstr(mt)}, {"digest", jstr(sha("sha256", content))}, {"size", fmt.Sprint(len(content))}}
	if withData {
		f = append(f, kv{"data", jstr(string(mustB64(content)))})
	}
	if withPlat {
		f = append(f, kv{"platform", obj(r, true, []kv{{"architecture", jstr([]string{"amd64", "arm64", "arm"}[k%3])}, {"os", jstr("linux")}})})
	}
	if r.Chance(20) {
		f = append(f, kv{"annotations", obj(r, true, []kv{{"d", jstr(fmt.Sprint(k))}})})
	}
	return obj(r, r.Chance(60), f)
}
func mustB64(b []byte) []byte {
	j, _ := json.Marshal(b) // "base64"
	return j[1 : len(j)-1]
}

func genBody(r *lib.Rand, c Case) []byte {
	uniq := fmt.Sprintf("c02-%x", c.Seed&0xffff)
	var f []kv
	ann := func() {
		if r.Chance(50) {
			f = append(f, kv{"annotations", obj(r, true, []kv{{"org.example.note", jstr(uniq + " é\"<&>")}, {"a", jstr("1")}})})
		}
	}
	subj := func() {
		if r.Chance(35) {
			f = append(f, kv{"subject", descJ(r, mtOCIImage, []byte(uniq+"-subject"), false, false, 0)})
		}
	}
	extra := func() {
		if r.Chance(40) {
			f = append(f, kv{"x-unknown-field", obj(r, true, []kv{{"k", "[1,2,3]"}, {"z", "null"}})})
		}
	}
	layers := func(n int, mt string) string {
		var ls []string
		for i := 0; i < n; i++ {
			ls = append(ls, descJ(r, mt, []byte(fmt.Sprintf("%s-layer-%d", uniq, i)), r.Chance(15), false, i))
		}
		return arr(r, ls)
	}
	switch c.MT {
	case mtOCIImage:
		f = []kv{{"schemaVersion", "2"}, {"config", descJ(r, mtOCIConfig, []byte(`{"architecture":"amd64","os":"linux"}`), r.Chance(30), false, 0)}, {"layers", layers(1+r.Intn(3), mtOCILayer)}}
		if r.Chance(30) {
			f = append(f, kv{"artifactType", jstr("application/vnd.example.thing")})
		}
		ann()
		subj()
	case mtOCIIndex:
		var ms []string
		for i := 0; i < r.Intn(4); i++ {
			ms = append(ms, descJ(r, lib.Pick(r, []string{mtOCIImage, mtDocker}), []byte(fmt.Sprintf("%s-child-%d", uniq, i)), false, true, i))
		}
		f = []kv{{"schemaVersion", "2"}, {"manifests", arr(r, ms)}}
		ann()
		subj()
	case mtOCIArt:
		f = []kv{{"artifactType", jstr("application/vnd.example.sbom")}, {"blobs", layers(1+r.Intn(2), "application/vnd.example.data")}}
		ann()
		subj()
	case mtDocker:
		f = []kv{{"schemaVersion", "2"}, {"config", descJ(r, "application/vnd.docker.container.image.v1+json", []byte(`{"architecture":"amd64"}`), false, false, 0)},
			{"layers", layers(1+r.Intn(3), "application/vnd.docker.image.rootfs.diff.tar.gzip")}}
	case mtDockerL:
		var ms []string
		for i := 0; i < 1+r.Intn(3); i++ {
			ms = append(ms, descJ(r, mtDocker, []byte(fmt.Sprintf("%s-child-%d", uniq, i)), false, true, i))
		}
		f = []kv{{"schemaVersion", "2"}, {"manifests", arr(r, ms)}}
	case mtDocker1:
		f = []kv{{"schemaVersion", "1"}, {"name", jstr("proj/app")}, {"tag", jstr("v1")}, {"architecture", jstr("amd64")},
			{"fsLayers", arr(r, []string{obj(r, false, []kv{{"blobSum", jstr(sha("sha256", []byte(uniq+"-l0")))}})})},
			{"history", arr(r, []string{obj(r, false, []kv{{"v1Compatibility", jstr(`{"id":"x"}`)}})})}}
	case mtDocker1S:
		f = []kv{{"schemaVersion", "1"}, {"name", jstr("proj/app")}, {"tag", jstr("v1")}, {"architecture", jstr("amd64")},
			{"fsLayers", arr(r, []string{obj(r, false, []kv{{"blobSum", jstr(sha("sha256", []byte(uniq+"-l0")))}})})},
			{"history", arr(r, []string{obj(r, false, []kv{{"v1Compatibility", jstr(`{"id":"x"}`)}})})}}
	}
	if !c.OmitMT && c.MT != mtDocker1 && c.MT != mtDocker1S {
		f = append(f, kv{"mediaType", jstr(c.MT)})
	}
	extra()
	b := []byte(obj(r, r.Chance(70), f))
	if c.MT == mtDocker1S {
		// payload = b; the envelope inserts the signatures member before the closing brace and records, in every
		// signature's protected header, where the payload was cut and what followed
		i := bytes.LastIndexByte(b, '}')
		prot := b64url([]byte(fmt.Sprintf(`{"formatLength":%d,"formatTail":"%s","time":"2026-01-01T00:00:00Z"}`, i, b64url([]byte("}")))))
		var sigs []string
		for k := 0; k < 1+r.Intn(2); k++ {
			sigs = append(sigs, fmt.Sprintf(`{"header":{"alg":"ES256"},"signature":"%s","protected":"%s"}`, b64url(r.Bytes(24)), prot))
		}
		b = []byte(string(b[:i]) + sigMarker + strings.Join(sigs, ",") + "]}")
	}
	if r.Chance(30) {
		b = append(b, '\n')
	}
	if c.Malformed {
		b = b[:len(b)/2]
	}
	return b
}

// detect: duck typing of a body without a media type, as the property's "media type" of last resort
func detect(c Case) string {
	if c.Malformed {
		return ""
	}
	if !c.OmitMT && c.MT != mtDocker1 && c.MT != mtDocker1S {
		return c.MT
	}
	switch c.MT {
	case mtDocker1:
		return mtDocker1
	case mtDocker1S:
		return mtDocker1S
	case mtOCIImage:
		return mtOCIImage
	case mtDocker:
		return mtDocker
	case mtOCIIndex, mtDockerL:
		return "index?" // depends on the children, decided below
	}
	return ""
}

func expectOf(code string, raw []byte) (digest.Digest, string) {
	switch code {
	case "ok256":
		return digest.Digest(sha("sha256", raw)), "sha256"
	case "ok512":
		return digest.Digest(sha("sha512", raw)), "sha512"
	case "bad256":
		return digest.Digest(sha("sha256", append([]byte("x"), raw...))), "sha256"
	case "bad512":
		return digest.Digest(sha("sha512", append([]byte("x"), raw...))), "sha512"
	}
	return "", ""
}

func coqExpect(code string) string {
	switch code {
	case "ok256":
		return "(Some (0, 1))"
	case "ok512":
		return "(Some (1, 101))"
	case "bad256":
		return "(Some (0, 2))"
	case "bad512":
		return "(Some (1, 102))"
	}
	return "None"
}

// observation of an accepted manifest, for the oracle and for Coq
type obsT struct {
	ok   bool
	alg  int
	dg   int
	size int
	mt   int
	rawP bool
}

func observe(m manifest.Manifest, err error, raw []byte) obsT {
	if err != nil || m == nil {
		return obsT{}
	}
	d := m.GetDescriptor()
	o := obsT{ok: true, mt: mtIDs[d.MediaType]}
	if _, known := mtIDs[d.MediaType]; !known {
		o.mt = 99
	}
	a := "sha256"
	if d.Digest.Algorithm() == digest.SHA512 {
		a, o.alg = "sha512", 1
	}
	nb := named(d.MediaType, raw) // what the digest and size speak of (the JWS payload for signed schema1)
	switch d.Digest.String() {
	case sha(a, nb):
		o.dg = o.alg*100 + 1
	default:
		o.dg = o.alg*100 + 9
	}
	o.size = 8
	if d.Size == int64(len(nb)) {
		o.size = 7
	}
	rb, _ := m.RawBody()
	mj, _ := m.MarshalJSON()
	o.rawP = bytes.Equal(rb, raw) && bytes.Equal(mj, raw)
	return o
}

func (o obsT) coq() string {
	if !o.ok {
		return "None"
	}
	return fmt.Sprintf("(Some (%d, %d, %d, %d, %s))", o.alg, o.dg, o.size, o.mt, lib.CoqBool(o.rawP))
}

// the oracle on an outcome, independent of the model
func oracle(c Case, o obsT, raw []byte, first string, res *lib.Result, where string) {
	bodyMT := ""
	if !c.OmitMT && c.MT != mtDocker1 && c.MT != mtDocker1S && !c.Malformed {
		bodyMT = c.MT
	}
	if o.ok {
		if strings.HasPrefix(first, "bad") {
			res.Fail("accepted-wrong-digest where="+where+" source="+srcOf(c), fmt.Sprintf("a manifest was returned although the expected digest (%s) is not the digest of its bytes", first), c)
			return
		}
		if o.dg%100 != 1 {
			res.Fail("descriptor-digest-not-of-raw where="+where, "the reported digest is not the hash of the raw bytes", c)
			return
		}
		if o.size != 7 {
			res.Fail("descriptor-size-not-of-raw where="+where, "the reported size is not the length of the raw bytes", c)
			return
		}
		if !o.rawP {
			res.Fail("raw-bytes-not-preserved where="+where, "RawBody / MarshalJSON differ from the bytes the manifest was made from", c)
			return
		}
		if bodyMT != "" && o.mt != mtIDs[bodyMT] {
			res.Fail("media-type-contradicts-body where="+where, fmt.Sprintf("reported media type id %d, the body declares %s", o.mt, bodyMT), c)
			return
		}
		if strings.HasSuffix(first, "512") != (o.alg == 1) && first != "" {
			res.Fail("descriptor-algorithm where="+where, "the reported digest uses another algorithm than the expected digest", c)
		}
		return
	}
	// rejected: only a wrong expectation, a contradicting or missing media type, or a broken body justify it
	if c.Malformed || strings.HasPrefix(first, "bad") {
		return
	}
	given := c.MTDesc
	if given == "" {
		given = c.MTHdr
	}
	if given != "" && given != c.MT {
		return
	}
	if given == "" && bodyMT == "" && c.MT != mtDocker1 && c.MT != mtDocker1S && c.MT != mtOCIImage && c.MT != mtDocker && c.MT != mtOCIIndex && c.MT != mtDockerL {
		return // nothing says what it is
	}
	if given == "" && bodyMT == "" && (c.MT == mtOCIIndex) {
		return // an index without media type and without children cannot be recognised
	}
	res.Fail("rejected-correct-manifest where="+where, "a well-formed manifest with correct expectations was rejected", c)
}

func srcOf(c Case) string {
	switch {
	case c.EDesc != "":
		return "descriptor"
	case c.ERef != "":
		return "reference"
	case c.EHdr != "":
		return "header"
	}
	return "none"
}
func firstOf(c Case) string {
	for _, e := range []string{c.EDesc, c.ERef, c.EHdr} {
		if e != "" {
			return e
		}
	}
	return ""
}

func coqNew(c Case, o obsT, raw []byte) string {
	// which media types the body parses as: any JSON object unmarshals into any of the manifest structs; schema1 needs schemaVersion 1 only by convention
	bodyMT := 0
	if !c.OmitMT && c.MT != mtDocker1 && c.MT != mtDocker1S && !c.Malformed {
		bodyMT = mtIDs[c.MT]
	}
	det := 0
	if !c.Malformed && bodyMT == 0 {
		switch c.MT {
		case mtDocker1:
			det = mtIDs[mtDocker1]
		case mtDocker1S:
			det = mtIDs[mtDocker1S]
		case mtOCIImage:
			det = mtIDs[mtOCIImage]
		case mtDocker:
			det = mtIDs[mtDocker]
		case mtOCIIndex, mtDockerL:
			// the first child decides; no children: unsupported
			var p struct{ Manifests []struct{ MediaType string } }
			_ = json.Unmarshal(raw, &p)
			if len(p.Manifests) > 0 {
				det = mtIDs[mtOCIIndex]
				if strings.HasPrefix(p.Manifests[0].MediaType, "application/vnd.docker.") {
					det = mtIDs[mtDockerL]
				}
			}
		}
	}
	return fmt.Sprintf("CNew %s %s %s %d %d %d %d %s %s", coqExpect(c.EDesc), coqExpect(c.ERef), coqExpect(c.EHdr), mtIDs[c.MTDesc], mtIDs[c.MTHdr], bodyMT, det,
		lib.CoqBool(!c.Malformed), o.coq())
}

func runNew(c Case, res *lib.Result) string {
	r := lib.NewRand(c.Seed)
	raw := genBody(r, c)
	var opts []manifest.Opts
	opts = append(opts, manifest.WithRaw(raw))
	d := descriptor.Descriptor{MediaType: c.MTDesc}
	nm := named(c.MT, raw)
	if e, _ := expectOf(c.EDesc, nm); e != "" {
		d.Digest = e
		if r.Bool() {
			d.Size = int64(len(nm))
		} else if r.Chance(30) {
			d.Size = int64(len(nm)) + 3 // a wrong size claim must not survive either
		}
	}
	if d.Digest != "" || d.MediaType != "" {
		opts = append(opts, manifest.WithDesc(d))
	}
	rf, _ := ref.New("reg.example/proj/app:v1")
	if e, _ := expectOf(c.ERef, nm); e != "" {
		rf = rf.SetDigest(e.String())
	}
	opts = append(opts, manifest.WithRef(rf))
	if c.EHdr != "" || c.MTHdr != "" {
		h := http.Header{}
		if e, _ := expectOf(c.EHdr, nm); e != "" {
			h.Set("Docker-Content-Digest", e.String())
		}
		if c.MTHdr != "" {
			h.Set("Content-Type", c.MTHdr)
		}
		h.Set("Content-Length", fmt.Sprint(len(raw)+r.Intn(2)))
		opts = append(opts, manifest.WithHeader(h))
	}
	m, err := manifest.New(opts...)
	o := observe(m, err, raw)
	res.Count(fmt.Sprintf("new:%s:ok=%v", short(c.MT), o.ok))
	oracle(c, o, raw, firstOf(c), res, "manifest.New")
	return coqNew(c, o, raw)
}

func short(mt string) string { return fmt.Sprint(mtIDs[mt]) }

func newWorld() (*regclient.RegClient, *memreg.Registry, *memreg.Registry, *memrt.RT) {
	a := memreg.New("a.example", memreg.Features{Delete: true})
	b := memreg.New("b.example", memreg.Features{Delete: true})
	rt := &memrt.RT{}
	rt.Handler = func(req *http.Request, body []byte, n int) *http.Response {
		if req.URL.Host == "b.example" {
			return b.Handle(req, body, n)
		}
		return a.Handle(req, body, n)
	}
	rc := regclient.New(regclient.WithConfigHosts([]config.Host{{Name: "a.example", Hostname: "a.example", TLS: config.TLSDisabled}, {Name: "b.example", Hostname: "b.example", TLS: config.TLSDisabled}}),
		regclient.WithRegOpts(reg.WithHTTPClient(&http.Client{Transport: rt}), reg.WithDelay(time.Millisecond, 2*time.Millisecond), reg.WithRetryLimit(2)))
	return rc, a, b, rt
}

// runFetch: the registry serves the body under the requested reference with chosen headers
func runFetch(c Case, res *lib.Result) string {
	r := lib.NewRand(c.Seed)
	raw := genBody(r, c)
	rc, a, b, rt := newWorld()
	ctx, cancel := context.WithTimeout(context.Background(), 20*time.Second)
	defer cancel()
	a.Hook = func(req *http.Request, body []byte, n int) *http.Response {
		if (req.Method == "GET" || req.Method == "HEAD") && strings.Contains(req.URL.Path, "/manifests/") {
			h := map[string]string{"Content-Length": fmt.Sprint(len(raw))}
			if c.MTHdr != "" {
				h["Content-Type"] = c.MTHdr
			}
			if e, _ := expectOf(c.EHdr, named(c.MT, raw)); e != "" {
				h["Docker-Content-Digest"] = e.String()
			}
			if req.Method == "HEAD" {
				return memrt.Resp(200, h, nil)
			}
			return memrt.Resp(200, h, raw)
		}
		return nil
	}
	name := "a.example/proj/app:v1"
	if e, _ := expectOf(c.ERef, named(c.MT, raw)); e != "" {
		name = "a.example/proj/app@" + e.String()
	}
	rf, _ := ref.New(name)
	var mo []regclient.ManifestOpts
	m, err := rc.ManifestGet(ctx, rf, mo...)
	o := observe(m, err, raw)
	res.Count(fmt.Sprintf("fetch:%s:ok=%v", short(c.MT), o.ok))
	c2 := c
	c2.EDesc, c2.MTDesc = "", ""
	oracle(c2, o, raw, firstOf(c2), res, "registry ManifestGet")
	if c.Kind == "repush" && o.ok {
		rt.Log = nil
		tr, _ := ref.New("b.example/copy/app:v1")
		if err := rc.ManifestPut(ctx, tr, m); err != nil {
			res.Fail("repush-failed", "ManifestPut of a fetched manifest failed: "+err.Error(), c)
		} else {
			got := false
			for _, rec := range rt.Records() {
				if rec.Host == "b.example" && rec.Method == "PUT" && strings.HasSuffix(rec.Path, "/manifests/v1") {
					got = true
					if !bytes.Equal(rec.Body, raw) {
						res.Fail("repush-changed-bytes", "the bytes pushed differ from the bytes fetched", c)
					}
					if ct := rec.Header.Get("Content-Type"); ct != "" && mtIDs[ct] != o.mt {
						res.Fail("repush-changed-media-type", "pushed with Content-Type "+ct, c)
					}
				}
			}
			if !got {
				res.Fail("repush-no-put", "no manifest PUT reached the target", c)
			}
			b.Lock()
			_, ok := b.Repos["copy/app"].Manifests[memreg.ManifestDigest("sha256", raw)] // a signed schema1 manifest is stored under the digest of its payload
			b.Unlock()
			if !ok && o.alg == 0 {
				res.Fail("repush-digest-changed", "the target does not hold the manifest under its original digest", c)
			}
		}
		// ... and into an OCI layout: the file stored under the manifest's digest holds exactly the bytes fetched
		lay, lerr := os.MkdirTemp("", "c02-repush-")
		if lerr == nil {
			defer os.RemoveAll(lay)
			lr, _ := ref.New("ocidir://" + lay + ":v1")
			if err := rc.ManifestPut(ctx, lr, m); err != nil {
				res.Fail("repush-failed target=layout", "ManifestPut of a fetched manifest into a layout failed: "+err.Error(), c)
			} else {
				dg := m.GetDescriptor().Digest
				fb, ferr := os.ReadFile(filepath.Join(lay, "blobs", dg.Algorithm().String(), dg.Encoded()))
				if ferr != nil || !bytes.Equal(fb, raw) {
					res.Fail("repush-changed-bytes target=layout", fmt.Sprintf("the layout file under %s holds %d bytes that differ from the %d bytes fetched (read error: %v)", dg, len(fb), len(raw), ferr), c)
				}
			}
			res.Count("repush-layout")
		}
		res.Count("repush")
	}
	return coqNew(c2, o, raw)
}

// runDir: an OCI layout file that may not hold what its name says
func runDir(c Case, tmp string, res *lib.Result) string {
	r := lib.NewRand(c.Seed)
	raw := genBody(r, c)
	dir, _ := os.MkdirTemp(tmp, "c02-")
	defer os.RemoveAll(dir)
	_ = os.MkdirAll(filepath.Join(dir, "blobs", "sha256"), 0o755)
	_ = os.WriteFile(filepath.Join(dir, "oci-layout"), []byte(`{"imageLayoutVersion":"1.0.0"}`), 0o644)
	named := sha("sha256", raw)
	stored := raw
	if c.Corrupt {
		stored = append([]byte(nil), raw...)
		stored[len(stored)/3] ^= 0x20
		if bytes.Equal(stored, raw) {
			stored = append(stored, ' ')
		}
	}
	_ = os.WriteFile(filepath.Join(dir, "blobs", "sha256", strings.TrimPrefix(named, "sha256:")), stored, 0o644)
	mt := c.MT
	ix := fmt.Sprintf(`{"schemaVersion":2,"manifests":[{"mediaType":%s,"digest":%s,"size":%d,"annotations":{"org.opencontainers.image.ref.name":"v1"}}]}`, jstr(mt), jstr(named), len(raw))
	_ = os.WriteFile(filepath.Join(dir, "index.json"), []byte(ix), 0o644)
	rc := regclient.New()
	name := "ocidir://" + dir + ":v1"
	if !c.ByTag {
		name = "ocidir://" + dir + "@" + named
	}
	rf, _ := ref.New(name)
	m, err := rc.ManifestGet(context.Background(), rf)
	o := observe(m, err, stored)
	res.Count(fmt.Sprintf("dir:corrupt=%v:ok=%v", c.Corrupt, o.ok))
	if c.Corrupt {
		if o.ok {
			res.Fail(fmt.Sprintf("layout-served-wrong-bytes bytag=%v", c.ByTag), "the layout returned a manifest whose bytes do not hash to the digest it was asked for / is listed under", c)
		}
	} else if !c.Malformed {
		c2 := c
		c2.EDesc, c2.ERef, c2.EHdr, c2.MTDesc, c2.MTHdr = "ok256", "", "", mt, ""
		oracle(c2, o, raw, "ok256", res, "layout ManifestGet")
	}
	return ""
}

// ---------- edits ----------
func mkDesc(k int) descriptor.Descriptor {
	b := []byte(fmt.Sprintf("edit-blob-%d", k))
	return descriptor.Descriptor{MediaType: mtOCILayer, Digest: digest.Digest(sha("sha256", b)), Size: int64(len(b))}
}

func runEdit(c Case, res *lib.Result) string {
	r := lib.NewRand(c.Seed)
	raw := genBody(r, c)
	var opts []manifest.Opts
	opts = append(opts, manifest.WithRaw(raw))
	if c.Alg512 {
		opts = append(opts, manifest.WithDesc(descriptor.Descriptor{Digest: digest.Digest(sha("sha512", raw))}))
	}
	m, err := manifest.New(opts...)
	if err != nil {
		res.Count("edit:new-failed")
		return ""
	}
	mt0 := m.GetDescriptor().MediaType
	check := func(step int, what string) bool {
		d := m.GetDescriptor()
		rb, err1 := m.RawBody()
		mj, err2 := m.MarshalJSON()
		if err1 != nil || err2 != nil {
			res.Fail("edit-no-body step="+what, "RawBody/MarshalJSON failed after an edit", c)
			return false
		}
		a := "sha256"
		if c.Alg512 {
			a = "sha512"
		}
		if d.Digest.String() != sha(a, rb) {
			res.Fail("edit-digest-drift step="+what, fmt.Sprintf("after step %d (%s) the descriptor says %s, the serialisation hashes to %s", step, what, d.Digest, sha(a, rb)), c)
			return false
		}
		if d.Size != int64(len(rb)) {
			res.Fail("edit-size-drift step="+what, fmt.Sprintf("after step %d (%s) the descriptor says %d bytes, the serialisation has %d", step, what, d.Size, len(rb)), c)
			return false
		}
		if !bytes.Equal(rb, mj) {
			res.Fail("edit-marshal-differs step="+what, "MarshalJSON is not the raw body", c)
			return false
		}
		if d.MediaType != mt0 || (!c.OmitMT && mt0 != c.MT) {
			res.Fail("edit-media-type-changed step="+what, "descriptor media type is now "+d.MediaType, c)
			return false
		}
		// the serialisation parses back to what the getters return
		m2, err := manifest.New(manifest.WithRaw(rb), manifest.WithDesc(descriptor.Descriptor{MediaType: d.MediaType}))
		if err != nil {
			res.Fail("edit-unparseable step="+what, "the serialisation after an edit does not parse: "+err.Error(), c)
			return false
		}
		var bm struct {
			MediaType string `json:"mediaType"`
		}
		_ = json.Unmarshal(rb, &bm)
		if bm.MediaType != "" && bm.MediaType != d.MediaType {
			res.Fail("edit-body-media-type step="+what, fmt.Sprintf("the serialisation declares mediaType %q, the descriptor %q", bm.MediaType, d.MediaType), c)
			return false
		}
		if !sameGetters(m, m2) {
			res.Fail("edit-getters-differ step="+what, "the serialisation parses back to other values than the getters return", c)
			return false
		}
		return true
	}
	if !check(0, "new") {
		return ""
	}
	names := []string{"ann-set", "ann-del", "config", "layers", "list", "subject", "subject-nil", "setorig", "setorig-nomt", "config-data", "layers-data"}
	for i, p := range c.Prog {
		what := names[p%len(names)]
		var err error
		applied := true
		switch what {
		case "ann-set":
			if a, ok := m.(manifest.Annotator); ok {
				err = a.SetAnnotation("k"+fmt.Sprint(i%3), fmt.Sprintf("v%d é", i))
			} else {
				applied = false
			}
		case "ann-del":
			if a, ok := m.(manifest.Annotator); ok {
				err = a.SetAnnotation("k"+fmt.Sprint(i%3), "")
			} else {
				applied = false
			}
		case "config":
			if a, ok := m.(manifest.Imager); ok {
				err = a.SetConfig(mkDesc(100 + i))
			} else {
				applied = false
			}
		case "config-data": // the current config descriptor again, differing only in its embedded data
			if a, ok := m.(manifest.Imager); ok {
				d, e := a.GetConfig()
				if e != nil {
					applied = false
					break
				}
				if len(d.Data) > 0 {
					d.Data = nil
				} else {
					d.Data = []byte(fmt.Sprintf("{\"k\":%d}", i))
				}
				err = a.SetConfig(d)
			} else {
				applied = false
			}
		case "layers-data": // the current layers again, the first one differing only in its embedded data / annotations
			if a, ok := m.(manifest.Imager); ok {
				l, e := a.GetLayers()
				if e != nil || len(l) == 0 {
					applied = false
					break
				}
				l = append([]descriptor.Descriptor{}, l...)
				if i%2 == 0 {
					if len(l[0].Data) > 0 {
						l[0].Data = nil
					} else {
						l[0].Data = []byte("x")
					}
				} else {
					l[0].Annotations = map[string]string{"n": fmt.Sprint(i)}
				}
				err = a.SetLayers(l)
			} else {
				applied = false
			}
		case "layers":
			if a, ok := m.(manifest.Imager); ok {
				err = a.SetLayers([]descriptor.Descriptor{mkDesc(i), mkDesc(i + 1)}[:1+i%2])
			} else {
				applied = false
			}
		case "list":
			if a, ok := m.(manifest.Indexer); ok {
				err = a.SetManifestList([]descriptor.Descriptor{mkDesc(200 + i)})
			} else {
				applied = false
			}
		case "subject":
			if a, ok := m.(manifest.Subjecter); ok {
				d := mkDesc(300 + i)
				err = a.SetSubject(&d)
			} else {
				applied = false
			}
		case "subject-nil":
			if a, ok := m.(manifest.Subjecter); ok {
				err = a.SetSubject(nil)
			} else {
				applied = false
			}
		case "setorig", "setorig-nomt":
			o := m.GetOrig()
			if what == "setorig-nomt" { // a struct whose media type field is empty or another type's
				rv := reflect.New(reflect.TypeOf(o)).Elem()
				rv.Set(reflect.ValueOf(o))
				if f := rv.FieldByName("MediaType"); f.IsValid() && f.CanSet() {
					f.SetString(lib.Pick(r, []string{"", mtDocker, mtOCIImage, mtOCIIndex}))
				}
				o = rv.Interface()
			}
			err = m.SetOrig(o)
		}
		if !applied {
			continue
		}
		res.Count("edit:" + what)
		if err != nil {
			res.Count("edit:" + what + ":err")
			// an edit that reports an error must leave the equation intact as well
		}
		if !check(i+1, what) {
			return ""
		}
	}
	return ""
}

func sameGetters(a, b manifest.Manifest) bool {
	norm := func(m manifest.Manifest) string {
		out := map[string]any{}
		if x, ok := m.(manifest.Annotator); ok {
			v, _ := x.GetAnnotations()
			if len(v) > 0 {
				out["ann"] = v
			}
		}
		if x, ok := m.(manifest.Imager); ok {
			if v, err := x.GetConfig(); err == nil {
				out["config"] = v
			}
			if v, err := x.GetLayers(); err == nil {
				out["layers"] = v
			}
		}
		if x, ok := m.(manifest.Indexer); ok {
			if v, err := x.GetManifestList(); err == nil {
				out["list"] = v
			}
		}
		if x, ok := m.(manifest.Subjecter); ok {
			if v, err := x.GetSubject(); err == nil && v != nil {
				out["subject"] = *v
			}
		}
		b, _ := json.Marshal(out)
		return string(b)
	}
	return norm(a) == norm(b)
}

var expects = []string{"", "", "ok256", "ok512", "bad256", "bad512", "ok256"}

func genCase(r *lib.Rand) Case {
	c := Case{Seed: r.U64(), MT: lib.Pick(r, kinds), OmitMT: r.Chance(25), Malformed: r.Chance(6)}
	switch k := r.Intn(100); {
	case k < 40:
		c.Kind = "new"
		c.MT = lib.Pick(r, bodyKinds)
		c.EDesc, c.ERef, c.EHdr = lib.Pick(r, expects), lib.Pick(r, expects), lib.Pick(r, expects)
		if r.Chance(60) {
			c.MTDesc = c.MT
		} else if r.Chance(30) {
			c.MTDesc = lib.Pick(r, append(kinds, "text/plain"))
		}
		if r.Chance(50) {
			c.MTHdr = c.MT
		} else if r.Chance(20) {
			c.MTHdr = lib.Pick(r, kinds)
		}
		signedOnly(&c)
	case k < 62:
		c.Kind = lib.Pick(r, []string{"fetch", "fetch", "repush"})
		c.MT = lib.Pick(r, bodyKinds)
		c.ERef, c.EHdr = lib.Pick(r, []string{"", "", "ok256", "ok512", "bad256"}), lib.Pick(r, expects)
		if r.Chance(75) {
			c.MTHdr = c.MT
		} else if r.Chance(40) {
			c.MTHdr = lib.Pick(r, kinds)
		}
		if c.Kind == "repush" {
			c.Malformed = false
		}
		signedOnly(&c)
	case k < 68:
		c.Kind = "orig"
		c.Malformed = false
		c.EDesc = lib.Pick(r, []string{"", "ok256", "ok512", "bad256"})
		c.ByTag, c.Corrupt = r.Chance(40), r.Chance(30)
	case k < 78:
		c.Kind = "dir"
		c.Corrupt, c.ByTag = r.Chance(50), r.Bool()
		c.Malformed = false
	default:
		c.Kind = "edit"
		c.Malformed, c.OmitMT = false, r.Chance(15)
		c.Alg512 = r.Chance(30)
		n := 1 + r.Intn(8)
		for i := 0; i < n; i++ {
			c.Prog = append(c.Prog, r.Intn(11))
		}
	}
	return c
}

// a signed schema1 body has two candidate digests (of the envelope, of the payload): it is offered only with its own
// media type or none, so that "the right digest" stays one value per case
func signedOnly(c *Case) {
	if c.MT != mtDocker1S {
		return
	}
	if c.MTDesc != "" {
		c.MTDesc = mtDocker1S
	}
	if c.MTHdr != "" {
		c.MTHdr = mtDocker1S
	}
}

// runOrig: a manifest built from a struct, optionally together with raw bytes and a descriptor claim
func runOrig(c Case, res *lib.Result) string {
	r := lib.NewRand(c.Seed)
	raw := genBody(r, c)
	m0, err := manifest.New(manifest.WithRaw(raw), manifest.WithDesc(descriptor.Descriptor{MediaType: c.MT}))
	if err != nil {
		res.Count("orig:new-failed")
		return ""
	}
	opts := []manifest.Opts{manifest.WithOrig(m0.GetOrig())}
	withRaw := c.ByTag
	if withRaw {
		opts = append(opts, manifest.WithRaw(raw))
	}
	d := descriptor.Descriptor{}
	mj, _ := json.Marshal(m0.GetOrig())
	if withRaw { // the raw bytes given are what the manifest is
		mj = raw
	}
	switch c.EDesc {
	case "ok256":
		d.Digest = digest.Digest(sha("sha256", mj))
	case "ok512":
		d.Digest = digest.Digest(sha("sha512", mj))
	case "bad256":
		d.Digest = digest.Digest(sha("sha256", append([]byte("x"), mj...)))
	}
	if c.Corrupt {
		d.Size = int64(len(mj)) + 5
	}
	if d.Digest != "" || d.Size != 0 {
		opts = append(opts, manifest.WithDesc(d))
	}
	m, err := manifest.New(opts...)
	res.Count(fmt.Sprintf("orig:raw=%v:ok=%v", withRaw, err == nil))
	if err != nil {
		if c.EDesc != "bad256" {
			res.Fail("orig-rejected", "manifest.New(WithOrig) with correct expectations failed: "+err.Error(), c)
		}
		return ""
	}
	if c.EDesc == "bad256" {
		res.Fail("accepted-wrong-digest where=manifest.New(WithOrig) source=descriptor", "a manifest was returned although the expected digest is not the digest of its serialisation", c)
		return ""
	}
	got := m.GetDescriptor()
	rb, _ := m.RawBody()
	a := "sha256"
	if c.EDesc == "ok512" {
		a = "sha512"
	}
	if got.Digest.String() != sha(a, rb) {
		res.Fail(fmt.Sprintf("orig-digest-not-of-raw withraw=%v", withRaw), fmt.Sprintf("descriptor digest %s, the raw body hashes to %s", got.Digest, sha(a, rb)), c)
		return ""
	}
	if got.Size != int64(len(rb)) {
		res.Fail(fmt.Sprintf("orig-size-not-of-raw withraw=%v sizeclaim=%v", withRaw, c.Corrupt), fmt.Sprintf("descriptor size %d, the raw body has %d bytes", got.Size, len(rb)), c)
	}
	return ""
}

func runCase(c Case, tmp string, res *lib.Result) (ret string) {
	defer res.Recover(c)
	return runCaseRaw(c, tmp, res)
}

func runCaseRaw(c Case, tmp string, res *lib.Result) string {
	switch c.Kind {
	case "orig":
		return runOrig(c, res)
	case "new":
		return runNew(c, res)
	case "fetch", "repush":
		return runFetch(c, res)
	case "dir":
		return runDir(c, tmp, res)
	}
	return runEdit(c, res)
}

func Run(o lib.Opts) {
	res := lib.NewResult("C02", o.Tier, o.Seed)
	res.Rule = "one splitmix64 stream: bodies of 7 media types (OCI image / index / artifact, Docker schema2 image / list, schema1 unsigned and signed - a libtrust pretty-JWS envelope whose digest and size are those of its payload) from an independent JSON writer (70% shuffled key order, random whitespace, 40% unknown fields, embedded data, subject, annotations with non-ASCII and escapes, trailing newline, 25% without mediaType, 6% cut short); 40% manifest.New with each of descriptor / reference / header digest absent, right or wrong in sha256 or sha512, media type given in descriptor and/or header (right, another manifest type, text/plain), wrong size claims; 22% RegClient.ManifestGet from a model registry serving the body with chosen Docker-Content-Digest and Content-Type, a third of them pushed on to a second registry and compared byte for byte; 12% OCI layouts whose file holds other bytes than its name says (by tag and by digest); 26% programs of 1-8 setter calls (annotation set/delete, config, layers, manifest list, subject set/clear, whole-struct replacement with and without a media type) on sha256 and sha512 manifests, re-checked after every step; non-trivial = wrong expectation, corrupt file, or edit program; distinct by case"
	if o.Replay != "" {
		var f struct{ Case Case }
		b, err := os.ReadFile(o.Replay)
		if err == nil {
			err = json.Unmarshal(b, &f)
		}
		if err != nil {
			fmt.Println("replay:", err)
			os.Exit(2)
		}
		runCase(f.Case, os.TempDir(), res)
		for _, fl := range res.Failures {
			fmt.Printf("REPLAY-FAIL %s: %s\n", fl.Sig, fl.Desc)
		}
		if len(res.Failures) == 0 {
			fmt.Println("REPLAY-OK")
		}
		return
	}
	r := lib.NewRand(o.Seed)
	cw := lib.NewCaseWriter(o.Out, "C02", "From Coq Require Import List Arith.\nFrom Verif Require Import Model.C02_Manifest Corr.C02.\nImport ListNotations.", "case", 500)
	all := []Case{
		{Kind: "new", Seed: 51, MT: mtOCIImage, ERef: "ok256", EHdr: "bad256", MTHdr: mtOCIImage},
		{Kind: "new", Seed: 52, MT: mtOCIImage, ERef: "bad256", EHdr: "ok256", MTHdr: mtOCIImage},
		{Kind: "fetch", Seed: 53, MT: mtOCIIndex, ERef: "bad256", EHdr: "ok256", MTHdr: mtOCIIndex},
		{Kind: "edit", Seed: 54, MT: mtOCIImage, Prog: []int{8, 0, 7}},
		{Kind: "edit", Seed: 56, MT: mtOCIImage, Prog: []int{9, 0, 9, 10, 10}},
		{Kind: "edit", Seed: 57, MT: mtDocker, Prog: []int{9, 10, 9, 10}},
		{Kind: "edit", Seed: 55, MT: mtOCIIndex, Prog: []int{8, 4}, Alg512: true},
		{Kind: "dir", Seed: 56, MT: mtOCIImage, Corrupt: true, ByTag: true},
	}
	n := o.Scale(700, 12000)
	for i := 0; i < n; i++ {
		all = append(all, genCase(r))
	}
	seen := lib.Set{}
	for _, c := range all {
		res.Evaluations++
		kb, _ := json.Marshal(c)
		term := runCase(c, os.TempDir(), res)
		nontriv := c.Kind == "edit" || c.Corrupt || strings.HasPrefix(c.EDesc, "bad") || strings.HasPrefix(c.ERef, "bad") || strings.HasPrefix(c.EHdr, "bad")
		if _, dup := seen[string(kb)]; !dup && nontriv {
			res.Distinct++
		}
		seen.Add(string(kb))
		if o.Mode != "search" && term != "" {
			cw.Add(term, c)
		}
		res.Sample(c, 3)
	}
	cw.Close(res)
	lib.WriteResult(o.Out, res)
}

var _ = sort.Strings
