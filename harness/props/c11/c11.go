// Package c11: where credentials travel.  Topologies of model hosts with distinct secrets (an upstream registry
// with a mirror, a second registry for cross-registry copies, a blob store that redirect targets point at, an
// external layer host, an upload host, token services) enforce basic or bearer authentication and answer 401 at
// chosen request positions, also from redirect targets and direct URLs.  Every request every host received
// (URL, headers, body) and the whole trace-level log are scanned for every secret in raw and base64 form; the
// sequence of challenges and transmissions is replayed on the Coq monitor.
package c11

import (
	"bytes"
	"context"
	"encoding/base64"
	"encoding/json"
	"fmt"
	"io"
	"log/slog"
	"net/http"
	"net/url"
	"os"
	"sort"
	"strings"
	"sync"
	"time"

	digest "github.com/opencontainers/go-digest"

	"github.com/regclient/regclient"
	"github.com/regclient/regclient/config"
	"github.com/regclient/regclient/scheme/reg"
	"github.com/regclient/regclient/types/descriptor"
	"github.com/regclient/regclient/types/ref"

	"verifharness/imgen"
	"verifharness/lib"
	"verifharness/memreg"
	"verifharness/memrt"
)

type HostSpec struct {
	Name     string
	TLS      bool
	Insecure bool `json:",omitempty"` // TLS without certificate verification (tls: insecure): still TLS, never clear text
	Auth     string // none | basic | bearer
	IDToken  bool   // the client is configured with an identity token instead of user/password (bearer post flow)
	Realm    string `json:",omitempty"` // token service host
	RepoAuth bool   `json:",omitempty"`
	Deny     []int  `json:",omitempty"` // request positions (per host) answered 401 regardless
	Reset    []int  `json:",omitempty"` // request positions at which the connection breaks
	Chal     string `json:",omitempty"` // third-party hosts: the challenge they send when they deny: basic | bearer | both | malformed
	Mirror   string `json:",omitempty"`
}
type Case struct {
	Kind     string // mirror | copy | redirect | external | upload | mixed
	Seed     uint64
	Hosts    []HostSpec
	Redirect string `json:",omitempty"` // R's blob GETs are redirected to this host
	Hops     int    `json:",omitempty"` // extra redirect hops on the store
	UpLoc    string `json:",omitempty"` // S's upload Location: "" | other-host | http-same-host
	RedirTo  string `json:",omitempty"` // scheme of the redirect Location: https | http
	Spell    bool   `json:",omitempty"` // the registry spells its own name with other letter case in the URLs it hands back (host names are case-insensitive)
	Ops      []string
}

type secret struct {
	owner  string // the registry it belongs to
	kind   string // cred | token
	issuer string
	authed bool
}

type hostState struct {
	spec   HostSpec
	user   string
	pass   string
	idtok  string
	reg    *memreg.Registry
	blobs  map[string][]byte // plain stores
	nreq   int
	tokens map[string]string // issued token -> service
	refr   map[string]string // issued refresh token -> service
}

type event struct {
	K      string // chal | cred | tok
	From   string
	Kind   string // basic | bearer
	Realm  string
	Owner  string
	Issuer string
	Dest   string
	Authed bool
	Scheme string
}

type actRec struct {
	K     string // chal | req | tok
	Owner string // auth object: registry name, plus "#repo" with RepoAuth
	Host  string // challenging host / destination / handler host
	Kind  string
	Realm string
}

type world struct {
	acts    []actRec
	curRepo map[string]string
	mu      sync.Mutex
	c       Case
	hosts   map[string]*hostState
	secrets map[string]secret
	events  []event
	rt      *memrt.RT
	rc      *regclient.RegClient
	logBuf  *syncBuf
	tokSeq  int
	uniq    string
}

type syncBuf struct {
	mu sync.Mutex
	b  bytes.Buffer
}

func (s *syncBuf) Write(p []byte) (int, error) { s.mu.Lock(); defer s.mu.Unlock(); return s.b.Write(p) }
func (s *syncBuf) String() string               { s.mu.Lock(); defer s.mu.Unlock(); return s.b.String() }

func b64(u, p string) string { return base64.StdEncoding.EncodeToString([]byte(u + ":" + p)) }

func (w *world) scheme(h string) string {
	if hs, ok := w.hosts[h]; ok && !hs.spec.TLS {
		return "http"
	}
	return "https"
}

// scan finds the secrets a request carries
func (w *world) scan(req *http.Request, body []byte) []string {
	var hay strings.Builder
	hay.WriteString(req.URL.String())
	hay.WriteString("\n")
	for k, vs := range req.Header {
		for _, v := range vs {
			hay.WriteString(k + ": " + v + "\n")
			if strings.HasPrefix(v, "Basic ") {
				if d, err := base64.StdEncoding.DecodeString(strings.TrimPrefix(v, "Basic ")); err == nil {
					hay.Write(d)
					hay.WriteString("\n")
				}
			}
		}
	}
	hay.Write(body)
	if u, err := url.QueryUnescape(string(body)); err == nil {
		hay.WriteString("\n" + u)
	}
	s := hay.String()
	var found []string
	for sec := range w.secrets {
		if strings.Contains(s, sec) {
			found = append(found, sec)
		}
	}
	sort.Strings(found)
	return found
}

func (w *world) challenge(h *hostState, repo string) (string, string, string) {
	switch h.spec.Auth {
	case "basic":
		return `Basic realm="` + h.spec.Name + `"`, "basic", ""
	case "bearer":
		sc := ""
		if repo != "" {
			sc = `,scope="repository:` + repo + `:pull"`
		}
		return fmt.Sprintf(`Bearer realm="%s://%s/token",service="%s"%s`, w.scheme(h.spec.Realm), h.spec.Realm, h.spec.Name, sc), "bearer", h.spec.Realm
	}
	switch h.spec.Chal {
	case "basic":
		return `Basic realm="store"`, "basic", ""
	case "bearer":
		return fmt.Sprintf(`Bearer realm="https://%s/token",service="%s"`, h.spec.Realm, h.spec.Name), "bearer", h.spec.Realm
	case "malformed":
		return `Bearer realm=`, "", ""
	}
	return "", "", ""
}

func deny(ch ...string) *http.Response {
	r := memrt.Resp(401, map[string]string{"Content-Type": "application/json"}, []byte(`{"errors":[{"code":"UNAUTHORIZED"}]}`))
	for _, c := range ch {
		if c != "" {
			r.Header.Add("WWW-Authenticate", c)
		}
	}
	return r
}

func repoOf(p string) string {
	if !strings.HasPrefix(p, "/v2/") {
		return ""
	}
	rest := strings.TrimPrefix(p, "/v2/")
	for _, k := range []string{"/manifests/", "/blobs/", "/tags/", "/referrers/"} {
		if i := strings.Index(rest, k); i >= 0 {
			return rest[:i]
		}
	}
	return ""
}

// ownerOf: the Auth object that handles a request to / a challenge from host, in the repository context given
func (w *world) ownerOf(host, repo string) string {
	regName := host
	switch host {
	case "t.example", "external.example", "x.example":
		regName = "r.example"
	case "u.example":
		regName = "s.example"
	}
	hs := w.hosts[regName]
	if hs == nil || hs.reg == nil {
		return ""
	}
	if regName != host {
		repo = w.curRepo[regName]
	}
	if hs.spec.RepoAuth {
		return regName + "#" + repo
	}
	return regName
}

// spell: the name as the registry writes it in URLs that point back at itself
func (w *world) spell(name string) string {
	if w.c.Spell {
		return strings.ToUpper(name[:1]) + name[1:2] + strings.ToUpper(name[2:3]) + name[3:]
	}
	return name
}

func (w *world) handle(req *http.Request, body []byte, n int) *http.Response {
	w.mu.Lock()
	defer w.mu.Unlock()
	name := strings.ToLower(req.URL.Host) // host names are not case sensitive: R.Example is r.example
	h := w.hosts[name]
	if h == nil {
		return memrt.Resp(502, nil, []byte("no such host"))
	}
	if name != req.URL.Host { // what arrives in clear text at the TLS port of a host is not served (what it carried is recorded first)
		for _, sec := range w.scan(req, body) {
			s := w.secrets[sec]
			if s.kind == "cred" {
				w.events = append(w.events, event{K: "cred", Owner: s.owner, Dest: name, Scheme: req.URL.Scheme})
			} else {
				w.events = append(w.events, event{K: "tok", Owner: s.owner, Issuer: s.issuer, Dest: name, Authed: s.authed, Scheme: req.URL.Scheme})
			}
		}
		if req.URL.Scheme == "http" && h.spec.TLS {
			return memrt.Resp(400, nil, []byte("Client sent an HTTP request to an HTTPS server."))
		}
		return memrt.Resp(404, nil, nil)
	}
	pos := h.nreq
	h.nreq++
	curOwner := w.ownerOf(name, repoOf(req.URL.Path))
	if req.URL.Path == "/token" {
		q := req.URL.Query()
		if req.Method == "POST" {
			q, _ = url.ParseQuery(string(body))
		}
		repo := ""
		if sc := strings.Split(strings.Split(q.Get("scope"), " ")[0], ":"); len(sc) == 3 {
			repo = sc[1]
		}
		curOwner = w.ownerOf(q.Get("service"), repo)
		w.acts = append(w.acts, actRec{K: "tok", Owner: curOwner, Host: q.Get("service"), Realm: name})
	} else {
		w.acts = append(w.acts, actRec{K: "req", Owner: curOwner, Host: name})
	}
	// record what this request carries
	for _, sec := range w.scan(req, body) {
		s := w.secrets[sec]
		if s.kind == "cred" {
			w.events = append(w.events, event{K: "cred", Owner: s.owner, Dest: name, Scheme: req.URL.Scheme})
		} else {
			w.events = append(w.events, event{K: "tok", Owner: s.owner, Issuer: s.issuer, Dest: name, Authed: s.authed, Scheme: req.URL.Scheme})
		}
	}
	chal := func() *http.Response {
		c, kind, realm := w.challenge(h, repoOf(req.URL.Path))
		if h.spec.Chal == "both" {
			w.acts = append(w.acts, actRec{K: "chal", Owner: curOwner, Host: name, Kind: "basic"}, actRec{K: "chal", Owner: curOwner, Host: name, Kind: "bearer", Realm: h.spec.Realm})
			w.events = append(w.events, event{K: "chal", From: name, Kind: "basic"}, event{K: "chal", From: name, Kind: "bearer", Realm: h.spec.Realm})
			return deny(`Basic realm="store"`, fmt.Sprintf(`Bearer realm="https://%s/token",service="%s"`, h.spec.Realm, name))
		}
		if kind != "" {
			w.acts = append(w.acts, actRec{K: "chal", Owner: curOwner, Host: name, Kind: kind, Realm: realm})
			w.events = append(w.events, event{K: "chal", From: name, Kind: kind, Realm: realm})
		}
		return deny(c)
	}
	for _, d := range h.spec.Reset {
		if d == pos {
			return nil
		}
	}
	for _, d := range h.spec.Deny {
		if d == pos {
			return chal()
		}
	}
	// token service
	if req.URL.Path == "/token" {
		return w.token(h, req, body)
	}
	// authentication of registries
	authz := req.Header.Get("Authorization")
	switch h.spec.Auth {
	case "basic":
		if authz != "Basic "+b64(h.user, h.pass) {
			return chal()
		}
	case "bearer":
		tok := strings.TrimPrefix(authz, "Bearer ")
		if !strings.HasPrefix(authz, "Bearer ") || w.hosts[h.spec.Realm] == nil || w.hosts[h.spec.Realm].tokens[tok] != name {
			return chal()
		}
	}
	// plain stores
	if h.reg == nil {
		if strings.HasPrefix(req.URL.Path, "/hop/") {
			k := 0
			fmt.Sscanf(req.URL.Path, "/hop/%d/", &k)
			rest := req.URL.Path[strings.Index(req.URL.Path[5:], "/")+5:]
			loc := fmt.Sprintf("https://%s%s", name, rest)
			if k > 1 {
				loc = fmt.Sprintf("https://%s/hop/%d%s", name, k-1, rest)
			}
			return memrt.Resp(307, map[string]string{"Location": loc}, nil)
		}
		if strings.HasPrefix(req.URL.Path, "/up/") { // upload host standing in front of a registry
			tgt := w.hosts[strings.SplitN(strings.TrimPrefix(req.URL.Path, "/up/"), "/", 2)[0]]
			r2 := req.Clone(req.Context())
			r2.URL.Path = "/" + strings.SplitN(strings.TrimPrefix(req.URL.Path, "/up/"), "/", 2)[1]
			r2.URL.Host = tgt.spec.Name
			w.mu.Unlock()
			resp := tgt.reg.Handle(r2, body, n)
			w.mu.Lock()
			return resp
		}
		d := req.URL.Path[strings.LastIndex(req.URL.Path, "/")+1:]
		if b, ok := h.blobs[d]; ok {
			return memrt.Resp(200, map[string]string{"Content-Type": "application/octet-stream", "Content-Length": fmt.Sprint(len(b))}, b)
		}
		return memrt.Resp(404, nil, nil)
	}
	// registry behaviours layered over memreg
	if w.c.Redirect != "" && name == "r.example" && req.Method == "GET" && strings.Contains(req.URL.Path, "/blobs/sha256:") {
		d := req.URL.Path[strings.LastIndex(req.URL.Path, "/")+1:]
		sch := "https"
		if w.c.RedirTo == "http" {
			sch = "http"
		}
		loc := fmt.Sprintf("%s://%s/store/%s", sch, w.c.Redirect, d)
		if w.c.Hops > 0 && w.c.Redirect != name {
			loc = fmt.Sprintf("https://%s/hop/%d/store/%s", w.c.Redirect, w.c.Hops, d)
		}
		if w.c.Redirect == name { // same host, other scheme: serve it from the registry on the second request
			if req.URL.Query().Get("redirected") == "" {
				return memrt.Resp(307, map[string]string{"Location": fmt.Sprintf("%s://%s%s?redirected=1", sch, w.spell(name), req.URL.Path)}, nil)
			}
		} else {
			return memrt.Resp(307, map[string]string{"Location": loc}, nil)
		}
	}
	w.mu.Unlock()
	resp := h.reg.Handle(req, body, n)
	w.mu.Lock()
	if w.c.UpLoc != "" && name == "s.example" && req.Method == "POST" && strings.HasSuffix(req.URL.Path, "/blobs/uploads/") && resp.StatusCode == 202 {
		loc := resp.Header.Get("Location")
		switch w.c.UpLoc {
		case "other-host":
			resp.Header.Set("Location", "https://u.example/up/s.example"+loc)
		case "http-same-host":
			resp.Header.Set("Location", "http://"+w.spell("s.example")+loc)
		}
	}
	return resp
}

func (w *world) token(h *hostState, req *http.Request, body []byte) *http.Response {
	var service, grant, refresh, user, pass string
	if req.Method == "GET" {
		service = req.URL.Query().Get("service")
		if u, p, ok := req.BasicAuth(); ok {
			user, pass = u, p
		}
	} else {
		f, _ := url.ParseQuery(string(body))
		service, grant, refresh, user, pass = f.Get("service"), f.Get("grant_type"), f.Get("refresh_token"), f.Get("username"), f.Get("password")
	}
	svc := w.hosts[service]
	authed := false
	if svc != nil && svc.spec.Realm == h.spec.Name {
		switch {
		case grant == "refresh_token":
			authed = (svc.idtok != "" && refresh == svc.idtok) || h.refr[refresh] == service
		default:
			authed = user == svc.user && pass == svc.pass && user != ""
		}
	}
	if svc != nil && svc.spec.Auth == "bearer" && !authed {
		return deny(`Basic realm="token"`)
	}
	w.tokSeq++
	tok := fmt.Sprintf("tk-%s-%d-%s", strings.ReplaceAll(service, ".", "-"), w.tokSeq, w.uniq)
	rtok := fmt.Sprintf("rt-%s-%d-%s", strings.ReplaceAll(service, ".", "-"), w.tokSeq, w.uniq)
	h.tokens[tok] = service
	if authed {
		h.refr[rtok] = service
		w.secrets[tok] = secret{owner: service, kind: "token", issuer: h.spec.Name, authed: true}
		w.secrets[rtok] = secret{owner: service, kind: "cred", issuer: h.spec.Name}
	}
	out := map[string]any{"token": tok, "expires_in": 300, "issued_at": time.Now().UTC().Format(time.RFC3339)}
	if authed && w.tokSeq%2 == 0 {
		out["refresh_token"] = rtok
	}
	b, _ := json.Marshal(out)
	return memrt.Resp(200, map[string]string{"Content-Type": "application/json"}, b)
}

func build(c Case) (*world, *imgen.Graph) {
	w := &world{c: c, curRepo: map[string]string{}, hosts: map[string]*hostState{}, secrets: map[string]secret{}, logBuf: &syncBuf{}, uniq: fmt.Sprintf("%x", c.Seed&0xffffff)}
	var chs []config.Host
	for _, hs := range c.Hosts {
		st := &hostState{spec: hs, tokens: map[string]string{}, refr: map[string]string{}, blobs: map[string][]byte{}}
		tag := strings.ReplaceAll(hs.Name, ".", "-")
		if hs.Auth != "none" {
			st.user = "user-" + tag
			st.pass = "pw-" + tag + "-" + w.uniq
			w.secrets[st.pass] = secret{owner: hs.Name, kind: "cred"}
			w.secrets[b64(st.user, st.pass)] = secret{owner: hs.Name, kind: "cred"}
			if hs.IDToken {
				st.idtok = "idt-" + tag + "-" + w.uniq
				w.secrets[st.idtok] = secret{owner: hs.Name, kind: "cred"}
			}
		}
		if strings.HasSuffix(hs.Name, ".example") && (hs.Name == "r.example" || hs.Name == "m.example" || hs.Name == "s.example") {
			st.reg = memreg.New(hs.Name, memreg.Features{Delete: true, TagDelete: true})
			ch := config.Host{Name: hs.Name, Hostname: hs.Name, TLS: config.TLSEnabled, RepoAuth: hs.RepoAuth}
			if !hs.TLS {
				ch.TLS = config.TLSDisabled
			} else if hs.Insecure {
				ch.TLS = config.TLSInsecure
			}
			if hs.Auth != "none" {
				if hs.IDToken {
					ch.Token = st.idtok
				} else {
					ch.User, ch.Pass = st.user, st.pass
				}
			}
			if hs.Mirror != "" {
				ch.Mirrors = []string{hs.Mirror}
			}
			chs = append(chs, ch)
		}
		w.hosts[hs.Name] = st
	}
	w.rt = &memrt.RT{Handler: w.handle}
	lh := slog.NewTextHandler(w.logBuf, &slog.HandlerOptions{Level: slog.Level(-8)})
	// 30% of the clients are configured twice (a stale login first, as a config file followed by docker credentials
	// does): the stale secrets are secrets too, and the merge must not print either of them
	var stale []config.Host
	if c.Seed%10 < 3 {
		for _, ch := range chs {
			o := ch
			switch {
			case o.Token != "":
				o.Token = "stale-" + o.Token
				w.secrets[o.Token] = secret{owner: o.Name, kind: "cred"}
			case o.Pass != "":
				o.Pass = "stale-" + o.Pass
				w.secrets[o.Pass] = secret{owner: o.Name, kind: "cred"}
			default:
				continue
			}
			stale = append(stale, o)
		}
	}
	w.rc = regclient.New(regclient.WithSlog(slog.New(lh)), regclient.WithConfigHosts(stale), regclient.WithConfigHosts(chs),
		regclient.WithRegOpts(reg.WithHTTPClient(&http.Client{Transport: w.rt}), reg.WithDelay(time.Millisecond, 3*time.Millisecond), reg.WithRetryLimit(4)))
	// content
	g := &imgen.Graph{}
	l1 := g.Blob([]byte("c11-layer-1-"+w.uniq), imgen.MTLayer)
	l2 := g.Blob([]byte("c11-layer-2-"+w.uniq), imgen.MTLayer)
	cfg := g.Blob([]byte(`{"architecture":"amd64","os":"linux","rootfs":{"type":"layers","diff_ids":[]}}`), imgen.MTConfig)
	foreign := map[int]bool{}
	if c.Kind == "external" {
		foreign[1] = true
	}
	g.Root = g.Image(c.Kind == "external", cfg, []*imgen.Node{l1, l2}, foreign, nil, w.uniq)
	for _, n := range []string{"r.example", "m.example"} {
		if h := w.hosts[n]; h != nil && h.reg != nil {
			for _, nd := range g.Nodes {
				if nd.Kind == "blob" {
					if !(c.Kind == "external" && nd == l2) {
						h.reg.PutBlob("proj/app", nd.Body)
						h.reg.PutBlob("other/lib", nd.Body)
					}
				} else {
					h.reg.PutManifest("proj/app", "v1", nd.MT, nd.Body)
					h.reg.PutManifest("other/lib", "v1", nd.MT, nd.Body)
				}
			}
		}
	}
	for _, n := range []string{"t.example", "x.example", "external.example"} {
		if h := w.hosts[n]; h != nil {
			for _, nd := range g.Nodes {
				h.blobs[nd.Digest] = nd.Body
			}
		}
	}
	return w, g
}

func (w *world) doOp(ctx context.Context, op string, g *imgen.Graph) {
	rR, _ := ref.New("r.example/proj/app:v1")
	w.mu.Lock()
	w.curRepo["r.example"], w.curRepo["s.example"] = "proj/app", "mirror/app"
	if op == "manifest2" {
		w.curRepo["r.example"] = "other/lib"
	}
	if op == "put" {
		w.curRepo["s.example"] = "mirror/up"
	}
	w.mu.Unlock()
	switch op {
	case "manifest":
		_, _ = w.rc.ManifestGet(ctx, rR)
	case "head":
		_, _ = w.rc.ManifestHead(ctx, rR)
	case "manifest2":
		r2, _ := ref.New("r.example/other/lib:v1")
		_, _ = w.rc.ManifestGet(ctx, r2)
	case "tags":
		_, _ = w.rc.TagList(ctx, rR)
	case "referrers":
		_, _ = w.rc.ReferrerList(ctx, rR)
	case "blob":
		for _, n := range g.Nodes {
			if n.Kind == "blob" {
				rd, err := w.rc.BlobGet(ctx, rR, descriptor.Descriptor{Digest: digest.Digest(n.Digest), Size: int64(len(n.Body))})
				if err == nil {
					_, _ = io.ReadAll(rd)
					_ = rd.Close()
				}
			}
		}
	case "copy":
		rS, _ := ref.New("s.example/mirror/app:v1")
		_ = w.rc.ImageCopy(ctx, rR, rS)
	case "copy-external":
		rS, _ := ref.New("s.example/mirror/app:v1")
		_ = w.rc.ImageCopy(ctx, rR, rS, regclient.ImageWithIncludeExternal())
	case "put":
		rS, _ := ref.New("s.example/mirror/up")
		_, _ = w.rc.BlobPut(ctx, rS, descriptor.Descriptor{}, strings.NewReader("c11-upload-"+w.uniq))
	case "ping":
		_, _ = w.rc.Ping(ctx, rR)
	case "mput": // state-changing requests on the upstream: push under another tag, delete that tag, delete a blob
		if m, err := w.rc.ManifestGet(ctx, rR); err == nil {
			r2, _ := ref.New("r.example/proj/app:c11-copy")
			_ = w.rc.ManifestPut(ctx, r2, m)
			_ = w.rc.TagDelete(ctx, r2)
		}
	case "mdelete":
		if m, err := w.rc.ManifestHead(ctx, rR); err == nil {
			_ = w.rc.ManifestDelete(ctx, rR.SetDigest(m.GetDescriptor().Digest.String()))
		}
	case "repolist":
		_, _ = w.rc.RepoList(ctx, "r.example")
	}
}

func runCase(c Case, res *lib.Result) (ret string) {
	defer res.Recover(c)
	return runCaseRaw(c, res)
}

func runCaseRaw(c Case, res *lib.Result) string {
	w, g := build(c)
	ctx, cancel := context.WithTimeout(context.Background(), 30*time.Second)
	defer cancel()
	for _, op := range c.Ops {
		w.doOp(ctx, op, g)
		res.Count("op:" + op)
	}
	w.mu.Lock()
	evs := append([]event(nil), w.events...)
	w.mu.Unlock()
	// ---- the independent oracle ----
	named := map[string]bool{} // "from|realm"
	failed := false
	nsent := 0
	for _, e := range evs {
		switch e.K {
		case "chal":
			if e.Kind == "bearer" {
				named[e.From+"|"+e.Realm] = true
			}
		case "cred":
			nsent++
			ok := e.Dest == e.Owner || named[e.Owner+"|"+e.Dest]
			if !ok && !failed {
				res.Fail(fmt.Sprintf("credential-leak kind=%s dest-role=%s", c.Kind, role(c, e.Dest)), fmt.Sprintf("credentials of %s were sent to %s, which is neither that registry nor a token endpoint it named", e.Owner, e.Dest), c)
				failed = true
			}
			if ok && e.Scheme != "https" && w.hosts[e.Dest] != nil && w.hosts[e.Dest].spec.TLS && !failed {
				res.Fail(fmt.Sprintf("cleartext-credentials kind=%s uploc=%s redir=%s", c.Kind, c.UpLoc, c.RedirTo), fmt.Sprintf("credentials of %s were sent over %s to %s, which is configured for TLS", e.Owner, e.Scheme, e.Dest), c)
				failed = true
			}
		case "tok":
			nsent++
			if !e.Authed {
				continue
			}
			ok := e.Dest == e.Owner && named[e.Owner+"|"+e.Issuer]
			if !ok && !failed {
				res.Fail(fmt.Sprintf("token-leak kind=%s dest-role=%s", c.Kind, role(c, e.Dest)), fmt.Sprintf("a bearer token issued by %s for %s was sent to %s", e.Issuer, e.Owner, e.Dest), c)
				failed = true
			}
			if ok && e.Scheme != "https" && w.hosts[e.Dest].spec.TLS && !failed {
				res.Fail(fmt.Sprintf("cleartext-token kind=%s uploc=%s redir=%s", c.Kind, c.UpLoc, c.RedirTo), fmt.Sprintf("a bearer token of %s was sent over %s to %s, which is configured for TLS", e.Owner, e.Scheme, e.Dest), c)
				failed = true
			}
		}
	}
	res.Count(fmt.Sprintf("case:%s:sent=%d", c.Kind, min(nsent, 3)))
	// ---- logs ----
	logs := w.logBuf.String()
	w.mu.Lock()
	for sec, s := range w.secrets {
		if strings.Contains(logs, sec) && !failed {
			i := strings.Index(logs, sec)
			lo := strings.LastIndex(logs[:i], "\n") + 1
			hi := i + strings.Index(logs[i:]+"\n", "\n")
			line := strings.ReplaceAll(logs[lo:hi], sec, "<SECRET>")
			if len(line) > 300 {
				line = line[:300]
			}
			res.Fail("secret-in-log secret-kind="+s.kind, fmt.Sprintf("a %s of %s appears in the log: %s", s.kind, s.owner, line), c)
			failed = true
		}
	}
	w.mu.Unlock()
	// ---- Coq case: the acts and the observed credential pairs ----
	ids := map[string]int{}
	id := func(h string) int {
		if v, ok := ids[h]; ok {
			return v
		}
		ids[h] = len(ids) + 1
		return ids[h]
	}
	owner := func(o string) string {
		regName := strings.SplitN(o, "#", 2)[0]
		hs := w.hosts[regName]
		if hs == nil {
			return fmt.Sprintf("(mkO %d %d false false)", id("owner:"+o), id(regName))
		}
		return fmt.Sprintf("(mkO %d %d %s %s)", id("owner:"+o), id(regName), lib.CoqBool(hs.spec.Auth != "none" && !hs.spec.IDToken), lib.CoqBool(hs.spec.Auth != "none" && hs.spec.IDToken))
	}
	w.mu.Lock()
	acts := append([]actRec(nil), w.acts...)
	w.mu.Unlock()
	var al, ol []string
	for _, a := range acts {
		if a.Owner == "" {
			continue
		}
		switch a.K {
		case "chal":
			k := "KBasic"
			if a.Kind == "bearer" {
				k = fmt.Sprintf("(KBearer %d)", id(a.Realm))
			}
			al = append(al, fmt.Sprintf("AChallenge %s %d %s", owner(a.Owner), id(a.Host), k))
		case "req":
			al = append(al, fmt.Sprintf("ARequest %s %d", owner(a.Owner), id(a.Host)))
		case "tok":
			al = append(al, fmt.Sprintf("AToken %s %d", owner(a.Owner), id(a.Host)))
		}
	}
	seenP := map[string]bool{}
	for _, e := range evs {
		if e.K == "cred" {
			p := fmt.Sprintf("(%d, %d)", id(e.Owner), id(e.Dest))
			if !seenP[p] {
				seenP[p] = true
				ol = append(ol, p)
			}
		}
	}
	// image copy issues requests from several goroutines: a request that was in flight when a challenge arrived is
	// logged after it without credentials, so the model (one request at a time) may predict a transmission that did not
	// happen; for such cases only "every observed transmission is predicted" is required
	seq := true
	for _, op := range c.Ops {
		if strings.HasPrefix(op, "copy") {
			seq = false
		}
	}
	return fmt.Sprintf("mkCase %s %s %s", lib.CoqList(al), lib.CoqList(ol), lib.CoqBool(seq))
}

func role(c Case, h string) string {
	switch h {
	case "r.example":
		return "upstream"
	case "m.example":
		return "mirror"
	case "s.example":
		return "second-registry"
	case "t.example":
		return "redirect-target"
	case "x.example", "external.example":
		return "external-url"
	case "u.example":
		return "upload-host"
	}
	if strings.HasPrefix(h, "auth") || strings.HasPrefix(h, "evil") {
		return "token-endpoint"
	}
	return "other"
}

func genCase(r *lib.Rand) Case {
	c := Case{Seed: r.U64()}
	auth := func(name, realm string) HostSpec {
		h := HostSpec{Name: name, TLS: r.Chance(75), Auth: lib.Pick(r, []string{"basic", "bearer", "bearer", "none"}), RepoAuth: r.Chance(25)}
		h.Insecure = h.TLS && r.Chance(35)
		if h.Auth == "bearer" {
			h.Realm = realm
			h.IDToken = r.Chance(35)
		}
		if r.Chance(30) {
			for i := 0; i < 1+r.Intn(2); i++ {
				h.Deny = append(h.Deny, r.Intn(8))
			}
		}
		if r.Chance(25) {
			h.Reset = append(h.Reset, 1+r.Intn(6))
		}
		return h
	}
	third := func(name string) HostSpec {
		h := HostSpec{Name: name, TLS: true, Auth: "none", Chal: lib.Pick(r, []string{"basic", "bearer", "both", "malformed", "basic"}), Realm: "evil.example"}
		if r.Chance(70) {
			for i := 0; i < 1+r.Intn(3); i++ {
				h.Deny = append(h.Deny, r.Intn(4))
			}
		}
		return h
	}
	R := auth("r.example", "auth-r.example")
	if R.Auth == "none" {
		R.Auth = "basic"
	}
	S := auth("s.example", "auth-s.example")
	c.Hosts = []HostSpec{R, {Name: "auth-r.example", TLS: true, Auth: "none"}, {Name: "auth-s.example", TLS: true, Auth: "none"}, {Name: "evil.example", TLS: true, Auth: "none"}}
	switch k := r.Intn(100); {
	case k < 22:
		c.Kind = "mirror"
		M := auth("m.example", "auth-r.example")
		M.Realm = "auth-m.example"
		c.Hosts[0].Mirror = "m.example"
		c.Hosts = append(c.Hosts, M, HostSpec{Name: "auth-m.example", TLS: true, Auth: "none"})
		c.Ops = []string{"manifest", "blob", "tags", "head", "manifest2", "repolist", "mput"}
	case k < 40:
		c.Kind = "copy"
		c.Hosts = append(c.Hosts, S)
		c.Ops = []string{"copy", "manifest", "put"}
	case k < 65:
		c.Kind = "redirect"
		c.Redirect = "t.example"
		c.Hops = r.Intn(3)
		c.Hosts = append(c.Hosts, third("t.example"))
		c.Ops = []string{"manifest", "blob", "blob", "tags"}
		if r.Chance(25) { // the registry redirects to itself over the other scheme
			c.Redirect, c.Hops = "r.example", 0
			c.RedirTo = lib.Pick(r, []string{"http", "https"})
			c.Hosts[0].TLS = true
			c.Spell = r.Chance(40)
		}
	case k < 80:
		c.Kind = "external"
		c.Hosts = append(c.Hosts, S, third("external.example"))
		c.Ops = []string{"copy-external", "manifest"}
	case k < 92:
		c.Kind = "upload"
		S.TLS = true
		c.Hosts = append(c.Hosts, S, third("u.example"))
		c.UpLoc = lib.Pick(r, []string{"other-host", "http-same-host", ""})
		c.Spell = c.UpLoc == "http-same-host" && r.Chance(40)
		c.Ops = []string{"put", "copy"}
	default:
		c.Kind = "mixed"
		M := auth("m.example", "auth-m.example")
		c.Hosts[0].Mirror = "m.example"
		c.Redirect = "t.example"
		c.Hosts = append(c.Hosts, M, HostSpec{Name: "auth-m.example", TLS: true, Auth: "none"}, S, third("t.example"))
		c.Ops = []string{"manifest", "blob", "copy", "tags", "referrers", "ping", "put", "repolist", "mput", "mdelete"}
	}
	return c
}

func Run(o lib.Opts) {
	res := lib.NewResult("C11", o.Tier, o.Seed)
	res.Rule = "one splitmix64 stream: topologies of 5-9 model hosts with distinct secrets: upstream registry (basic / bearer with get flow / bearer with identity-token post flow, refresh tokens every second issue, per-repository auth 25%, TLS 75%), its token service, 22% a mirror with its own credentials and token service, 18% a second registry (cross-registry copy, uploads), 25% a blob store that the upstream's blob GETs redirect to (0-2 extra hops; 25% of them the upstream redirecting to itself over http/https), 15% an external layer URL host, 12% an upload Location on another host or over http on the same host; third hosts answer 401 at 0-3 of their first 4 request positions with a Basic / Bearer (realm = an attacker's endpoint) / both / malformed challenge; registries answer 401 at random positions too; operations: manifest get/head (two repositories), tag list, repository list, referrers, ping, blob get, blob put, manifest put, tag delete, manifest delete, image copy (with external layers); non-trivial = any secret transmitted; distinct by case"
	if o.Replay != "" {
		var f struct{ Case Case }
		b, err := os.ReadFile(o.Replay)
		if err == nil {
			err = json.Unmarshal(b, &f)
		}
		if err != nil {
			fmt.Println("replay:", err)
			os.Exit(2)
		}
		runCase(f.Case, res)
		for _, fl := range res.Failures {
			fmt.Printf("REPLAY-FAIL %s: %s\n", fl.Sig, fl.Desc)
		}
		if len(res.Failures) == 0 {
			fmt.Println("REPLAY-OK")
		}
		return
	}
	r := lib.NewRand(o.Seed)
	cw := lib.NewCaseWriter(o.Out, "C11", "From Coq Require Import List Arith.\nFrom Verif Require Import Model.C11_Creds Corr.C11.\nImport ListNotations.", "case", 300)
	all := []Case{
		{Kind: "redirect", Seed: 41, Redirect: "t.example", Ops: []string{"manifest", "blob", "blob"}, Hosts: []HostSpec{{Name: "r.example", TLS: true, Auth: "basic"},
			{Name: "t.example", TLS: true, Auth: "none", Chal: "basic", Deny: []int{0, 1, 2, 3}}}},
		{Kind: "redirect", Seed: 42, Redirect: "t.example", Ops: []string{"manifest", "blob", "blob"}, Hosts: []HostSpec{{Name: "r.example", TLS: true, Auth: "bearer", Realm: "auth-r.example"}, {Name: "auth-r.example", TLS: true, Auth: "none"},
			{Name: "evil.example", TLS: true, Auth: "none"}, {Name: "t.example", TLS: true, Auth: "none", Chal: "bearer", Realm: "evil.example", Deny: []int{0, 1}}}},
		{Kind: "upload", Seed: 43, UpLoc: "http-same-host", Ops: []string{"put"}, Hosts: []HostSpec{{Name: "r.example", TLS: true, Auth: "basic"}, {Name: "s.example", TLS: true, Auth: "basic"}}},
		{Kind: "upload", Seed: 44, UpLoc: "other-host", Ops: []string{"put"}, Hosts: []HostSpec{{Name: "r.example", TLS: true, Auth: "basic"}, {Name: "s.example", TLS: true, Auth: "basic"},
			{Name: "u.example", TLS: true, Auth: "none", Chal: "basic", Deny: []int{0}}}},
		{Kind: "upload", Seed: 47, UpLoc: "http-same-host", Spell: true, Ops: []string{"put", "put"}, Hosts: []HostSpec{{Name: "r.example", TLS: true, Auth: "basic"}, {Name: "s.example", TLS: true, Auth: "basic"}}},
		{Kind: "redirect", Seed: 48, Redirect: "r.example", RedirTo: "http", Spell: true, Ops: []string{"manifest", "blob", "blob"}, Hosts: []HostSpec{{Name: "r.example", TLS: true, Auth: "bearer", Realm: "auth-r.example"}, {Name: "auth-r.example", TLS: true, Auth: "none"}}},
		{Kind: "copy", Seed: 46, Ops: []string{"manifest", "manifest", "tags"}, Hosts: []HostSpec{{Name: "r.example", TLS: true, Auth: "basic", Reset: []int{2, 4}}}},
		{Kind: "mirror", Seed: 45, Ops: []string{"manifest", "blob", "tags"}, Hosts: []HostSpec{{Name: "r.example", TLS: true, Auth: "basic", Mirror: "m.example"}, {Name: "m.example", TLS: true, Auth: "basic", Deny: []int{1}}}},
	}
	n := o.Scale(300, 6000)
	for i := 0; i < n; i++ {
		all = append(all, genCase(r))
	}
	seen := lib.Set{}
	for _, c := range all {
		res.Evaluations++
		kb, _ := json.Marshal(c)
		before := 0
		for k, v := range res.Histogram {
			if strings.HasSuffix(k, "sent=0") {
				before += v
			}
		}
		term := runCase(c, res)
		after := 0
		for k, v := range res.Histogram {
			if strings.HasSuffix(k, "sent=0") {
				after += v
			}
		}
		if _, dup := seen[string(kb)]; !dup && after == before {
			res.Distinct++
		}
		seen.Add(string(kb))
		if o.Mode != "search" {
			cw.Add(term, c)
		}
		res.Sample(c, 3)
	}
	cw.Close(res)
	lib.WriteResult(o.Out, res)
}
