// Package c10: referrers.  Histories of artifact pushes, referrer-aware deletions and (filtered) listings over a
// small pool of subjects, through the real client against: a model registry with the referrers API (also paged),
// one without it (client-managed fallback tag, with and without the tag-delete API), and an OCI layout; response
// cache on and off.  Every result is compared with the Coq model and with a reference multimap; the raw fallback
// tag is read back; concurrent and gated updates of one subject must not lose an entry.
package c10

import (
	"context"
	"encoding/json"
	"fmt"
	"net/http"
	"os"
	"path/filepath"
	"sort"
	"strings"
	"sync"
	"time"

	"github.com/regclient/regclient"
	"github.com/regclient/regclient/config"
	"github.com/regclient/regclient/scheme"
	"github.com/regclient/regclient/scheme/reg"
	"github.com/regclient/regclient/types/descriptor"
	"github.com/regclient/regclient/types/manifest"
	"github.com/regclient/regclient/types/ref"

	"verifharness/imgen"
	"verifharness/lib"
	"verifharness/memreg"
	"verifharness/memrt"
)

type Op struct {
	K string // put | del | list
	A int    `json:",omitempty"` // artifact number
	S int    `json:",omitempty"` // subject number (list)
	F int    `json:",omitempty"` // filter: 0 none, 1 type T1, 2 type T2, 3 annotation k present, 4 annotation k=v1
}
type Case struct {
	Kind    string // seq | conc | gate
	Seed    uint64
	Backend string // api | api-page1 | api-page2 | tag | tag-nodel | dir
	Cache   bool
	Ops     []Op     `json:",omitempty"`
	Pre     []int    `json:",omitempty"` // conc: artifacts present at the start
	Par     []Op     `json:",omitempty"` // conc: the concurrent updates
	Gate    string   `json:",omitempty"` // delput | putput
	Notes   []string `json:",omitempty"`
}

const nArt = 8
const repo = "proj/app"

type artifact struct {
	body    []byte
	digest  string
	subject int // index into subjects
	atype   string
	ann     map[string]string
}
type world struct {
	mr       *memreg.Registry
	rt       *memrt.RT
	rc       *regclient.RegClient
	base     string
	dir      string
	subjects []string // digests; the last one names nothing; index nSubj.. = artifacts used as subjects
	subjBody map[string][]byte
	arts     []artifact
	hook     func(req *http.Request)
	lists    int // listings issued so far: every third one names the subject as repo:tag@digest
}

const T1 = "application/vnd.example.sbom"
const T2 = "application/vnd.example.sig"

func build(c Case, tmp string) *world {
	w := &world{subjBody: map[string][]byte{}}
	feat := memreg.Features{Delete: true, TagDelete: c.Backend != "tag-nodel"}
	switch c.Backend {
	case "api":
		feat.ReferrersAPI = true
	case "api-page1":
		feat.ReferrersAPI, feat.ReferrersPage = true, 1
	case "api-page2":
		feat.ReferrersAPI, feat.ReferrersPage = true, 2
	}
	w.mr = memreg.New("reg.example", feat)
	w.rt = &memrt.RT{Handler: func(req *http.Request, body []byte, n int) *http.Response {
		if w.hook != nil {
			w.hook(req)
		}
		return w.mr.Handle(req, body, n)
	}}
	ro := []reg.Opts{reg.WithHTTPClient(&http.Client{Transport: w.rt}), reg.WithDelay(time.Millisecond, 3*time.Millisecond)}
	if c.Cache {
		ro = append(ro, reg.WithCache(5*time.Minute, 500))
	}
	w.rc = regclient.New(regclient.WithConfigHost(config.Host{Name: "reg.example", Hostname: "reg.example", TLS: config.TLSDisabled}), regclient.WithRegOpts(ro...))
	w.base = "reg.example/" + repo
	if c.Backend == "dir" {
		w.dir = filepath.Join(tmp, "layout")
		w.base = "ocidir://" + w.dir
	}
	uniq := fmt.Sprintf("c10-%x", c.Seed&0xffff)
	// subjects: two images that exist, one digest that names nothing
	g := &imgen.Graph{}
	for i := 0; i < 2; i++ {
		l := g.Blob([]byte(fmt.Sprintf("%s-layer-%d", uniq, i)), imgen.MTLayer)
		cfg := g.Blob([]byte(fmt.Sprintf(`{"architecture":"amd64","os":"linux","config":{"Labels":{"s":"%d"}},"rootfs":{"type":"layers","diff_ids":[]}}`, i)), imgen.MTConfig)
		im := g.Image(false, cfg, []*imgen.Node{l}, nil, nil, uniq)
		w.subjects = append(w.subjects, im.Digest)
		w.subjBody[im.Digest] = im.Body
	}
	w.subjects = append(w.subjects, memreg.Digest("sha256", []byte(uniq+"-no-such-manifest")))
	ctx := context.Background()
	if w.dir == "" {
		g.Load(w.mr, repo, "")
		for i, n := range g.Nodes {
			if n.Kind == "image" {
				w.mr.PutManifest(repo, fmt.Sprintf("s%d", i), n.MT, n.Body)
			}
		}
	} else {
		src := memreg.New("src.example", memreg.Features{})
		for i, n := range g.Nodes {
			if n.Kind == "blob" {
				src.PutBlob(repo, n.Body)
			} else {
				src.PutManifest(repo, fmt.Sprintf("s%d", i), n.MT, n.Body)
			}
		}
		rt2 := &memrt.RT{Handler: src.Handle}
		rc2 := regclient.New(regclient.WithConfigHost(config.Host{Name: "src.example", Hostname: "src.example", TLS: config.TLSDisabled}),
			regclient.WithRegOpts(reg.WithHTTPClient(&http.Client{Transport: rt2})))
		for i, n := range g.Nodes {
			if n.Kind == "image" {
				sr, _ := ref.New(fmt.Sprintf("src.example/%s:s%d", repo, i))
				tr, _ := ref.New(fmt.Sprintf("%s:s%d", w.base, i))
				if err := rc2.ImageCopy(ctx, sr, tr); err != nil {
					panic(err)
				}
			}
		}
	}
	// artifacts; number 0 is itself used as a subject by number 7 (referrer of a referrer)
	mk := func(k, subj int, subjDigest string, subjSize int) artifact {
		a := artifact{subject: subj}
		m := map[string]any{"schemaVersion": 2, "mediaType": imgen.MTImage,
			"config": map[string]any{"mediaType": "application/vnd.oci.empty.v1+json", "digest": "sha256:44136fa355b3678a1146ad16f7e8649e94fb4fc21fe77e8310c060f61caaff8a", "size": 2},
			"layers":  []any{map[string]any{"mediaType": "application/vnd.example.payload", "digest": memreg.Digest("sha256", []byte(fmt.Sprintf("%s-payload-%d", uniq, k))), "size": len(fmt.Sprintf("%s-payload-%d", uniq, k))}},
			"subject": map[string]any{"mediaType": imgen.MTImage, "digest": subjDigest, "size": subjSize}}
		switch k % 3 {
		case 0:
			a.atype = T1
			m["artifactType"] = T1
		case 1:
			a.atype = T2
			m["artifactType"] = T2
		default:
			a.atype = "application/vnd.oci.empty.v1+json" // no artifactType: the config media type is reported
		}
		switch k % 4 {
		case 0:
			a.ann = map[string]string{"k": "v1", "n": fmt.Sprint(k)}
		case 1:
			a.ann = map[string]string{"k": "v2"}
		case 2:
			a.ann = map[string]string{"other": "x"}
		}
		if a.ann != nil {
			m["annotations"] = a.ann
		}
		a.body, _ = json.Marshal(m)
		a.digest = memreg.Digest("sha256", a.body)
		return a
	}
	for k := 0; k < nArt-1; k++ {
		s := []int{0, 0, 0, 1, 1, 2, 0}[k]
		w.arts = append(w.arts, mk(k, s, w.subjects[s], len(w.subjBody[w.subjects[s]])))
	}
	w.subjects = append(w.subjects, w.arts[0].digest) // subject number 3 = artifact 0
	w.arts = append(w.arts, mk(nArt-1, 3, w.arts[0].digest, len(w.arts[0].body)))
	return w
}

func (w *world) put(ctx context.Context, k int) error {
	a := w.arts[k]
	m, err := manifest.New(manifest.WithRaw(a.body))
	if err != nil {
		return err
	}
	r, _ := ref.New(w.base + "@" + a.digest)
	return w.rc.ManifestPut(ctx, r, m)
}
func (w *world) del(ctx context.Context, k int) error {
	r, _ := ref.New(w.base + "@" + w.arts[k].digest)
	return w.rc.ManifestDelete(ctx, r, regclient.WithManifestCheckReferrers())
}

var filters = []descriptor.MatchOpt{{}, {ArtifactType: T1}, {ArtifactType: T2}, {Annotations: map[string]string{"k": ""}}, {Annotations: map[string]string{"k": "v1"}}}

func (w *world) list(ctx context.Context, s, f int) ([]descriptor.Descriptor, error) {
	// callers name a subject by digest, some of them with the tag they resolved it from (repo:tag@digest)
	w.lists++
	name := w.base + "@" + w.subjects[s]
	if w.lists%3 == 0 {
		name = w.base + ":v1@" + w.subjects[s]
	}
	r, err := ref.New(name)
	if err != nil {
		return nil, err
	}
	rl, err := w.rc.ReferrerList(ctx, r, scheme.WithReferrerMatchOpt(filters[f]))
	return rl.Descriptors, err
}

func match(a artifact, f int) bool {
	switch f {
	case 1:
		return a.atype == T1
	case 2:
		return a.atype == T2
	case 3:
		_, ok := a.ann["k"]
		return ok
	case 4:
		return a.ann["k"] == "v1"
	}
	return true
}

// rawTag reads the fallback index straight from storage
func (w *world) rawTag(s int) ([]string, bool) {
	tag := strings.Replace(w.subjects[s], ":", "-", 1)
	var body []byte
	if w.dir == "" {
		d, ok := w.mr.TagsOf(repo)[tag]
		if !ok {
			return nil, false
		}
		w.mr.Lock()
		body = w.mr.Repos[repo].Manifests[d].Body
		w.mr.Unlock()
	} else {
		var ix struct {
			Manifests []struct {
				Digest      string
				Annotations map[string]string
			}
		}
		b, _ := os.ReadFile(filepath.Join(w.dir, "index.json"))
		_ = json.Unmarshal(b, &ix)
		found := ""
		for _, m := range ix.Manifests {
			if m.Annotations["org.opencontainers.image.ref.name"] == tag {
				found = m.Digest
			}
		}
		if found == "" {
			return nil, false
		}
		body, _ = os.ReadFile(filepath.Join(w.dir, "blobs", "sha256", strings.TrimPrefix(found, "sha256:")))
	}
	var m struct{ Manifests []struct{ Digest string } }
	_ = json.Unmarshal(body, &m)
	var out []string
	for _, x := range m.Manifests {
		out = append(out, x.Digest)
	}
	return out, true
}

func (w *world) artID(d string) int {
	for k, a := range w.arts {
		if a.digest == d {
			return k + 1
		}
	}
	return 99
}

func checkList(w *world, ds []descriptor.Descriptor, live map[int]bool, s, f int) string {
	got := map[int]int{}
	for _, d := range ds {
		k := w.artID(d.Digest.String()) - 1
		if k < 0 || k >= len(w.arts) {
			return "unknown digest " + d.Digest.String()
		}
		got[k]++
		a := w.arts[k]
		if d.ArtifactType != a.atype {
			return fmt.Sprintf("artifact %d listed with artifactType %q, it carries %q", k, d.ArtifactType, a.atype)
		}
		if len(d.Annotations) != len(a.ann) {
			return fmt.Sprintf("artifact %d listed with annotations %v, it carries %v", k, d.Annotations, a.ann)
		}
		for kk, v := range a.ann {
			if d.Annotations[kk] != v {
				return fmt.Sprintf("artifact %d listed with annotations %v, it carries %v", k, d.Annotations, a.ann)
			}
		}
	}
	for k, a := range w.arts {
		want := 0
		if live[k] && a.subject == s && match(a, f) {
			want = 1
		}
		if got[k] != want {
			switch {
			case got[k] > 1:
				return fmt.Sprintf("duplicated: artifact %d listed %d times", k, got[k])
			case want == 1:
				return fmt.Sprintf("lost: artifact %d is stored and names the subject but is not listed", k)
			case !live[k]:
				return fmt.Sprintf("left-over: artifact %d was deleted and is still listed", k)
			default:
				return fmt.Sprintf("artifact %d listed although the filter/subject does not select it", k)
			}
		}
	}
	return ""
}

func coqInfo(w *world) string {
	var rows []string
	for k, a := range w.arts {
		at := map[string]int{T1: 1, T2: 2}[a.atype]
		if at == 0 {
			at = 3
		}
		var ann []string
		keys := lib.SortedKeys(a.ann)
		for _, kk := range keys {
			kid := map[string]int{"k": 1, "n": 2, "other": 3}[kk]
			vid := map[string]int{"v1": 1, "v2": 2}[a.ann[kk]]
			if vid == 0 {
				vid = 9
			}
			ann = append(ann, fmt.Sprintf("(%d, %d)", kid, vid))
		}
		rows = append(rows, fmt.Sprintf("(%d, mkInfo %d %d %s)", k+1, 100+a.subject, at, lib.CoqList(ann)))
	}
	return lib.CoqList(rows)
}

var coqFilt = []string{"mkF 0 []", "mkF 1 []", "mkF 2 []", "mkF 0 [(1, 0)]", "mkF 0 [(1, 1)]"}

func runSeq(c Case, tmp string, res *lib.Result) string {
	w := build(c, tmp)
	ctx, cancel := context.WithTimeout(context.Background(), 60*time.Second)
	defer cancel()
	live := map[int]bool{}
	var ops, obs []string
	failed := false
	for i, op := range c.Ops {
		switch op.K {
		case "put":
			err := w.put(ctx, op.A)
			ops = append(ops, fmt.Sprintf("Put %d", op.A+1))
			if err != nil {
				obs = append(obs, "RErr")
				if !failed {
					res.Fail("put-failed backend="+c.Backend, fmt.Sprintf("op %d: ManifestPut of artifact %d failed: %v", i, op.A, err), c)
					failed = true
				}
			} else {
				obs = append(obs, "ROk")
				live[op.A] = true
			}
			res.Count("seq:put")
		case "del":
			err := w.del(ctx, op.A)
			ops = append(ops, fmt.Sprintf("Del %d", op.A+1))
			if err != nil {
				obs = append(obs, "RErr")
				if live[op.A] && !failed {
					res.Fail("delete-failed backend="+c.Backend, fmt.Sprintf("op %d: ManifestDelete of stored artifact %d failed: %v", i, op.A, err), c)
					failed = true
				}
			} else {
				obs = append(obs, "ROk")
				delete(live, op.A)
			}
			res.Count("seq:del")
		case "list":
			ds, err := w.list(ctx, op.S, op.F)
			ops = append(ops, fmt.Sprintf("List %d (%s)", 100+op.S, coqFilt[op.F]))
			if err != nil {
				obs = append(obs, "RErr")
				if !failed {
					res.Fail("list-failed backend="+c.Backend, fmt.Sprintf("op %d: ReferrerList failed: %v", i, err), c)
					failed = true
				}
				continue
			}
			var ids []string
			for _, d := range ds {
				ids = append(ids, fmt.Sprint(w.artID(d.Digest.String())))
			}
			obs = append(obs, "RList "+lib.CoqList(ids))
			res.Count(fmt.Sprintf("seq:list:n=%d", min(len(ds), 3)))
			if msg := checkList(w, ds, live, op.S, op.F); msg != "" && !failed {
				kind := strings.SplitN(msg, ":", 2)[0]
				if !strings.Contains("duplicated lost left-over", kind) {
					kind = "wrong"
				}
				res.Fail(fmt.Sprintf("referrers-%s backend=%s cache=%v", kind, c.Backend, c.Cache), fmt.Sprintf("op %d list(subject %d, filter %d): %s", i, op.S, op.F, msg), c)
				failed = true
			}
		}
	}
	// raw fallback tags at the end
	if !failed && (strings.HasPrefix(c.Backend, "tag") || c.Backend == "dir") {
		for s := range w.subjects {
			raw, ok := w.rawTag(s)
			want := map[string]bool{}
			for k, a := range w.arts {
				if live[k] && a.subject == s {
					want[a.digest] = true
				}
			}
			seen := map[string]bool{}
			for _, d := range raw {
				if seen[d] || !want[d] {
					res.Fail("fallback-tag-content backend="+c.Backend, fmt.Sprintf("fallback tag of subject %d holds %v, stored referrers are %v", s, raw, lib.SortedKeys(want)), c)
					failed = true
					break
				}
				seen[d] = true
			}
			if !failed && len(seen) != len(want) {
				res.Fail("fallback-tag-content backend="+c.Backend, fmt.Sprintf("fallback tag of subject %d (present=%v) holds %v, stored referrers are %v", s, ok, raw, lib.SortedKeys(want)), c)
				failed = true
			}
		}
	}
	be := map[string]string{"api": "BApi", "api-page1": "BApi", "api-page2": "BApi", "tag": "BTag", "tag-nodel": "BTag", "dir": "BDir"}[c.Backend]
	return fmt.Sprintf("mkCase %s %s %s %s %s", be, lib.CoqBool(c.Cache), coqInfo(w), lib.CoqList(ops), lib.CoqList(obs))
}

func runConc(c Case, tmp string, res *lib.Result) {
	w := build(c, tmp)
	ctx, cancel := context.WithTimeout(context.Background(), 60*time.Second)
	defer cancel()
	live := map[int]bool{}
	for _, k := range c.Pre {
		if err := w.put(ctx, k); err != nil {
			res.Count("conc:setup-failed")
			return
		}
		live[k] = true
	}
	if c.Cache { // fill the cache so that stale answers would show
		_, _ = w.list(ctx, 0, 0)
	}
	var wg sync.WaitGroup
	errs := make([]error, len(c.Par))
	run := func(i int, op Op) {
		defer wg.Done()
		switch op.K {
		case "put":
			errs[i] = w.put(ctx, op.A)
		case "list": // a listing of subject 0 that runs while an update is in flight
			_, errs[i] = w.list(ctx, 0, 0)
		default:
			errs[i] = w.del(ctx, op.A)
		}
	}
	tag0 := strings.Replace(w.subjects[0], ":", "-", 1)
	if c.Kind == "gate" {
		// the first update is held right before it writes the fallback tag; the second runs meanwhile (or is
		// kept out by the lock, in which case the gate opens after a short wait)
		var mu sync.Mutex
		state := 0 // 0 waiting for the first write, 1 holding, 2 open
		release := make(chan struct{})
		second := make(chan struct{})
		var once sync.Once
		w.hook = func(req *http.Request) {
			isTagWrite := (req.Method == "PUT" || req.Method == "DELETE") && strings.HasSuffix(req.URL.Path, "/manifests/"+tag0)
			if c.Gate == "putlist" || c.Gate == "dellist" { // the update is held at the request that stores / removes the artifact itself
				isTagWrite = (req.Method == "PUT" || req.Method == "DELETE") && strings.Contains(req.URL.Path, "/manifests/sha256:")
			}
			isTagRead := (req.Method == "GET" || req.Method == "HEAD") && strings.HasSuffix(req.URL.Path, "/manifests/"+tag0)
			mu.Lock()
			st := state
			if st == 0 && isTagWrite {
				state = 1
				mu.Unlock()
				select {
				case <-release:
				case <-ctx.Done():
				}
				return
			}
			mu.Unlock()
			if st == 1 && isTagRead {
				once.Do(func() { close(second) })
			}
		}
		wg.Add(1)
		go run(0, c.Par[0])
		// wait until the first update holds at its write
		for i := 0; i < 2000; i++ {
			mu.Lock()
			st := state
			mu.Unlock()
			if st == 1 {
				break
			}
			time.Sleep(time.Millisecond)
		}
		var wg2 sync.WaitGroup
		wg2.Add(1)
		wg.Add(1)
		go func() { defer wg2.Done(); run(1, c.Par[1]) }()
		done2 := make(chan struct{})
		go func() { wg2.Wait(); close(done2) }()
		select {
		case <-done2: // the second update ran to completion while the first was held
			res.Count("gate:second-completed-inside")
		case <-time.After(150 * time.Millisecond): // the second is waiting for the lock
			res.Count("gate:second-excluded")
		}
		mu.Lock()
		state = 2
		mu.Unlock()
		close(release)
		wg.Wait()
		_ = second
	} else {
		r := lib.NewRand(c.Seed)
		lat := make([]time.Duration, 4096)
		for i := range lat {
			lat[i] = time.Duration(r.Intn(600)) * time.Microsecond
		}
		var n int64
		var mu sync.Mutex
		w.hook = func(req *http.Request) {
			mu.Lock()
			n++
			d := lat[n%4096]
			mu.Unlock()
			time.Sleep(d)
		}
		for i, op := range c.Par {
			wg.Add(1)
			go run(i, op)
		}
		wg.Wait()
	}
	w.hook = nil
	for i, err := range errs {
		if err != nil {
			res.Fail("conc-update-failed backend="+c.Backend, fmt.Sprintf("concurrent %s of artifact %d failed: %v", c.Par[i].K, c.Par[i].A, err), c)
			return
		}
		switch c.Par[i].K {
		case "put":
			live[c.Par[i].A] = true
		case "del":
			delete(live, c.Par[i].A)
		}
	}
	ds, err := w.list(ctx, 0, 0)
	if err != nil {
		res.Fail("list-failed backend="+c.Backend, err.Error(), c)
		return
	}
	if msg := checkList(w, ds, live, 0, 0); msg != "" {
		kind := strings.SplitN(msg, ":", 2)[0]
		res.Fail(fmt.Sprintf("concurrent-referrers-%s backend=%s kind=%s", kind, c.Backend, c.Kind+c.Gate), fmt.Sprintf("after %d concurrent updates of one subject: %s", len(c.Par), msg), c)
		return
	}
	if strings.HasPrefix(c.Backend, "tag") || c.Backend == "dir" {
		raw, _ := w.rawTag(0)
		want := 0
		for k, a := range w.arts {
			if live[k] && a.subject == 0 {
				want++
			}
		}
		if len(raw) != want {
			res.Fail("concurrent-fallback-tag-content backend="+c.Backend, fmt.Sprintf("fallback tag holds %d entries, %d referrers are stored", len(raw), want), c)
		}
	}
}

func runCase(c Case, tmp string, res *lib.Result) (ret string) {
	defer res.Recover(c)
	return runCaseRaw(c, tmp, res)
}

func runCaseRaw(c Case, tmp string, res *lib.Result) string {
	dir, _ := os.MkdirTemp(tmp, "c10-")
	defer os.RemoveAll(dir)
	if c.Kind == "seq" {
		return runSeq(c, dir, res)
	}
	runConc(c, dir, res)
	return ""
}

var backends = []string{"api", "api-page1", "api-page2", "tag", "tag", "tag-nodel", "dir", "dir"}
var subj0 = []int{0, 1, 2, 6} // artifacts naming subject 0

func genCase(r *lib.Rand) Case {
	c := Case{Seed: r.U64(), Backend: lib.Pick(r, backends), Cache: r.Bool()}
	switch k := r.Intn(100); {
	case k < 70:
		c.Kind = "seq"
		n := 4 + r.Intn(16)
		for i := 0; i < n; i++ {
			switch k := r.Intn(100); {
			case k < 35:
				c.Ops = append(c.Ops, Op{K: "put", A: r.Intn(nArt)})
			case k < 55:
				c.Ops = append(c.Ops, Op{K: "del", A: r.Intn(nArt)})
			default:
				c.Ops = append(c.Ops, Op{K: "list", S: r.Intn(4), F: r.Intn(5)})
			}
		}
		for s := 0; s < 4; s++ {
			c.Ops = append(c.Ops, Op{K: "list", S: s})
		}
	case k < 88:
		c.Kind = "conc"
		p := r.Perm(len(subj0))
		npre := r.Intn(3)
		for i := 0; i < npre; i++ {
			c.Pre = append(c.Pre, subj0[p[i]])
		}
		for i := 0; i < len(subj0); i++ {
			if i < npre {
				if r.Bool() {
					c.Par = append(c.Par, Op{K: "del", A: subj0[p[i]]})
				}
			} else {
				c.Par = append(c.Par, Op{K: "put", A: subj0[p[i]]})
			}
		}
		if len(c.Par) < 2 {
			c.Par = append(c.Par, Op{K: "put", A: 7})
		}
	default:
		c.Kind = "gate"
		c.Backend = lib.Pick(r, []string{"tag", "tag-nodel", "tag"})
		if r.Bool() {
			c.Gate = "delput"
			c.Pre = []int{0}
			c.Par = []Op{{K: "del", A: 0}, {K: "put", A: 1}}
			if r.Bool() {
				c.Par = []Op{{K: "put", A: 1}, {K: "del", A: 0}}
			}
		} else {
			c.Gate = "putput"
			c.Par = []Op{{K: "put", A: 1}, {K: "put", A: 2}}
		}
		if c.Seed%3 == 0 { // an update in flight while the subject is listed through the same client, then listed again
			c.Backend = []string{"api", "api-page1", "tag", "api"}[(c.Seed/3)%4]
			c.Cache = true
			if (c.Seed/12)%2 == 0 {
				c.Gate, c.Pre, c.Par = "putlist", []int{0}, []Op{{K: "put", A: 1}, {K: "list"}}
			} else {
				c.Gate, c.Pre, c.Par = "dellist", []int{0, 1}, []Op{{K: "del", A: 0}, {K: "list"}}
			}
		}
	}
	return c
}

func Run(o lib.Opts) {
	res := lib.NewResult("C10", o.Tier, o.Seed)
	res.Rule = "one splitmix64 stream: 70% sequential histories of 8-24 operations (35% push / 20% referrer-aware delete / 45% listing with one of 5 filters) over 8 artifacts (3 artifact types incl. config-media-type fallback, 4 annotation shapes) naming 4 subjects (two stored images, one digest that names nothing, one artifact = referrer of a referrer), closed by a listing of every subject; back ends: registry with the API, API paged by 1 and by 2, fallback tag with and without the tag-delete API, OCI layout; response cache on/off 50%; every result compared with the Coq model and a reference multimap, the raw fallback tag read back; 18% 2-4 concurrent pushes/deletions of one subject's referrers under per-request latencies; 12% gated pairs (the first update held right before it writes the fallback tag while the second runs); non-trivial = history with a deletion after a cached listing, or concurrent/gated; distinct by case"
	if o.Replay != "" {
		var f struct{ Case Case }
		b, err := os.ReadFile(o.Replay)
		if err == nil {
			err = json.Unmarshal(b, &f)
		}
		if err != nil {
			fmt.Println("replay:", err)
			os.Exit(2)
		}
		runCase(f.Case, os.TempDir(), res)
		for _, fl := range res.Failures {
			fmt.Printf("REPLAY-FAIL %s: %s\n", fl.Sig, fl.Desc)
		}
		if len(res.Failures) == 0 {
			fmt.Println("REPLAY-OK")
		}
		return
	}
	r := lib.NewRand(o.Seed)
	cw := lib.NewCaseWriter(o.Out, "C10", "From Coq Require Import List Arith.\nFrom Verif Require Import Model.C10_Referrers Corr.C10.\nImport ListNotations.", "case", 300)
	all := []Case{
		{Kind: "gate", Seed: 31, Backend: "tag", Gate: "delput", Pre: []int{0}, Par: []Op{{K: "del", A: 0}, {K: "put", A: 1}}},
		{Kind: "gate", Seed: 32, Backend: "tag", Gate: "delput", Pre: []int{0}, Par: []Op{{K: "put", A: 1}, {K: "del", A: 0}}},
		{Kind: "gate", Seed: 34, Backend: "api", Cache: true, Gate: "putlist", Pre: []int{0}, Par: []Op{{K: "put", A: 1}, {K: "list"}}},
		{Kind: "gate", Seed: 35, Backend: "api", Cache: true, Gate: "dellist", Pre: []int{0, 1}, Par: []Op{{K: "del", A: 0}, {K: "list"}}},
		{Kind: "gate", Seed: 36, Backend: "tag", Cache: true, Gate: "putlist", Pre: []int{0}, Par: []Op{{K: "put", A: 1}, {K: "list"}}},
		{Kind: "gate", Seed: 37, Backend: "tag", Cache: true, Gate: "dellist", Pre: []int{0, 1}, Par: []Op{{K: "del", A: 0}, {K: "list"}}},
		{Kind: "gate", Seed: 33, Backend: "tag", Gate: "putput", Par: []Op{{K: "put", A: 1}, {K: "put", A: 2}}},
		{Kind: "seq", Seed: 34, Backend: "api", Cache: true, Ops: []Op{{K: "put", A: 0}, {K: "put", A: 1}, {K: "list", S: 0, F: 1}, {K: "list", S: 0}, {K: "del", A: 0}, {K: "list", S: 0}, {K: "list", S: 0, F: 2}}},
		{Kind: "seq", Seed: 35, Backend: "tag", Cache: true, Ops: []Op{{K: "put", A: 0}, {K: "list", S: 0, F: 2}, {K: "put", A: 1}, {K: "list", S: 0}, {K: "del", A: 1}, {K: "del", A: 0}, {K: "list", S: 0}, {K: "put", A: 0}, {K: "list", S: 0}}},
	}
	n := o.Scale(260, 5000)
	for i := 0; i < n; i++ {
		all = append(all, genCase(r))
	}
	seen := lib.Set{}
	for _, c := range all {
		res.Evaluations++
		kb, _ := json.Marshal(c)
		term := runCase(c, os.TempDir(), res)
		nontriv := c.Kind != "seq"
		listed := false
		for _, op := range c.Ops {
			if op.K == "list" {
				listed = true
			}
			if op.K == "del" && listed {
				nontriv = true
			}
		}
		if _, dup := seen[string(kb)]; !dup && nontriv {
			res.Distinct++
		}
		seen.Add(string(kb))
		if o.Mode != "search" && term != "" {
			cw.Add(term, c)
		}
		res.Sample(c, 3)
	}
	cw.Close(res)
	lib.WriteResult(o.Out, res)
}

var _ = sort.Strings
