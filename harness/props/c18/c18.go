// Package c18: one-shot sync.  The real regsync binary (rebuilt from /repo) runs generated configurations (image /
// repository / registry entries, allow and deny expressions, platform, media-type lists, backup templates, referrers
// and digest-tags switches, parallelism, once / once --missing / check) between two model registries served on the
// loopback interface, over generated source and target populations, and again after source tags have moved.  The
// full tag maps of every repository of the target before and after are compared with the Coq model of the run and
// with an independent statement of the postcondition; synced images must be complete; the source must be unchanged.
package c18

import (
	"bytes"
	"encoding/json"
	"fmt"
	"io"
	"net"
	"net/http"
	"os"
	"os/exec"
	"path/filepath"
	"regexp"
	"sort"
	"strings"
	"sync"
	"time"

	"verifharness/imgen"
	"verifharness/lib"
	"verifharness/memreg"
)

type Entry struct {
	Type      string // image | repository | registry
	Repo      string
	Tag       string   `json:",omitempty"` // image entries
	Allow     []string `json:",omitempty"`
	Deny      []string `json:",omitempty"`
	RepoAllow []string `json:",omitempty"`
	RepoDeny  []string `json:",omitempty"`
	Platform  bool     `json:",omitempty"`
	OCIOnly   bool     `json:",omitempty"` // mediaTypes restricted to OCI
	DefDocker bool     `json:",omitempty"` // defaults.mediaTypes lists the Docker types only: applies when the entry has no list of its own
	Backup    string   `json:",omitempty"`
	Referrers bool     `json:",omitempty"`
	DigTags   bool     `json:",omitempty"`
	Twin      bool     `json:",omitempty"` // a first entry syncs the index image of another registry for platform linux/arm64 into twin/arm:idx
}
type Case struct {
	Kind     string // sync
	Seed     uint64
	Entry    Entry
	Action   string // once | missing | check
	Parallel int
	Rounds   int // 1 or 2 (source tags move in between)
	CatPage  int `json:",omitempty"` // catalog page size of the source registry
}

var tagPool = []string{"v1", "v1.1", "v10", "v2", "latest", "dev-a", "dev-b", "rc1", "1.0", "10"}
var filterPool = []string{"v1", "v1|v2", "v.*", "dev-.*", "latest", "v1\\..*", "[0-9.]+", "rc1|latest", ".*", "v[0-9]+", "1.0"}
var repoPool = []string{"proj/app", "proj/lib", "team/tool"}

type server struct {
	reg  *memreg.Registry
	srv  *http.Server
	addr string
	mu   sync.Mutex
	log  []string
}

func serve(r *memreg.Registry) (*server, error) {
	ln, err := net.Listen("tcp", "127.0.0.1:0")
	if err != nil {
		return nil, err
	}
	s := &server{reg: r, addr: ln.Addr().String()}
	n := 0
	s.srv = &http.Server{Handler: http.HandlerFunc(func(w http.ResponseWriter, req *http.Request) {
		body, _ := io.ReadAll(req.Body)
		s.mu.Lock()
		n++
		k := n
		if req.Method != "GET" && req.Method != "HEAD" {
			s.log = append(s.log, req.Method+" "+req.URL.Path)
		}
		s.mu.Unlock()
		rs := r.Handle(req, body, k)
		for h, v := range rs.Header {
			w.Header()[h] = v
		}
		w.WriteHeader(rs.StatusCode)
		if rs.Body != nil {
			_, _ = io.Copy(w, rs.Body)
		}
	})}
	go func() { _ = s.srv.Serve(ln) }()
	return s, nil
}

type image struct {
	g      *imgen.Graph
	digest string
	mt     string
	plat   string // digest of the linux/amd64 child when the image is an index
	plat2  string // digest of the linux/arm64 child
}

func mkImages(r *lib.Rand, uniq string) []image {
	var out []image
	for i := 0; i < 5; i++ {
		g := &imgen.Graph{}
		mk := func(arch string, docker bool) *imgen.Node {
			l := g.Blob([]byte(fmt.Sprintf("%s-img%d-%s-layer", uniq, i, arch)), imgen.MTLayer)
			cfg := g.Blob([]byte(fmt.Sprintf(`{"architecture":"%s","os":"linux","config":{"Labels":{"i":"%d"}},"rootfs":{"type":"layers","diff_ids":[]}}`, arch, i)), imgen.MTConfig)
			return g.Image(docker, cfg, []*imgen.Node{l}, nil, nil, fmt.Sprintf("%s-%d-%s", uniq, i, arch))
		}
		im := image{g: g}
		switch i {
		case 3: // an index
			a, b := mk("amd64", false), mk("arm64", false)
			g.Root = g.Index(false, []*imgen.Node{a, b}, uniq)
			im.plat, im.plat2 = a.Digest, b.Digest
		case 4: // Docker media type
			g.Root = mk("amd64", true)
		default:
			g.Root = mk("amd64", false)
		}
		im.digest, im.mt = g.Root.Digest, g.Root.MT
		out = append(out, im)
	}
	return out
}

func load(reg *memreg.Registry, repo, tag string, im image) {
	for _, n := range im.g.Nodes {
		if n.Kind == "blob" {
			reg.PutBlob(repo, n.Body)
		} else if n != im.g.Root {
			reg.PutManifest(repo, "", n.MT, n.Body)
		}
	}
	reg.PutManifest(repo, tag, im.g.Root.MT, im.g.Root.Body)
}

func tagsOfAll(reg *memreg.Registry) map[string]map[string]string {
	out := map[string]map[string]string{}
	reg.Lock()
	var names []string
	for n := range reg.Repos {
		names = append(names, n)
	}
	reg.Unlock()
	for _, n := range names {
		out[n] = reg.TagsOf(n)
	}
	return out
}

func anchored(f, s string) bool {
	re, err := regexp.Compile("^(?:" + f + ")$")
	return err == nil && re.MatchString(s)
}
func sel(allow, deny []string, s string) bool {
	ok := len(allow) == 0
	for _, f := range allow {
		if anchored(f, s) {
			ok = true
		}
	}
	for _, f := range deny {
		if anchored(f, s) {
			ok = false
		}
	}
	return ok
}

func yamlList(l []string) string {
	var q []string
	for _, s := range l {
		b, _ := json.Marshal(s)
		q = append(q, string(b))
	}
	return "[" + strings.Join(q, ", ") + "]"
}

// mediaAllowed: the entry's own media-type list wins; without one the defaults' list applies; without either all types
func mediaAllowed(e Entry, mt string) bool {
	if e.OCIOnly {
		return !strings.Contains(mt, "docker")
	}
	if e.DefDocker {
		return strings.Contains(mt, "docker")
	}
	return true
}

func runCase(c Case, outDir string, res *lib.Result) (ret []string) {
	defer res.Recover(c)
	return runCaseRaw(c, outDir, res)
}

func runCaseRaw(c Case, outDir string, res *lib.Result) []string {
	abs, _ := filepath.Abs(outDir)
	bin := lib.FindBin(abs, "regsync")
	work, _ := os.MkdirTemp(os.TempDir(), "c18-")
	defer os.RemoveAll(work)
	r := lib.NewRand(c.Seed)
	uniq := fmt.Sprintf("c18-%x", c.Seed&0xffff)
	imgs := mkImages(r, uniq)
	srcReg := memreg.New("src", memreg.Features{Delete: true, TagDelete: true, ReferrersAPI: true, CatalogPage: c.CatPage})
	tgtReg := memreg.New("tgt", memreg.Features{Delete: true, TagDelete: true, ReferrersAPI: true})
	// populations
	srcTags := map[string]map[string]int{} // repo -> tag -> image number
	for _, repo := range repoPool {
		srcTags[repo] = map[string]int{}
		n := 2 + r.Intn(6)
		for _, k := range r.Perm(len(tagPool))[:n] {
			srcTags[repo][tagPool[k]] = r.Intn(len(imgs))
		}
	}
	for repo, m := range srcTags {
		for t, k := range m {
			load(srcReg, repo, t, imgs[k])
		}
	}
	tgtRepoOf := func(repo string) string {
		if c.Entry.Type == "registry" {
			return repo
		}
		return "mirror/" + strings.ReplaceAll(repo, "/", "-")
	}
	for _, repo := range repoPool {
		for _, t := range tagPool {
			switch k := r.Intn(100); {
			case k < 18:
				if sk, ok := srcTags[repo][t]; ok { // already in sync
					load(tgtReg, tgtRepoOf(repo), t, imgs[sk])
				}
			case k < 36:
				load(tgtReg, tgtRepoOf(repo), t, imgs[r.Intn(len(imgs))]) // stale or without counterpart
			}
		}
		if r.Chance(50) {
			load(tgtReg, tgtRepoOf(repo), "only-at-target", imgs[0])
		}
	}
	load(tgtReg, "unrelated/repo", "keep", imgs[1])
	ss, err := serve(srcReg)
	if err != nil {
		res.Count("setup-failed")
		return nil
	}
	defer ss.srv.Close()
	ts, err := serve(tgtReg)
	if err != nil {
		res.Count("setup-failed")
		return nil
	}
	defer ts.srv.Close()
	// configuration
	e := c.Entry
	var sb strings.Builder
	twinAddr := ""
	if e.Twin {
		twinReg := memreg.New("twin.example", memreg.Features{})
		load(twinReg, "twin/src", "idx", imgs[3])
		tw, err := serve(twinReg)
		if err != nil {
			res.Count("setup-failed")
			return nil
		}
		defer tw.srv.Close()
		twinAddr = tw.addr
	}
	defMT := ""
	if e.DefDocker {
		defMT = "  mediaTypes: [\"application/vnd.docker.distribution.manifest.v2+json\", \"application/vnd.docker.distribution.manifest.list.v2+json\"]\n"
	}
	fmt.Fprintf(&sb, "version: 1\ncreds:\n  - registry: %s\n    tls: disabled\n  - registry: %s\n    tls: disabled\ndefaults:\n  parallel: %d\n  skipDockerConfig: true\n%ssync:\n", ss.addr, ts.addr, c.Parallel, defMT)
	if e.Twin { // the same index as some tags of the source, for another platform, resolved first
		cfg := sb.String()
		sb.Reset()
		sb.WriteString(strings.Replace(cfg, "defaults:\n", fmt.Sprintf("  - registry: %s\n    tls: disabled\ndefaults:\n", twinAddr), 1))
		fmt.Fprintf(&sb, "  - source: %s/twin/src:idx\n    target: %s/twin/arm:idx\n    type: image\n    platform: linux/arm64\n", twinAddr, ts.addr)
	}
	switch e.Type {
	case "image":
		fmt.Fprintf(&sb, "  - source: %s/%s:%s\n    target: %s/%s:%s\n    type: image\n", ss.addr, e.Repo, e.Tag, ts.addr, tgtRepoOf(e.Repo), e.Tag)
	case "repository":
		fmt.Fprintf(&sb, "  - source: %s/%s\n    target: %s/%s\n    type: repository\n", ss.addr, e.Repo, ts.addr, tgtRepoOf(e.Repo))
	default:
		fmt.Fprintf(&sb, "  - source: %s\n    target: %s\n    type: registry\n", ss.addr, ts.addr)
		if len(e.RepoAllow)+len(e.RepoDeny) > 0 {
			fmt.Fprintf(&sb, "    repos:\n      allow: %s\n      deny: %s\n", yamlList(e.RepoAllow), yamlList(e.RepoDeny))
		}
	}
	if e.Type != "image" && len(e.Allow)+len(e.Deny) > 0 {
		fmt.Fprintf(&sb, "    tags:\n      allow: %s\n      deny: %s\n", yamlList(e.Allow), yamlList(e.Deny))
	}
	if e.Platform {
		sb.WriteString("    platform: linux/amd64\n")
	}
	if e.OCIOnly {
		sb.WriteString("    mediaTypes: [\"application/vnd.oci.image.manifest.v1+json\", \"application/vnd.oci.image.index.v1+json\"]\n")
	}
	if e.Backup != "" {
		fmt.Fprintf(&sb, "    backup: %q\n", e.Backup)
	}
	if e.Referrers {
		sb.WriteString("    referrers: true\n")
	}
	if e.DigTags {
		sb.WriteString("    digestTags: true\n")
	}
	cfgFile := filepath.Join(work, "regsync.yml")
	_ = os.WriteFile(cfgFile, []byte(sb.String()), 0o644)
	var terms []string
	failed := false
	for round := 0; round < c.Rounds; round++ {
		if round == 1 { // source tags move
			for _, repo := range repoPool {
				for t := range srcTags[repo] {
					if r.Chance(35) {
						k := r.Intn(len(imgs))
						srcTags[repo][t] = k
						load(srcReg, repo, t, imgs[k])
					}
				}
			}
		}
		before := tagsOfAll(tgtReg)
		srcBefore := tagsOfAll(srcReg)
		ts.mu.Lock()
		ts.log = nil
		ts.mu.Unlock()
		args := []string{"once", "-c", cfgFile, "-v", "error"}
		switch c.Action {
		case "missing":
			args = []string{"once", "--missing", "-c", cfgFile, "-v", "error"}
		case "check":
			args = []string{"check", "-c", cfgFile, "-v", "error"}
		}
		cmd := exec.Command(bin, args...)
		cmd.Dir = work
		cmd.Env = append(os.Environ(), "HOME="+work)
		var stderr bytes.Buffer
		cmd.Stderr = &stderr
		done := make(chan error, 1)
		go func() { done <- cmd.Run() }()
		var runErr error
		select {
		case runErr = <-done:
		case <-time.After(60 * time.Second):
			_ = cmd.Process.Kill()
			runErr = fmt.Errorf("timeout")
		}
		after := tagsOfAll(tgtReg)
		res.Count(fmt.Sprintf("run:%s:%s:ok=%v", e.Type, c.Action, runErr == nil))
		if _, exists := srcTags[e.Repo][e.Tag]; runErr != nil && e.Type == "image" && !exists {
			res.Count("run:image-without-source")
			continue
		}
		if runErr != nil {
			if !failed {
				msg := stderr.String()
				if len(msg) > 300 {
					msg = msg[len(msg)-300:]
				}
				res.Fail("sync-run-failed type="+e.Type+" action="+c.Action, fmt.Sprintf("regsync %s failed on a servable configuration: %v %s", c.Action, runErr, msg), c)
				failed = true
			}
			continue
		}
		// ---- source untouched ----
		if !sameMaps(srcBefore, tagsOfAll(srcReg)) && !failed {
			res.Fail("source-changed", "the run changed tags of the source registry", c)
			failed = true
		}
		// ---- the postcondition, stated independently ----
		selRepos := map[string]bool{}
		switch e.Type {
		case "registry":
			for _, repo := range repoPool {
				if sel(e.RepoAllow, e.RepoDeny, repo) {
					selRepos[repo] = true
				}
			}
		default:
			selRepos[e.Repo] = true
		}
		expectedTouched := map[string]bool{} // "repo\x00tag" that may change
		if e.Twin {
			expectedTouched["twin/arm\x00idx"] = true
			if got := after["twin/arm"]["idx"]; c.Action != "check" && mediaAllowed(Entry{DefDocker: e.DefDocker}, imgs[3].mt) && got != imgs[3].plat2 && !failed {
				res.Fail("selected-tag-not-synced type=image platform=linux/arm64", fmt.Sprintf("twin/arm:idx is %q after a successful run, the linux/arm64 image of the source index is %s", got, imgs[3].plat2), c)
				failed = true
			}
		}
		for _, repo := range repoPool {
			tr := tgtRepoOf(repo)
			for t, k := range srcTags[repo] {
				selected := selRepos[repo] && ((e.Type == "image" && t == e.Tag) || (e.Type != "image" && sel(e.Allow, e.Deny, t)))
				if !selected {
					continue
				}
				im := imgs[k]
				expectedTouched[tr+"\x00"+t] = true
				mediaOK := mediaAllowed(e, im.mt)
				want := im.digest
				if e.Platform && im.plat != "" {
					want = im.plat
				}
				old, had := before[tr][t]
				// a backup is taken only of a tag that is about to be overwritten: it exists and names neither the source
				// image nor the configured platform's image
				if e.Backup != "" && had && c.Action == "once" && mediaOK && old != want && old != im.digest {
					expectedTouched[tr+"\x00"+strings.ReplaceAll(e.Backup, "{{.Ref.Tag}}", t)] = true
				}
				got := after[tr][t]
				if failed {
					continue
				}
				switch {
				case c.Action == "check":
				case c.Action == "missing" && had:
					if got != old {
						res.Fail("missing-overwrote-existing", fmt.Sprintf("--missing changed %s:%s from %s to %s", tr, t, old, got), c)
						failed = true
					}
				case !mediaOK:
					if got != old {
						res.Fail("excluded-media-type-synced", fmt.Sprintf("%s:%s has media type %s outside the configured list and was written", tr, t, im.mt), c)
						failed = true
					}
				case got == want || (got == im.digest && old == im.digest):
					if had && old != got && e.Backup != "" {
						b := strings.ReplaceAll(e.Backup, "{{.Ref.Tag}}", t)
						if after[tr][b] != old {
							res.Fail("backup-missing", fmt.Sprintf("%s:%s was overwritten (%s -> %s) and %s:%s is %q", tr, t, old, got, tr, b, after[tr][b]), c)
							failed = true
						}
					}
					// completeness of what the tag names now
					if miss := missing(tgtReg, tr, imgs[k], got); miss != "" {
						res.Fail("synced-image-incomplete", fmt.Sprintf("%s:%s is set but %s is not in the target repository", tr, t, miss), c)
						failed = true
					}
				default:
					res.Fail(fmt.Sprintf("selected-tag-not-synced type=%s filter=%v/%v", e.Type, e.Allow, e.Deny), fmt.Sprintf("%s:%s is %q after a successful run, the source has %s (platform %q)", tr, t, got, im.digest, im.plat), c)
					failed = true
				}
			}
		}
		// nothing else is touched
		for repo, m := range before {
			for t, d := range m {
				if !expectedTouched[repo+"\x00"+t] && after[repo][t] != d && !failed {
					res.Fail(fmt.Sprintf("unselected-tag-changed type=%s filter=%v/%v", e.Type, e.Allow, e.Deny), fmt.Sprintf("%s:%s changed from %s to %q although the configuration does not select it", repo, t, d, after[repo][t]), c)
					failed = true
				}
			}
		}
		for repo, m := range after {
			for t := range m {
				if _, ok := before[repo][t]; !ok && !expectedTouched[repo+"\x00"+t] && !failed && !strings.HasPrefix(t, "sha256-") {
					res.Fail(fmt.Sprintf("unselected-tag-created type=%s filter=%v/%v", e.Type, e.Allow, e.Deny), fmt.Sprintf("%s:%s was created although the configuration does not select it", repo, t), c)
					failed = true
				}
			}
		}
		if c.Action == "check" {
			ts.mu.Lock()
			w := append([]string(nil), ts.log...)
			ts.mu.Unlock()
			if len(w) > 0 && !failed {
				res.Fail("check-wrote", fmt.Sprintf("a check-only run sent %d writing requests to the target, first: %s", len(w), w[0]), c)
				failed = true
			}
		}
		// ---- Coq: one term per selected repository ----
		for _, repo := range repoPool {
			if !selRepos[repo] {
				continue
			}
			terms = append(terms, coqRepo(c, repo, tgtRepoOf(repo), srcTags[repo], imgs, before, after))
		}
	}
	return terms
}

func missing(reg *memreg.Registry, repo string, im image, got string) string {
	root := im.g.Root
	if got != root.Digest {
		for _, n := range im.g.Nodes {
			if n.Digest == got {
				root = n
			}
		}
	}
	for d, n := range imgen.Closure(root, false) {
		if n.Kind == "blob" && !reg.HasBlob(repo, d) {
			return d
		}
		if n.Kind != "blob" && !reg.HasManifest(repo, d) {
			return d
		}
	}
	return ""
}

func sameMaps(a, b map[string]map[string]string) bool {
	ja, _ := json.Marshal(a)
	jb, _ := json.Marshal(b)
	return string(ja) == string(jb)
}

func coqRepo(c Case, repo, tr string, src map[string]int, imgs []image, before, after map[string]map[string]string) string {
	e := c.Entry
	tid := map[string]int{}
	id := func(t string) int {
		if v, ok := tid[t]; ok {
			return v
		}
		tid[t] = len(tid) + 1
		return tid[t]
	}
	did := map[string]int{"": 0}
	dg := func(d string) int {
		if v, ok := did[d]; ok {
			return v
		}
		did[d] = len(did) + 100
		return did[d]
	}
	tags := lib.SortedKeys(src)
	var st []string
	for _, t := range tags {
		im := imgs[src[t]]
		plat := "None"
		if e.Platform && im.plat != "" {
			plat = fmt.Sprintf("(Some %d)", dg(im.plat))
		}
		st = append(st, fmt.Sprintf("mkT %d %d %s %s", id(t), dg(im.digest), lib.CoqBool(mediaAllowed(e, im.mt)), plat))
	}
	// the matching relation as a table: filter number, tag number
	var allow, deny []string
	var tab []string
	fn := 0
	addF := func(f string) int {
		fn++
		for _, t := range tags {
			if anchored(f, t) {
				tab = append(tab, fmt.Sprintf("(%d, %d)", fn, id(t)))
			}
		}
		return fn
	}
	if e.Type == "image" {
		fn++
		tab = append(tab, fmt.Sprintf("(%d, %d)", fn, id(e.Tag)))
		allow = append(allow, fmt.Sprint(fn))
	} else {
		for _, f := range e.Allow {
			allow = append(allow, fmt.Sprint(addF(f)))
		}
		for _, f := range e.Deny {
			deny = append(deny, fmt.Sprint(addF(f)))
		}
	}
	// every name that occurs: source tags, target tags before/after, backup names
	names := map[string]bool{}
	for _, t := range tags {
		names[t] = true
		if e.Backup != "" {
			names[strings.ReplaceAll(e.Backup, "{{.Ref.Tag}}", t)] = true
		}
	}
	for t := range before[tr] {
		names[t] = true
	}
	for t := range after[tr] {
		if !strings.HasPrefix(t, "sha256-") {
			names[t] = true
		}
	}
	var bk []string
	if e.Backup != "" {
		for _, t := range tags {
			bk = append(bk, fmt.Sprintf("(%d, %d)", id(t), id(strings.ReplaceAll(e.Backup, "{{.Ref.Tag}}", t))))
		}
	}
	var bf, af []string
	for _, t := range lib.SortedKeys(names) {
		if d, ok := before[tr][t]; ok {
			bf = append(bf, fmt.Sprintf("(%d, %d)", id(t), dg(d)))
		}
		if d, ok := after[tr][t]; ok {
			af = append(af, fmt.Sprintf("(%d, %d)", id(t), dg(d)))
		}
	}
	act := map[string]string{"once": "ASync", "missing": "AMissing", "check": "ACheck"}[c.Action]
	return fmt.Sprintf("mkCase %s %s %s %s %s %s %s %s %d %s", act, lib.CoqList(tab), lib.CoqList(allow), lib.CoqList(deny), lib.CoqBool(e.Backup != ""), lib.CoqList(bk), lib.CoqList(st), lib.CoqList(bf), len(tid), lib.CoqList(af))
}

func genCase(r *lib.Rand) Case {
	c := Case{Kind: "sync", Seed: r.U64(), Parallel: 1 + r.Intn(4), Rounds: 1 + r.Intn(2), Action: lib.Pick(r, []string{"once", "once", "once", "missing", "check"})}
	e := Entry{Type: lib.Pick(r, []string{"repository", "repository", "registry", "image"}), Repo: lib.Pick(r, repoPool), Tag: lib.Pick(r, tagPool)}
	if e.Type != "image" {
		for i := 0; i < r.Intn(3); i++ {
			e.Allow = append(e.Allow, lib.Pick(r, filterPool))
		}
		for i := 0; i < r.Intn(3); i++ {
			e.Deny = append(e.Deny, lib.Pick(r, filterPool[:8]))
		}
	}
	if e.Type == "registry" && r.Chance(60) {
		e.RepoAllow = []string{lib.Pick(r, []string{"proj/.*", "proj/app|team/tool", ".*", "team/.*"})}
		if r.Chance(30) {
			e.RepoDeny = []string{lib.Pick(r, []string{"proj/lib", ".*/tool"})}
		}
	}
	e.Platform, e.OCIOnly = r.Chance(30), r.Chance(25)
	e.Twin = e.Platform && len(e.Allow)%2 == 0
	e.DefDocker = r.Chance(25)
	if r.Chance(40) {
		e.Backup = lib.Pick(r, []string{"bak-{{.Ref.Tag}}", "old-{{.Ref.Tag}}"})
	}
	e.Referrers, e.DigTags = r.Chance(15), r.Chance(15)
	if e.Type == "registry" {
		c.CatPage = r.Intn(3)
	}
	c.Entry = e
	return c
}

func Run(o lib.Opts) {
	res := lib.NewResult("C18", o.Tier, o.Seed)
	res.Rule = "one splitmix64 stream: three source repositories with 2-7 of 10 tag names over 5 images (OCI single images, an index, a Docker-typed image), a target pre-populated per name with 18% the same image, 18% another image or a name without source counterpart, an extra target-only tag and an unrelated repository; entries: 50% repository, 25% registry (60% with repository filters), 25% image; 0-2 allow and 0-2 deny expressions from 11 (incl. top-level alternations, prefixes of other tags, `.*`); platform linux/amd64 30%, OCI-only media types 25%, backup template 40%, referrers 15%, digest tags 15%, parallel 1-4; action once 60% / once --missing 20% / check 20%; 50% a second run after 35% of the source tags moved; every run executes the regsync binary against loopback servers; non-trivial = entry with filters, platform, media-type list or backup; distinct by case"
	if o.Replay != "" {
		var f struct{ Case Case }
		b, err := os.ReadFile(o.Replay)
		if err == nil {
			err = json.Unmarshal(b, &f)
		}
		if err != nil {
			fmt.Println("replay:", err)
			os.Exit(2)
		}
		out := o.Out
		if out == "" {
			out = "/verif/build/C18"
		}
		runCase(f.Case, out, res)
		for _, fl := range res.Failures {
			fmt.Printf("REPLAY-FAIL %s: %s\n", fl.Sig, fl.Desc)
		}
		if len(res.Failures) == 0 {
			fmt.Println("REPLAY-OK")
		}
		return
	}
	r := lib.NewRand(o.Seed)
	cw := lib.NewCaseWriter(o.Out, "C18", "From Coq Require Import List Arith.\nFrom Verif Require Import Model.C18_Sync Corr.C18.\nImport ListNotations.", "case", 300)
	all := []Case{
		{Kind: "sync", Seed: 71, Action: "once", Parallel: 1, Rounds: 1, Entry: Entry{Type: "repository", Repo: "proj/app", Allow: []string{"v1|v2"}}},
		{Kind: "sync", Seed: 72, Action: "check", Parallel: 2, Rounds: 1, Entry: Entry{Type: "repository", Repo: "proj/app", Backup: "bak-{{.Ref.Tag}}"}},
		{Kind: "sync", Seed: 73, Action: "once", Parallel: 2, Rounds: 2, Entry: Entry{Type: "registry", RepoAllow: []string{"proj/.*"}, Deny: []string{"dev-.*"}, Backup: "bak-{{.Ref.Tag}}"}},
		{Kind: "sync", Seed: 74, Action: "once", Parallel: 1, Rounds: 1, CatPage: 1, Entry: Entry{Type: "registry", RepoAllow: []string{"team/.*"}}},
		// check-only runs over every repository with a backup template: some target tag differs from its source, nothing may be written
		{Kind: "sync", Seed: 75, Action: "check", Parallel: 1, Rounds: 2, Entry: Entry{Type: "registry", Backup: "bak-{{.Ref.Tag}}"}},
		{Kind: "sync", Seed: 76, Action: "check", Parallel: 3, Rounds: 2, Entry: Entry{Type: "registry", Backup: "old-{{.Ref.Tag}}", Referrers: true}},
		// a second run with (mostly) nothing to do, platform selection and a backup template: an idle run takes no backup
		{Kind: "sync", Seed: 78, Action: "once", Parallel: 1, Rounds: 2, Entry: Entry{Type: "registry", Platform: true, Backup: "bak-{{.Ref.Tag}}"}},
		{Kind: "sync", Seed: 79, Action: "once", Parallel: 2, Rounds: 2, Entry: Entry{Type: "registry", Platform: true, Backup: "old-{{.Ref.Tag}}"}},
		// two entries that resolve the same source index for different platforms in one process
		{Kind: "sync", Seed: 80, Action: "once", Parallel: 1, Rounds: 1, Entry: Entry{Type: "registry", Platform: true, Twin: true}},
		{Kind: "sync", Seed: 81, Action: "once", Parallel: 1, Rounds: 2, Entry: Entry{Type: "registry", Platform: true, Twin: true}},
		{Kind: "sync", Seed: 77, Action: "check", Parallel: 2, Rounds: 1, Entry: Entry{Type: "repository", Repo: "proj/lib", Backup: "bak-{{.Ref.Tag}}"}},
	}
	n := o.Scale(70, 1200)
	for i := 0; i < n; i++ {
		all = append(all, genCase(r))
	}
	seen := lib.Set{}
	for _, c := range all {
		res.Evaluations++
		kb, _ := json.Marshal(c)
		terms := runCase(c, o.Out, res)
		e := c.Entry
		nontriv := len(e.Allow)+len(e.Deny)+len(e.RepoAllow) > 0 || e.Platform || e.OCIOnly || e.DefDocker || e.Backup != ""
		if _, dup := seen[string(kb)]; !dup && nontriv {
			res.Distinct++
		}
		seen.Add(string(kb))
		if o.Mode != "search" {
			for _, t := range terms {
				cw.Add(t, c)
			}
		}
		res.Sample(c, 3)
	}
	cw.Close(res)
	lib.WriteResult(o.Out, res)
}

var _ = sort.Strings
