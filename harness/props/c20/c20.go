// Package c20: no writes (or reads) outside the chosen directory — drives path.Clean/filepath.Join (the
// primitives the code relies on), pkg/archive.Extract, the real `regctl artifact get`, and every OCI-layout
// operation that takes a digest, inside a guard directory.
package c20

import (
	"archive/tar"
	"bytes"
	"compress/gzip"
	"context"
	"encoding/json"
	"fmt"
	"io"
	"io/fs"
	"os"
	"os/exec"
	"path"
	"path/filepath"
	"sort"
	"strings"
	"syscall"
	"time"

	"github.com/opencontainers/go-digest"
	"github.com/regclient/regclient"
	"github.com/regclient/regclient/pkg/archive"
	"github.com/regclient/regclient/types/descriptor"
	"github.com/regclient/regclient/types/manifest"
	"github.com/regclient/regclient/types/ref"

	"verifharness/lib"
)

type Case struct {
	Kind   string // clean | join | extract | artifact | digestop | digest | import
	A, B   string `json:",omitempty"`
	Unpack bool   `json:",omitempty"`
	Strip  bool   `json:",omitempty"`
	Op     string `json:",omitempty"`
}

var comps = []string{"..", "..", ".", "", "a", "b", "etc", "passwd", "x y", "...", "..a", "a..", "a.b", "~", "-", strings.Repeat("L", 200)}

func hostilePath(r *lib.Rand) string {
	n := 1 + r.Intn(6)
	ps := make([]string, n)
	for i := range ps {
		ps[i] = lib.Pick(r, comps)
	}
	s := strings.Join(ps, "/")
	switch r.Intn(6) {
	case 0:
		s = "/" + s
	case 1:
		s = s + "/"
	case 2:
		s = "//" + s
	case 3:
		s = strings.ReplaceAll(s, "/", "\\")
	}
	if r.Chance(3) {
		s = s + "\x00x"
	}
	return s
}

func snapshot(root string) map[string]string {
	m := map[string]string{}
	_ = filepath.WalkDir(root, func(p string, d fs.DirEntry, err error) error {
		if err != nil {
			return nil
		}
		rel, _ := filepath.Rel(root, p)
		t := "f"
		if d.IsDir() {
			t = "d"
		} else if d.Type()&fs.ModeNamedPipe != 0 {
			t = "p"
		} else if d.Type()&fs.ModeSymlink != 0 {
			t = "l"
		} else if fi, e := d.Info(); e == nil {
			t = fmt.Sprintf("f%d", fi.Size())
		}
		m[rel] = t
		return nil
	})
	return m
}

// diffOutside lists paths that were created/changed/removed outside the allowed subtree
func diffOutside(before, after map[string]string, allowed string) (out []string, inside []string) {
	chk := func(p string) {
		if p == allowed || strings.HasPrefix(p, allowed+"/") {
			inside = append(inside, p)
		} else {
			out = append(out, p)
		}
	}
	for p, t := range after {
		if bt, ok := before[p]; !ok || bt != t {
			chk(p)
		}
	}
	for p := range before {
		if _, ok := after[p]; !ok {
			chk(p)
		}
	}
	sort.Strings(out)
	sort.Strings(inside)
	return
}

type env struct {
	guard, layout, regctl string
	rc                    *regclient.RegClient
	tagN                  int
}

func newEnv(o lib.Opts) *env {
	g := filepath.Join(o.Out, "guard")
	_ = os.RemoveAll(g)
	_ = os.MkdirAll(filepath.Join(g, "deep", "er", "out"), 0o755)
	_ = os.MkdirAll(filepath.Join(g, "home"), 0o755)
	e := &env{guard: g, layout: filepath.Join(g, "deep", "layout"), rc: regclient.New()}
	abs, _ := filepath.Abs(o.Out)
	e.guard, _ = filepath.Abs(g)
	e.layout = filepath.Join(e.guard, "deep", "layout")
	e.regctl = lib.FindBin(abs, "regctl")
	return e
}

func tgz(name, content string) []byte {
	var buf bytes.Buffer
	gz := gzip.NewWriter(&buf)
	tw := tar.NewWriter(gz)
	_ = tw.WriteHeader(&tar.Header{Name: name, Typeflag: tar.TypeReg, Mode: 0o644, Size: int64(len(content))})
	_, _ = tw.Write([]byte(content))
	_ = tw.Close()
	_ = gz.Close()
	return buf.Bytes()
}

// pushArtifact stores an artifact with one layer carrying the title (and unpack) annotation
func (e *env) pushArtifact(title string, unpack bool) (string, string, error) {
	ctx := context.Background()
	e.tagN++
	tag := fmt.Sprintf("t%d", e.tagN)
	r, err := ref.New("ocidir://" + e.layout + ":" + tag)
	if err != nil {
		return "", "", err
	}
	var body []byte
	if unpack || strings.HasSuffix(title, "/") {
		body = tgz("hello.txt", "hello "+tag)
	} else {
		body = []byte("content " + tag)
	}
	ld, err := e.rc.BlobPut(ctx, r, descriptor.Descriptor{}, bytes.NewReader(body))
	if err != nil {
		return "", "", err
	}
	cd, err := e.rc.BlobPut(ctx, r, descriptor.Descriptor{}, bytes.NewReader([]byte("{}")))
	if err != nil {
		return "", "", err
	}
	ann := map[string]string{}
	if title != "\x00none" {
		ann["org.opencontainers.image.title"] = title
	}
	if unpack {
		ann["io.deis.oras.content.unpack"] = "true"
	}
	mj := map[string]any{
		"schemaVersion": 2, "mediaType": "application/vnd.oci.image.manifest.v1+json", "artifactType": "application/vnd.example.test",
		"config": map[string]any{"mediaType": "application/vnd.oci.empty.v1+json", "digest": cd.Digest.String(), "size": cd.Size},
		"layers": []any{map[string]any{"mediaType": "application/octet-stream", "digest": ld.Digest.String(), "size": ld.Size, "annotations": ann}},
	}
	raw, _ := json.Marshal(mj)
	m, err := manifest.New(manifest.WithRaw(raw))
	if err != nil {
		return "", "", err
	}
	if err = e.rc.ManifestPut(ctx, r, m); err != nil {
		return "", "", err
	}
	return tag, ld.Digest.Encoded(), nil
}

func runCase(c Case, e *env, res *lib.Result) (ret string) {
	defer res.Recover(c)
	return runCaseRaw(c, e, res)
}

func runCaseRaw(c Case, e *env, res *lib.Result) string {
	ctx, cancel := context.WithTimeout(context.Background(), 20*time.Second)
	defer cancel()
	switch c.Kind {
	case "clean":
		res.Count("clean")
		return fmt.Sprintf("CClean %s %s", lib.CoqStr(c.A), lib.CoqStr(path.Clean(c.A)))
	case "join":
		res.Count("join")
		return fmt.Sprintf("CJoin %s %s %s", lib.CoqStr(c.A), lib.CoqStr(c.B), lib.CoqStr(filepath.Join(c.A, c.B)))
	case "digest":
		err := digest.Digest(c.A).Validate()
		res.Count(fmt.Sprintf("digest:valid=%v", err == nil))
		return fmt.Sprintf("CDigest %s %s", lib.CoqStr(c.A), lib.CoqBool(err == nil))
	case "extract":
		// one directory entry named c.A (observable: the directory that appears), plus hostile companions
		out := filepath.Join(e.guard, "deep", "er", "out")
		_ = os.RemoveAll(out)
		_ = os.MkdirAll(out, 0o755)
		var buf bytes.Buffer
		tw := tar.NewWriter(&buf)
		werr := tw.WriteHeader(&tar.Header{Name: c.A, Typeflag: tar.TypeDir, Mode: 0o755})
		if werr == nil && c.B != "" {
			_ = tw.WriteHeader(&tar.Header{Name: c.A + "/lnk", Typeflag: tar.TypeSymlink, Linkname: c.B, Mode: 0o777})
			_ = tw.WriteHeader(&tar.Header{Name: c.A + "/hard", Typeflag: tar.TypeLink, Linkname: c.B, Mode: 0o777})
			_ = tw.WriteHeader(&tar.Header{Name: c.A + "/lnk/f.txt", Typeflag: tar.TypeReg, Mode: 0o644, Size: 2})
			_, _ = tw.Write([]byte("hi"))
			_ = tw.WriteHeader(&tar.Header{Name: c.B, Typeflag: tar.TypeReg, Mode: 0o644, Size: 2})
			_, _ = tw.Write([]byte("hi"))
		}
		_ = tw.Close()
		if werr != nil {
			res.Count("extract:unwritable-name")
			return ""
		}
		before := snapshot(e.guard)
		err := archive.Extract(ctx, out, bytes.NewReader(buf.Bytes()))
		after := snapshot(e.guard)
		outside, inside := diffOutside(before, after, "deep/er/out")
		if len(outside) > 0 {
			res.Fail("extract-writes-outside", fmt.Sprintf("archive.Extract of entry %q (+link %q) changed %v outside the output directory", c.A, c.B, outside), c)
		}
		for _, p := range inside {
			if after[p] == "l" {
				res.Fail("extract-materialised-link", fmt.Sprintf("archive.Extract created a link %s", p), c)
			}
		}
		res.Count(fmt.Sprintf("extract:err=%v", err != nil))
		// deepest directory created by the first entry
		want := filepath.Join(out, filepath.Clean("/"+c.A))
		if fi, serr := os.Stat(want); serr != nil || !fi.IsDir() {
			if err == nil {
				res.Fail("extract-dir-missing", fmt.Sprintf("entry %q: expected directory %s", c.A, want), c)
			}
			return ""
		}
		return fmt.Sprintf("CExtract %s %s %s", lib.CoqStr(out), lib.CoqStr(c.A), lib.CoqStr(want))
	case "import":
		return runImport(ctx, c, e, res)
	case "artifact":
		title := c.A
		tag, enc, err := e.pushArtifact(title, c.Unpack)
		if err != nil {
			res.Count("artifact:push-error")
			return ""
		}
		if title == "\x00none" {
			title = ""
		}
		out := filepath.Join(e.guard, "deep", "er", "out")
		_ = os.RemoveAll(out)
		_ = os.MkdirAll(out, 0o755)
		before := snapshot(e.guard)
		args := []string{"artifact", "get", "ocidir://" + e.layout + ":" + tag, "-o", out}
		if c.Strip {
			args = append(args, "--strip-dirs")
		}
		cmd := exec.CommandContext(ctx, e.regctl, args...)
		cmd.Env = append(os.Environ(), "HOME="+filepath.Join(e.guard, "home"))
		cmd.Dir = filepath.Join(e.guard, "deep", "er")
		outb, rerr := cmd.CombinedOutput()
		after := snapshot(e.guard)
		outside, inside := diffOutside(before, after, "deep/er/out")
		var real []string
		for _, p := range outside {
			if !strings.HasPrefix(p, "home") && !strings.HasPrefix(p, "deep/layout") {
				real = append(real, p)
			}
		}
		if len(real) > 0 {
			res.Fail("artifact-writes-outside", fmt.Sprintf("regctl artifact get with title %q (strip=%v unpack=%v) changed %v outside the output directory", title, c.Strip, c.Unpack, real), c)
		}
		if rerr != nil {
			res.Count("artifact:cli-error")
			_ = outb
			return ""
		}
		res.Count(fmt.Sprintf("artifact:ok strip=%v unpack=%v", c.Strip, c.Unpack))
		// observed target: the new regular file, or for unpack the directory holding hello.txt
		target := ""
		for _, p := range inside {
			if strings.HasPrefix(after[p], "f") {
				full := filepath.Join(e.guard, p)
				if c.Unpack || strings.HasSuffix(title, "/") {
					if filepath.Base(full) == "hello.txt" {
						target = filepath.Dir(full)
					}
				} else {
					target = full
				}
			}
		}
		if target == "" {
			return ""
		}
		return fmt.Sprintf("CArtifact %s %s %s %s %s %s", lib.CoqStr(out), lib.CoqStr(title), lib.CoqStr(enc), lib.CoqBool(c.Unpack), lib.CoqBool(c.Strip), lib.CoqStr(target))
	case "digestop":
		return runDigestOp(ctx, c, e, res)
	}
	return ""
}

// runImport: ImageImport of a hand-made archive into a layout inside the guard directory.  The archive is an OCI layout
// whose index.json names a manifest by the hostile digest c.A (when it has the digest form) and which carries entries
// with the hostile name c.B as a file, as a directory, behind a symlink and as a link target.  Whatever the import
// answers, nothing outside the target layout may appear, change or be read.
func runImport(ctx context.Context, c Case, e *env, res *lib.Result) string {
	trap := filepath.Join(e.guard, "deep", "trap")
	victim := filepath.Join(e.guard, "deep", "victim")
	_ = os.Remove(trap)
	_ = syscall.Mkfifo(trap, 0o644)
	_ = os.WriteFile(victim, []byte("do not touch"), 0o644)
	tgt := filepath.Join(e.guard, "deep", "imp")
	_ = os.RemoveAll(tgt)
	layer := []byte("layer-bytes")
	cfg := []byte(`{"architecture":"amd64","os":"linux","rootfs":{"type":"layers","diff_ids":[]}}`)
	dg := func(b []byte) string { return digest.FromBytes(b).String() }
	man, _ := json.Marshal(map[string]any{"schemaVersion": 2, "mediaType": "application/vnd.oci.image.manifest.v1+json",
		"config": map[string]any{"mediaType": "application/vnd.oci.image.config.v1+json", "digest": dg(cfg), "size": len(cfg)},
		"layers": []any{map[string]any{"mediaType": "application/vnd.oci.image.layer.v1.tar", "digest": dg(layer), "size": len(layer)}}})
	manDig := dg(man)
	entryDig := manDig
	if strings.Contains(c.A, ":") {
		entryDig = c.A // the index names the image by a hostile digest
	}
	idx, _ := json.Marshal(map[string]any{"schemaVersion": 2, "mediaType": "application/vnd.oci.image.index.v1+json",
		"manifests": []any{map[string]any{"mediaType": "application/vnd.oci.image.manifest.v1+json", "digest": entryDig, "size": len(man),
			"annotations": map[string]string{"org.opencontainers.image.ref.name": "v1"}}}})
	var buf bytes.Buffer
	tw := tar.NewWriter(&buf)
	file := func(name string, b []byte) {
		if tw.WriteHeader(&tar.Header{Name: name, Typeflag: tar.TypeReg, Mode: 0o644, Size: int64(len(b))}) == nil {
			_, _ = tw.Write(b)
		}
	}
	file("oci-layout", []byte(`{"imageLayoutVersion":"1.0.0"}`))
	file("index.json", idx)
	path := func(d string) string { return "blobs/" + strings.Replace(d, ":", "/", 1) }
	if c.B != "" {
		_ = tw.WriteHeader(&tar.Header{Name: c.B, Typeflag: tar.TypeDir, Mode: 0o755})
		file(c.B, []byte("hostile entry"))
		_ = tw.WriteHeader(&tar.Header{Name: "blobs/lnk", Typeflag: tar.TypeSymlink, Linkname: c.B, Mode: 0o777})
		file("blobs/lnk/x", []byte("through a link"))
		_ = tw.WriteHeader(&tar.Header{Name: path(dg(layer)), Typeflag: tar.TypeSymlink, Linkname: c.B, Mode: 0o777})
	}
	file(path(entryDig), man)
	file(path(manDig), man)
	file(path(dg(cfg)), cfg)
	file(path(dg(layer)), layer)
	_ = tw.Close()
	r, err := ref.New("ocidir://" + tgt + ":v1")
	if err != nil {
		return ""
	}
	before := snapshot(e.guard)
	done := make(chan error, 1)
	go func() {
		defer func() {
			if p := recover(); p != nil {
				done <- fmt.Errorf("panic: %v", p)
			}
		}()
		done <- e.rc.ImageImport(ctx, r, bytes.NewReader(buf.Bytes()))
	}()
	var ierr error
	select {
	case ierr = <-done:
	case <-time.After(10 * time.Second):
		res.Fail("import-did-not-terminate", fmt.Sprintf("ImageImport with index digest %q and entry %q still running after 10s", c.A, c.B), c)
		return ""
	}
	if ierr != nil && strings.HasPrefix(ierr.Error(), "panic:") {
		res.Fail("implementation-panicked", fmt.Sprintf("ImageImport with index digest %q and entry %q: %v", c.A, c.B, ierr), c)
	}
	if f, oerr := os.OpenFile(trap, os.O_WRONLY|syscall.O_NONBLOCK, 0); oerr == nil {
		_ = f.Close()
		res.Fail("import-reads-outside", fmt.Sprintf("ImageImport with index digest %q and entry %q opened a file outside the layout", c.A, c.B), c)
	}
	_ = e.rc.Close(ctx, r)
	after := snapshot(e.guard)
	outside, _ := diffOutside(before, after, "deep/imp")
	if len(outside) > 0 {
		res.Fail("import-writes-outside", fmt.Sprintf("ImageImport with index digest %q and entry %q changed %v outside the target layout", c.A, c.B, outside), c)
	}
	if b, rerr := os.ReadFile(victim); rerr != nil || string(b) != "do not touch" {
		res.Fail("import-writes-outside", fmt.Sprintf("ImageImport with index digest %q and entry %q damaged a file outside the layout", c.A, c.B), c)
	}
	res.Count(fmt.Sprintf("import:err=%v", ierr != nil))
	return ""
}

// runDigestOp: layout operation c.Op with hostile digest c.A.  guard/deep/trap is a FIFO (a reader
// opening it is detected by a non-blocking writer open succeeding), guard/deep/victim a regular file.
func runDigestOp(ctx context.Context, c Case, e *env, res *lib.Result) string {
	if !strings.Contains(c.A, ":") {
		return ""
	}
	trap := filepath.Join(e.guard, "deep", "trap")
	victim := filepath.Join(e.guard, "deep", "victim")
	_ = os.Remove(trap)
	_ = syscall.Mkfifo(trap, 0o644)
	_ = os.WriteFile(victim, []byte("do not touch"), 0o644)
	// make sure the layout exists and has content
	if _, err := os.Stat(filepath.Join(e.layout, "index.json")); err != nil {
		if _, _, err := e.pushArtifact("seed.txt", false); err != nil {
			return ""
		}
	}
	rTag, _ := ref.New("ocidir://" + e.layout + ":t1")
	rDig := rTag.SetDigest(c.A)
	d := descriptor.Descriptor{Digest: digest.Digest(c.A), Size: 4, MediaType: "application/octet-stream"}
	before := snapshot(e.guard)
	done := make(chan string, 1)
	go func() {
		defer func() {
			if p := recover(); p != nil {
				done <- fmt.Sprintf("panic: %v", p)
			}
		}()
		var err error
		switch c.Op {
		case "BlobGet":
			var rd io.ReadCloser
			rd, err = e.rc.BlobGet(ctx, rTag, d)
			if err == nil {
				_, _ = io.Copy(io.Discard, rd)
				_ = rd.Close()
			}
		case "BlobHead":
			var rd io.ReadCloser
			rd, err = e.rc.BlobHead(ctx, rTag, d)
			if err == nil {
				_ = rd.Close()
			}
		case "BlobDelete":
			err = e.rc.BlobDelete(ctx, rTag, d)
		case "BlobPut":
			_, err = e.rc.BlobPut(ctx, rTag, d, strings.NewReader("data"))
		case "ManifestGet":
			_, err = e.rc.ManifestGet(ctx, rDig)
		case "ManifestHead":
			_, err = e.rc.ManifestHead(ctx, rDig)
		case "ManifestDelete":
			err = e.rc.ManifestDelete(ctx, rDig)
		case "ManifestDeleteWithManifest":
			var m manifest.Manifest
			m, err = e.rc.ManifestGet(ctx, rTag)
			if err == nil {
				err = e.rc.ManifestDelete(ctx, rDig, regclient.WithManifest(m))
			}
		case "ManifestPutChild":
			var m manifest.Manifest
			m, err = e.rc.ManifestGet(ctx, rTag)
			if err == nil {
				err = e.rc.ManifestPut(ctx, rDig, m, regclient.WithManifestChild())
			}
		}
		if err != nil {
			done <- "err"
		} else {
			done <- "ok"
		}
	}()
	readEscape := false
	outcome := ""
	deadline := time.After(3 * time.Second)
poll:
	for {
		select {
		case outcome = <-done:
			break poll
		case <-deadline:
			outcome = "timeout"
			break poll
		default:
			fd, err := syscall.Open(trap, syscall.O_WRONLY|syscall.O_NONBLOCK, 0)
			if err == nil {
				readEscape = true
				_ = syscall.Close(fd)
			}
			time.Sleep(200 * time.Microsecond)
		}
	}
	if outcome == "timeout" || readEscape {
		// release a blocked reader
		for i := 0; i < 50; i++ {
			fd, err := syscall.Open(trap, syscall.O_WRONLY|syscall.O_NONBLOCK, 0)
			if err == nil {
				readEscape = true
				_ = syscall.Close(fd)
			}
			select {
			case outcome = <-done:
				i = 100
			default:
				time.Sleep(2 * time.Millisecond)
			}
		}
	}
	after := snapshot(e.guard)
	outside, _ := diffOutside(before, after, "deep/layout")
	res.Count("digestop:" + c.Op + ":" + strings.SplitN(outcome, ":", 2)[0])
	if readEscape {
		res.Fail("layout-read-escapes op="+c.Op, fmt.Sprintf("%s with digest %q opened a file outside the layout directory", c.Op, c.A), c)
	}
	if len(outside) > 0 {
		res.Fail("layout-write-escapes op="+c.Op, fmt.Sprintf("%s with digest %q changed %v outside the layout directory", c.Op, c.A, outside), c)
	}
	return ""
}

var digestOps = []string{"BlobGet", "BlobHead", "BlobDelete", "BlobPut", "ManifestGet", "ManifestHead", "ManifestDelete", "ManifestDeleteWithManifest", "ManifestPutChild"}

func hostileDigest(r *lib.Rand) string {
	hex := strings.Repeat("ab", 32)
	return lib.Pick(r, []string{
		"sha256:../../../trap", "sha256:../../../victim", "sha256:../../trap", "sha256:../../../../deep/victim", "../../deep:victim",
		"sha256:/etc/hostname", "sha256:" + hex + "/../../../../trap", "sha256/../..:trap", "sha256:..", "sha256:.", "sha256:",
		"sha256:" + hex, "sha512:" + hex + hex, "sha384:" + hex + hex[:32], "sha256:" + strings.ToUpper(hex), "sha256:" + hex[:63], "sha256:" + hex + "0",
		"md5:" + hex[:32], "sha256:" + hex[:62] + "/.", "SHA256:" + hex, "sha256::" + hex, ":" + hex, "sha512:" + hex,
	})
}

func Run(o lib.Opts) {
	res := lib.NewResult("C20", o.Tier, o.Seed)
	res.Rule = "one splitmix64 stream: hostile path strings (.., ., empty and long components, absolute, doubled and back slashes, NUL) for path.Clean / filepath.Join; tar archives with a hostile directory entry plus symlink/hardlink/file companions for archive.Extract; artifacts with hostile title annotations fetched by the real `regctl artifact get` (with/without --strip-dirs, unpack); every layout operation taking a digest with hostile digests (FIFO trap detects reads, victim file detects deletes); ImageImport of hand-made archives into a layout (index naming the image by a hostile digest; entries with hostile names as file, directory, symlink target and behind a symlink); digest.Validate; non-trivial = input containing '..' or an absolute path; distinct by case"
	e := newEnv(o)
	if o.Replay != "" {
		var f struct{ Case Case }
		b, err := os.ReadFile(o.Replay)
		if err == nil {
			err = json.Unmarshal(b, &f)
		}
		if err != nil {
			fmt.Println("replay:", err)
			os.Exit(2)
		}
		o.Out = filepath.Join(filepath.Dir(o.Replay), "replay-work")
		_ = os.MkdirAll(o.Out, 0o755)
		e = newEnv(o)
		ra, _ := filepath.Abs(o.Replay)
		e.regctl = filepath.Join(filepath.Dir(filepath.Dir(ra)), "bin", "regctl")
		runCase(f.Case, e, res)
		for _, fl := range res.Failures {
			fmt.Printf("REPLAY-FAIL %s: %s\n", fl.Sig, fl.Desc)
		}
		if len(res.Failures) == 0 {
			fmt.Println("REPLAY-OK")
		}
		return
	}
	r := lib.NewRand(o.Seed)
	nPure := o.Scale(2500, 60000)
	nExtract := o.Scale(250, 5000)
	nArt := o.Scale(120, 1500)
	var all []Case
	for _, s := range []string{"", "/", "..", "../..", "/..", "a/../..", "/a/../../b", "a//b/", ".", "./", "/.", "a/./b", "../../etc/passwd"} {
		all = append(all, Case{Kind: "clean", A: s}, Case{Kind: "join", A: "out", B: s}, Case{Kind: "extract", A: s, B: "../../victim"})
	}
	for _, t := range []string{"../../x", "/etc/x", "a/b/c.txt", "dir/", "../dir/", "..\\..\\x", "\x00none", "", ".", "..", "a/../../b", "x/"} {
		for _, st := range []bool{false, true} {
			all = append(all, Case{Kind: "artifact", A: t, Strip: st}, Case{Kind: "artifact", A: t, Strip: st, Unpack: true})
		}
	}
	for _, op := range digestOps {
		for _, d := range []string{"sha256:../../../trap", "sha256:../../../victim", "sha256:../../trap"} {
			all = append(all, Case{Kind: "digestop", Op: op, A: d})
		}
	}
	for _, d := range []string{"", "sha256:../../../trap", "sha256:../../../victim", "sha256:../../victim", "../../victim"} {
		for _, b := range []string{"", "../../victim", "../victim", "/tmp/c20-abs-victim", "blobs/sha256/../../../victim", "../trap"} {
			all = append(all, Case{Kind: "import", A: d, B: b})
		}
	}
	for i := 0; i < o.Scale(80, 1500); i++ {
		d := ""
		if r.Chance(50) {
			d = hostileDigest(r)
		}
		all = append(all, Case{Kind: "import", A: d, B: hostilePath(r)})
	}
	for i := 0; i < nPure; i++ {
		switch r.Intn(5) {
		case 0, 1:
			all = append(all, Case{Kind: "clean", A: hostilePath(r)})
		case 2, 3:
			a := lib.Pick(r, []string{"out", "/abs/out", "./rel", "a/../out", "", "out/"})
			all = append(all, Case{Kind: "join", A: a, B: hostilePath(r)})
		case 4:
			all = append(all, Case{Kind: "digest", A: hostileDigest(r)})
		}
	}
	for i := 0; i < nExtract; i++ {
		b := ""
		if r.Chance(60) {
			b = hostilePath(r)
		}
		all = append(all, Case{Kind: "extract", A: hostilePath(r), B: b})
	}
	for i := 0; i < nArt; i++ {
		all = append(all, Case{Kind: "artifact", A: hostilePath(r), Strip: r.Bool(), Unpack: r.Chance(30)})
	}
	for i := 0; i < o.Scale(150, 3000); i++ {
		all = append(all, Case{Kind: "digestop", Op: lib.Pick(r, digestOps), A: hostileDigest(r)})
	}
	cw := lib.NewCaseWriter(o.Out, "C20", "From Coq Require Import List String NArith.\nFrom Verif Require Import Base.StrX Corr.C20.\nImport ListNotations. Open Scope string_scope.", "case", 2000)
	seen := lib.Set{}
	for _, c := range all {
		res.Evaluations++
		kb, _ := json.Marshal(c)
		k := string(kb)
		if _, dup := seen[k]; !dup && (strings.Contains(c.A+c.B, "..") || strings.HasPrefix(c.A, "/") || strings.HasPrefix(c.B, "/")) {
			res.Distinct++
		}
		seen.Add(k)
		term := runCase(c, e, res)
		if o.Mode != "search" && term != "" {
			cw.Add(term, c)
		}
		if c.Kind != "clean" && c.Kind != "join" {
			res.Sample(c, 6)
		}
	}
	cw.Close(res)
	_ = os.RemoveAll(e.guard)
	lib.WriteResult(o.Out, res)
}
