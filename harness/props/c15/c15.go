// Package c15: image reference parsing — drives types/ref.
package c15

import (
	"encoding/json"
	"fmt"
	"os"
	"regexp"
	"strings"

	"github.com/regclient/regclient/types/ref"

	"verifharness/lib"
)

type Case struct {
	Kind   string // parse | set
	Str    string
	NewTag string `json:",omitempty"`
	NewDig string `json:",omitempty"`
}

var (
	hosts = []string{"", "", "docker.io", "index.docker.io", "registry-1.docker.io", "localhost", "localhost:5000", "example.com", "example.com:443",
		"reg.example.com.", "host.", "single", "Upper", "upPer-x", "a-B", "1.2.3.4", "1.2.3.4:80", "host:port", "ex_ample.com", "-bad.com", "bad-.com", "quay.io", "gcr.io:5000", "LOCALHOST", "x.Y", "a..b", "host:", "A", "aB", "a-", "localhost:",
		// look-alikes of the Docker Hub names and of localhost: only the exact names are aliases
		"mydocker.io", "lab-docker.io", "mirror.docker.io", "docker.io.example.com", "xdocker.io:5000", "index.docker.io.", "docker.io:443", "mylocalhost", "localhost.example.com"}
	repoParts = []string{"alpine", "library", "a", "a.b", "a_b", "a__b", "a-b", "a---b", "a___b", "a..b", "a._b", "Upper", "has space", "0", "localhost", "x-", "-x", "", "ab12", "a_.b", "a-_b"}
	tags      = []string{"", "", "latest", "v1", "1.0.0", "_x", ".hidden", "-rc1", "a.b-c_d", "bad!tag", "5000", "A", strings.Repeat("t", 128), strings.Repeat("t", 129), "a:b", "a/b", "."}
	hex64     = "0123456789abcdef0123456789abcdef0123456789abcdef0123456789abcdef"
	digests   = []string{"", "", "", "sha256:" + hex64, "sha512:" + hex64 + hex64, "sha256:" + hex64[:32], "sha256:" + hex64[:31], "sha256:" + strings.ToUpper(hex64),
		"SHA256:" + hex64, "sha256+b64:" + hex64, "sha-256.x:" + hex64, "sha256:", "sha256:xyz" + hex64, "1sha:" + hex64, "sha256-:" + hex64, "sha256:" + hex64 + "@sha256:" + hex64, "md5:" + hex64[:32], hex64}
	paths   = []string{"./dir", "/abs/path", "rel/dir", "..", "../up", "a b/c", "dir.with.dots", "~/home", "a+b", "", "bad|char", "dir:", "UPPER/x", "a\tb", ".", "/", "x//y"}
	schemes = []string{"ocidir", "ocidir", "ocifile", "reg", "http", "OCIDIR", "oci-dir", "", "x"}
)

func genStr(r *lib.Rand) string {
	switch k := r.Intn(100); {
	case k < 55: // registry grammar
		var sb strings.Builder
		h := lib.Pick(r, hosts[:18])
		if r.Chance(15) {
			h = lib.Pick(r, hosts)
		}
		if h != "" {
			sb.WriteString(h + "/")
		}
		n := 1 + r.Intn(3)
		ps := make([]string, n)
		for i := range ps {
			ps[i] = lib.Pick(r, repoParts[:7])
			if r.Chance(10) {
				ps[i] = lib.Pick(r, repoParts)
			}
		}
		sb.WriteString(strings.Join(ps, "/"))
		t := lib.Pick(r, tags[:6])
		if r.Chance(20) {
			t = lib.Pick(r, tags)
		}
		if t != "" {
			sb.WriteString(":" + t)
		}
		d := lib.Pick(r, digests[:5])
		if r.Chance(20) {
			d = lib.Pick(r, digests)
		}
		if d != "" {
			sb.WriteString("@" + d)
		}
		s := sb.String()
		if r.Chance(4) {
			s = "reg://" + s
		}
		return s
	case k < 75: // layout grammar
		s := lib.Pick(r, schemes[:3]) + "://" + lib.Pick(r, paths[:9])
		if r.Chance(25) {
			s = lib.Pick(r, schemes) + "://" + lib.Pick(r, paths)
		}
		t := lib.Pick(r, tags[:6])
		if r.Chance(20) {
			t = lib.Pick(r, tags)
		}
		if t != "" {
			s += ":" + t
		}
		d := lib.Pick(r, digests[:5])
		if r.Chance(20) {
			d = lib.Pick(r, digests)
		}
		if d != "" {
			s += "@" + d
		}
		return s
	case k < 90: // mutation of a valid reference: delete / duplicate / replace one byte
		base := lib.Pick(r, []string{"example.com:5000/ns/repo:tag@sha256:" + hex64, "localhost/repo:v1", "alpine", "ocidir://path/to/dir:tag", "docker.io/library/alpine:latest", "a.b/c_d/e-f:1"})
		b := []byte(base)
		i := r.Intn(len(b))
		switch r.Intn(4) {
		case 0:
			b = append(b[:i], b[i+1:]...)
		case 1:
			b = append(b[:i+1], b[i:]...)
		case 2:
			b[i] = lib.Pick(r, []byte("/:@._- A\n\x00\xff#?"))
		case 3:
			b = append(b[:i], append([]byte{lib.Pick(r, []byte("/:@._- A\n"))}, b[i:]...)...)
		}
		return string(b)
	default: // arbitrary bytes, short
		n := r.Intn(12)
		b := make([]byte, n)
		for i := range b {
			if r.Chance(70) {
				b[i] = lib.Pick(r, []byte("abcAB019/:@._-+ ~"))
			} else {
				b[i] = byte(r.U64())
			}
		}
		return string(b)
	}
}

// hostShape: labels of letters, digits and inner hyphens joined by dots, optionally a port - what only a host name can be
var hostShape = regexp.MustCompile(`^[A-Za-z0-9]([A-Za-z0-9-]*[A-Za-z0-9])?(\.[A-Za-z0-9]([A-Za-z0-9-]*[A-Za-z0-9])?)*(:[0-9]+)?$`)

func sameComponents(a, b ref.Ref) bool {
	return a.Scheme == b.Scheme && a.Registry == b.Registry && a.Repository == b.Repository && a.Tag == b.Tag && a.Digest == b.Digest && a.Path == b.Path
}

func runCase(c Case, res *lib.Result) (ret string) {
	defer res.Recover(c)
	return runCaseRaw(c, res)
}

func runCaseRaw(c Case, res *lib.Result) string {
	r0, err := ref.New(c.Str)
	switch c.Kind {
	case "parse":
		if err != nil {
			res.Count("parse:reject")
			return fmt.Sprintf("CParse %s None", lib.CoqStr(c.Str))
		}
		res.Count("parse:accept:" + r0.Scheme)
		cn := r0.CommonName()
		// oracle: print and re-parse gives the same components
		r1, err1 := ref.New(cn)
		if err1 != nil || !sameComponents(r0, r1) {
			sig := "roundtrip-changes-components scheme=" + r0.Scheme
			res.Fail(sig, fmt.Sprintf("New(%q)=%+v; CommonName %q re-parses to %+v (err %v)", c.Str, r0, cn, r1, err1), c)
		}
		// oracle: a string with a scheme separator is accepted only under the scheme it spells, and only a known one
		if i := strings.Index(c.Str, "://"); i >= 0 {
			sch := c.Str[:i]
			if sch != r0.Scheme || (sch != "reg" && sch != "ocidir" && sch != "ocifile") {
				res.Fail("accepted-malformed-scheme", fmt.Sprintf("New(%q) was accepted with scheme %q although the text spells scheme %q", c.Str, r0.Scheme, sch), c)
			}
		}
		// oracle: a first component that can only be a host name (it contains '.' or ':') is the registry, not reinterpreted
		if r0.Scheme == "reg" && !strings.Contains(c.Str, "://") {
			if i := strings.IndexByte(c.Str, '/'); i > 0 {
				c0 := c.Str[:i]
				if strings.ContainsAny(c0, ".:") && hostShape.MatchString(c0) {
					want := c0
					if c0 == "index.docker.io" || c0 == "registry-1.docker.io" {
						want = "docker.io"
					}
					if r0.Registry != want {
						res.Fail("registry-reinterpreted", fmt.Sprintf("New(%q) names registry %q in its first component but was accepted with registry %q, repository %q", c.Str, c0, r0.Registry, r0.Repository), c)
					}
				}
			}
		}
		// oracle: accepted references obey the grammar's rejections
		if r0.Scheme == "reg" {
			if r0.Repository != strings.ToLower(r0.Repository) || r0.Repository == "" || strings.Contains(r0.Repository, "//") ||
				strings.HasPrefix(r0.Repository, "/") || strings.HasSuffix(r0.Repository, "/") {
				res.Fail("accepted-malformed-repository", fmt.Sprintf("New(%q) accepted repository %q", c.Str, r0.Repository), c)
			}
		}
		if r0.Tag != "" {
			t := r0.Tag
			okFirst := t[0] == '_' || (t[0] >= '0' && t[0] <= '9') || (t[0] >= 'a' && t[0] <= 'z') || (t[0] >= 'A' && t[0] <= 'Z')
			if len(t) > 128 || !okFirst || strings.ContainsAny(t, "/:@ !") {
				res.Fail("accepted-malformed-tag", fmt.Sprintf("New(%q) accepted tag %q", c.Str, t), c)
			}
		}
		if r0.Digest != "" {
			i := strings.IndexByte(r0.Digest, ':')
			if i < 1 || len(r0.Digest)-i-1 < 32 {
				res.Fail("accepted-malformed-digest", fmt.Sprintf("New(%q) accepted digest %q", c.Str, r0.Digest), c)
			}
		}
		if r0.Scheme != "reg" && r0.Scheme != "ocidir" && r0.Scheme != "ocifile" {
			res.Fail("accepted-unknown-scheme scheme="+r0.Scheme, fmt.Sprintf("New(%q) accepted scheme %q", c.Str, r0.Scheme), c)
		}
		return fmt.Sprintf("CParse %s (Some (mkObs %s %s %s %s %s %s %s))", lib.CoqStr(c.Str), lib.CoqStr(r0.Scheme), lib.CoqStr(r0.Registry),
			lib.CoqStr(r0.Repository), lib.CoqStr(r0.Tag), lib.CoqStr(r0.Digest), lib.CoqStr(r0.Path), lib.CoqStr(cn))
	case "set":
		if err != nil {
			return ""
		}
		res.Count("set")
		a, b, d := r0.SetTag(c.NewTag), r0.SetDigest(c.NewDig), r0.AddDigest(c.NewDig)
		frame := func(x ref.Ref) bool {
			return x.Scheme == r0.Scheme && x.Registry == r0.Registry && x.Repository == r0.Repository && x.Path == r0.Path
		}
		if !frame(a) || !frame(b) || !frame(d) || a.Tag != c.NewTag || a.Digest != "" || b.Digest != c.NewDig || b.Tag != "" || d.Tag != r0.Tag || d.Digest != c.NewDig {
			res.Fail("set-changes-other-components", fmt.Sprintf("%q: SetTag/SetDigest/AddDigest altered other components", c.Str), c)
		}
		return fmt.Sprintf("CSet %s %s %s %s %s %s", lib.CoqStr(c.Str), lib.CoqStr(c.NewTag), lib.CoqStr(c.NewDig), lib.CoqStr(a.CommonName()), lib.CoqStr(b.CommonName()), lib.CoqStr(d.CommonName()))
	}
	return ""
}

func Run(o lib.Opts) {
	res := lib.NewResult("C15", o.Tier, o.Seed)
	res.Rule = "strings from one splitmix64 stream: 55% registry grammar (host forms incl. ports, IPv4, localhost, single-label, upper-case, trailing dots; 1-3 repository components incl. separators; tags incl. length 128/129; sha256/sha512/other digests incl. short hex), 20% layout grammar with all schemes, 15% single-byte mutations of valid references, 10% short arbitrary byte strings; plus SetTag/SetDigest/AddDigest on accepted ones; non-trivial = string containing a '/' or ':'; distinct by string"
	if o.Replay != "" {
		var f struct{ Case Case }
		b, err := os.ReadFile(o.Replay)
		if err == nil {
			err = json.Unmarshal(b, &f)
		}
		if err != nil {
			fmt.Println("replay:", err)
			os.Exit(2)
		}
		runCase(f.Case, res)
		for _, fl := range res.Failures {
			fmt.Printf("REPLAY-FAIL %s: %s\n", fl.Sig, fl.Desc)
		}
		if len(res.Failures) == 0 {
			fmt.Println("REPLAY-OK")
		}
		return
	}
	r := lib.NewRand(o.Seed)
	n := o.Scale(5000, 200000)
	cw := lib.NewCaseWriter(o.Out, "C15", "From Coq Require Import List String NArith.\nFrom Verif Require Import Base.StrX Corr.C15.\nImport ListNotations. Open Scope string_scope.", "case", 2500)
	seen := lib.Set{}
	fixed := []string{"alpine", "localhost:5000", "localhost/x", "LOCALHOST/x", "index.docker.io/alpine", "registry-1.docker.io/alpine", "docker.io/alpine", "a.b/c", "ocidir://d:t", "ocifile://p:v1",
		"image:.hidden", "image:-rc1", "ocidir://path/to/dir:.hidden", "http://x/y", "host:5000/r:t@sha256:" + hex64, "r@sha256:" + hex64[:31], "Repo", "a//b", "a/", "/a", "r:" + strings.Repeat("t", 128), "r:" + strings.Repeat("t", 129)}
	var all []Case
	for _, s := range fixed {
		all = append(all, Case{Kind: "parse", Str: s})
	}
	for i := 0; i < n; i++ {
		s := genStr(r)
		all = append(all, Case{Kind: "parse", Str: s})
		if r.Chance(10) {
			all = append(all, Case{Kind: "set", Str: s, NewTag: lib.Pick(r, tags), NewDig: lib.Pick(r, digests)})
		}
	}
	for _, c := range all {
		res.Evaluations++
		k := c.Kind + "\x00" + c.Str + "\x00" + c.NewTag + c.NewDig
		if _, dup := seen[k]; !dup && strings.ContainsAny(c.Str, "/:") {
			res.Distinct++
		}
		seen.Add(k)
		term := runCase(c, res)
		if o.Mode != "search" && term != "" {
			cw.Add(term, c)
		}
		res.Sample(c, 5)
	}
	cw.Close(res)
	lib.WriteResult(o.Out, res)
}
