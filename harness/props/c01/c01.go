// Package c01: blob reads never complete cleanly on mismatching content.
// (A) types/blob.NewReader over a scripted io.Reader, compared read-by-read with the Coq model;
// (B) RegClient.BlobGet against a scripted registry (mid-body drops, range resumes, wrong ranges), an OCI
//
//	layout with corrupted files and inline descriptor data: property oracle on the bytes delivered.
package c01

import (
	"bytes"
	"context"
	"crypto/sha256"
	"crypto/sha512"
	"encoding/json"
	"errors"
	"fmt"
	"io"
	"net/http"
	"os"
	"path/filepath"
	"strconv"
	"strings"
	"time"

	"github.com/opencontainers/go-digest"
	"github.com/regclient/regclient"
	"github.com/regclient/regclient/config"
	"github.com/regclient/regclient/scheme/reg"
	"github.com/regclient/regclient/types/blob"
	"github.com/regclient/regclient/types/descriptor"
	"github.com/regclient/regclient/types/errs"
	"github.com/regclient/regclient/types/ref"

	"verifharness/lib"
	"verifharness/memrt"
)

type Step struct {
	B  []byte
	Ev int // 0 nil, 1 io.EOF, 2 other error
}
type Op struct {
	N    int  // read buffer size; -1 = Seek(0, SeekStart)
	Seek bool `json:",omitempty"`
}
type Case struct {
	Kind     string // script | reg | ocidir | inline
	Content  []byte // what the descriptor's digest names (when DigKind != none)
	Size     int64
	DigKind  string // sha256 | sha512 | none | wrong
	Script   []Step `json:",omitempty"`
	Seekable bool   `json:",omitempty"`
	Ops      []Op   `json:",omitempty"`
	Hdr      bool   `json:",omitempty"` // response headers passed to NewReader / sent by the registry
	HdrCL    string `json:",omitempty"` // Content-Length header value
	HdrDig   string `json:",omitempty"` // Docker-Content-Digest: served | good | junk | none
	// reg / ocidir / inline
	Served  []byte `json:",omitempty"` // what the server / file / data field holds
	Attempt []Att  `json:",omitempty"`
	Bufs    []int  `json:",omitempty"`
	Rewind  bool   `json:",omitempty"`
}
type Att struct {
	DropAt     int  // -1: no drop
	UseGood    bool // serve Content instead of Served
	HonorRange bool
	Skew       int // offset skew applied when answering a Range
	CLDelta    int // Content-Length lie
	NoCR       bool
}

type scriptReader struct {
	cur, orig []Step
	seekable  bool
}

func (s *scriptReader) Read(p []byte) (int, error) {
	if len(s.cur) == 0 {
		return 0, io.EOF
	}
	h := s.cur[0]
	if len(h.B) <= len(p) {
		n := copy(p, h.B)
		s.cur = s.cur[1:]
		switch h.Ev {
		case 1:
			return n, io.EOF
		case 2:
			return n, errors.New("scripted failure")
		}
		return n, nil
	}
	n := copy(p, h.B[:len(p)])
	s.cur = append([]Step{{B: h.B[n:], Ev: h.Ev}}, s.cur[1:]...)
	return n, nil
}

type seekScript struct{ *scriptReader }

func (s seekScript) Seek(off int64, wh int) (int64, error) {
	s.cur = append([]Step(nil), s.orig...)
	return 0, nil
}

func mkDigest(kind string, content []byte, r *lib.Rand) digest.Digest {
	switch kind {
	case "sha256":
		return digest.FromBytes(content)
	case "sha512":
		return digest.SHA512.FromBytes(content)
	case "wrong":
		return digest.FromBytes(append([]byte("other"), content...))
	case "invalid":
		return "sha256:zz"
	}
	return ""
}

func classify(err error) int {
	switch {
	case err == nil:
		return 0
	case errors.Is(err, errs.ErrDigestMismatch):
		return 4
	case errors.Is(err, errs.ErrShortRead):
		return 2
	case errors.Is(err, errs.ErrSizeLimitExceeded):
		return 3
	case err == io.EOF:
		return 1
	}
	return 5
}

func coqBytes(b []byte) string { return lib.CoqBytes(b) }

func hashOK(d digest.Digest, b []byte) bool {
	switch d.Algorithm() {
	case digest.SHA256:
		s := sha256.Sum256(b)
		return d.Encoded() == fmt.Sprintf("%x", s[:])
	case digest.SHA512:
		s := sha512.Sum512(b)
		return d.Encoded() == fmt.Sprintf("%x", s[:])
	}
	return false
}

// oracle: a read that ended cleanly must have delivered exactly the descriptor's content
func checkClean(c Case, d descriptor.Descriptor, delivered []byte, res *lib.Result, where string) {
	if d.Digest.Validate() != nil {
		return
	}
	if !hashOK(d.Digest, delivered) {
		res.Fail("clean-eof-on-wrong-digest kind="+c.Kind+where, fmt.Sprintf("%s: %d bytes read to a clean EOF do not hash to %s", c.Kind, len(delivered), d.Digest), c)
	} else if d.Size > 0 && int64(len(delivered)) != d.Size {
		res.Fail("clean-eof-on-wrong-size kind="+c.Kind+where, fmt.Sprintf("%s: %d bytes read cleanly, descriptor size %d", c.Kind, len(delivered), d.Size), c)
	}
}

func runScript(c Case, res *lib.Result) (ret string) {
	defer res.Recover(c)
	d := descriptor.Descriptor{Size: c.Size, Digest: mkDigest(c.DigKind, c.Content, nil), MediaType: "application/octet-stream"}
	sr := &scriptReader{cur: append([]Step(nil), c.Script...), orig: c.Script, seekable: c.Seekable}
	var rd io.Reader = sr
	if c.Seekable {
		rd = seekScript{sr}
	}
	opts := []blob.Opts{blob.WithDesc(d), blob.WithReader(rd)}
	hdrTerm := "None"
	if c.Hdr {
		var served []byte
		for _, st := range c.Script {
			served = append(served, st.B...)
		}
		h := http.Header{}
		h.Set("Content-Length", c.HdrCL)
		hsize, _ := strconv.Atoi(c.HdrCL)
		hd := "None"
		switch c.HdrDig {
		case "served":
			h.Set("Docker-Content-Digest", digest.FromBytes(served).String())
			hd = "(Some " + coqBytes(served) + ")"
		case "good":
			h.Set("Docker-Content-Digest", digest.FromBytes(c.Content).String())
			hd = "(Some " + coqBytes(c.Content) + ")"
		case "junk":
			h.Set("Docker-Content-Digest", "sha256:nothex")
		}
		opts = append(opts, blob.WithHeader(h))
		hdrTerm = fmt.Sprintf("(Some (%s, %s))", lib.CoqZ(int64(hsize)), hd)
	}
	br := blob.NewReader(opts...)
	// the descriptor the reader actually verifies against (for the oracle: the caller's, when valid)
	var obs []string
	var delivered []byte
	for _, op := range c.Ops {
		if op.Seek {
			_, err := br.Seek(0, io.SeekStart)
			if err == nil {
				delivered = nil
				obs = append(obs, "([], 6%nat)")
			} else {
				obs = append(obs, "([], 7%nat)")
			}
			continue
		}
		p := make([]byte, op.N)
		n, err := br.Read(p)
		delivered = append(delivered, p[:n]...)
		cl := classify(err)
		res.Count(fmt.Sprintf("script:read-class=%d", cl))
		if cl == 1 {
			checkClean(c, d, delivered, res, "")
			// a stream that goes on beyond the stated size does not match the descriptor either: no clean end
			total, plain := 0, true
			for _, st := range c.Script {
				total += len(st.B)
				if st.Ev == 2 {
					plain = false
				}
			}
			seeks := false
			for _, o := range c.Ops {
				seeks = seeks || o.Seek
			}
			if plain && !seeks && d.Size > 0 && int64(total) > d.Size && int64(len(delivered)) <= d.Size {
				res.Fail("clean-eof-on-overlong-stream kind=script", fmt.Sprintf("the source serves %d bytes, the descriptor states %d: the read ended cleanly after %d bytes", total, d.Size, len(delivered)), c)
			}
		}
		obs = append(obs, fmt.Sprintf("(%s, %d%%nat)", coqBytes(p[:n]), cl))
	}
	dig := "(DEmpty _)"
	if c.DigKind == "invalid" {
		dig = "(DInvalid _)"
	}
	if d.Digest.Validate() == nil {
		exp := c.Content
		if c.DigKind == "wrong" {
			exp = append([]byte("other"), c.Content...)
		}
		dig = "(DValid _ " + coqBytes(exp) + ")"
	}
	var sc, ops []string
	for _, s := range c.Script {
		ev := []string{"UMore", "UEOF", "UErr"}[s.Ev]
		sc = append(sc, fmt.Sprintf("(%s, %s)", coqBytes(s.B), ev))
	}
	for _, o := range c.Ops {
		if o.Seek {
			ops = append(ops, "OSeek0")
		} else {
			ops = append(ops, fmt.Sprintf("ORead %d", o.N))
		}
	}
	return fmt.Sprintf("mkCase %s %s %s %s %s %s %s", lib.CoqZ(c.Size), dig, hdrTerm, lib.CoqList(sc), lib.CoqBool(c.Seekable), lib.CoqList(ops), lib.CoqList(obs))
}

func readAll(rd io.Reader, bufs []int) ([]byte, error) {
	return readAllRec(rd, bufs, nil)
}

func readAllRec(rd io.Reader, bufs []int, rec func(n int, b []byte, err error)) ([]byte, error) {
	var out []byte
	i := 0
	for {
		n := 4096
		if len(bufs) > 0 {
			n = bufs[i%len(bufs)]
			i++
		}
		p := make([]byte, n)
		k, err := rd.Read(p)
		if rec != nil {
			rec(n, p[:k], err)
		}
		out = append(out, p[:k]...)
		if err == io.EOF {
			return out, nil
		}
		if err != nil {
			return out, err
		}
		if len(out) > 1<<20 {
			return out, errors.New("runaway")
		}
	}
}

// runEnd returns, for registry reads without a rewind, the Coq term of the case (scripted registry, the sizes of
// the Read calls, what each returned, the Range of every GET) for the model of the resume layer under BReader
func runEnd(c Case, dir string, res *lib.Result) (term string) {
	defer res.Recover(c)
	var ranges []string
	var hdrTerm = "None"
	opened := false // BlobGet has returned: the reader was built from the response before this moment
	ctx, cancel := context.WithTimeout(context.Background(), 8*time.Second)
	defer cancel()
	defer func() {
		if ctx.Err() != nil {
			res.Fail("read-did-not-terminate kind="+c.Kind, "the blob read neither completed nor failed within 8s (retry delays are 1-5 ms): a request is blocked", c)
		}
	}()
	d := descriptor.Descriptor{Size: c.Size, Digest: mkDigest(c.DigKind, c.Content, nil), MediaType: "application/octet-stream"}
	var rc *regclient.RegClient
	var r ref.Ref
	switch c.Kind {
	case "reg", "inline":
		att := 0
		rt := &memrt.RT{}
		rt.Handler = func(req *http.Request, body []byte, n int) *http.Response {
			if os.Getenv("VH_DEBUG") != "" {
				fmt.Println("REQ", n, req.Method, req.URL.Path, req.Header.Get("Range"), time.Now().Format("05.000"))
			}
			if !strings.Contains(req.URL.Path, "/blobs/") {
				return memrt.Resp(404, nil, nil)
			}
			a := Att{DropAt: -1, UseGood: false, HonorRange: true}
			if att < len(c.Attempt) {
				a = c.Attempt[att]
			}
			att++
			if rg := req.Header.Get("Range"); rg != "" {
				var s0, e0 int64
				if _, err := fmt.Sscanf(rg, "bytes=%d-%d", &s0, &e0); err == nil {
					ranges = append(ranges, "Some "+lib.CoqZ(s0))
				} else {
					ranges = append(ranges, "Some (-1)%Z")
				}
			} else {
				ranges = append(ranges, "None")
			}
			stream := c.Served
			if a.UseGood {
				stream = c.Content
			}
			start := 0
			status := 200
			hdr := map[string]string{"Content-Type": "application/octet-stream"}
			if rg := req.Header.Get("Range"); rg != "" && a.HonorRange {
				var s int
				if _, err := fmt.Sscanf(rg, "bytes=%d-", &s); err == nil {
					status = 206
					start = s + a.Skew
					if start < 0 {
						start = 0
					}
					if start > len(stream) {
						start = len(stream)
					}
					if !a.NoCR {
						hdr["Content-Range"] = fmt.Sprintf("bytes %d-%d/%d", s, len(stream)-1, len(stream))
					}
				}
			}
			bodyB := stream[start:]
			switch c.HdrDig {
			case "served":
				hdr["Docker-Content-Digest"] = digest.FromBytes(stream).String()
			case "good":
				hdr["Docker-Content-Digest"] = digest.FromBytes(c.Content).String()
			case "junk":
				hdr["Docker-Content-Digest"] = "sha256:nothex"
			}
			hdr["Content-Length"] = strconv.Itoa(len(bodyB) + a.CLDelta)
			if !opened {
				hd := "None"
				switch c.HdrDig {
				case "served":
					hd = "(Some " + coqBytes(stream) + ")"
				case "good":
					hd = "(Some " + coqBytes(c.Content) + ")"
				}
				hdrTerm = fmt.Sprintf("(Some (%s, %s))", lib.CoqZ(int64(len(bodyB)+a.CLDelta)), hd)
			}
			if req.Method == "HEAD" {
				return memrt.Resp(200, hdr, nil)
			}
			resp := memrt.Resp(status, hdr, nil)
			k := len(bodyB)
			if a.DropAt >= 0 && a.DropAt < k {
				k = a.DropAt
			}
			resp.Body = &memrt.DropBody{B: bodyB, K: k}
			resp.ContentLength = int64(len(bodyB) + a.CLDelta)
			return resp
		}
		rc = regclient.New(regclient.WithConfigHost(config.Host{Name: "reg.example", Hostname: "reg.example", TLS: config.TLSDisabled}),
			regclient.WithRegOpts(reg.WithHTTPClient(&http.Client{Transport: rt})), regclient.WithRetryDelay(time.Millisecond, 5*time.Millisecond), regclient.WithRetryLimit(4))
		r, _ = ref.New("reg.example/repo:tag")
		if c.Kind == "inline" {
			d.Data = c.Served
		}
	case "ocidir":
		lay := filepath.Join(dir, "layout-c01")
		_ = os.RemoveAll(lay)
		if d.Digest.Validate() != nil {
			return
		}
		p := filepath.Join(lay, "blobs", d.Digest.Algorithm().String())
		_ = os.MkdirAll(p, 0o755)
		_ = os.WriteFile(filepath.Join(lay, "oci-layout"), []byte(`{"imageLayoutVersion":"1.0.0"}`), 0o644)
		_ = os.WriteFile(filepath.Join(lay, "index.json"), []byte(`{"schemaVersion":2,"manifests":[]}`), 0o644)
		_ = os.WriteFile(filepath.Join(p, d.Digest.Encoded()), c.Served, 0o644)
		rc = regclient.New()
		r, _ = ref.New("ocidir://" + lay + ":tag")
		defer os.RemoveAll(lay)
	}
	mkTerm := func(sizes []int, obs []string) string {
		// (the empty blob is answered without any request: nothing to compare)
		if c.Kind != "reg" || c.Rewind || len(c.Content) >= 100 || len(c.Served) >= 100 || len(ranges) == 0 {
			return ""
		}
		dig := "(DEmpty _)"
		if c.DigKind == "invalid" {
			dig = "(DInvalid _)"
		}
		if d.Digest.Validate() == nil {
			exp := c.Content
			if c.DigKind == "wrong" {
				exp = append([]byte("other"), c.Content...)
			}
			dig = "(DValid _ " + coqBytes(exp) + ")"
		}
		var atts, ops []string
		for _, a := range c.Attempt {
			atts = append(atts, fmt.Sprintf("mkAtt %s %s %s %s %s %s", lib.CoqZ(int64(a.DropAt)), lib.CoqBool(a.UseGood), lib.CoqBool(a.HonorRange), lib.CoqZ(int64(a.Skew)), lib.CoqBool(a.NoCR), lib.CoqZ(int64(a.CLDelta))))
		}
		for _, n := range sizes {
			ops = append(ops, fmt.Sprintf("%d%%nat", n))
		}
		return fmt.Sprintf("XR (mkRC %s %s %s %s %s %s 4%%nat %s %s %s)", coqBytes(c.Content), coqBytes(c.Served), lib.CoqList(atts), lib.CoqZ(c.Size), dig, hdrTerm,
			lib.CoqList(ops), lib.CoqList(obs), lib.CoqList(ranges))
	}
	rd, err := rc.BlobGet(ctx, r, d)
	opened = true
	if err != nil {
		res.Count(c.Kind + ":open-error")
		return mkTerm(nil, nil)
	}
	defer rd.Close()
	var sizes []int
	var obsT []string
	out, err := readAllRec(rd, c.Bufs, func(n int, b []byte, e error) {
		sizes = append(sizes, n)
		obsT = append(obsT, fmt.Sprintf("(%s, %d%%nat)", coqBytes(b), classify(e)))
	})
	defer func() {
		if ctx.Err() == nil {
			term = mkTerm(sizes, obsT)
		}
	}()
	if err == nil {
		res.Count(c.Kind + ":clean")
		checkClean(c, d, out, res, "")
	} else {
		res.Count(c.Kind + ":error")
	}
	if c.Rewind {
		if _, e := rd.Seek(0, io.SeekStart); e == nil {
			out2, err2 := readAll(rd, c.Bufs)
			if err2 == nil {
				res.Count(c.Kind + ":clean-after-rewind")
				checkClean(c, d, out2, res, " after-rewind")
			}
		}
	}
	return term
}

func mutate(r *lib.Rand, c []byte) []byte {
	s := append([]byte(nil), c...)
	switch r.Intn(7) {
	case 0, 1: // unchanged
	case 2:
		if len(s) > 0 {
			s = s[:r.Intn(len(s))]
		}
	case 3:
		s = append(s, r.Bytes(1+r.Intn(3))...)
	case 4:
		if len(s) > 0 {
			s[r.Intn(len(s))] ^= byte(1 << r.Intn(8))
		}
	case 5:
		s = r.Bytes(len(s))
	case 6:
		s = r.Bytes(r.Intn(50))
	}
	return s
}

func genCase(r *lib.Rand) Case {
	content := r.Bytes(r.Intn(40))
	big := false
	if r.Chance(5) {
		content = r.Bytes(3000 + r.Intn(3000))
		big = true
	}
	c := Case{Content: content}
	c.DigKind = lib.Pick(r, []string{"sha256", "sha256", "sha256", "sha512", "none", "wrong", "invalid"})
	c.HdrDig = lib.Pick(r, []string{"served", "served", "good", "junk", "none"})
	c.Size = int64(len(content))
	switch r.Intn(8) {
	case 0, 1:
		c.Size = 0
	case 2:
		c.Size = int64(len(content)) + int64(r.Intn(3)) - 1
	}
	if c.Size < 0 {
		c.Size = 0
	}
	served := mutate(r, content)
	bufs := []int{1, 2, 3, 7, len(content), len(content) + 1, 64, 200}
	k := r.Intn(100)
	switch {
	case k < 55 && !big:
		c.Kind = "script"
		c.Seekable = r.Chance(60)
		c.Hdr = r.Chance(40)
		c.HdrCL = lib.Pick(r, []string{strconv.Itoa(len(served)), strconv.Itoa(len(content)), "0", "x", strconv.Itoa(len(served) + 1)})
		// chop the served stream into steps
		rest := served
		for len(rest) > 0 {
			n := 1 + r.Intn(len(rest))
			if r.Chance(10) {
				n = 0
			}
			c.Script = append(c.Script, Step{B: rest[:n]})
			rest = rest[n:]
		}
		switch r.Intn(4) {
		case 0: // EOF together with the last data
			if len(c.Script) > 0 {
				c.Script[len(c.Script)-1].Ev = 1
			}
		case 1:
			c.Script = append(c.Script, Step{Ev: 2})
		}
		nops := 2 + r.Intn(8)
		for i := 0; i < nops; i++ {
			c.Ops = append(c.Ops, Op{N: lib.Pick(r, bufs)})
		}
		if r.Chance(50) { // read to the end, rewind, read again
			for i := 0; i < 60; i++ {
				c.Ops = append(c.Ops, Op{N: lib.Pick(r, []int{64, 200})})
				if i == 2+r.Intn(3) {
					c.Ops = append(c.Ops, Op{Seek: true})
				}
				if len(c.Ops) > 14 {
					break
				}
			}
		}
	case k < 80:
		c.Kind = "reg"
		c.Served = served
		n := r.Intn(4)
		for i := 0; i < n; i++ {
			a := Att{DropAt: -1, HonorRange: r.Chance(80), UseGood: r.Chance(40)}
			if r.Chance(70) && len(served) > 0 {
				a.DropAt = r.Intn(len(served) + 1)
			}
			if r.Chance(20) {
				a.Skew = r.Intn(3) - 1
			}
			if r.Chance(10) {
				a.CLDelta = r.Intn(3) - 1
			}
			if r.Chance(10) {
				a.NoCR = true
			}
			c.Attempt = append(c.Attempt, a)
		}
		c.Bufs = []int{lib.Pick(r, bufs), lib.Pick(r, bufs)}
		c.Rewind = r.Chance(30)
	case k < 93:
		c.Kind = "ocidir"
		c.Served = served
		c.Bufs = []int{lib.Pick(r, bufs)}
		c.Rewind = r.Chance(40)
		if c.DigKind == "none" {
			c.DigKind = "sha256"
		}
	default:
		c.Kind = "inline"
		c.Served = served
		c.Bufs = []int{lib.Pick(r, bufs)}
	}
	for i := range c.Bufs {
		if c.Bufs[i] == 0 {
			c.Bufs[i] = 1
		}
	}
	return c
}

func Run(o lib.Opts) {
	res := lib.NewResult("C01", o.Tier, o.Seed)
	res.Rule = "one splitmix64 stream: blob contents of 0-40 (5%: 3-6 KiB) random bytes; descriptor size exact/0/off-by-one, digest sha256/sha512/absent/wrong; the served stream is the content or a mutation (truncated, extended, bit flip, substituted); 55% scripted io.Reader under blob.NewReader with random chunking, EOF-with-data, errors, buffer sizes {1,2,3,7,len,len+1,64,200} and rewinds (compared read by read with the model); 25% RegClient.BlobGet against a scripted registry with mid-body drops and honest/skewed/ignored range answers; 13% OCI layout with a corrupted blob file; 7% inline descriptor data; non-trivial = served stream differs from the content or a drop/rewind is scripted; distinct by case"
	if o.Replay != "" {
		var f struct{ Case Case }
		b, err := os.ReadFile(o.Replay)
		if err == nil {
			err = json.Unmarshal(b, &f)
		}
		if err != nil {
			fmt.Println("replay:", err)
			os.Exit(2)
		}
		if f.Case.Kind == "script" {
			runScript(f.Case, res)
		} else {
			runEnd(f.Case, os.TempDir(), res)
		}
		for _, fl := range res.Failures {
			fmt.Printf("REPLAY-FAIL %s: %s\n", fl.Sig, fl.Desc)
		}
		if len(res.Failures) == 0 {
			fmt.Println("REPLAY-OK")
		}
		return
	}
	r := lib.NewRand(o.Seed)
	n := o.Scale(1500, 40000)
	cw := lib.NewCaseWriter(o.Out, "C01", "From Coq Require Import List String ZArith NArith.\nFrom Verif Require Import Base.StrX Model.C01_BlobRead Model.C01_Resume Corr.C01.\nImport ListNotations.", "xcase", 700)
	seen := lib.Set{}
	for i := 0; i < n; i++ {
		c := genCase(r)
		res.Evaluations++
		kb, _ := json.Marshal(c)
		nt := !bytes.Equal(c.Served, c.Content) || len(c.Attempt) > 0 || c.Rewind
		if c.Kind == "script" {
			var s []byte
			for _, st := range c.Script {
				s = append(s, st.B...)
			}
			nt = !bytes.Equal(s, c.Content) || len(c.Ops) > 8
		}
		if _, dup := seen[string(kb)]; !dup && nt {
			res.Distinct++
		}
		seen.Add(string(kb))
		if c.Kind == "script" {
			term := runScript(c, res)
			if o.Mode != "search" && len(c.Content) < 100 {
				cw.Add("XS ("+term+")", c)
			}
		} else {
			t0 := time.Now()
			if term := runEnd(c, o.Out, res); term != "" && o.Mode != "search" {
				cw.Add(term, c)
			}
			if el := time.Since(t0); el > 300*time.Millisecond && os.Getenv("VH_DEBUG") != "" {
				b, _ := json.Marshal(c)
				fmt.Println("SLOW", el, string(b))
			}
		}
		if len(c.Content) < 100 {
			res.Sample(c, 4)
		}
	}
	cw.Close(res)
	lib.WriteResult(o.Out, res)
}
