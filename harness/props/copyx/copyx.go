// Package copyx: image copy (C03 complete, C04 children-first / tag-last / failure keeps tag, C14 minimal
// transfers).  Real RegClient.ImageCopy between model registries and OCI layouts on generated image graphs,
// target pre-populations, options, latencies, faults and cancellations; the target-side event trace is
// replayed against the Coq monitor; independent oracles walk the raw target state.
package copyx

import (
	"bytes"
	"context"
	"encoding/json"
	"errors"
	"fmt"
	"net/http"
	"os"
	"path/filepath"
	"sort"
	"strings"
	"sync"
	"time"

	"github.com/regclient/regclient"
	"github.com/regclient/regclient/config"
	"github.com/regclient/regclient/scheme/reg"
	"github.com/regclient/regclient/types"
	"github.com/regclient/regclient/types/descriptor"
	"github.com/regclient/regclient/types/manifest"
	"github.com/regclient/regclient/types/ref"

	digest "github.com/opencontainers/go-digest"

	"verifharness/imgen"
	"verifharness/lib"
	"verifharness/memreg"
	"verifharness/memrt"
)

type Case struct {
	Kind       string // copy | fault | cancel | gate
	Seed       uint64
	Pair       string // regreg | samereg | samerepo | reg2dir | dir2reg | dir2dir
	Mount      bool
	Prepop     int    // percentage of the closure already at the target
	PrepopAll  bool   // the identical image (incl. tag) is already there
	Again      bool   `json:",omitempty"` // fault runs: the same client copies once more afterwards, with no fault
	Cache      bool   `json:",omitempty"` // the client caches responses (reg.WithCache), as regctl and regsync do
	DirPre     string `json:",omitempty"` // layout targets: "blobs" (a subset of the blobs), "all" (the identical image), "listed" (index.json lists the image under the tag but its manifest file is gone)
	StaleTag   bool
	Recursive  bool
	Referrers  bool
	DigestTags bool
	External   bool
	NoHeadDig  bool
	RefAPI     bool
	Latency    bool
	FaultAt    int    `json:",omitempty"`
	FaultKind  string `json:",omitempty"` // 500 | 404 | reset | 429
	FaultN     int    `json:",omitempty"`
	CancelAt   int    `json:",omitempty"`
	Gate       int    `json:",omitempty"`
	Layers     int    `json:",omitempty"`
	XGraph     bool   `json:",omitempty"` // graph from imgen.RandomX: inline data, OCI artifact manifests, schema1
	RefTgt     bool   `json:",omitempty"` // referrers go to another repository of the target registry (ImageWithReferrerTgt); one referrer shares a blob with the image
}

type world struct {
	src, tgt     *memreg.Registry
	rt           *memrt.RT
	rc           *regclient.RegClient
	g            *imgen.Graph
	srcRef       ref.Ref
	tgtRef       ref.Ref
	srcRepo      string
	tgtRepo      string
	tgtDir       string
	srcDir       string
	tgt0         map[string]bool
	tag0         string
	mu           sync.Mutex
	reqN         int
	hook         func(n int, req *http.Request) *http.Response
	mountFaulted map[string]bool
}

func (w *world) tgtIsReg() bool { return w.tgtDir == "" }

func build(c Case, dir string) (*world, error) {
	r := lib.NewRand(c.Seed)
	w := &world{tgt0: map[string]bool{}, mountFaulted: map[string]bool{}}
	uniq := fmt.Sprintf("g%x", c.Seed&0xffff)
	if c.Kind == "gate" {
		g := &imgen.Graph{}
		var ls []*imgen.Node
		for i := 0; i < c.Layers; i++ {
			ls = append(ls, g.Blob([]byte(fmt.Sprintf("%s-gate-layer-%d", uniq, i)), imgen.MTLayer))
		}
		cfg := g.Blob([]byte(`{"architecture":"amd64","os":"linux","rootfs":{"type":"layers","diff_ids":[]}}`), imgen.MTConfig)
		g.Root = g.Image(false, cfg, ls, nil, nil, uniq)
		w.g = g
	} else if c.Kind == "foreign" {
		g := &imgen.Graph{}
		l1 := g.Blob([]byte(uniq+"-hosted-layer"), imgen.MTLayer)
		l2 := g.Blob([]byte(uniq+"-foreign-layer"), imgen.MTLayer)
		cfg := g.Blob([]byte(`{"architecture":"amd64","os":"windows","rootfs":{"type":"layers","diff_ids":[]}}`), imgen.MTConfig)
		g.Root = g.Image(true, cfg, []*imgen.Node{l1, l2}, map[int]bool{1: true}, nil, uniq)
		w.g = g
	} else {
		if c.XGraph {
			w.g = imgen.RandomX(r, uniq)
		} else {
			w.g = imgen.Random(r, uniq)
		}
	}
	if c.RefTgt && w.g.Root != nil { // a referrer of the image that lists one of the image's own blobs (an attestation embedding a layer)
		clo0 := imgen.Closure(w.g.Root, false)
		for _, d := range imgen.SortedDigests(clo0) {
			if n := clo0[d]; n.Kind == "blob" {
				cfg := w.g.Blob([]byte("{}"), "application/vnd.oci.empty.v1+json")
				w.g.Refs = append(w.g.Refs, w.g.Image(false, cfg, []*imgen.Node{n}, nil, w.g.Root, uniq+"-shared-ref"))
				break
			}
		}
	}
	feat := memreg.Features{Delete: true, TagDelete: true, MountGrant: c.Mount, NoHeadDigest: c.NoHeadDig, ReferrersAPI: c.RefAPI, ValidateChildren: false}
	w.src = memreg.New("src.example", feat)
	w.tgt = w.src
	w.srcRepo, w.tgtRepo = "proj/app", "mirror/app"
	switch c.Pair {
	case "regreg", "reg2dir", "dir2reg", "dir2dir":
		w.tgt = memreg.New("tgt.example", feat)
	case "samerepo":
		w.tgtRepo = w.srcRepo
	}
	w.g.Load(w.src, w.srcRepo, "v1")
	// referrers live in the source repository: fallback tags when the API is off are created through the client below
	w.rt = &memrt.RT{}
	w.rt.Handler = func(req *http.Request, body []byte, n int) *http.Response {
		w.mu.Lock()
		hk := w.hook
		w.reqN++
		k := w.reqN
		w.mu.Unlock()
		if c.Latency {
			time.Sleep(time.Duration((uint64(k)*2654435761+c.Seed)%700) * time.Microsecond)
		}
		if hk != nil {
			if rs := hk(k, req); rs != nil {
				if rs.StatusCode == -1 {
					return nil
				}
				return rs
			}
		}
		if req.URL.Host == "external.example" {
			want := strings.TrimPrefix(req.URL.Path, "/")
			for _, nd := range w.g.Nodes {
				if nd.Digest == want {
					return memrt.Resp(200, map[string]string{"Content-Type": "application/octet-stream"}, nd.Body)
				}
			}
			return memrt.Resp(404, nil, nil)
		}
		if req.URL.Host == "tgt.example" && w.tgt != w.src {
			return w.tgt.Handle(req, body, n)
		}
		return w.src.Handle(req, body, n)
	}
	hosts := []config.Host{{Name: "src.example", Hostname: "src.example", TLS: config.TLSDisabled}, {Name: "tgt.example", Hostname: "tgt.example", TLS: config.TLSDisabled},
		{Name: "external.example", Hostname: "external.example", TLS: config.TLSDisabled}}
	regOpts := []reg.Opts{reg.WithHTTPClient(&http.Client{Transport: w.rt}), reg.WithDelay(time.Millisecond, 3*time.Millisecond), reg.WithRetryLimit(3)}
	if c.Cache {
		regOpts = append(regOpts, reg.WithCache(5*time.Minute, 500))
	}
	w.rc = regclient.New(regclient.WithConfigHosts(hosts), regclient.WithRegOpts(regOpts...))
	ctx := context.Background()
	// referrers: push artifacts through the API into the source (creates fallback tags when needed)
	for _, a := range w.g.Refs {
		for _, ch := range a.Children {
			w.src.PutBlob(w.srcRepo, ch.Body)
		}
		w.src.PutManifest(w.srcRepo, "", a.MT, a.Body)
	}
	if len(w.g.Refs) > 0 && !c.RefAPI {
		// without the API the client maintains fallback tags: re-push each artifact through the client
		for _, a := range w.g.Refs {
			rr, _ := ref.New("src.example/" + w.srcRepo + "@" + a.Digest)
			m, err := w.rc.ManifestGet(ctx, rr)
			if err == nil {
				_ = w.rc.ManifestPut(ctx, rr, m)
			}
		}
	}
	srcName := "src.example/" + w.srcRepo + ":v1"
	tgtHost := "tgt.example"
	if w.tgt == w.src {
		tgtHost = "src.example"
	}
	tgtName := tgtHost + "/" + w.tgtRepo + ":copy"
	if c.Pair == "samerepo" {
		tgtName = "src.example/" + w.srcRepo + ":retag"
	}
	if c.Pair == "dir2reg" || c.Pair == "dir2dir" {
		w.srcDir = filepath.Join(dir, "srcdir")
		_ = os.RemoveAll(w.srcDir)
		sr, _ := ref.New(srcName)
		dr, _ := ref.New("ocidir://" + w.srcDir + ":v1")
		opts := []regclient.ImageOpts{}
		if len(w.g.Refs) > 0 {
			opts = append(opts, regclient.ImageWithReferrers())
		}
		if c.External {
			opts = append(opts, regclient.ImageWithIncludeExternal())
		}
		if err := w.rc.ImageCopy(ctx, sr, dr, opts...); err != nil {
			return nil, fmt.Errorf("setup copy to source layout: %w", err)
		}
		srcName = "ocidir://" + w.srcDir + ":v1"
	}
	if c.Pair == "reg2dir" || c.Pair == "dir2dir" {
		w.tgtDir = filepath.Join(dir, "tgtdir")
		_ = os.RemoveAll(w.tgtDir)
		tgtName = "ocidir://" + w.tgtDir + ":copy"
	}
	w.srcRef, _ = ref.New(srcName)
	w.tgtRef, _ = ref.New(tgtName)
	// pre-populate the target
	clo := imgen.Closure(w.g.Root, c.External)
	if w.tgtIsReg() && c.Pair != "samerepo" {
		ds := imgen.SortedDigests(clo)
		// blobs may pre-exist in any subset; manifests only together with everything below them
		for _, d := range ds {
			n := clo[d]
			if n.Kind == "blob" && (c.PrepopAll || r.Intn(100) < c.Prepop) {
				w.tgt.PutBlob(w.tgtRepo, n.Body)
				w.tgt0[d] = true
			}
		}
		for _, d := range ds {
			n := clo[d]
			if n.Kind != "blob" && n != w.g.Root && (c.PrepopAll || r.Intn(100) < c.Prepop/2) {
				for dd, x := range imgen.Closure(n, c.External) {
					if x.Kind == "blob" {
						w.tgt.PutBlob(w.tgtRepo, x.Body)
					} else {
						w.tgt.PutManifest(w.tgtRepo, "", x.MT, x.Body)
					}
					w.tgt0[dd] = true
				}
			}
		}
		if c.PrepopAll {
			w.tgt.PutManifest(w.tgtRepo, "copy", w.g.Root.MT, w.g.Root.Body)
			w.tgt0[w.g.Root.Digest] = true
			w.tag0 = w.g.Root.Digest
		} else if c.StaleTag {
			stale := []byte(`{"schemaVersion":2,"mediaType":"application/vnd.oci.image.manifest.v1+json","config":{"mediaType":"application/vnd.oci.empty.v1+json","digest":"sha256:44136fa355b3678a1146ad16f7e8649e94fb4fc21fe77e8310c060f61caaff8a","size":2},"layers":[],"annotations":{"stale":"` + uniq + `"}}`)
			w.tgt.PutBlob(w.tgtRepo, []byte("{}"))
			w.tag0 = w.tgt.PutManifest(w.tgtRepo, "copy", imgen.MTImage, stale)
		}
	}
	if !w.tgtIsReg() && c.DirPre != "" {
		tr, _ := ref.New(tgtName)
		switch c.DirPre {
		case "blockroot":
			// the layout holds another image under the target tag, and something (a directory) occupies the place where the new
			// root manifest has to go: the copy fails at its very last step
			cfgB := []byte("{}")
			if _, err := w.rc.BlobPut(ctx, tr, descriptor.Descriptor{Digest: digest.FromBytes(cfgB), Size: 2}, bytes.NewReader(cfgB)); err != nil {
				return nil, fmt.Errorf("setup blob put to target layout: %w", err)
			}
			mb := []byte(`{"schemaVersion":2,"mediaType":"application/vnd.oci.image.manifest.v1+json","config":{"mediaType":"application/vnd.oci.empty.v1+json","digest":"sha256:44136fa355b3678a1146ad16f7e8649e94fb4fc21fe77e8310c060f61caaff8a","size":2},"layers":[],"annotations":{"old":"` + uniq + `"}}`)
			om, err := manifest.New(manifest.WithRaw(mb))
			if err != nil {
				return nil, err
			}
			if err := w.rc.ManifestPut(ctx, tr, om); err != nil {
				return nil, fmt.Errorf("setup manifest put to target layout: %w", err)
			}
			w.tag0 = om.GetDescriptor().Digest.String()
			i := strings.IndexByte(w.g.Root.Digest, ':')
			_ = os.MkdirAll(filepath.Join(w.tgtDir, "blobs", w.g.Root.Digest[:i], w.g.Root.Digest[i+1:], "occupied"), 0o755)
		case "other":
			// the layout already holds an unrelated image under another tag (so it has an index.json)
			cfgB := []byte("{}")
			if _, err := w.rc.BlobPut(ctx, tr, descriptor.Descriptor{Digest: digest.FromBytes(cfgB), Size: 2}, bytes.NewReader(cfgB)); err != nil {
				return nil, fmt.Errorf("setup blob put to target layout: %w", err)
			}
			mb := []byte(`{"schemaVersion":2,"mediaType":"application/vnd.oci.image.manifest.v1+json","config":{"mediaType":"application/vnd.oci.empty.v1+json","digest":"sha256:44136fa355b3678a1146ad16f7e8649e94fb4fc21fe77e8310c060f61caaff8a","size":2},"layers":[],"annotations":{"other":"` + uniq + `"}}`)
			om, err := manifest.New(manifest.WithRaw(mb))
			if err != nil {
				return nil, err
			}
			if err := w.rc.ManifestPut(ctx, tr.SetTag("other"), om); err != nil {
				return nil, fmt.Errorf("setup manifest put to target layout: %w", err)
			}
		case "blobs":
			for _, d := range imgen.SortedDigests(clo) {
				n := clo[d]
				if n.Kind == "blob" && r.Intn(100) < 50 {
					if _, err := w.rc.BlobPut(ctx, tr, descriptor.Descriptor{Digest: digest.Digest(d), Size: int64(len(n.Body))}, bytes.NewReader(n.Body)); err != nil {
						return nil, fmt.Errorf("setup blob put to target layout: %w", err)
					}
					w.tgt0[d] = true
				}
			}
		case "all", "listed":
			sr, _ := ref.New(srcName)
			opts := []regclient.ImageOpts{}
			if c.External {
				opts = append(opts, regclient.ImageWithIncludeExternal())
			}
			if err := w.rc.ImageCopy(ctx, sr, tr, opts...); err != nil {
				return nil, fmt.Errorf("setup copy to target layout: %w", err)
			}
			for d := range clo {
				if _, ok := w.tgtHas(d); ok {
					w.tgt0[d] = true
				}
			}
			w.tag0 = w.g.Root.Digest
			if c.DirPre == "listed" {
				// what an interrupted directory sync or a pruned blob directory leaves: the index still lists the image
				i := strings.IndexByte(w.g.Root.Digest, ':')
				_ = os.Remove(filepath.Join(w.tgtDir, "blobs", w.g.Root.Digest[:i], w.g.Root.Digest[i+1:]))
				delete(w.tgt0, w.g.Root.Digest)
			}
		}
	}
	if c.Pair == "samerepo" {
		for _, n := range w.g.Nodes { // one repository: everything is already "at the target"
			w.tgt0[n.Digest] = true
		}
	}
	// reset logs after setup
	w.rt.Log = nil
	w.tgt.Puts = nil
	w.mu.Lock()
	w.reqN = 0
	w.mu.Unlock()
	return w, nil
}

// stallBody delivers half of the blob and then blocks until the request context ends
type stallBody struct {
	b   []byte
	pos int
	ctx context.Context
}

func (s *stallBody) Read(p []byte) (int, error) {
	half := len(s.b) / 2
	if s.pos < half {
		n := copy(p, s.b[s.pos:half])
		s.pos += n
		return n, nil
	}
	select {
	case <-s.ctx.Done():
		return 0, s.ctx.Err()
	case <-time.After(2 * time.Second):
		return 0, context.DeadlineExceeded
	}
}
func (s *stallBody) Close() error { return nil }

// target state readers -----------------------------------------------------------------------------
func (w *world) tgtHas(d string) ([]byte, bool) {
	if w.tgtIsReg() {
		w.tgt.Lock()
		defer w.tgt.Unlock()
		rp := w.tgt.Repos[w.tgtRepo]
		if rp == nil {
			return nil, false
		}
		if b, ok := rp.Blobs[d]; ok {
			return b, true
		}
		if m, ok := rp.Manifests[d]; ok {
			return m.Body, true
		}
		return nil, false
	}
	i := strings.IndexByte(d, ':')
	b, err := os.ReadFile(filepath.Join(w.tgtDir, "blobs", d[:i], d[i+1:]))
	return b, err == nil
}
// refHas: the place the referrers were sent to
func (w *world) refHas(c Case, d string) ([]byte, bool) {
	if !c.RefTgt {
		return w.tgtHas(d)
	}
	w.tgt.Lock()
	defer w.tgt.Unlock()
	rp := w.tgt.Repos[w.tgtRepo+"-refs"]
	if rp == nil {
		return nil, false
	}
	if b, ok := rp.Blobs[d]; ok {
		return b, true
	}
	if m, ok := rp.Manifests[d]; ok {
		return m.Body, true
	}
	return nil, false
}
func (w *world) tgtTag() string {
	if w.tgtIsReg() {
		t := "copy"
		if w.tgtRepo == w.srcRepo && w.tgt == w.src {
			t = "retag"
		}
		return w.tgt.TagsOf(w.tgtRepo)[t]
	}
	b, err := os.ReadFile(filepath.Join(w.tgtDir, "index.json"))
	if err != nil {
		return ""
	}
	var ix struct {
		Manifests []struct {
			Digest      string            `json:"digest"`
			Annotations map[string]string `json:"annotations"`
		} `json:"manifests"`
	}
	_ = json.Unmarshal(b, &ix)
	for _, m := range ix.Manifests {
		if m.Annotations["org.opencontainers.image.ref.name"] == "copy" {
			return m.Digest
		}
	}
	return ""
}

// allTargetManifestsClosed: every manifest the target holds (written by this copy) has its hosted children there
func (w *world) unclosed(written map[string]bool) []string {
	var bad []string
	for _, n := range w.g.Nodes {
		if n.Kind == "blob" || !written[n.Digest] {
			continue
		}
		if _, ok := w.tgtHas(n.Digest); !ok {
			continue
		}
		for i, c := range n.Children {
			if n.Foreign[i] {
				continue
			}
			if _, ok := w.tgtHas(c.Digest); !ok {
				bad = append(bad, fmt.Sprintf("%s lacks %s", short(n.Digest), short(c.Digest)))
			}
		}
	}
	return bad
}
func short(d string) string {
	if len(d) > 19 {
		return d[7:19]
	}
	return d
}

func run(c Case, dir string, res *lib.Result) (ret string) {
	defer res.Recover(c)
	w, err := build(c, dir)
	if err != nil {
		res.Notes = append(res.Notes, "setup failed: "+err.Error())
		return ""
	}
	defer func() {
		if w.srcDir != "" {
			_ = os.RemoveAll(w.srcDir)
		}
		if w.tgtDir != "" {
			_ = os.RemoveAll(w.tgtDir)
		}
	}()
	ctx, cancel := context.WithTimeout(context.Background(), 20*time.Second)
	defer cancel()
	opts := []regclient.ImageOpts{}
	if c.Recursive {
		opts = append(opts, regclient.ImageWithForceRecursive())
	}
	if c.Referrers {
		opts = append(opts, regclient.ImageWithReferrers())
		if c.RefTgt {
			rt, _ := ref.New(w.tgtRef.Registry + "/" + w.tgtRepo + "-refs")
			opts = append(opts, regclient.ImageWithReferrerTgt(rt))
		}
	}
	if c.DigestTags {
		opts = append(opts, regclient.ImageWithDigestTags())
	}
	if c.External {
		opts = append(opts, regclient.ImageWithIncludeExternal())
	}
	// a fault run may be followed by a second copy through the SAME client, with no fault: whatever the first one left
	// behind (caches, feature flags, backoff state, partial content), a copy that now reports success is complete and
	// was written children first
	if c.Again && c.Kind == "fault" {
		defer func() {
			w.mu.Lock()
			w.hook = nil
			w.mu.Unlock()
			var before []memreg.PutRecord
			if w.tgtIsReg() {
				w.tgt.Lock()
				before = append(before, w.tgt.Puts...)
				w.tgt.Unlock()
			}
			ctx2, cancel2 := context.WithTimeout(context.Background(), 20*time.Second)
			defer cancel2()
			err2 := w.rc.ImageCopy(ctx2, w.srcRef, w.tgtRef, opts...)
			res.Count(fmt.Sprintf("again:%s:ok=%v", c.Pair, err2 == nil))
			if os.Getenv("VH_DEBUG") != "" {
				for _, rc := range w.rt.Records() {
					fmt.Printf("REQ2 %d %s %s %s?%s -> %d\n", rc.N, rc.Host, rc.Method, rc.Path, rc.Query, rc.Status)
				}
			}
			if err2 != nil {
				if ctx2.Err() == nil {
					res.Fail("second-copy-fails pair="+c.Pair, fmt.Sprintf("after a copy with injected faults, a second copy through the same client with no fault failed: %v", err2), c)
				}
				return
			}
			root := w.g.Root
			if t := w.tgtTag(); t != root.Digest {
				res.Fail("success-but-tag-wrong second-copy pair="+c.Pair, fmt.Sprintf("the second ImageCopy returned nil but the target tag resolves to %q, source is %s", t, root.Digest), c)
			}
			for d, n := range imgen.Closure(root, c.External) {
				if b, ok := w.tgtHas(d); !ok || string(b) != string(n.Body) {
					res.Fail("success-but-incomplete second-copy pair="+c.Pair, fmt.Sprintf("the second ImageCopy through the same client returned nil but %s %s is missing or differs at the target", n.Kind, d), c)
					break
				}
			}
			if c.Referrers && c.Pair != "samerepo" {
				for _, a := range w.g.Refs {
					for d, n := range imgen.Closure(a, false) {
						if b, ok := w.tgtHas(d); !ok || string(b) != string(n.Body) {
							res.Fail("success-but-referrer-missing second-copy pair="+c.Pair, fmt.Sprintf("referrers requested, the second ImageCopy returned nil but %s %s (referrer %s) is not at the target", n.Kind, d, short(a.Digest)), c)
							break
						}
					}
				}
			}
			if w.tgtIsReg() {
				clo := imgen.Closure(root, c.External)
				w.tgt.Lock()
				puts := append([]memreg.PutRecord(nil), w.tgt.Puts...)
				w.tgt.Unlock()
				for _, p := range puts[len(before):] {
					if p.Repo != w.tgtRepo {
						continue
					}
					node := clo[p.Digest]
					for _, m := range p.Missing {
						foreign := false
						if node != nil {
							for i, ch := range node.Children {
								if ch.Digest == m && node.Foreign[i] {
									foreign = true
								}
							}
						}
						if !foreign {
							res.Fail("parent-before-child second-copy pair="+c.Pair, fmt.Sprintf("second copy: manifest %s (%s) was pushed while %s was not at the target", short(p.Digest), p.Ref, short(m)), c)
							break
						}
					}
				}
			}
		}()
	}
	// faults / cancellation
	cctx, ccancel := context.WithCancel(ctx)
	defer ccancel()
	faults := 0
	if c.Kind == "fault" {
		w.hook = func(n int, req *http.Request) *http.Response {
			// a 404 on the referrers API is how a registry says it does not implement it (the client must then use the
			// fallback tag), and a 404 on the fallback tag (<alg>-<hex>) is how it says "no referrers": the client can
			// not tell either from the injected answer, so the fault is not injected on those two requests
			if c.FaultKind == "404" && (strings.Contains(req.URL.Path, "/referrers/") || strings.Contains(req.URL.Path, "/manifests/sha256-")) {
				return nil
			}
			// targeted faults: every push of a manifest by digest (a child of the image), or every referrers request, fails
			// for the whole of the first copy
			if c.FaultKind == "childput" {
				if req.Method == "PUT" && strings.Contains(req.URL.Path, "/manifests/sha256:") {
					return memrt.Resp(500, nil, nil)
				}
				return nil
			}
			// the first mount request of the copy meets one transient fault (one fault in all: the backoff count is per host and
			// several concurrent faults reach the limit, after which falling back to a transfer is by design): it is retried and
			// the mount still replaces the transfer
			if c.FaultKind == "mount429" || c.FaultKind == "mount502" {
				if req.Method == "POST" && strings.Contains(req.URL.RawQuery, "mount=") && strings.Contains(req.URL.RawQuery, "from=") {
					w.mu.Lock()
					seen := len(w.mountFaulted) > 0
					w.mountFaulted[req.URL.RawQuery] = true
					w.mu.Unlock()
					if !seen {
						if c.FaultKind == "mount429" {
							return memrt.Resp(429, nil, nil)
						}
						return memrt.Resp(502, nil, nil)
					}
				}
				return nil
			}
			if c.FaultKind == "referrers" {
				if strings.Contains(req.URL.Path, "/referrers/") {
					return memrt.Resp(500, nil, nil)
				}
				return nil
			}
			if n >= c.FaultAt && faults < c.FaultN {
				faults++
				switch c.FaultKind {
				case "reset":
					return &http.Response{StatusCode: -1}
				case "404":
					return memrt.Resp(404, nil, []byte(`{"errors":[{"code":"NOT_FOUND"}]}`))
				case "429":
					return memrt.Resp(429, nil, nil)
				default:
					return memrt.Resp(500, nil, nil)
				}
			}
			return nil
		}
	}
	if c.Kind == "sharedfault" {
		// the blob referenced by the most manifests fails at the source, slowly
		cnt := map[string]int{}
		for _, nd := range w.g.Nodes {
			for _, ch := range nd.Children {
				if ch.Kind == "blob" {
					cnt[ch.Digest]++
				}
			}
		}
		best := ""
		for d, k := range cnt {
			if best == "" || k > cnt[best] || (k == cnt[best] && d < best) {
				best = d
			}
		}
		w.hook = func(n int, req *http.Request) *http.Response {
			if req.Method == "GET" && req.URL.Host == "src.example" && strings.HasSuffix(req.URL.Path, "/blobs/"+best) {
				time.Sleep(25 * time.Millisecond)
				return memrt.Resp(404, nil, []byte(`{"errors":[{"code":"BLOB_UNKNOWN"}]}`))
			}
			if strings.Contains(req.URL.Path, "/referrers/") || strings.Contains(req.URL.Path, "/tags/list") {
				time.Sleep(60 * time.Millisecond) // keep the parent busy while siblings finish
			}
			return nil
		}
	}
	if c.Kind == "stallcancel" {
		var once sync.Once
		w.hook = func(n int, req *http.Request) *http.Response {
			if req.Method == "GET" && req.URL.Host == "src.example" && strings.Contains(req.URL.Path, "/blobs/sha256:") {
				var body []byte
				for _, nd := range w.g.Nodes {
					if strings.HasSuffix(req.URL.Path, nd.Digest) {
						body = nd.Body
					}
				}
				if len(body) < 2 {
					return nil
				}
				once.Do(func() { go func() { time.Sleep(15 * time.Millisecond); ccancel() }() })
				rs := memrt.Resp(200, map[string]string{"Content-Type": "application/octet-stream", "Content-Length": fmt.Sprint(len(body))}, nil)
				rs.Body = &stallBody{b: body, ctx: req.Context()}
				rs.ContentLength = int64(len(body))
				return rs
			}
			return nil
		}
	}
	if c.Kind == "cancel" && c.Pair != "dir2dir" {
		w.hook = func(n int, req *http.Request) *http.Response {
			if n == c.CancelAt {
				ccancel()
			}
			return nil
		}
	}
	cbN := 0
	var cbMu sync.Mutex
	gateCh := make(chan struct{})
	gated := 0
	startedSeen := map[string]int{}
	if c.Kind == "cancel" && c.Pair == "dir2dir" || c.Kind == "gate" {
		opts = append(opts, regclient.ImageWithCallback(func(kind types.CallbackKind, instance string, state types.CallbackState, cur, total int64) {
			cbMu.Lock()
			cbN++
			n := cbN
			block := false
			if c.Kind == "gate" && kind == types.CallbackBlob && state == types.CallbackStarted {
				startedSeen[instance]++
				if startedSeen[instance] == 2 && gated < c.Gate {
					gated++
					block = true
					if gated == c.Gate {
						// all slots of the throttle are held by gated blobs: cancel, then let them finish
						go func() { time.Sleep(3 * time.Millisecond); ccancel(); time.Sleep(3 * time.Millisecond); close(gateCh) }()
					}
				}
			}
			cbMu.Unlock()
			if c.Kind == "cancel" && n == c.CancelAt {
				ccancel()
			}
			if block {
				select {
				case <-gateCh:
				case <-time.After(3 * time.Second):
				}
			}
		}))
	}
	if c.Kind == "closeduring" {
		// another user of the same client closes the target layout (which collects garbage) while the copy is under way: at the
		// CancelAt-th progress callback and once more a little later
		closed := 0
		opts = append(opts, regclient.ImageWithCallback(func(kind types.CallbackKind, instance string, state types.CallbackState, cur, total int64) {
			cbMu.Lock()
			cbN++
			n := cbN
			cbMu.Unlock()
			if (n == c.CancelAt || n == c.CancelAt+3) && state == types.CallbackFinished {
				closed++
				_ = w.rc.Close(ctx, w.tgtRef)
			} else if n == c.CancelAt || n == c.CancelAt+3 {
				_ = w.rc.Close(ctx, w.tgtRef)
			}
		}))
	}
	tagBefore := w.tgtTag()
	cerr := w.rc.ImageCopy(cctx, w.srcRef, w.tgtRef, opts...)
	if ctx.Err() != nil {
		res.Fail("copy-did-not-terminate pair="+c.Pair, "ImageCopy still running after 20s", c)
		return ""
	}
	recs := w.rt.Records()
	if os.Getenv("VH_DEBUG") != "" {
		for _, n := range w.g.Nodes {
			sub := ""
			if n.Subject != nil {
				sub = " subject=" + short(n.Subject.Digest)
			}
			fmt.Printf("NODE %d %s %s%s root=%v\n", n.ID, n.Kind, short(n.Digest), sub, n == w.g.Root)
		}
		for _, rc := range recs {
			fmt.Printf("REQ %d %s %s %s?%s -> %d\n", rc.N, rc.Host, rc.Method, rc.Path, rc.Query, rc.Status)
		}
	}
	res.Count(fmt.Sprintf("%s:%s:ok=%v", c.Kind, c.Pair, cerr == nil))
	root := w.g.Root
	clo := imgen.Closure(root, c.External)
	tagAfter := w.tgtTag()
	// ---------- C03: success => tag = source digest and closure present with identical bytes ----------
	if cerr == nil {
		if tagAfter != root.Digest {
			res.Fail("success-but-tag-wrong pair="+c.Pair, fmt.Sprintf("ImageCopy returned nil but the target tag resolves to %q, source is %s", tagAfter, root.Digest), c)
		}
		for d, n := range clo {
			b, ok := w.tgtHas(d)
			if !ok || string(b) != string(n.Body) {
				res.Fail(fmt.Sprintf("success-but-incomplete pair=%s kind=%s", c.Pair, c.Kind), fmt.Sprintf("ImageCopy returned nil but %s %s is missing or differs at the target", n.Kind, d), c)
				break
			}
		}
		if c.Referrers && c.Pair != "samerepo" {
			for _, a := range w.g.Refs {
				for d, n := range imgen.Closure(a, false) {
					if b, ok := w.refHas(c, d); !ok || string(b) != string(n.Body) {
						res.Fail("success-but-referrer-missing pair="+c.Pair, fmt.Sprintf("referrers requested but %s %s (referrer %s) is not at the target", n.Kind, d, short(a.Digest)), c)
						break
					}
				}
			}
		}
	} else if c.Kind == "copy" || c.Kind == "foreign" || c.Kind == "closeduring" {
		res.Fail("copy-failed-without-fault pair="+c.Pair, fmt.Sprintf("ImageCopy failed with no fault injected: %v", cerr), c)
	}
	// ---------- C04 ----------
	if cerr != nil && tagAfter != tagBefore {
		res.Fail("failure-moved-tag pair="+c.Pair, fmt.Sprintf("ImageCopy failed (%v) but the tag moved from %q to %q", cerr, tagBefore, tagAfter), c)
	}
	if c.RefTgt { // two target repositories: the write and fetch accounting below is per single target
		return ""
	}
	written := map[string]bool{}
	if w.tgtIsReg() {
		w.tgt.Lock()
		puts := append([]memreg.PutRecord(nil), w.tgt.Puts...)
		w.tgt.Unlock()
		lastWrite := -1
		tagWrite := -1
		for _, p := range puts {
			if p.Repo != w.tgtRepo {
				continue
			}
			written[p.Digest] = true
			node := clo[p.Digest]
			var missing []string
			for _, m := range p.Missing {
				foreign := false
				if node != nil {
					for i, ch := range node.Children {
						if ch.Digest == m && node.Foreign[i] {
							foreign = true
						}
					}
				}
				if !foreign {
					missing = append(missing, short(m))
				}
			}
			if len(missing) > 0 {
				res.Fail("parent-before-child pair="+c.Pair, fmt.Sprintf("manifest %s (%s) was pushed while %v were not yet at the target", short(p.Digest), p.Ref, missing), c)
			}
			if !strings.Contains(p.Ref, ":") {
				tagWrite = p.N
			}
		}
		for _, rc := range recs {
			if rc.Host == w.tgt.Name && strings.Contains(rc.Path, "/"+w.tgtRepo+"/") && rc.Method != "GET" && rc.Method != "HEAD" && rc.Status < 300 && rc.Status >= 200 {
				lastWrite = rc.N
			}
		}
		if tagWrite >= 0 && lastWrite > tagWrite && !c.Referrers && !c.DigestTags {
			res.Fail("write-after-tag pair="+c.Pair, fmt.Sprintf("the tag was written by request %d but request %d still wrote to the target", tagWrite, lastWrite), c)
		}
	} else {
		for _, n := range w.g.Nodes {
			if _, ok := w.tgtHas(n.Digest); ok {
				written[n.Digest] = true
			}
		}
	}
	if bad := w.unclosed(written); len(bad) > 0 {
		res.Fail(fmt.Sprintf("incomplete-image-left pair=%s ok=%v", c.Pair, cerr == nil), fmt.Sprintf("after ImageCopy (err=%v) the target holds manifests whose content is missing: %v", cerr, bad), c)
	}
	// ---------- C14 ----------
	if w.tgtIsReg() || c.Pair == "reg2dir" {
		getSrc := map[string]int{}
		commits := map[string]int{}
		mounts := map[string]int{}
		manPuts := 0
		tgtWrites := 0
		blobReqs := 0
		for _, rc := range recs {
			isTgtRepo := rc.Host == w.tgt.Name && strings.Contains(rc.Path, "/"+w.tgtRepo+"/") && w.tgtIsReg()
			isSrcRepo := rc.Host == "src.example" && strings.Contains(rc.Path, "/"+w.srcRepo+"/")
			if strings.Contains(rc.Path, "/blobs/") {
				blobReqs++
			}
			if isSrcRepo && rc.Method == "GET" && strings.Contains(rc.Path, "/blobs/sha256:") && rc.Status == 200 {
				getSrc[rc.Path[strings.LastIndex(rc.Path, "/")+1:]]++
			}
			if isTgtRepo && rc.Method == "PUT" && strings.Contains(rc.Path, "/blobs/uploads/") && rc.Status == 201 {
				q := rc.Query
				if i := strings.Index(q, "digest="); i >= 0 {
					dg := strings.ReplaceAll(q[i+7:], "%3A", ":")
					if j := strings.IndexByte(dg, '&'); j >= 0 {
						dg = dg[:j]
					}
					commits[dg]++
				}
			}
			if isTgtRepo && rc.Method == "POST" && strings.Contains(rc.Query, "mount=") && rc.Status == 201 {
				mounts[rc.Query]++
			}
			if isTgtRepo && rc.Method == "PUT" && strings.Contains(rc.Path, "/manifests/") && rc.Status == 201 {
				manPuts++
			}
			if isTgtRepo && rc.Method != "GET" && rc.Method != "HEAD" {
				tgtWrites++
			}
		}
		noFault := c.Kind == "copy"
		for d, k := range getSrc {
			if w.tgt0[d] && c.Pair != "samerepo" && noFault {
				res.Fail("downloaded-blob-target-has pair="+c.Pair, fmt.Sprintf("blob %s was already in the target repository but was fetched from the source %d time(s)", short(d), k), c)
			}
			if k > 1 && noFault {
				res.Fail("blob-downloaded-twice pair="+c.Pair, fmt.Sprintf("blob %s was fetched from the source %d times", short(d), k), c)
			}
			if c.Pair == "samereg" && c.Mount && (noFault || strings.HasPrefix(c.FaultKind, "mount")) {
				res.Fail("transfer-despite-mount pair=samereg", fmt.Sprintf("same registry with mounts granted, but blob %s was downloaded", short(d)), c)
			}
		}
		for d, k := range commits {
			if k > 1 && noFault {
				res.Fail("blob-uploaded-twice pair="+c.Pair, fmt.Sprintf("blob %s was committed %d times", short(d), k), c)
			}
		}
		if c.Pair == "samerepo" && noFault && !c.Recursive && !c.Referrers && !c.DigestTags {
			if blobReqs > 0 || manPuts != 1 {
				res.Fail("retag-moved-content", fmt.Sprintf("retag within one repository issued %d blob requests and %d manifest pushes", blobReqs, manPuts), c)
			}
		}
		if c.PrepopAll && c.Pair != "samerepo" && noFault && !c.Recursive && !c.Referrers && !c.DigestTags && w.tgtIsReg() && tgtWrites > 0 {
			res.Fail(fmt.Sprintf("identical-image-rewritten nohead=%v", c.NoHeadDig), fmt.Sprintf("the target already held the identical image but %d state-changing requests were sent", tgtWrites), c)
		}
	}
	// ---------- Coq trace ----------
	if !w.tgtIsReg() {
		return ""
	}
	idOf := map[string]int{}
	for _, n := range w.g.Nodes {
		idOf[n.Digest] = n.ID + 1
	}
	var refsT, tgt0T, trace, blobsT []string
	for _, n := range w.g.Nodes {
		if n.Kind == "blob" {
			continue
		}
		var ch []string
		for i, cn := range n.Children {
			if n.Foreign[i] && !c.External {
				continue
			}
			ch = append(ch, fmt.Sprint(idOf[cn.Digest]))
		}
		refsT = append(refsT, fmt.Sprintf("(%d, [%s])", idOf[n.Digest], strings.Join(ch, "; ")))
	}
	var t0 []string
	for d := range w.tgt0 {
		if id, ok := idOf[d]; ok {
			t0 = append(t0, fmt.Sprint(id))
		}
	}
	sort.Strings(t0)
	tgt0T = t0
	present := map[string]bool{}
	for d := range w.tgt0 {
		present[d] = true
	}
	w.tgt.Lock()
	puts := append([]memreg.PutRecord(nil), w.tgt.Puts...)
	w.tgt.Unlock()
	putAt := map[int]memreg.PutRecord{}
	for _, p := range puts {
		if p.Repo == w.tgtRepo {
			putAt[p.N] = p
		}
	}
	type blobObs struct{ got, up, mounted bool }
	bo := map[string]*blobObs{}
	for _, rc := range recs {
		isTgtRepo := rc.Host == w.tgt.Name && strings.Contains(rc.Path, "/"+w.tgtRepo+"/")
		if rc.Host == "src.example" && rc.Method == "GET" && strings.Contains(rc.Path, "/"+w.srcRepo+"/blobs/sha256:") && rc.Status == 200 {
			d := rc.Path[strings.LastIndex(rc.Path, "/")+1:]
			if bo[d] == nil {
				bo[d] = &blobObs{}
			}
			bo[d].got = true
		}
		if !isTgtRepo {
			continue
		}
		if rc.Method == "PUT" && strings.Contains(rc.Path, "/blobs/uploads/") && rc.Status == 201 || rc.Method == "POST" && strings.Contains(rc.Query, "mount=") && rc.Status == 201 {
			q := rc.Query
			key := "digest="
			if rc.Method == "POST" {
				key = "mount="
			}
			if i := strings.Index(q, key); i >= 0 {
				dg := strings.ReplaceAll(q[i+len(key):], "%3A", ":")
				if j := strings.IndexByte(dg, '&'); j >= 0 {
					dg = dg[:j]
				}
				if id, ok := idOf[dg]; ok {
					trace = append(trace, fmt.Sprintf("EBlob %d", id))
					present[dg] = true
					if bo[dg] == nil {
						bo[dg] = &blobObs{}
					}
					if rc.Method == "POST" {
						bo[dg].mounted = true
					} else {
						bo[dg].up = true
					}
				}
			}
		}
		if p, ok := putAt[rc.N]; ok && rc.Method == "PUT" && rc.Status == 201 {
			id, known := idOf[p.Digest]
			if !known {
				continue // referrer fallback index etc.: not part of the graph
			}
			node := clo[p.Digest]
			if node == nil {
				for _, a := range w.g.Nodes {
					if a.Digest == p.Digest {
						node = a
					}
				}
			}
			var waited []string
			for i, ch := range node.Children {
				if node.Foreign[i] && !c.External {
					continue
				}
				r := "None"
				if !present[ch.Digest] {
					r = "(Some EOther)"
				}
				trace = append(trace, fmt.Sprintf("ERet %d %s", idOf[ch.Digest], r))
				waited = append(waited, fmt.Sprintf("(%d, %s)", idOf[ch.Digest], r))
			}
			ev := "EPut"
			if !strings.Contains(p.Ref, ":") {
				ev = "ETag"
			}
			trace = append(trace, fmt.Sprintf("%s %d [%s]", ev, id, strings.Join(waited, "; ")))
			present[p.Digest] = true
		}
	}
	if cerr == nil && present[root.Digest] {
		trace = append(trace, fmt.Sprintf("ERet %d None", idOf[root.Digest]))
	}
	if c.Kind == "copy" && c.Pair != "samerepo" && c.Pair != "dir2reg" {
		for d, n := range clo {
			if n.Kind != "blob" {
				continue
			}
			o := bo[d]
			if o == nil {
				o = &blobObs{}
			}
			blobsT = append(blobsT, fmt.Sprintf("mkB false %s %s %s %s %s %s %s", lib.CoqBool(w.tgt0[d]), lib.CoqBool(c.Pair == "samereg"), lib.CoqBool(c.Mount), lib.CoqBool(len(n.Body) == 0 || n.Inline),
				lib.CoqBool(o.got), lib.CoqBool(o.up), lib.CoqBool(o.mounted)))
		}
	}
	sort.Strings(blobsT)
	// the finalFn phase and referrer/digest-tag sub-copies write after the tag: only default-option runs are replayed
	if c.Referrers || c.DigestTags {
		return ""
	}
	main := fmt.Sprintf("XC (mkCase [%s] [%s] [%s] %s %d [%s])", strings.Join(refsT, "; "), strings.Join(tgt0T, "; "), strings.Join(trace, "; "),
		lib.CoqBool(cerr == nil), idOf[root.Digest], strings.Join(blobsT, "; "))
	// the head ladder of the root manifest (Model/C14_Head.v): registry source and target, no fault, digests reported by HEAD
	if c.Kind == "copy" && (c.Pair == "regreg" || c.Pair == "samereg") && !c.NoHeadDig {
		var obs []string
		for _, rc := range recs {
			switch {
			case rc.Host == w.tgt.Name && rc.Method == "HEAD" && rc.Path == "/v2/"+w.tgtRepo+"/manifests/copy":
				obs = append(obs, "0")
			case rc.Host == "src.example" && rc.Method == "HEAD" && rc.Path == "/v2/"+w.srcRepo+"/manifests/v1":
				obs = append(obs, "1")
			case rc.Host == "src.example" && rc.Method == "GET" && rc.Path == "/v2/"+w.srcRepo+"/manifests/v1":
				obs = append(obs, "2")
			}
		}
		tgt, tl := "None", false
		if w.tag0 != "" {
			tgt = "(Some 9999)"
			if w.tag0 == root.Digest {
				tgt = fmt.Sprintf("(Some %d)", idOf[root.Digest])
				tl = root.Kind == "index"
			}
		}
		skipped := cerr == nil && len(recs) == len(obs)
		main += "\x00" + fmt.Sprintf("XH %s None %d false %s %s %s %s [%s] %s", tgt, idOf[root.Digest], lib.CoqBool(c.Recursive), lib.CoqBool(c.Referrers),
			lib.CoqBool(c.DigestTags), lib.CoqBool(tl), strings.Join(obs, "; "), lib.CoqBool(skipped))
	}
	return main
}

func genCase(r *lib.Rand, focus string) Case {
	c := Case{Seed: r.U64(), Kind: "copy"}
	c.Pair = lib.Pick(r, []string{"regreg", "regreg", "regreg", "samereg", "samereg", "samerepo", "reg2dir", "dir2reg", "dir2dir"})
	c.Mount = r.Bool()
	c.Prepop = lib.Pick(r, []int{0, 0, 30, 60, 100})
	c.PrepopAll = r.Chance(8)
	c.StaleTag = r.Chance(15)
	c.Recursive = r.Chance(15)
	c.Referrers = r.Chance(30)
	c.DigestTags = r.Chance(8)
	c.External = r.Chance(10)
	c.NoHeadDig = r.Chance(12)
	c.RefAPI = r.Bool()
	c.Latency = r.Chance(60)
	c.XGraph = r.Chance(30)
	c.Cache = r.Chance(40)
	c.Again = r.Chance(50)
	if (c.Pair == "reg2dir" || c.Pair == "dir2dir") && r.Chance(40) {
		c.DirPre = lib.Pick(r, []string{"blobs", "blobs", "all", "listed", "other"})
	}
	c.RefTgt = c.Referrers && (c.Pair == "regreg" || c.Pair == "samereg") && c.Seed%2 == 0
	k := r.Intn(100)
	faultShare := 25
	if focus == "C04" {
		faultShare = 70
	}
	if focus == "C14" {
		faultShare = 5
		c.Referrers, c.DigestTags, c.Recursive = false, false, false
	}
	if k < faultShare {
		if r.Bool() {
			c.Kind = "fault"
			c.FaultAt = 1 + r.Intn(25)
			c.FaultKind = lib.Pick(r, []string{"500", "404", "reset", "429"})
			c.FaultN = lib.Pick(r, []int{1, 1, 2, 5, 9})
		} else {
			c.Kind = "cancel"
			c.CancelAt = 1 + r.Intn(25)
		}
	}
	if c.Kind != "copy" || !c.Referrers {
		c.RefTgt = false
	}
	return c
}

func nontrivial(c Case) bool {
	return c.Kind != "copy" || c.Prepop > 0 || c.Referrers || c.Pair != "regreg"
}

func Run(focus string) func(o lib.Opts) {
	return func(o lib.Opts) {
		res := lib.NewResult(focus, o.Tier, o.Seed)
		res.Rule = "one splitmix64 stream: image graphs (single image, index of 2-4 images, nested index with a child shared by two sub-indexes, Docker and OCI media types, shared/duplicate/empty/foreign layers, blob-typed index entries, referrers incl. referrer of referrer; 30% from the extended generator: descriptors with inline data, OCI artifact manifests as root / index entry / referrer, index entries of unknown type that are plain blobs, Docker schema1 images unsigned and signed) x endpoint pairing {two registries, same registry with mount granted/refused, same repository, registry->layout, layout->registry, layout->layout} x target pre-population {empty, random subset, identical image, stale tag} x options {recursive, referrers, digest-tags, include-external} x registry features {HEAD digest header, referrers API} x per-request latencies; fault runs inject 1-9 faults {500, 404, connection reset, 429} from request k or cancel the context at request/callback k, gate runs hold the throttle with blocked blob copies and cancel; non-trivial = anything but a plain fresh registry-to-registry copy; distinct by case. Focus " + focus
		dir := o.Out
		if o.Replay != "" {
			var f struct{ Case Case }
			b, err := os.ReadFile(o.Replay)
			if err == nil {
				err = json.Unmarshal(b, &f)
			}
			if err != nil {
				fmt.Println("replay:", err)
				os.Exit(2)
			}
			for i := 0; i < 3 && len(res.Failures) == 0; i++ {
				run(f.Case, os.TempDir(), res)
			}
			for _, fl := range res.Failures {
				fmt.Printf("REPLAY-FAIL %s: %s\n", fl.Sig, fl.Desc)
			}
			if len(res.Failures) == 0 {
				fmt.Println("REPLAY-OK")
			}
			return
		}
		r := lib.NewRand(o.Seed ^ uint64(len(focus))*977 ^ uint64(focus[2]))
		cw := lib.NewCaseWriter(o.Out, focus, "From Coq Require Import List.\nFrom Verif Require Import Model.C03_Copy Corr.C03.\nImport ListNotations.", "xcase", 300)
		var all []Case
		if focus == "C04" {
			for _, g := range []int{3} {
				for _, l := range []int{5, 7, 9} {
					all = append(all, Case{Kind: "gate", Seed: uint64(l), Pair: "dir2dir", Gate: g, Layers: l})
					all = append(all, Case{Kind: "gate", Seed: uint64(l) + 100, Pair: "reg2dir", Gate: g, Layers: l})
				}
			}
		}
		if focus == "C03" {
			for i := uint64(0); i < 12; i++ { // identical image already at the target, then a copy that wants the referrers too
				all = append(all, Case{Kind: "copy", Seed: 4000 + i, Pair: "regreg", PrepopAll: true, Referrers: true, RefAPI: i%2 == 0})
			}
		}
		if focus == "C03" {
			for i := uint64(0); i < 6; i++ { // layout targets that already list the image: complete, or with the manifest file gone
				all = append(all, Case{Kind: "copy", Seed: 4400 + i, Pair: lib.Pick(r, []string{"reg2dir", "dir2dir"}), DirPre: lib.Pick(r, []string{"listed", "listed", "all"}), Referrers: i%3 == 0, RefAPI: true})
			}
		}
		if focus == "C04" {
			// the copy fails at its last step (the place of the root manifest file is occupied): the tag keeps its old image
			for i := uint64(0); i < 4; i++ {
				all = append(all, Case{Kind: "blocked", Seed: 4900 + i, Pair: lib.Pick(r, []string{"reg2dir", "dir2dir"}), DirPre: "blockroot", XGraph: i == 3})
			}
		}
		if focus == "C03" || focus == "C04" {
			// the target layout is closed (collected) by another user of the client in the middle of the copy
			for i := uint64(0); i < 10; i++ {
				all = append(all, Case{Kind: "closeduring", Seed: 4800 + i, Pair: lib.Pick(r, []string{"reg2dir", "reg2dir", "dir2dir"}), CancelAt: 2 + int(i), DirPre: "other", XGraph: i%3 == 0})
			}
		}
		if focus == "C03" || focus == "C04" {
			// a first copy in which every child manifest push (or every referrers request) fails, then a second copy
			// through the same client
			for i := uint64(0); i < 8; i++ {
				all = append(all, Case{Kind: "fault", Seed: 4500 + i, Pair: lib.Pick(r, []string{"regreg", "samereg", "dir2reg"}), FaultKind: "childput", Again: true, Cache: i%4 != 3, Latency: i%2 == 0})
			}
			for i := uint64(0); i < 6; i++ {
				all = append(all, Case{Kind: "fault", Seed: 4600 + i, Pair: lib.Pick(r, []string{"regreg", "reg2dir"}), FaultKind: "referrers", Again: true, Cache: i%2 == 0, Referrers: true, RefAPI: true})
			}
		}
		if focus == "C03" || focus == "C04" {
			// a layer with external URLs copied with include-external: the manifest may only be pushed once that layer is at the target
			for i := uint64(0); i < 4; i++ {
				all = append(all, Case{Kind: "foreign", Seed: 4100 + i, Pair: lib.Pick(r, []string{"regreg", "reg2dir"}), External: true})
			}
		}
		if focus == "C04" {
			for i := uint64(0); i < 14; i++ {
				all = append(all, Case{Kind: "sharedfault", Seed: 4200 + i, Pair: lib.Pick(r, []string{"regreg", "reg2dir", "regreg"}), Referrers: i%2 == 0, RefAPI: true, Latency: true})
			}
			for i := uint64(0); i < 8; i++ {
				all = append(all, Case{Kind: "stallcancel", Seed: 4300 + i, Pair: "reg2dir"})
			}
		}
		if focus == "C03" || focus == "C04" {
			// fixed: an OCI artifact manifest listed in an index, source = layout: a fault inside its copy ended in the
			// blob fall-back and the copy reported success without the artifact's content (minimised from the extended generator)
			all = append(all, Case{Kind: "fault", Seed: 5044, Pair: "dir2reg", XGraph: true, FaultAt: 9, FaultKind: "reset", FaultN: 5},
				Case{Kind: "fault", Seed: 5051, Pair: "dir2reg", XGraph: true, FaultAt: 5, FaultKind: "reset", FaultN: 5},
				Case{Kind: "fault", Seed: 5094, Pair: "dir2reg", XGraph: true, FaultAt: 4, FaultKind: "reset", FaultN: 5},
				Case{Kind: "fault", Seed: 5193, Pair: "dir2reg", XGraph: true, FaultAt: 4, FaultKind: "reset", FaultN: 5})
		}
		if focus == "C14" {
			for i := uint64(0); i < 6; i++ { // one transient fault on the first mount request
				all = append(all, Case{Kind: "fault", Seed: 4700 + i, Pair: "samereg", Mount: true, FaultKind: lib.Pick(r, []string{"mount429", "mount502"}), Latency: i%2 == 0})
			}
			all = append(all, Case{Kind: "copy", Seed: 11, Pair: "regreg", PrepopAll: true, NoHeadDig: true}, Case{Kind: "copy", Seed: 12, Pair: "regreg", PrepopAll: true},
				Case{Kind: "copy", Seed: 13, Pair: "samerepo"}, Case{Kind: "copy", Seed: 14, Pair: "samereg", Mount: true}, Case{Kind: "copy", Seed: 15, Pair: "samereg", Mount: true, Latency: true})
		}
		n := o.Scale(220, 8000)
		for i := 0; i < n; i++ {
			all = append(all, genCase(r, focus))
		}
		seen := lib.Set{}
		for _, c := range all {
			res.Evaluations++
			kb, _ := json.Marshal(c)
			if _, dup := seen[string(kb)]; !dup && nontrivial(c) {
				res.Distinct++
			}
			seen.Add(string(kb))
			term := run(c, dir, res)
			if o.Mode != "search" && term != "" {
				for _, t := range strings.Split(term, "\x00") {
					cw.Add(t, c)
				}
			}
			res.Sample(c, 3)
		}
		cw.Close(res)
		_ = errors.New
		lib.WriteResult(o.Out, res)
	}
}
