// Package c12: bounded retries, recovery from transient faults, writes that skip mirrors.
// (A) Resp.next against scripted replies on an upstream + mirrors topology, compared with the Coq model
//
//	(hosts attempted in order, outcome); (B) oracles: attempt bound per logical request incl. resumed
//	reads, termination under a watchdog, no state-changing request at a mirror for every mutating API,
//	transient faults absorbed, documented host order.
package c12

import (
	"bytes"
	"context"
	"encoding/json"
	"errors"
	"fmt"
	"io"
	"net/http"
	"os"
	"sort"
	"strings"
	"sync"
	"time"

	"github.com/regclient/regclient"
	"github.com/regclient/regclient/config"
	"github.com/regclient/regclient/scheme/reg"
	"github.com/regclient/regclient/types/descriptor"
	"github.com/regclient/regclient/types/errs"
	"github.com/regclient/regclient/types/manifest"
	"github.com/regclient/regclient/types/ref"

	"github.com/opencontainers/go-digest"

	"verifharness/lib"
	"verifharness/memreg"
	"verifharness/memrt"
)

type Reply struct {
	K    string // ok | net | status
	Code int    `json:",omitempty"`
	Acc  bool   `json:",omitempty"` // 401: challenge the client accepts (rotating Basic realm)
	RA   int    `json:",omitempty"` // backoff cases: Retry-After header in seconds
}
type Host struct {
	ID   int
	Prio int
}
type Case struct {
	Kind       string // next | mutate | transient | order | resume | backoff
	Limit      int
	Mirrors    []Host  `json:",omitempty"`
	UpPrio     int     `json:",omitempty"`
	Replies    []Reply `json:",omitempty"`
	NoMirrors  bool    `json:",omitempty"` // request kind: true = ManifestDelete (mutating), false = ManifestGet
	API        string  `json:",omitempty"`
	Drops      int     `json:",omitempty"`
	ResumeRA   bool    `json:",omitempty"` // resume cases: the truncated responses carry Retry-After: 1
	MirrorGone int     `json:",omitempty"` // resume cases: a mirror answers 404 for the blob after this many requests (0 = never)
}

var hostNames = []string{"reg.example", "m1.example", "m2.example"}

var manBody = []byte(`{"schemaVersion":2,"mediaType":"application/vnd.oci.image.manifest.v1+json","config":{"mediaType":"application/vnd.oci.empty.v1+json","digest":"sha256:44136fa355b3678a1146ad16f7e8649e94fb4fc21fe77e8310c060f61caaff8a","size":2},"layers":[]}`)

type topo struct {
	rc   *regclient.RegClient
	regs []*memreg.Registry
	rt   *memrt.RT
	mu   sync.Mutex
	hook func(host int, req *http.Request, n int) *http.Response
}

func newTopo(c Case) *topo {
	t := &topo{}
	for i := range hostNames {
		r := memreg.New(hostNames[i], memreg.Features{Delete: true, TagDelete: true, MountGrant: true})
		r.PutBlob("repo", []byte("{}"))
		r.PutBlob("repo", []byte("layer-data"))
		r.PutBlob("other", []byte("layer-data"))
		r.PutManifest("repo", "tag", "application/vnd.oci.image.manifest.v1+json", manBody)
		t.regs = append(t.regs, r)
	}
	t.rt = &memrt.RT{}
	t.rt.Handler = func(req *http.Request, body []byte, n int) *http.Response {
		hi := -1
		for i, h := range hostNames {
			if req.URL.Host == h {
				hi = i
			}
		}
		if hi < 0 {
			return nil
		}
		t.mu.Lock()
		hk := t.hook
		t.mu.Unlock()
		if hk != nil {
			if rs := hk(hi, req, n); rs != nil {
				return rs
			}
		}
		return t.regs[hi].Handle(req, body, n)
	}
	hosts := []config.Host{{Name: hostNames[0], Hostname: hostNames[0], TLS: config.TLSDisabled, Priority: uint(c.UpPrio), User: "u", Pass: "p"}}
	for _, m := range c.Mirrors {
		hosts[0].Mirrors = append(hosts[0].Mirrors, hostNames[m.ID])
		hosts = append(hosts, config.Host{Name: hostNames[m.ID], Hostname: hostNames[m.ID], TLS: config.TLSDisabled, Priority: uint(m.Prio), User: "u", Pass: "p"})
	}
	if c.Kind == "uploadloop" { // several chunks per upload
		hosts[0].BlobChunk = 64
	}
	lim := c.Limit
	if lim <= 0 {
		lim = 3
	}
	t.rc = regclient.New(regclient.WithConfigHosts(hosts),
		regclient.WithRegOpts(reg.WithHTTPClient(&http.Client{Transport: t.rt}), reg.WithDelay(time.Millisecond, 4*time.Millisecond), reg.WithRetryLimit(lim)))
	return t
}

func hostIdx(h string) int {
	for i, n := range hostNames {
		if n == h {
			return i
		}
	}
	return -1
}

func mkResp(r Reply, n int) *http.Response {
	switch r.K {
	case "net":
		return nil
	case "status":
		h := map[string]string{}
		if r.Code == 401 && r.Acc {
			h["WWW-Authenticate"] = fmt.Sprintf(`Basic realm="realm-%d"`, n)
		}
		return memrt.Resp(r.Code, h, []byte(`{"errors":[]}`))
	}
	return nil
}

func coqReply(r Reply) string {
	switch r.K {
	case "ok":
		return "ROk"
	case "net":
		return "RNet"
	}
	return fmt.Sprintf("(RStatus %d %s false)", r.Code, lib.CoqBool(r.Acc))
}

func runNext(c Case, res *lib.Result) string {
	t := newTopo(c)
	var attempts []int
	k := 0
	t.hook = func(hi int, req *http.Request, n int) *http.Response {
		if !strings.Contains(req.URL.Path, "/manifests/") {
			return nil
		}
		attempts = append(attempts, hi)
		i := k
		k++
		if i >= len(c.Replies) || c.Replies[i].K == "ok" {
			return nil // served by the registry (success)
		}
		if c.Replies[i].K == "net" {
			return &http.Response{StatusCode: -1}
		}
		return mkResp(c.Replies[i], n)
	}
	// transport errors: a response with StatusCode -1 is turned into an error by wrapping the handler
	inner := t.rt.Handler
	t.rt.Handler = func(req *http.Request, body []byte, n int) *http.Response {
		rs := inner(req, body, n)
		if rs != nil && rs.StatusCode == -1 {
			return nil
		}
		return rs
	}
	ctx, cancel := context.WithTimeout(context.Background(), 10*time.Second)
	defer cancel()
	var err error
	if c.NoMirrors {
		r, _ := ref.New(hostNames[0] + "/repo@" + memreg.Digest("sha256", manBody))
		err = t.rc.ManifestDelete(ctx, r)
	} else {
		r, _ := ref.New(hostNames[0] + "/repo:tag")
		_, err = t.rc.ManifestGet(ctx, r)
	}
	if ctx.Err() != nil {
		res.Fail("request-did-not-terminate", fmt.Sprintf("request still running after 10s, %d attempts so far", len(attempts)), c)
		return ""
	}
	code, hostOK := 2, 0
	switch {
	case err == nil:
		code = 0
		if len(attempts) > 0 {
			hostOK = attempts[len(attempts)-1]
		}
	case errors.Is(err, errs.ErrRetryLimitExceeded):
		code = 1
	}
	if len(attempts) > c.Limit+1 {
		res.Fail("attempts-exceed-limit", fmt.Sprintf("retry limit %d but %d attempts were made: %v", c.Limit, len(attempts), attempts), c)
	}
	if c.NoMirrors {
		for _, a := range attempts {
			if a != 0 {
				res.Fail("mutating-request-at-mirror api=ManifestDelete", fmt.Sprintf("DELETE reached mirror %s", hostNames[a]), c)
			}
		}
	}
	res.Count(fmt.Sprintf("next:result=%d", code))
	var ms, rs, at []string
	for _, m := range c.Mirrors {
		ms = append(ms, fmt.Sprintf("mkHost %d %d false", m.ID, m.Prio))
	}
	for _, r := range c.Replies {
		rs = append(rs, coqReply(r))
	}
	for _, a := range attempts {
		at = append(at, fmt.Sprint(a))
	}
	return fmt.Sprintf("mkCase %d false %s %s (mkHost 0 %d true) %s %s (%d, %d)", c.Limit, lib.CoqBool(c.NoMirrors), lib.CoqList(ms), c.UpPrio,
		lib.CoqList(rs), lib.CoqList(at), code, hostOK)
}

// every mutating API with mirrors configured: no state-changing request may reach a mirror
func runMutate(c Case, res *lib.Result) {
	t := newTopo(c)
	ctx, cancel := context.WithTimeout(context.Background(), 15*time.Second)
	defer cancel()
	rTag, _ := ref.New(hostNames[0] + "/repo:newtag")
	rOld, _ := ref.New(hostNames[0] + "/repo:tag")
	layer := []byte("layer-data")
	ld := descriptor.Descriptor{Digest: digest.FromBytes(layer), Size: int64(len(layer)), MediaType: "application/octet-stream"}
	var err error
	switch c.API {
	case "BlobDelete":
		err = t.rc.BlobDelete(ctx, rOld, ld)
	case "BlobPut":
		nb := []byte("fresh content " + c.API)
		_, err = t.rc.BlobPut(ctx, rOld, descriptor.Descriptor{Digest: digest.FromBytes(nb), Size: int64(len(nb))}, bytes.NewReader(nb))
	case "BlobPutChunked":
		nb := bytes.Repeat([]byte("0123456789"), 30)
		_, err = t.rc.BlobPut(ctx, rOld, descriptor.Descriptor{}, io.MultiReader(bytes.NewReader(nb)))
	case "BlobMount":
		rOther, _ := ref.New(hostNames[0] + "/other:x")
		err = t.rc.BlobMount(ctx, rOther, rTag, ld)
	case "ManifestPut":
		m, _ := manifest.New(manifest.WithRaw(manBody))
		err = t.rc.ManifestPut(ctx, rTag, m)
	case "ManifestDelete":
		r, _ := ref.New(hostNames[0] + "/repo@" + memreg.Digest("sha256", manBody))
		err = t.rc.ManifestDelete(ctx, r)
	case "TagDelete":
		err = t.rc.TagDelete(ctx, rOld)
	}
	_ = err
	for _, rec := range t.rt.Records() {
		hi := hostIdx(rec.Host)
		if hi != 0 && rec.Method != "GET" && rec.Method != "HEAD" {
			res.Fail("mutating-request-at-mirror api="+c.API, fmt.Sprintf("%s: %s %s was sent to mirror %s", c.API, rec.Method, rec.Path, rec.Host), c)
			break
		}
	}
	res.Count("mutate:" + c.API)
}

// an upload session whose every chunk is refused (c.Drops = the status, 400 / 500 / 404) while the session status
// request keeps answering 204 with an unchanged Range: BlobPut must give up after a bounded number of requests
func runUploadLoop(c Case, res *lib.Result) {
	t := newTopo(c)
	patches := 0
	t.hook = func(hi int, req *http.Request, n int) *http.Response {
		if req.Method == "PATCH" && strings.Contains(req.URL.Path, "/blobs/uploads/") {
			patches++
			if patches == 1 || patches > 3000 { // the first chunk is stored, so that the session reports a Range
				return nil
			}
			return memrt.Resp(c.Drops, nil, []byte(`{"errors":[{"code":"BLOB_UPLOAD_INVALID"}]}`))
		}
		return nil
	}
	ctx, cancel := context.WithTimeout(context.Background(), 10*time.Second)
	defer cancel()
	r, _ := ref.New(hostNames[0] + "/repo:tag")
	nb := bytes.Repeat([]byte("0123456789"), 30)
	_, err := t.rc.BlobPut(ctx, r, descriptor.Descriptor{}, io.MultiReader(bytes.NewReader(nb)))
	if os.Getenv("VH_DEBUG") != "" {
		for _, rec := range t.rt.Records() {
			fmt.Println("REQ", rec.N, rec.Method, rec.Path, rec.Query, rec.Header.Get("Content-Range"), len(rec.Body), "->", rec.Status)
		}
		fmt.Println("ERR", err, "patches", patches)
	}
	if ctx.Err() != nil || patches > 200 {
		res.Fail("upload-repeats-without-progress", fmt.Sprintf("every chunk refused with %d, status probe 204 with unchanged Range: %d PATCH requests, still running after 10s: %v", c.Drops, patches, ctx.Err() != nil), c)
	} else if err == nil && patches <= 3000 {
		res.Fail("upload-repeats-without-progress", "the upload reported success although every chunk was refused", c)
	}
	res.Count(fmt.Sprintf("uploadloop:%d", c.Drops))
}

// every operation terminates, also after requests that were given up because their body could not be sent again (an upload
// from a reader that cannot rewind whose first attempt met a fault): c.Drops such uploads, then plain requests must answer
func runAfterAbandoned(c Case, res *lib.Result) {
	t := newTopo(c)
	seen := map[string]bool{}
	t.hook = func(hi int, req *http.Request, n int) *http.Response {
		if req.Method == "PUT" && strings.Contains(req.URL.Path, "/blobs/uploads/") && !seen[req.URL.Path] {
			seen[req.URL.Path] = true
			return memrt.Resp(500, nil, nil)
		}
		return nil
	}
	ctx, cancel := context.WithTimeout(context.Background(), 8*time.Second)
	defer cancel()
	r, _ := ref.New(hostNames[0] + "/repo:tag")
	for i := 0; i < c.Drops; i++ {
		nb := []byte(fmt.Sprintf("stream %d that cannot be read twice", i))
		_, _ = t.rc.BlobPut(ctx, r, descriptor.Descriptor{Digest: digest.FromBytes(nb), Size: int64(len(nb))}, io.MultiReader(bytes.NewReader(nb)))
	}
	_, err := t.rc.ManifestHead(ctx, r)
	if ctx.Err() != nil {
		res.Fail("request-did-not-terminate after-abandoned-uploads", fmt.Sprintf("after %d uploads that were given up as not re-sendable a manifest head did not return within 8s: %v", c.Drops, err), c)
	} else if err != nil {
		res.Fail("transient-not-absorbed api=ManifestHead-after-abandoned-uploads", fmt.Sprintf("manifest head failed: %v", err), c)
	}
	res.Count(fmt.Sprintf("afterabandoned:%d", c.Drops))
}

// k transient faults (k < limit) at the only host, then normal service: the operation must succeed
func runTransient(c Case, res *lib.Result) {
	t := newTopo(c)
	for _, tg := range []string{"t-a", "t-b", "t-c"} {
		t.regs[0].PutManifest("repo", tg, "application/vnd.oci.image.manifest.v1+json", manBody)
	}
	if c.API == "TagList" {
		t.regs[0].F.TagPage = 1
	}
	k := 0
	t.hook = func(hi int, req *http.Request, n int) *http.Response {
		if !strings.Contains(req.URL.Path, "/manifests/") && !strings.Contains(req.URL.Path, "/blobs/") && !strings.Contains(req.URL.Path, "/tags/list") {
			return nil
		}
		i := k
		k++
		if i < len(c.Replies) {
			if c.Replies[i].K == "net" {
				return &http.Response{StatusCode: -1}
			}
			return mkResp(c.Replies[i], n)
		}
		return nil
	}
	inner := t.rt.Handler
	t.rt.Handler = func(req *http.Request, body []byte, n int) *http.Response {
		rs := inner(req, body, n)
		if rs != nil && rs.StatusCode == -1 {
			return nil
		}
		return rs
	}
	ctx, cancel := context.WithTimeout(context.Background(), 10*time.Second)
	defer cancel()
	var err error
	switch c.API {
	case "ManifestGet":
		r, _ := ref.New(hostNames[0] + "/repo:tag")
		var m manifest.Manifest
		m, err = t.rc.ManifestGet(ctx, r)
		if err == nil && m.GetDescriptor().Digest.String() != memreg.Digest("sha256", manBody) {
			res.Fail("transient-wrong-result", "ManifestGet after transient faults returned a different manifest", c)
		}
	case "BlobGet":
		r, _ := ref.New(hostNames[0] + "/repo:tag")
		layer := []byte("layer-data")
		rd, e := t.rc.BlobGet(ctx, r, descriptor.Descriptor{Digest: digest.FromBytes(layer), Size: int64(len(layer))})
		err = e
		if e == nil {
			b, e2 := io.ReadAll(rd)
			_ = rd.Close()
			if e2 != nil || !bytes.Equal(b, layer) {
				err = fmt.Errorf("read: %v", e2)
			}
		}
	case "ManifestPut":
		r, _ := ref.New(hostNames[0] + "/repo:t2")
		m, _ := manifest.New(manifest.WithRaw(manBody))
		err = t.rc.ManifestPut(ctx, r, m)
	case "ManifestHead":
		r, _ := ref.New(hostNames[0] + "/repo:tag")
		var m manifest.Manifest
		m, err = t.rc.ManifestHead(ctx, r)
		if err == nil && m.GetDescriptor().Digest.String() != memreg.Digest("sha256", manBody) {
			res.Fail("transient-wrong-result", "ManifestHead after transient faults reported another digest", c)
		}
	case "BlobHead":
		r, _ := ref.New(hostNames[0] + "/repo:tag")
		layer := []byte("layer-data")
		var rd interface{ Close() error }
		rd, err = t.rc.BlobHead(ctx, r, descriptor.Descriptor{Digest: digest.FromBytes(layer), Size: int64(len(layer))})
		if err == nil {
			_ = rd.Close()
		}
	case "TagList": // a listing in pages of one tag: every page request may meet a fault
		r, _ := ref.New(hostNames[0] + "/repo")
		tl, e := t.rc.TagList(ctx, r)
		err = e
		if e == nil {
			got, _ := tl.GetTags()
			sort.Strings(got)
			if strings.Join(got, ",") != "t-a,t-b,t-c,tag" {
				res.Fail("transient-wrong-result", fmt.Sprintf("TagList over pages with transient faults returned %v", got), c)
			}
		}
	case "BlobPut":
		r, _ := ref.New(hostNames[0] + "/repo:tag")
		nb := []byte("blob pushed under transient faults")
		_, err = t.rc.BlobPut(ctx, r, descriptor.Descriptor{Digest: digest.FromBytes(nb), Size: int64(len(nb))}, bytes.NewReader(nb))
		if err == nil {
			t.regs[0].Lock()
			_, ok := t.regs[0].Repos["repo"].Blobs[digest.FromBytes(nb).String()]
			t.regs[0].Unlock()
			if !ok {
				res.Fail("transient-wrong-result", "BlobPut reported success but the registry does not hold the blob", c)
			}
		}
	case "TagDelete":
		r, _ := ref.New(hostNames[0] + "/repo:t-a")
		err = t.rc.TagDelete(ctx, r)
	}
	if ctx.Err() != nil {
		res.Fail("request-did-not-terminate", "operation with transient faults still running after 10s", c)
		return
	}
	if err != nil {
		res.Fail("transient-not-absorbed api="+c.API, fmt.Sprintf("%d transient faults with retry limit %d: %s failed: %v", len(c.Replies), c.Limit, c.API, err), c)
	}
	res.Count("transient:" + c.API)
}

// the first host tried for a read: documented as highest priority first, upstream last among equals
func runOrder(c Case, res *lib.Result) {
	t := newTopo(c)
	first := -1
	t.hook = func(hi int, req *http.Request, n int) *http.Response {
		if strings.Contains(req.URL.Path, "/manifests/") && first < 0 {
			first = hi
		}
		return nil
	}
	ctx, cancel := context.WithTimeout(context.Background(), 10*time.Second)
	defer cancel()
	r, _ := ref.New(hostNames[0] + "/repo:tag")
	_, _ = t.rc.ManifestGet(ctx, r)
	best, bestP := 0, c.UpPrio
	for _, m := range c.Mirrors {
		if m.Prio >= bestP { // mirrors win ties against the upstream
			if m.Prio > bestP || best == 0 {
				best, bestP = m.ID, m.Prio
			}
		}
	}
	tie := false
	cnt := 0
	for _, m := range c.Mirrors {
		if m.Prio == bestP {
			cnt++
		}
	}
	tie = cnt > 1
	if !tie && first != best {
		res.Fail("host-order priority-direction", fmt.Sprintf("mirrors %+v upstream priority %d: first request went to %s, documented order (highest priority first, upstream last among equals) starts with %s", c.Mirrors, c.UpPrio, hostNames[first], hostNames[best]), c)
	}
	res.Count("order")
}

// orderbo: a host that asked for a pause (429 + Retry-After) is offered after the hosts that are not waiting, whatever
// its priority, and takes its place again once the pause is over.  Step 1: every mirror that is tried before the
// upstream answers 429 with Retry-After: 1 and the upstream serves; step 2 (at once): the first request must go to a
// host that is not waiting; step 3 (after the pause): the order of step 1 again.  Each step is also given to the Coq
// model of sortHostsCmp (release times abstracted to 0 = none, 1000 = in the future, now = 500).
func runOrderBackoff(c Case, res *lib.Result) []string {
	t := newTopo(c)
	var attempts []int
	pause := true
	t.hook = func(hi int, req *http.Request, n int) *http.Response {
		if !strings.Contains(req.URL.Path, "/manifests/") {
			return nil
		}
		attempts = append(attempts, hi)
		if pause && hi != 0 {
			return memrt.Resp(429, map[string]string{"Retry-After": "1"}, []byte(`{"errors":[]}`))
		}
		return nil
	}
	ctx, cancel := context.WithTimeout(context.Background(), 15*time.Second)
	defer cancel()
	r, _ := ref.New(hostNames[0] + "/repo:tag")
	coqHosts := func(waiting map[int]bool) string {
		var hs []string
		for _, m := range c.Mirrors {
			l := 0
			if waiting[m.ID] {
				l = 1000
			}
			hs = append(hs, fmt.Sprintf("mkBH (mkHost %d %d false) %d", m.ID, m.Prio, l))
		}
		hs = append(hs, fmt.Sprintf("mkBH (mkHost 0 %d true) 0", c.UpPrio))
		return lib.CoqList(hs)
	}
	var terms []string
	// step 1
	_, err := t.rc.ManifestHead(ctx, r)
	if err != nil || len(attempts) == 0 {
		res.Count("orderbo:setup-failed")
		return nil
	}
	step1 := append([]int(nil), attempts...)
	terms = append(terms, fmt.Sprintf("mkOrder 500 %s %d", coqHosts(nil), step1[0]))
	waiting := map[int]bool{}
	for _, h := range step1 {
		if h != 0 {
			waiting[h] = true
		}
	}
	// step 2: at once
	pause = false
	attempts = nil
	t0 := time.Now()
	_, _ = t.rc.ManifestHead(ctx, r)
	if len(attempts) > 0 && time.Since(t0) < 900*time.Millisecond {
		if waiting[attempts[0]] {
			res.Fail("host-order waiting-host-first", fmt.Sprintf("mirrors %+v upstream priority %d: %s had answered 429 with Retry-After: 1 and was offered first again %v later", c.Mirrors, c.UpPrio, hostNames[attempts[0]], time.Since(t0)), c)
		}
		terms = append(terms, fmt.Sprintf("mkOrder 500 %s %d", coqHosts(waiting), attempts[0]))
	}
	// step 3: after the pause the order is that of step 1 again
	if c.Drops > 0 {
		time.Sleep(1100 * time.Millisecond)
		attempts = nil
		_, _ = t.rc.ManifestHead(ctx, r)
		if len(attempts) > 0 && attempts[0] != step1[0] {
			res.Fail("host-order after-pause", fmt.Sprintf("mirrors %+v upstream priority %d: after the pause the first request went to %s, before it to %s", c.Mirrors, c.UpPrio, hostNames[attempts[0]], hostNames[step1[0]]), c)
		}
	}
	res.Count("orderbo")
	return terms
}

// a blob read with mid-body drops: resumes draw on the same attempt budget and must terminate
func runResume(c Case, res *lib.Result) {
	t := newTopo(c)
	big := bytes.Repeat([]byte("abcdefghij"), 50)
	for _, rg := range t.regs { // mirrors hold the blob too: truncations then spread over several hosts
		rg.PutBlob("repo", big)
	}
	gets := 0
	perHost := map[int]int{}
	t.hook = func(hi int, req *http.Request, n int) *http.Response {
		if !strings.Contains(req.URL.Path, "/blobs/") || req.Method != "GET" {
			return nil
		}
		gets++
		perHost[hi]++
		if hi != 0 && c.MirrorGone > 0 && perHost[hi] > c.MirrorGone {
			return memrt.Resp(404, nil, []byte(`{"errors":[{"code":"BLOB_UNKNOWN"}]}`))
		}
		if gets <= c.Drops {
			start := 0
			h := map[string]string{}
			status := 200
			if rg := req.Header.Get("Range"); rg != "" {
				fmt.Sscanf(rg, "bytes=%d-", &start)
				status = 206
				h["Content-Range"] = fmt.Sprintf("bytes %d-%d/%d", start, len(big)-1, len(big))
			}
			body := big[start:]
			h["Content-Length"] = fmt.Sprint(len(body))
			if c.ResumeRA {
				h["Retry-After"] = "1"
			}
			rs := memrt.Resp(status, h, nil)
			rs.Body = &memrt.DropBody{B: body, K: 7}
			rs.ContentLength = int64(len(body))
			return rs
		}
		return nil
	}
	ctx, cancel := context.WithTimeout(context.Background(), 10*time.Second)
	defer cancel()
	r, _ := ref.New(hostNames[0] + "/repo:tag")
	rd, err := t.rc.BlobGet(ctx, r, descriptor.Descriptor{Digest: digest.FromBytes(big), Size: int64(len(big))})
	var out []byte
	if err == nil {
		out, err = io.ReadAll(rd)
		_ = rd.Close()
	}
	if ctx.Err() != nil {
		res.Fail("request-did-not-terminate resumed-read", fmt.Sprintf("blob read with %d mid-body drops still running after 10s (%d GETs)", c.Drops, gets), c)
		return
	}
	if gets > c.Limit+1 {
		res.Fail("attempts-exceed-limit resumed-read", fmt.Sprintf("retry limit %d but %d GETs for one blob read", c.Limit, gets), c)
	}
	if c.Drops < c.Limit && (err != nil || !bytes.Equal(out, big)) {
		res.Fail("transient-not-absorbed api=BlobGet-resume", fmt.Sprintf("%d mid-body drops with retry limit %d: read failed: %v", c.Drops, c.Limit, err), c)
	}
	res.Count(fmt.Sprintf("resume:drops=%d", c.Drops))
}

var transientCodes = []int{429, 408, 504, 502, 500}
var mutAPIs = []string{"BlobDelete", "BlobPut", "BlobPutChunked", "BlobMount", "ManifestPut", "ManifestDelete", "TagDelete"}

func genReply(r *lib.Rand) Reply {
	switch k := r.Intn(100); {
	case k < 20:
		return Reply{K: "ok"}
	case k < 32:
		return Reply{K: "net"}
	case k < 60:
		return Reply{K: "status", Code: lib.Pick(r, transientCodes)}
	case k < 75:
		return Reply{K: "status", Code: lib.Pick(r, []int{404, 416})}
	case k < 87:
		return Reply{K: "status", Code: 401, Acc: r.Bool()}
	default:
		return Reply{K: "status", Code: lib.Pick(r, []int{403, 400, 503, 409})}
	}
}

func genMirrors(r *lib.Rand) ([]Host, int) {
	prios := r.Perm(4) // distinct priorities keep the sort deterministic
	var ms []Host
	n := r.Intn(3)
	for i := 0; i < n; i++ {
		ms = append(ms, Host{ID: i + 1, Prio: prios[i] + 1})
	}
	return ms, prios[3] + 1
}

// backoff: one host, a series of ManifestHead calls consuming one reply script; at every request the handler takes
// the hook snapshot of the host's backoff bookkeeping.  The counters must equal the Coq model's (vm_compute); the
// release times must be spaced as the spacing theorem says (all comparisons are lower bounds on the client's own
// clock readings, so scheduling noise can only widen them).
func runBackoff(c Case, res *lib.Result) string {
	const dInit, dMax = time.Millisecond, 8 * time.Millisecond
	mr := memreg.New(hostNames[0], memreg.Features{Delete: true, TagDelete: true})
	mr.PutBlob("repo", []byte("{}"))
	mr.PutManifest("repo", "tag", "application/vnd.oci.image.manifest.v1+json", manBody)
	type att struct {
		t     time.Time
		cur   int
		last  time.Time
		reset int
		rp    Reply
	}
	var atts []att
	var rg *reg.Reg
	rt := &memrt.RT{}
	rt.Handler = func(req *http.Request, body []byte, n int) *http.Response {
		if !strings.Contains(req.URL.Path, "/manifests/") {
			return mr.Handle(req, body, n)
		}
		cur, last, rs := rg.VerifBackoff(hostNames[0])
		rp := Reply{K: "ok"}
		if len(atts) < len(c.Replies) {
			rp = c.Replies[len(atts)]
		}
		atts = append(atts, att{time.Now(), cur, last, rs, rp})
		switch rp.K {
		case "ok":
			return mr.Handle(req, body, n)
		case "net":
			return nil
		}
		h := map[string]string{}
		if rp.RA > 0 {
			h["Retry-After"] = fmt.Sprint(rp.RA)
		}
		return memrt.Resp(rp.Code, h, []byte(`{"errors":[]}`))
	}
	lim := c.Limit
	rg = reg.New(reg.WithConfigHosts([]*config.Host{{Name: hostNames[0], Hostname: hostNames[0], TLS: config.TLSDisabled}}),
		reg.WithHTTPClient(&http.Client{Transport: rt}), reg.WithDelay(dInit, dMax), reg.WithRetryLimit(lim))
	ctx, cancel := context.WithTimeout(context.Background(), 20*time.Second)
	defer cancel()
	r, _ := ref.New(hostNames[0] + "/repo:tag")
	extra := c.Drops // successful requests after the script
	for j := 0; j < 40 && (len(atts) < len(c.Replies) || extra > 0); j++ {
		if len(atts) >= len(c.Replies) {
			extra--
		}
		before := len(atts)
		_, _ = rg.ManifestHead(ctx, r)
		if len(atts) == before {
			break // nothing was sent (host dropped before a request): stop
		}
	}
	if ctx.Err() != nil {
		res.Fail("request-did-not-terminate kind=backoff", "ManifestHead series still running after 20s", c)
		return ""
	}
	delay := func(cur int) time.Duration {
		d := dInit << cur
		if d > dMax || d <= 0 {
			d = dMax
		}
		return d
	}
	var evs, obs []string
	for i, a := range atts {
		evs = append(evs, "EGet 0")
		obs = append(obs, fmt.Sprintf("(%d, %d)", a.cur, a.reset))
		switch {
		case a.rp.K == "ok":
			evs = append(evs, "EOk")
		case a.rp.K == "status" && (a.rp.Code == 404 || a.rp.Code == 416):
			// the host is dropped for this request without a backoff
		case a.rp.RA > 0:
			evs = append(evs, "EFail 0 1")
		default:
			evs = append(evs, "EFail 0 0")
		}
		if a.cur > 0 && !a.last.IsZero() && a.t.Before(a.last) {
			res.Fail("request-sent-before-release", fmt.Sprintf("attempt %d reached the registry %v before the release time the client had computed (backoff count %d)", i, a.last.Sub(a.t), a.cur), c)
		}
		if i == 0 {
			continue
		}
		p := atts[i-1]
		if a.cur > 0 {
			if a.last.IsZero() {
				res.Fail("backoff-without-release-time", fmt.Sprintf("attempt %d: backoff count %d but no release time recorded", i, a.cur), c)
			} else {
				from := p.last
				if from.IsZero() {
					from = p.t
				}
				if gap := a.last.Sub(from); gap < delay(a.cur) {
					res.Fail("backoff-gap-too-short", fmt.Sprintf("attempt %d (backoff count %d) was released %v after the previous request to the host, configured delay %v", i, a.cur, gap, delay(a.cur)), c)
				}
			}
		}
		if p.rp.RA > 0 && p.rp.K == "status" {
			if gap := a.t.Sub(p.t); gap < time.Duration(p.rp.RA)*time.Second {
				res.Fail("retry-after-not-respected", fmt.Sprintf("attempt %d arrived %v after a reply with Retry-After: %d", i, gap, p.rp.RA), c)
			}
		}
	}
	res.Count("backoff")
	for _, a := range atts {
		if a.cur > 0 {
			res.Count("backoff:delayed-attempt")
		}
	}
	return fmt.Sprintf("mkBackoff %d [%s] [%s]", lim, strings.Join(evs, "; "), strings.Join(obs, "; "))
}

func runCase(c Case, res *lib.Result) (ret string) {
	defer res.Recover(c)
	return runCaseRaw(c, res)
}

func runCaseRaw(c Case, res *lib.Result) string {
	switch c.Kind {
	case "backoff":
		return runBackoff(c, res)
	case "orderbo":
		return strings.Join(runOrderBackoff(c, res), "\x00")
	case "next":
		return runNext(c, res)
	case "mutate":
		runMutate(c, res)
	case "transient":
		runTransient(c, res)
	case "order":
		runOrder(c, res)
	case "uploadloop":
		runUploadLoop(c, res)
	case "afterabandoned":
		runAfterAbandoned(c, res)
	case "resume":
		runResume(c, res)
	}
	return ""
}

func Run(o lib.Opts) {
	res := lib.NewResult("C12", o.Tier, o.Seed)
	res.Rule = "one splitmix64 stream: (next) ManifestGet / ManifestDelete against an upstream with 0-2 mirrors of distinct priorities, retry limit 1-5 and a reply script over {ok, connection reset, 429/408/504/502/500, 404/416, 401 accepted/refused, 403/400/503/409} of length 0-9, hosts attempted and outcome compared with the Coq model; (mutate) each mutating API with mirrors configured; (transient) k < limit transient faults before normal service for ManifestGet/BlobGet/ManifestPut; (order) first host tried vs documented order; (resume) blob reads with 0-6 mid-body drops; (orderbo) mirrors that answer 429 with Retry-After: 1 must be offered after the hosts that are not waiting on the next request and regain their place after the pause, each step compared with the Coq model of sortHostsCmp; (backoff) 16 series of ManifestHead calls on one host consuming a script of 2-11 replies over {ok, connection error, 429/500/502/504/408/503/400, 404, one 429 with Retry-After: 1} followed by 0-8 successful calls, retry limit 3-6, delays 1 ms / 8 ms, with the hook snapshot of the host's backoff bookkeeping at every request; non-trivial = script with a failure; distinct by case"
	if o.Replay != "" {
		var f struct{ Case Case }
		b, err := os.ReadFile(o.Replay)
		if err == nil {
			err = json.Unmarshal(b, &f)
		}
		if err != nil {
			fmt.Println("replay:", err)
			os.Exit(2)
		}
		runCase(f.Case, res)
		for _, fl := range res.Failures {
			fmt.Printf("REPLAY-FAIL %s: %s\n", fl.Sig, fl.Desc)
		}
		if len(res.Failures) == 0 {
			fmt.Println("REPLAY-OK")
		}
		return
	}
	r := lib.NewRand(o.Seed)
	cw := lib.NewCaseWriter(o.Out, "C12", "From Coq Require Import List ZArith.\nFrom Verif Require Import Model.C12_Retry Model.C12_Backoff Corr.C12.\nImport ListNotations.", "case", 400)
	var all []Case
	for _, api := range mutAPIs {
		all = append(all, Case{Kind: "mutate", API: api, Limit: 3, Mirrors: []Host{{1, 5}, {2, 9}}, UpPrio: 7})
	}
	all = append(all, Case{Kind: "order", Limit: 3, Mirrors: []Host{{1, 1}, {2, 10}}, UpPrio: 5})
	for d := 0; d <= 6; d++ {
		all = append(all, Case{Kind: "resume", Limit: 4, Drops: d})
	}
	for _, st := range []int{400, 500, 404} {
		all = append(all, Case{Kind: "uploadloop", Limit: 3, Drops: st})
	}
	for _, k := range []int{1, 3, 4} { // the default host throttle has three slots
		all = append(all, Case{Kind: "afterabandoned", Limit: 4, Drops: k})
	}
	// the same with a mirror that serves (and truncates) the blob as well, and with truncated responses that ask for a pause:
	// every re-request of the body counts against the one attempt budget of the logical request
	for _, d := range []int{3, 5, 8, 12} {
		all = append(all, Case{Kind: "resume", Limit: 4, Drops: d, Mirrors: []Host{{1, 1}}, UpPrio: 5})
	}
	all = append(all, Case{Kind: "resume", Limit: 3, Drops: 9, Mirrors: []Host{{1, 1}, {2, 2}}, UpPrio: 5})
	for _, g := range []int{1, 2, 3} { // the mirror loses the blob after g requests: the truncations continue at the next host
		all = append(all, Case{Kind: "resume", Limit: 3, Drops: 12, Mirrors: []Host{{1, 1}}, UpPrio: 5, MirrorGone: g},
			Case{Kind: "resume", Limit: 5, Drops: 20, Mirrors: []Host{{1, 1}, {2, 2}}, UpPrio: 5, MirrorGone: g})
	}
	all = append(all, Case{Kind: "resume", Limit: 2, Drops: 9, ResumeRA: true})
	// backoff series: fixed ones (incl. one server-requested delay of 1 s), then generated
	all = append(all, Case{Kind: "backoff", Limit: 5, Drops: 8, Replies: []Reply{{K: "status", Code: 429}, {K: "status", Code: 500}, {K: "ok"}, {K: "net"}, {K: "status", Code: 502}, {K: "status", Code: 504}, {K: "status", Code: 408}, {K: "ok"}}})
	all = append(all, Case{Kind: "backoff", Limit: 4, Drops: 2, Replies: []Reply{{K: "status", Code: 429, RA: 1}, {K: "status", Code: 429}, {K: "ok"}}})
	// waiting hosts are offered last: mirrors that the code tries before the upstream (lower priority number, or equal)
	all = append(all, Case{Kind: "orderbo", Limit: 3, Mirrors: []Host{{1, 1}}, UpPrio: 5, Drops: 1},
		Case{Kind: "orderbo", Limit: 3, Mirrors: []Host{{1, 2}, {2, 3}}, UpPrio: 5},
		Case{Kind: "orderbo", Limit: 3, Mirrors: []Host{{1, 5}, {2, 9}}, UpPrio: 5})
	for i := 0; i < o.Scale(6, 60); i++ {
		ms, up := genMirrors(r)
		all = append(all, Case{Kind: "orderbo", Limit: 3, Mirrors: ms, UpPrio: up})
	}
	nb := o.Scale(14, 400)
	for i := 0; i < nb; i++ {
		c := Case{Kind: "backoff", Limit: 3 + r.Intn(4), Drops: r.Intn(9)}
		for j := 2 + r.Intn(10); j > 0; j-- {
			switch k := r.Intn(100); {
			case k < 25:
				c.Replies = append(c.Replies, Reply{K: "ok"})
			case k < 40:
				c.Replies = append(c.Replies, Reply{K: "net"})
			case k < 90:
				c.Replies = append(c.Replies, Reply{K: "status", Code: lib.Pick(r, []int{429, 500, 502, 504, 408, 503, 400})})
			default:
				c.Replies = append(c.Replies, Reply{K: "status", Code: 404})
			}
		}
		if o.Tier == "thorough" && i%40 == 0 {
			c.Replies[0] = Reply{K: "status", Code: 429, RA: 1}
		}
		all = append(all, c)
	}
	n := o.Scale(350, 12000)
	for i := 0; i < n; i++ {
		switch k := r.Intn(100); {
		case k < 70:
			ms, up := genMirrors(r)
			c := Case{Kind: "next", Limit: 1 + r.Intn(5), Mirrors: ms, UpPrio: up, NoMirrors: r.Chance(30)}
			for j := r.Intn(10); j > 0; j-- {
				c.Replies = append(c.Replies, genReply(r))
			}
			all = append(all, c)
		case k < 85:
			c := Case{Kind: "transient", Limit: 2 + r.Intn(4), API: lib.Pick(r, []string{"ManifestGet", "BlobGet", "ManifestPut", "ManifestHead", "BlobHead", "TagList", "BlobPut", "TagDelete"})}
			for j := r.Intn(c.Limit); j > 0; j-- {
				if r.Chance(25) {
					c.Replies = append(c.Replies, Reply{K: "net"})
				} else {
					c.Replies = append(c.Replies, Reply{K: "status", Code: lib.Pick(r, transientCodes)})
				}
			}
			all = append(all, c)
		case k < 93:
			ms, up := genMirrors(r)
			all = append(all, Case{Kind: "order", Limit: 3, Mirrors: ms, UpPrio: up})
		default:
			ms, up := genMirrors(r)
			all = append(all, Case{Kind: "mutate", API: lib.Pick(r, mutAPIs), Limit: 3, Mirrors: ms, UpPrio: up})
		}
	}
	seen := lib.Set{}
	for _, c := range all {
		res.Evaluations++
		kb, _ := json.Marshal(c)
		nt := false
		for _, rp := range c.Replies {
			if rp.K != "ok" {
				nt = true
			}
		}
		if _, dup := seen[string(kb)]; !dup && (nt || c.Kind == "mutate" || c.Drops > 0) {
			res.Distinct++
		}
		seen.Add(string(kb))
		term := runCase(c, res)
		if o.Mode != "search" && term != "" {
			for _, t1 := range strings.Split(term, "\x00") {
				cw.Add(t1, c)
			}
		}
		if c.Kind == "next" {
			res.Sample(c, 3)
		}
	}
	cw.Close(res)
	lib.WriteResult(o.Out, res)
}
