// Package c07: an OCI layout survives a crash at any point of any write.  Each API operation of a generated
// history is executed alone by a driver subprocess under strace; the directory is rebuilt after every prefix
// of the file-system mutating system calls it issued (= every crash point) and checked by an independent
// layout validator and by a fresh client; the interrupted operation is then repeated.
package c07

import (
	"bytes"
	"context"
	"crypto/sha256"
	"encoding/hex"
	"encoding/json"
	"fmt"
	"os"
	"path/filepath"
	"sort"
	"strings"

	"github.com/regclient/regclient"
	"github.com/regclient/regclient/types/descriptor"
	"github.com/regclient/regclient/types/manifest"
	"github.com/regclient/regclient/types/ref"

	"verifharness/fsx"
	"verifharness/imgen"
	"verifharness/lib"
)

type DOp struct {
	K      string // blobput | manput | manputchild | tagdel | mandel | copy | close | import
	Body   []byte `json:",omitempty"`
	MT     string `json:",omitempty"`
	Tag    string `json:",omitempty"`
	Digest string `json:",omitempty"`
	Src    string `json:",omitempty"` // copy: source reference; import: tar file
	Refs   bool   `json:",omitempty"`
}
type Script struct {
	Layout string
	Ops    []DOp
}
type Case struct {
	Seed    uint64
	Setup   []DOp
	History []DOp
}

// Exec runs the operations in-process (also the body of the driver subprocess).
func Exec(layout string, ops []DOp) error {
	rc := regclient.New()
	ctx := context.Background()
	for _, op := range ops {
		base := "ocidir://" + layout
		var err error
		switch op.K {
		case "blobput":
			r, _ := ref.New(base)
			_, err = rc.BlobPut(ctx, r, descriptor.Descriptor{}, bytes.NewReader(op.Body))
		case "manput", "manputchild":
			name := base + ":" + op.Tag
			if op.Tag == "" {
				name = base + "@" + op.Digest
			}
			r, _ := ref.New(name)
			var m manifest.Manifest
			m, err = manifest.New(manifest.WithRaw(op.Body))
			if err == nil {
				if op.K == "manputchild" {
					err = rc.ManifestPut(ctx, r, m, regclient.WithManifestChild())
				} else {
					err = rc.ManifestPut(ctx, r, m)
				}
			}
		case "tagdel":
			r, _ := ref.New(base + ":" + op.Tag)
			err = rc.TagDelete(ctx, r)
		case "mandel":
			r, _ := ref.New(base + "@" + op.Digest)
			err = rc.ManifestDelete(ctx, r, regclient.WithManifestCheckReferrers())
		case "copy":
			rs, _ := ref.New(op.Src)
			rt, _ := ref.New(base + ":" + op.Tag)
			o := []regclient.ImageOpts{}
			if op.Refs {
				o = append(o, regclient.ImageWithReferrers())
			}
			err = rc.ImageCopy(ctx, rs, rt, o...)
		case "import":
			var fh *os.File
			fh, err = os.Open(op.Src)
			if err == nil {
				rt, _ := ref.New(base + ":" + op.Tag)
				err = rc.ImageImport(ctx, rt, fh)
				_ = fh.Close()
			}
		case "close":
			r, _ := ref.New(base)
			err = rc.Close(ctx, r)
		}
		if op.K != "close" {
			r, _ := ref.New(base)
			if op.K == "mandel" || op.K == "tagdel" { // deletions mark the layout modified; collect on close
				_ = rc.Close(ctx, r)
			}
		}
		if err != nil {
			return fmt.Errorf("%s %s%s: %w", op.K, op.Tag, op.Digest, err)
		}
	}
	return nil
}

func sha(b []byte) string { s := sha256.Sum256(b); return "sha256:" + hex.EncodeToString(s[:]) }

// ---------- independent layout validator ----------
type layoutView struct {
	problems []string
	tags     map[string]string
}

func readLayout(dir string) layoutView {
	v := layoutView{tags: map[string]string{}}
	bad := func(f string, a ...any) { v.problems = append(v.problems, fmt.Sprintf(f, a...)) }
	if _, err := os.Stat(dir); err != nil {
		return v // no layout yet: nothing to validate
	}
	lb, err := os.ReadFile(filepath.Join(dir, "oci-layout"))
	idxB, err2 := os.ReadFile(filepath.Join(dir, "index.json"))
	if err != nil && err2 != nil {
		// neither file: the directory is not (yet) a layout; only stray blobs may exist
	} else {
		var l struct {
			V string `json:"imageLayoutVersion"`
		}
		if err != nil {
			bad("oci-layout missing")
		} else if json.Unmarshal(lb, &l) != nil || l.V != "1.0.0" {
			bad("oci-layout is not valid JSON with version 1.0.0 (%d bytes: %q)", len(lb), string(lb))
		}
	}
	var ix struct {
		Manifests []struct {
			Digest      string            `json:"digest"`
			Annotations map[string]string `json:"annotations"`
		} `json:"manifests"`
	}
	if err2 == nil {
		if json.Unmarshal(idxB, &ix) != nil {
			bad("index.json is not complete JSON (%d bytes)", len(idxB))
		}
	} else if err == nil {
		// marker without index: readable as an empty layout only if the client treats it so; flagged by the client check
	}
	_ = filepath.Walk(filepath.Join(dir, "blobs"), func(p string, fi os.FileInfo, e error) error {
		if e != nil || fi.IsDir() || strings.HasSuffix(p, ".tmp") {
			return nil
		}
		b, _ := os.ReadFile(p)
		want := filepath.Base(filepath.Dir(p)) + ":" + filepath.Base(p)
		if strings.HasPrefix(want, "sha256:") && sha(b) != want {
			bad("file %s does not hold content with that digest (%d bytes)", want, len(b))
		}
		return nil
	})
	has := func(d string) ([]byte, bool) {
		i := strings.IndexByte(d, ':')
		if i < 0 {
			return nil, false
		}
		b, e := os.ReadFile(filepath.Join(dir, "blobs", d[:i], d[i+1:]))
		return b, e == nil
	}
	var closure func(d string, seen map[string]bool)
	closure = func(d string, seen map[string]bool) {
		if seen[d] {
			return
		}
		seen[d] = true
		b, ok := has(d)
		if !ok {
			bad("content %s referenced from a tagged image is missing", d[:19])
			return
		}
		var m struct {
			Config *struct{ Digest string } `json:"config"`
			Layers []struct {
				Digest string
				URLs   []string `json:"urls"`
			} `json:"layers"`
			Manifests []struct{ Digest string } `json:"manifests"`
		}
		if json.Unmarshal(b, &m) != nil {
			return
		}
		if m.Config != nil && m.Config.Digest != "" {
			if _, ok := has(m.Config.Digest); !ok {
				bad("config %s of %s is missing", m.Config.Digest[:19], d[:19])
			}
		}
		for _, l := range m.Layers {
			if len(l.URLs) == 0 {
				if _, ok := has(l.Digest); !ok {
					bad("layer %s of %s is missing", l.Digest[:19], d[:19])
				}
			}
		}
		for _, c := range m.Manifests {
			closure(c.Digest, seen)
		}
	}
	for _, m := range ix.Manifests {
		if t := m.Annotations["org.opencontainers.image.ref.name"]; t != "" {
			v.tags[t] = m.Digest
			closure(m.Digest, map[string]bool{})
		}
	}
	return v
}

// clientView: what a fresh regclient reports: tag -> digest for every listed tag, or an error
func clientView(dir string) (map[string]string, error) {
	rc := regclient.New()
	ctx := context.Background()
	r, _ := ref.New("ocidir://" + dir)
	tl, err := rc.TagList(ctx, r)
	if err != nil {
		return nil, fmt.Errorf("tag list: %w", err)
	}
	tags, _ := tl.GetTags()
	out := map[string]string{}
	for _, t := range tags {
		rt, _ := ref.New("ocidir://" + dir + ":" + t)
		m, err := rc.ManifestGet(ctx, rt)
		if err != nil {
			return nil, fmt.Errorf("tag %s: %w", t, err)
		}
		out[t] = m.GetDescriptor().Digest.String()
	}
	return out, nil
}

// ---------- normalisation of a traced operation list into the Coq model's vocabulary ----------
type normaliser struct {
	ids  map[string]int // digest -> id
	tags map[string]int
	refs map[int][]int
}

func newNorm() *normaliser {
	return &normaliser{ids: map[string]int{}, tags: map[string]int{}, refs: map[int][]int{}}
}
func (n *normaliser) id(d string) int {
	if v, ok := n.ids[d]; ok {
		return v
	}
	n.ids[d] = len(n.ids) + 1
	return n.ids[d]
}
func (n *normaliser) tag(t string) int {
	if t == "" {
		return 0
	}
	if v, ok := n.tags[t]; ok {
		return v
	}
	n.tags[t] = len(n.tags) + 1
	return n.tags[t]
}
func (n *normaliser) learn(body []byte) int { // register content and what it references
	d := sha(body)
	id := n.id(d)
	var m struct {
		Config *struct{ Digest string } `json:"config"`
		Layers []struct {
			Digest string
			URLs   []string `json:"urls"`
		} `json:"layers"`
		Manifests []struct{ Digest string } `json:"manifests"`
	}
	if json.Unmarshal(body, &m) == nil {
		var ch []int
		if m.Config != nil && m.Config.Digest != "" {
			ch = append(ch, n.id(m.Config.Digest))
		}
		for _, l := range m.Layers {
			if len(l.URLs) == 0 {
				ch = append(ch, n.id(l.Digest))
			}
		}
		for _, c := range m.Manifests {
			ch = append(ch, n.id(c.Digest))
		}
		if len(ch) > 0 {
			n.refs[id] = ch
		}
	}
	return id
}
func (n *normaliser) index(b []byte) (string, bool) {
	var ix struct {
		Manifests []struct {
			Digest      string            `json:"digest"`
			Annotations map[string]string `json:"annotations"`
		} `json:"manifests"`
	}
	if json.Unmarshal(b, &ix) != nil {
		return "", false
	}
	var es []string
	for _, m := range ix.Manifests {
		es = append(es, fmt.Sprintf("(%d, %d)", n.id(m.Digest), n.tag(m.Annotations["org.opencontainers.image.ref.name"])))
	}
	return "[" + strings.Join(es, "; ") + "]", true
}

// coqCase renders the directory found by the operation and the traced operations as a Corr.C07 case
func coqCase(dir string, ops []fsx.Op) (string, bool) {
	n := newNorm()
	marker := false
	if b, err := os.ReadFile(filepath.Join(dir, "oci-layout")); err == nil && strings.Contains(string(b), "1.0.0") {
		marker = true
	}
	index := "None"
	if b, err := os.ReadFile(filepath.Join(dir, "index.json")); err == nil {
		if s, ok := n.index(b); ok {
			index = "(Some " + s + ")"
		}
	}
	var blobs []string
	_ = filepath.Walk(filepath.Join(dir, "blobs"), func(p string, fi os.FileInfo, e error) error {
		if e != nil || fi.IsDir() || strings.HasSuffix(p, ".tmp") {
			return nil
		}
		b, _ := os.ReadFile(p)
		blobs = append(blobs, fmt.Sprint(n.learn(b)))
		return nil
	})
	tmp := map[string]int{}
	pathOf := func(p string) (string, bool) {
		switch {
		case p == "oci-layout":
			return "PLayout", true
		case p == "index.json":
			return "PIndex", true
		case strings.HasSuffix(p, ".tmp"):
			if _, ok := tmp[p]; !ok {
				tmp[p] = len(tmp) + 1
			}
			return fmt.Sprintf("(PTmp %d)", tmp[p]), true
		case strings.HasPrefix(p, "blobs/sha256/"):
			return fmt.Sprintf("(PBlob %d)", n.id("sha256:"+strings.TrimPrefix(p, "blobs/sha256/"))), true
		}
		return "", false
	}
	var out []string
	for _, o := range ops {
		switch o.K {
		case "mkdir", "touch":
			continue
		case "create":
			if ps, ok := pathOf(o.Path); ok {
				out = append(out, "Create "+ps)
			} else {
				return "", false
			}
		case "write":
			ps, ok := pathOf(o.Path)
			if !ok {
				return "", false
			}
			tok := ""
			if strings.HasPrefix(o.Path, "oci-layout") {
				tok = "TLayout"
			} else if strings.HasPrefix(o.Path, "index.json") {
				s, ok := n.index(o.Data)
				if !ok {
					return "", false
				}
				tok = "(TIndex " + s + ")"
			} else {
				tok = fmt.Sprintf("(TBlob %d)", n.learn(o.Data))
			}
			out = append(out, fmt.Sprintf("Write %s %s", ps, tok))
		case "rename":
			a, ok1 := pathOf(o.Path)
			b, ok2 := pathOf(o.To)
			if !ok1 || !ok2 {
				return "", false
			}
			out = append(out, fmt.Sprintf("Rename %s %s", a, b))
		case "unlink":
			if ps, ok := pathOf(o.Path); ok {
				out = append(out, "Unlink "+ps)
			} else {
				return "", false
			}
		}
	}
	var refs []string
	var keys []int
	for k := range n.refs {
		keys = append(keys, k)
	}
	sort.Ints(keys)
	for _, k := range keys {
		var ch []string
		for _, c := range n.refs[k] {
			ch = append(ch, fmt.Sprint(c))
		}
		refs = append(refs, fmt.Sprintf("(%d, [%s])", k, strings.Join(ch, "; ")))
	}
	return fmt.Sprintf("mkCase [%s] %s %s [%s] [%s]", strings.Join(refs, "; "), lib.CoqBool(marker), index, strings.Join(blobs, "; "), strings.Join(out, "; ")), true
}

func targets(op DOp, before map[string]string) map[string]bool {
	t := map[string]bool{}
	switch op.K {
	case "manput", "copy", "import", "tagdel":
		t[op.Tag] = true
	case "mandel":
		for tag, d := range before {
			if d == op.Digest {
				t[tag] = true
			}
		}
	}
	// referrer bookkeeping lives in fallback tags
	for tag := range before {
		if strings.HasPrefix(tag, "sha256-") {
			t[tag] = true
		}
	}
	return t
}

func opSig(op DOp) string { return op.K }

var caseOut *lib.CaseWriter

func runCase(c Case, o lib.Opts, res *lib.Result, self string) {
	defer res.Recover(c)
	runCaseRaw(c, o, res, self)
}

func runCaseRaw(c Case, o lib.Opts, res *lib.Result, self string) {
	abs, _ := filepath.Abs(o.Out)
	work := filepath.Join(abs, "c07work")
	_ = os.RemoveAll(work)
	_ = os.MkdirAll(work, 0o755)
	defer os.RemoveAll(work)
	cur := filepath.Join(work, "cur", "layout")
	_ = os.MkdirAll(filepath.Dir(cur), 0o755)
	if len(c.Setup) > 0 {
		if err := Exec(cur, c.Setup); err != nil {
			res.Notes = append(res.Notes, "setup failed: "+err.Error())
			return
		}
	}
	for oi, op := range c.History {
		before := readLayout(cur)
		if len(before.problems) > 0 {
			res.Notes = append(res.Notes, fmt.Sprintf("state before op %d invalid: %v", oi, before.problems))
			return
		}
		// trace the operation alone on a copy
		trDir := filepath.Join(work, "trace")
		_ = os.RemoveAll(trDir)
		_ = os.MkdirAll(trDir, 0o755)
		if _, err := os.Stat(cur); err == nil {
			_ = fsx.CopyDir(cur, filepath.Join(trDir, "layout"))
		}
		sb, _ := json.Marshal(Script{Layout: filepath.Join(trDir, "layout"), Ops: []DOp{op}})
		sf := filepath.Join(work, "script.json")
		_ = os.WriteFile(sf, sb, 0o644)
		env := append(os.Environ(), "GOMAXPROCS=2")
		ops, out, err := fsx.Trace(filepath.Join(trDir, "layout"), work, []string{self, "C07", "--mode", "driver", "--replay", sf}, env)
		if err != nil {
			res.Notes = append(res.Notes, "trace failed: "+err.Error())
			return
		}
		driverFailed := strings.Contains(out, "DRIVER-ERROR")
		if caseOut != nil && !driverFailed {
			if term, ok := coqCase(cur, ops); ok {
				caseOut.Add(term, map[string]any{"seed": c.Seed, "op": oi, "kind": op.K})
			} else {
				res.Count("trace-not-normalisable")
			}
		}
		res.Count(fmt.Sprintf("op:%s failed=%v", op.K, driverFailed))
		res.Extra["crash_states"] = toInt(res.Extra["crash_states"]) + len(ops) + 1
		intended := readLayout(filepath.Join(trDir, "layout"))
		tg := targets(op, before.tags)
		for k := 0; k <= len(ops); k++ {
			st := filepath.Join(work, "state")
			_ = os.RemoveAll(st)
			if _, err := os.Stat(cur); err == nil {
				_ = fsx.CopyDir(cur, filepath.Join(st, "layout"))
			}
			lay := filepath.Join(st, "layout")
			if _, err := os.Stat(lay); err != nil && len(ops) > 0 {
				_ = os.MkdirAll(st, 0o755)
			}
			if err := fsx.Apply(lay, ops, k); err != nil {
				res.Notes = append(res.Notes, "replay of traced operations failed: "+err.Error())
				break
			}
			where := fmt.Sprintf("op=%s crash-after=%d/%d", op.K, k, len(ops))
			last := ""
			if k > 0 {
				last = ops[k-1].K + " " + ops[k-1].Path
			}
			fail := func(sig, f string, a ...any) {
				res.Fail(sig+" op="+opSig(op)+" after="+strings.Split(last, ".")[0], where+" (last syscall: "+last+"): "+fmt.Sprintf(f, a...), map[string]any{"case": c, "op": oi, "k": k})
			}
			v := readLayout(lay)
			if len(v.problems) > 0 {
				fail("layout-invalid-after-crash", "%v", v.problems)
				continue
			}
			if _, e := os.Stat(filepath.Join(lay, "index.json")); e == nil || len(before.tags) > 0 {
				cv, err := clientView(lay)
				if err != nil {
					fail("layout-unreadable-after-crash", "a fresh client cannot read the layout: %v", err)
					continue
				}
				for t, d := range before.tags {
					if tg[t] {
						continue
					}
					if cv[t] != d {
						fail("untargeted-tag-changed", "tag %s resolved to %s before the operation, now %q", t, d[:19], cv[t])
					}
				}
			}
			for t, d := range before.tags {
				if !tg[t] && v.tags[t] != d {
					fail("untargeted-tag-changed", "tag %s was %s, index now says %q", t, d[:19], v.tags[t])
				}
			}
			// repeat the interrupted operation: must reach the intended state
			if !driverFailed && k < len(ops) {
				errRetry := Exec(lay, []DOp{op})
				after := readLayout(lay)
				// a manifest delete has converged only when the manifest file is gone as it is in the intended state
				stillThere := false
				if op.K == "mandel" {
					hasFile := func(dir string) bool {
						i := strings.IndexByte(op.Digest, ':')
						_, e := os.Stat(filepath.Join(dir, "blobs", op.Digest[:i], op.Digest[i+1:]))
						return e == nil
					}
					stillThere = hasFile(lay) && !hasFile(filepath.Join(trDir, "layout"))
				}
				if stillThere {
					fail("retry-does-not-converge", "after repeating the interrupted manifest delete (err=%v) the manifest file %s is still there; the completed operation removes it", errRetry, op.Digest[:19])
					continue
				}
				if errRetry != nil && !(len(after.problems) == 0 && sameTags(after.tags, intended.tags)) {
					// an error is fine when the interrupted operation had in fact already taken effect
					fail("retry-fails-after-crash", "repeating the interrupted operation failed: %v (tags %v, intended %v)", errRetry, after.tags, intended.tags)
					continue
				}
				if len(after.problems) > 0 {
					fail("retry-leaves-invalid-layout", "%v", after.problems)
				}
				if !sameTags(after.tags, intended.tags) {
					fail("retry-does-not-converge", "tags after retry %v, intended %v", after.tags, intended.tags)
				}
			}
		}
		// completed operation fully visible: advance the current state by running it for real
		if err := Exec(cur, []DOp{op}); err != nil && !driverFailed {
			res.Notes = append(res.Notes, fmt.Sprintf("op %d failed in-process: %v", oi, err))
			return
		}
		now := readLayout(cur)
		if !driverFailed && !sameTags(now.tags, intended.tags) {
			res.Fail("traced-run-differs", fmt.Sprintf("traced driver and in-process run disagree: %v vs %v", intended.tags, now.tags), c)
		}
	}
}

func toInt(v any) int {
	switch x := v.(type) {
	case int:
		return x
	case float64:
		return int(x)
	}
	return 0
}
func sameTags(a, b map[string]string) bool {
	if len(a) != len(b) {
		return false
	}
	for k, v := range a {
		if b[k] != v {
			return false
		}
	}
	return true
}

type pool struct {
	g    *imgen.Graph
	imgs []*imgen.Node
	srcs []string // source layouts holding pool images
}

func genCase(r *lib.Rand, srcDir string) Case {
	c := Case{Seed: r.U64()}
	g := &imgen.Graph{}
	mk := func(i int) *imgen.Node {
		cfg := g.Blob([]byte(fmt.Sprintf(`{"architecture":"amd64","os":"linux","config":{"Labels":{"n":"%d-%d"}},"rootfs":{"type":"layers","diff_ids":[]}}`, c.Seed%1000, i)), imgen.MTConfig)
		var ls []*imgen.Node
		for j := 0; j <= r.Intn(2); j++ {
			ls = append(ls, g.Blob([]byte(fmt.Sprintf("layer-%d-%d-%d", c.Seed%1000, i%2, j)), imgen.MTLayer))
		}
		return g.Image(false, cfg, ls, nil, nil, fmt.Sprintf("i%d", i))
	}
	imgs := []*imgen.Node{mk(0), mk(1), mk(2)}
	idx := g.Index(false, []*imgen.Node{imgs[0], imgs[1]}, "idx")
	pushImage := func(n *imgen.Node, tag string) []DOp {
		var ops []DOp
		var walk func(x *imgen.Node, top bool)
		walk = func(x *imgen.Node, top bool) {
			for _, ch := range x.Children {
				if ch.Kind == "blob" {
					ops = append(ops, DOp{K: "blobput", Body: ch.Body})
				} else {
					walk(ch, false)
				}
			}
			if top {
				ops = append(ops, DOp{K: "manput", Body: x.Body, Tag: tag})
			} else {
				ops = append(ops, DOp{K: "manputchild", Body: x.Body, Digest: x.Digest})
			}
		}
		walk(n, true)
		return ops
	}
	tags := []string{"a", "b", "c"}
	if r.Chance(70) { // populated start
		c.Setup = append(c.Setup, pushImage(imgs[2], "c")...)
		if r.Bool() {
			c.Setup = append(c.Setup, pushImage(idx, "b")...)
		}
		if r.Chance(40) {
			c.Setup = append(c.Setup, pushImage(imgs[2], "a")...) // two tags share a manifest
		}
	}
	// artifact with a subject: exercises referrerPut
	sigCfg := g.Blob([]byte("{}"), "application/vnd.oci.empty.v1+json")
	sigPayload := g.Blob([]byte(fmt.Sprintf("sig-%d", c.Seed%1000)), "application/vnd.example.sig")
	art := g.Image(false, sigCfg, []*imgen.Node{sigPayload}, nil, imgs[2], "sig")
	if r.Chance(35) { // make sure deletions of present, tagged manifests are exercised
		c.Setup = append(c.Setup, pushImage(imgs[2], "c")...)
		c.Setup = append(c.Setup, pushImage(idx, "b")...)
		c.History = append(c.History, DOp{K: "mandel", Digest: imgs[2].Digest}, DOp{K: "tagdel", Tag: "b"})
	}
	n := 2 + r.Intn(4)
	for i := 0; i < n; i++ {
		switch k := r.Intn(100); {
		case k < 30:
			c.History = append(c.History, pushImage(lib.Pick(r, append(imgs, idx)), lib.Pick(r, tags))...)
		case k < 42:
			c.History = append(c.History, DOp{K: "tagdel", Tag: lib.Pick(r, tags)})
		case k < 54:
			// only manifests that no other tagged manifest references (deleting a child of a tagged index breaks
			// that image with or without a crash)
			c.History = append(c.History, DOp{K: "mandel", Digest: lib.Pick(r, []*imgen.Node{imgs[2], idx}).Digest})
		case k < 64:
			c.History = append(c.History, DOp{K: "close"})
		case k < 78:
			c.History = append(c.History, DOp{K: "blobput", Body: sigCfg.Body}, DOp{K: "blobput", Body: sigPayload.Body}, DOp{K: "manputchild", Body: art.Body, Digest: art.Digest})
			if r.Chance(50) { // ... and the referrer-aware delete of a manifest that carries a subject
				c.History = append(c.History, DOp{K: "mandel", Digest: art.Digest})
			}
		case k < 88:
			c.History = append(c.History, DOp{K: "import", Src: filepath.Join(filepath.Dir(srcDir), "c07src.tar"), Tag: lib.Pick(r, tags)})
		default:
			c.History = append(c.History, DOp{K: "copy", Src: "ocidir://" + srcDir + ":" + lib.Pick(r, []string{"img", "idx"}), Tag: lib.Pick(r, tags)})
		}
	}
	return c
}

// buildSource creates the fixed source layout used by copy operations
func buildSource(dir string) error {
	g := &imgen.Graph{}
	cfg := g.Blob([]byte(`{"architecture":"amd64","os":"linux","rootfs":{"type":"layers","diff_ids":[]}}`), imgen.MTConfig)
	l1 := g.Blob([]byte("source-layer-1"), imgen.MTLayer)
	l2 := g.Blob([]byte("source-layer-2"), imgen.MTLayer)
	a := g.Image(false, cfg, []*imgen.Node{l1}, nil, nil, "src-a")
	b := g.Image(false, cfg, []*imgen.Node{l1, l2}, nil, nil, "src-b")
	idx := g.Index(false, []*imgen.Node{a, b}, "src-idx")
	var ops []DOp
	for _, bl := range []*imgen.Node{cfg, l1, l2} {
		ops = append(ops, DOp{K: "blobput", Body: bl.Body})
	}
	ops = append(ops, DOp{K: "manputchild", Body: a.Body, Digest: a.Digest}, DOp{K: "manputchild", Body: b.Body, Digest: b.Digest},
		DOp{K: "manput", Body: a.Body, Tag: "img"}, DOp{K: "manput", Body: idx.Body, Tag: "idx"})
	if err := Exec(dir, ops); err != nil {
		return err
	}
	// a tar export of the multi-platform image for import operations
	rc := regclient.New()
	r, _ := ref.New("ocidir://" + dir + ":idx")
	fh, err := os.Create(filepath.Join(filepath.Dir(dir), "c07src.tar"))
	if err != nil {
		return err
	}
	defer fh.Close()
	return rc.ImageExport(context.Background(), r, fh)
}

func Run(o lib.Opts) {
	if o.Mode == "driver" {
		var s Script
		b, err := os.ReadFile(o.Replay)
		if err == nil {
			err = json.Unmarshal(b, &s)
		}
		if err == nil {
			err = Exec(s.Layout, s.Ops)
		}
		if err != nil {
			fmt.Println("DRIVER-ERROR", err)
		}
		return
	}
	res := lib.NewResult("C07", o.Tier, o.Seed)
	res.Rule = "one splitmix64 stream: histories of 2-5 API operations (whole-image push children-first incl. an index, tag delete, manifest delete with referrer check, referrer-bearing manifest put, garbage collection on close, whole-image copy from another layout) on layouts started empty (30%) or populated (70%, incl. two tags sharing a manifest); every operation is executed alone by a driver subprocess under strace and the directory is rebuilt after EVERY prefix of its create/write/rename/unlink/mkdir calls; each such crash state is checked by an independent validator, read by a fresh client, and the operation is repeated; non-trivial = crash state strictly inside an operation; distinct = (history, operation, prefix)"
	self, _ := os.Executable()
	abs, _ := filepath.Abs(o.Out)
	srcDir := filepath.Join(abs, "c07src")
	_ = os.RemoveAll(srcDir)
	if err := buildSource(srcDir); err != nil {
		res.Notes = append(res.Notes, "source build failed: "+err.Error())
	}
	defer os.RemoveAll(srcDir)
	defer os.Remove(filepath.Join(abs, "c07src.tar"))
	if o.Replay != "" {
		var f struct {
			Case struct {
				Case Case `json:"case"`
			}
		}
		b, err := os.ReadFile(o.Replay)
		if err == nil {
			err = json.Unmarshal(b, &f)
		}
		if err != nil {
			fmt.Println("replay:", err)
			os.Exit(2)
		}
		o.Out = os.TempDir()
		runCase(f.Case.Case, o, res, self)
		for _, fl := range res.Failures {
			fmt.Printf("REPLAY-FAIL %s: %s\n", fl.Sig, fl.Desc)
		}
		if len(res.Failures) == 0 {
			fmt.Println("REPLAY-OK")
		}
		return
	}
	r := lib.NewRand(o.Seed)
	if o.Mode != "search" {
		caseOut = lib.NewCaseWriter(o.Out, "C07", "From Coq Require Import List.\nFrom Verif Require Import Model.C07_LayoutFS Corr.C07.\nImport ListNotations.", "case", 400)
	}
	n := o.Scale(12, 300)
	for i := 0; i < n; i++ {
		c := genCase(r, srcDir)
		res.Evaluations++
		runCase(c, o, res, self)
		res.Sample(map[string]any{"seed": c.Seed, "setup_ops": len(c.Setup), "history": opNames(c.History)}, 4)
	}
	res.Distinct = toInt(res.Extra["crash_states"])
	res.Evaluations = toInt(res.Extra["crash_states"])
	// collapse duplicate failure signatures
	sort.SliceStable(res.Failures, func(i, j int) bool { return res.Failures[i].Sig < res.Failures[j].Sig })
	var uniq []lib.Failure
	for i, f := range res.Failures {
		if i == 0 || f.Sig != res.Failures[i-1].Sig {
			uniq = append(uniq, f)
		}
	}
	res.Failures = uniq
	if caseOut != nil {
		caseOut.Close(res)
	}
	lib.WriteResult(o.Out, res)
}

func opNames(l []DOp) []string {
	var s []string
	for _, o := range l {
		s = append(s, o.K+":"+o.Tag)
	}
	return s
}
