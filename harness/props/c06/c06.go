// Package c06: tags behave as a name->digest map.  OCI layouts (incl. foreign index shapes) are driven
// through RegClient and compared operation by operation with the Coq model of the index functions;
// registries (tag-delete API on/off, any page size, pages with holes) are compared with a reference map.
package c06

import (
	"context"
	"encoding/json"
	"errors"
	"fmt"
	"net/http"
	"os"
	"path/filepath"
	"sort"
	"strings"
	"sync"
	"time"

	"github.com/regclient/regclient"
	"github.com/regclient/regclient/config"
	"github.com/regclient/regclient/scheme/reg"
	"github.com/regclient/regclient/types/errs"
	"github.com/regclient/regclient/types/manifest"
	"github.com/regclient/regclient/types/ref"

	"verifharness/lib"
	"verifharness/memreg"
	"verifharness/memrt"
)

type Entry struct {
	D    int
	Name string
}
type Op struct {
	K string // puttag | putdig | putchild | tagdel | mandel | head | getdig | list
	T string `json:",omitempty"`
	D int    `json:",omitempty"`
	Ref bool `json:",omitempty"` // mandel: with the referrer check (WithManifestCheckReferrers)
	Via string `json:",omitempty"` // mandel / getdig: the reference also carries this tag (repo:tag@digest)
}
type Case struct {
	Kind   string  // ocidir | reg | conc
	Idx    []Entry `json:",omitempty"` // initial (foreign) index
	Files  []int   `json:",omitempty"`
	Ops    []Op
	TagDel bool            `json:",omitempty"`
	Page   int             `json:",omitempty"`
	Hidden map[string]bool `json:",omitempty"`
	Scheme string          `json:",omitempty"`
	Cache  bool            `json:",omitempty"` // registry runs: the client caches responses (reg.WithCache)
}

const nMan = 4

var (
	manBody [nMan + 1][]byte
	manDig  [nMan + 1]string
)

func init() {
	for i := 1; i <= nMan; i++ {
		manBody[i] = []byte(fmt.Sprintf(`{"schemaVersion":2,"mediaType":"application/vnd.oci.image.manifest.v1+json","artifactType":"application/vnd.example.c06","config":{"mediaType":"application/vnd.oci.empty.v1+json","digest":"sha256:44136fa355b3678a1146ad16f7e8649e94fb4fc21fe77e8310c060f61caaff8a","size":2},"layers":[{"mediaType":"application/vnd.oci.empty.v1+json","digest":"sha256:44136fa355b3678a1146ad16f7e8649e94fb4fc21fe77e8310c060f61caaff8a","size":2}],"annotations":{"n":"%d"}}`, i))
		manDig[i] = memreg.Digest("sha256", manBody[i])
	}
}
func digID(d string) int {
	for i := 1; i <= nMan; i++ {
		if manDig[i] == d {
			return i
		}
	}
	return 0
}

func writeLayout(dir string, idx []Entry, files []int) {
	_ = os.RemoveAll(dir)
	_ = os.MkdirAll(filepath.Join(dir, "blobs", "sha256"), 0o755)
	_ = os.WriteFile(filepath.Join(dir, "oci-layout"), []byte(`{"imageLayoutVersion":"1.0.0"}`), 0o644)
	type d struct {
		MediaType   string            `json:"mediaType"`
		Digest      string            `json:"digest"`
		Size        int               `json:"size"`
		Annotations map[string]string `json:"annotations,omitempty"`
	}
	ms := []d{}
	for _, e := range idx {
		x := d{MediaType: "application/vnd.oci.image.manifest.v1+json", Digest: manDig[e.D], Size: len(manBody[e.D])}
		if e.Name != "" {
			x.Annotations = map[string]string{"org.opencontainers.image.ref.name": e.Name}
		}
		ms = append(ms, x)
	}
	b, _ := json.Marshal(map[string]any{"schemaVersion": 2, "mediaType": "application/vnd.oci.image.index.v1+json", "manifests": ms})
	_ = os.WriteFile(filepath.Join(dir, "index.json"), b, 0o644)
	for _, f := range files {
		_ = os.WriteFile(filepath.Join(dir, "blobs", "sha256", strings.TrimPrefix(manDig[f], "sha256:")), manBody[f], 0o644)
	}
	_ = os.WriteFile(filepath.Join(dir, "blobs", "sha256", "44136fa355b3678a1146ad16f7e8649e94fb4fc21fe77e8310c060f61caaff8a"), []byte("{}"), 0o644)
}

type result struct {
	kind string // ok | err | dig | bool | list
	dig  int
	b    bool
	list []string
}

func (r result) coq() string {
	switch r.kind {
	case "ok":
		return "ROk"
	case "err":
		return "RErr"
	case "dig":
		if r.dig == 0 {
			return "(RDig None)"
		}
		return fmt.Sprintf("(RDig (Some %d))", r.dig)
	case "bool":
		return "(RBool " + lib.CoqBool(r.b) + ")"
	}
	return "(RList " + lib.CoqStrList(r.list) + ")"
}

func coqOp(op Op) string {
	switch op.K {
	case "puttag":
		return fmt.Sprintf("PutTag %s %d", lib.CoqStr(op.T), op.D)
	case "putdig":
		return fmt.Sprintf("PutDigest %d", op.D)
	case "putchild":
		return fmt.Sprintf("PutChild %d", op.D)
	case "tagdel":
		return fmt.Sprintf("TagDel %s", lib.CoqStr(op.T))
	case "mandel":
		return fmt.Sprintf("ManDel %d", op.D)
	case "head":
		return fmt.Sprintf("Head %s", lib.CoqStr(op.T))
	case "getdig":
		return fmt.Sprintf("GetDig %d", op.D)
	}
	return "List"
}

func doOp(ctx context.Context, rc *regclient.RegClient, base string, op Op) result {
	mk := func(i int) manifest.Manifest {
		m, err := manifest.New(manifest.WithRaw(manBody[i]))
		if err != nil {
			panic(err)
		}
		return m
	}
	switch op.K {
	case "puttag":
		r, _ := ref.New(base + ":" + op.T)
		if err := rc.ManifestPut(ctx, r, mk(op.D)); err != nil {
			return result{kind: "err"}
		}
		return result{kind: "ok"}
	case "putdig", "putchild":
		r, _ := ref.New(base + "@" + manDig[op.D])
		var err error
		if op.K == "putchild" {
			err = rc.ManifestPut(ctx, r, mk(op.D), regclient.WithManifestChild())
		} else {
			err = rc.ManifestPut(ctx, r, mk(op.D))
		}
		if err != nil {
			return result{kind: "err"}
		}
		return result{kind: "ok"}
	case "tagdel":
		r, _ := ref.New(base + ":" + op.T)
		if err := rc.TagDelete(ctx, r); err != nil {
			return result{kind: "err"}
		}
		return result{kind: "ok"}
	case "mandel":
		r, _ := ref.New(base + "@" + manDig[op.D])
		if op.Via != "" {
			r, _ = ref.New(base + ":" + op.Via + "@" + manDig[op.D])
		}
		var mo []regclient.ManifestOpts
		if op.Ref {
			mo = append(mo, regclient.WithManifestCheckReferrers())
		}
		if err := rc.ManifestDelete(ctx, r, mo...); err != nil {
			return result{kind: "err"}
		}
		return result{kind: "ok"}
	case "head":
		r, _ := ref.New(base + ":" + op.T)
		m, err := rc.ManifestHead(ctx, r)
		if err != nil {
			if errors.Is(err, errs.ErrNotFound) {
				return result{kind: "dig"}
			}
			return result{kind: "dig", dig: -1}
		}
		return result{kind: "dig", dig: digID(m.GetDescriptor().Digest.String())}
	case "getdig":
		r, _ := ref.New(base + "@" + manDig[op.D])
		_, err := rc.ManifestGet(ctx, r)
		return result{kind: "bool", b: err == nil}
	case "list":
		r, _ := ref.New(base)
		tl, err := rc.TagList(ctx, r)
		if err != nil {
			return result{kind: "list", list: []string{"<error>"}}
		}
		tags, _ := tl.GetTags()
		if tags == nil {
			tags = []string{}
		}
		return result{kind: "list", list: tags}
	}
	return result{kind: "err"}
}

// reference map (the specification, kept by the harness)
type specT struct {
	tags map[string]int
	mans map[int]bool
}

func (s *specT) apply(op Op) result {
	switch op.K {
	case "puttag":
		s.tags[op.T] = op.D
		s.mans[op.D] = true
		return result{kind: "ok"}
	case "putdig", "putchild":
		s.mans[op.D] = true
		return result{kind: "ok"}
	case "tagdel":
		if _, ok := s.tags[op.T]; !ok {
			return result{kind: "err"}
		}
		delete(s.tags, op.T)
		return result{kind: "ok"}
	case "mandel":
		if !s.mans[op.D] {
			return result{kind: "err"}
		}
		delete(s.mans, op.D)
		for t, d := range s.tags {
			if d == op.D {
				delete(s.tags, t)
			}
		}
		return result{kind: "ok"}
	case "head":
		if d, ok := s.tags[op.T]; ok && s.mans[d] {
			return result{kind: "dig", dig: d}
		}
		return result{kind: "dig"}
	case "getdig":
		return result{kind: "bool", b: s.mans[op.D]}
	}
	var l []string
	for t := range s.tags {
		l = append(l, t)
	}
	sort.Strings(l)
	if l == nil {
		l = []string{}
	}
	return result{kind: "list", list: l}
}

func sameRes(a, b result) bool {
	if a.kind != b.kind || a.dig != b.dig || a.b != b.b {
		return false
	}
	x, y := append([]string(nil), a.list...), append([]string(nil), b.list...)
	sort.Strings(x)
	sort.Strings(y)
	return strings.Join(x, "\x00") == strings.Join(y, "\x00")
}

func wellFormed(idx []Entry) bool {
	seen := map[string]bool{}
	for _, e := range idx {
		if e.Name == "" {
			continue
		}
		if strings.Contains(e.Name, ":") || seen[e.Name] {
			return false
		}
		seen[e.Name] = true
	}
	return true
}

func newReg(c Case) (*regclient.RegClient, *memreg.Registry) {
	mr := memreg.New("reg.example", memreg.Features{TagDelete: c.TagDel, Delete: true, TagPage: c.Page, TagHidden: c.Hidden})
	rt := &memrt.RT{Handler: mr.Handle}
	ro := []reg.Opts{reg.WithHTTPClient(&http.Client{Transport: rt}), reg.WithDelay(time.Millisecond, 5*time.Millisecond)}
	if c.Cache {
		ro = append(ro, reg.WithCache(5*time.Minute, 500))
	}
	rc := regclient.New(regclient.WithConfigHost(config.Host{Name: "reg.example", Hostname: "reg.example", TLS: config.TLSDisabled}), regclient.WithRegOpts(ro...))
	return rc, mr
}

func runCase(c Case, dir string, res *lib.Result) (ret string) {
	defer res.Recover(c)
	return runCaseRaw(c, dir, res)
}

func runCaseRaw(c Case, dir string, res *lib.Result) string {
	ctx, cancel := context.WithTimeout(context.Background(), 30*time.Second)
	defer cancel()
	switch c.Kind {
	case "ocidir":
		lay := filepath.Join(dir, "layout-c06")
		writeLayout(lay, c.Idx, c.Files)
		defer os.RemoveAll(lay)
		rc := regclient.New()
		base := "ocidir://" + lay
		sp := &specT{tags: map[string]int{}, mans: map[int]bool{}}
		wf := wellFormed(c.Idx)
		for _, e := range c.Idx {
			if e.Name != "" {
				sp.tags[e.Name] = e.D
			}
		}
		for _, f := range c.Files {
			sp.mans[f] = true
		}
		var obs []string
		for i, op := range c.Ops {
			r := doOp(ctx, rc, base, op)
			res.Count("ocidir:" + op.K + ":" + r.kind)
			obs = append(obs, r.coq())
			// the index stays a valid OCI index after every operation: "manifests" is an array (an empty one when nothing is left)
			if ib, e := os.ReadFile(filepath.Join(lay, "index.json")); e == nil {
				var raw map[string]json.RawMessage
				if json.Unmarshal(ib, &raw) != nil {
					res.Fail("index-not-valid", fmt.Sprintf("after op %d %+v index.json is not a JSON object", i, op), c)
				} else if m := strings.TrimSpace(string(raw["manifests"])); !strings.HasPrefix(m, "[") {
					res.Fail("index-not-valid", fmt.Sprintf("after op %d %+v index.json has \"manifests\": %s (an OCI index lists its manifests in an array)", i, op, m), c)
				}
			}
			// any layout, also a foreign one with full image names or duplicates: a tag that was just pushed resolves to
			// the manifest that was pushed (C06_push_then_get)
			if op.K == "puttag" && r.kind == "ok" {
				if h := doOp(ctx, rc, base, Op{K: "head", T: op.T}); h.kind != "dig" || h.dig != op.D {
					res.Fail("pushed-tag-resolves-elsewhere", fmt.Sprintf("op %d %+v succeeded, but a head of tag %s answers %s", i, op, op.T, h.coq()), c)
				}
			}
			if wf {
				want := sp.apply(op)
				if !sameRes(r, want) {
					res.Fail("layout-differs-from-map op="+op.K, fmt.Sprintf("op %d %+v reported %s, a tag->digest map reports %s", i, op, r.coq(), want.coq()), c)
					wf = false
				}
			} else if op.K == "tagdel" && r.kind == "ok" {
				// foreign layouts: no index entry whose ref.name is exactly that tag may be left
				var ix struct {
					Manifests []struct {
						Annotations map[string]string `json:"annotations"`
					} `json:"manifests"`
				}
				b, _ := os.ReadFile(filepath.Join(lay, "index.json"))
				_ = json.Unmarshal(b, &ix)
				for _, m := range ix.Manifests {
					if m.Annotations["org.opencontainers.image.ref.name"] == op.T {
						res.Fail("tag-survives-delete foreign-layout", fmt.Sprintf("TagDelete(%s) succeeded but index.json still has an entry named %s", op.T, op.T), c)
						break
					}
				}
			}
		}
		var idx, files, ops []string
		for _, e := range c.Idx {
			idx = append(idx, fmt.Sprintf("mkE %d %s", e.D, lib.CoqStr(e.Name)))
		}
		for _, f := range c.Files {
			files = append(files, fmt.Sprint(f))
		}
		for _, op := range c.Ops {
			ops = append(ops, coqOp(op))
		}
		return fmt.Sprintf("mkCase %s %s %s %s", lib.CoqList(idx), lib.CoqList(files), lib.CoqList(ops), lib.CoqList(obs))
	case "reg":
		rc, mr := newReg(c)
		base := "reg.example/repo"
		mr.PutBlob("repo", []byte("{}"))
		sp := &specT{tags: map[string]int{}, mans: map[int]bool{}}
		var opsR, obsR []string
		for i, op := range c.Ops {
			if op.K == "putchild" {
				op.K = "putdig"
			}
			r := doOp(ctx, rc, base, op)
			opsR = append(opsR, coqOp(op))
			obsR = append(obsR, r.coq())
			want := sp.apply(op)
			if op.K == "list" { // hidden tags are not listed
				var vis []string
				for _, t := range want.list {
					if !c.Hidden[t] {
						vis = append(vis, t)
					}
				}
				if vis == nil {
					vis = []string{}
				}
				want.list = vis
			}
			res.Count("reg:" + op.K + ":" + r.kind)
			if !sameRes(r, want) {
				res.Fail(fmt.Sprintf("registry-differs-from-map op=%s tagdelete-api=%v page=%d holes=%v", op.K, c.TagDel, c.Page, len(c.Hidden) > 0),
					fmt.Sprintf("op %d %+v reported %s, a tag->digest map reports %s", i, op, r.coq(), want.coq()), c)
				break
			}
			// raw registry state must agree as well (the placeholder manifest of the fallback must be gone)
			raw := mr.TagsOf("repo")
			if len(raw) != len(sp.tags) {
				res.Fail("registry-state-differs op="+op.K, fmt.Sprintf("after op %d %+v the registry holds tags %v, expected %v", i, op, raw, sp.tags), c)
				break
			}
		}
		if len(c.Hidden) == 0 {
			// the registry history against the abstract tag map of the Coq development (listings with hidden tags are
			// compared by the reference map above only)
			return fmt.Sprintf("mkReg %s %s", lib.CoqList(opsR), lib.CoqList(obsR))
		}
	case "conc":
		var rc *regclient.RegClient
		base := ""
		if c.Scheme == "ocidir" {
			lay := filepath.Join(dir, "layout-c06c")
			writeLayout(lay, nil, nil)
			defer os.RemoveAll(lay)
			rc = regclient.New()
			base = "ocidir://" + lay
		} else {
			var mr *memreg.Registry
			rc, mr = newReg(c)
			mr.PutBlob("repo", []byte("{}"))
			base = "reg.example/repo"
		}
		var wg sync.WaitGroup
		for _, op := range c.Ops {
			wg.Add(1)
			go func(op Op) { defer wg.Done(); doOp(ctx, rc, base, op) }(op)
		}
		wg.Wait()
		got := doOp(ctx, rc, base, Op{K: "list"})
		want := map[string]bool{}
		for _, op := range c.Ops {
			want[op.T] = true
		}
		if len(got.list) != len(want) {
			res.Fail("concurrent-pushes-lost scheme="+c.Scheme, fmt.Sprintf("%d concurrent pushes of distinct tags, listing afterwards %v", len(c.Ops), got.list), c)
		}
		for _, op := range c.Ops {
			h := doOp(ctx, rc, base, Op{K: "head", T: op.T})
			if h.dig != op.D {
				res.Fail("concurrent-pushes-lost scheme="+c.Scheme, fmt.Sprintf("tag %s resolves to %d after concurrent pushes, expected %d", op.T, h.dig, op.D), c)
			}
		}
		res.Count("conc:" + c.Scheme)
	}
	return ""
}

var tagPool = []string{"a", "b", "c", "latest", "v1.0"}

func genOps(r *lib.Rand, n int) []Op {
	var ops []Op
	for i := 0; i < n; i++ {
		t, d := lib.Pick(r, tagPool), 1+r.Intn(nMan)
		switch k := r.Intn(100); {
		case k < 28:
			ops = append(ops, Op{K: "puttag", T: t, D: d})
		case k < 34:
			ops = append(ops, Op{K: "putdig", D: d})
		case k < 38:
			ops = append(ops, Op{K: "putchild", D: d})
		case k < 52:
			ops = append(ops, Op{K: "tagdel", T: t})
		case k < 62:
			o := Op{K: "mandel", D: d, Ref: r.Chance(40)}
			if r.Chance(30) { // the caller names the manifest as repo:tag@digest
				o.Via = lib.Pick(r, []string{"a", "b", "latest"})
			}
			ops = append(ops, o)
		case k < 80:
			ops = append(ops, Op{K: "head", T: t})
		case k < 88:
			ops = append(ops, Op{K: "getdig", D: d})
		default:
			ops = append(ops, Op{K: "list"})
		}
	}
	ops = append(ops, Op{K: "list"})
	for _, t := range tagPool {
		ops = append(ops, Op{K: "head", T: t})
	}
	return ops
}

func genCase(r *lib.Rand) Case {
	switch k := r.Intn(100); {
	case k < 55:
		c := Case{Kind: "ocidir", Ops: genOps(r, 3+r.Intn(22))}
		if r.Chance(45) { // foreign layout
			n := 1 + r.Intn(5)
			for i := 0; i < n; i++ {
				name := lib.Pick(r, []string{"a", "a", "b", "c", "", "", "repo:a", "docker.io/library/x:b", "latest"})
				c.Idx = append(c.Idx, Entry{D: 1 + r.Intn(nMan), Name: name})
			}
			for d := 1; d <= nMan; d++ {
				if r.Chance(75) {
					c.Files = append(c.Files, d)
				}
			}
		}
		return c
	case k < 92:
		c := Case{Kind: "reg", Ops: genOps(r, 3+r.Intn(18)), TagDel: r.Bool(), Page: r.Intn(4), Cache: r.Bool()}
		if r.Chance(35) && c.Page > 0 {
			c.Hidden = map[string]bool{}
			for _, t := range tagPool {
				if r.Chance(45) {
					c.Hidden[t] = true
				}
			}
		}
		return c
	default:
		c := Case{Kind: "conc", Scheme: lib.Pick(r, []string{"ocidir", "reg"}), TagDel: true}
		for i, t := range tagPool[:2+r.Intn(3)] {
			c.Ops = append(c.Ops, Op{K: "puttag", T: t, D: 1 + (i % nMan)})
		}
		return c
	}
}

func Run(o lib.Opts) {
	res := lib.NewResult("C06", o.Tier, o.Seed)
	res.Rule = "one splitmix64 stream: histories of 3-25 operations (push by tag / by digest / child, tag delete, manifest delete with (40%) and without the referrer check, head, get by digest, list) over 5 tags x 4 manifests (several tags share a manifest), closed by a listing and a head of every tag; 55% OCI layouts (45% of them start from a foreign index.json: duplicate, untagged and full-image-name entries, missing files) compared result by result with the Coq model and, when well formed, with a reference map; 37% registries with the tag-delete API on/off, page sizes 0-3 and pages with hidden-tag holes compared with the reference map, with the abstract tag map of the Coq development (vm_compute) and the raw registry state; 8% concurrent pushes of distinct tags through one client; non-trivial = history containing a delete; distinct by case"
	dir := o.Out
	if o.Replay != "" {
		var f struct{ Case Case }
		b, err := os.ReadFile(o.Replay)
		if err == nil {
			err = json.Unmarshal(b, &f)
		}
		if err != nil {
			fmt.Println("replay:", err)
			os.Exit(2)
		}
		runCase(f.Case, os.TempDir(), res)
		for _, fl := range res.Failures {
			fmt.Printf("REPLAY-FAIL %s: %s\n", fl.Sig, fl.Desc)
		}
		if len(res.Failures) == 0 {
			fmt.Println("REPLAY-OK")
		}
		return
	}
	r := lib.NewRand(o.Seed)
	cw := lib.NewCaseWriter(o.Out, "C06", "From Coq Require Import List String.\nFrom Verif Require Import Base.StrX Model.C06_Tags Corr.C06.\nImport ListNotations. Open Scope string_scope.", "case", 500)
	all := []Case{
		{Kind: "ocidir", Idx: []Entry{{1, "t"}, {2, "t"}, {3, "u"}}, Files: []int{1, 2, 3}, Ops: []Op{{K: "tagdel", T: "t"}, {K: "list"}, {K: "head", T: "t"}, {K: "head", T: "u"}}},
		{Kind: "ocidir", Ops: []Op{{K: "puttag", T: "a", D: 1}, {K: "puttag", T: "b", D: 1}, {K: "puttag", T: "c", D: 1}, {K: "puttag", T: "a", D: 1}, {K: "list"}, {K: "head", T: "b"}, {K: "head", T: "c"}}},
		{Kind: "ocidir", Ops: []Op{{K: "puttag", T: "a", D: 1}, {K: "puttag", T: "b", D: 2}, {K: "puttag", T: "a", D: 2}, {K: "list"}, {K: "head", T: "b"}}},
		{Kind: "reg", TagDel: false, Page: 1, Hidden: map[string]bool{"b": true, "c": true}, Ops: []Op{{K: "puttag", T: "a", D: 1}, {K: "puttag", T: "b", D: 1}, {K: "puttag", T: "c", D: 2}, {K: "puttag", T: "latest", D: 2}, {K: "list"}}},
	}
	n := o.Scale(500, 15000)
	for i := 0; i < n; i++ {
		all = append(all, genCase(r))
	}
	seen := lib.Set{}
	for _, c := range all {
		res.Evaluations++
		kb, _ := json.Marshal(c)
		hasDel := false
		for _, op := range c.Ops {
			if op.K == "tagdel" || op.K == "mandel" {
				hasDel = true
			}
		}
		if _, dup := seen[string(kb)]; !dup && (hasDel || c.Kind == "conc") {
			res.Distinct++
		}
		seen.Add(string(kb))
		term := runCase(c, dir, res)
		if o.Mode != "search" && term != "" {
			cw.Add(term, c)
		}
		res.Sample(c, 3)
	}
	cw.Close(res)
	lib.WriteResult(o.Out, res)
}
