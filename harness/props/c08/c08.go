// Package c08: the collector of an OCI layout.  (1) sequential histories of copies, pushes, deletions, referrer
// additions/removals, stray temporary files and closes through one RegClient: at every Close the set of files
// under blobs/ before and after is compared with the Coq model's sweep of the same store and with an
// independent reachability walk from index.json; (2) the lock table alone (GCLock / GCUnlock / writes / Close
// on scheme/ocidir directly, collection on and off) compared decision by decision with the Coq lock machine;
// (3) concurrent copies into one layout with concurrent closes, latencies and a deterministic gate that holds
// one copy open while another finishes and the layout is closed: no copy may lose a blob.
package c08

import (
	"bytes"
	"context"
	"crypto/sha256"
	"encoding/hex"
	"encoding/json"
	"fmt"
	"log/slog"
	"net/http"
	"os"
	"path/filepath"
	"sort"
	"strings"
	"sync"
	"sync/atomic"
	"time"

	"github.com/regclient/regclient"
	"github.com/regclient/regclient/config"
	"github.com/regclient/regclient/scheme/ocidir"
	"github.com/regclient/regclient/scheme/reg"
	"github.com/regclient/regclient/types/descriptor"
	"github.com/regclient/regclient/types/manifest"
	"github.com/regclient/regclient/types/ref"

	"verifharness/imgen"
	"verifharness/lib"
	"verifharness/memreg"
	"verifharness/memrt"
)

type Op struct {
	K    string // copy | putman | putblob | tagdel | mandel | refadd | refdel | stray | schema1 | close
	G    int    `json:",omitempty"` // graph number
	N    int    `json:",omitempty"` // node choice (index into a sorted list, modulo its length)
	Tag  string `json:",omitempty"`
	Refs bool   `json:",omitempty"`
	Plat bool   `json:",omitempty"`
	Chk  bool   `json:",omitempty"`
}
type LockEv struct {
	K string // lock | unlock | write | close
}
type Case struct {
	Kind   string // hist | locks | conc | gate
	Seed   uint64
	Graphs int      `json:",omitempty"`
	Ops    []Op     `json:",omitempty"`
	GC     bool     `json:",omitempty"`
	Evs    []LockEv `json:",omitempty"`
	Copies int      `json:",omitempty"`
	Closes int      `json:",omitempty"`
	GateAt int      `json:",omitempty"`
	Bundle bool     `json:",omitempty"` // graph 1 is an artifact that bundles an image manifest of graph 0 as a blob
}

// bundleMode: 0 = by chance (sequential histories), 1 = graph 1 always, -1 = never (concurrent copies: a layout that
// holds the bytes of a manifest as a blob makes a copy trust that manifest to be complete - C03's documented rule - so a
// concurrent copy of the bundled image would legitimately skip its content)
var bundleMode int

func sha(b []byte) string { s := sha256.Sum256(b); return "sha256:" + hex.EncodeToString(s[:]) }

// ---------- independent reading of a layout ----------
type nodeInfo struct {
	kind     string // index | image | blob
	children []string
}

var indexMT = map[string]bool{imgen.MTIndex: true, imgen.MTDockerL: true}
var imageMT = map[string]bool{imgen.MTImage: true, imgen.MTDocker: true}

func classify(body []byte) nodeInfo {
	var m struct {
		MediaType     string `json:"mediaType"`
		SchemaVersion int    `json:"schemaVersion"`
		Manifests     []struct{ Digest string }
		Config        *struct{ Digest string }
		Layers        []struct{ Digest string }
		FsLayers      []struct{ BlobSum string }
		Blobs         []struct{ Digest string }
	}
	if json.Unmarshal(body, &m) != nil {
		return nodeInfo{kind: "blob"}
	}
	switch {
	case indexMT[m.MediaType] || (m.MediaType == "" && m.SchemaVersion != 1 && len(m.Manifests) > 0):
		n := nodeInfo{kind: "index"}
		for _, c := range m.Manifests {
			n.children = append(n.children, c.Digest)
		}
		return n
	case imageMT[m.MediaType] || (m.MediaType == "" && m.SchemaVersion != 1 && len(m.Layers) > 0):
		n := nodeInfo{kind: "image"}
		if m.Config != nil && m.Config.Digest != "" {
			n.children = append(n.children, m.Config.Digest)
		} else {
			n.children = append(n.children, "")
		}
		for _, l := range m.Layers {
			n.children = append(n.children, l.Digest)
		}
		return n
	case m.MediaType == "application/vnd.oci.artifact.manifest.v1+json": // OCI artifact manifest: its blobs are leaves
		n := nodeInfo{kind: "image", children: []string{""}}
		for _, l := range m.Blobs {
			n.children = append(n.children, l.Digest)
		}
		return n
	case m.SchemaVersion == 1 && (m.MediaType == "" || strings.HasPrefix(m.MediaType, "application/vnd.docker.distribution.manifest.v1")):
		n := nodeInfo{kind: "image", children: []string{""}}
		for _, l := range m.FsLayers {
			n.children = append(n.children, l.BlobSum)
		}
		return n
	}
	return nodeInfo{kind: "blob"}
}

type snapshot struct {
	files map[string][]byte // "alg:name" -> content
	index []string          // digests listed in index.json, in order
}

func snap(dir string) snapshot {
	s := snapshot{files: map[string][]byte{}}
	algs, _ := os.ReadDir(filepath.Join(dir, "blobs"))
	for _, a := range algs {
		if !a.IsDir() {
			continue
		}
		fl, _ := os.ReadDir(filepath.Join(dir, "blobs", a.Name()))
		for _, f := range fl {
			b, _ := os.ReadFile(filepath.Join(dir, "blobs", a.Name(), f.Name()))
			s.files[a.Name()+":"+f.Name()] = b
		}
	}
	var ix struct{ Manifests []struct{ Digest string } }
	b, _ := os.ReadFile(filepath.Join(dir, "index.json"))
	_ = json.Unmarshal(b, &ix)
	for _, m := range ix.Manifests {
		s.index = append(s.index, m.Digest)
	}
	return s
}

// reach: the independent reachability walk (work list with a visited set; manifests are followed from the
// index through indexes; an image names blobs which are not followed)
func (s snapshot) reach() map[string]bool {
	out := map[string]bool{}
	seenM := map[string]bool{}
	work := append([]string(nil), s.index...)
	for len(work) > 0 {
		d := work[0]
		work = work[1:]
		out[d] = true
		if seenM[d] {
			continue
		}
		seenM[d] = true
		b, ok := s.files[d]
		if !ok {
			continue
		}
		n := classify(b)
		switch n.kind {
		case "index":
			work = append(work, n.children...)
		case "image":
			for _, c := range n.children {
				if c != "" {
					out[c] = true
				}
			}
		}
	}
	return out
}

// ---------- the world of a history ----------
type gcLog struct{ n atomic.Int64 }

func (g *gcLog) Enabled(context.Context, slog.Level) bool { return true }
func (g *gcLog) Handle(_ context.Context, r slog.Record) error {
	if r.Message == "running GC" {
		g.n.Add(1)
	}
	return nil
}
func (g *gcLog) WithAttrs([]slog.Attr) slog.Handler { return g }
func (g *gcLog) WithGroup(string) slog.Handler      { return g }

type world struct {
	src    *memreg.Registry
	rt     *memrt.RT
	rc     *regclient.RegClient
	graphs []*imgen.Graph
	log    *gcLog
	hook   func(req *http.Request) // called before the registry answers
	seed   uint64
	lat    bool
	reqN   atomic.Int64
}

const srcRepo = "proj/app"

func newWorld(seed uint64, ngraphs int, lat bool) *world {
	r := lib.NewRand(seed)
	w := &world{seed: seed, lat: lat, log: &gcLog{}}
	w.src = memreg.New("src.example", memreg.Features{Delete: true, TagDelete: true, ReferrersAPI: true})
	for i := 0; i < ngraphs; i++ {
		g := imgen.Random(r, fmt.Sprintf("s%xg%d", seed&0xfff, i))
		if i > 0 && r.Chance(60) { // an image sharing layers with the previous graph
			var bl []*imgen.Node
			for _, n := range w.graphs[i-1].Nodes {
				if n.Kind == "blob" && n.MT == imgen.MTLayer {
					bl = append(bl, n)
				}
			}
			if len(bl) > 0 {
				l1 := g.Blob(bl[0].Body, imgen.MTLayer)
				cfg := g.Blob([]byte(fmt.Sprintf(`{"architecture":"amd64","os":"linux","config":{"Labels":{"d":"%d"}},"rootfs":{"type":"layers","diff_ids":[]}}`, i)), imgen.MTConfig)
				d := g.Image(false, cfg, []*imgen.Node{l1}, nil, nil, "derived")
				if g.Root.Kind == "index" {
					g.Root = g.Index(false, append(append([]*imgen.Node(nil), g.Root.Children...), d), "with-derived")
				}
			}
		}
		if chance := r.Chance(30); i > 0 && bundleMode >= 0 && (chance || (bundleMode == 1 && i == 1)) {
			// an artifact that bundles an image manifest of the previous graph as one of its blobs: that digest is then both a
			// plain blob (of the artifact) and, once the image is pushed too, a manifest the index reaches
			var im *imgen.Node
			for _, n := range w.graphs[i-1].Nodes {
				if n.Kind == "image" {
					im = n
				}
			}
			if im != nil {
				g = &imgen.Graph{}
				bl := g.Blob(im.Body, "application/vnd.example.bundled-manifest")
				g.Root = g.Artifact([]*imgen.Node{bl}, nil, fmt.Sprintf("bundle-%d", i))
			}
		}
		g.Load(w.src, srcRepo, fmt.Sprintf("g%d", i))
		w.graphs = append(w.graphs, g)
	}
	w.rt = &memrt.RT{Handler: func(req *http.Request, body []byte, n int) *http.Response {
		k := w.reqN.Add(1)
		if w.lat {
			time.Sleep(time.Duration((uint64(k)*2654435761+w.seed)%900) * time.Microsecond)
		}
		if w.hook != nil {
			w.hook(req)
		}
		return w.src.Handle(req, body, n)
	}}
	w.rc = regclient.New(
		regclient.WithConfigHost(config.Host{Name: "src.example", Hostname: "src.example", TLS: config.TLSDisabled}),
		regclient.WithRegOpts(reg.WithHTTPClient(&http.Client{Transport: w.rt}), reg.WithDelay(time.Millisecond, 5*time.Millisecond)),
		regclient.WithSlog(slog.New(w.log)))
	return w
}

func manifestsOf(g *imgen.Graph) []*imgen.Node {
	var l []*imgen.Node
	for _, n := range g.Nodes {
		if n.Kind != "blob" {
			l = append(l, n)
		}
	}
	return l
}

func (w *world) do(ctx context.Context, dir string, op Op, refsAdded *[]string) error {
	base := "ocidir://" + dir
	rc := w.rc
	g := w.graphs[op.G%len(w.graphs)]
	switch op.K {
	case "copy":
		rs, _ := ref.New(fmt.Sprintf("src.example/%s:g%d", srcRepo, op.G%len(w.graphs)))
		rt, _ := ref.New(base + ":" + op.Tag)
		var o []regclient.ImageOpts
		if op.Refs {
			o = append(o, regclient.ImageWithReferrers())
		}
		if op.Plat {
			o = append(o, regclient.ImageWithPlatforms([]string{"linux/amd64"}))
		}
		return rc.ImageCopy(ctx, rs, rt, o...)
	case "putman":
		ms := manifestsOf(g)
		n := ms[op.N%len(ms)]
		r, _ := ref.New(base + ":" + op.Tag)
		m, err := manifest.New(manifest.WithRaw(n.Body), manifest.WithDesc(descriptor.Descriptor{MediaType: n.MT}))
		if err != nil {
			return err
		}
		return rc.ManifestPut(ctx, r, m)
	case "putblob":
		r, _ := ref.New(base)
		_, err := rc.BlobPut(ctx, r, descriptor.Descriptor{}, bytes.NewReader([]byte(fmt.Sprintf("loose-%d-%d", w.seed, op.N))))
		return err
	case "tagdel":
		r, _ := ref.New(base + ":" + op.Tag)
		return rc.TagDelete(ctx, r)
	case "mandel":
		s := snap(dir)
		var cands []string
		for d, b := range s.files {
			if classify(b).kind != "blob" {
				cands = append(cands, d)
			}
		}
		if len(cands) == 0 {
			return nil
		}
		sort.Strings(cands)
		r, _ := ref.New(base + "@" + cands[op.N%len(cands)])
		if op.Chk {
			return rc.ManifestDelete(ctx, r, regclient.WithManifestCheckReferrers())
		}
		return rc.ManifestDelete(ctx, r)
	case "refadd":
		s := snap(dir)
		if len(s.index) == 0 {
			return nil
		}
		subj := s.index[op.N%len(s.index)]
		sb, ok := s.files[subj]
		if !ok {
			return nil
		}
		r, _ := ref.New(base)
		cfg := []byte("{}")
		payload := []byte(fmt.Sprintf("sig-%d-%d", w.seed, op.N))
		for _, b := range [][]byte{cfg, payload} {
			if _, err := rc.BlobPut(ctx, r, descriptor.Descriptor{}, bytes.NewReader(b)); err != nil {
				return err
			}
		}
		smt := imgen.MTImage
		if classify(sb).kind == "index" {
			smt = imgen.MTIndex
		}
		body, _ := json.Marshal(map[string]any{"schemaVersion": 2, "mediaType": imgen.MTImage, "artifactType": "application/vnd.example.sig",
			"config":  map[string]any{"mediaType": "application/vnd.oci.empty.v1+json", "digest": sha(cfg), "size": len(cfg)},
			"layers":  []any{map[string]any{"mediaType": "application/vnd.example.sig.payload", "digest": sha(payload), "size": len(payload)}},
			"subject": map[string]any{"mediaType": smt, "digest": subj, "size": len(sb)}})
		m, err := manifest.New(manifest.WithRaw(body))
		if err != nil {
			return err
		}
		rd, _ := ref.New(base + "@" + sha(body))
		if err := rc.ManifestPut(ctx, rd, m); err != nil {
			return err
		}
		*refsAdded = append(*refsAdded, sha(body))
		return nil
	case "refdel":
		if len(*refsAdded) == 0 {
			return nil
		}
		d := (*refsAdded)[op.N%len(*refsAdded)]
		r, _ := ref.New(base + "@" + d)
		return rc.ManifestDelete(ctx, r, regclient.WithManifestCheckReferrers())
	case "stray":
		_ = os.MkdirAll(filepath.Join(dir, "blobs", "sha256"), 0o755)
		name := fmt.Sprintf("%064x.%d.tmp", op.N, 1000+op.N)
		if op.N%2 == 0 {
			name = fmt.Sprintf("upload-%d.tmp", op.N)
		}
		return os.WriteFile(filepath.Join(dir, "blobs", "sha256", name), []byte("partial"), 0o644)
	case "schema1":
		r, _ := ref.New(base)
		layer := []byte(fmt.Sprintf("schema1-layer-%d-%d", w.seed, op.N))
		if _, err := rc.BlobPut(ctx, r, descriptor.Descriptor{}, bytes.NewReader(layer)); err != nil {
			return err
		}
		body, _ := json.Marshal(map[string]any{"schemaVersion": 1, "name": "x", "tag": op.Tag, "architecture": "amd64",
			"fsLayers": []any{map[string]string{"blobSum": sha(layer)}}, "history": []any{map[string]string{"v1Compatibility": "{}"}}})
		m, err := manifest.New(manifest.WithRaw(body), manifest.WithDesc(descriptor.Descriptor{MediaType: "application/vnd.docker.distribution.manifest.v1+json"}))
		if err != nil {
			return err
		}
		rt, _ := ref.New(base + ":" + op.Tag)
		return rc.ManifestPut(ctx, rt, m)
	}
	return nil
}

// gcCase renders one Close observation for the Coq model
func gcCase(before, after snapshot, swept bool) string {
	names := map[string]bool{}
	for d := range before.files {
		names[d] = true
	}
	info := map[string]nodeInfo{}
	for d, b := range before.files {
		n := classify(b)
		info[d] = n
		for _, c := range n.children {
			if c != "" {
				names[c] = true
			}
		}
	}
	for _, d := range before.index {
		names[d] = true
	}
	sorted := lib.SortedKeys(names)
	id := map[string]int{}
	for i, d := range sorted {
		id[d] = i + 1
	}
	ids := func(l []string) string {
		var o []string
		for _, d := range l {
			o = append(o, fmt.Sprint(id[d]))
		}
		return lib.CoqList(o)
	}
	var files, kept, content []string
	for _, d := range sorted {
		if _, ok := before.files[d]; ok {
			files = append(files, fmt.Sprint(id[d]))
			n := info[d]
			switch n.kind {
			case "index":
				content = append(content, fmt.Sprintf("(%d, NIndex %s)", id[d], ids(n.children)))
			case "image":
				cfg := "None"
				if n.children[0] != "" {
					cfg = fmt.Sprintf("(Some %d)", id[n.children[0]])
				}
				content = append(content, fmt.Sprintf("(%d, NImage %s %s)", id[d], cfg, ids(n.children[1:])))
			}
		}
		if _, ok := after.files[d]; ok {
			kept = append(kept, fmt.Sprint(id[d]))
		}
	}
	return fmt.Sprintf("CGC %s %s %s %s %s", lib.CoqList(files), lib.CoqList(content), ids(before.index), lib.CoqBool(swept), lib.CoqList(kept))
}

func runHist(c Case, tmp string, res *lib.Result) []string {
	dir, _ := os.MkdirTemp(tmp, "c08-hist-")
	defer os.RemoveAll(dir)
	lay := filepath.Join(dir, "layout")
	bundleMode = 0
	if c.Bundle {
		bundleMode = 1
	}
	w := newWorld(c.Seed, c.Graphs, false)
	ctx, cancel := context.WithTimeout(context.Background(), 60*time.Second)
	defer cancel()
	var terms []string
	var refsAdded []string
	base, _ := ref.New("ocidir://" + lay)
	failed := false
	for i, op := range c.Ops {
		if op.K != "close" {
			err := w.do(ctx, lay, op, &refsAdded)
			if err != nil {
				res.Count("hist:" + op.K + ":err")
			} else {
				res.Count("hist:" + op.K + ":ok")
			}
			continue
		}
		before := snap(lay)
		g0 := w.log.n.Load()
		err := w.rc.Close(ctx, base)
		swept := w.log.n.Load() > g0
		after := snap(lay)
		res.Count(fmt.Sprintf("hist:close:swept=%v", swept))
		if err != nil {
			res.Count("hist:close:err")
			res.Notes = append(res.Notes, fmt.Sprintf("close error: %v", err))
			continue
		}
		terms = append(terms, gcCase(before, after, swept))
		if failed {
			continue
		}
		reach := before.reach()
		for _, d := range lib.SortedKeys(before.files) {
			_, still := after.files[d]
			if reach[d] && !still {
				res.Fail("gc-removed-reachable", fmt.Sprintf("close #%d removed %s which index.json reaches (%s)", i, d, classify(before.files[d]).kind), c)
				failed = true
				break
			}
			if swept && !reach[d] && still {
				if os.Getenv("VH_DEBUG") != "" {
					fmt.Println("LEFT", d, classify(before.files[d]).kind, "index:", before.index)
					for od, ob := range before.files {
						if strings.Contains(string(ob), d) {
							fmt.Println("  named by", od, classify(ob).kind, "reached:", reach[od], string(ob)[:min(len(ob), 300)])
						}
					}
				}
				res.Fail("gc-left-garbage", fmt.Sprintf("close #%d ran a collection and left %s which nothing reaches", i, d), c)
				failed = true
				break
			}
			if !swept && !still {
				res.Fail("gc-removed-without-collection", fmt.Sprintf("close #%d removed %s without running a collection", i, d), c)
				failed = true
				break
			}
		}
		for d := range after.files {
			if _, ok := before.files[d]; !ok {
				res.Fail("gc-created-file", fmt.Sprintf("close #%d created %s", i, d), c)
				failed = true
			}
		}
		if failed {
			continue
		}
		// readable through the client: every index entry that was complete before is complete afterwards
		for _, d := range before.index {
			if _, ok := before.files[d]; !ok {
				continue
			}
			r := base.SetDigest(d)
			if classify(before.files[d]).kind == "blob" {
				continue
			}
			if _, err := w.rc.ManifestGet(ctx, r); err != nil {
				res.Fail("gc-entry-unreadable", fmt.Sprintf("after close #%d ManifestGet(%s) fails: %v", i, d, err), c)
				failed = true
				break
			}
		}
	}
	return terms
}

// ---------- the lock table alone ----------
func runLocks(c Case, tmp string, res *lib.Result) []string {
	dir, _ := os.MkdirTemp(tmp, "c08-locks-")
	defer os.RemoveAll(dir)
	lay := filepath.Join(dir, "layout")
	o := ocidir.New(ocidir.WithGC(c.GC))
	r, _ := ref.New("ocidir://" + lay)
	ctx := context.Background()
	// a tagged image so that the layout has reachable content that must never go away
	keep := []byte("keep-layer")
	cfg := []byte(`{"architecture":"amd64","os":"linux","rootfs":{"type":"layers","diff_ids":[]}}`)
	for _, b := range [][]byte{keep, cfg} {
		if _, err := o.BlobPut(ctx, r, descriptor.Descriptor{}, bytes.NewReader(b)); err != nil {
			res.Fail("locks-setup", err.Error(), c)
			return nil
		}
	}
	body, _ := json.Marshal(map[string]any{"schemaVersion": 2, "mediaType": imgen.MTImage,
		"config": map[string]any{"mediaType": imgen.MTConfig, "digest": sha(cfg), "size": len(cfg)},
		"layers": []any{map[string]any{"mediaType": imgen.MTLayer, "digest": sha(keep), "size": len(keep)}}})
	m, _ := manifest.New(manifest.WithRaw(body))
	if err := o.ManifestPut(ctx, r.SetTag("keep"), m); err != nil {
		res.Fail("locks-setup", err.Error(), c)
		return nil
	}
	_ = o.Close(ctx, r) // start clean: unmodified, unlocked (GC off: the table entry stays, modelled by a leading write)
	var evs, obs []string
	if !c.GC {
		evs = append(evs, "OtherWrite")
	}
	nextID, active := 0, []int{}
	nw := 0
	for _, e := range c.Evs {
		switch e.K {
		case "lock":
			o.GCLock(r)
			nextID++
			active = append(active, nextID)
			evs = append(evs, fmt.Sprintf("CopyBegin %d", nextID))
		case "unlock":
			o.GCUnlock(r)
			if len(active) > 0 {
				evs = append(evs, fmt.Sprintf("CopyEnd %d", active[0]))
				active = active[1:]
			} else {
				evs = append(evs, "CopyEnd 0")
			}
		case "write":
			nw++
			if _, err := o.BlobPut(ctx, r, descriptor.Descriptor{}, bytes.NewReader([]byte(fmt.Sprintf("garbage-%d-%d", c.Seed, nw)))); err != nil {
				res.Fail("locks-write", err.Error(), c)
				return nil
			}
			evs = append(evs, "OtherWrite")
		case "close":
			before := snap(lay)
			err := o.Close(ctx, r)
			after := snap(lay)
			swept := len(after.files) < len(before.files)
			evs = append(evs, "Close")
			obs = append(obs, lib.CoqBool(swept))
			res.Count(fmt.Sprintf("locks:close:gc=%v:swept=%v", c.GC, swept))
			if err != nil {
				res.Fail("locks-close-error", err.Error(), c)
				return nil
			}
			if len(active) > 0 && swept {
				res.Fail("gc-ran-under-lock", fmt.Sprintf("Close removed %d files while %d GC locks were held", len(before.files)-len(after.files), len(active)), c)
				return nil
			}
			if !c.GC && swept {
				res.Fail("gc-ran-while-disabled", "Close removed files although collection is disabled", c)
				return nil
			}
			for _, d := range []string{sha(keep), sha(cfg), sha(body)} {
				if _, ok := after.files[d]; !ok {
					res.Fail("gc-removed-reachable", "Close removed "+d+" of the tagged image", c)
					return nil
				}
			}
		}
	}
	return []string{fmt.Sprintf("CLock %s %s %s", lib.CoqBool(c.GC), lib.CoqList(evs), lib.CoqList(obs))}
}

// ---------- concurrent copies and closes ----------
func closureComplete(dir string, g *imgen.Graph) string {
	s := snap(dir)
	for _, d := range imgen.SortedDigests(imgen.Closure(g.Root, false)) {
		if _, ok := s.files[d]; !ok {
			return d
		}
	}
	return ""
}

func runConc(c Case, tmp string, res *lib.Result) {
	dir, _ := os.MkdirTemp(tmp, "c08-conc-")
	defer os.RemoveAll(dir)
	lay := filepath.Join(dir, "layout")
	bundleMode = -1
	w := newWorld(c.Seed, c.Copies, c.Kind == "conc")
	ctx, cancel := context.WithTimeout(context.Background(), 60*time.Second)
	defer cancel()
	base, _ := ref.New("ocidir://" + lay)
	r := lib.NewRand(c.Seed ^ 0xc08)
	errs := make([]error, c.Copies)
	var wg sync.WaitGroup
	copyOne := func(i int) {
		defer wg.Done()
		rs, _ := ref.New(fmt.Sprintf("src.example/%s:g%d", srcRepo, i))
		errs[i] = w.rc.ImageCopy(ctx, rs, base.SetTag(fmt.Sprintf("t%d", i)))
	}
	if c.Kind == "gate" {
		// copy 0 is held at its GateAt-th blob download until copy 1 has finished and the layout was closed
		g0 := w.graphs[0]
		mine := map[string]bool{}
		for d, n := range imgen.Closure(g0.Root, false) {
			if n.Kind == "blob" {
				mine[d] = true
			}
		}
		for d := range imgen.Closure(w.graphs[1].Root, false) {
			delete(mine, d)
		}
		release := make(chan struct{})
		reached := make(chan struct{})
		var once sync.Once
		var cnt atomic.Int64
		w.hook = func(req *http.Request) {
			if req.Method != "GET" || !strings.Contains(req.URL.Path, "/blobs/") {
				return
			}
			d := req.URL.Path[strings.LastIndex(req.URL.Path, "/")+1:]
			if !mine[d] {
				return
			}
			if int(cnt.Add(1)) == c.GateAt {
				once.Do(func() { close(reached) })
				select {
				case <-release:
				case <-ctx.Done():
				}
			}
		}
		wg.Add(1)
		done0 := make(chan struct{})
		go func() { copyOne(0); close(done0) }()
		held := true
		select {
		case <-reached:
		case <-done0: // the image has fewer blobs of its own than the gate position: an ordinary sequential run
			held = false
			res.Count("gate:not-reached")
		}
		wg.Add(1)
		var wg1 sync.WaitGroup
		wg1.Add(1)
		go func() { defer wg1.Done(); copyOne(1) }()
		wg1.Wait()
		before := snap(lay)
		g0n := w.log.n.Load()
		_ = w.rc.Close(ctx, base)
		if held && w.log.n.Load() > g0n {
			after := snap(lay)
			res.Fail("gc-ran-under-copy", fmt.Sprintf("a collection ran while a copy into the layout was in progress (removed %d files)", len(before.files)-len(after.files)), c)
		}
		close(release)
		wg.Wait()
	} else {
		for i := 0; i < c.Copies; i++ {
			wg.Add(1)
			go copyOne(i)
		}
		done := make(chan struct{})
		go func() { wg.Wait(); close(done) }()
		for k := 0; k < c.Closes; k++ {
			select {
			case <-done:
			case <-time.After(time.Duration(r.Intn(1500)) * time.Microsecond):
			}
			_ = w.rc.Close(ctx, base)
		}
		<-done
	}
	for i, err := range errs {
		if err != nil {
			res.Fail("conc-copy-failed", fmt.Sprintf("copy %d failed: %v", i, err), c)
			return
		}
	}
	res.Count(fmt.Sprintf("%s:collections=%d", c.Kind, min(int(w.log.n.Load()), 3)))
	for pass := 0; pass < 2; pass++ {
		for i := 0; i < c.Copies; i++ {
			if d := closureComplete(lay, w.graphs[i]); d != "" {
				res.Fail("copy-lost-blob", fmt.Sprintf("after %d concurrent copies and closes (pass %d) tag t%d misses %s", c.Copies, pass, i, d), c)
				return
			}
		}
		_ = w.rc.Close(ctx, base) // the final close must not remove anything a tag reaches either
	}
}

func runCase(c Case, tmp string, res *lib.Result) (ret []string) {
	defer res.Recover(c)
	return runCaseRaw(c, tmp, res)
}

func runCaseRaw(c Case, tmp string, res *lib.Result) []string {
	switch c.Kind {
	case "hist":
		return runHist(c, tmp, res)
	case "locks":
		return runLocks(c, tmp, res)
	default:
		runConc(c, tmp, res)
	}
	return nil
}

var tags = []string{"a", "b", "c", "latest"}

func genCase(r *lib.Rand) Case {
	seed := r.U64()
	switch k := r.Intn(100); {
	case k < 50:
		c := Case{Kind: "hist", Seed: seed, Graphs: 2 + r.Intn(2)}
		n := 4 + r.Intn(14)
		for i := 0; i < n; i++ {
			op := Op{G: r.Intn(c.Graphs), N: r.Intn(1000), Tag: lib.Pick(r, tags)}
			switch k := r.Intn(100); {
			case k < 25:
				op.K, op.Refs, op.Plat = "copy", r.Chance(40), r.Chance(20)
			case k < 35:
				op.K = "putman"
			case k < 42:
				op.K = "putblob"
			case k < 52:
				op.K = "tagdel"
			case k < 60:
				op.K, op.Chk = "mandel", r.Bool()
			case k < 68:
				op.K = "refadd"
			case k < 73:
				op.K = "refdel"
			case k < 79:
				op.K = "stray"
			case k < 83:
				op.K = "schema1"
			default:
				op.K = "close"
			}
			c.Ops = append(c.Ops, op)
		}
		c.Ops = append(c.Ops, Op{K: "close"})
		return c
	case k < 80:
		c := Case{Kind: "locks", Seed: seed, GC: r.Chance(80)}
		n := 3 + r.Intn(20)
		for i := 0; i < n; i++ {
			c.Evs = append(c.Evs, LockEv{K: lib.Pick(r, []string{"lock", "unlock", "unlock", "write", "write", "close", "close"})})
		}
		return c
	case k < 92:
		return Case{Kind: "conc", Seed: seed, Copies: 2 + r.Intn(3), Closes: 1 + r.Intn(6)}
	default:
		return Case{Kind: "gate", Seed: seed, Copies: 2, GateAt: 1 + r.Intn(2)}
	}
}

func Run(o lib.Opts) {
	res := lib.NewResult("C08", o.Tier, o.Seed)
	res.Rule = "one splitmix64 stream: 50% sequential histories of 5-18 operations on one layout through one RegClient (copies of 2-3 generated image graphs incl. nested indexes, shared layers, blob-typed entries, artifacts and referrers, platform-filtered sparse copies; sparse manifest pushes, loose blobs, tag and manifest deletions, referrer add/remove, stray temporary files, schema1; closes) - every Close is compared with the Coq sweep and an independent reachability walk; 30% lock-table traces on scheme/ocidir (GCLock/GCUnlock/write/Close, collection on 80%/off 20%, incl. surplus unlocks) compared decision by decision with the Coq lock machine; 12% 2-4 concurrent copies with 1-6 concurrent closes under per-request latencies; 8% gated runs (one copy held mid-download while another finishes and the layout is closed); non-trivial = history with a collection that removed something, or lock trace with a lock held at a Close, or any concurrent run; distinct by case"
	if o.Replay != "" {
		var f struct{ Case Case }
		b, err := os.ReadFile(o.Replay)
		if err == nil {
			err = json.Unmarshal(b, &f)
		}
		if err != nil {
			fmt.Println("replay:", err)
			os.Exit(2)
		}
		runCase(f.Case, os.TempDir(), res)
		for _, fl := range res.Failures {
			fmt.Printf("REPLAY-FAIL %s: %s\n", fl.Sig, fl.Desc)
		}
		if len(res.Failures) == 0 {
			fmt.Println("REPLAY-OK")
		}
		return
	}
	r := lib.NewRand(o.Seed)
	cw := lib.NewCaseWriter(o.Out, "C08", "From Coq Require Import List Arith.\nFrom Verif Require Import Model.C08_GC Corr.C08.\nImport ListNotations.", "case", 400)
	all := []Case{
		{Kind: "gate", Seed: 11, Copies: 2, GateAt: 1},
		{Kind: "gate", Seed: 12, Copies: 2, GateAt: 2},
		// a digest that is a plain blob of an artifact reached first AND a tagged manifest reached later: copy the image, copy the
		// artifact that bundles its manifest, drop the image's tag, copy the image again under another tag, collect
		{Kind: "hist", Seed: 16, Graphs: 2, Bundle: true, Ops: []Op{{K: "copy", G: 0, Tag: "a"}, {K: "copy", G: 1, Tag: "b"}, {K: "tagdel", Tag: "a"}, {K: "copy", G: 0, Tag: "c"}, {K: "close"}}},
		{Kind: "hist", Seed: 17, Graphs: 2, Bundle: true, Ops: []Op{{K: "copy", G: 0, Tag: "a"}, {K: "copy", G: 1, Tag: "b"}, {K: "tagdel", Tag: "a"}, {K: "copy", G: 0, Tag: "latest"}, {K: "putblob", G: 0, N: 3}, {K: "close"}, {K: "close"}}},
		{Kind: "hist", Seed: 18, Graphs: 3, Bundle: true, Ops: []Op{{K: "copy", G: 0, Tag: "a"}, {K: "copy", G: 1, Tag: "b"}, {K: "copy", G: 2, Tag: "c"}, {K: "tagdel", Tag: "a"}, {K: "copy", G: 0, Tag: "a"}, {K: "close"}}},
		{Kind: "locks", Seed: 13, GC: true, Evs: []LockEv{{"lock"}, {"write"}, {"close"}, {"write"}, {"close"}, {"unlock"}, {"close"}, {"close"}}},
		{Kind: "locks", Seed: 14, GC: true, Evs: []LockEv{{"lock"}, {"lock"}, {"write"}, {"unlock"}, {"close"}, {"unlock"}, {"unlock"}, {"close"}, {"lock"}, {"close"}}},
		{Kind: "locks", Seed: 15, GC: false, Evs: []LockEv{{"write"}, {"close"}, {"lock"}, {"write"}, {"unlock"}, {"close"}}},
	}
	n := o.Scale(160, 3000)
	for i := 0; i < n; i++ {
		all = append(all, genCase(r))
	}
	seen := lib.Set{}
	for _, c := range all {
		res.Evaluations++
		kb, _ := json.Marshal(c)
		nf := len(res.Failures)
		before := res.Histogram["hist:close:swept=true"]
		terms := runCase(c, os.TempDir(), res)
		nontriv := c.Kind == "conc" || c.Kind == "gate" || (c.Kind == "hist" && res.Histogram["hist:close:swept=true"] > before)
		if c.Kind == "locks" {
			held := 0
			for _, e := range c.Evs {
				switch e.K {
				case "lock":
					held++
				case "unlock":
					if held > 0 {
						held--
					}
				case "close":
					if held > 0 {
						nontriv = true
					}
				}
			}
		}
		if _, dup := seen[string(kb)]; !dup && nontriv {
			res.Distinct++
		}
		seen.Add(string(kb))
		_ = nf
		if o.Mode != "search" {
			for _, t := range terms {
				cw.Add(t, c)
			}
		}
		res.Sample(c, 3)
	}
	cw.Close(res)
	lib.WriteResult(o.Out, res)
}
