// Package c17: request throttles (internal/pqueue) driven operation by operation through the verifhook
// bridge; the hook snapshot after every operation is replayed against the Coq monitor.  AcquireMulti
// workloads are checked with oracles (limit, no lost slot at quiescence, completion under a watchdog,
// nothing held while blocked).
package c17

import (
	"bytes"
	"context"
	"encoding/json"
	"fmt"
	"io"
	"net/http"
	"os"
	"strings"
	"sync"
	"time"

	digest "github.com/opencontainers/go-digest"
	"github.com/regclient/regclient"
	"github.com/regclient/regclient/config"
	"github.com/regclient/regclient/scheme/reg"
	"github.com/regclient/regclient/types/descriptor"
	"github.com/regclient/regclient/types/ref"
	"github.com/regclient/regclient/verifhook"

	"verifharness/imgen"
	"verifharness/lib"
	"verifharness/memreg"
	"verifharness/memrt"
)

// runHTTPResume: the host throttle as the registry client uses it.  G readers fetch a blob through one client whose
// host allows Max[0] concurrent requests; every body is cut short Iters times, so every reader re-issues its request
// while holding (or giving back) its slot.  Whatever the interleaving: all reads finish (nobody waits for a slot that
// only he can free), and afterwards the throttle is empty.
func runHTTPResume(c Case, res *lib.Result) {
	blobB := bytes.Repeat([]byte("0123456789abcdef"), 8)
	var mu sync.Mutex
	cuts := map[string]int{}
	rt := &memrt.RT{}
	rt.Handler = func(req *http.Request, body []byte, n int) *http.Response {
		if !strings.Contains(req.URL.Path, "/blobs/") {
			return memrt.Resp(404, nil, nil)
		}
		start := 0
		status := 200
		h := map[string]string{"Content-Type": "application/octet-stream"}
		if rg := req.Header.Get("Range"); rg != "" {
			fmt.Sscanf(rg, "bytes=%d-", &start)
			status = 206
			h["Content-Range"] = fmt.Sprintf("bytes %d-%d/%d", start, len(blobB)-1, len(blobB))
		}
		bodyB := blobB[start:]
		h["Content-Length"] = fmt.Sprint(len(bodyB))
		rs := memrt.Resp(status, h, nil)
		who := req.URL.Path[:strings.Index(req.URL.Path, "/blobs/")]
		mu.Lock()
		cuts[who]++
		k := cuts[who]
		mu.Unlock()
		if k <= c.Iters && len(bodyB) > 9 {
			rs.Body = &memrt.DropBody{B: bodyB, K: 9}
		} else {
			rs.Body = &memrt.DropBody{B: bodyB, K: len(bodyB)}
		}
		rs.ContentLength = int64(len(bodyB))
		return rs
	}
	rc := regclient.New(regclient.WithConfigHost(config.Host{Name: "reg.example", Hostname: "reg.example", TLS: config.TLSDisabled, ReqConcurrent: int64(c.Max[0])}),
		regclient.WithRegOpts(reg.WithHTTPClient(&http.Client{Transport: rt}), reg.WithDelay(time.Millisecond, 3*time.Millisecond), reg.WithRetryLimit(c.G*c.Iters+3))) // the backoff count is per host: all readers' cuts add up
	ctx, cancel := context.WithTimeout(context.Background(), 6*time.Second)
	defer cancel()
	var wg sync.WaitGroup
	errs := make([]error, c.G)
	for g := 0; g < c.G; g++ {
		wg.Add(1)
		go func(g int) {
			defer wg.Done()
			defer func() {
				if p := recover(); p != nil {
					errs[g] = fmt.Errorf("panic: %v", p)
				}
			}()
			r, _ := ref.New(fmt.Sprintf("reg.example/repo%d:tag", g))
			rd, err := rc.BlobGet(ctx, r, descriptor.Descriptor{Digest: digest.FromBytes(blobB), Size: int64(len(blobB))})
			if err == nil {
				var out []byte
				out, err = io.ReadAll(rd)
				_ = rd.Close()
				if err == nil && !bytes.Equal(out, blobB) {
					err = fmt.Errorf("wrong content")
				}
			}
			errs[g] = err
		}(g)
	}
	wg.Wait()
	if ctx.Err() != nil {
		res.Fail("resumed-requests-deadlock", fmt.Sprintf("%d readers through a host throttle of %d slots, every body cut short %d time(s): not finished after 6s (errors %v)", c.G, c.Max[0], c.Iters, errs), c)
		return
	}
	for g, e := range errs {
		if e != nil {
			res.Fail("resumed-request-failed", fmt.Sprintf("reader %d of %d (throttle %d, %d cuts each within the retry limit) failed: %v", g, c.G, c.Max[0], c.Iters, e), c)
			return
		}
	}
	res.Count(fmt.Sprintf("httpresume:max=%d,g=%d", c.Max[0], c.G))
}

type Op struct {
	K     string // acq | try | rel | cancel | race
	Q     int
	ID    int
	ID2   int `json:",omitempty"` // race: the waiter
	KindV int `json:",omitempty"`
}
type Case struct {
	Kind  string // single | multiscript | multirand
	Max   []int
	Next  []string // default | size | last
	Ops   []Op     `json:",omitempty"`
	Seed  uint64   `json:",omitempty"`
	G     int      `json:",omitempty"`
	Iters int      `json:",omitempty"`
}

type caller struct {
	cancel context.CancelFunc
	done   func()
	ret    chan error
	state  string // waiting | holding | gone
}

func mkQueues(c Case) []*verifhook.Queue {
	qs := make([]*verifhook.Queue, len(c.Max))
	for i, m := range c.Max {
		switch c.Next[i] {
		case "size":
			qs[i] = verifhook.NewQueue(m, true)
		case "last":
			qs[i] = verifhook.NewQueueNext(m, func(queued, active []*verifhook.Data) int { return len(queued) + 5 })
		case "neg":
			qs[i] = verifhook.NewQueueNext(m, func(queued, active []*verifhook.Data) int { return -3 })
		default:
			qs[i] = verifhook.NewQueue(m, false)
		}
	}
	return qs
}

func snap(q *verifhook.Queue) (a, w []int) {
	act, que := q.VerifSnapshot()
	for _, d := range act {
		a = append(a, int(d.Size))
	}
	for _, d := range que {
		w = append(w, int(d.Size))
	}
	return
}
func idx(l []int, x int) int {
	for i, y := range l {
		if y == x {
			return i
		}
	}
	return -1
}
func coqNats(l []int) string {
	it := make([]string, len(l))
	for i, x := range l {
		it[i] = fmt.Sprint(x)
	}
	return "[" + strings.Join(it, "; ") + "]"
}

func waitFor(cond func() bool) bool {
	dl := time.Now().Add(3 * time.Second)
	for time.Now().Before(dl) {
		if cond() {
			return true
		}
		time.Sleep(50 * time.Microsecond)
	}
	return false
}

// runSingle executes the op list; returns the Coq trace
func runSingle(c Case, res *lib.Result) string {
	qs := mkQueues(c)
	callers := map[int]*caller{}
	var trace []string
	holders := make([]map[int]bool, len(qs))
	for i := range holders {
		holders[i] = map[int]bool{}
	}
	emit := func(qi int, ev string, chk bool) {
		a, w := snap(qs[qi])
		if len(a) > c.Max[qi] && c.Max[qi] > 0 {
			res.Fail("limit-exceeded", fmt.Sprintf("queue %d (max %d) has %d holders %v", qi, c.Max[qi], len(a), a), c)
		}
		if chk {
			trace = append(trace, fmt.Sprintf("mkObs %d (%s) true %s %s", qi, ev, coqNats(a), coqNats(w)))
		} else {
			trace = append(trace, fmt.Sprintf("mkObs %d (%s) false [] []", qi, ev))
		}
	}
	settle := func(qi int) { // move woken waiters to holding
		for id, cl := range callers {
			if cl.state != "waiting" {
				continue
			}
			select {
			case err := <-cl.ret:
				if err == nil {
					cl.state = "holding"
					holders[qi][id] = true
				} else {
					cl.state = "gone"
				}
			default:
			}
		}
	}
	for _, op := range c.Ops {
		q := qs[op.Q]
		switch op.K {
		case "acq":
			ctx, cancel := context.WithCancel(context.Background())
			cl := &caller{cancel: cancel, ret: make(chan error, 1), state: "waiting"}
			callers[op.ID] = cl
			id := op.ID
			go func() {
				d, err := q.Acquire(ctx, verifhook.Data{Size: int64(id)})
				cl.done = d
				cl.ret <- err
			}()
			ok := waitFor(func() bool {
				a, w := snap(q)
				return idx(a, id) >= 0 || idx(w, id) >= 0
			})
			if !ok {
				res.Fail("acquire-lost", fmt.Sprintf("Acquire(%d) neither admitted nor queued", id), c)
				return ""
			}
			a, _ := snap(q)
			if idx(a, id) >= 0 {
				if err := <-cl.ret; err != nil {
					res.Fail("acquire-error", "admitted Acquire returned an error", c)
				}
				cl.state = "holding"
				holders[op.Q][id] = true
				res.Count("acq:admitted")
			} else {
				res.Count("acq:queued")
			}
			emit(op.Q, fmt.Sprintf("Acq %d", id), true)
		case "try":
			d, err := q.TryAcquire(context.Background(), verifhook.Data{Size: int64(op.ID)})
			if err != nil {
				res.Fail("try-error", "TryAcquire returned an error", c)
			}
			if d != nil {
				callers[op.ID] = &caller{done: d, state: "holding"}
				holders[op.Q][op.ID] = true
				res.Count("try:admitted")
			} else {
				res.Count("try:refused")
			}
			emit(op.Q, fmt.Sprintf("TryAcq %d", op.ID), true)
		case "rel":
			cl := callers[op.ID]
			if cl == nil || cl.state != "holding" || !holders[op.Q][op.ID] {
				continue
			}
			_, wBefore := snap(q)
			cl.done()
			cl.state = "gone"
			delete(holders[op.Q], op.ID)
			aAfter, wAfter := snap(q)
			pick := 0
			woken := -1
			for i, w := range wBefore {
				if idx(wAfter, w) < 0 {
					pick, woken = i, w
				}
			}
			if len(wBefore) > 0 && woken < 0 {
				res.Fail("lost-wakeup", fmt.Sprintf("release of %d with waiters %v woke nobody (active %v)", op.ID, wBefore, aAfter), c)
			}
			if woken >= 0 {
				wc := callers[woken]
				select {
				case err := <-wc.ret:
					if err == nil {
						wc.state = "holding"
						holders[op.Q][woken] = true
					}
				case <-time.After(3 * time.Second):
					res.Fail("woken-never-returned", fmt.Sprintf("waiter %d was moved to active but its Acquire did not return", woken), c)
					return ""
				}
			}
			res.Count("rel")
			emit(op.Q, fmt.Sprintf("Rel %d %d", op.ID, pick), true)
		case "cancel":
			cl := callers[op.ID]
			if cl == nil || cl.state != "waiting" {
				continue
			}
			cl.cancel()
			select {
			case err := <-cl.ret:
				if err == nil {
					res.Fail("cancel-acquired", "cancelled waiter acquired", c)
				}
			case <-time.After(3 * time.Second):
				res.Fail("cancel-never-returned", "cancelled waiter did not return", c)
				return ""
			}
			cl.state = "gone"
			res.Count("cancel")
			emit(op.Q, fmt.Sprintf("Cancel %d 0", op.ID), true)
			a, w := snap(q)
			if idx(a, op.ID) >= 0 || idx(w, op.ID) >= 0 {
				res.Fail("cancelled-still-listed", fmt.Sprintf("cancelled caller %d still in active %v / queued %v", op.ID, a, w), c)
			}
		case "race": // cancel waiter ID2 and release holder ID back to back (default priority only)
			h, wt := callers[op.ID], callers[op.ID2]
			if h == nil || wt == nil || h.state != "holding" || wt.state != "waiting" || !holders[op.Q][op.ID] || c.Next[op.Q] != "default" {
				continue
			}
			_, wBefore := snap(q)
			wt.cancel()
			h.done()
			h.state = "gone"
			delete(holders[op.Q], op.ID)
			var werr error
			select {
			case werr = <-wt.ret:
			case <-time.After(3 * time.Second):
				res.Fail("race-never-returned", "waiter in cancel/release race did not return", c)
				return ""
			}
			if werr == nil { // the waiter won the slot: plain release then
				wt.state = "holding"
				holders[op.Q][op.ID2] = true
				res.Count("race:acquired")
				emit(op.Q, fmt.Sprintf("Rel %d 0", op.ID), true)
			} else {
				wt.state = "gone"
				res.Count("race:cancelled")
				// wait for the slot to be passed on to the next waiter, if any
				rest := 0
				for _, w := range wBefore {
					if w != op.ID2 {
						rest++
					}
				}
				if rest > 0 {
					ok := waitFor(func() bool { _, w := snap(q); return len(w) == rest-1 })
					if !ok {
						a, w := snap(q)
						res.Fail("race-lost-slot", fmt.Sprintf("after cancel/release race: active %v queued %v (a waiter should have been admitted)", a, w), c)
					}
					_, wAfter := snap(q)
					for _, w := range wBefore {
						if w != op.ID2 && idx(wAfter, w) < 0 {
							wc := callers[w]
							select {
							case err := <-wc.ret:
								if err == nil {
									wc.state = "holding"
									holders[op.Q][w] = true
								}
							case <-time.After(3 * time.Second):
							}
						}
					}
				}
				emit(op.Q, fmt.Sprintf("Cancel %d 0", op.ID2), false)
				emit(op.Q, fmt.Sprintf("Rel %d 0", op.ID), true)
			}
			settle(op.Q)
		}
	}
	// drain: release all holders, cancel all waiters; at quiescence everything must be empty
	// (a waiter that was handed a slot needs the scheduler to run it before its Acquire returns: on a loaded machine that
	// can take far longer than one polling interval, so the drain gives up only after 3 s without any progress - a first
	// version stopped after one idle 200 us round and reported a waiter as stranded that held its slot already: a false
	// alarm seen once, on a busy machine)
	lastProgress := time.Now()
	for round := 0; round < 200000; round++ {
		progress := false
		for id, cl := range callers {
			if cl.state == "holding" {
				cl.done()
				cl.state = "gone"
				progress = true
				_ = id
			}
		}
		time.Sleep(200 * time.Microsecond)
		for _, cl := range callers {
			if cl.state == "waiting" {
				select {
				case err := <-cl.ret:
					if err == nil {
						cl.state = "holding"
					} else {
						cl.state = "gone"
					}
					progress = true
				default:
				}
			}
		}
		if progress {
			lastProgress = time.Now()
			continue
		}
		pending := false
		for _, cl := range callers {
			if cl.state == "waiting" || cl.state == "holding" {
				pending = true
			}
		}
		if !pending || time.Since(lastProgress) > 3*time.Second {
			break
		}
	}
	for id, cl := range callers {
		if cl.state == "waiting" {
			a := []string{}
			for qi := range qs {
				x, y := snap(qs[qi])
				a = append(a, fmt.Sprintf("q%d active %v queued %v", qi, x, y))
			}
			res.Fail("waiter-stranded", fmt.Sprintf("all holders released but caller %d still waits (%s)", id, strings.Join(a, "; ")), c)
			cl.cancel()
		}
	}
	for qi := range qs {
		a, w := snap(qs[qi])
		if len(a) != 0 || len(w) != 0 {
			res.Fail("not-empty-at-quiescence", fmt.Sprintf("queue %d: active %v queued %v after everybody finished", qi, a, w), c)
		}
	}
	maxes := make([]string, len(c.Max))
	for i, m := range c.Max {
		maxes[i] = fmt.Sprint(m)
	}
	return fmt.Sprintf("mkCase [%s] [%s]", strings.Join(maxes, "; "), strings.Join(trace, ";\n      "))
}

// multi-queue scripted scenario: the harness is the only releaser, so blocked states are stable.  Returns the
// script as a Coq term for the composed model (Model/C17_Multi.v): caller 0 is the AcquireMulti call over all
// queues, every filler slot is a caller of its own (want = [queue]); MStep = one critical section, MRun = run the
// caller until it blocks or holds everything, MFin = run it to the end, MObs = hook snapshot of every queue.
func runMultiScript(c Case, res *lib.Result) string {
	qs := mkQueues(c)
	n := len(qs)
	if n < 2 {
		return ""
	}
	r := lib.NewRand(c.Seed)
	mID := 0
	wants := [][]int{{}}
	for i := 0; i < n; i++ {
		wants[0] = append(wants[0], i)
	}
	var script []string
	obs := func(mst int) {
		it := make([]string, n)
		for j := range qs {
			a, w := snap(qs[j])
			it[j] = fmt.Sprintf("(%s, %s)", coqNats(a), coqNats(w))
		}
		script = append(script, fmt.Sprintf("MObs [%s] %d", strings.Join(it, "; "), mst))
	}
	ctx, cancel := context.WithTimeout(context.Background(), 6*time.Second)
	defer cancel()
	var mDone func()
	ret := make(chan error, 1)
	blockedOn := func() int {
		for i := range qs {
			_, w := snap(qs[i])
			if idx(w, mID) >= 0 {
				return i
			}
		}
		return -1
	}
	// saturate one random queue completely with harness holders, each with an id of its own
	type filler struct {
		id   int
		done func()
	}
	fillers := make([][]filler, n)
	fill := func(i int) {
		for {
			id := len(wants)
			d, _ := qs[i].TryAcquire(context.Background(), verifhook.Data{Size: int64(id)})
			if d == nil {
				return
			}
			wants = append(wants, []int{i})
			fillers[i] = append(fillers[i], filler{id, d})
			script = append(script, fmt.Sprintf("MStep %d", id))
		}
	}
	drain := func(i int) {
		for _, f := range fillers[i] {
			f.done()
			script = append(script, fmt.Sprintf("MFin %d", f.id))
		}
		fillers[i] = nil
	}
	first := r.Intn(n)
	fill(first)
	go func() {
		_, d, err := verifhook.AcquireMulti(ctx, verifhook.Data{Size: int64(mID)}, qs...)
		mDone = d
		ret <- err
	}()
	script = append(script, "MRun 0")
	steps := 2 + r.Intn(4)
	cur := first
	ok := true
	for s := 0; s < steps; s++ {
		if !waitFor(func() bool { return blockedOn() == cur }) {
			select {
			case err := <-ret:
				ret <- err
			default:
				res.Fail("multi-not-blocked-where-expected", fmt.Sprintf("AcquireMulti should be waiting on queue %d", cur), c)
			}
			ok = false
			break
		}
		// while blocked it must hold nothing
		for j := range qs {
			a, _ := snap(qs[j])
			if idx(a, mID) >= 0 {
				res.Fail("multi-holds-while-blocked", fmt.Sprintf("AcquireMulti is blocked on queue %d but still holds a slot of queue %d", cur, j), c)
			}
		}
		obs(1)
		// saturate another queue, then free the one it waits on
		nxt := r.Intn(n)
		if nxt == cur {
			nxt = (cur + 1) % n
		}
		fill(nxt)
		drain(cur)
		script = append(script, "MRun 0")
		cur = nxt
	}
	if ok && waitFor(func() bool { return blockedOn() == cur }) {
		obs(1)
	} else {
		ok = false
	}
	for i := range qs {
		drain(i)
	}
	script = append(script, "MRun 0")
	select {
	case err := <-ret:
		if err != nil {
			res.Fail("multi-error", fmt.Sprintf("AcquireMulti failed: %v", err), c)
			ok = false
		} else {
			for j := range qs {
				a, _ := snap(qs[j])
				if idx(a, mID) < 0 {
					res.Fail("multi-missing-slot", fmt.Sprintf("AcquireMulti returned but does not hold queue %d", j), c)
				}
			}
			obs(2)
			mDone()
			script = append(script, "MFin 0")
			obs(3)
		}
	case <-time.After(5 * time.Second):
		st := []string{}
		for j := range qs {
			a, w := snap(qs[j])
			st = append(st, fmt.Sprintf("q%d active %v queued %v", j, a, w))
		}
		res.Fail("multi-deadlock", "AcquireMulti still waiting after every other holder released: "+strings.Join(st, "; "), c)
		cancel()
		return ""
	}
	for j := range qs {
		a, w := snap(qs[j])
		if len(a)+len(w) != 0 {
			res.Fail("not-empty-at-quiescence", fmt.Sprintf("queue %d: active %v queued %v after everybody finished", j, a, w), c)
		}
	}
	res.Count("multiscript")
	if !ok {
		return ""
	}
	maxes := make([]string, n)
	for i, m := range c.Max {
		maxes[i] = fmt.Sprint(m)
	}
	ws := make([]string, len(wants))
	for i, w := range wants {
		ws[i] = coqNats(w)
	}
	return fmt.Sprintf("mkMulti [%s] [%s] [%s]", strings.Join(maxes, "; "), strings.Join(ws, "; "), strings.Join(script, ";\n      "))
}

// random concurrent workload of AcquireMulti / Acquire / TryAcquire callers
func runMultiRand(c Case, res *lib.Result) {
	qs := mkQueues(c)
	var wg sync.WaitGroup
	ctx, cancel := context.WithTimeout(context.Background(), 8*time.Second)
	defer cancel()
	stop := make(chan struct{})
	var mu sync.Mutex
	over := ""
	go func() { // limit monitor
		for {
			select {
			case <-stop:
				return
			default:
			}
			for i := range qs {
				a, _ := snap(qs[i])
				if len(a) > c.Max[i] {
					mu.Lock()
					over = fmt.Sprintf("queue %d (max %d) has %d holders", i, c.Max[i], len(a))
					mu.Unlock()
				}
			}
			time.Sleep(20 * time.Microsecond)
		}
	}()
	for g := 0; g < c.G; g++ {
		wg.Add(1)
		go func(g int) {
			defer wg.Done()
			r := lib.NewRand(c.Seed + uint64(g)*7919)
			for it := 0; it < c.Iters; it++ {
				id := int64(g*1000 + it + 1)
				switch r.Intn(4) {
				case 0:
					d, err := qs[r.Intn(len(qs))].Acquire(ctx, verifhook.Data{Size: id})
					if err == nil {
						time.Sleep(time.Duration(r.Intn(200)) * time.Microsecond)
						d()
					}
				case 1:
					cctx, cc := context.WithTimeout(ctx, time.Duration(r.Intn(300))*time.Microsecond)
					d, err := qs[r.Intn(len(qs))].Acquire(cctx, verifhook.Data{Size: id})
					if err == nil {
						d()
					}
					cc()
				default:
					var sub []*verifhook.Queue
					for i := range qs {
						if r.Bool() {
							sub = append(sub, qs[i])
						}
					}
					if r.Chance(30) {
						p := r.Perm(len(sub))
						s2 := make([]*verifhook.Queue, len(sub))
						for i, j := range p {
							s2[i] = sub[j]
						}
						sub = s2
					}
					_, d, err := verifhook.AcquireMulti(ctx, verifhook.Data{Size: id}, sub...)
					if err == nil {
						time.Sleep(time.Duration(r.Intn(200)) * time.Microsecond)
						d()
					}
				}
			}
		}(g)
	}
	fin := make(chan struct{})
	go func() { wg.Wait(); close(fin) }()
	select {
	case <-fin:
	case <-time.After(7 * time.Second):
		st := []string{}
		for j := range qs {
			a, w := snap(qs[j])
			st = append(st, fmt.Sprintf("q%d active %v queued %v", j, a, w))
		}
		res.Fail("workload-deadlock", "concurrent Acquire/AcquireMulti workload did not finish: "+strings.Join(st, "; "), c)
		cancel()
		<-fin
	}
	close(stop)
	mu.Lock()
	if over != "" {
		res.Fail("limit-exceeded", over, c)
	}
	mu.Unlock()
	for j := range qs {
		a, w := snap(qs[j])
		if len(a)+len(w) != 0 {
			res.Fail("not-empty-at-quiescence", fmt.Sprintf("queue %d: active %v queued %v after everybody finished", j, a, w), c)
		}
	}
	res.Count("multirand")
}

func genSingle(r *lib.Rand) Case {
	nq := 1 + r.Intn(2)
	c := Case{Kind: "single"}
	for i := 0; i < nq; i++ {
		c.Max = append(c.Max, 1+r.Intn(3))
		c.Next = append(c.Next, lib.Pick(r, []string{"default", "default", "size", "last", "neg"}))
	}
	nops := 4 + r.Intn(22)
	next := 1
	live := make([][]int, nq) // ids issued per queue
	for i := 0; i < nops; i++ {
		q := r.Intn(nq)
		switch k := r.Intn(100); {
		case k < 35:
			c.Ops = append(c.Ops, Op{K: "acq", Q: q, ID: next})
			live[q] = append(live[q], next)
			next++
		case k < 45:
			c.Ops = append(c.Ops, Op{K: "try", Q: q, ID: next})
			live[q] = append(live[q], next)
			next++
		case k < 75 && len(live[q]) > 0:
			c.Ops = append(c.Ops, Op{K: "rel", Q: q, ID: lib.Pick(r, live[q])})
		case k < 88 && len(live[q]) > 0:
			c.Ops = append(c.Ops, Op{K: "cancel", Q: q, ID: lib.Pick(r, live[q])})
		case len(live[q]) > 1:
			c.Ops = append(c.Ops, Op{K: "race", Q: q, ID: lib.Pick(r, live[q]), ID2: lib.Pick(r, live[q])})
		}
	}
	return c
}

// runHTTPAbort: a request that is given up because its body cannot be sent twice (a blob upload from a reader that cannot
// rewind, after a first attempt that failed) must give its slot back: with Max[0] slots, Iters such uploads, then G plain
// requests - all of them finish.
func runHTTPAbort(c Case, res *lib.Result) {
	mr := memreg.New("reg.example", memreg.Features{})
	mr.PutManifest("repo", "tag", "application/vnd.oci.image.manifest.v1+json", []byte(`{"schemaVersion":2,"mediaType":"application/vnd.oci.image.manifest.v1+json","config":{"mediaType":"application/vnd.oci.empty.v1+json","digest":"sha256:44136fa355b3678a1146ad16f7e8649e94fb4fc21fe77e8310c060f61caaff8a","size":2},"layers":[]}`))
	var mu sync.Mutex
	failed := map[string]bool{}
	rt := &memrt.RT{}
	rt.Handler = func(req *http.Request, body []byte, n int) *http.Response {
		if req.Method == "PUT" && strings.Contains(req.URL.Path, "/blobs/uploads/") {
			mu.Lock()
			first := !failed[req.URL.Path]
			failed[req.URL.Path] = true
			mu.Unlock()
			if first {
				return memrt.Resp(500, nil, nil)
			}
		}
		return mr.Handle(req, body, n)
	}
	rc := regclient.New(regclient.WithConfigHost(config.Host{Name: "reg.example", Hostname: "reg.example", TLS: config.TLSDisabled, ReqConcurrent: int64(c.Max[0])}),
		regclient.WithRegOpts(reg.WithHTTPClient(&http.Client{Transport: rt}), reg.WithDelay(time.Millisecond, 3*time.Millisecond), reg.WithRetryLimit(6)))
	ctx, cancel := context.WithTimeout(context.Background(), 6*time.Second)
	defer cancel()
	r, _ := ref.New("reg.example/repo:tag")
	for i := 0; i < c.Iters; i++ {
		nb := []byte(fmt.Sprintf("blob %d from a reader that cannot rewind", i))
		// (whether this upload succeeds is not the point: it may legitimately fail, its slot must come back)
		_, _ = rc.BlobPut(ctx, r, descriptor.Descriptor{Digest: digest.FromBytes(nb), Size: int64(len(nb))}, io.MultiReader(bytes.NewReader(nb)))
	}
	var wg sync.WaitGroup
	errs := make([]error, c.G)
	for g := 0; g < c.G; g++ {
		wg.Add(1)
		go func(g int) {
			defer wg.Done()
			_, errs[g] = rc.ManifestHead(ctx, r)
		}(g)
	}
	wg.Wait()
	if ctx.Err() != nil {
		res.Fail("slot-lost-after-abandoned-request", fmt.Sprintf("after %d uploads that could not be re-sent, %d plain requests through a host throttle of %d slot(s) did not finish within 6s (errors %v)", c.Iters, c.G, c.Max[0], errs), c)
		return
	}
	for _, e := range errs {
		if e != nil {
			res.Fail("slot-lost-after-abandoned-request", fmt.Sprintf("a plain request after abandoned uploads failed: %v", e), c)
			return
		}
	}
	res.Count(fmt.Sprintf("httpabort:max=%d,n=%d", c.Max[0], c.Iters))
}

// runCrossCopy: AcquireMulti as image copies use it.  G pairs of copies run in opposite directions between two registries
// whose host throttles have Max[0] slots each (a blob copy asks for the source's and the target's throttle together): every
// copy finishes, whatever the interleaving, and is complete.
func runCrossCopy(c Case, res *lib.Result) {
	regs := map[string]*memreg.Registry{"a.example": memreg.New("a.example", memreg.Features{}), "b.example": memreg.New("b.example", memreg.Features{})}
	type imgT struct{ g *imgen.Graph }
	var imgs []imgT
	for i := 0; i < 2*c.G; i++ {
		g := &imgen.Graph{}
		var layers []*imgen.Node
		for l := 0; l < 3; l++ {
			layers = append(layers, g.Blob([]byte(fmt.Sprintf("c17x-%d-layer-%d-%d", c.Seed, i, l)), imgen.MTLayer))
		}
		cfg := g.Blob([]byte(fmt.Sprintf(`{"architecture":"amd64","os":"linux","config":{"Labels":{"i":"%d"}},"rootfs":{"type":"layers","diff_ids":[]}}`, i)), imgen.MTConfig)
		g.Root = g.Image(false, cfg, layers, nil, nil, fmt.Sprint(i))
		src := "a.example"
		if i%2 == 1 {
			src = "b.example"
		}
		g.Load(regs[src], fmt.Sprintf("src%d", i), "v1")
		imgs = append(imgs, imgT{g})
	}
	rt := &memrt.RT{}
	rt.Handler = func(req *http.Request, body []byte, n int) *http.Response {
		time.Sleep(time.Duration((uint64(n)*2654435761+c.Seed)%400) * time.Microsecond)
		if r := regs[req.URL.Host]; r != nil {
			return r.Handle(req, body, n)
		}
		return nil
	}
	hosts := []config.Host{{Name: "a.example", Hostname: "a.example", TLS: config.TLSDisabled, ReqConcurrent: int64(c.Max[0])},
		{Name: "b.example", Hostname: "b.example", TLS: config.TLSDisabled, ReqConcurrent: int64(c.Max[0])}}
	rc := regclient.New(regclient.WithConfigHosts(hosts), regclient.WithRegOpts(reg.WithHTTPClient(&http.Client{Transport: rt}), reg.WithDelay(time.Millisecond, 3*time.Millisecond)))
	ctx, cancel := context.WithTimeout(context.Background(), 15*time.Second)
	defer cancel()
	var wg sync.WaitGroup
	errs := make([]error, len(imgs))
	for i := range imgs {
		wg.Add(1)
		go func(i int) {
			defer wg.Done()
			defer func() {
				if p := recover(); p != nil {
					errs[i] = fmt.Errorf("panic: %v", p)
				}
			}()
			src, tgt := "a.example", "b.example"
			if i%2 == 1 {
				src, tgt = tgt, src
			}
			rs, _ := ref.New(fmt.Sprintf("%s/src%d:v1", src, i))
			rtg, _ := ref.New(fmt.Sprintf("%s/tgt%d:v1", tgt, i))
			errs[i] = rc.ImageCopy(ctx, rs, rtg)
		}(i)
	}
	wg.Wait()
	if ctx.Err() != nil {
		res.Fail("cross-copies-deadlock", fmt.Sprintf("%d copies in opposite directions between two registries with %d request slot(s) each: not finished after 15s (errors %v)", len(imgs), c.Max[0], errs), c)
		return
	}
	for i, e := range errs {
		if e != nil {
			res.Fail("cross-copy-failed", fmt.Sprintf("copy %d of %d failed with no fault injected: %v", i, len(imgs), e), c)
			return
		}
		tgt := "b.example"
		if i%2 == 1 {
			tgt = "a.example"
		}
		regs[tgt].Lock()
		rp := regs[tgt].Repos[fmt.Sprintf("tgt%d", i)]
		n := 0
		if rp != nil {
			n = len(rp.Blobs)
		}
		regs[tgt].Unlock()
		if n < 4 {
			res.Fail("cross-copy-incomplete", fmt.Sprintf("copy %d reported success, the target repository holds %d of 4 blobs", i, n), c)
			return
		}
	}
	res.Count(fmt.Sprintf("crosscopy:max=%d,pairs=%d", c.Max[0], c.G))
}

func runCase(c Case, res *lib.Result) (ret string) {
	defer res.Recover(c)
	return runCaseRaw(c, res)
}

func runCaseRaw(c Case, res *lib.Result) string {
	switch c.Kind {
	case "single":
		return runSingle(c, res)
	case "multiscript":
		return runMultiScript(c, res)
	case "multirand":
		runMultiRand(c, res)
	case "httpresume":
		runHTTPResume(c, res)
	case "crosscopy":
		runCrossCopy(c, res)
	case "httpabort":
		runHTTPAbort(c, res)
	}
	return ""
}

func Run(o lib.Opts) {
	res := lib.NewResult("C17", o.Tier, o.Seed)
	res.Rule = "one splitmix64 stream: (single) 4-25 operations acquire/try-acquire/release/cancel/cancel-vs-release race on 1-2 throttles with limits 1-3 and the default, size-aware, out-of-range-high and negative priority functions, each operation followed by the hook snapshot that the Coq monitor must reproduce; (multiscript) AcquireMulti over 2-3 throttles steered through 2-5 forced back-offs by saturating/freeing queues; (multirand) 3-5 goroutines x 20 iterations of Acquire / Acquire-with-deadline / AcquireMulti over random overlapping subsets with a limit monitor; non-trivial = a case in which some caller had to wait; distinct by case"
	if o.Replay != "" {
		var f struct{ Case Case }
		b, err := os.ReadFile(o.Replay)
		if err == nil {
			err = json.Unmarshal(b, &f)
		}
		if err != nil {
			fmt.Println("replay:", err)
			os.Exit(2)
		}
		for i := 0; i < 5 && len(res.Failures) == 0; i++ {
			runCase(f.Case, res)
		}
		for _, fl := range res.Failures {
			fmt.Printf("REPLAY-FAIL %s: %s\n", fl.Sig, fl.Desc)
		}
		if len(res.Failures) == 0 {
			fmt.Println("REPLAY-OK")
		}
		return
	}
	r := lib.NewRand(o.Seed)
	cw := lib.NewCaseWriter(o.Out, "C17", "From Coq Require Import List.\nFrom Verif Require Import Model.C17_PQueue Model.C17_Multi Corr.C17.\nImport ListNotations.", "case", 400)
	var all []Case
	for _, nx := range []string{"default", "size"} {
		for m := 1; m <= 3; m++ {
			ops := []Op{}
			for i := 1; i <= m+3; i++ {
				ops = append(ops, Op{K: "acq", Q: 0, ID: i})
			}
			fixed := append([]Op(nil), ops...)
			fixed = append(fixed, Op{K: "cancel", Q: 0, ID: m + 2}, Op{K: "race", Q: 0, ID: 1, ID2: m + 1}, Op{K: "rel", Q: 0, ID: m + 3}, Op{K: "cancel", Q: 0, ID: m + 3})
			all = append(all, Case{Kind: "single", Max: []int{m}, Next: []string{nx}, Ops: fixed})
			f2 := append([]Op(nil), ops...)
			f2 = append(f2, Op{K: "race", Q: 0, ID: 1, ID2: m + 2}, Op{K: "race", Q: 0, ID: m + 1, ID2: m + 3})
			all = append(all, Case{Kind: "single", Max: []int{m}, Next: []string{nx}, Ops: f2})
		}
	}
	// the host throttle under resumed reads: one slot and one reader, n slots and n readers, more readers than slots
	for _, mg := range [][3]int{{1, 1, 1}, {1, 1, 2}, {1, 3, 1}, {2, 2, 2}, {3, 3, 1}, {2, 5, 2}} {
		all = append(all, Case{Kind: "httpresume", Max: []int{mg[0]}, G: mg[1], Iters: mg[2]})
	}
	for _, mg := range [][3]int{{1, 1, 1}, {1, 2, 2}, {2, 3, 2}, {3, 4, 3}} {
		all = append(all, Case{Kind: "httpabort", Max: []int{mg[0]}, G: mg[2], Iters: mg[1]})
	}
	for i, mg := range [][2]int{{1, 1}, {1, 2}, {2, 2}, {3, 3}, {1, 3}} {
		all = append(all, Case{Kind: "crosscopy", Max: []int{mg[0]}, G: mg[1], Seed: uint64(900 + i)})
	}
	nS, nM, nR := o.Scale(300, 12000), o.Scale(40, 1500), o.Scale(25, 600)
	for i := 0; i < nS; i++ {
		all = append(all, genSingle(r))
	}
	for i := 0; i < nM; i++ {
		nq := 2 + r.Intn(2)
		c := Case{Kind: "multiscript", Seed: r.U64()}
		for j := 0; j < nq; j++ {
			c.Max = append(c.Max, 1+r.Intn(3))
			c.Next = append(c.Next, lib.Pick(r, []string{"default", "size"}))
		}
		all = append(all, c)
	}
	for i := 0; i < nR; i++ {
		nq := 1 + r.Intn(3)
		c := Case{Kind: "multirand", Seed: r.U64(), G: 3 + r.Intn(3), Iters: 20}
		for j := 0; j < nq; j++ {
			c.Max = append(c.Max, 1+r.Intn(3))
			c.Next = append(c.Next, lib.Pick(r, []string{"default", "size"}))
		}
		all = append(all, c)
	}
	seen := lib.Set{}
	for _, c := range all {
		res.Evaluations++
		before := res.Histogram["acq:queued"]
		term := runCase(c, res)
		kb, _ := json.Marshal(c)
		if _, dup := seen[string(kb)]; !dup && (res.Histogram["acq:queued"] > before || c.Kind != "single") {
			res.Distinct++
		}
		seen.Add(string(kb))
		if o.Mode != "search" && term != "" {
			cw.Add(term, c)
		}
		res.Sample(c, 3)
	}
	cw.Close(res)
	lib.WriteResult(o.Out, res)
}
