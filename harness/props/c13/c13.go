// Package c13: image modification.  Images with real tar layers (gzip or plain), configs with diff_ids and history
// (incl. empty-layer entries), OCI or Docker media types, single or index, with a referrer, inline data fields, are
// generated independently and modified with sequences of 0-5 options through mod.Apply between registries and
// layouts.  The resulting closure is audited from the stored bytes: every descriptor (digest, size, inline data),
// every diff_id against the uncompressed layer, history against layers, index entries against children; the source
// must be untouched, no-op options must keep the digest, a second application must give the same digest.  The
// layer / diff_id / history lists before and after are replayed on the Coq model of the rewriting passes.
package c13

import (
	"archive/tar"
	"bytes"
	"compress/gzip"
	"context"
	"crypto/sha256"
	"crypto/sha512"
	"encoding/base64"
	"encoding/hex"
	"encoding/json"
	"fmt"
	"io"
	"net/http"
	"os"
	"path/filepath"
	"regexp"
	"sort"
	"strings"
	"time"

	"github.com/klauspost/compress/zstd"
	digest "github.com/opencontainers/go-digest"

	"github.com/regclient/regclient"
	"github.com/regclient/regclient/config"
	"github.com/regclient/regclient/mod"
	"github.com/regclient/regclient/pkg/archive"
	"github.com/regclient/regclient/scheme/reg"
	"github.com/regclient/regclient/types/platform"
	"github.com/regclient/regclient/types/ref"

	"verifharness/lib"
	"verifharness/memreg"
	"verifharness/memrt"
)

type Opt struct {
	K string // annotation | label | env | cfgtime | layertime | rmindex | strip | addtar | recompress | reproducible | algo512 | tooci | todocker | data | urlrm | noop-label | noop-strip | noop-tooci
	N int    `json:",omitempty"`
}
type Case struct {
	Kind    string // mod
	Seed    uint64
	Docker  bool
	Index   bool
	Layers  int
	Plain   bool
	Zstd    bool   `json:",omitempty"` // layers of the source are zstd-compressed (unless Plain)
	Empties bool   // history has empty-layer entries
	NoHist  bool   // config without history
	Data    bool   // source descriptors carry inline data
	Refs    bool   // the image has a referrer
	Target  string // same | repo | reg | dir
	SrcDir  bool
	Rebase  bool `json:",omitempty"` // base images old (= the first layer of the image) and new are stored next to the image; the option list starts with the rebase
	Attest  bool `json:",omitempty"` // the index lists one Docker-style attestation manifest per image (vnd.docker.reference.*)
	Opts    []Opt
}

func shaA(alg string, b []byte) string {
	if alg == "sha512" {
		s := sha512.Sum512(b)
		return "sha512:" + hex.EncodeToString(s[:])
	}
	s := sha256.Sum256(b)
	return "sha256:" + hex.EncodeToString(s[:])
}
func sha(b []byte) string { return shaA("sha256", b) }

// ---------- generator ----------
type layerT struct {
	blob []byte // as stored
	uc   []byte // uncompressed tar
	mt   string
}

func mkTar(files [][2]string, mtime time.Time) []byte {
	var buf bytes.Buffer
	tw := tar.NewWriter(&buf)
	for _, f := range files {
		_ = tw.WriteHeader(&tar.Header{Name: f[0], Mode: 0o644, Size: int64(len(f[1])), ModTime: mtime, Typeflag: tar.TypeReg, Format: tar.FormatPAX})
		_, _ = tw.Write([]byte(f[1]))
	}
	_ = tw.Close()
	return buf.Bytes()
}
func gz(b []byte) []byte {
	var buf bytes.Buffer
	zw := gzip.NewWriter(&buf)
	_, _ = zw.Write(b)
	_ = zw.Close()
	return buf.Bytes()
}

// gzFast: a gzip stream as another tool writes it (other level, a header name): re-encoding it gives other bytes
func gzFast(b []byte) []byte {
	var buf bytes.Buffer
	zw, _ := gzip.NewWriterLevel(&buf, gzip.BestSpeed)
	zw.Name = "layer.tar"
	_, _ = zw.Write(b)
	_ = zw.Close()
	return buf.Bytes()
}
func gunzip(b []byte) []byte {
	if len(b) > 2 && b[0] == 0x1f && b[1] == 0x8b {
		zr, err := gzip.NewReader(bytes.NewReader(b))
		if err != nil {
			return nil
		}
		o, _ := io.ReadAll(zr)
		return o
	}
	return b
}

func zst(b []byte) []byte {
	var buf bytes.Buffer
	zw, _ := zstd.NewWriter(&buf)
	_, _ = zw.Write(b)
	_ = zw.Close()
	return buf.Bytes()
}
func isZstd(b []byte) bool {
	return len(b) > 4 && b[0] == 0x28 && b[1] == 0xb5 && b[2] == 0x2f && b[3] == 0xfd
}

// streamErr: a stored layer that is compressed must be a complete stream (final block and checksum present)
func streamErr(b []byte) error {
	if isZstd(b) {
		zr, err := zstd.NewReader(bytes.NewReader(b))
		if err != nil {
			return err
		}
		defer zr.Close()
		_, err = io.Copy(io.Discard, zr)
		return err
	}
	if len(b) > 2 && b[0] == 0x1f && b[1] == 0x8b {
		zr, err := gzip.NewReader(bytes.NewReader(b))
		if err != nil {
			return err
		}
		_, err = io.Copy(io.Discard, zr)
		return err
	}
	return nil
}

// decompress: gzip and zstd by their magic numbers, anything else as it is
func decompress(b []byte) []byte {
	if isZstd(b) {
		zr, err := zstd.NewReader(bytes.NewReader(b))
		if err != nil {
			return nil
		}
		defer zr.Close()
		o, _ := io.ReadAll(zr)
		return o
	}
	return gunzip(b)
}

type imageT struct {
	manifest []byte
	mt       string
	config   []byte
	layers   []layerT
}

func desc(mt string, b []byte, data bool) map[string]any {
	d := map[string]any{"mediaType": mt, "digest": sha(b), "size": len(b)}
	if data {
		d["data"] = base64.StdEncoding.EncodeToString(b)
	}
	return d
}

func mkImage(c Case, r *lib.Rand, uniq string, arch string) imageT {
	im := imageT{}
	lmt := "application/vnd.oci.image.layer.v1.tar+gzip"
	cmt := "application/vnd.oci.image.config.v1+json"
	im.mt = "application/vnd.oci.image.manifest.v1+json"
	if c.Docker {
		lmt, cmt, im.mt = "application/vnd.docker.image.rootfs.diff.tar.gzip", "application/vnd.docker.container.image.v1+json", "application/vnd.docker.distribution.manifest.v2+json"
	}
	if c.Plain {
		lmt = strings.TrimSuffix(strings.TrimSuffix(lmt, "+gzip"), ".gzip")
	} else if c.Zstd {
		lmt = strings.TrimSuffix(strings.TrimSuffix(lmt, "+gzip"), ".gzip") + map[bool]string{true: ".zstd", false: "+zstd"}[c.Docker]
	}
	base := time.Date(2021, 3, 4, 5, 6, 7, 0, time.UTC)
	var diff []string
	var hist []map[string]any
	var ls []any
	for i := 0; i < c.Layers; i++ {
		files := [][2]string{{fmt.Sprintf("app/file-%d.txt", i), fmt.Sprintf("%s-%s-content-%d", uniq, arch, i)}, {"etc/common.conf", fmt.Sprintf("layer=%d", i)}}
		if i%2 == 1 {
			files = [][2]string{{"strip/me.txt", fmt.Sprintf("%s-%s-only-%d", uniq, arch, i)}}
		} else if i == 0 {
			// a tar archive stored as a file of the layer (what WithFileTarTime rewrites)
			files = append(files, [2]string{"app/inner.tar", string(mkTar([][2]string{{"inner/a.txt", uniq + "-inner"}}, base.Add(90*time.Minute)))})
		}
		uc := mkTar(files, base.Add(time.Duration(i)*time.Hour))
		blob := uc
		if !c.Plain {
			blob = gz(uc)
			if c.Seed%3 == 0 {
				blob = gzFast(uc)
			}
			if c.Zstd {
				blob = zst(uc)
			}
		}
		im.layers = append(im.layers, layerT{blob: blob, uc: uc, mt: lmt})
		diff = append(diff, sha(uc))
		if c.Empties && i%2 == 0 {
			hist = append(hist, map[string]any{"created": base.Format(time.RFC3339), "created_by": fmt.Sprintf("ENV step=%d", i), "empty_layer": true})
		}
		hist = append(hist, map[string]any{"created": base.Add(time.Duration(i) * time.Hour).Format(time.RFC3339), "created_by": fmt.Sprintf("COPY layer-%d", i)})
		ls = append(ls, desc(lmt, blob, c.Data && len(blob) < 400))
	}
	if c.Empties {
		hist = append(hist, map[string]any{"created": base.Format(time.RFC3339), "created_by": "CMD [\"run\"]", "empty_layer": true})
	}
	cfg := map[string]any{"architecture": arch, "os": "linux", "created": base.Add(48 * time.Hour).Format(time.RFC3339),
		"config": map[string]any{"Env": []string{"PATH=/bin", "KEEP=1"}, "Labels": map[string]string{"org.example.keep": "yes", "org.opencontainers.image.created": base.Format(time.RFC3339)}, "Cmd": []string{"run"}},
		"rootfs": map[string]any{"type": "layers", "diff_ids": diff}}
	if !c.NoHist {
		cfg["history"] = hist
	}
	im.config, _ = json.Marshal(cfg)
	m := map[string]any{"schemaVersion": 2, "mediaType": im.mt, "config": desc(cmt, im.config, c.Data), "layers": ls}
	if !c.Docker {
		m["annotations"] = map[string]string{"org.example.src": uniq}
	}
	im.manifest, _ = json.Marshal(m)
	return im
}

type world struct {
	regs map[string]*memreg.Registry
	rt   *memrt.RT
	rc   *regclient.RegClient
}

func newWorld() *world {
	w := &world{regs: map[string]*memreg.Registry{}}
	for _, n := range []string{"a.example", "b.example"} {
		w.regs[n] = memreg.New(n, memreg.Features{Delete: true, TagDelete: true, ReferrersAPI: true})
	}
	w.rt = &memrt.RT{Handler: func(req *http.Request, body []byte, n int) *http.Response {
		if r, ok := w.regs[req.URL.Host]; ok {
			return r.Handle(req, body, n)
		}
		return memrt.Resp(502, nil, nil)
	}}
	w.rc = regclient.New(regclient.WithConfigHosts([]config.Host{{Name: "a.example", Hostname: "a.example", TLS: config.TLSDisabled}, {Name: "b.example", Hostname: "b.example", TLS: config.TLSDisabled}}),
		regclient.WithRegOpts(reg.WithHTTPClient(&http.Client{Transport: w.rt}), reg.WithDelay(time.Millisecond, 2*time.Millisecond), reg.WithRetryLimit(2)))
	return w
}

// store: read access to what a location holds
type store func(d string) ([]byte, bool)

func regStore(r *memreg.Registry, repo string) store {
	return func(d string) ([]byte, bool) {
		r.Lock()
		defer r.Unlock()
		rp := r.Repos[repo]
		if rp == nil {
			return nil, false
		}
		if b, ok := rp.Blobs[d]; ok {
			return b, true
		}
		if m, ok := rp.Manifests[d]; ok {
			return m.Body, true
		}
		return nil, false
	}
}
func dirStore(dir string) store {
	return func(d string) ([]byte, bool) {
		p := strings.SplitN(d, ":", 2)
		if len(p) != 2 {
			return nil, false
		}
		b, err := os.ReadFile(filepath.Join(dir, "blobs", p[0], p[1]))
		return b, err == nil
	}
}

type descJ struct {
	MediaType string   `json:"mediaType"`
	Digest    string   `json:"digest"`
	Size      int      `json:"size"`
	Data      []byte   `json:"data"`
	URLs      []string `json:"urls"`
}

func algOf(d string) string { return strings.SplitN(d, ":", 2)[0] }

// audit re-derives every claim of the closure from the stored bytes; returns the first problem
func audit(get store, d string, depth int, seen map[string]bool) string {
	if depth > 6 || seen[d] {
		return ""
	}
	seen[d] = true
	body, ok := get(d)
	if !ok {
		return "missing manifest " + d
	}
	if shaA(algOf(d), body) != d {
		return "manifest bytes do not hash to " + d
	}
	var m struct {
		MediaType string  `json:"mediaType"`
		Manifests []descJ `json:"manifests"`
		Config    *descJ  `json:"config"`
		Layers    []descJ `json:"layers"`
		Subject   *descJ  `json:"subject"`
	}
	if err := json.Unmarshal(body, &m); err != nil {
		return "manifest " + d + " is not JSON"
	}
	chk := func(what string, x descJ) ([]byte, string) {
		if len(x.URLs) > 0 {
			return nil, ""
		}
		b, ok := get(x.Digest)
		if !ok {
			return nil, fmt.Sprintf("%s %s named by %s is not at the target", what, x.Digest, d)
		}
		if len(b) != x.Size {
			return nil, fmt.Sprintf("%s %s: descriptor size %d, content has %d bytes", what, x.Digest, x.Size, len(b))
		}
		if shaA(algOf(x.Digest), b) != x.Digest {
			return nil, fmt.Sprintf("%s %s: content does not hash to it", what, x.Digest)
		}
		if len(x.Data) > 0 && !bytes.Equal(x.Data, b) {
			return nil, fmt.Sprintf("%s %s: inline data (%d bytes) is not the content (%d bytes)", what, x.Digest, len(x.Data), len(b))
		}
		return b, ""
	}
	if len(m.Manifests) > 0 || strings.Contains(m.MediaType, "index") || strings.Contains(m.MediaType, "manifest.list") {
		for i, c := range m.Manifests {
			cb, msg := chk(fmt.Sprintf("index entry %d", i), c)
			if msg != "" {
				return msg
			}
			var cm struct {
				MediaType string `json:"mediaType"`
			}
			_ = json.Unmarshal(cb, &cm)
			if cm.MediaType != "" && cm.MediaType != c.MediaType {
				return fmt.Sprintf("index entry %d says %s, the child declares %s", i, c.MediaType, cm.MediaType)
			}
			if msg := audit(get, c.Digest, depth+1, seen); msg != "" {
				return msg
			}
		}
		return ""
	}
	if m.Config == nil {
		return ""
	}
	cb, msg := chk("config", *m.Config)
	if msg != "" {
		return msg
	}
	var cfg struct {
		RootFS struct {
			DiffIDs []string `json:"diff_ids"`
		} `json:"rootfs"`
		History []struct {
			EmptyLayer bool `json:"empty_layer"`
		} `json:"history"`
	}
	isImageCfg := strings.Contains(m.Config.MediaType, "image.config") || strings.Contains(m.Config.MediaType, "container.image")
	if isImageCfg {
		if err := json.Unmarshal(cb, &cfg); err != nil {
			return "config is not JSON"
		}
	}
	for i, l := range m.Layers {
		lb, msg := chk(fmt.Sprintf("layer %d", i), l)
		if msg != "" {
			return msg
		}
		if isImageCfg && lb != nil {
			if i >= len(cfg.RootFS.DiffIDs) {
				return fmt.Sprintf("config has %d diff_ids for %d layers", len(cfg.RootFS.DiffIDs), len(m.Layers))
			}
			if err := streamErr(lb); err != nil {
				return fmt.Sprintf("layer %d (%s) is not a complete compressed stream: %v", i, l.MediaType, err)
			}
			uc := decompress(lb)
			if want := shaA(algOf(cfg.RootFS.DiffIDs[i]), uc); want != cfg.RootFS.DiffIDs[i] {
				return fmt.Sprintf("diff_id %d is %s, the uncompressed layer hashes to %s", i, cfg.RootFS.DiffIDs[i], want)
			}
			compressed := len(lb) > 2 && lb[0] == 0x1f && lb[1] == 0x8b
			if compressed != (strings.HasSuffix(l.MediaType, "gzip")) || isZstd(lb) != strings.HasSuffix(l.MediaType, "zstd") {
				return fmt.Sprintf("layer %d media type %s does not match its compression", i, l.MediaType)
			}
		}
	}
	if isImageCfg {
		if len(cfg.RootFS.DiffIDs) != len(m.Layers) {
			return fmt.Sprintf("config has %d diff_ids for %d layers", len(cfg.RootFS.DiffIDs), len(m.Layers))
		}
		if len(cfg.History) > 0 {
			n := 0
			for _, h := range cfg.History {
				if !h.EmptyLayer {
					n++
				}
			}
			if n != len(m.Layers) {
				return fmt.Sprintf("history has %d non-empty entries for %d layers", n, len(m.Layers))
			}
		}
	}
	return ""
}

func buildOpts(c Case, tgt ref.Ref) ([]mod.Opts, bool) {
	var out []mod.Opts
	noop := true
	t0 := time.Date(2020, 1, 1, 0, 0, 0, 0, time.UTC)
	for i, o := range c.Opts {
		switch o.K {
		case "annotation":
			out = append(out, mod.WithAnnotation(fmt.Sprintf("org.example.a%d", i), fmt.Sprintf("v%d", o.N)))
			noop = false
		case "label":
			out = append(out, mod.WithLabel(fmt.Sprintf("org.example.l%d", i), fmt.Sprintf("v%d", o.N)))
			noop = false
		case "env":
			out = append(out, mod.WithEnv(fmt.Sprintf("VAR%d", i), fmt.Sprint(o.N)))
			noop = false
		case "cfgtime":
			out = append(out, mod.WithConfigTimestamp(mod.OptTime{Set: t0}))
			noop = false
		case "layertime":
			out = append(out, mod.WithLayerTimestamp(mod.OptTime{Set: t0}))
			noop = false
		case "rmindex":
			out = append(out, mod.WithLayerRmIndex(o.N%max(c.Layers, 1)))
			noop = false
		case "strip":
			out = append(out, mod.WithLayerStripFile([]string{"strip/me.txt", "etc/common.conf", "app"}[o.N%3]))
			noop = false
		case "addtar":
			out = append(out, mod.WithLayerAddTar(bytes.NewReader(mkTar([][2]string{{"added/new.txt", fmt.Sprintf("added-%d-%d", i, o.N)}}, t0)), "", nil))
			noop = false
		case "recompress":
			if c.Plain {
				out = append(out, mod.WithLayerCompression(archive.CompressGzip))
			} else {
				out = append(out, mod.WithLayerCompression(archive.CompressNone))
			}
			noop = false
		case "tozstd":
			out = append(out, mod.WithLayerCompression(archive.CompressZstd))
			if !c.Zstd || c.Plain {
				noop = false
			}
		case "togzip":
			out = append(out, mod.WithLayerCompression(archive.CompressGzip))
			if c.Zstd || c.Plain {
				noop = false
			}
		case "cmd":
			out = append(out, mod.WithConfigCmd([]string{"serve", fmt.Sprint(o.N)}))
			noop = false
		case "entrypoint":
			out = append(out, mod.WithConfigEntrypoint([]string{"/bin/app", fmt.Sprint(o.N)}))
			noop = false
		case "expose":
			out = append(out, mod.WithExposeAdd(fmt.Sprintf("%d/tcp", 8000+o.N)))
			noop = false
		case "volume":
			out = append(out, mod.WithVolumeAdd(fmt.Sprintf("/data%d", o.N)))
			noop = false
		case "label2annot":
			out = append(out, mod.WithLabelToAnnotation())
			noop = false
		case "promote":
			out = append(out, mod.WithAnnotationPromoteCommon())
			noop = false // may be a no-op for a single image; never claimed as one
		case "rmcreated":
			out = append(out, mod.WithLayerRmCreatedBy(*regexp.MustCompile(fmt.Sprintf("^COPY layer-%d$", o.N%max(c.Layers, 1)))))
			noop = false
		case "filetime":
			out = append(out, mod.WithFileTarTime("app/inner.tar", mod.OptTime{Set: t0}))
			noop = false
		case "tsmax":
			out = append(out, mod.WithLayerTimestampMax(t0), mod.WithConfigTimestampMax(t0))
			noop = false
		case "cfgplatform":
			out = append(out, mod.WithConfigPlatform(platform.Platform{OS: "linux", Architecture: "riscv64"}))
			noop = false
		case "rebase":
			rOld, _ := ref.New("a.example/base/img:old")
			rNew, _ := ref.New("a.example/base/img:new")
			out = append(out, mod.WithRebaseRefs(rOld, rNew))
			noop = false
		case "toreferrers":
			out = append(out, mod.WithManifestToOCIReferrers())
			if c.Attest && c.Index && !c.Docker {
				noop = false
			}
		case "buildarg":
			out = append(out, mod.WithBuildArgRm("SECRET", regexp.MustCompile("^hunter2$")))
		case "reproducible":
			out = append(out, mod.WithLayerReproducible())
			noop = false
		case "algo512":
			out = append(out, mod.WithDigestAlgo(digest.SHA512))
			noop = false
		case "tooci":
			out = append(out, mod.WithManifestToOCI())
			if c.Docker {
				noop = false
			}
		case "todocker":
			out = append(out, mod.WithManifestToDocker())
			if !c.Docker {
				noop = false
			}
		case "data":
			out = append(out, mod.WithData(int64([]int{0, 200, 100000}[o.N%3])))
			noop = false
		case "urlrm":
			out = append(out, mod.WithExternalURLsRm())
		case "noop-label":
			out = append(out, mod.WithLabel("org.example.keep", "yes"))
		case "noop-strip":
			out = append(out, mod.WithLayerStripFile("no/such/file"))
		case "noop-time":
			out = append(out, mod.WithLayerTimestamp(mod.OptTime{Set: t0, After: time.Date(2090, 1, 1, 0, 0, 0, 0, time.UTC)}))
		case "noop-time-same": // the times the single layer's files already have, given in another zone
			out = append(out, mod.WithLayerTimestamp(mod.OptTime{Set: time.Date(2021, 3, 4, 6, 6, 7, 0, time.FixedZone("plus1", 3600))}))
			if c.Layers != 1 {
				noop = false
			}
		case "noop-rmcreated":
			out = append(out, mod.WithLayerRmCreatedBy(*regexp.MustCompile("^no such step$")))
		}
	}
	out = append(out, mod.WithRefTgt(tgt))
	return out, noop
}

type runResult struct {
	digest string
	err    error
}

func runCase(c Case, tmp string, res *lib.Result) (ret string) {
	defer res.Recover(c)
	return runCaseRaw(c, tmp, res)
}

func runCaseRaw(c Case, tmp string, res *lib.Result) string {
	dir, _ := os.MkdirTemp(tmp, "c13-")
	defer os.RemoveAll(dir)
	r := lib.NewRand(c.Seed)
	uniq := fmt.Sprintf("c13-%x", c.Seed&0xffff)
	ctx, cancel := context.WithTimeout(context.Background(), 60*time.Second)
	defer cancel()
	apply := func(pass int) (runResult, store, string, string) {
		w := newWorld()
		a := w.regs["a.example"]
		var imgs []imageT
		archs := []string{"amd64"}
		if c.Index {
			archs = []string{"amd64", "arm64"}
		}
		rootBody, rootMT := []byte(nil), ""
		for _, ar := range archs {
			im := mkImage(c, lib.NewRand(c.Seed^0x13), uniq, ar)
			imgs = append(imgs, im)
			a.PutBlob("proj/app", im.config)
			for _, l := range im.layers {
				a.PutBlob("proj/app", l.blob)
			}
			a.PutManifest("proj/app", "", im.mt, im.manifest)
			rootBody, rootMT = im.manifest, im.mt
		}
		baseEntries := map[string][]any{}
		baseSingle := map[string][2]string{}
		if c.Rebase {
			// old base: the image's first layer with exactly the history that leads to it; new base: another single layer
			for i, ar := range archs {
				im := imgs[i]
				var cfg map[string]any
				_ = json.Unmarshal(im.config, &cfg)
				mk := func(layer layerT, hist []any, tag string) {
					bc, _ := json.Marshal(map[string]any{"architecture": ar, "os": "linux", "created": cfg["created"], "config": map[string]any{},
						"rootfs": map[string]any{"type": "layers", "diff_ids": []string{sha(layer.uc)}}, "history": hist})
					cmt, mmt := "application/vnd.oci.image.config.v1+json", "application/vnd.oci.image.manifest.v1+json"
					if c.Docker {
						cmt, mmt = "application/vnd.docker.container.image.v1+json", "application/vnd.docker.distribution.manifest.v2+json"
					}
					bm, _ := json.Marshal(map[string]any{"schemaVersion": 2, "mediaType": mmt, "config": desc(cmt, bc, false), "layers": []any{desc(layer.mt, layer.blob, false)}})
					a.PutBlob("base/img", bc)
					a.PutBlob("base/img", layer.blob)
					a.PutManifest("base/img", tag+"-"+ar, mmt, bm)
					bd := desc(mmt, bm, false)
					bd["platform"] = map[string]string{"os": "linux", "architecture": ar}
					baseEntries[tag] = append(baseEntries[tag], bd)
					baseSingle[tag] = [2]string{mmt, string(bm)}
				}
				var oldHist []any
				if hs, ok := cfg["history"].([]any); ok {
					for _, h := range hs {
						oldHist = append(oldHist, h)
						if e, _ := h.(map[string]any)["empty_layer"].(bool); !e {
							break
						}
					}
				}
				mk(im.layers[0], oldHist, "old")
				nuc := mkTar([][2]string{{"base/new.txt", uniq + "-newbase-" + ar}}, time.Date(2022, 2, 2, 2, 2, 2, 0, time.UTC))
				nb := nuc
				if !c.Plain {
					nb = gz(nuc)
					if c.Zstd {
						nb = zst(nuc)
					}
				}
				mk(layerT{blob: nb, uc: nuc, mt: im.layers[0].mt}, []any{map[string]any{"created": "2022-02-02T02:02:02Z", "created_by": "ADD newbase"}}, "new")
			}
			for _, tag := range []string{"old", "new"} {
				if c.Index {
					imt := "application/vnd.oci.image.index.v1+json"
					if c.Docker {
						imt = "application/vnd.docker.distribution.manifest.list.v2+json"
					}
					ib, _ := json.Marshal(map[string]any{"schemaVersion": 2, "mediaType": imt, "manifests": baseEntries[tag]})
					a.PutManifest("base/img", tag, imt, ib)
				} else {
					a.PutManifest("base/img", tag, baseSingle[tag][0], []byte(baseSingle[tag][1]))
				}
			}
		}
		if c.Index {
			var ms []any
			for i, im := range imgs {
				d := desc(im.mt, im.manifest, c.Data && len(im.manifest) < 900)
				d["platform"] = map[string]string{"os": "linux", "architecture": archs[i]}
				ms = append(ms, d)
			}
			if c.Attest && !c.Docker {
				for i, im := range imgs {
					payload := []byte(fmt.Sprintf("%s-attestation-%d", uniq, i))
					a.PutBlob("proj/app", payload)
					a.PutBlob("proj/app", []byte("{}"))
					ab, _ := json.Marshal(map[string]any{"schemaVersion": 2, "mediaType": "application/vnd.oci.image.manifest.v1+json",
						"config": desc("application/vnd.oci.empty.v1+json", []byte("{}"), false), "layers": []any{desc("application/vnd.in-toto+json", payload, false)}})
					a.PutManifest("proj/app", "", "application/vnd.oci.image.manifest.v1+json", ab)
					d := desc("application/vnd.oci.image.manifest.v1+json", ab, false)
					d["platform"] = map[string]string{"os": "unknown", "architecture": "unknown"}
					d["annotations"] = map[string]string{"vnd.docker.reference.type": "attestation-manifest", "vnd.docker.reference.digest": sha(im.manifest)}
					ms = append(ms, d)
				}
			}
			rootMT = "application/vnd.oci.image.index.v1+json"
			if c.Docker {
				rootMT = "application/vnd.docker.distribution.manifest.list.v2+json"
			}
			rootBody, _ = json.Marshal(map[string]any{"schemaVersion": 2, "mediaType": rootMT, "manifests": ms})
		}
		srcDigest := a.PutManifest("proj/app", "v1", rootMT, rootBody)
		if c.Refs {
			payload := []byte(uniq + "-sig")
			a.PutBlob("proj/app", payload)
			a.PutBlob("proj/app", []byte("{}"))
			ab, _ := json.Marshal(map[string]any{"schemaVersion": 2, "mediaType": "application/vnd.oci.image.manifest.v1+json", "artifactType": "application/vnd.example.sig",
				"config": desc("application/vnd.oci.empty.v1+json", []byte("{}"), false), "layers": []any{desc("application/vnd.example.payload", payload, false)},
				"subject": desc(rootMT, rootBody, false)})
			a.PutManifest("proj/app", "", "application/vnd.oci.image.manifest.v1+json", ab)
		}
		srcName := "a.example/proj/app:v1"
		srcStore := regStore(a, "proj/app")
		if c.SrcDir {
			sd := filepath.Join(dir, fmt.Sprintf("src%d", pass))
			sr, _ := ref.New(srcName)
			dr, _ := ref.New("ocidir://" + sd + ":v1")
			opts := []regclient.ImageOpts{}
			if c.Refs {
				opts = append(opts, regclient.ImageWithReferrers())
			}
			if err := w.rc.ImageCopy(ctx, sr, dr, opts...); err != nil {
				return runResult{err: fmt.Errorf("setup: %w", err)}, nil, "", ""
			}
			srcName = "ocidir://" + sd + ":v1"
			srcStore = dirStore(sd)
		}
		rSrc, _ := ref.New(srcName)
		var tgtName string
		var tgtStore store
		switch c.Target {
		case "same":
			tgtName = strings.TrimSuffix(srcName, ":v1") + ":modified"
			tgtStore = srcStore
		case "repo":
			tgtName = "a.example/other/app:modified"
			tgtStore = regStore(a, "other/app")
		case "reg":
			tgtName = "b.example/copy/app:modified"
			tgtStore = regStore(w.regs["b.example"], "copy/app")
		default:
			td := filepath.Join(dir, fmt.Sprintf("tgt%d", pass))
			tgtName = "ocidir://" + td + ":modified"
			tgtStore = dirStore(td)
		}
		rTgt, _ := ref.New(tgtName)
		opts, _ := buildOpts(c, rTgt)
		rOut, err := mod.Apply(ctx, w.rc, rSrc, opts...)
		if err != nil {
			// a refused or failed modification must not leave the requested tag behind
			if _, herr := w.rc.ManifestHead(ctx, rTgt); herr == nil && pass == 0 {
				res.Fail("failed-apply-left-tag", fmt.Sprintf("mod.Apply failed (%v) but the target tag %s exists", err, rTgt.CommonName()), c)
			}
			return runResult{err: err}, tgtStore, srcDigest, ""
		}
		m, err := w.rc.ManifestHead(ctx, rOut)
		if err != nil && c.Target == "same" {
			// nothing was changed and nothing was pushed: the requested tag was not created (observed, not part of the property); the result is the source
			m, err = w.rc.ManifestHead(ctx, rSrc)
			res.Count("apply:unchanged-tag-not-created")
		}
		if err != nil {
			return runResult{err: fmt.Errorf("result %s cannot be read: %w", rOut.CommonName(), err)}, tgtStore, srcDigest, ""
		}
		// source untouched
		ms, err := w.rc.ManifestHead(ctx, rSrc)
		srcNow := ""
		if err == nil {
			srcNow = ms.GetDescriptor().Digest.String()
		}
		if msg := audit(srcStore, srcDigest, 0, map[string]bool{}); msg != "" && pass == 0 {
			res.Fail("source-damaged", "after the modification the SOURCE closure fails the audit: "+msg, c)
		}
		return runResult{digest: m.GetDescriptor().Digest.String()}, tgtStore, srcDigest, srcNow
	}
	_ = r
	r1, tgtStore, srcDigest, srcNow := apply(0)
	_, noop := buildOpts(c, ref.Ref{})
	if r1.err != nil {
		res.Count("apply:error")
		em := r1.err.Error()
		if len(em) > 90 {
			em = em[:90]
		}
		key := regexp.MustCompile(`sha\d+:[0-9a-f]+|c13-[0-9a-f]+|/tmp/[^ :]+|\d+`).ReplaceAllString(em, "X")
		res.Count("err:" + key)
		if os.Getenv("C13_DEBUG") != "" && res.Histogram["err:"+key] <= 2 {
			kb, _ := json.Marshal(c)
			fmt.Printf("ERR %s\n    %s\n    %s\n", key, r1.err.Error(), kb)
		}
		// options may legitimately be refused (e.g. removing a layer of an index); what must not happen is a partial result under the target tag - not audited here
		return ""
	}
	res.Count("apply:ok")
	if srcNow != srcDigest {
		res.Fail("source-tag-changed", fmt.Sprintf("the source tag named %s before and %s after", srcDigest, srcNow), c)
		return ""
	}
	if os.Getenv("C13_DEBUG") == "2" {
		b, _ := tgtStore(r1.digest)
		fmt.Printf("RESULT %s\n%s\n", r1.digest, b)
		_ = filepath.Walk(dir, func(p string, fi os.FileInfo, err error) error {
			if err == nil && !fi.IsDir() && strings.Contains(p, "tgt0") {
				fb, _ := os.ReadFile(p)
				fmt.Println("FILE", strings.TrimPrefix(p, dir), fi.Size(), shaA("sha512", fb)[:20], shaA("sha512", gunzip(fb))[:20])
			}
			return nil
		})
	}
	if msg := audit(tgtStore, r1.digest, 0, map[string]bool{}); msg != "" {
		res.Fail("result-not-well-formed "+classify(msg), msg, c)
		return ""
	}
	if msg := extraChecks(c, tgtStore, r1.digest); msg != "" {
		res.Fail("result-not-well-formed "+classify(msg), msg, c)
		return ""
	}
	if noop && r1.digest != srcDigest {
		res.Fail("noop-changed-digest", fmt.Sprintf("options that change nothing produced %s from %s", r1.digest, srcDigest), c)
		return ""
	}
	r2, _, _, _ := apply(1)
	if r2.err == nil && r2.digest != r1.digest {
		res.Fail("not-deterministic", fmt.Sprintf("the same options on the same input gave %s and then %s", r1.digest, r2.digest), c)
	}
	if len(c.Opts) == 1 && c.Opts[0].K == "rebase" && c.Rebase && !c.Index && !c.NoHist {
		// rebase alone: compared with the rebase model (Model/C13_Rebase.v)
		return strings.Join(provenance(c, tgtStore, r1.digest), "\x00")
	}
	for _, o := range c.Opts {
		if o.K == "rebase" || o.K == "toreferrers" {
			return "" // the layer provenance model does not know base images or converted entries
		}
	}
	return strings.Join(provenance(c, tgtStore, r1.digest), "\x00")
}

// extraChecks: what the rebase and the referrer conversion promise beyond well-formedness
func extraChecks(c Case, get store, d string) string {
	body, ok := get(d)
	if !ok {
		return ""
	}
	var m struct {
		Manifests []struct {
			Digest      string            `json:"digest"`
			Annotations map[string]string `json:"annotations"`
		} `json:"manifests"`
		Layers []descJ `json:"layers"`
	}
	_ = json.Unmarshal(body, &m)
	has := func(k string) bool {
		for _, o := range c.Opts {
			if o.K == k {
				return true
			}
		}
		return false
	}
	if has("rebase") && c.Rebase && !has("rmindex") && !has("rmcreated") && !has("strip") {
		imgs := []string{d}
		if len(m.Manifests) > 0 {
			imgs = nil
			for _, e := range m.Manifests {
				imgs = append(imgs, e.Digest)
			}
		}
		for _, id := range imgs {
			ib, _ := get(id)
			var im struct {
				Config *descJ  `json:"config"`
				Layers []descJ `json:"layers"`
			}
			_ = json.Unmarshal(ib, &im)
			if len(im.Layers) == 0 || im.Config == nil || !(strings.Contains(im.Config.MediaType, "image.config") || strings.Contains(im.Config.MediaType, "container.image")) {
				continue // an attestation or artifact entry: nothing to rebase
			}
			lb, ok := get(im.Layers[0].Digest)
			if !ok {
				return "rebase: first layer " + im.Layers[0].Digest + " is not at the target"
			}
			tr := tar.NewReader(bytes.NewReader(decompress(lb)))
			th, err := tr.Next()
			if err != nil || th.Name != "base/new.txt" {
				return "rebase: the first layer of the result is not the new base layer"
			}
		}
	}
	if has("toreferrers") && c.Attest && c.Index && !c.Docker {
		for _, e := range m.Manifests {
			if e.Annotations["vnd.docker.reference.type"] != "" {
				return "referrer conversion: the index still lists a Docker-style attestation entry " + e.Digest
			}
		}
	}
	return ""
}

// provenance renders, for each image of the result, where its layers and history entries come from
func provenance(c Case, get store, d string) []string {
	body, ok := get(d)
	if !ok {
		return nil
	}
	var m struct {
		Manifests []descJ `json:"manifests"`
		Config    *descJ  `json:"config"`
		Layers    []descJ `json:"layers"`
	}
	_ = json.Unmarshal(body, &m)
	if len(m.Manifests) > 0 {
		var out []string
		for _, ch := range m.Manifests {
			out = append(out, provenance(c, get, ch.Digest)...)
		}
		return out
	}
	if m.Config == nil || !(strings.Contains(m.Config.MediaType, "image.config") || strings.Contains(m.Config.MediaType, "container.image")) {
		return nil // an attestation or artifact entry has no layer history to account for
	}
	// which original layers the options delete, how many they add
	deleted := map[int]bool{}
	stripped := map[int]bool{} // 0 strip/me.txt, 1 etc/common.conf, 2 app
	nadd := 0
	addPos := map[int]int{}
	for i, o := range c.Opts {
		switch o.K {
		case "rmindex":
			if !c.Index {
				deleted[o.N%max(c.Layers, 1)] = true
			}
		case "rmcreated": // the layer whose history line is "COPY layer-k", in every image
			deleted[o.N%max(c.Layers, 1)] = true
		case "strip":
			stripped[o.N%3] = true
		case "addtar":
			addPos[i] = nadd
			nadd++
		}
	}
	for k := 0; k < c.Layers; k++ { // a layer whose every file is stripped is dropped
		if (k%2 == 1 && stripped[0]) || (k%2 == 0 && stripped[1] && stripped[2]) {
			deleted[k] = true
		}
	}
	var lay []string
	for _, l := range m.Layers {
		lb, ok := get(l.Digest)
		if !ok {
			return nil
		}
		tr := tar.NewReader(bytes.NewReader(decompress(lb)))
		id := -1
		for {
			th, err := tr.Next()
			if err != nil {
				break
			}
			content, _ := io.ReadAll(tr)
			var k, n int
			switch {
			case strings.HasPrefix(th.Name, "app/file-"):
				fmt.Sscanf(th.Name, "app/file-%d.txt", &k)
				id = k + 1
			case th.Name == "etc/common.conf":
				fmt.Sscanf(string(content), "layer=%d", &k)
				id = k + 1
			case th.Name == "strip/me.txt":
				s := string(content)
				fmt.Sscanf(s[strings.LastIndex(s, "-")+1:], "%d", &k)
				id = k + 1
			case th.Name == "base/new.txt":
				id = 900
			case th.Name == "added/new.txt":
				fmt.Sscanf(string(content), "added-%d-%d", &k, &n)
				id = 100 + addPos[k]
			}
		}
		lay = append(lay, fmt.Sprint(id))
	}
	cb, _ := get(m.Config.Digest)
	var cfg struct {
		History []struct {
			CreatedBy  string `json:"created_by"`
			Comment    string `json:"comment"`
			EmptyLayer bool   `json:"empty_layer"`
		} `json:"history"`
	}
	_ = json.Unmarshal(cb, &cfg)
	var ho []string
	for _, h := range cfg.History {
		var k int
		switch {
		case strings.HasPrefix(h.CreatedBy, "COPY layer-"):
			fmt.Sscanf(h.CreatedBy, "COPY layer-%d", &k)
			ho = append(ho, fmt.Sprint(k+1))
		case strings.HasPrefix(h.CreatedBy, "ENV step="):
			fmt.Sscanf(h.CreatedBy, "ENV step=%d", &k)
			ho = append(ho, fmt.Sprint(200+k))
		case strings.HasPrefix(h.CreatedBy, "CMD"):
			ho = append(ho, "300")
		case h.CreatedBy == "ADD newbase":
			ho = append(ho, "900")
		default:
			ho = append(ho, "0")
		}
	}
	// the history the generator wrote
	var hi []string
	for i := 0; i < c.Layers; i++ {
		if c.Empties && i%2 == 0 {
			hi = append(hi, fmt.Sprintf("(true, %d)", 200+i))
		}
		hi = append(hi, fmt.Sprintf("(false, %d)", i+1))
	}
	if c.Empties {
		hi = append(hi, "(true, 300)")
	}
	var del []string
	for k := range deleted {
		del = append(del, fmt.Sprint(k))
	}
	sort.Strings(del)
	if len(c.Opts) == 1 && c.Opts[0].K == "rebase" {
		return []string{fmt.Sprintf("XRB %d %s %s %s", c.Layers, lib.CoqList(hi), lib.CoqList(lay), lib.CoqList(ho))}
	}
	return []string{fmt.Sprintf("XM (mkCase %d %s %s %s %d %s %s)", c.Layers, lib.CoqList(hi), lib.CoqBool(c.NoHist), lib.CoqList(del), nadd, lib.CoqList(lay), lib.CoqList(ho))}
}

func classify(msg string) string {
	for _, k := range []string{"inline data", "diff_id", "history", "index entry", "descriptor size", "is not at the target", "do not hash", "does not hash", "media type", "diff_ids for"} {
		if strings.Contains(msg, k) {
			return "what=" + strings.ReplaceAll(k, " ", "-")
		}
	}
	return "what=other"
}

var optKinds = []string{"annotation", "label", "env", "cfgtime", "layertime", "rmindex", "strip", "addtar", "recompress", "reproducible", "algo512", "tooci", "todocker", "data", "data", "urlrm",
	"tozstd", "togzip", "cmd", "entrypoint", "expose", "volume", "label2annot", "promote", "rmcreated", "filetime", "tsmax", "cfgplatform", "buildarg"}
var noopKinds = []string{"noop-label", "noop-strip", "noop-time", "urlrm", "noop-time-same"}

func genCase(r *lib.Rand) Case {
	c := Case{Kind: "mod", Seed: r.U64(), Docker: r.Chance(35), Index: r.Chance(30), Layers: 1 + r.Intn(4), Plain: r.Chance(25), Zstd: r.Chance(25), Empties: r.Chance(50), NoHist: r.Chance(10),
		Data: r.Chance(30), Refs: r.Chance(25), Target: lib.Pick(r, []string{"same", "same", "repo", "reg", "dir"}), SrcDir: r.Chance(20)}
	if c.SrcDir && c.Target == "repo" {
		c.Target = "dir"
	}
	c.Rebase = r.Chance(12)
	c.Attest = c.Index && !c.Docker && r.Chance(40)
	if c.Rebase {
		c.Opts = append(c.Opts, Opt{K: "rebase"})
	}
	if c.Attest && r.Chance(60) {
		c.Opts = append(c.Opts, Opt{K: "toreferrers"})
	}
	n := r.Intn(6)
	if r.Chance(15) && !c.Rebase && len(c.Opts) == 0 {
		for i := 0; i < 1+r.Intn(2); i++ {
			c.Opts = append(c.Opts, Opt{K: lib.Pick(r, noopKinds)})
		}
		return c
	}
	for i := 0; i < n; i++ {
		c.Opts = append(c.Opts, Opt{K: lib.Pick(r, optKinds), N: r.Intn(6)})
	}
	return c
}

func Run(o lib.Opts) {
	res := lib.NewResult("C13", o.Tier, o.Seed)
	res.Rule = "one splitmix64 stream: images with 1-4 real tar layers (gzip, 25% plain, 19% zstd; the first layer holds a tar archive as a file), configs with diff_ids and history (50% with empty-layer entries before layers and at the end, 10% without history), OCI (65%) or Docker media types, 30% two-platform indexes (40% of the OCI ones listing a Docker-style attestation manifest per image), 12% with old and new base images stored next to the image, 30% with inline data on descriptors, 25% with a referrer; source on a registry (80%) or layout; target: same repository, other repository, other registry, layout; 0-5 options from annotation, label, env, config time, layer time, remove layer by index, strip file (one of them empties a layer), add tar layer, recompress (none / gzip / zstd), reproducible, sha512, to OCI, to Docker, data limits 0/200/100000, remove external URLs, cmd, entrypoint, expose, volume, label-to-annotation, promote common annotations, remove layer by created-by expression, inner tar file times, timestamp caps, config platform, build-arg removal, rebase onto the new base (first option), conversion of the attestation entries to OCI referrers (first option); 15% of the cases use only options that change nothing; each result is audited from the stored bytes, applied a second time on a fresh copy (same digest), the source re-audited and its tag compared; non-trivial = at least one changing option; distinct by case"
	if o.Replay != "" {
		var f struct{ Case Case }
		b, err := os.ReadFile(o.Replay)
		if err == nil {
			err = json.Unmarshal(b, &f)
		}
		if err != nil {
			fmt.Println("replay:", err)
			os.Exit(2)
		}
		runCase(f.Case, os.TempDir(), res)
		for _, fl := range res.Failures {
			fmt.Printf("REPLAY-FAIL %s: %s\n", fl.Sig, fl.Desc)
		}
		if len(res.Failures) == 0 {
			fmt.Println("REPLAY-OK")
		}
		return
	}
	r := lib.NewRand(o.Seed)
	cw := lib.NewCaseWriter(o.Out, "C13", "From Coq Require Import List Arith.\nFrom Verif Require Import Model.C13_Mod Corr.C13.\nImport ListNotations.", "xcase", 400)
	all := []Case{
		{Kind: "mod", Seed: 61, Index: true, Layers: 2, Target: "same", Opts: []Opt{{K: "data", N: 2}}},
		{Kind: "mod", Seed: 62, Layers: 3, Empties: true, Target: "repo", Opts: []Opt{{K: "rmindex", N: 2}}},
		{Kind: "mod", Seed: 63, Layers: 2, Data: true, Target: "same", Opts: []Opt{{K: "label", N: 1}}},
		{Kind: "mod", Seed: 64, Layers: 3, Empties: true, Target: "reg", Opts: []Opt{{K: "strip", N: 0}, {K: "addtar", N: 1}}},
		// fixed: an index listing attestation manifests made layer options that read the image config panic
		{Kind: "mod", Seed: 65, Index: true, Attest: true, Layers: 2, Empties: true, Target: "repo", Opts: []Opt{{K: "rmcreated", N: 1}}},
		{Kind: "mod", Seed: 66, Index: true, Attest: true, Layers: 2, Target: "same", Opts: []Opt{{K: "toreferrers"}, {K: "label", N: 1}}},
		{Kind: "mod", Seed: 67, Layers: 3, Empties: true, Rebase: true, Target: "repo", Opts: []Opt{{K: "rebase"}}},
		// a time option naming the instant the files already have (in another zone) changes nothing; the layer was not written by this encoder
		{Kind: "mod", Seed: 87, Layers: 1, Target: "same", Opts: []Opt{{K: "noop-time-same"}}},
		{Kind: "mod", Seed: 90, Layers: 1, Index: true, Target: "repo", Opts: []Opt{{K: "noop-time-same"}, {K: "noop-label"}}},
		// rebase alone, compared with the rebase model: old bases with and without leading empty history lines
		{Kind: "mod", Seed: 81, Layers: 1, Empties: true, Rebase: true, Target: "same", Opts: []Opt{{K: "rebase"}}},
		{Kind: "mod", Seed: 82, Layers: 2, Empties: false, Rebase: true, Target: "repo", Opts: []Opt{{K: "rebase"}}},
		{Kind: "mod", Seed: 83, Layers: 4, Empties: true, Rebase: true, Target: "reg", Docker: true, Opts: []Opt{{K: "rebase"}}},
		{Kind: "mod", Seed: 84, Layers: 3, Empties: false, Rebase: true, Target: "dir", Plain: true, Opts: []Opt{{K: "rebase"}}},
		{Kind: "mod", Seed: 85, Layers: 2, Empties: true, Rebase: true, Target: "same", Zstd: true, Opts: []Opt{{K: "rebase"}}},
		{Kind: "mod", Seed: 86, Layers: 4, Empties: false, Rebase: true, Target: "repo", Opts: []Opt{{K: "rebase"}}},
		{Kind: "mod", Seed: 68, Layers: 2, Zstd: true, Target: "reg", Opts: []Opt{{K: "togzip"}, {K: "filetime"}}},
	}
	n := o.Scale(220, 3000)
	for i := 0; i < n; i++ {
		all = append(all, genCase(r))
	}
	seen := lib.Set{}
	for _, c := range all {
		res.Evaluations++
		kb, _ := json.Marshal(c)
		term := runCase(c, os.TempDir(), res)
		_, noop := buildOpts(c, ref.Ref{})
		if _, dup := seen[string(kb)]; !dup && !noop {
			res.Distinct++
		}
		seen.Add(string(kb))
		for _, op := range c.Opts {
			res.Count("opt:" + op.K)
		}
		if o.Mode != "search" && term != "" {
			for _, t := range strings.Split(term, "\x00") {
				cw.Add(t, c)
			}
		}
		res.Sample(c, 3)
	}
	cw.Close(res)
	lib.WriteResult(o.Out, res)
}

var _ = sort.Strings
