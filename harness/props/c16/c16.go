// Package c16: platform selection — drives types/platform and descriptor.DescriptorListSearch.
package c16

import (
	"encoding/json"
	"fmt"
	"os"
	"strings"

	"github.com/opencontainers/go-digest"
	"github.com/regclient/regclient/types/descriptor"
	"github.com/regclient/regclient/types/platform"

	"verifharness/lib"
)

var (
	oses     = []string{"linux", "linux", "linux", "windows", "darwin", "macos", "freebsd", ""}
	arches   = []string{"amd64", "x86_64", "x86-64", "arm64", "aarch64", "arm", "arm", "armhf", "armel", "386", "i386", "ppc64le", ""}
	variants = []string{"", "", "v1", "v2", "v3", "v5", "v6", "v7", "v8", "5", "6", "7", "8", "x", "v-1", "9"}
	osvers   = []string{"", "", "", "10.0.17763.1", "10.0.17763.2", "10.0.14393.5", "10.0.14393", "10.0", "1", "1.5", "1.7", "abc", "1.x", "2", "+3"}
)

type Plat struct {
	OS, Arch, Variant, OSVer string
	Nil                      bool `json:",omitempty"` // entry without a platform
}

func (p Plat) P() platform.Platform {
	return platform.Platform{OS: p.OS, Architecture: p.Arch, Variant: p.Variant, OSVersion: p.OSVer}
}
func fromP(p platform.Platform) Plat {
	return Plat{OS: p.OS, Arch: p.Architecture, Variant: p.Variant, OSVer: p.OSVersion}
}
func coqPlatP(p platform.Platform) string {
	return fmt.Sprintf("(mkPlat %s %s %s %s %s %s)", lib.CoqStr(p.Architecture), lib.CoqStr(p.OS), lib.CoqStr(p.OSVersion),
		lib.CoqStrList(p.OSFeatures), lib.CoqStr(p.Variant), lib.CoqStrList(p.Features))
}
func coqPlat(p Plat) string { return coqPlatP(p.P()) }

// baselineRule: a requested platform that names no variant stands for the baseline (level 1) of its architecture: it can run
// exactly what the same platform spelled with variant "v1" can run
func baselineRule(h, t Plat) string {
	if h.Variant != "" || h.Arch == "" {
		return ""
	}
	switch h.Arch { // architectures whose missing variant is normalised to something else than level 1 (arm -> v7, arm64 -> v8 = none, amd64 v1 = none)
	case "arm", "armhf", "armel", "arm64", "aarch64", "amd64", "x86_64", "x86-64":
		return ""
	}
	h1 := h
	h1.Variant = "v1"
	if got, want := platform.Compatible(h.P(), t.P()), platform.Compatible(h1.P(), t.P()); got != want {
		return fmt.Sprintf("host %v can run entry %v: %v, but the same host spelled with variant v1: %v", h, t, got, want)
	}
	return ""
}

// vmRule: Windows and macOS hosts run Linux images in a VM, so whether such a host can run a linux entry is what a
// linux host of the same architecture and variant could run - the OS versions of either side play no part.  Returns a
// description when the implementation's Compatible breaks that relation.
func vmRule(h, t Plat) string {
	if (h.OS != "windows" && h.OS != "darwin" && h.OS != "macos") || t.OS != "linux" {
		return ""
	}
	lh := h
	lh.OS, lh.OSVer = "linux", ""
	if got, want := platform.Compatible(h.P(), t.P()), platform.Compatible(lh.P(), t.P()); got != want {
		return fmt.Sprintf("host %v can run linux entry %v: %v, but a linux host of the same architecture and variant: %v", h, t, got, want)
	}
	return ""
}

type Case struct {
	Kind  string // search | pair | parse
	Host  Plat
	List  []Plat `json:",omitempty"`
	T, P  Plat
	Str   string  `json:",omitempty"`
	Perms [][]int `json:",omitempty"`
}

func genPlat(r *lib.Rand, near *Plat) Plat {
	if near != nil && r.Chance(70) {
		// mostly-compatible neighbourhood of the host
		p := *near
		switch r.Intn(5) {
		case 0:
			p.Variant = lib.Pick(r, variants)
		case 1:
			p.OSVer = lib.Pick(r, osvers)
		case 2:
			p.OS = lib.Pick(r, oses)
		case 3:
			p.Variant = lib.Pick(r, variants)
			p.OSVer = lib.Pick(r, osvers)
		}
		return p
	}
	return Plat{OS: lib.Pick(r, oses), Arch: lib.Pick(r, arches), Variant: lib.Pick(r, variants), OSVer: lib.Pick(r, osvers)}
}

func descList(l []Plat) []descriptor.Descriptor {
	dl := make([]descriptor.Descriptor, len(l))
	for i, p := range l {
		dl[i] = descriptor.Descriptor{MediaType: "application/vnd.oci.image.manifest.v1+json", Size: int64(100 + i),
			Digest: digest.FromString(fmt.Sprintf("entry-%d", i))}
		if !p.Nil {
			pp := p.P()
			dl[i].Platform = &pp
		}
	}
	return dl
}

func search(host Plat, l []Plat) (int, bool) {
	hp := host.P()
	dl := descList(l)
	d, err := descriptor.DescriptorListSearch(dl, descriptor.MatchOpt{Platform: &hp})
	if err != nil {
		return 0, false
	}
	for i := range dl {
		if dl[i].Digest == d.Digest {
			return i, true
		}
	}
	return -1, true
}

// runCase executes one case on the implementation: returns the Coq term (or "" when the case has
// no model counterpart) and appends oracle failures.
func runCase(c Case, res *lib.Result) (ret string) {
	defer res.Recover(c)
	return runCaseRaw(c, res)
}

func runCaseRaw(c Case, res *lib.Result) string {
	switch c.Kind {
	case "search":
		idx, found := search(c.Host, c.List)
		hp := c.Host.P()
		comp := platform.NewCompare(hp)
		anyCompat, anyMatch := false, false
		for _, e := range c.List {
			if e.Nil {
				continue
			}
			if platform.Compatible(hp, e.P()) {
				anyCompat = true
			}
			if msg := vmRule(c.Host, e); msg != "" {
				res.Fail("linux-entry-runnable-depends-on-host-os", msg, c)
			}
			if msg := baselineRule(c.Host, e); msg != "" {
				res.Fail("no-variant-is-not-the-baseline", msg, c)
			}
			if platform.Match(hp, e.P()) {
				anyMatch = true
			}
		}
		hostNoArch := c.Host.Arch == ""
		if found {
			if idx < 0 || c.List[idx].Nil {
				res.Fail("search-returned-foreign-entry", "search returned a descriptor not in the list / without platform", c)
			} else {
				r := c.List[idx].P()
				if !platform.Compatible(hp, r) {
					res.Fail("result-not-runnable", fmt.Sprintf("host %v got %v which is not compatible", c.Host, c.List[idx]), c)
				}
				for _, e := range c.List {
					if !e.Nil && comp.Better(e.P(), r) {
						res.Fail("better-passed-over", fmt.Sprintf("host %v result %v but %v is strictly better", c.Host, c.List[idx], e), c)
						break
					}
				}
				if anyMatch && !platform.Match(hp, r) {
					res.Fail("exact-not-preferred", fmt.Sprintf("host %v result %v although an exact match is listed", c.Host, c.List[idx]), c)
				}
			}
		} else if anyCompat {
			sig := "compatible-not-found"
			if hostNoArch {
				sig = "compatible-not-found host-without-architecture"
			}
			res.Fail(sig, fmt.Sprintf("host %v: a compatible entry exists but search found none", c.Host), c)
		}
		// order independence
		for _, perm := range c.Perms {
			l2 := make([]Plat, len(c.List))
			for i, j := range perm {
				l2[i] = c.List[j]
			}
			idx2, found2 := search(c.Host, l2)
			if found2 != found {
				sig := "order-dependent-found"
				if hostNoArch {
					sig += " host-without-architecture"
				}
				res.Fail(sig, fmt.Sprintf("host %v: found=%v in one order, %v in another", c.Host, found, found2), c)
			} else if found && idx >= 0 && idx2 >= 0 {
				a, b := c.List[idx].P(), l2[idx2].P()
				if comp.Better(a, b) || comp.Better(b, a) {
					res.Fail("order-dependent-result", fmt.Sprintf("host %v: %v in one order, %v in another, not tied", c.Host, c.List[idx], l2[idx2]), c)
				}
			}
		}
		if found {
			res.Count("search:found")
		} else if anyCompat {
			res.Count("search:missed")
		} else {
			res.Count("search:none-compatible")
		}
		items := make([]string, len(c.List))
		for i, e := range c.List {
			items[i] = lib.CoqOpt(!e.Nil, coqPlat(e))
		}
		return fmt.Sprintf("CSearch %s %s %s", coqPlat(c.Host), lib.CoqList(items), lib.CoqOpt(found, lib.CoqNat(idx)))
	case "pair":
		hp, tp, pp := c.Host.P(), c.T.P(), c.P.P()
		oc, om := platform.Compatible(hp, tp), platform.Match(hp, tp)
		ob := platform.NewCompare(hp).Better(tp, pp)
		if ob && platform.NewCompare(hp).Better(pp, tp) {
			res.Fail("better-not-asymmetric", fmt.Sprintf("host %v: %v and %v are each better than the other", c.Host, c.T, c.P), c)
		}
		if msg := vmRule(c.Host, c.T); msg != "" {
			res.Fail("linux-entry-runnable-depends-on-host-os", msg, c)
		}
		if msg := baselineRule(c.Host, c.T); msg != "" {
			res.Fail("no-variant-is-not-the-baseline", msg, c)
		}
		if om && !oc {
			res.Fail("match-not-compatible", fmt.Sprintf("host %v matches %v but is not compatible", c.Host, c.T), c)
		}
		res.Count(fmt.Sprintf("pair:compat=%v,better=%v", oc, ob))
		return fmt.Sprintf("CPair %s %s %s %s %s %s", coqPlat(c.Host), coqPlat(c.T), coqPlat(c.P), lib.CoqBool(oc), lib.CoqBool(om), lib.CoqBool(ob))
	case "parse":
		p, err := platform.Parse(c.Str)
		loc := platform.Local()
		if err != nil {
			res.Count("parse:error")
			if strings.Contains(c.Str, ",") {
				return ""
			}
			return fmt.Sprintf("CParse %s %s None \"\"", coqPlatP(loc), lib.CoqStr(c.Str))
		}
		res.Count("parse:ok")
		printed := p.String()
		// normal form prints and re-parses to itself (the OS version is not printed)
		p2, err2 := platform.Parse(printed)
		want := p
		if !(p.OS == "windows" && loc.OS == "windows") {
			want.OSVersion = ""
			p2.OSVersion = ""
		}
		if err2 != nil || fromP(p2) != fromP(want) {
			res.Fail("parse-print-not-fixpoint", fmt.Sprintf("Parse(%q)=%+v prints %q which re-parses to %+v (err %v)", c.Str, p, printed, p2, err2), c)
		} else if p2.String() != printed {
			res.Fail("print-not-stable", fmt.Sprintf("%q prints %q then %q", c.Str, printed, p2.String()), c)
		}
		if strings.Contains(c.Str, ",") {
			return ""
		}
		return fmt.Sprintf("CParse %s %s (Some %s) %s", coqPlatP(loc), lib.CoqStr(c.Str), coqPlatP(p), lib.CoqStr(printed))
	}
	return ""
}

func genCase(r *lib.Rand) Case {
	k := r.Intn(100)
	switch {
	case k < 45:
		host := genPlat(r, nil)
		if r.Chance(85) && host.Arch == "" {
			host.Arch = "amd64"
		}
		n := r.Intn(6)
		l := make([]Plat, n)
		for i := range l {
			if r.Chance(8) {
				l[i] = Plat{Nil: true}
			} else {
				l[i] = genPlat(r, &host)
			}
		}
		c := Case{Kind: "search", Host: host, List: l}
		for i := 0; i < 3 && n > 1; i++ {
			c.Perms = append(c.Perms, r.Perm(n))
		}
		return c
	case k < 75:
		host := genPlat(r, nil)
		return Case{Kind: "pair", Host: host, T: genPlat(r, &host), P: genPlat(r, &host)}
	default:
		parts := []string{}
		up := func(s string) string {
			if r.Chance(15) {
				return strings.ToUpper(s)
			}
			return s
		}
		switch r.Intn(6) {
		case 0:
			parts = []string{lib.Pick(r, arches)}
		case 1:
			parts = []string{lib.Pick(r, oses)}
		case 2:
			parts = []string{lib.Pick(r, oses), lib.Pick(r, arches)}
		case 3, 4:
			parts = []string{lib.Pick(r, oses), lib.Pick(r, arches), lib.Pick(r, variants)}
		default:
			parts = []string{lib.Pick(r, []string{"local", "unknown", "linux", "a b", "li.nux", "", "wasm", "js"}), lib.Pick(r, arches)}
		}
		for i := range parts {
			parts[i] = up(parts[i])
		}
		s := strings.Join(parts, "/")
		if r.Chance(5) {
			s = "local"
		}
		if r.Chance(10) {
			s += ",osver=" + lib.Pick(r, osvers)
		}
		if r.Chance(3) {
			s += "/extra"
		}
		return Case{Kind: "parse", Str: s}
	}
}

func caseKey(c Case) string { b, _ := json.Marshal(c); return string(b) }

func nontrivial(c Case) bool {
	switch c.Kind {
	case "search":
		return len(c.List) >= 2
	case "pair":
		return c.T != c.P
	default:
		return strings.Contains(c.Str, "/")
	}
}

// Run is the entry point used by cmd/vh.
func Run(o lib.Opts) {
	res := lib.NewResult("C16", o.Tier, o.Seed)
	res.Rule = "cases drawn from one splitmix64 stream: 45% searches (host x list of 0-5 entries from the os/arch/alias/variant/osversion universe, 70% of entries in the host's compatible neighbourhood, 3 random permutations each), 30% (host,target,prev) triples for Compatible/Match/Better, 25% platform strings; non-trivial = search over >=2 entries, triple with target != prev, string with >=2 components; distinct by full case"
	if o.Replay != "" {
		var f struct{ Case Case }
		b, err := os.ReadFile(o.Replay)
		if err == nil {
			err = json.Unmarshal(b, &f)
		}
		if err != nil {
			fmt.Println("replay: ", err)
			os.Exit(2)
		}
		runCase(f.Case, res)
		for _, fl := range res.Failures {
			fmt.Printf("REPLAY-FAIL %s: %s\n", fl.Sig, fl.Desc)
		}
		if len(res.Failures) == 0 {
			fmt.Println("REPLAY-OK")
		}
		return
	}
	r := lib.NewRand(o.Seed)
	n := o.Scale(3000, 60000)
	cw := lib.NewCaseWriter(o.Out, "C16", "From Coq Require Import List String ZArith.\nFrom Verif Require Import Base.StrX Model.C16_Platform Corr.C16.\nImport ListNotations. Open Scope string_scope.", "case", 1500)
	seen := lib.Set{}
	// corpus of fixed boundary cases first
	fixed := []Case{
		{Kind: "search", Host: Plat{OS: "linux", Arch: "arm", Variant: "v7"}, List: []Plat{{OS: "linux", Arch: "arm"}, {OS: "linux", Arch: "arm", Variant: "v6"}}, Perms: [][]int{{1, 0}}},
		{Kind: "search", Host: Plat{OS: "linux", Arch: "arm64"}, List: []Plat{{OS: "linux", Arch: "aarch64", Variant: "v8"}}},
		{Kind: "search", Host: Plat{OS: "windows", Arch: "amd64", OSVer: "10.0.17763.1"}, List: []Plat{{OS: "linux", Arch: "amd64"}, {OS: "windows", Arch: "amd64", OSVer: "10.0.17763.2"}, {OS: "windows", Arch: "amd64", OSVer: "10.0.14393.5"}}, Perms: [][]int{{2, 1, 0}, {1, 0, 2}}},
		{Kind: "search", Host: Plat{OS: "darwin", Arch: "arm64"}, List: []Plat{{OS: "linux", Arch: "arm64"}, {OS: "darwin", Arch: "arm64"}}, Perms: [][]int{{1, 0}}},
		{Kind: "search", Host: Plat{OS: "freebsd", Arch: "amd64", OSVer: "1"}, List: []Plat{{OS: "freebsd", Arch: "amd64", OSVer: "1.5"}, {OS: "freebsd", Arch: "amd64", OSVer: "1"}, {OS: "freebsd", Arch: "amd64", OSVer: "1.7"}}, Perms: [][]int{{2, 1, 0}}},
		// minimised from thorough seed 2 (fixed: DescriptorListSearch took no entry that was not Better than the zero platform)
		{Kind: "search", Host: Plat{Variant: "5"}, List: []Plat{{}}},
		{Kind: "search", Host: Plat{Variant: "5"}, List: []Plat{{Nil: true}, {}, {Variant: "v-1"}, {Variant: "6", OSVer: "1.x"}, {OS: "macos", Arch: "386", Variant: "9"}}, Perms: [][]int{{2, 0, 4, 3, 1}, {1, 4, 3, 0, 2}}},
		{Kind: "search", Host: Plat{OS: "darwin"}, List: []Plat{{OS: "linux", OSVer: "1.5"}, {OS: "linux"}}, Perms: [][]int{{1, 0}}},
		{Kind: "search", Host: Plat{OS: "windows"}, List: []Plat{{OS: "linux"}}},
		{Kind: "parse", Str: "linux/aarch64/v8"}, {Kind: "parse", Str: "linux/arm/7"}, {Kind: "parse", Str: "armhf"}, {Kind: "parse", Str: "linux/x86_64/v1"},
	}
	all := fixed
	for i := 0; i < n; i++ {
		all = append(all, genCase(r))
	}
	for _, c := range all {
		res.Evaluations++
		k := caseKey(c)
		if _, dup := seen[k]; !dup && nontrivial(c) {
			res.Distinct++
		}
		seen.Add(k)
		term := runCase(c, res)
		if o.Mode != "search" && term != "" {
			cw.Add(term, c)
		}
		res.Sample(c, 5)
	}
	cw.Close(res)
	lib.WriteResult(o.Out, res)
}
