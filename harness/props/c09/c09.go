// Package c09: export then import.  Real RegClient.ImageExport / ImageImport on generated image graphs between
// model registries and OCI layouts.  The archive is parsed with archive/tar and validated independently; it is
// re-written with permuted entries, symlinks, hardlinks, duplicates, or with a needed entry removed; Docker
// save-format archives in the styles of several tools are built by hand.  Every import into a registry is
// replayed on the Coq model of the import state machine (the exact sequence of uploads and manifest pushes,
// or the failure, must coincide); independent oracles compare digests and closures.
package c09

import (
	"archive/tar"
	"bytes"
	"compress/gzip"
	"context"
	"crypto/sha256"
	"encoding/hex"
	"encoding/json"
	"fmt"
	"io"
	"net/http"
	"os"
	"path"
	"path/filepath"
	"sort"
	"strings"
	"time"

	"github.com/regclient/regclient"
	"github.com/regclient/regclient/config"
	"github.com/regclient/regclient/scheme/reg"
	"github.com/regclient/regclient/types/ref"

	"verifharness/imgen"
	"verifharness/lib"
	"verifharness/memreg"
	"verifharness/memrt"
)

type Case struct {
	Kind     string // rt | perm | incomplete | docker | special
	Seed     uint64
	SrcDir   bool   `json:",omitempty"`
	TgtDir   bool   `json:",omitempty"`
	Gzip     bool   `json:",omitempty"`
	ExpRef   bool   `json:",omitempty"` // export under another name
	GzMulti  bool   `json:",omitempty"` // gzip streams written by the harness (archive, Docker layers) consist of several members, as pigz / bgzip / eStargz write them
	Corrupt  bool   `json:",omitempty"` // layout sources: one blob file of the image holds other bytes of the same length
	Pinned   bool   `json:",omitempty"` // the exported reference (or the name override) carries tag AND digest, as "regctl image export --platform" passes it
	Sel      string `json:",omitempty"` // tag | digest | name
	Validate bool   `json:",omitempty"` // the target registry rejects manifests whose children are missing
	Prepop   int    `json:",omitempty"` // percentage of blobs already at the target
	Links    int    `json:",omitempty"` // 0 none, 1 symlinks, 2 hardlinks, 3 both
	Shuffle  int    `json:",omitempty"` // 0 keep, 1 shuffle all, 2 layout+index last, 3 reverse
	Dup      bool   `json:",omitempty"`
	Stale    bool   `json:",omitempty"` // the target tag already names another image
	Style    string `json:",omitempty"` // docker archives: legacy | ggcr | flat
	LayerGz  bool   `json:",omitempty"`
	Images   int    `json:",omitempty"`
	Special  string `json:",omitempty"`
	XGraph   bool   `json:",omitempty"` // graph from imgen.RandomX (inline data, OCI artifact manifests, unknown-typed blob entries)
}

type Ent struct {
	Name string
	Type byte // tar.TypeReg, TypeDir, TypeSymlink, TypeLink
	Data []byte
	Link string
}

func sha(b []byte) string { s := sha256.Sum256(b); return "sha256:" + hex.EncodeToString(s[:]) }

// gzMembers: several gzip members per stream when set (per case; the harness runs its cases one after another)
var gzMembers bool

func gzParts(b []byte) []byte {
	if !gzMembers || len(b) < 4 {
		var buf bytes.Buffer
		zw := gzip.NewWriter(&buf)
		_, _ = zw.Write(b)
		_ = zw.Close()
		return buf.Bytes()
	}
	var out bytes.Buffer
	cuts := []int{0, len(b) / 3, 2 * len(b) / 3, len(b)}
	for i := 0; i+1 < len(cuts); i++ {
		zw := gzip.NewWriter(&out)
		_, _ = zw.Write(b[cuts[i]:cuts[i+1]])
		_ = zw.Close()
	}
	return out.Bytes()
}

func writeTar(ents []Ent, gz bool) []byte {
	if gz && gzMembers {
		return gzParts(writeTar(ents, false))
	}
	var buf bytes.Buffer
	var w io.Writer = &buf
	var zw *gzip.Writer
	if gz {
		zw = gzip.NewWriter(&buf)
		w = zw
	}
	tw := tar.NewWriter(w)
	for _, e := range ents {
		h := &tar.Header{Name: e.Name, Typeflag: e.Type, Mode: 0o644, Format: tar.FormatPAX}
		switch e.Type {
		case tar.TypeReg:
			h.Size = int64(len(e.Data))
		case tar.TypeDir:
			h.Mode = 0o755
		default:
			h.Linkname = e.Link
		}
		if err := tw.WriteHeader(h); err != nil {
			panic(err)
		}
		if e.Type == tar.TypeReg {
			_, _ = tw.Write(e.Data)
		}
	}
	_ = tw.Close()
	if zw != nil {
		_ = zw.Close()
	}
	return buf.Bytes()
}

func readTar(b []byte) ([]Ent, error) {
	var r io.Reader = bytes.NewReader(b)
	if len(b) > 2 && b[0] == 0x1f && b[1] == 0x8b {
		zr, err := gzip.NewReader(r)
		if err != nil {
			return nil, err
		}
		r = zr
	}
	tr := tar.NewReader(r)
	var out []Ent
	for {
		h, err := tr.Next()
		if err == io.EOF {
			return out, nil
		}
		if err != nil {
			return nil, err
		}
		e := Ent{Name: h.Name, Type: h.Typeflag, Link: h.Linkname}
		if h.Typeflag == tar.TypeReg {
			e.Data, err = io.ReadAll(tr)
			if err != nil {
				return nil, err
			}
		}
		out = append(out, e)
	}
}

// ---------- independent reading of manifests ----------
type child struct {
	Digest, MT string
}
type nodeInfo struct {
	kind     string // index | image | blob
	children []child
}

var manMT = map[string]bool{imgen.MTIndex: true, imgen.MTDockerL: true, imgen.MTImage: true, imgen.MTDocker: true,
	"application/vnd.docker.distribution.manifest.v1+json": true, "application/vnd.docker.distribution.manifest.v1+prettyjws": true,
	// not in the media-type switches of export and import, but types/manifest parses it: their "try as a manifest" branch takes it
	imgen.MTArtifact: true}
var blobMT = map[string]bool{"application/vnd.docker.container.image.v1+json": true, "application/vnd.oci.image.config.v1+json": true,
	"application/vnd.docker.image.rootfs.diff.tar": true, "application/vnd.docker.image.rootfs.diff.tar.gzip": true, "application/vnd.docker.image.rootfs.diff.tar.zstd": true,
	"application/vnd.oci.image.layer.v1.tar": true, "application/vnd.oci.image.layer.v1.tar+gzip": true, "application/vnd.oci.image.layer.v1.tar+zstd": true,
	"application/vnd.buildkit.cacheconfig.v0": true}

func clsOf(mt string) string {
	switch {
	case mt == "":
		return "KUnk"
	case manMT[mt]:
		return "KMan"
	case blobMT[mt]:
		return "KBlob"
	}
	return "KOther"
}

func classify(body []byte) nodeInfo {
	var m struct {
		MediaType string `json:"mediaType"`
		Manifests []struct{ Digest, MediaType string }
		Config    *struct{ Digest string }
		Layers    []struct{ Digest string }
		Blobs     []struct{ Digest string }
	}
	if json.Unmarshal(body, &m) != nil {
		return nodeInfo{kind: "blob"}
	}
	switch m.MediaType {
	case imgen.MTArtifact: // an image without a config whose layers are its blobs
		n := nodeInfo{kind: "image", children: []child{{}}}
		for _, l := range m.Blobs {
			n.children = append(n.children, child{l.Digest, ""})
		}
		return n
	case imgen.MTIndex, imgen.MTDockerL:
		n := nodeInfo{kind: "index"}
		for _, c := range m.Manifests {
			n.children = append(n.children, child{c.Digest, c.MediaType})
		}
		return n
	case imgen.MTImage, imgen.MTDocker:
		n := nodeInfo{kind: "image"}
		if m.Config != nil {
			n.children = append(n.children, child{m.Config.Digest, ""})
		} else {
			n.children = append(n.children, child{})
		}
		for _, l := range m.Layers {
			n.children = append(n.children, child{l.Digest, ""})
		}
		return n
	}
	return nodeInfo{kind: "blob"}
}

// ---------- world ----------
type world struct {
	src, tgt *memreg.Registry
	rt       *memrt.RT
	rc       *regclient.RegClient
}

func newWorld(validate bool) *world {
	w := &world{}
	w.src = memreg.New("src.example", memreg.Features{Delete: true, TagDelete: true})
	w.tgt = memreg.New("tgt.example", memreg.Features{Delete: true, TagDelete: true, ValidateChildren: validate})
	w.rt = &memrt.RT{Handler: func(req *http.Request, body []byte, n int) *http.Response {
		if req.URL.Host == "tgt.example" {
			return w.tgt.Handle(req, body, n)
		}
		return w.src.Handle(req, body, n)
	}}
	w.rc = regclient.New(regclient.WithConfigHosts([]config.Host{{Name: "src.example", Hostname: "src.example", TLS: config.TLSDisabled}, {Name: "tgt.example", Hostname: "tgt.example", TLS: config.TLSDisabled}}),
		regclient.WithRegOpts(reg.WithHTTPClient(&http.Client{Transport: w.rt}), reg.WithDelay(time.Millisecond, 3*time.Millisecond), reg.WithRetryLimit(2)))
	return w
}

const tgtRepo = "imp/app"

// events: the successful uploads and manifest pushes the target registry saw, in order
type event struct {
	K string // blob | put | tag
	D string
}

func (w *world) events() []event {
	var out []event
	for _, rec := range w.rt.Records() {
		if rec.Host != "tgt.example" || rec.Method != "PUT" || rec.Status != 201 {
			continue
		}
		switch {
		case strings.Contains(rec.Path, "/blobs/uploads/"):
			q := rec.Query
			if i := strings.Index(q, "digest="); i >= 0 {
				d := q[i+7:]
				if j := strings.Index(d, "&"); j >= 0 {
					d = d[:j]
				}
				d = strings.ReplaceAll(d, "%3A", ":")
				out = append(out, event{"blob", d})
			}
		case strings.Contains(rec.Path, "/manifests/"):
			r := rec.Path[strings.LastIndex(rec.Path, "/")+1:]
			if strings.Contains(r, ":") {
				out = append(out, event{"put", sha(rec.Body)})
			} else {
				out = append(out, event{"tag", sha(rec.Body)})
			}
		}
	}
	return out
}

func noForeign(g *imgen.Graph) bool {
	for _, n := range g.Nodes {
		if len(n.Foreign) > 0 {
			return false
		}
	}
	return true
}

// genGraph: no foreign layers (an archive can not hold them); no schema1 roots from the extended generator (ImageExport
// refuses them: "config digest not available" - an error, not a wrong archive)
func genGraph(r *lib.Rand, uniq string, x bool) *imgen.Graph {
	for {
		var g *imgen.Graph
		if x {
			g = imgen.RandomX(r, uniq)
		} else {
			g = imgen.Random(r, uniq)
		}
		if noForeign(g) && !strings.Contains(g.Root.MT, "manifest.v1+") {
			return g
		}
	}
}

// checkArchive: the independent validation of an exported archive
func checkArchive(ents []Ent, g *imgen.Graph, wantTag, wantName string) string {
	files := map[string][]byte{}
	for _, e := range ents {
		if e.Type != tar.TypeReg {
			if e.Type != tar.TypeDir {
				return "entry " + e.Name + " is neither a file nor a directory"
			}
			continue
		}
		if _, dup := files[e.Name]; dup {
			return "duplicate entry " + e.Name
		}
		files[e.Name] = e.Data
	}
	var lay struct {
		V string `json:"imageLayoutVersion"`
	}
	if json.Unmarshal(files["oci-layout"], &lay) != nil || lay.V != "1.0.0" {
		return "oci-layout missing or not version 1.0.0"
	}
	var ix struct {
		SchemaVersion int `json:"schemaVersion"`
		Manifests     []struct {
			MediaType, Digest string
			Size              int
			Annotations       map[string]string
		}
	}
	if json.Unmarshal(files["index.json"], &ix) != nil || ix.SchemaVersion != 2 || len(ix.Manifests) != 1 {
		return "index.json missing, not schemaVersion 2, or not exactly one entry"
	}
	m := ix.Manifests[0]
	if m.Digest != g.Root.Digest || m.MediaType != g.Root.MT || m.Size != len(g.Root.Body) {
		return fmt.Sprintf("index.json names %s %s size %d, the exported image is %s %s size %d", m.Digest, m.MediaType, m.Size, g.Root.Digest, g.Root.MT, len(g.Root.Body))
	}
	if m.Annotations["org.opencontainers.image.ref.name"] != wantTag {
		return fmt.Sprintf("index.json ref.name is %q, want the tag %q", m.Annotations["org.opencontainers.image.ref.name"], wantTag)
	}
	if wantName != "" && m.Annotations["io.containerd.image.name"] != wantName {
		return fmt.Sprintf("index.json image name is %q, want %q", m.Annotations["io.containerd.image.name"], wantName)
	}
	for name, data := range files {
		if strings.HasPrefix(name, "blobs/") {
			parts := strings.Split(name, "/")
			if len(parts) != 3 || parts[1] != "sha256" || sha(data) != "sha256:"+parts[2] {
				return "entry " + name + " does not hold content with that digest"
			}
		}
	}
	for d := range imgen.Closure(g.Root, false) {
		if _, ok := files["blobs/sha256/"+strings.TrimPrefix(d, "sha256:")]; !ok {
			return "archive lacks " + d + " of the image's closure"
		}
	}
	if g.Root.Kind == "image" || g.Root.Kind == "artifact" {
		var dm []struct {
			Config   string
			RepoTags []string
			Layers   []string
		}
		if json.Unmarshal(files["manifest.json"], &dm) != nil || len(dm) != 1 {
			return "single image without a one-element manifest.json"
		}
		ch := g.Root.Children
		if dm[0].Config != "blobs/sha256/"+strings.TrimPrefix(ch[0].Digest, "sha256:") || len(dm[0].Layers) != len(ch)-1 {
			return "manifest.json config/layers do not match the image manifest"
		}
		for i, l := range dm[0].Layers {
			if l != "blobs/sha256/"+strings.TrimPrefix(ch[i+1].Digest, "sha256:") {
				return "manifest.json layer " + fmt.Sprint(i) + " does not match the image manifest"
			}
			if _, ok := files[l]; !ok {
				return "manifest.json layer file missing: " + l
			}
		}
		// Docker loads "name:tag" entries only: no digest part
		if len(dm[0].RepoTags) != 1 || !strings.HasSuffix(dm[0].RepoTags[0], ":"+wantTag) || strings.Contains(dm[0].RepoTags[0], "@") {
			return fmt.Sprintf("manifest.json RepoTags %v do not carry the tag %q", dm[0].RepoTags, wantTag)
		}
	}
	return ""
}

// targetState reads what the target holds (registry raw state or layout files)
func targetHas(w *world, tgtDir string) (func(d string) ([]byte, bool), func(tag string) string) {
	if tgtDir == "" {
		return func(d string) ([]byte, bool) {
				w.tgt.Lock()
				defer w.tgt.Unlock()
				rp := w.tgt.Repos[tgtRepo]
				if rp == nil {
					return nil, false
				}
				if b, ok := rp.Blobs[d]; ok {
					return b, true
				}
				if m, ok := rp.Manifests[d]; ok {
					return m.Body, true
				}
				return nil, false
			}, func(tag string) string {
				return w.tgt.TagsOf(tgtRepo)[tag]
			}
	}
	return func(d string) ([]byte, bool) {
			b, err := os.ReadFile(filepath.Join(tgtDir, "blobs", "sha256", strings.TrimPrefix(d, "sha256:")))
			return b, err == nil
		}, func(tag string) string {
			var ix struct {
				Manifests []struct {
					Digest      string
					Annotations map[string]string
				}
			}
			b, _ := os.ReadFile(filepath.Join(tgtDir, "index.json"))
			_ = json.Unmarshal(b, &ix)
			for _, m := range ix.Manifests {
				if m.Annotations["org.opencontainers.image.ref.name"] == tag {
					return m.Digest
				}
			}
			return ""
		}
}

// ---------- Coq rendering of an import ----------
type coqCtx struct {
	ids map[string]int
}

func (c *coqCtx) id(s string) int {
	if v, ok := c.ids[s]; ok {
		return v
	}
	v := len(c.ids) + 3
	c.ids[s] = v
	return v
}
func blobName(d string) string { return "blobs/" + strings.Replace(d, ":", "/", 1) }

// resolve: where a link entry points, by the rules of the tar format (symlink: relative to the link's directory
// unless absolute; hardlink: a path from the archive root)
func resolve(e Ent) string {
	name := path.Clean(e.Name)
	t := e.Link
	if e.Type == tar.TypeSymlink && !path.IsAbs(t) {
		t = path.Join(path.Dir(name), t)
	}
	return strings.TrimPrefix(path.Clean("/"+t), "/")
}

type dockerImg struct {
	Config   string
	RepoTags []string
	Layers   []string
}

func coqImport(ents []Ent, sel string, bp, mp []string, okObs bool, evs []string, cc *coqCtx) string {
	key := func(name string) string { // tar names and digests share identities
		name = path.Clean(name)
		switch name {
		case "oci-layout":
			return "#0"
		case "index.json":
			return "#1"
		case "manifest.json":
			return "#2"
		}
		p := strings.Split(name, "/")
		if len(p) == 3 && p[0] == "blobs" {
			return p[1] + ":" + p[2]
		}
		return "name:" + name
	}
	nid := func(name string) int {
		k := key(name)
		if k[0] == '#' {
			return int(k[1] - '0')
		}
		return cc.id(k)
	}
	var es []string
	layoutOK := false
	var idx []string
	var dk []string
	contents := map[string][]byte{}
	for _, e := range ents {
		switch e.Type {
		case tar.TypeSymlink, tar.TypeLink:
			es = append(es, fmt.Sprintf("ELnk %d %d", nid(e.Name), nid(resolve(e))))
		default:
			d := sha(e.Data)
			contents[d] = e.Data
			es = append(es, fmt.Sprintf("EFile %d %d", nid(e.Name), cc.id(d)))
			switch key(e.Name) {
			case "#0":
				var lay struct {
					V string `json:"imageLayoutVersion"`
				}
				_ = json.Unmarshal(e.Data, &lay)
				layoutOK = lay.V == "1.0.0"
			case "#1":
				var ix struct {
					Manifests []struct {
						MediaType, Digest string
						Annotations       map[string]string
					}
				}
				_ = json.Unmarshal(e.Data, &ix)
				idx = nil
				for _, m := range ix.Manifests {
					rn := 0
					if v := m.Annotations["org.opencontainers.image.ref.name"]; v != "" {
						rn = cc.id("ref:" + v)
					}
					idx = append(idx, fmt.Sprintf("(%d, %s, %d)", cc.id(m.Digest), clsOf(m.MediaType), rn))
				}
			case "#2":
				var dm []dockerImg
				_ = json.Unmarshal(e.Data, &dm)
				dk = nil
				for _, im := range dm {
					var tags, layers []string
					for _, t := range im.RepoTags {
						tags = append(tags, fmt.Sprint(cc.id("ref:"+t)))
					}
					for _, l := range im.Layers {
						layers = append(layers, fmt.Sprint(nid(l)))
					}
					dk = append(dk, fmt.Sprintf("mkD %s %d %s", lib.CoqList(tags), nid(im.Config), lib.CoqList(layers)))
				}
			}
		}
	}
	var cont []string
	for _, d := range lib.SortedKeys(contents) {
		n := classify(contents[d])
		switch n.kind {
		case "index":
			var ch []string
			for _, c := range n.children {
				ch = append(ch, fmt.Sprintf("(%d, %s)", cc.id(c.Digest), clsOf(c.MT)))
			}
			cont = append(cont, fmt.Sprintf("(%d, NIndex %s)", cc.id(d), lib.CoqList(ch)))
		case "image":
			cfg := "None"
			if n.children[0].Digest != "" {
				cfg = fmt.Sprintf("(Some %d)", cc.id(n.children[0].Digest))
			}
			var ls []string
			for _, c := range n.children[1:] {
				ls = append(ls, fmt.Sprint(cc.id(c.Digest)))
			}
			cont = append(cont, fmt.Sprintf("(%d, NImage %s %s)", cc.id(d), cfg, lib.CoqList(ls)))
		}
	}
	ids := func(l []string) string {
		var o []string
		for _, d := range l {
			o = append(o, fmt.Sprint(cc.id(d)))
		}
		return lib.CoqList(o)
	}
	obs := "None"
	if okObs {
		obs = "(Some " + lib.CoqList(evs) + ")"
	}
	return fmt.Sprintf("CImp %s %s %s %s %s %d (%s) %s %s %s", lib.CoqList(es), lib.CoqBool(layoutOK), lib.CoqList(idx), lib.CoqList(cont), lib.CoqList(dk),
		cc.id(sha(nil)), sel, ids(bp), ids(mp), obs)
}

// ---------- one case ----------
type runOut struct {
	terms []string
}

func runCase(c Case, tmp string, res *lib.Result) (ret []string) {
	defer res.Recover(c)
	return runCaseRaw(c, tmp, res)
}

func runCaseRaw(c Case, tmp string, res *lib.Result) []string {
	gzMembers = c.GzMulti
	dir, _ := os.MkdirTemp(tmp, "c09-")
	defer os.RemoveAll(dir)
	r := lib.NewRand(c.Seed)
	ctx, cancel := context.WithTimeout(context.Background(), 60*time.Second)
	defer cancel()
	w := newWorld(c.Validate)
	if c.Kind == "docker" {
		return runDocker(ctx, c, r, w, res)
	}
	uniq := fmt.Sprintf("x%x", c.Seed&0xffff)
	g := genGraph(r, uniq, c.XGraph)
	if c.Special == "unknown-mt-entry" {
		g = &imgen.Graph{}
		l1 := g.Blob([]byte(uniq+"-l1"), imgen.MTLayer)
		cfg := g.Blob([]byte(`{"architecture":"amd64","os":"linux","rootfs":{"type":"layers","diff_ids":[]}}`), imgen.MTConfig)
		im := g.Image(false, cfg, []*imgen.Node{l1}, nil, nil, uniq)
		data := g.Blob([]byte(uniq+"-attached-data"), "application/vnd.example.data")
		g.Root = g.Index(false, []*imgen.Node{im, data}, uniq)
	}
	g.Load(w.src, "proj/app", "v1")
	srcName := "src.example/proj/app:v1"
	if c.SrcDir {
		sd := filepath.Join(dir, "src")
		sr, _ := ref.New(srcName)
		dr, _ := ref.New("ocidir://" + sd + ":v1")
		if err := w.rc.ImageCopy(ctx, sr, dr); err != nil {
			res.Count("setup-copy-failed")
			return nil
		}
		srcName = "ocidir://" + sd + ":v1"
		if c.Corrupt {
			// damage one blob of the image in place: the export has to fail, or at least never write those bytes under the digest
			clo := imgen.Closure(g.Root, false)
			for _, d := range imgen.SortedDigests(clo) {
				n := clo[d]
				if n.Kind != "blob" || len(n.Body) < 3 {
					continue
				}
				i := strings.IndexByte(d, ':')
				bad := append([]byte(nil), n.Body...)
				bad[len(bad)/2] ^= 0x20
				_ = os.WriteFile(filepath.Join(sd, "blobs", d[:i], d[i+1:]), bad, 0o644)
				break
			}
		}
	}
	if c.Pinned && !c.ExpRef {
		srcName += "@" + g.Root.Digest
	}
	srcRef, _ := ref.New(srcName)
	// ---- export ----
	var opts []regclient.ImageOpts
	if c.Gzip {
		opts = append(opts, regclient.ImageWithExportCompress())
	}
	wantTag, wantName := "v1", ""
	if c.ExpRef {
		en := "registry.example.org/other/name:exported"
		if c.Pinned {
			en += "@" + g.Root.Digest
		}
		er, _ := ref.New(en)
		opts = append(opts, regclient.ImageWithExportRef(er))
		wantTag, wantName = "exported", en
	}
	var buf bytes.Buffer
	if err := w.rc.ImageExport(ctx, srcRef, &buf, opts...); err != nil {
		if c.Corrupt && c.SrcDir {
			res.Count("export:refused-damaged-source")
			return nil
		}
		res.Fail("export-failed", fmt.Sprintf("ImageExport of a complete image (%s root) failed: %v", g.Root.Kind, err), c)
		return nil
	}
	raw := buf.Bytes()
	if c.Gzip != (len(raw) > 2 && raw[0] == 0x1f && raw[1] == 0x8b) {
		res.Fail("export-compression", fmt.Sprintf("compression requested=%v but the stream says otherwise", c.Gzip), c)
		return nil
	}
	ents, err := readTar(raw)
	if err != nil {
		res.Fail("export-not-a-tar", err.Error(), c)
		return nil
	}
	if msg := checkArchive(ents, g, wantTag, wantName); msg != "" {
		res.Fail("archive-invalid", msg, c)
		return nil
	}
	if c.Corrupt && c.SrcDir {
		res.Count("export:damaged-source-exported") // possible only when the damaged blob is not part of what was exported
		return nil
	}
	res.Count("export:" + g.Root.Kind)
	var terms []string
	// the order in which the export wrote the digests, for the model of the export walk
	{
		cc := &coqCtx{ids: map[string]int{}}
		var order []string
		contents := map[string][]byte{}
		for _, e := range ents {
			if e.Type == tar.TypeReg && strings.HasPrefix(e.Name, "blobs/sha256/") {
				d := "sha256:" + strings.TrimPrefix(e.Name, "blobs/sha256/")
				order = append(order, fmt.Sprint(cc.id(d)))
				contents[d] = e.Data
			}
		}
		var cont []string
		for _, d := range lib.SortedKeys(contents) {
			n := classify(contents[d])
			switch n.kind {
			case "index":
				var ch []string
				for _, x := range n.children {
					ch = append(ch, fmt.Sprintf("(%d, %s)", cc.id(x.Digest), clsOf(x.MT)))
				}
				cont = append(cont, fmt.Sprintf("(%d, NIndex %s)", cc.id(d), lib.CoqList(ch)))
			case "image":
				cfg := "None"
				if n.children[0].Digest != "" {
					cfg = fmt.Sprintf("(Some %d)", cc.id(n.children[0].Digest))
				}
				var ls []string
				for _, x := range n.children[1:] {
					ls = append(ls, fmt.Sprint(cc.id(x.Digest)))
				}
				cont = append(cont, fmt.Sprintf("(%d, NImage %s %s)", cc.id(d), cfg, lib.CoqList(ls)))
			}
		}
		terms = append(terms, fmt.Sprintf("CExp %s %d %s", lib.CoqList(cont), cc.id(g.Root.Digest), lib.CoqList(order)))
		// the Docker RepoTags entry against the reference model (Proofs/C09t.v: repo_tag), when the export reference is a registry reference
		if (g.Root.Kind == "image" || g.Root.Kind == "artifact") && (c.ExpRef || !c.SrcDir) {
			refText := srcName
			if c.ExpRef {
				refText = wantName
			}
			for _, e := range ents {
				if e.Name != "manifest.json" {
					continue
				}
				var dm []struct{ RepoTags []string }
				if json.Unmarshal(e.Data, &dm) == nil && len(dm) == 1 && len(dm[0].RepoTags) == 1 {
					terms = append(terms, fmt.Sprintf("CTag %s%%string %s%%string", lib.CoqStr(refText), lib.CoqStr(dm[0].RepoTags[0])))
				}
			}
		}
	}
	// ---- transform ----
	expectOK := true
	removed := ""
	if c.Kind == "perm" || c.Kind == "incomplete" {
		ents = transform(ents, c, r, g, &removed)
		raw = writeTar(ents, c.Gzip)
		if c.Kind == "incomplete" {
			expectOK = false
		}
	}
	// ---- import ----
	tgtDir := ""
	tgtName := "tgt.example/" + tgtRepo
	if c.TgtDir {
		tgtDir = filepath.Join(dir, "tgt")
		tgtName = "ocidir://" + tgtDir
	}
	var bp, mp []string
	if !c.TgtDir && c.Prepop > 0 {
		clo := imgen.Closure(g.Root, false)
		for _, d := range imgen.SortedDigests(clo) {
			if n := clo[d]; n.Kind == "blob" && r.Intn(100) < c.Prepop {
				w.tgt.PutBlob(tgtRepo, n.Body)
				bp = append(bp, d)
			}
		}
	}
	if c.Stale && c.Sel != "digest" {
		sg := &imgen.Graph{}
		sl := sg.Blob([]byte(uniq+"-stale-layer"), imgen.MTLayer)
		scfg := sg.Blob([]byte(`{"architecture":"amd64","os":"linux","config":{"Labels":{"stale":"yes"}},"rootfs":{"type":"layers","diff_ids":[]}}`), imgen.MTConfig)
		sg.Root = sg.Image(false, scfg, []*imgen.Node{sl}, nil, nil, uniq+"-stale")
		sg.Load(w.src, "proj/stale", "v1")
		sr, _ := ref.New("src.example/proj/stale:v1")
		tr, _ := ref.New(tgtName + ":imported")
		if err := w.rc.ImageCopy(ctx, sr, tr); err != nil {
			res.Count("setup-stale-failed")
			return terms
		}
		if !c.TgtDir {
			bp = append(bp, sl.Digest, scfg.Digest)
			mp = append(mp, sg.Root.Digest)
		}
	}
	var iopts []regclient.ImageOpts
	sel := ""
	cc := &coqCtx{ids: map[string]int{}}
	switch c.Sel {
	case "digest":
		tgtName += "@" + g.Root.Digest
		sel = fmt.Sprintf("SelDigest %d", cc.id(g.Root.Digest))
	case "name":
		tgtName += ":imported"
		iopts = append(iopts, regclient.ImageWithImportName(wantTag))
		sel = fmt.Sprintf("SelName %d", cc.id("ref:"+wantTag))
	default:
		tgtName += ":imported"
		sel = fmt.Sprintf("SelTag %d", cc.id("ref:imported"))
	}
	tgtRef, _ := ref.New(tgtName)
	w.rt.Log = nil
	err = w.rc.ImageImport(ctx, tgtRef, bytes.NewReader(raw), iopts...)
	res.Count(fmt.Sprintf("import:%s:ok=%v", c.Kind, err == nil))
	if os.Getenv("C09_DEBUG") != "" {
		for _, n := range g.Nodes {
			fmt.Printf("NODE %s %s %s children=%d\n", n.Digest[7:15], n.Kind, n.MT, len(n.Children))
			if n.Kind != "blob" {
				fmt.Printf("   %s\n", n.Body)
			}
		}
		for _, e := range ents {
			fmt.Printf("ENT %c %s -> %s (%d)\n", e.Type, e.Name, e.Link, len(e.Data))
		}
		for _, rec := range w.rt.Records() {
			if rec.Host == "tgt.example" {
				fmt.Printf("REQ %s %s ?%s %d\n", rec.Method, rec.Path, rec.Query, rec.Status)
			}
		}
		fmt.Println("ERR", err)
	}
	if !c.TgtDir {
		var evs []string
		for _, e := range w.events() {
			switch e.K {
			case "blob":
				evs = append(evs, fmt.Sprintf("EvBlob %d", cc.id(e.D)))
			case "put":
				if c.Sel == "digest" && e.D == g.Root.Digest && len(evs) > 0 && strings.HasPrefix(evs[len(evs)-1], "EvPut "+fmt.Sprint(cc.id(e.D))) {
					evs = append(evs, fmt.Sprintf("EvTag %d", cc.id(e.D)))
				} else {
					evs = append(evs, fmt.Sprintf("EvPut %d", cc.id(e.D)))
				}
			case "tag":
				evs = append(evs, fmt.Sprintf("EvTag %d", cc.id(e.D)))
			}
		}
		terms = append(terms, coqImport(ents, sel, bp, mp, err == nil, evs, cc))
	}
	has, tagOf := targetHas(w, tgtDir)
	if expectOK {
		if err != nil {
			res.Fail("import-failed kind="+c.Kind+linkSig(c), fmt.Sprintf("ImageImport of a complete archive failed: %v", err), c)
			return terms
		}
		if c.Sel != "digest" {
			if got := tagOf("imported"); got != g.Root.Digest {
				res.Fail("import-digest-differs", fmt.Sprintf("tag at the target is %q, the exported image is %s", got, g.Root.Digest), c)
				return terms
			}
		}
		clo := imgen.Closure(g.Root, false)
		for _, d := range imgen.SortedDigests(clo) {
			b, ok := has(d)
			if !ok {
				res.Fail("import-incomplete", fmt.Sprintf("after a successful import the target lacks %s (%s)", d, clo[d].Kind), c)
				return terms
			}
			if !bytes.Equal(b, clo[d].Body) {
				res.Fail("import-content-differs", "content of "+d+" differs at the target", c)
				return terms
			}
		}
		if c.Validate && !c.TgtDir {
			for _, p := range w.tgt.Puts {
				if len(p.Missing) > 0 {
					res.Fail("import-parent-before-child", fmt.Sprintf("manifest %s was pushed before %v", p.Digest, p.Missing), c)
					return terms
				}
			}
		}
	} else {
		if err == nil {
			res.Fail("import-of-incomplete-archive-succeeded", "the archive lacks "+removed+" yet ImageImport reported success", c)
			return terms
		}
		if got := tagOf("imported"); got != "" {
			res.Fail("incomplete-import-set-tag", "the archive lacks "+removed+" and the import failed, yet the tag was set", c)
		}
	}
	return terms
}

func linkSig(c Case) string {
	switch c.Links {
	case 1:
		return " links=sym"
	case 2:
		return " links=hard"
	case 3:
		return " links=both"
	}
	return ""
}

// transform rewrites the entry list: order, links, duplicates, removal
func transform(ents []Ent, c Case, r *lib.Rand, g *imgen.Graph, removed *string) []Ent {
	var files, dirs []Ent
	for _, e := range ents {
		if e.Type == tar.TypeDir {
			dirs = append(dirs, e)
		} else {
			files = append(files, e)
		}
	}
	if c.Kind == "incomplete" {
		var cand []int
		for i, e := range files {
			if strings.HasPrefix(e.Name, "blobs/") {
				cand = append(cand, i)
			}
		}
		k := lib.Pick(r, cand)
		*removed = files[k].Name
		files = append(files[:k:k], files[k+1:]...)
		// drop manifest.json too: the Docker fall-back is a different import
		var f2 []Ent
		for _, e := range files {
			if e.Name != "manifest.json" {
				f2 = append(f2, e)
			}
		}
		files = f2
	}
	if c.Links != 0 {
		var out []Ent
		n := 0
		for _, e := range files {
			if !strings.HasPrefix(e.Name, "blobs/") || !r.Chance(45) {
				out = append(out, e)
				continue
			}
			n++
			kind := c.Links
			if kind == 3 {
				kind = 1 + r.Intn(2)
			}
			var store, link Ent
			switch r.Intn(3) {
			case 0: // same directory
				store = Ent{Name: fmt.Sprintf("blobs/sha256/data-%d", n), Type: tar.TypeReg, Data: e.Data}
				if kind == 1 {
					link = Ent{Name: e.Name, Type: tar.TypeSymlink, Link: fmt.Sprintf("data-%d", n)}
				} else {
					link = Ent{Name: e.Name, Type: tar.TypeLink, Link: store.Name}
				}
			case 1: // another directory
				store = Ent{Name: fmt.Sprintf("store/obj-%d", n), Type: tar.TypeReg, Data: e.Data}
				if kind == 1 {
					link = Ent{Name: e.Name, Type: tar.TypeSymlink, Link: fmt.Sprintf("../../store/obj-%d", n)}
				} else {
					link = Ent{Name: e.Name, Type: tar.TypeLink, Link: store.Name}
				}
			default: // archive root
				store = Ent{Name: fmt.Sprintf("obj-%d", n), Type: tar.TypeReg, Data: e.Data}
				if kind == 1 {
					link = Ent{Name: e.Name, Type: tar.TypeSymlink, Link: fmt.Sprintf("../../obj-%d", n)}
				} else {
					link = Ent{Name: e.Name, Type: tar.TypeLink, Link: store.Name}
				}
			}
			if r.Bool() {
				out = append(out, store, link)
			} else {
				out = append(out, link, store)
			}
		}
		files = out
	}
	if c.Dup {
		k := r.Intn(len(files))
		if files[k].Type == tar.TypeReg {
			files = append(files, files[k])
		}
	}
	switch c.Shuffle {
	case 1:
		p := r.Perm(len(files))
		out := make([]Ent, len(files))
		for i, j := range p {
			out[i] = files[j]
		}
		files = out
	case 2:
		var a, b []Ent
		for _, e := range files {
			if e.Name == "oci-layout" || e.Name == "index.json" {
				b = append(b, e)
			} else {
				a = append(a, e)
			}
		}
		if r.Bool() {
			b[0], b[len(b)-1] = b[len(b)-1], b[0]
		}
		files = append(a, b...)
	case 3:
		for i, j := 0, len(files)-1; i < j; i, j = i+1, j-1 {
			files[i], files[j] = files[j], files[i]
		}
	}
	if r.Bool() {
		return append(dirs, files...)
	}
	return files
}

// ---------- Docker save-format archives ----------
func gz(b []byte) []byte { return gzParts(b) }
func gunzip(b []byte) []byte {
	if len(b) > 2 && b[0] == 0x1f && b[1] == 0x8b {
		zr, err := gzip.NewReader(bytes.NewReader(b))
		if err != nil {
			return nil
		}
		out, _ := io.ReadAll(zr)
		return out
	}
	return b
}

func runDocker(ctx context.Context, c Case, r *lib.Rand, w *world, res *lib.Result) []string {
	uniq := fmt.Sprintf("d%x", c.Seed&0xffff)
	type img struct {
		cfg    []byte
		layers [][]byte // uncompressed layer content
		tag    string
	}
	var imgs []img
	pool := [][]byte{}
	for i := 0; i < 3+r.Intn(3); i++ {
		pool = append(pool, append([]byte(fmt.Sprintf("%s-layer-%d-", uniq, i)), r.Bytes(20+r.Intn(60))...))
	}
	for k := 0; k < c.Images; k++ {
		im := img{tag: fmt.Sprintf("example.org/app%d:v%d", k, k)}
		nl := 1 + r.Intn(4)
		var diff []string
		for i := 0; i < nl; i++ {
			l := lib.Pick(r, pool) // duplicates within an image happen
			im.layers = append(im.layers, l)
			diff = append(diff, sha(l))
		}
		cb, _ := json.Marshal(map[string]any{"architecture": "amd64", "os": "linux", "config": map[string]any{"Labels": map[string]string{"img": fmt.Sprint(k), "u": uniq}},
			"rootfs": map[string]any{"type": "layers", "diff_ids": diff}})
		im.cfg = cb
		imgs = append(imgs, im)
	}
	var ents []Ent
	var dm []dockerImg
	seenFile := map[string]bool{}
	add := func(e Ent) {
		if !seenFile[e.Name] {
			seenFile[e.Name] = true
			ents = append(ents, e)
		}
	}
	for k, im := range imgs {
		d := dockerImg{RepoTags: []string{im.tag}}
		switch c.Style {
		case "legacy": // <id>/layer.tar, identical content through a symlink to the first directory
			d.Config = strings.TrimPrefix(sha(im.cfg), "sha256:") + ".json"
			add(Ent{Name: d.Config, Type: tar.TypeReg, Data: im.cfg})
			first := map[string]string{}
			for i, l := range im.layers {
				id := strings.TrimPrefix(sha([]byte(fmt.Sprintf("%s-%d-%d", uniq, k, i))), "sha256:")
				add(Ent{Name: id + "/", Type: tar.TypeDir})
				add(Ent{Name: id + "/VERSION", Type: tar.TypeReg, Data: []byte("1.0")})
				add(Ent{Name: id + "/json", Type: tar.TypeReg, Data: []byte("{}")})
				name := id + "/layer.tar"
				data := l
				if c.LayerGz {
					data = gz(l)
				}
				if prev, ok := first[string(l)]; ok {
					add(Ent{Name: name, Type: tar.TypeSymlink, Link: "../" + prev})
				} else {
					first[string(l)] = name
					add(Ent{Name: name, Type: tar.TypeReg, Data: data})
				}
				d.Layers = append(d.Layers, name)
			}
		case "ggcr": // <digest>.tar.gz, one file per distinct layer, repeated in Layers
			d.Config = sha(im.cfg)
			add(Ent{Name: d.Config, Type: tar.TypeReg, Data: im.cfg})
			for _, l := range im.layers {
				data := l
				ext := ".tar"
				if c.LayerGz {
					data = gz(l)
					ext = ".tar.gz"
				}
				name := strings.TrimPrefix(sha(data), "sha256:") + ext
				add(Ent{Name: name, Type: tar.TypeReg, Data: data})
				d.Layers = append(d.Layers, name)
			}
		default: // flat: blobs/sha256/<digest> without an OCI index (containerd-style docker archive)
			d.Config = "blobs/sha256/" + strings.TrimPrefix(sha(im.cfg), "sha256:")
			add(Ent{Name: d.Config, Type: tar.TypeReg, Data: im.cfg})
			for _, l := range im.layers {
				data := l
				if c.LayerGz {
					data = gz(l)
				}
				name := "blobs/sha256/" + strings.TrimPrefix(sha(data), "sha256:")
				add(Ent{Name: name, Type: tar.TypeReg, Data: data})
				d.Layers = append(d.Layers, name)
			}
		}
		dm = append(dm, d)
	}
	mj, _ := json.Marshal(dm)
	man := Ent{Name: "manifest.json", Type: tar.TypeReg, Data: mj}
	repos := Ent{Name: "repositories", Type: tar.TypeReg, Data: []byte("{}")}
	switch c.Shuffle {
	case 0:
		ents = append(ents, man, repos)
	case 1:
		ents = append([]Ent{man, repos}, ents...)
	default:
		ents = append(ents, man, repos)
		p := r.Perm(len(ents))
		out := make([]Ent, len(ents))
		for i, j := range p {
			out[i] = ents[j]
		}
		ents = out
	}
	raw := writeTar(ents, c.Gzip)
	pick := 0
	var iopts []regclient.ImageOpts
	cc := &coqCtx{ids: map[string]int{}}
	sel := fmt.Sprintf("SelTag %d", cc.id("ref:imported"))
	if c.Sel == "name" {
		pick = r.Intn(len(imgs))
		iopts = append(iopts, regclient.ImageWithImportName(imgs[pick].tag))
		sel = fmt.Sprintf("SelName %d", cc.id("ref:"+imgs[pick].tag))
	}
	tgtRef, _ := ref.New("tgt.example/" + tgtRepo + ":imported")
	w.rt.Log = nil
	err := w.rc.ImageImport(ctx, tgtRef, bytes.NewReader(raw), iopts...)
	res.Count(fmt.Sprintf("import:docker:%s:ok=%v", c.Style, err == nil))
	// model events: uploads in order, identified by the archive content they carry
	var terms []string
	{
		byGunzip := map[string]string{} // uncompressed content -> digest of the archive file that holds it
		for _, e := range ents {
			if e.Type == tar.TypeReg {
				byGunzip[string(gunzip(e.Data))] = sha(e.Data)
			}
		}
		w.tgt.Lock()
		rp := w.tgt.Repos[tgtRepo]
		blobs := map[string][]byte{}
		if rp != nil {
			for d, b := range rp.Blobs {
				blobs[d] = b
			}
		}
		w.tgt.Unlock()
		var evs []string
		okTrace := true
		for _, e := range w.events() {
			switch e.K {
			case "blob":
				b := blobs[e.D]
				if src, ok := byGunzip[string(b)]; ok && !(len(b) > 2 && b[0] == 0x1f) {
					evs = append(evs, fmt.Sprintf("EvDConfig %d", cc.id(src)))
				} else if src, ok := byGunzip[string(gunzip(b))]; ok {
					evs = append(evs, fmt.Sprintf("EvDLayer %d", cc.id(src)))
				} else {
					okTrace = false
				}
			case "tag":
				var m struct {
					Config struct{ Digest string }
					Layers []struct{ Digest string }
				}
				w.tgt.Lock()
				_ = json.Unmarshal(rp.Manifests[e.D].Body, &m)
				w.tgt.Unlock()
				cf := "None"
				if src, ok := byGunzip[string(blobs[m.Config.Digest])]; ok {
					cf = fmt.Sprintf("(Some %d)", cc.id(src))
				}
				var ls []string
				for _, l := range m.Layers {
					if src, ok := byGunzip[string(gunzip(blobs[l.Digest]))]; ok && l.Digest != "" {
						ls = append(ls, fmt.Sprintf("(Some %d)", cc.id(src)))
					} else {
						ls = append(ls, "None")
					}
				}
				evs = append(evs, fmt.Sprintf("EvDMan %s %s", cf, lib.CoqList(ls)))
			}
		}
		if okTrace {
			terms = append(terms, coqImport(ents, sel, nil, nil, err == nil, evs, cc))
		} else {
			res.Count("docker:trace-unmapped")
		}
	}
	if err != nil {
		res.Fail("docker-import-failed style="+c.Style, fmt.Sprintf("ImageImport of a Docker-format archive failed: %v", err), c)
		return terms
	}
	// oracle: config and uncompressed layers equal the archive's
	w.tgt.Lock()
	defer w.tgt.Unlock()
	rp := w.tgt.Repos[tgtRepo]
	md := rp.Tags["imported"]
	var m struct {
		MediaType string
		Config    struct{ Digest string }
		Layers    []struct{ Digest string }
	}
	if json.Unmarshal(rp.Manifests[md].Body, &m) != nil {
		res.Fail("docker-import-no-manifest", "the tag does not name a parseable manifest", c)
		return terms
	}
	want := imgs[pick]
	if !bytes.Equal(rp.Blobs[m.Config.Digest], want.cfg) {
		res.Fail("docker-import-config-differs style="+c.Style, "the imported image's config is not the archive's config of the selected image", c)
		return terms
	}
	if len(m.Layers) != len(want.layers) {
		res.Fail("docker-import-layer-count style="+c.Style, fmt.Sprintf("imported image has %d layers, the archive's image %d", len(m.Layers), len(want.layers)), c)
		return terms
	}
	for i, l := range m.Layers {
		b, ok := rp.Blobs[l.Digest]
		if !ok || !bytes.Equal(gunzip(b), want.layers[i]) {
			res.Fail("docker-import-layer-differs style="+c.Style, fmt.Sprintf("layer %d of the imported image (%q) does not decompress to the archive's layer %d", i, l.Digest, i), c)
			return terms
		}
	}
	return terms
}

func genCase(r *lib.Rand) Case {
	c := Case{Seed: r.U64(), XGraph: r.Chance(30)}
	switch k := r.Intn(100); {
	case k < 30:
		c.Kind = "rt"
		c.SrcDir, c.TgtDir, c.Gzip, c.ExpRef = r.Chance(30), r.Chance(35), r.Chance(40), r.Chance(25)
		c.Pinned = r.Chance(30)
		c.Corrupt = c.SrcDir && r.Chance(25)
		c.Sel = lib.Pick(r, []string{"tag", "tag", "digest", "name"})
		c.Validate = r.Chance(50)
		c.Stale = r.Chance(25)
		if r.Chance(30) {
			c.Prepop = 50
		}
	case k < 65:
		c.Kind = "perm"
		c.Gzip, c.TgtDir = r.Chance(20), r.Chance(20)
		c.Links = lib.Pick(r, []int{0, 0, 1, 2, 3})
		c.Shuffle = r.Intn(4)
		c.Dup = r.Chance(20)
		c.Sel = lib.Pick(r, []string{"tag", "tag", "digest"})
		c.Validate = r.Chance(50)
		c.Stale = r.Chance(15)
	case k < 75:
		c.Kind = "incomplete"
		c.Shuffle = r.Intn(4)
		c.TgtDir = r.Chance(30)
		c.Sel = "tag"
	default:
		c.Kind = "docker"
		c.Style = lib.Pick(r, []string{"legacy", "ggcr", "flat"})
		c.LayerGz, c.Gzip = r.Bool(), r.Chance(20)
		c.GzMulti = (c.LayerGz || c.Gzip) && r.Chance(50)
		c.Images = 1 + r.Intn(2)
		c.Shuffle = r.Intn(3)
		c.Sel = "tag"
		if c.Images > 1 || r.Chance(30) {
			c.Sel = "name"
		}
	}
	return c
}

func Run(o lib.Opts) {
	res := lib.NewResult("C09", o.Tier, o.Seed)
	res.Rule = "one splitmix64 stream: 30% round trips (generated graphs as C03 without foreign layers, 30% of all graphs from the extended generator: inline data, OCI artifact manifests as root / index entry, unknown-typed blob entries - schema1 roots excepted, which ImageExport refuses; source registry or layout, target registry - half of them validating that children exist - or layout; gzip, export-name override, import by tag/digest/name, half-prepopulated targets); 35% re-written archives (entries shuffled / reversed / layout and index last, blobs stored elsewhere behind symlinks or hardlinks in three directory relations, duplicate entries); 10% archives with one needed blob removed (must fail, tag not set); 25% Docker save-format archives built by hand (legacy <id>/layer.tar with symlinks for repeated layers, one-file-per-layer with repeated names, flat blobs/ without index; plain or gzip layers; 1-2 images with selection by name); every exported archive is validated independently and its digest order compared with the Coq export walk; every import into a registry is compared with the Coq import machine; non-trivial = re-written, incomplete or Docker archive, or nested index; distinct by case"
	if o.Replay != "" {
		var f struct{ Case Case }
		b, err := os.ReadFile(o.Replay)
		if err == nil {
			err = json.Unmarshal(b, &f)
		}
		if err != nil {
			fmt.Println("replay:", err)
			os.Exit(2)
		}
		runCase(f.Case, os.TempDir(), res)
		for _, fl := range res.Failures {
			fmt.Printf("REPLAY-FAIL %s: %s\n", fl.Sig, fl.Desc)
		}
		if len(res.Failures) == 0 {
			fmt.Println("REPLAY-OK")
		}
		return
	}
	r := lib.NewRand(o.Seed)
	cw := lib.NewCaseWriter(o.Out, "C09", "From Coq Require Import List Arith String.\nFrom Verif Require Import Model.C09_Import Corr.C09.\nImport ListNotations.", "case", 300)
	all := []Case{
		{Kind: "rt", Seed: 21, Special: "unknown-mt-entry", Sel: "tag"},
		{Kind: "docker", Seed: 22, Style: "legacy", Images: 1, Sel: "tag"},
		{Kind: "docker", Seed: 23, Style: "ggcr", Images: 1, Sel: "tag", LayerGz: true},
		{Kind: "docker", Seed: 24, Style: "ggcr", Images: 1, Sel: "tag", LayerGz: true, GzMulti: true},
		{Kind: "docker", Seed: 25, Style: "legacy", Images: 2, Sel: "tag", Gzip: true, GzMulti: true},
		{Kind: "perm", Seed: 24, Links: 2, Sel: "tag"},
		{Kind: "perm", Seed: 25, Links: 1, Sel: "tag", Shuffle: 1},
		{Kind: "rt", Seed: 26, Sel: "tag", Stale: true},
		{Kind: "rt", Seed: 27, Sel: "tag", Stale: true, TgtDir: true},
		// fixed: export from a layout wrote an OCI artifact manifest (unknown media type) as a blob, without what it references
		{Kind: "rt", Seed: 7000, SrcDir: true, Sel: "tag", Validate: true, XGraph: true},
		{Kind: "rt", Seed: 7003, SrcDir: true, Sel: "tag", Validate: true, XGraph: true},
		{Kind: "rt", Seed: 7007, SrcDir: true, Sel: "tag", Validate: true, XGraph: true},
	}
	n := o.Scale(220, 4000)
	for i := 0; i < n; i++ {
		all = append(all, genCase(r))
	}
	seen := lib.Set{}
	for _, c := range all {
		res.Evaluations++
		kb, _ := json.Marshal(c)
		terms := runCase(c, os.TempDir(), res)
		if _, dup := seen[string(kb)]; !dup && c.Kind != "rt" {
			res.Distinct++
		}
		seen.Add(string(kb))
		if o.Mode != "search" {
			for _, t := range terms {
				cw.Add(t, c)
			}
		}
		res.Sample(c, 3)
	}
	cw.Close(res)
	lib.WriteResult(o.Out, res)
}

var _ = sort.Strings
