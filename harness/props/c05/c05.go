// Package c05: a blob upload commits exactly the caller's bytes under their digest, or fails.
// Registry: the chunked upload loop against a model registry whose session is steered by a script
// (accept, early 201, dropped connection after k bytes, relocated URL, monolithic PUT that keeps N bytes and
// fails), PATCH sequence compared with the Coq model; oracle on what the registry committed.  OCI layout:
// declared descriptors right / wrong / partial.
package c05

import (
	"bytes"
	"context"
	"encoding/json"
	"errors"
	"fmt"
	"io"
	"net/http"
	"os"
	"path/filepath"
	"strings"
	"time"

	"github.com/opencontainers/go-digest"
	"github.com/regclient/regclient"
	"github.com/regclient/regclient/config"
	"github.com/regclient/regclient/scheme/reg"
	"github.com/regclient/regclient/types/descriptor"
	"github.com/regclient/regclient/types/errs"
	"github.com/regclient/regclient/types/ref"

	"verifharness/lib"
	"verifharness/memreg"
	"verifharness/memrt"
)

type Act struct {
	K string // accept | early201 | drop | reloc
	N int    `json:",omitempty"`
}
type Case struct {
	Kind     string // chunked | fallback | ocidir | loop416
	Stream   []byte
	Cap      int
	Script   []Act  `json:",omitempty"`
	Declared string `json:",omitempty"` // none | right | wrongdigest | wrongsize | digestonly | digestonly-wrong | sizeonly | sizeonly-wrong
	Alg      string `json:",omitempty"`
	Keep     int    `json:",omitempty"` // fallback: bytes the failed monolithic PUT leaves in the session
	Seekable bool   `json:",omitempty"`
	Empty00  bool   `json:",omitempty"`
	ChunkMin int    `json:",omitempty"`
	Moved    bool   `json:",omitempty"` // the first accepted chunk moves the session to another directory (absolute path); from there every Location is a relative reference
}

type onlyReader struct{ r io.Reader }

func (o onlyReader) Read(p []byte) (int, error) { return o.r.Read(p) }

func mkDesc(c Case) descriptor.Descriptor {
	alg := digest.SHA256
	if c.Alg == "sha512" {
		alg = digest.SHA512
	}
	right := alg.FromBytes(c.Stream)
	wrong := alg.FromBytes(append([]byte("x"), c.Stream...))
	n := int64(len(c.Stream))
	switch c.Declared {
	case "right":
		return descriptor.Descriptor{Digest: right, Size: n}
	case "wrongdigest":
		return descriptor.Descriptor{Digest: wrong, Size: n}
	case "wrongsize":
		return descriptor.Descriptor{Digest: right, Size: n + 1}
	case "digestonly":
		return descriptor.Descriptor{Digest: right}
	case "digestonly-wrong":
		return descriptor.Descriptor{Digest: wrong}
	case "sizeonly":
		return descriptor.Descriptor{Size: n}
	case "sizeonly-wrong":
		return descriptor.Descriptor{Size: n + 2}
	}
	return descriptor.Descriptor{}
}

func classify(err error) int {
	switch {
	case err == nil:
		return 0
	case strings.Contains(err.Error(), "!= bufStart"):
		return 1
	case errors.Is(err, errs.ErrDigestMismatch):
		return 2
	case errors.Is(err, errs.ErrMismatch):
		return 3
	}
	return 0
}

func runReg(c Case, res *lib.Result) (ret string) {
	defer res.Recover(c)
	// the announced minimum is enforced when nothing else is scripted (a resend after a partial store is shorter by design)
	strict := c.ChunkMin > 0
	for _, a := range c.Script {
		if a.K != "accept" {
			strict = false
		}
	}
	mr := memreg.New("reg.example", memreg.Features{EmptyRange00: c.Empty00, ChunkMin: c.ChunkMin, ChunkMinStrict: strict})
	rt := &memrt.RT{}
	si := 0
	resend := false // the next PATCH is reghttp's re-send of a dropped one: the registry handles it untouched
	var plog [][2]int64
	kept := false
	mr.Hook = func(req *http.Request, body []byte, n int) *http.Response {
		isSession := strings.Contains(req.URL.Path, "/blobs/uploads/u")
		if !isSession {
			return nil
		}
		// a registry that refuses every chunk with a status the client cannot recover from (400 / 500) while its session
		// status request keeps answering 204 with an unchanged Range: the upload must give up, not repeat itself for ever
		if (c.Kind == "looprefuse400" || c.Kind == "looprefuse500") && req.Method == "PATCH" {
			plog = append(plog, [2]int64{0, int64(len(body))})
			if len(plog) == 1 || len(plog) > 2000 {
				return nil // the first chunk is stored (the session then reports a Range); let it through at the end so that the run ends
			}
			if c.Kind == "looprefuse400" {
				return memrt.Resp(400, nil, []byte(`{"errors":[{"code":"BLOB_UPLOAD_INVALID"}]}`))
			}
			return memrt.Resp(500, nil, nil)
		}
		if c.Kind == "loop416" && req.Method == "PATCH" {
			plog = append(plog, [2]int64{0, int64(len(body))})
			if len(plog) > 2000 {
				return memrt.Resp(500, nil, nil)
			}
			return memrt.Resp(416, map[string]string{"Location": req.URL.Path, "Range": "0-0"}, nil)
		}
		switch req.Method {
		case "PUT":
			if c.Kind == "fallback" && len(body) > 0 && !kept {
				// monolithic PUT: the registry keeps the first Keep bytes and fails
				kept = true
				id := req.URL.Path[strings.LastIndex(req.URL.Path, "/")+1:]
				mr.Lock()
				if u := mr.Repos["repo"].Uploads[id]; u != nil {
					k := c.Keep
					if k > len(body) {
						k = len(body)
					}
					u.Data = append(u.Data, body[:k]...)
				}
				mr.Unlock()
				return memrt.Resp(413, nil, []byte(`{"errors":[{"code":"SIZE_INVALID"}]}`))
			}
		case "PATCH":
			var s, e int64
			fmt.Sscanf(req.Header.Get("Content-Range"), "%d-%d", &s, &e)
			plog = append(plog, [2]int64{s, int64(len(body))})
			id := req.URL.Path[strings.LastIndex(req.URL.Path, "/")+1:]
			mr.Lock()
			u := mr.Repos["repo"].Uploads[id]
			inOrder := u != nil && int64(len(u.Data)) == s
			mr.Unlock()
			if resend {
				resend = false
				return nil
			}
			if !inOrder || u == nil {
				return nil // the registry answers 416 + Range itself
			}
			var a Act
			if si < len(c.Script) {
				a = c.Script[si]
			} else {
				a = Act{K: "accept"}
			}
			switch a.K {
			case "drop":
				// the connection breaks after the registry stored k bytes; reghttp re-sends the PATCH
				k := a.N
				if k > len(body) {
					k = len(body)
				}
				mr.Lock()
				u.Data = append(u.Data, body[:k]...)
				mr.Unlock()
				si++
				resend = true
				return &http.Response{StatusCode: -1}
			case "early201":
				si++
				mr.Lock()
				u.Data = append(u.Data, body...)
				mr.Unlock()
				return memrt.Resp(201, map[string]string{"Location": req.URL.Path}, nil)
			case "reloc":
				si++
				mr.Lock()
				u.Data = append(u.Data, body...)
				l := len(u.Data)
				mr.Unlock()
				return memrt.Resp(202, map[string]string{"Location": req.URL.Path + fmt.Sprintf("?state=s%d&x=1", n), "Range": fmt.Sprintf("0-%d", l-1)}, nil)
			default:
				si++
				return nil
			}
		}
		return nil
	}
	inner := mr.Handle
	movedActive := false
	rt.Handler = func(req *http.Request, body []byte, n int) *http.Response {
		const up, mv = "/v2/repo/blobs/uploads/", "/v2/repo/blobs/uploads/moved/"
		viaMoved := false
		if c.Moved && strings.HasPrefix(req.URL.Path, up+"u") && movedActive {
			// the session lives in the other directory now
			return memrt.Resp(404, nil, []byte(`{"errors":[{"code":"BLOB_UPLOAD_UNKNOWN"}]}`))
		}
		if c.Moved && strings.HasPrefix(req.URL.Path, mv) {
			r2 := req.Clone(req.Context())
			r2.URL.Path = up + strings.TrimPrefix(req.URL.Path, mv)
			req, viaMoved = r2, true
		}
		rs := inner(req, body, n)
		if rs != nil && rs.StatusCode == -1 {
			return nil
		}
		if rs != nil && c.Moved {
			if l := rs.Header.Get("Location"); strings.HasPrefix(l, up+"u") {
				if viaMoved { // a relative reference, to be resolved against the request it answers
					rs.Header.Set("Location", strings.TrimPrefix(l, up))
				} else if req.Method == "PATCH" && rs.StatusCode == 202 {
					rs.Header.Set("Location", mv+strings.TrimPrefix(l, up))
					movedActive = true
				}
			}
		}
		return rs
	}
	hc := config.Host{Name: "reg.example", Hostname: "reg.example", TLS: config.TLSDisabled, BlobChunk: int64(c.Cap), BlobMax: 1}
	if c.Kind == "fallback" {
		hc.BlobMax = 1 << 20
	}
	rc := regclient.New(regclient.WithConfigHost(hc),
		regclient.WithRegOpts(reg.WithHTTPClient(&http.Client{Transport: rt}), reg.WithDelay(time.Millisecond, 3*time.Millisecond), reg.WithRetryLimit(8)))
	r, _ := ref.New("reg.example/repo:x")
	ctx, cancel := context.WithTimeout(context.Background(), 8*time.Second)
	defer cancel()
	d := mkDesc(c)
	var rdr io.Reader = bytes.NewReader(c.Stream)
	if !c.Seekable {
		rdr = onlyReader{rdr}
	}
	origScript := append([]Act(nil), c.Script...)
	dOut, err := rc.BlobPut(ctx, r, d, rdr)
	c.Script = origScript
	if ctx.Err() != nil {
		res.Fail("upload-did-not-terminate kind="+c.Kind, fmt.Sprintf("BlobPut still running after 8s (%d PATCH requests)", len(plog)), c)
		return ""
	}
	if c.Kind == "looprefuse400" || c.Kind == "looprefuse500" {
		res.Count(c.Kind)
		if len(plog) > 200 {
			res.Fail("upload-repeats-without-progress kind="+c.Kind, fmt.Sprintf("a registry refusing every chunk (status probe 204, Range unchanged) received %d PATCH requests before the upload gave up", len(plog)), c)
		}
		if err == nil && len(plog) <= 2000 {
			res.Fail("committed-bytes-differ kind="+c.Kind, "upload reported success although the registry refused every chunk", c)
		}
		return ""
	}
	if c.Kind == "loop416" {
		res.Count("loop416")
		if len(plog) > 100 {
			res.Fail("upload-repeats-without-progress", fmt.Sprintf("a registry answering every PATCH with 416 + Range 0-0 + Location received %d identical PATCH requests before the upload gave up", len(plog)), c)
		}
		if err == nil {
			res.Fail("committed-bytes-differ kind=loop416", "upload reported success although the registry never stored a byte", c)
		}
		return ""
	}
	alg := "sha256"
	if c.Alg == "sha512" && d.Digest != "" {
		alg = "sha512"
	}
	right := memreg.Digest(alg, c.Stream)
	mr.Lock()
	committed, has := mr.Repos["repo"].Blobs[dOut.Digest.String()]
	declHas := false
	if d.Digest != "" {
		_, declHas = mr.Repos["repo"].Blobs[d.Digest.String()]
	}
	mr.Unlock()
	res.Count(fmt.Sprintf("%s:ok=%v", c.Kind, err == nil))
	if err == nil {
		if !has || !bytes.Equal(committed, c.Stream) || dOut.Digest.String() != right || dOut.Size != int64(len(c.Stream)) {
			res.Fail("committed-bytes-differ kind="+c.Kind, fmt.Sprintf("BlobPut succeeded with %s size %d but the registry holds %d bytes under it (stream %d bytes, digest %s)", dOut.Digest, dOut.Size, len(committed), len(c.Stream), right), c)
		}
	} else {
		mismatch := c.Declared == "wrongdigest" || c.Declared == "wrongsize" || c.Declared == "digestonly-wrong" || c.Declared == "sizeonly-wrong"
		// (a non-seekable source can not be re-read after the failed single-request PUT: that upload may fail)
		if !mismatch && (c.Seekable || c.Kind != "fallback") {
			res.Fail("conforming-upload-failed kind="+c.Kind, fmt.Sprintf("well-formed %d-byte upload (chunk %d, script %v, keep %d) failed against a conforming registry: %v", len(c.Stream), c.Cap, c.Script, c.Keep, err), c)
		}
	}
	if (c.Declared == "wrongdigest" || c.Declared == "digestonly-wrong") && (err == nil || declHas) {
		res.Fail("declared-mismatch-accepted kind="+c.Kind, fmt.Sprintf("declared digest does not match the stream but err=%v, committed under declared=%v", err, declHas), c)
	}
	if (c.Declared == "wrongsize" || c.Declared == "sizeonly-wrong") && err == nil {
		res.Fail("declared-mismatch-accepted kind="+c.Kind, "declared size does not match the stream but the upload succeeded", c)
	}
	// model comparison only for the pure chunked path without the exotic variants; a descriptor of valid
	// form with size <= 1 takes the single-request path (BlobMax cannot be set below 1)
	validDesc := (d.Size > 0 && d.Digest.Validate() == nil) || (d.Size == 0 && d.Digest == digest.SHA256.FromBytes(nil))
	if c.ChunkMin > 0 && strict && c.Kind == "chunked" && len(plog) > 0 {
		// the chunk-size rule (Model/C05_Chunk.v): length of the first PATCH
		return fmt.Sprintf("mkChunk %s %s %s %s", lib.CoqZ(int64(c.Cap)), lib.CoqZ(int64(c.ChunkMin)), lib.CoqZ(int64(len(c.Stream))), lib.CoqZ(plog[0][1]))
	}
	if c.ChunkMin > 0 || c.Empty00 || (c.Kind == "chunked" && validDesc && d.Size <= 1) {
		return ""
	}
	held := []byte{}
	if c.Kind == "fallback" {
		k := c.Keep
		if k > len(c.Stream) {
			k = len(c.Stream)
		}
		held = c.Stream[:k]
		if c.Declared != "right" || !c.Seekable {
			return ""
		}
	}
	var sc, lg []string
	for _, a := range c.Script {
		switch a.K {
		case "drop":
			sc = append(sc, fmt.Sprintf("SDrop %d", a.N))
		case "early201":
			sc = append(sc, "SEarly201")
		case "reloc":
			sc = append(sc, "SReloc")
		default:
			sc = append(sc, "SAccept")
		}
	}
	for _, p := range plog {
		lg = append(lg, fmt.Sprintf("(%s, %s)", lib.CoqZ(p[0]), lib.CoqZ(p[1])))
	}
	decl := "None"
	switch c.Declared {
	case "right", "wrongsize", "digestonly":
		decl = "(Some " + lib.CoqBytes(c.Stream) + ")"
	case "wrongdigest", "digestonly-wrong":
		decl = "(Some " + lib.CoqBytes(append([]byte("x"), c.Stream...)) + ")"
	}
	return fmt.Sprintf("mkCase %s %d %s %s %s %s %s %d %s", lib.CoqBytes(c.Stream), c.Cap, lib.CoqBytes(held), lib.CoqList(sc), decl, lib.CoqZ(d.Size),
		lib.CoqBool(err == nil), classify(err), lib.CoqList(lg))
}

func runOCIDir(c Case, dir string, res *lib.Result) string {
	defer res.Recover(c)
	lay := filepath.Join(dir, "layout-c05")
	_ = os.RemoveAll(lay)
	defer os.RemoveAll(lay)
	rc := regclient.New()
	r, _ := ref.New("ocidir://" + lay + ":x")
	d := mkDesc(c)
	var rdr io.Reader = bytes.NewReader(c.Stream)
	if !c.Seekable {
		rdr = onlyReader{rdr}
	}
	dOut, err := rc.BlobPut(context.Background(), r, d, rdr)
	alg := "sha256"
	if c.Alg == "sha512" && d.Digest != "" {
		alg = "sha512"
	}
	right := memreg.Digest(alg, c.Stream)
	res.Count(fmt.Sprintf("ocidir:%s:ok=%v", c.Declared, err == nil))
	fileOf := func(dg string) ([]byte, bool) {
		i := strings.IndexByte(dg, ':')
		if i < 0 {
			return nil, false
		}
		b, e := os.ReadFile(filepath.Join(lay, "blobs", dg[:i], dg[i+1:]))
		return b, e == nil
	}
	mismatch := strings.HasSuffix(c.Declared, "wrong") || c.Declared == "wrongdigest" || c.Declared == "wrongsize"
	if err == nil {
		b, ok := fileOf(dOut.Digest.String())
		if mismatch {
			res.Fail("declared-mismatch-accepted kind=ocidir declared="+c.Declared, fmt.Sprintf("descriptor %+v does not match the %d-byte stream but BlobPut succeeded", d, len(c.Stream)), c)
		}
		if !ok || !bytes.Equal(b, c.Stream) || dOut.Digest.String() != right || dOut.Size != int64(len(c.Stream)) {
			res.Fail("committed-bytes-differ kind=ocidir", fmt.Sprintf("BlobPut returned %s size %d; file ok=%v len=%d; stream %d bytes digest %s", dOut.Digest, dOut.Size, ok, len(b), len(c.Stream), right), c)
		}
	} else if !mismatch {
		res.Fail("conforming-upload-failed kind=ocidir", fmt.Sprintf("well-formed upload failed: %v", err), c)
	}
	if d.Digest != "" && mismatch {
		if _, ok := fileOf(d.Digest.String()); ok {
			res.Fail("declared-mismatch-committed kind=ocidir", "a file exists under the declared (wrong) digest", c)
		}
	}
	// no temp files may be left behind after a failed put
	_ = filepath.Walk(filepath.Join(lay, "blobs"), func(p string, fi os.FileInfo, e error) error {
		if e == nil && !fi.IsDir() && strings.HasSuffix(p, ".tmp") && err == nil {
			res.Fail("tempfile-left kind=ocidir", "temporary file left after a successful put: "+p, c)
		}
		return nil
	})
	// for the Coq model of the layout put: outcome, and whether a file exists under the digest that names the stream
	decl := "None"
	switch c.Declared {
	case "right", "wrongsize", "digestonly":
		decl = "(Some " + lib.CoqBytes(c.Stream) + ")"
	case "wrongdigest", "digestonly-wrong":
		decl = "(Some " + lib.CoqBytes(append([]byte("x"), c.Stream...)) + ")"
	}
	_, stored := fileOf(right)
	return fmt.Sprintf("mkLayout %s %s %s %s %s", lib.CoqBytes(c.Stream), decl, lib.CoqZ(d.Size), lib.CoqBool(err == nil), lib.CoqBool(stored))
}

func genStream(r *lib.Rand, cp int) []byte {
	ls := []int{0, 1, cp - 1, cp, cp + 1, 2*cp - 1, 2 * cp, 2*cp + 1, 3 * cp, 3*cp + 1, r.Intn(5*cp + 3)}
	n := lib.Pick(r, ls)
	if n < 0 {
		n = 0
	}
	return r.Bytes(n)
}

func genCase(r *lib.Rand) Case {
	cp := 1 + r.Intn(6)
	c := Case{Cap: cp, Stream: genStream(r, cp), Seekable: r.Chance(75), Alg: lib.Pick(r, []string{"sha256", "sha256", "sha512"})}
	decls := []string{"none", "right", "right", "wrongdigest", "wrongsize", "digestonly", "digestonly-wrong", "sizeonly", "sizeonly-wrong"}
	switch k := r.Intn(100); {
	case k < 60:
		c.Kind = "chunked"
		c.Declared = lib.Pick(r, decls)
		for i := r.Intn(6); i > 0; i-- {
			switch r.Intn(10) {
			case 0, 1, 2, 3:
				c.Script = append(c.Script, Act{K: "accept"})
			case 4, 5, 6:
				nd := 0
				for _, a := range c.Script {
					if a.K == "drop" {
						nd++
					}
				}
				if nd < 3 { // fewer transient faults than the retry limit: they must be absorbed
					c.Script = append(c.Script, Act{K: "drop", N: r.Intn(cp + 1)})
				} else {
					c.Script = append(c.Script, Act{K: "accept"})
				}
			case 7, 8:
				c.Script = append(c.Script, Act{K: "reloc"})
			default:
				c.Script = append(c.Script, Act{K: "early201"})
			}
		}
		if r.Chance(12) {
			c.ChunkMin = cp + 1 + r.Intn(3)
			if r.Chance(60) { // nothing else scripted: the registry enforces the minimum it announced
				c.Script = nil
			}
		}
		if r.Chance(8) {
			c.Empty00 = true
		}
	case k < 78:
		c.Kind = "fallback"
		c.Declared = "right"
		c.Keep = lib.Pick(r, []int{0, 1, cp - 1, cp, cp + 1, 2 * cp, 2*cp + 1, 3 * cp, len(c.Stream), r.Intn(len(c.Stream) + 1)})
		if c.Keep < 0 {
			c.Keep = 0
		}
		if len(c.Stream) == 0 {
			c.Stream = r.Bytes(cp + 1)
		}
		for i := r.Intn(3); i > 0; i-- {
			c.Script = append(c.Script, Act{K: lib.Pick(r, []string{"accept", "reloc"})})
		}
	default:
		c.Kind = "ocidir"
		c.Declared = lib.Pick(r, decls)
	}
	c.Moved = (c.Kind == "chunked" || c.Kind == "fallback") && len(c.Stream)%4 == 1
	return c
}

func Run(o lib.Opts) {
	res := lib.NewResult("C05", o.Tier, o.Seed)
	res.Rule = "one splitmix64 stream: blob lengths around every chunk boundary {0,1,c-1,c,c+1,2c-1,2c,2c+1,3c,3c+1,random} for chunk sizes 1-6, descriptors absent/right/wrong digest/wrong size/digest only/size only, sha256/sha512, seekable and plain readers; 60% chunked uploads steered by a script of 0-5 registry actions (accept, connection dropped after k stored bytes, relocated session URL, early 201), 18% monolithic PUT that stores N bytes and fails then falls back to chunks, 22% OCI layout; PATCH sequence compared with the Coq model, committed bytes checked; non-trivial = script or keep or mismatching descriptor; distinct by case"
	if o.Replay != "" {
		var f struct{ Case Case }
		b, err := os.ReadFile(o.Replay)
		if err == nil {
			err = json.Unmarshal(b, &f)
		}
		if err != nil {
			fmt.Println("replay:", err)
			os.Exit(2)
		}
		if f.Case.Kind == "ocidir" {
			runOCIDir(f.Case, os.TempDir(), res)
		} else {
			runReg(f.Case, res)
		}
		for _, fl := range res.Failures {
			fmt.Printf("REPLAY-FAIL %s: %s\n", fl.Sig, fl.Desc)
		}
		if len(res.Failures) == 0 {
			fmt.Println("REPLAY-OK")
		}
		return
	}
	r := lib.NewRand(o.Seed)
	cw := lib.NewCaseWriter(o.Out, "C05", "From Coq Require Import List String ZArith NArith.\nFrom Verif Require Import Base.StrX Model.C05_Upload Corr.C05.\nImport ListNotations.", "case", 500)
	var all []Case
	// fixed corpus: the 416 loop (never-progressing registry) and large keeps
	// fixed: the session already holds the whole stream and the last read is short ("chunkStart != bufStart")
	all = append(all, Case{Kind: "fallback", Cap: 4, Stream: []byte("abcdefghijklm"), Declared: "right", Keep: 13, Seekable: true, Alg: "sha256"})
	all = append(all, Case{Kind: "fallback", Cap: 2, Stream: []byte("abc"), Declared: "right", Keep: 3, Seekable: true, Alg: "sha256"})
	all = append(all, Case{Kind: "fallback", Cap: 4, Stream: bytes.Repeat([]byte("abcdefgh"), 4), Declared: "right", Keep: 13, Seekable: true, Alg: "sha256"})
	all = append(all, Case{Kind: "fallback", Cap: 4, Stream: bytes.Repeat([]byte("abcdefgh"), 4), Declared: "right", Keep: 8, Seekable: true, Alg: "sha256"})
	all = append(all, Case{Kind: "loop416", Cap: 4, Stream: []byte("0123456789abcdef"), Declared: "none", Seekable: true, Alg: "sha256"})
	all = append(all, Case{Kind: "looprefuse400", Cap: 4, Stream: []byte("0123456789abcdef"), Declared: "none", Seekable: true, Alg: "sha256"},
		Case{Kind: "looprefuse500", Cap: 5, Stream: []byte("0123456789abcdefgh"), Declared: "right", Seekable: false, Alg: "sha256"})
	n := o.Scale(700, 25000)
	for i := 0; i < n; i++ {
		all = append(all, genCase(r))
	}
	seen := lib.Set{}
	for _, c := range all {
		res.Evaluations++
		kb, _ := json.Marshal(c)
		if _, dup := seen[string(kb)]; !dup && (len(c.Script) > 0 || c.Keep > 0 || strings.Contains(c.Declared, "wrong")) {
			res.Distinct++
		}
		seen.Add(string(kb))
		term := ""
		if c.Kind == "ocidir" {
			term = runOCIDir(c, o.Out, res)
		} else {
			term = runReg(c, res)
		}
		if o.Mode != "search" && term != "" {
			cw.Add(term, c)
		}
		res.Sample(c, 3)
	}
	cw.Close(res)
	lib.WriteResult(o.Out, res)
}
