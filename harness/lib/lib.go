// Package lib holds what every property harness shares: the PRNG, Coq term emitters,
// the result file written for the orchestrator, and small helpers.
package lib

import (
	"encoding/hex"
	"encoding/json"
	"fmt"
	"os"
	"path/filepath"
	"runtime/debug"
	"sort"
	"strings"
)

// ---------- PRNG: splitmix64; every random choice of a run derives from one seed ----------
type Rand struct{ s uint64 }

func NewRand(seed uint64) *Rand { return &Rand{s: seed} }
func (r *Rand) U64() uint64 {
	r.s += 0x9e3779b97f4a7c15
	z := r.s
	z = (z ^ (z >> 30)) * 0xbf58476d1ce4e5b9
	z = (z ^ (z >> 27)) * 0x94d049bb133111eb
	return z ^ (z >> 31)
}
func (r *Rand) Intn(n int) int {
	if n <= 0 {
		return 0
	}
	return int(r.U64() % uint64(n))
}
func (r *Rand) Bool() bool          { return r.U64()&1 == 1 }
func (r *Rand) Chance(pct int) bool { return r.Intn(100) < pct }
func (r *Rand) Fork() *Rand         { return NewRand(r.U64()) }
func Pick[T any](r *Rand, l []T) T  { return l[r.Intn(len(l))] }
func (r *Rand) Bytes(n int) []byte {
	b := make([]byte, n)
	for i := range b {
		b[i] = byte(r.U64())
	}
	return b
}
func (r *Rand) Perm(n int) []int {
	p := make([]int, n)
	for i := range p {
		p[i] = i
	}
	for i := n - 1; i > 0; i-- {
		j := r.Intn(i + 1)
		p[i], p[j] = p[j], p[i]
	}
	return p
}

// ---------- Coq term emitters ----------
func CoqStr(s string) string {
	ok := true
	for i := 0; i < len(s); i++ {
		c := s[i]
		if c < 0x20 || c > 0x7e || c == '"' {
			ok = false
			break
		}
	}
	if ok {
		return `"` + s + `"`
	}
	return "(hs \"" + hex.EncodeToString([]byte(s)) + "\")"
}
func CoqBytes(b []byte) string { // list N
	if len(b) == 0 {
		return "[]"
	}
	return "(hx \"" + hex.EncodeToString(b) + "\"%string)"
}
func CoqList(items []string) string { return "[" + strings.Join(items, "; ") + "]" }
func CoqStrList(l []string) string {
	it := make([]string, len(l))
	for i, s := range l {
		it[i] = CoqStr(s)
	}
	return CoqList(it)
}
func CoqBool(b bool) string {
	if b {
		return "true"
	}
	return "false"
}
func CoqZ(n int64) string {
	if n < 0 {
		return fmt.Sprintf("(%d)%%Z", n)
	}
	return fmt.Sprintf("%d%%Z", n)
}
func CoqNat(n int) string { return fmt.Sprintf("%d%%nat", n) }
func CoqOpt(present bool, v string) string {
	if !present {
		return "None"
	}
	return "(Some " + v + ")"
}

// ---------- result file ----------
type Failure struct {
	Sig    string `json:"sig"`    // canonical signature matched against known-findings.txt
	Desc   string `json:"desc"`   // human readable
	Case   any    `json:"case"`   // the replayable case
	Replay string `json:"replay"` // path, filled by WriteResult
}
type Result struct {
	Property    string         `json:"property"`
	Tier        string         `json:"tier"`
	Seed        uint64         `json:"seed"`
	Evaluations int            `json:"evaluations"`
	Distinct    int            `json:"distinct_nontrivial"`
	Rule        string         `json:"rule"`
	Samples     []any          `json:"samples"`
	Histogram   map[string]int `json:"histogram"`
	Failures    []Failure      `json:"failures"`
	CaseFiles   []string       `json:"case_files"`
	CasesJSON   string         `json:"cases_json"`
	Notes       []string       `json:"notes"`
	Extra       map[string]any `json:"extra,omitempty"`
}

func NewResult(prop, tier string, seed uint64) *Result {
	return &Result{Property: prop, Tier: tier, Seed: seed, Histogram: map[string]int{}, Extra: map[string]any{}}
}
func (r *Result) Count(k string) { r.Histogram[k]++ }
func (r *Result) Fail(sig, desc string, c any) {
	r.Failures = append(r.Failures, Failure{Sig: sig, Desc: desc, Case: c})
}

// Recover turns a panic of the code under test (in the calling goroutine) into a failure carrying the case, so that
// the check reports the input on which the implementation crashed instead of dying itself.  Use: defer res.Recover(c).
func (r *Result) Recover(c any) {
	if p := recover(); p != nil {
		stack := string(debug.Stack())
		at := ""
		for _, l := range strings.Split(stack, "\n") {
			if strings.Contains(l, "/repo/") {
				at = strings.TrimSpace(l)
				break
			}
		}
		r.Fail("implementation-panicked", fmt.Sprintf("the implementation panicked: %v (%s)", p, at), c)
	}
}
func (r *Result) Sample(c any, max int) {
	if len(r.Samples) < max {
		r.Samples = append(r.Samples, c)
	}
}

// Distinct counting helper
type Set map[string]struct{}

func (s Set) Add(k string) { s[k] = struct{}{} }

// CaseWriter shards Coq case terms into files of at most per cases each.
type CaseWriter struct {
	Dir, Prop, Import string
	Per               int
	Type              string
	cur               []string
	files             []string
	all               []any
}

func NewCaseWriter(dir, prop, imp, typ string, per int) *CaseWriter {
	return &CaseWriter{Dir: dir, Prop: prop, Import: imp, Type: typ, Per: per}
}
func (w *CaseWriter) Add(term string, js any) {
	w.cur = append(w.cur, term)
	w.all = append(w.all, js)
	if len(w.cur) >= w.Per {
		w.flush()
	}
}
func (w *CaseWriter) flush() {
	if len(w.cur) == 0 {
		return
	}
	name := filepath.Join(w.Dir, fmt.Sprintf("cases_%s_%03d.v", w.Prop, len(w.files)))
	var sb strings.Builder
	sb.WriteString("(* generated by the harness from observations of the implementation *)\n")
	sb.WriteString(w.Import + "\n")
	fmt.Fprintf(&sb, "Definition cases : list %s := [\n", w.Type)
	for i, c := range w.cur {
		sb.WriteString("  " + c)
		if i < len(w.cur)-1 {
			sb.WriteString(";")
		}
		sb.WriteString("\n")
	}
	sb.WriteString("].\nDefinition M := Eval vm_compute in mismatches cases.\nPrint M.\n")
	if err := os.WriteFile(name, []byte(sb.String()), 0o644); err != nil {
		panic(err)
	}
	w.files = append(w.files, name)
	w.cur = nil
}
func (w *CaseWriter) Close(res *Result) {
	w.flush()
	res.CaseFiles = w.files
	p := filepath.Join(w.Dir, "cases.json")
	b, _ := json.Marshal(map[string]any{"per": w.Per, "cases": w.all})
	_ = os.WriteFile(p, b, 0o644)
	res.CasesJSON = p
}

func WriteResult(dir string, res *Result) {
	for i := range res.Failures {
		p := filepath.Join(dir, fmt.Sprintf("replay_%03d.json", i))
		b, _ := json.MarshalIndent(map[string]any{"property": res.Property, "sig": res.Failures[i].Sig,
			"desc": res.Failures[i].Desc, "case": res.Failures[i].Case}, "", " ")
		_ = os.WriteFile(p, b, 0o644)
		res.Failures[i].Replay = p
		if i >= 50 {
			break
		}
	}
	b, _ := json.MarshalIndent(res, "", " ")
	if err := os.WriteFile(filepath.Join(dir, "result.json"), b, 0o644); err != nil {
		panic(err)
	}
}

func SortedKeys[V any](m map[string]V) []string {
	k := make([]string, 0, len(m))
	for x := range m {
		k = append(k, x)
	}
	sort.Strings(k)
	return k
}

// Opts are the command-line options common to all property harnesses.
type Opts struct {
	Tier   string
	Seed   uint64
	Out    string
	Replay string
	Mode   string // "run" (cases + oracle) | "search" (oracle only, more cases)
	N      int    // override case count
}

func (o Opts) Scale(quick, thorough int) int {
	if o.N > 0 {
		return o.N
	}
	n := quick
	if o.Tier == "thorough" {
		n = thorough
	}
	if o.Mode == "search" {
		n *= 5
	}
	return n
}

// FindBin locates build/bin/<name> from an output directory inside the build tree (build/Cxx, build/Cxx/search, ...)
func FindBin(outDir, name string) string {
	d, _ := filepath.Abs(outDir)
	for i := 0; i < 6; i++ {
		p := filepath.Join(d, "bin", name)
		if st, err := os.Stat(p); err == nil && !st.IsDir() {
			return p
		}
		d = filepath.Dir(d)
	}
	return filepath.Join(filepath.Dir(outDir), "bin", name)
}
