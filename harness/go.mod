module verifharness

go 1.22

require (
	github.com/opencontainers/go-digest v1.0.0
	github.com/regclient/regclient v0.0.0
)

replace github.com/regclient/regclient => /repo
