module verifharness

go 1.22

require (
	github.com/klauspost/compress v1.18.0
	github.com/opencontainers/go-digest v1.0.0
	github.com/regclient/regclient v0.0.0
)

require (
	github.com/docker/libtrust v0.0.0-20160708172513-aabc10ec26b7 // indirect
	github.com/sirupsen/logrus v1.9.3 // indirect
	github.com/ulikunitz/xz v0.5.12 // indirect
	golang.org/x/sys v0.30.0 // indirect
)

replace github.com/regclient/regclient => /repo
