(* Props/C13.v — C13 property theorems only. *)
From Coq Require Import List Arith Bool.
From Verif Require Import Model.C13_Mod Proofs.C13.
Import ListNotations.

(* for EVERY list of per-layer marks (any mix of unchanged, added, replaced and deleted entries at any positions), every
   history with empty-layer entries anywhere, whenever the input is aligned (one (layer, diff_id) pair and one
   non-empty history entry per original layer) the rewriting succeeds and its output is aligned again: one pair and one
   non-empty history entry per kept layer *)
Theorem C13_rewrite_aligned : forall es lds hs, length lds = originals es -> nonempty hs = originals es ->
  exists o h, rew es lds hs = Some (o, h) /\ length o = kept es /\ nonempty h = kept es.
Proof. exact rew_aligned. Qed.
Print Assumptions C13_rewrite_aligned.

(* and each kept layer travels with the right diff_id: its own when unchanged, the recomputed one when replaced or added;
   a deleted layer takes its diff_id with it - so diff_id k is the uncompressed digest of layer k afterwards if it was before *)
Theorem C13_layer_diffid_pairs : forall es lds hs o h, rew es lds hs = Some (o, h) -> o = spec_pairs es lds.
Proof. exact rew_pairs. Qed.
Print Assumptions C13_layer_diffid_pairs.

(* options that change nothing: all marks unchanged gives back the input *)
Theorem C13_noop_identity : forall lds hs, length lds = nonempty hs ->
  forall es, es = map (fun _ => mkE MUnchanged 0 0) lds -> exists h, rew es lds hs = Some (lds, h) /\ map h_id h = map h_id hs.
Proof.
  induction lds as [|[l d] lds IH]; intros hs Hl es ->; cbn [map rew].
  - exists hs. auto.
  - pose proof (span_empty_spec hs) as Hs. destruct (span_empty hs) as [pre rest]. destruct Hs as (Heq & Hpre & Hrest). cbn [e_mark].
    destruct rest as [|hc rest']; [exfalso; rewrite Heq, nonempty_app, Hpre in Hl; cbn in Hl; discriminate|].
    assert (Hn : nonempty (hc :: rest') = S (nonempty rest')) by (unfold nonempty; cbn; rewrite Hrest; reflexivity).
    destruct (IH rest' ltac:(rewrite Heq, nonempty_app, Hpre, Hn in Hl; cbn in Hl; congruence) _ eq_refl) as (h & Hr & Hh).
    rewrite Hr. exists (pre ++ hc :: h). split; [reflexivity|]. rewrite Heq, !map_app. cbn. now rewrite Hh.
Qed.
Print Assumptions C13_noop_identity.

(* the data field of an index entry: the repaired code embeds the child's bytes; the code before the repair embedded the
   index's own bytes, which differ from the child's whenever they are different manifests *)
Theorem C13_entry_data : forall index_bytes child_bytes, entry_data index_bytes child_bytes true = child_bytes /\
  (index_bytes <> child_bytes -> entry_data index_bytes child_bytes false <> child_bytes).
Proof. intros. split; [reflexivity|cbn; auto]. Qed.

Example C13_nonvacuous :
  let hs := [mkHi true 200; mkHi false 1; mkHi false 2; mkHi true 202; mkHi false 3; mkHi true 300] in
  rew [mkE MUnchanged 0 0; mkE MDeleted 0 0; mkE MReplaced 30 31; mkE MAdded 40 41] [(1, 11); (2, 12); (3, 13)] hs
  = Some ([(1, 11); (30, 31); (40, 41)], [mkHi true 200; mkHi false 1; mkHi true 202; mkHi false 3; mkHi true 300; NEW_HISTORY]).
Proof. reflexivity. Qed.

(* rebase (mod/manifest.go rebaseAddStep, Model/C13_Rebase.v): for EVERY image, old base and new base over arbitrary layer,
   diff_id and history values and every equality test on them: when the rebase goes through, an aligned image stays aligned
   (as many diff_ids as layers, as many non-empty history entries as layers) and every layer keeps its own diff_id - the new
   base's pairs followed by the image's pairs beyond the old base.  Cutting the history by the NEW base's length instead of
   the old one's (a one-identifier slip) is refuted as soon as the two bases differ in history length. *)
From Verif Require Import Model.C13_Rebase Proofs.C13r.
Theorem C13_rebase_aligned : forall (L D H : Type) leqb deqb heqb (i old new r : img L D H),
  aligned L D H i -> rebase L D H leqb deqb heqb i old new = Some r -> aligned L D H r.
Proof. exact rebase_aligned. Qed.
Print Assumptions C13_rebase_aligned.
Theorem C13_rebase_pairs : forall (L D H : Type) leqb deqb heqb (i old new r : img L D H),
  rebase L D H leqb deqb heqb i old new = Some r ->
  combine (layers _ _ _ r) (diffids _ _ _ r) =
  combine (layers _ _ _ new) (diffids _ _ _ new) ++ skipn (length (layers _ _ _ old)) (combine (layers _ _ _ i) (diffids _ _ _ i)).
Proof. exact rebase_pairs. Qed.
Print Assumptions C13_rebase_pairs.
Theorem C13_rebase_cut_by_new_length_refuted : exists (i old new r : img nat nat nat),
  aligned nat nat nat i /\ rebase_newlen nat nat nat Nat.eqb Nat.eqb Nat.eqb i old new = Some r /\ ~ aligned nat nat nat r.
Proof. exact rebase_newlen_refuted. Qed.
Print Assumptions C13_rebase_cut_by_new_length_refuted.
Example C13_rebase_nonvacuous :
  rebase nat nat nat Nat.eqb Nat.eqb Nat.eqb (mkImg _ _ _ [1; 2; 9] [11; 12; 19] [(false, 1); (true, 7); (false, 2); (false, 9)])
         (mkImg _ _ _ [1; 2] [11; 12] [(false, 1); (true, 7); (false, 2)]) (mkImg _ _ _ [5] [15] [(false, 5)])
  = Some (mkImg _ _ _ [5; 9] [15; 19] [(false, 5); (false, 9)]).
Proof. reflexivity. Qed.
