(* Props/C17.v — C17 property theorems only (single throttle; AcquireMulti is covered by these per queue,
   its loop structure is exercised on the implementation — see DESIGN.md C17). *)
From Coq Require Import List Arith Bool Permutation.
From Verif Require Import Model.C17_PQueue Proofs.C17.
Import ListNotations.

(* every reachable state, for every number of goroutines, every interleaving of their critical sections,
   every answer of the priority function: never more holders than the limit *)
Theorem C17_bound : forall m es s, run (init m) es = Some s -> length (active s) <= qmax s.
Proof. intros m es s H. now destruct (run_inv es _ _ (init_inv m) H) as (_ & _ & ? & _). Qed.
Print Assumptions C17_bound.

(* somebody waits only while the throttle is full *)
Theorem C17_waiting_only_when_full : forall m es s, run (init m) es = Some s ->
  queued s <> [] -> length (active s) = qmax s.
Proof. intros m es s H. now destruct (run_inv es _ _ (init_inv m) H) as (_ & _ & _ & ?). Qed.
Print Assumptions C17_waiting_only_when_full.

(* when all holders have finished nobody is left waiting *)
Theorem C17_quiescent_none_waiting : forall m es s, run (init m) es = Some s -> active s = [] -> queued s = [].
Proof.
  intros m es s H Ha. destruct (run_inv es _ _ (init_inv m) H) as (Hm & _ & _ & Hf).
  destruct (queued s) as [|w ws] eqn:E; [reflexivity|]. specialize (Hf ltac:(discriminate)). rewrite Ha in Hf. cbn in Hf. rewrite <- Hf in Hm. inversion Hm.
Qed.
Print Assumptions C17_quiescent_none_waiting.

(* a release by a holder while somebody waits hands the slot to exactly one waiter: no slot is lost *)
Theorem C17_release_wakes_exactly_one : forall m es s x pick s' w, run (init m) es = Some s ->
  In x (active s) -> queued s <> [] -> release s x pick = (s', w) ->
  exists v, w = Some v /\ In v (queued s) /\ length (active s') = qmax s' /\ S (length (queued s')) = length (queued s).
Proof.
  intros m es s x pick s' w H Hx Hq Hr.
  destruct (release_inv _ _ _ _ _ (run_inv es _ _ (init_inv m) H) Hx Hr) as (_ & _ & Hw & _). now apply Hw.
Qed.
Print Assumptions C17_release_wakes_exactly_one.

(* a waiter that gives up (removed itself, or was handed the slot concurrently and passes it on) is in
   neither list afterwards and the invariant - hence all the statements above - continues to hold *)
Theorem C17_cancel_clean : forall m es s x pick, run (init m) es = Some s -> enabled s (Cancel x pick) = true ->
  let s' := fst (step s (Cancel x pick)) in ~ In x (active s' ++ queued s') /\ Inv s'.
Proof. intros m es s x pick H He. apply cancel_clean; [exact (run_inv es _ _ (init_inv m) H)|exact He]. Qed.
Print Assumptions C17_cancel_clean.

(* progress: whenever somebody waits there is a holder whose release is enabled *)
Theorem C17_waiter_implies_holder : forall m es s, run (init m) es = Some s -> queued s <> [] ->
  exists x, In x (active s) /\ enabled s (Rel x 0) = true.
Proof.
  intros m es s H Hq. destruct (run_inv es _ _ (init_inv m) H) as (Hm & _ & _ & Hf). specialize (Hf Hq).
  destruct (active s) as [|x a] eqn:E; [cbn in Hf; rewrite <- Hf in Hm; inversion Hm|].
  exists x. split; [now left|]. cbn. rewrite E. cbn. now rewrite Nat.eqb_refl.
Qed.
Print Assumptions C17_waiter_implies_holder.

(* AcquireMulti, one attempt over any number of queues, any queue waited on, any availability of the others: a failed
   attempt gives back exactly the slots it had taken, each once - so nothing is held while it waits again and no slot
   is lost or released twice; it then waits on a queue that could not be had, not on the one just waited on; a
   successful attempt holds every queue exactly once *)
Theorem C17_multi_backoff_exact : forall n lockI try acq k, lockI < n -> attempt n lockI try = (acq, Some k) ->
  Permutation (cleanup lockI k) acq /\ k < n /\ k <> lockI /\ try k = false.
Proof. intros n lockI try acq k Hl H. split; [now apply (backoff_releases_exactly n lockI try)|now apply (backoff_target n lockI try acq)]. Qed.
Print Assumptions C17_multi_backoff_exact.
Theorem C17_multi_success_all : forall n lockI try acq, lockI < n -> attempt n lockI try = (acq, None) -> Permutation acq (seq 0 n).
Proof. exact success_holds_all. Qed.
Print Assumptions C17_multi_success_all.
(* a cleanup that forgets the slot of the queue it waited on when the failed index is lower is refuted *)
Theorem C17_multi_forgetful_refuted : exists n lockI try acq k, lockI < n /\ attempt n lockI try = (acq, Some k) /\ ~ Permutation (cleanup_forgetful lockI k) acq.
Proof. exact forgetful_leaks. Qed.

Example C17_nonvacuous :
  run (init 2) [Acq 1; Acq 2; Acq 3; TryAcq 4; Acq 5; Rel 1 7; Cancel 3 0; Cancel 5 0; Rel 2 0]
  = Some (mkQ 2 [] []).
Proof. reflexivity. Qed.
