(* Props/C17.v — C17 property theorems only: the single throttle, one attempt of AcquireMulti, and the composed
   system of any number of AcquireMulti callers over any number of throttles (Model/C17_Multi.v). *)
From Coq Require Import List Arith Bool Permutation.
From Verif Require Import Model.C17_PQueue Model.C17_Multi Proofs.C17 Proofs.C17m.
Import ListNotations.

(* every reachable state, for every number of goroutines, every interleaving of their critical sections,
   every answer of the priority function: never more holders than the limit *)
Theorem C17_bound : forall m es s, run (init m) es = Some s -> length (active s) <= qmax s.
Proof. intros m es s H. now destruct (run_inv es _ _ (init_inv m) H) as (_ & _ & ? & _). Qed.
Print Assumptions C17_bound.

(* somebody waits only while the throttle is full *)
Theorem C17_waiting_only_when_full : forall m es s, run (init m) es = Some s ->
  queued s <> [] -> length (active s) = qmax s.
Proof. intros m es s H. now destruct (run_inv es _ _ (init_inv m) H) as (_ & _ & _ & ?). Qed.
Print Assumptions C17_waiting_only_when_full.

(* when all holders have finished nobody is left waiting *)
Theorem C17_quiescent_none_waiting : forall m es s, run (init m) es = Some s -> active s = [] -> queued s = [].
Proof.
  intros m es s H Ha. destruct (run_inv es _ _ (init_inv m) H) as (Hm & _ & _ & Hf).
  destruct (queued s) as [|w ws] eqn:E; [reflexivity|]. specialize (Hf ltac:(discriminate)). rewrite Ha in Hf. cbn in Hf. rewrite <- Hf in Hm. inversion Hm.
Qed.
Print Assumptions C17_quiescent_none_waiting.

(* a release by a holder while somebody waits hands the slot to exactly one waiter: no slot is lost *)
Theorem C17_release_wakes_exactly_one : forall m es s x pick s' w, run (init m) es = Some s ->
  In x (active s) -> queued s <> [] -> release s x pick = (s', w) ->
  exists v, w = Some v /\ In v (queued s) /\ length (active s') = qmax s' /\ S (length (queued s')) = length (queued s).
Proof.
  intros m es s x pick s' w H Hx Hq Hr.
  destruct (release_inv _ _ _ _ _ (run_inv es _ _ (init_inv m) H) Hx Hr) as (_ & _ & Hw & _). now apply Hw.
Qed.
Print Assumptions C17_release_wakes_exactly_one.

(* a waiter that gives up (removed itself, or was handed the slot concurrently and passes it on) is in
   neither list afterwards and the invariant - hence all the statements above - continues to hold *)
Theorem C17_cancel_clean : forall m es s x pick, run (init m) es = Some s -> enabled s (Cancel x pick) = true ->
  let s' := fst (step s (Cancel x pick)) in ~ In x (active s' ++ queued s') /\ Inv s'.
Proof. intros m es s x pick H He. apply cancel_clean; [exact (run_inv es _ _ (init_inv m) H)|exact He]. Qed.
Print Assumptions C17_cancel_clean.

(* progress: whenever somebody waits there is a holder whose release is enabled *)
Theorem C17_waiter_implies_holder : forall m es s, run (init m) es = Some s -> queued s <> [] ->
  exists x, In x (active s) /\ enabled s (Rel x 0) = true.
Proof.
  intros m es s H Hq. destruct (run_inv es _ _ (init_inv m) H) as (Hm & _ & _ & Hf). specialize (Hf Hq).
  destruct (active s) as [|x a] eqn:E; [cbn in Hf; rewrite <- Hf in Hm; inversion Hm|].
  exists x. split; [now left|]. cbn. rewrite E. cbn. now rewrite Nat.eqb_refl.
Qed.
Print Assumptions C17_waiter_implies_holder.

(* AcquireMulti, one attempt over any number of queues, any queue waited on, any availability of the others: a failed
   attempt gives back exactly the slots it had taken, each once - so nothing is held while it waits again and no slot
   is lost or released twice; it then waits on a queue that could not be had, not on the one just waited on; a
   successful attempt holds every queue exactly once *)
Theorem C17_multi_backoff_exact : forall n lockI try acq k, lockI < n -> attempt n lockI try = (acq, Some k) ->
  Permutation (cleanup lockI k) acq /\ k < n /\ k <> lockI /\ try k = false.
Proof. intros n lockI try acq k Hl H. split; [now apply (backoff_releases_exactly n lockI try)|now apply (backoff_target n lockI try acq)]. Qed.
Print Assumptions C17_multi_backoff_exact.
Theorem C17_multi_success_all : forall n lockI try acq, lockI < n -> attempt n lockI try = (acq, None) -> Permutation acq (seq 0 n).
Proof. exact success_holds_all. Qed.
Print Assumptions C17_multi_success_all.
(* a cleanup that forgets the slot of the queue it waited on when the failed index is lower is refuted *)
Theorem C17_multi_forgetful_refuted : exists n lockI try acq k, lockI < n /\ attempt n lockI try = (acq, Some k) /\ ~ Permutation (cleanup_forgetful lockI k) acq.
Proof. exact forgetful_leaks. Qed.

(* ---------- the composed system: any number of throttles with any limits, any number of callers of AcquireMulti with
   any overlapping (duplicate-free, as AcquireMulti makes them) queue lists, every schedule of their critical sections,
   every answer of the priority function ---------- *)
Definition reachable (maxes : list nat) (wants : list (list nat)) (s : sys) : Prop :=
  Forall (@NoDup nat) wants /\ exists sch, crun (init_sys maxes wants) sch = Some s.
Lemma reachable_inv maxes wants s : reachable maxes wants s -> GInv s.
Proof. intros [Hw [sch H]]. eapply crun_inv; [apply init_sys_inv; exact Hw|exact H]. Qed.

(* never more holders than the limit, on any throttle *)
Theorem C17_multi_bound : forall maxes wants s k, reachable maxes wants s -> length (active (qs s k)) <= qmax (qs s k).
Proof. intros maxes wants s k H. apply bound_everywhere. eapply reachable_inv; exact H. Qed.
Print Assumptions C17_multi_bound.

(* no hold-and-wait: a caller that waits on a throttle holds no slot of any throttle *)
Theorem C17_multi_no_hold_and_wait : forall maxes wants s x k, reachable maxes wants s ->
  In x (queued (qs s k)) -> forall j, ~ In x (active (qs s j)).
Proof. intros maxes wants s x k H. apply no_hold_and_wait. eapply reachable_inv; exact H. Qed.
Print Assumptions C17_multi_no_hold_and_wait.

(* no deadlock: as long as some caller has not finished, some caller can take its next step - whatever the overlap
   of the requested sets *)
Theorem C17_multi_deadlock_free : forall maxes wants s, reachable maxes wants s ->
  (exists x, st (cs s x) <> CDone) -> exists y, cstep s y 0 <> None.
Proof. intros maxes wants s H. apply deadlock_free. eapply reachable_inv; exact H. Qed.
Print Assumptions C17_multi_deadlock_free.

(* no slot is lost: when every caller has finished, every throttle is empty; and a caller whose AcquireMulti has
   returned holds a slot of every throttle it asked for *)
Theorem C17_multi_all_done_empty : forall maxes wants s, reachable maxes wants s ->
  (forall x, st (cs s x) = CDone) -> forall k, active (qs s k) = [] /\ queued (qs s k) = [].
Proof. intros maxes wants s H. apply all_done_empty. eapply reachable_inv; exact H. Qed.
Print Assumptions C17_multi_all_done_empty.
Theorem C17_multi_hold_means_all : forall maxes wants s x, reachable maxes wants s ->
  st (cs s x) = CHold -> forall k, In k (want (cs s x)) -> In x (active (qs s k)).
Proof. intros maxes wants s x H. apply hold_means_all. eapply reachable_inv; exact H. Qed.
Print Assumptions C17_multi_hold_means_all.

(* completion is NOT unconditional: two throttles with one slot each, caller 0 asking for [0;1] and caller 1 for
   [1;0]; under the schedule ll_pre followed by any number of rounds of ll_cyc - in which both callers move seven
   times per round - neither AcquireMulti ever returns (both are back where they started, each holding its first
   throttle).  Completion for all callers therefore rests on the scheduler not repeating this pattern for ever; the
   harness checks completion under the Go scheduler, the theorems above give the part that holds for every schedule *)
Theorem C17_multi_completion_needs_scheduler : forall n, exists s,
  crun ll_s0 (ll_pre ++ rounds n) = Some s /\ st (cs s 0) = CTry 0 0 [0] /\ st (cs s 1) = CTry 0 0 [0].
Proof.
  intro n. destruct (livelock_schedule n) as (s & Hr & [_ Hc]). exists s. split; [exact Hr|]. now rewrite !Hc.
Qed.
Print Assumptions C17_multi_completion_needs_scheduler.

Example C17_nonvacuous :
  run (init 2) [Acq 1; Acq 2; Acq 3; TryAcq 4; Acq 5; Rel 1 7; Cancel 3 0; Cancel 5 0; Rel 2 0]
  = Some (mkQ 2 [] []).
Proof. reflexivity. Qed.

(* non-vacuity of the composed system: the same two callers and throttles under another schedule - caller 0 backs
   off and waits, caller 1 gets both, finishes and hands over, caller 0 gets both: everybody done, throttles empty *)
Example C17_multi_nonvacuous :
  let sch := map (fun x => (x, 0)) [0; 1; 0; 0; 0; 0; 1; 1; 1; 1; 1; 1; 1; 0; 0; 0; 0; 0; 0; 0] in
  option_map (fun s => (map (fun x => st (cs s x)) [0; 1], map (fun k => (active (qs s k), queued (qs s k))) [0; 1]))
             (crun ll_s0 sch) = Some ([CDone; CDone], [([], []); ([], [])]) /\
  option_map (fun s => st (cs s 0)) (crun ll_s0 (firstn 6 sch)) = Some (CWait 1).
Proof. vm_compute. split; reflexivity. Qed.

(* ---- the host throttle as reghttp uses it (Resp.next): generated table Gen/ThrottleSites.v (extract/slots.go, per run) + the
   slot of one response over its life (Model/C17_Resp.v).  The slot of a previous attempt is given back before a new one is
   asked for, and every way out of next after the acquisition hands the slot to the response or gives it back; hence, for every
   sequence of calls of next (first request, resumed reads, seeks; succeeding or failing), a response never waits for a slot
   while holding one, holds at most one, and holds none after a call that failed.  Releasing the previous slot only afterwards,
   or leaving by a way that keeps the slot, are refuted. *)
From Coq Require Import String.
From Verif Require Import Gen.ThrottleSites Model.C17_Resp Proofs.C17r.
Theorem C17_reghttp_previous_slot_released_first : prev_slot_released_before_acquire = true.
Proof. reflexivity. Qed.
Theorem C17_reghttp_every_exit_accounts_for_the_slot : forall e, In e slot_exits -> se_released_or_handed_over e = true.
Proof.
  assert (H : forallb se_released_or_handed_over slot_exits = true) by (vm_compute; reflexivity).
  intros e Hin. rewrite forallb_forall in H. exact (H e Hin).
Qed.
Print Assumptions C17_reghttp_every_exit_accounts_for_the_slot.
Example C17_reghttp_exits_found : 3 <= List.length slot_exits. Proof. vm_compute. repeat constructor. Qed.
Theorem C17_reghttp_response_slot_discipline : forall calls held, held <= 1 ->
  exists h, resp_run prev_slot_released_before_acquire (forallb se_released_or_handed_over slot_exits) held calls = Some h /\ h <= 1 /\
            (forall pre, calls = (pre ++ [false])%list -> h = 0).
Proof.
  replace prev_slot_released_before_acquire with true by reflexivity.
  replace (forallb se_released_or_handed_over slot_exits) with true by (vm_compute; reflexivity).
  exact resp_slot_discipline.
Qed.
Print Assumptions C17_reghttp_response_slot_discipline.
Theorem C17_reghttp_late_release_refuted : resp_run false true 0 [true; true] = None.
Proof. exact late_release_refuted. Qed.
Theorem C17_reghttp_leaking_exit_refuted : resp_run true false 0 [false] = Some 1.
Proof. exact leaking_exit_refuted. Qed.

(* ---- the `parallel` slot of one regsync step (cmd/regsync processRef): generated table Gen/SyncSlots.v (extract/syncslots.go,
   per run): one row per explicit release and per return after the first acquisition, with whether the step holds a slot there
   and whether a deferred release is registered ---- *)
From Coq Require Import String.
From Verif Require Import Gen.SyncSlots Model.C17_Step Proofs.C17s.
Definition sync_row_ok (r : sync_row) : bool :=
  if String.eqb (sr_kind r) "release" then sr_held r else Bool.eqb (sr_held r) (sr_deferred r).
(* every explicit release finds a held slot; every way out of the step either holds a slot and has the deferred release
   registered, or holds nothing and has none registered: each acquisition is released exactly once *)
Theorem C17_regsync_step_releases_once : forall r, In r sync_rows -> sync_row_ok r = true.
Proof.
  assert (H : forallb sync_row_ok sync_rows = true) by (vm_compute; reflexivity).
  rewrite forallb_forall in H. exact H.
Qed.
Print Assumptions C17_regsync_step_releases_once.
Example C17_sync_table_nonvacuous :
  existsb (fun r => String.eqb (sr_kind r) "release") sync_rows = true /\
  existsb (fun r => String.eqb (sr_kind r) "return" && sr_deferred r) sync_rows = true /\
  existsb (fun r => String.eqb (sr_kind r) "return" && negb (sr_held r)) sync_rows = true.
Proof. vm_compute. repeat split. Qed.
(* what the discipline buys: a step whose events alternate acquire / release never frees a slot it does not hold and
   occupies exactly the slot it holds, for every event sequence; a second release (the deferred one after an explicit one)
   frees a slot some other step holds - the throttle's count then no longer bounds the running steps *)
Theorem C17_disciplined_step_exact : forall es, disciplined false es = true ->
  lost (srun es sinit) = 0 /\ in_use (srun es sinit) = (if held (srun es sinit) then 1 else 0).
Proof. exact disciplined_exact. Qed.
Print Assumptions C17_disciplined_step_exact.
Theorem C17_double_release_refuted : lost (srun [SAcq; SRel; SRel] sinit) = 1.
Proof. exact double_release_refuted. Qed.
