(* Props/C09.v — C09 property theorems only. *)
From Coq Require Import List Arith Bool.
From Verif Require Import Model.C09_Import Proofs.C09 Proofs.C09b.
Import ListNotations.

(* export: whatever the graph, the walk writes every digest at most once (a tar with two entries of one name is never produced) *)
Theorem C09_export_each_digest_once : forall fuel content x, NoDup (export fuel content [] x).
Proof. intros. apply export_nodup. constructor. Qed.
Print Assumptions C09_export_each_digest_once.

(* export: for every acyclic graph (rank decreases along the edges, as it must for content-addressed references) in
   which a digest referenced as a plain blob has nothing below it, every digest the image reaches - nested
   manifests at any depth, configs, layers, blob-typed index entries - is written to the archive *)
Theorem C09_export_complete : forall content rank root fuel,
  (forall d k, In k (xkids content d) -> rank (xdig k) < rank d) -> well_typed content -> rank root < fuel ->
  forall d, XReach content root d -> In d (export fuel content [] (XMan root)).
Proof. intros content rank root fuel Hr Hw Hf d HR. eapply export_complete; eauto. Qed.
Print Assumptions C09_export_complete.

(* import, the deferred pushes (repaired code): for every archive, every set of manifests registered for pushing in ANY
   order of discovery and every target state, each manifest list is pushed only when all of its registered nested
   manifests are at the target (pushed earlier in this import or present before); the tag comes from the same list *)
(* the hypothesis of C09_export_complete - whatever is exported as a blob references nothing - is what the export of a
   layout violated before the repair recorded in known-findings.txt: an OCI artifact manifest listed in an index has a
   media type outside the switch of imageExportDescriptor and was written as a blob; the archive then lacks what it
   references.  With the entry classed as the manifest it is (the repaired code asks the source) everything is written *)
Theorem C09_old_artifact_export_refuted :
  let content := fun d => match d with 1 => NIndex [(2, KOther)] | 2 => NImage None [3] | _ => NBlob end in
  export 5 content [] (XMan 1) = [1; 2] /\
  export 5 (fun d => match d with 1 => NIndex [(2, KMan)] | x => content x end) [] (XMan 1) = [1; 2; 3].
Proof. split; reflexivity. Qed.
Print Assumptions C09_old_artifact_export_refuted.

Theorem C09_push_children_first : forall a rank fuel l s s',
  (forall d ch c, content a d = NIndex ch -> In c (map fst ch) -> rank c < rank d) ->
  (forall d, In d (registered l) -> rank d < fuel) ->
  run_fins fuel a l s = inl s' -> exists o, out s' = out s ++ o /\ ord a (registered l) (mpresent s) o = true.
Proof. intros a rank fuel l s s' Hr Hf H. eapply push_children_first; eauto. Qed.
Print Assumptions C09_push_children_first.

(* the code before the repair pushed strictly in reverse order of discovery: refuted on the order in which the export
   itself writes a nested index with a shared child (root 1 -> lists 2, 3; 2 -> images 4, 5; 3 -> images 5, 6) *)
Theorem C09_old_push_order_refuted : exists a l s s', run_fins_old l s = inl s' /\ ord a (registered l) (mpresent s) (out s') = false.
Proof.
  exists (mkArch [] true [] (fun d => match d with 1 => NIndex [(2, KMan); (3, KMan)] | 2 => NIndex [(4, KMan); (5, KMan)] | 3 => NIndex [(5, KMan); (6, KMan)] | _ => NImage None [] end) [] 0).
  exists (rev [FTag 1; FPush 1 false; FPush 2 true; FPush 4 true; FPush 5 true; FPush 3 true; FPush 6 true]).
  exists (mkSt [] [] [] [] [] [] [] false true true false [1] None []).
  eexists. split; vm_compute; reflexivity.
Qed.

(* a failed read of the archive (an entry that is missing, a blob whose bytes do not have their digest, ...) has pushed
   no manifest and set no tag: the only effects are blob uploads *)
Theorem C09_failed_read_pushes_no_manifest : forall fuel a q s s' e, read_all fuel a q s = Some (inr (s', e)) ->
  exists l, out s' = out s ++ l /\ Forall blob_ev l.
Proof. intros fuel a q s s' e H. apply read_all_ext in H. exact H. Qed.
Print Assumptions C09_failed_read_pushes_no_manifest.

(* import, the multi-pass read: for EVERY order of the entries of a complete OCI-layout archive - files only; the
   marker, index.json with one entry naming the selected manifest, every digest that a present manifest references
   present under its own name with its own content (extra files and repeated entries are allowed), index children
   typed as manifests being manifests - the import succeeds within length+2 passes: no handler ever fails, the re-scans
   terminate, the deferred pushes run, and the very last effect is giving the reference to the selected manifest *)
Theorem C09_import_any_order : forall a q root rname,
  (forall e, In e (entries a) -> exists n c, e = EFile n c) ->
  (forall n c, In (EFile n c) (entries a) -> 3 <= n -> present a n -> c = n) ->
  idx a = [(root, KMan, rname)] -> layout_ok a = true ->
  (exists c, In (EFile 0 c) (entries a)) /\ (exists c, In (EFile 1 c) (entries a)) ->
  3 <= root /\ present a root /\ content a root <> NBlob ->
  (forall d, present a d -> 3 <= d ->
     match content a d with
     | NIndex ch => forall c k, In (c, k) ch -> 3 <= c /\ present a c /\ (k = KMan -> content a c <> NBlob)
     | NImage cfg ls => (forall c, cfg = Some c -> 3 <= c /\ present a c) /\ (forall l, In l ls -> 3 <= l /\ present a l)
     | NBlob => True
     end) ->
  exists evs, import (length (entries a) + 2) a q [] [] = Some (inl (evs ++ [EvTag root])) /\ (forall x, In (EvTag x) evs -> False).
Proof. exact import_complete_archive. Qed.
Print Assumptions C09_import_any_order.

(* ... and what it delivered is complete: for every acyclic complete archive as above (rank decreases from a manifest
   list to its entries) the selected manifest was pushed, and every pushed manifest has each of its references - nested
   manifests, config, layers, blob-typed entries - pushed or uploaded in the same import, before the reference is given *)
Theorem C09_import_delivers_closure : forall a q root rname,
  (forall e, In e (entries a) -> exists n c, e = EFile n c) ->
  (forall n c, In (EFile n c) (entries a) -> 3 <= n -> present a n -> c = n) ->
  idx a = [(root, KMan, rname)] -> layout_ok a = true ->
  (exists c, In (EFile 0 c) (entries a)) /\ (exists c, In (EFile 1 c) (entries a)) ->
  3 <= root /\ present a root /\ content a root <> NBlob ->
  (forall d, present a d -> 3 <= d ->
     match content a d with
     | NIndex ch => forall c k, In (c, k) ch -> 3 <= c /\ present a c /\ (k = KMan -> content a c <> NBlob)
     | NImage cfg ls => (forall c, cfg = Some c -> 3 <= c /\ present a c) /\ (forall l, In l ls -> 3 <= l /\ present a l)
     | NBlob => True
     end) ->
  forall rank : nat -> nat,
  (forall d ch c, content a d = NIndex ch -> In c (map fst ch) -> rank c < rank d) ->
  (forall d, present a d -> rank d < length (entries a) + 2) ->
  exists evs, import (length (entries a) + 2) a q [] [] = Some (inl (evs ++ [EvTag root])) /\
    In (EvPut root) evs /\ (forall d, In (EvPut d) evs -> forall c, child a d c -> In (EvPut c) evs \/ In (EvBlob c) evs).
Proof. exact import_delivers_closure. Qed.
Print Assumptions C09_import_delivers_closure.

(* the handler of a blob-typed index entry: the code before the repair handed over a drained reader and failed for
   every non-empty blob the target lacks; the repaired code uploads it *)
Theorem C09_blob_entry_handler : forall a q s d child, memn d (bpresent s) = false -> d <> empty_id a ->
  run_h_gen true a q s (HMan KBlob child d) d = inr EOther /\
  exists s', run_h_gen false a q s (HMan KBlob child d) d = inl s' /\ out s' = out s ++ [EvBlob d].
Proof.
  intros a q s d child Hp Hne. cbn [run_h_gen]. unfold import_blob. rewrite Hp.
  destruct (Nat.eqb_spec d (empty_id a)); [contradiction|]. rewrite Nat.eqb_refl. split; [reflexivity|]. eexists. split; reflexivity.
Qed.
Print Assumptions C09_blob_entry_handler.

(* non-vacuity: a nested index with a shared child, a blob-typed entry (9), entries in an adverse order, the index and
   the layout marker last, one blob behind a link: the import succeeds, uploads every blob, pushes children first *)
From Coq Require Import Ascii.
From Verif Require Import Model.C15_Ref Proofs.C15rt Proofs.C09t.
(* "for a single image also carries a Docker-loadable manifest": the RepoTags entry is the export reference taken as a registry
   reference, its tag set with SetTag (default "latest") and printed.  Over the reference model of C15: for EVERY canonical
   registry reference, whatever tag and digest it carries, the entry contains no '@' (Docker loads name:tag entries only); storing
   the tag by a field assignment, which keeps the digest, is refuted for any reference that carries one *)
Theorem C09_docker_repo_tag_has_no_digest : forall r rc, canon_reg r rc -> alln (ne "@"%char) (repo_tag r) = true.
Proof. exact repo_tag_no_digest. Qed.
Print Assumptions C09_docker_repo_tag_has_no_digest.
Theorem C09_repo_tag_keeping_digest_refuted : exists r rc, canon_reg r rc /\ alln (ne "@"%char) (repo_tag_keep r) = false.
Proof. exact repo_tag_keep_refuted. Qed.
Print Assumptions C09_repo_tag_keeping_digest_refuted.

Example C09_nonvacuous :
  let content := fun d => match d with
                          | 10 => NIndex [(11, KMan); (12, KMan); (9, KBlob)] | 11 => NIndex [(13, KMan); (14, KMan)] | 12 => NIndex [(14, KMan); (15, KMan)]
                          | 13 => NImage (Some 20) [21] | 14 => NImage (Some 20) [22; 21] | 15 => NImage None [23] | _ => NBlob end in
  let a := mkArch [EFile 22 22; EFile 15 15; EFile 14 14; ELnk 21 30; EFile 30 21; EFile 12 12; EFile 23 23; EFile 9 9; EFile 20 20; EFile 13 13; EFile 11 11;
                   EFile 10 10; EFile 1 40; EFile 0 41] true [(10, KMan, 50)] content [] 99 in
  import 20 a (SelTag 51) [] [] =
    Some (inl [EvBlob 9; EvBlob 21; EvBlob 23; EvBlob 20; EvBlob 22; EvPut 13; EvPut 14; EvPut 15; EvPut 11; EvPut 12; EvPut 10; EvTag 10]).
Proof. vm_compute. reflexivity. Qed.
