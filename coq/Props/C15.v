(* Props/C15.v — C15 property theorems only. *)
From Coq Require Import List String Ascii Bool.
From Verif Require Import Base.StrX Model.C15_Ref Proofs.C15.
Import ListNotations.

(* strings outside the grammar are rejected: whatever [parse] accepts has a well-formed tag
   ([a-zA-Z0-9_][a-zA-Z0-9._-]{0,127}), a well-formed digest (algorithm ':' >=32 hex), a known scheme,
   and for registry references a non-empty lower-case repository, a registry and a tag or digest *)
Theorem C15_accepted_obeys_grammar : forall s r, parse s = Some r -> ref_grammar r.
Proof. exact parse_grammar. Qed.
Print Assumptions C15_accepted_obeys_grammar.

(* replacing the tag or digest leaves every other component unchanged *)
Theorem C15_set_tag_frame : forall r t, let r' := set_tag r t in
  scheme r' = scheme r /\ registry r' = registry r /\ repository r' = repository r /\ path r' = path r /\
  tag r' = t /\ digest r' = [].
Proof. exact set_tag_frame. Qed.
Print Assumptions C15_set_tag_frame.
Theorem C15_set_digest_frame : forall r d, let r' := set_digest r d in
  scheme r' = scheme r /\ registry r' = registry r /\ repository r' = repository r /\ path r' = path r /\
  tag r' = [] /\ digest r' = d.
Proof. exact set_digest_frame. Qed.
Print Assumptions C15_set_digest_frame.
Theorem C15_add_digest_frame : forall r d, let r' := add_digest r d in
  scheme r' = scheme r /\ registry r' = registry r /\ repository r' = repository r /\ path r' = path r /\
  tag r' = tag r /\ digest r' = d.
Proof. exact add_digest_frame. Qed.
Print Assumptions C15_add_digest_frame.

(* Docker Hub expansion and rejections on concrete inputs (tests of the model, not universal claims) *)
Definition p (s : string) := option_map (fun r => (to_string (registry r), to_string (repository r), to_string (tag r))) (parse (of_string s)).
Example C15_hub_examples :
  p "alpine" = Some ("docker.io", "library/alpine", "latest")%string /\
  p "index.docker.io/alpine:3" = Some ("docker.io", "library/alpine", "3")%string /\
  p "registry-1.docker.io/user/app" = Some ("docker.io", "user/app", "latest")%string /\
  p "localhost/app" = Some ("localhost", "app", "latest")%string /\
  p "Alpine" = None /\ p "a//b" = None /\ p "a:.x" = None /\ p "a@sha256:abcd" = None /\ p "http://a/b" = None /\ p "localhost:5000" = None.
Proof. vm_compute. repeat split. Qed.
