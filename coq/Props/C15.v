(* Props/C15.v — C15 property theorems only. *)
From Coq Require Import List String Ascii Bool.
From Verif Require Import Base.StrX Model.C15_Ref Proofs.C15 Proofs.C15rt Gen.RefRegex.
Import ListNotations.

(* strings outside the grammar are rejected: whatever [parse] accepts has a well-formed tag
   ([a-zA-Z0-9_][a-zA-Z0-9._-]{0,127}), a well-formed digest (algorithm ':' >=32 hex), a known scheme,
   and for registry references a non-empty lower-case repository, a registry and a tag or digest *)
Theorem C15_accepted_obeys_grammar : forall s r, parse s = Some r -> ref_grammar r.
Proof. exact parse_grammar. Qed.
Print Assumptions C15_accepted_obeys_grammar.

(* replacing the tag or digest leaves every other component unchanged *)
Theorem C15_set_tag_frame : forall r t, let r' := set_tag r t in
  scheme r' = scheme r /\ registry r' = registry r /\ repository r' = repository r /\ path r' = path r /\
  tag r' = t /\ digest r' = [].
Proof. exact set_tag_frame. Qed.
Print Assumptions C15_set_tag_frame.
Theorem C15_set_digest_frame : forall r d, let r' := set_digest r d in
  scheme r' = scheme r /\ registry r' = registry r /\ repository r' = repository r /\ path r' = path r /\
  tag r' = [] /\ digest r' = d.
Proof. exact set_digest_frame. Qed.
Print Assumptions C15_set_digest_frame.
Theorem C15_add_digest_frame : forall r d, let r' := add_digest r d in
  scheme r' = scheme r /\ registry r' = registry r /\ repository r' = repository r /\ path r' = path r /\
  tag r' = tag r /\ digest r' = d.
Proof. exact add_digest_frame. Qed.
Print Assumptions C15_add_digest_frame.

(* the canonical form re-parses to the same components: for EVERY input string the parser accepts, printing the
   parsed reference (CommonName) and parsing that text again gives exactly the same six components *)
Theorem C15_print_reparse_roundtrip : forall s r, parse s = Some r -> parse (print r) = Some r.
Proof. exact parse_print_roundtrip. Qed.
Print Assumptions C15_print_reparse_roundtrip.

(* ... and so does the result of replacing the tag or digest of an accepted reference by a well-formed one:
   the edited reference prints to a string that parses back to exactly the edited components *)
Theorem C15_edit_roundtrip : forall s r, parse s = Some r ->
  (forall t, tag_ok t = true -> parse (print (set_tag r t)) = Some (set_tag r t)) /\
  (forall d, digest_ok d = true -> parse (print (set_digest r d)) = Some (set_digest r d)) /\
  (forall d, digest_ok d = true -> parse (print (add_digest r d)) = Some (add_digest r d)).
Proof. exact edit_roundtrip. Qed.
Print Assumptions C15_edit_roundtrip.

(* what "canonical" means for a registry reference: a registry that is never one of the Docker Hub aliases, a
   repository of lower-case path components (with library/ in front of a one-component Docker Hub name), and a
   tag or a digest *)
Theorem C15_accepted_is_canonical : forall s r, parse s = Some r -> canonical r.
Proof. exact parse_canonical. Qed.
Print Assumptions C15_accepted_is_canonical.

(* Docker Hub expansion and rejections on concrete inputs (tests of the model, not universal claims) *)
Definition p (s : string) := option_map (fun r => (to_string (registry r), to_string (repository r), to_string (tag r))) (parse (of_string s)).
Example C15_hub_examples :
  p "alpine" = Some ("docker.io", "library/alpine", "latest")%string /\
  p "index.docker.io/alpine:3" = Some ("docker.io", "library/alpine", "3")%string /\
  p "registry-1.docker.io/user/app" = Some ("docker.io", "user/app", "latest")%string /\
  p "localhost/app" = Some ("localhost", "app", "latest")%string /\
  p "Alpine" = None /\ p "a//b" = None /\ p "a:.x" = None /\ p "a@sha256:abcd" = None /\ p "http://a/b" = None /\ p "localhost:5000" = None.
Proof. vm_compute. repeat split. Qed.
(* non-vacuity of the round trip: accepted inputs of each shape, with the printed form *)
Definition pp (s : string) := option_map (fun r => to_string (print r)) (parse (of_string s)).
Example C15_roundtrip_examples :
  pp "alpine" = Some "docker.io/library/alpine:latest"%string /\
  pp "registry-1.docker.io/user/app:v1" = Some "docker.io/user/app:v1"%string /\
  pp "localhost:5000/a/b@sha256:0123456789abcdef0123456789abcdef0123456789abcdef0123456789abcdef"
    = Some "localhost:5000/a/b@sha256:0123456789abcdef0123456789abcdef0123456789abcdef0123456789abcdef"%string /\
  pp "ocidir://path/to dir:tag" = Some "ocidir://path/to dir:tag"%string /\
  pp "ocifile://x.tar" = Some "ocifile://x.tar"%string.
Proof. vm_compute. repeat split. Qed.

(* the tie of the hand-written recognisers to the source text: Gen/RefRegex.v is regenerated on every run by the
   translator (extract/refregex.go evaluates the string expressions of the var block of types/ref/ref.go) and must be,
   character for character, the four regular expressions the recognisers of Model/C15_Ref.v were written for *)
Open Scope string_scope.
Example C15_regex_sources_pinned : ref_regex_sources = [
  ("schemeRE", "^([a-z]+)://(.+)$");
  ("registryRE", "^((?:(?:(?:[a-zA-Z0-9](?:[a-zA-Z0-9-]*[a-zA-Z0-9])?)(?:(?:\.(?:[a-zA-Z0-9](?:[a-zA-Z0-9-]*[a-zA-Z0-9])?))+\.?|\.))|(?:(?:[a-zA-Z0-9](?:[a-zA-Z0-9-]*[a-zA-Z0-9])?)(?:\.(?:[a-zA-Z0-9](?:[a-zA-Z0-9-]*[a-zA-Z0-9])?))*\.?:[0-9]+)|(?:[a-zA-Z0-9]*[A-Z][a-zA-Z0-9-]*[a-zA-Z0-9]|[a-zA-Z0-9][a-zA-Z0-9-]*[A-Z][a-zA-Z0-9]*)|localhost(?::[0-9]+)?))$");
  ("refRE", "^(?:((?:(?:(?:[a-zA-Z0-9](?:[a-zA-Z0-9-]*[a-zA-Z0-9])?)(?:(?:\.(?:[a-zA-Z0-9](?:[a-zA-Z0-9-]*[a-zA-Z0-9])?))+\.?|\.))|(?:(?:[a-zA-Z0-9](?:[a-zA-Z0-9-]*[a-zA-Z0-9])?)(?:\.(?:[a-zA-Z0-9](?:[a-zA-Z0-9-]*[a-zA-Z0-9])?))*\.?:[0-9]+)|(?:[a-zA-Z0-9]*[A-Z][a-zA-Z0-9-]*[a-zA-Z0-9]|[a-zA-Z0-9][a-zA-Z0-9-]*[A-Z][a-zA-Z0-9]*)|localhost(?::[0-9]+)?))/)?([a-z0-9]+(?:(?:\.|_|__|-+)[a-z0-9]+)*(?:/[a-z0-9]+(?:(?:\.|_|__|-+)[a-z0-9]+)*)*)(?::([a-zA-Z0-9_][a-zA-Z0-9._-]{0,127}))?(?:@([A-Za-z][A-Za-z0-9]*(?:[-_+.][A-Za-z][A-Za-z0-9]*)*[:][[:xdigit:]]{32,}))?$");
  ("ocidirRE", "^([/a-zA-Z0-9_\-. ~\+]+)(?::([a-zA-Z0-9_][a-zA-Z0-9._-]{0,127}))?(?:@([A-Za-z][A-Za-z0-9]*(?:[-_+.][A-Za-z][A-Za-z0-9]*)*[:][[:xdigit:]]{32,}))?$")
].
Proof. reflexivity. Qed.
