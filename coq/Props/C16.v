(* Props/C16.v — the C16 property theorems and nothing else.  Each is closed by [exact] of a
   lemma from Proofs/C16.v and followed by Print Assumptions. *)
From Coq Require Import List String ZArith Bool.
From Verif Require Import Base.StrX Model.C16_Platform Proofs.C16.
Import ListNotations.
Open Scope string_scope.

(* the entry chosen is one the requested platform can run *)
Theorem C16_result_runnable : forall host dl j, search host dl = Some j ->
  exists r, entry_at dl j = Some r /\ compatible host r = true.
Proof. exact result_runnable. Qed.
Print Assumptions C16_result_runnable.

(* an entry is found whenever a runnable entry exists — for every host, every list *)
Theorem C16_found_if_any : forall host dl x,
  In (Some x) dl -> compatible host x = true -> search host dl <> None.
Proof. exact found_if_any. Qed.
Print Assumptions C16_found_if_any.

(* the scan as it was before the repair recorded in known-findings.txt (every entry, the first
   included, had to beat the zero platform): the claim held only for hosts that name an architecture,
   and failed for a host that gives a variant only *)
Theorem C16_old_scan_found_partial : forall host dl x, arch (normalize host) <> "" ->
  In (Some x) dl -> compatible host x = true -> search_old host dl <> None.
Proof. exact found_if_any_old. Qed.
Print Assumptions C16_old_scan_found_partial.
Theorem C16_old_scan_refuted : exists host dl x,
  In (Some x) dl /\ compatible host x = true /\ search_old host dl = None /\ search host dl = Some 0.
Proof. exact found_if_any_old_refuted. Qed.
Print Assumptions C16_old_scan_refuted.

(* none that the ordering ranks strictly better is passed over — any list length, any strings *)
Theorem C16_none_better_passed_over : forall host dl j r,
  search host dl = Some j -> entry_at dl j = Some r ->
  forall x, In (Some x) dl -> better_n (normalize host) x r = false.
Proof. exact none_better. Qed.
Print Assumptions C16_none_better_passed_over.

(* independent of the listing order: two orders of the same entries give answers that are tied *)
Theorem C16_order_independent : forall host dl dl' j j' r r',
  (forall e, In e dl <-> In e dl') ->
  search host dl = Some j -> entry_at dl j = Some r ->
  search host dl' = Some j' -> entry_at dl' j' = Some r' ->
  better_n (normalize host) r r' = false /\ better_n (normalize host) r' r = false.
Proof. exact order_independent. Qed.
Print Assumptions C16_order_independent.

Theorem C16_found_order_independent : forall host dl dl',
  (forall e, In e dl <-> In e dl') ->
  search host dl <> None -> search host dl' <> None.
Proof. exact found_order_independent. Qed.
Print Assumptions C16_found_order_independent.

(* an exact match is preferred over a merely compatible entry (darwin hosts: Compatible ignores
   feature lists that Match compares; that disjunct is empty when no feature lists are used) *)
Theorem C16_exact_preferred : forall host dl x j r,
  In (Some x) dl -> match_ host x = true ->
  search host dl = Some j -> entry_at dl j = Some r ->
  match_ host r = true \/ ((os (normalize host) =? "darwin") = true /\ feats_eq (normalize host) r = false).
Proof. exact exact_preferred. Qed.
Print Assumptions C16_exact_preferred.

(* the pairwise ordering is a strict partial order *)
Theorem C16_better_transitive : forall h a b c,
  better_n h a b = true -> better_n h b c = true -> better_n h a c = true.
Proof. exact better_trans. Qed.
Print Assumptions C16_better_transitive.
Theorem C16_better_asymmetric : forall h a b, better_n h a b = true -> better_n h b a = false.
Proof. exact better_asym. Qed.
Print Assumptions C16_better_asymmetric.

(* normal form *)
Theorem C16_normalize_idem : forall p, normalize (normalize p) = normalize p.
Proof. exact normalize_idem. Qed.
Print Assumptions C16_normalize_idem.

(* documented aliases map to one canonical value *)
Definition P a v := mkPlat a "linux" "" [] v [].
Theorem C16_aliases :
  normalize (P "x86_64" "") = P "amd64" "" /\ normalize (P "x86-64" "") = P "amd64" "" /\
  normalize (P "amd64" "v1") = P "amd64" "" /\
  normalize (P "aarch64" "") = P "arm64" "" /\ normalize (P "aarch64" "v8") = P "arm64" "" /\
  normalize (P "arm64" "8") = P "arm64" "" /\
  normalize (P "armhf" "") = P "arm" "v7" /\ normalize (P "armel" "") = P "arm" "v6" /\
  normalize (P "arm" "") = P "arm" "v7" /\ normalize (P "arm" "6") = P "arm" "v6" /\
  normalize (P "i386" "") = P "386" "" /\
  normalize (mkPlat "amd64" "macos" "" [] "" []) = mkPlat "amd64" "darwin" "" [] "" [].
Proof. repeat split; reflexivity. Qed.
Print Assumptions C16_aliases.

(* non-vacuity: a concrete non-trivial search meeting the hypotheses above *)
(* Windows and macOS hosts run Linux entries through a VM: for such a (normalised) host, whether a linux entry is runnable is
   what a Linux host of the same architecture and variant could run; the OS version of either side plays no part *)
Theorem C16_vm_hosts_run_linux_as_linux : forall h t,
  (os h = "windows" \/ os h = "darwin") -> os (normalize t) = "linux" ->
  compatible_n h t = compatible_n (set_os h "linux") t.
Proof. exact vm_hosts_run_linux_as_linux. Qed.
Print Assumptions C16_vm_hosts_run_linux_as_linux.

Example C16_nonvacuous :
  let host := P "arm" "v7" in
  let dl := [Some (P "arm" "v5"); None; Some (P "arm64" ""); Some (P "arm" "v7"); Some (P "arm" "v6")] in
  search host dl = Some 3 /\ arch (normalize host) <> "" /\ compatible host (P "arm" "v5") = true /\
  match_ host (P "arm" "v7") = true.
Proof. repeat split; try reflexivity. discriminate. Qed.
