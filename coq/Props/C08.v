(* Props/C08.v — C08 property theorems only. *)
From Coq Require Import List Arith Bool.
From Verif Require Import Model.C08_GC Proofs.C08.
Import ListNotations.

(* safety: for every store (any files, any contents, any graph shape, missing children included), every index and
   every depth k: a file that the index reaches within k steps - a listed manifest, a manifest nested at any depth,
   a config or layer one of those names - is still there after the sweep (fuel >= k: the implementation recurses
   without bound, the model with any fuel that covers the depth) *)
Theorem C08_gc_safe : forall fuel s idx k d, Reach s idx k d -> k <= fuel -> In d (files s) -> In d (sweep fuel s idx).
Proof. intros fuel s idx k d HR Hk Hf. apply sweep_spec. split; [exact Hf|eapply mark_complete; eauto]. Qed.
Print Assumptions C08_gc_safe.

(* collection: whatever survives a sweep was a file before and is reached by the index; so unreachable files
   (stale blobs, leftover temporary files) are removed, and a sweep creates nothing *)
Theorem C08_gc_collects : forall fuel s idx d, In d (sweep fuel s idx) -> In d (files s) /\ exists k, Reach s idx k d.
Proof. intros fuel s idx d H. apply sweep_spec in H as [Hf Hm]. split; [exact Hf|]. apply mark_sound in Hm as (k & _ & HR). now exists k. Qed.
Print Assumptions C08_gc_collects.

(* mark = reach, both directions, at every depth *)
Theorem C08_mark_exact : forall fuel s idx d, In d (mark fuel s idx) <-> exists k, k <= fuel /\ Reach s idx k d.
Proof. intros. split; [apply mark_sound|intros (k & Hk & HR); eapply mark_complete; eauto]. Qed.
Print Assumptions C08_mark_exact.

(* no collection under a copy: for every interleaving of any number of copies (begin = GCLock, writes = refMod,
   end = GCUnlock), other writes and closes in which each copy begins once and writes/ends only while it is
   active, every collection that ran found no copy in progress *)
Theorem C08_no_gc_under_copy : forall t, wf [] [] t = true -> Forall (fun in_progress => in_progress = []) (swept_under (lrun true t)).
Proof. exact no_sweep_under_copy. Qed.
Print Assumptions C08_no_gc_under_copy.

(* with collection disabled nothing is ever swept *)
Theorem C08_gc_off : forall t, swept_under (lrun false t) = [].
Proof. intro t. unfold lrun. now rewrite gc_off_never_sweeps. Qed.
Print Assumptions C08_gc_off.

(* progress: a modified layout with no lock held is collected by the next Close *)
Theorem C08_idle_close_collects : forall s, locks s = 0 -> modified s = true -> swept_under (lstep true s Close) = active s :: swept_under s.
Proof. exact idle_close_sweeps. Qed.
Print Assumptions C08_idle_close_collects.

(* a write that forgot the lock count (refMod replacing the table entry) is refuted: a collection under a copy *)
Definition lstep_reset (s : lst) (e : lev) : lst :=
  match e with CopyWrite _ | OtherWrite => mkL 0 true (active s) (swept_under s) | _ => lstep true s e end.
Theorem C08_reset_on_write_refuted : exists t, wf [] [] t = true /\
  ~ Forall (fun a => a = []) (swept_under (fold_left lstep_reset t (mkL 0 false [] []))).
Proof. exists [CopyBegin 1; CopyWrite 1; Close]. split; [reflexivity|]. cbn. intro H. inversion H as [|? ? H1 _]. discriminate. Qed.

Example C08_nonvacuous :
  let content := fun d => match d with 1 => NIndex [2; 3; 9] | 2 => NIndex [4] | 4 => NImage (Some 5) [6; 7] | 3 => NImage None [6] | _ => NBlob end in
  let s := mkStore [1; 2; 3; 4; 5; 6; 7; 8; 10] content in
  sweep 6 s [1; 11] = [1; 2; 3; 4; 5; 6; 7] /\ Reach s [1; 11] 4 7 /\
  wf [] [] [CopyBegin 1; CopyBegin 2; CopyWrite 1; Close; CopyEnd 1; Close; CopyWrite 2; CopyEnd 2; Close] = true /\
  swept_under (lrun true [CopyBegin 1; CopyBegin 2; CopyWrite 1; Close; CopyEnd 1; Close; CopyWrite 2; CopyEnd 2; Close]) = [[]].
Proof.
  cbv zeta. split; [vm_compute; reflexivity|]. split; [|split; vm_compute; reflexivity].
  right. eapply RB with (p := 4) (cfg := Some 5) (layers := [6; 7]); [|cbn; tauto|reflexivity|cbn; tauto].
  eapply RM_nest with (p := 2) (ch := [4]); [|cbn; tauto|reflexivity|cbn; tauto].
  eapply RM_nest with (p := 1) (ch := [2; 3; 9]); [|cbn; tauto|reflexivity|cbn; tauto].
  constructor. cbn; tauto.
Qed.

(* generated table (translator extract/gclocks.go, regenerated from /repo on every run): what ties the well-formed
   traces of the lock-table theorem to the code.  Every GCLock call of a copy is followed at once by the deferred
   GCUnlock of the same layout (each copy that begins also ends, on every return path), and the statements that touch
   the lock table - under o.mu - are the ones the model transliterates: lock = one more lock or a fresh record with one;
   unlock = one lock fewer, never below zero; a write marks an existing record and keeps its locks; Close returns before
   collecting when the record is absent, unmodified or locked *)
From Coq Require Import String.
From Verif Require Import Gen.GCLockSites.
Open Scope string_scope.
Theorem C08_every_gclock_paired_with_deferred_unlock : forall s, In s gc_lock_sites -> gs_paired s = true.
Proof.
  assert (H : forallb gs_paired gc_lock_sites = true) by (vm_compute; reflexivity).
  intros s Hin. rewrite forallb_forall in H. exact (H s Hin).
Qed.
Print Assumptions C08_every_gclock_paired_with_deferred_unlock.
Example C08_lock_sites_nonempty : 1 <= List.length gc_lock_sites. Proof. vm_compute. repeat constructor. Qed.
Example C08_lock_table_statements_pinned : gc_table_shapes = [
  ("GCLock", "if gc, ok := o.modRefs[r.Path]; ok && gc != nil { gc.locks++ } else { o.modRefs[r.Path] = &ociGC{locks: 1} }");
  ("GCUnlock", "if gc, ok := o.modRefs[r.Path]; ok && gc != nil && gc.locks > 0 { gc.locks-- }");
  ("refMod", "if gc, ok := o.modRefs[r.Path]; ok && gc != nil { gc.mod = true } else { o.modRefs[r.Path] = &ociGC{mod: true} }");
  ("Close", "if gc, ok := o.modRefs[r.Path]; !ok || !gc.mod || gc.locks > 0 { return nil }")
].
Proof. reflexivity. Qed.
