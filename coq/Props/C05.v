(* Props/C05.v — C05 property theorems only. *)
From Coq Require Import List ZArith NArith Bool Arith.
From Verif Require Import Model.C05_Upload Model.C05_Chunk Proofs.C05 Proofs.C05c.
From Verif Require Proofs.Pins05.   (* pinned source conditions: re-checked whenever the source changes *)
Import ListNotations.
Open Scope Z_scope.

(* For EVERY stream, chunk size >= 1, bytes already held by the session (failed single-request PUT), script of
   registry behaviours (accept, connection dropped after any k stored bytes, relocated session, early 201),
   declared descriptor and amount of fuel: if the chunked upload reports success then the registry committed
   exactly the caller's stream, a declared digest named exactly that stream, and a declared size is its length. *)
Theorem C05_commit_exact : forall fuel stream cap held sc declared dsize b lg, (0 < cap)%nat ->
  upload fuel stream cap held sc declared dsize = (Done, Some b, lg) ->
  b = stream /\ (declared <> None -> declared = Some stream) /\ (dsize <> 0 -> dsize = zlen stream).
Proof. exact upload_commit_exact. Qed.
Print Assumptions C05_commit_exact.

(* a declared digest or size that the stream does not match: the upload does not succeed and nothing is committed *)
Theorem C05_declared_mismatch : forall fuel stream cap held sc g dsize, (0 < cap)%nat ->
  (g <> stream \/ (dsize <> 0 /\ dsize <> zlen stream)) ->
  forall b lg, upload fuel stream cap held sc (Some g) dsize <> (Done, Some b, lg).
Proof.
  intros fuel stream cap held sc g dsize Hc Hm b lg H.
  destruct (upload_commit_exact _ _ _ _ _ _ _ _ _ Hc H) as (_ & Hd & Hs).
  destruct Hm as [Hg|[Hz Hl]]; [specialize (Hd ltac:(discriminate)); congruence|auto].
Qed.
Print Assumptions C05_declared_mismatch.

(* nothing is ever committed by a run that does not end in Done *)
Theorem C05_commit_only_on_success : forall fuel stream cap held sc declared dsize o b lg,
  upload fuel stream cap held sc declared dsize = (o, Some b, lg) -> o = Done.
Proof.
  intros fuel stream cap held sc declared dsize o b lg. unfold upload.
  destruct (loop fuel (init stream cap held sc)) as [c o1]. destruct o1; try (intro H; discriminate H).
  destruct (finish declared dsize c); try (intro H; discriminate H).
  destruct (beq (sdata c) (digested c)); intro H; [now injection H as <- _ _|discriminate H].
Qed.
Print Assumptions C05_commit_only_on_success.

(* success against a registry that behaves within the distribution spec: for EVERY stream (any length, empty, a
   multiple of the chunk size or not), every chunk size >= 1, EVERY prefix of the stream already held by the session
   (the fall-back from a failed single-request upload; the whole stream included), every script of in-order PATCH
   answers - accepted, relocated session, early 201, connection dropped after any k stored bytes (answered 416 + Range
   on the re-send) - with no more dropped requests than the retry budget, and a descriptor that is absent or truthful:
   the upload terminates within length+3 iterations, reports success, and the registry has committed exactly the
   stream *)
Theorem C05_spec_conforming_succeeds : forall stream cap held tail sc declared dsize, (0 < cap)%nat ->
  stream = held ++ tail -> (drops sc + (match held with [] => 0 | _ => 1 end) <= retry_limit)%nat ->
  (declared = None \/ declared = Some stream) -> (dsize = 0 \/ dsize = zlen stream) ->
  forall k, exists lg, upload (length stream + 3 + k) stream cap held sc declared dsize = (Done, Some stream, lg).
Proof. exact spec_conforming_succeeds. Qed.
Print Assumptions C05_spec_conforming_succeeds.

(* the special case of a registry that accepts every PATCH *)
Theorem C05_conforming_succeeds : forall stream cap sc declared dsize, (0 < cap)%nat -> accepting sc = true ->
  (declared = None \/ declared = Some stream) -> (dsize = 0 \/ dsize = zlen stream) ->
  exists lg, upload (length stream + 3) stream cap [] sc declared dsize = (Done, Some stream, lg).
Proof. exact conforming_succeeds. Qed.
Print Assumptions C05_conforming_succeeds.

(* the loop as it was before the repair (known-findings.txt): a session that already holds the whole 3-byte stream,
   chunk size 2: the PATCH 0-1 is answered 416 + Range 0-2, the client reads the last byte and then refuses with
   "chunkStart != bufStart" instead of closing the upload; the repaired loop succeeds on the same input *)
Theorem C05_old_loop_refuted :
  snd (loop_old 40 (init [1;2;3]%N 2 [1;2;3]%N [])) = EMismatchOffsets /\
  fst (fst (upload 40 [1;2;3]%N 2 [1;2;3]%N [] None 0)) = Done.
Proof. vm_compute. split; reflexivity. Qed.
Print Assumptions C05_old_loop_refuted.

(* the OCI-layout destination (scheme/ocidir BlobPut): for EVERY stream, descriptor and store - a successful put has
   stored exactly the stream under the digest that names it and reports its length, with a declared digest / size that
   matched; a put that fails leaves the store as it was (nothing under the declared digest or any other); a declared
   digest or size the stream does not match never succeeds; well-formed input always succeeds *)
Theorem C05_layout_commit_exact : forall declared dsize stream store d size store',
  layout_put declared dsize stream store = (LOk d size, store') ->
  d = stream /\ size = zlen stream /\ store' = (stream, stream) :: store /\
  (declared <> None -> declared = Some stream) /\ (0 < dsize -> dsize = zlen stream).
Proof. exact layout_put_exact. Qed.
Print Assumptions C05_layout_commit_exact.
Theorem C05_layout_failure_commits_nothing : forall declared dsize stream store r store',
  layout_put declared dsize stream store = (r, store') -> (forall d n, r <> LOk d n) -> store' = store.
Proof. exact layout_put_fail. Qed.
Print Assumptions C05_layout_failure_commits_nothing.
Theorem C05_layout_declared_mismatch : forall g dsize stream store,
  (g <> stream \/ (0 < dsize /\ dsize <> zlen stream)) -> forall d n, fst (layout_put (Some g) dsize stream store) <> LOk d n.
Proof. exact layout_put_mismatch. Qed.
Print Assumptions C05_layout_declared_mismatch.
Theorem C05_layout_conforming_succeeds : forall declared dsize stream store,
  (declared = None \/ declared = Some stream) -> (dsize <= 0 \/ dsize = zlen stream) ->
  layout_put declared dsize stream store = (LOk stream (zlen stream), (stream, stream) :: store).
Proof. exact layout_put_succeeds. Qed.
Print Assumptions C05_layout_conforming_succeeds.

(* non-vacuity: boundary lengths, partial acknowledgements and a fall-back all reach Done in the model *)
(* "when the destination asks for a different chunk size": the rule both POST sites apply to host.BlobChunk when a registry
   announces OCI-Chunk-Min-Length (Model/C05_Chunk.v).  For every host setting (none, below or above the client default),
   every default and every announced minimum within the client's chunk limit, the buffer the chunked upload allocates is at
   least the announced minimum; the rule never lowers a configured chunk size and never exceeds the limit.  Comparing
   against max(host setting, default) instead (a past "simplification") is refuted: a host configured below the default
   stays under the minimum. *)
Theorem C05_chunk_honours_minimum : forall hc d lim m, (0 < d)%Z -> (m <= lim)%Z -> (m <= buf_size (raise hc d lim m) d)%Z.
Proof. exact chunk_honours_minimum. Qed.
Print Assumptions C05_chunk_honours_minimum.
Theorem C05_chunk_raise_monotone_bounded : forall hc d lim m, (0 < hc)%Z -> (hc <= lim)%Z -> (hc <= raise hc d lim m <= lim)%Z.
Proof. intros. split; [now apply raise_never_lowers|now apply raise_bounded]. Qed.
Print Assumptions C05_chunk_raise_monotone_bounded.
Theorem C05_max_comparison_refuted : exists hc d lim m, (0 < d)%Z /\ (m <= lim)%Z /\ (buf_size (raise_max hc d lim m) d < m)%Z.
Proof. exact raise_max_refuted. Qed.
Print Assumptions C05_max_comparison_refuted.

Example C05_nonvacuous :
  let s := [1;2;3;4;5;6;7;8;9]%N in
  fst (fst (upload 40 s 4 [] [SDrop 1; SAccept; SDrop 4; SReloc] None 0)) = Done /\
  fst (fst (upload 40 s 4 [1;2;3;4;5;6]%N [] (Some s) 9)) = Done /\
  fst (fst (upload 40 s 3 [] [SEarly201] (Some [9]%N) 0)) = EDigest /\
  fst (fst (upload 40 [] 3 [] [] None 0)) = Done /\
  (drops [SDrop 1; SAccept; SDrop 4; SReloc] + 1 <= retry_limit)%nat.
Proof. vm_compute. repeat split; repeat constructor. Qed.
