(* Props/C12.v — C12 property theorems only. *)
From Coq Require Import List String Arith Bool Sorted Permutation ZArith.
From Verif Require Import Gen.StatusClass Gen.ReqSites Model.C12_Retry Model.C12_Backoff Proofs.C12 Proofs.C12b.
From Verif Require Model.C01_Resume Proofs.C01r.
From Verif Require Import Model.C12_Reissue Proofs.C12c.
Import ListNotations.

(* whatever the registry answers (ANY reply sequence, any host set, any classification table): one logical
   request is attempted at most retryLimit + 1 times, counting the attempts it had already used *)
Theorem C12_attempts_bounded : forall fuel limit ignore s replies,
  List.length (fst (next_loop fuel limit ignore s replies)) <= S limit - retry s.
Proof. exact next_loop_bound. Qed.
Print Assumptions C12_attempts_bounded.

(* a response body that ends early is requested again from where it stopped; for ANY registry (any replies to any
   attempt, any Range), any expectation, any backoff count and any caller, the first request of a blob read and all
   its re-requests together number at most retryLimit + 1 *)
Theorem C12_resumed_read_attempts_bounded : forall (byte : Type) srv limit eager expect boff0 bufs r0 s0 l0 (out : list byte) r s' l,
  C01_Resume.open srv limit expect boff0 = (r0, s0, l0) -> C01_Resume.drain srv limit eager s0 bufs = (out, r, s', l) ->
  List.length l0 + List.length l <= limit + 1.
Proof. exact C01r.resumed_read_attempts_bounded. Qed.
Print Assumptions C12_resumed_read_attempts_bounded.

(* ... and over mirrors: however many times the request is re-issued (each pass with any host list, order, position,
   backoff counters and replies - hosts re-sorted, dropped or backing off in between), all passes of one logical request
   together make at most retryLimit + 1 attempts *)
Theorem C12_attempts_bounded_across_reissues : forall passes fuel limit ignore,
  List.length (reissues fuel limit ignore 0 passes) <= limit + 1.
Proof. intros. pose proof (reissues_bound passes fuel limit ignore 0). rewrite Nat.add_1_r, <- Nat.sub_0_r. exact H. Qed.
Print Assumptions C12_attempts_bounded_across_reissues.

(* the host loop terminates: retryLimit + 2 iterations always suffice *)
Theorem C12_next_terminates : forall limit ignore nomirrors mirrors up replies,
  snd (do_request limit ignore nomirrors mirrors up replies) <> OutOfFuel.
Proof. intros. unfold do_request. apply next_loop_fuel. cbn [retry]. rewrite Nat.sub_0_r, Nat.add_comm. cbn. apply Nat.lt_succ_diag_r. Qed.
Print Assumptions C12_next_terminates.

(* every attempt goes to a host of the request; with NoMirrors that is the named registry alone *)
Theorem C12_nomirrors_only_upstream : forall limit ignore mirrors up replies a,
  In a (fst (do_request limit ignore true mirrors up replies)) -> a = h_id up.
Proof. exact nomirrors_only_upstream. Qed.
Print Assumptions C12_nomirrors_only_upstream.

(* generated table (translator): every request literal under scheme/reg whose method changes state
   carries NoMirrors: true *)
Open Scope string_scope.
Definition is_read (m : string) : bool := (m =? "GET") || (m =? "HEAD").
Theorem C12_writes_skip_mirrors : forall s, In s req_sites -> is_read (rs_method s) = false -> rs_nomirrors s = true.
Proof.
  assert (H : forallb (fun s => is_read (rs_method s) || rs_nomirrors s) req_sites = true) by (vm_compute; reflexivity).
  rewrite forallb_forall in H. intros s Hs Hr. specialize (H s Hs). now rewrite Hr in H.
Qed.
Print Assumptions C12_writes_skip_mirrors.
Example C12_table_nonempty : 10 <= List.length (filter (fun s => negb (is_read (rs_method s))) req_sites).
Proof. vm_compute. repeat constructor. Qed.
Close Scope string_scope.

(* transient faults (classified backoff-only by the table extracted from the source) fewer than the limit
   are absorbed: the request still succeeds, after exactly one more attempt than there were faults *)
Theorem C12_transient_absorbed : forall up trs limit, Forall transient trs -> List.length trs < limit ->
  do_request limit false true [] up trs = (repeat (h_id up) (S (List.length trs)), Success (h_id up)).
Proof.
  intros up trs limit Ht Hl. unfold do_request. cbn [app sort_hosts fold_right insert_host].
  apply transient_absorbed_gen; [exact Ht|cbn; exact Hl|cbn; now apply Nat.lt_le_incl|].
  rewrite Nat.add_comm. cbn. apply Nat.lt_lt_succ_r. now apply Nat.lt_lt_succ_r.
Qed.
Print Assumptions C12_transient_absorbed.
(* the transient class really is what the source says: 429, 408, 504, 502, 500 and transport errors *)
Theorem C12_transient_codes :
  Forall (fun c => transient (RStatus c false false)) [429; 408; 504; 502; 500] /\ transient RNet.
Proof. repeat constructor. Qed.
Print Assumptions C12_transient_codes.

(* hosts are offered in the order of a sort by (priority, upstream-last): the result is a permutation of
   the hosts, sorted by host_le.  NOTE host_le orders priorities ASCENDING, as the code does; the
   documentation says highest first - recorded as known finding F-C12a, see C12_priority_direction. *)
Theorem C12_host_order_sorted : forall l, Sorted (fun a b => host_le a b = true) (sort_hosts l) /\ Permutation l (sort_hosts l).
Proof. intro l. split; [apply sort_hosts_sorted|apply sort_hosts_perm]. Qed.
Print Assumptions C12_host_order_sorted.
Theorem C12_upstream_last_among_equals : forall m u, h_prio m = h_prio u -> h_upstream m = false -> h_upstream u = true ->
  sort_hosts [u; m] = [m; u] /\ sort_hosts [m; u] = [m; u].
Proof. intros [mi mp mu] [ui up uu] Hp Hm Hu. cbn in *. subst. unfold sort_hosts. cbn. unfold host_le. cbn. rewrite !Nat.eqb_refl. cbn. auto. Qed.
Print Assumptions C12_upstream_last_among_equals.
(* the documented order (descending priority) is refuted for the comparator as coded *)
Theorem C12_priority_direction_refuted :
  exists lo hi, h_prio lo < h_prio hi /\ sort_hosts [hi; lo] = [lo; hi].
Proof. exists (mkHost 1 1 false), (mkHost 2 10 false). split; [repeat constructor|reflexivity]. Qed.
Print Assumptions C12_priority_direction_refuted.

(* ---------- backing off: the per-host bookkeeping of backoffGet / backoffSet / backoffReset with time ---------- *)
(* for EVERY initial and maximal delay, retry limit and series of requests to one host - sent, failed (with or without
   Retry-After) or answered - whose clock readings are taken after the previous request was sent: a request to a host
   whose backoff count c is positive is sent no earlier than the previous request to that host plus
   min(delayInit * 2^c, delayMax), and never before the clock reading at which it was released *)
Theorem C12_backoff_spacing : forall dinit dmax limit es r,
  clocked dinit dmax limit b0 r es -> spaced dinit dmax limit b0 r es.
Proof. intros dinit dmax limit es r. apply spacing. apply b0_inv. Qed.
Print Assumptions C12_backoff_spacing.

(* the server-requested delay: after a failure carrying Retry-After the next request to the host is sent no earlier
   than the clock reading of that failure plus the requested time, whatever state the host was in *)
Theorem C12_retry_after_respected : forall dinit dmax limit s r now ra now2, (0 <= dinit)%Z -> (0 <= dmax)%Z ->
  Binv s r -> (r <= now)%Z -> (0 < ra)%Z -> (now <= now2)%Z ->
  (now + ra <= snd (bget dinit dmax now2 (fst (bset limit now ra s))))%Z.
Proof. exact retry_after_respected. Qed.
Print Assumptions C12_retry_after_respected.

(* hosts that are currently backing off come after the others: for EVERY host set, priorities and release times, the
   order in which sortHostsCmp offers the hosts is a block of hosts that are not waiting followed by a block of hosts
   whose release time lies in the future *)
Theorem C12_backing_off_hosts_last : forall now l, exists ready waiting_hosts,
  sort_bhosts now l = ready ++ waiting_hosts /\
  Forall (fun h => waiting now h = false) ready /\ Forall (fun h => waiting now h = true) waiting_hosts.
Proof. intros now l. destruct (waiting_hosts_last now l) as (a & b & H). exists a, b. exact H. Qed.
Print Assumptions C12_backing_off_hosts_last.

(* a concrete series (delays 1 and 8, limit 5): requests at 0, released at 2, then (after a slow failure at 50) at 50,
   then at 58 - the spacing is counted from the previous request, NOT from the failure: the third request leaves at the
   very clock reading of the second failure.  A reading of the property that counts the delay from the failure is
   refuted by this run; the reading proved above (and checked on the implementation) is the one the code implements *)
Example C12_backoff_run :
  fst (brun 1 8 5 b0 [EGet 0; EFail 0 0; EGet 0; EFail 50 0; EGet 50; EFail 50 0; EGet 50]%Z)
  = [(0%Z, 0); (2%Z, 1); (50%Z, 2); (58%Z, 3)] /\
  clocked 1 8 5 b0 0 [EGet 0; EFail 0 0; EGet 0; EFail 50 0; EGet 50; EFail 50 0; EGet 50]%Z.
Proof. vm_compute. repeat split; discriminate. Qed.
