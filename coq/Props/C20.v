(* Props/C20.v — C20 property theorems only. *)
From Coq Require Import List String Ascii Bool.
From Verif Require Import Base.StrX Model.C15_Ref Model.C20_Paths Proofs.C20 Gen.DigestPathSites.
Import ListNotations.
Close Scope string_scope.
Open Scope list_scope.

(* Clean("/"+s), for every s (any bytes, any number of ../, NULs, any length): "/" followed by
   components none of which is "", "." or ".." *)
Theorem C20_clean_rooted : forall s, exists cs,
  clean ("/"%char :: s) = "/"%char :: joinc "/" cs /\ forallb safe_comp cs = true /\ forallb (nosep "/") cs = true.
Proof. exact clean_rooted. Qed.
Print Assumptions C20_clean_rooted.

(* filepath.Join(dir, f) for a string f none of whose components is "..": the result is
   Clean(dir)'s components followed by f's kept components — it stays under dir *)
Theorem C20_join_contained : forall dir f, dir <> [] -> f <> [] -> benign_str f = true ->
  join [dir; f] = render (is_rooted dir) (clean_comps (is_rooted dir) (splitc "/" dir) ++ kept f) /\
  forallb safe_comp (kept f) = true.
Proof. intros dir f Hd Hf Hb. split; [now apply join_contained|now apply kept_safe]. Qed.
Print Assumptions C20_join_contained.

(* regctl artifact get: for every title annotation, digest hex, unpack flag and --strip-dirs setting
   the file or directory written is the cleaned output directory extended by safe components *)
Theorem C20_artifact_contained : forall outdir title enc unpack strip, outdir <> [] ->
  exists extra, forallb safe_comp extra = true /\
  d_target (artifact_dest outdir title enc unpack strip) =
    render (is_rooted outdir) (clean_comps (is_rooted outdir) (splitc "/" outdir) ++ extra).
Proof. exact artifact_contained. Qed.
Print Assumptions C20_artifact_contained.

(* archive.Extract: same for every tar entry name *)
Theorem C20_extract_contained : forall dir name, dir <> [] ->
  exists extra, forallb safe_comp extra = true /\
  extract_dest dir name = render (is_rooted dir) (clean_comps (is_rooted dir) (splitc "/" dir) ++ extra).
Proof. exact extract_contained. Qed.
Print Assumptions C20_extract_contained.

(* a digest accepted by Validate yields two path components that are safe and contain no separator *)
Theorem C20_digest_component_safe : forall d a h, digest_valid d = Some (a, h) ->
  safe_comp a = true /\ safe_comp h = true /\ nosep "/" a = true /\ nosep "/" h = true.
Proof. exact digest_valid_safe. Qed.
Print Assumptions C20_digest_component_safe.

(* generated table (translator): every place where a digest becomes a file-name component in
   scheme/ocidir, image.go, cmd/regctl/artifact.go is preceded in the same function by Validate() on the
   same value.  Exempt: the tag-prefix use in imageCopyOpt (not a path) and the body of the helper
   tarOCILayoutDescPath (its call sites are rows of the table). *)
Open Scope string_scope.
Definition exempt (s : dsite) : bool :=
  ((ds_file s =? "image.go") && (ds_func s =? "imageCopyOpt") && (ds_expr s =? "sDig")) ||
  ((ds_file s =? "image.go") && (ds_func s =? "tarOCILayoutDescPath")).
Theorem C20_all_digest_paths_validated :
  forall s, In s digest_path_sites -> ds_validated s = true \/ exempt s = true.
Proof.
  apply Forall_forall.
  assert (H : forallb (fun s => ds_validated s || exempt s) digest_path_sites = true) by (vm_compute; reflexivity).
  rewrite forallb_forall in H. apply Forall_forall. intros s Hs. apply orb_prop. now apply H.
Qed.
Print Assumptions C20_all_digest_paths_validated.
Example C20_table_nonempty : 10 <= List.length digest_path_sites. Proof. vm_compute. repeat constructor. Qed.

(* non-vacuity / sanity on concrete hostile inputs *)
Example C20_examples :
  to_string (d_target (artifact_dest (of_string "out") (of_string "../../etc/passwd") [] false false)) = "out/etc/passwd" /\
  to_string (d_target (artifact_dest (of_string "out") (of_string "../../etc/passwd") [] false true)) = "out/passwd" /\
  to_string (extract_dest (of_string "/x/out") (of_string "../../../a/./../b")) = "/x/out/b" /\
  digest_valid (of_string "sha256:../../../victim") = None.
Proof. vm_compute. repeat split. Qed.
