(* Props/C06.v — C06 property theorems only. *)
From Coq Require Import List String Arith Bool.
From Verif Require Import Base.StrX Model.C06_Tags Model.C06_Loops Proofs.C06 Proofs.C06l Gen.DeleteLoops.
Import ListNotations.
Open Scope string_scope.

(* Refinement: for EVERY finite history of push-by-tag, push-by-digest, child push, tag delete, manifest
   delete, head, get and list (tags being plain: non-empty, no ':'), started from any layout related to a
   map (in particular the empty one), what the layout index reports is what a map from tag to digest plus
   a set of stored manifests reports; listings agree as sets. *)
Theorem C06_layout_refines_map : forall ops l s, R l s -> Forall op_ok ops ->
  Forall2 res_equiv (run l ops) (spec_run s ops).
Proof. exact run_refines. Qed.
Print Assumptions C06_layout_refines_map.

Theorem C06_empty_layout_related : R (mkL [] []) (mkS [] []).
Proof. exact R_empty. Qed.
Print Assumptions C06_empty_layout_related.

(* the index stays a valid index with at most one entry per tag through every operation *)
Theorem C06_index_invariant : forall l s o, R l s -> op_ok o -> wf (l_idx (fst (step l o))).
Proof. intros l s o HR Hok. now destruct (step_refines l s o HR Hok) as [(_ & Hwf & _) _]. Qed.
Print Assumptions C06_index_invariant.

(* deleting a tag removes that tag alone: every other tag resolves as before (ANY layout, also foreign
   ones with duplicate or untagged entries), and no entry of that name is left (ANY layout) *)
Theorem C06_tag_delete_frame : forall idx t r t', t <> "" -> tag_delete idx t = Some r ->
  t' <> "" -> t' <> t -> resolve r t' = resolve idx t'.
Proof.
  intros idx t r t' Ht Hd Ht' Hne. pose proof (tag_delete_spec idx t Ht) as H. rewrite Hd in H.
  destruct H as (_ & _ & Hf & _). now apply Hf.
Qed.
Print Assumptions C06_tag_delete_frame.
Theorem C06_tag_delete_removes_all_entries : forall idx t r e, tag_delete idx t = Some r -> In e r -> is_tag t e = false.
Proof. exact tag_delete_all. Qed.
Print Assumptions C06_tag_delete_removes_all_entries.

(* the loop as written before the repair (range over the slice while deleting from it) did not *)
Theorem C06_old_tag_delete_loop_refuted : exists idx t, In (mkE 2 t) (tag_delete_skip t idx false).
Proof. exact old_loop_refuted. Qed.
Print Assumptions C06_old_tag_delete_loop_refuted.

(* pushing a tag: that tag resolves to that manifest, every other tag is untouched (ANY layout) *)
Theorem C06_push_frame : forall idx t d, t <> "" ->
  resolve (index_set idx t d) t = Some d /\
  (forall t', t' <> "" -> t' <> t -> resolve (index_set idx t d) t' = resolve idx t').
Proof. intros idx t d Ht. destruct (index_set_spec idx t d Ht) as (H1 & H2 & _). now split. Qed.
Print Assumptions C06_push_frame.

(* ... and the lookup the client performs (exact ref.name first, then the full-image-name fallback) finds it: in ANY
   index, also one written by another tool with entries such as "registry.example/app:v1", a tag that was just
   pushed resolves to the manifest that was pushed *)
Theorem C06_push_then_get : forall idx t d, t <> "" -> index_get_tag (index_set idx t d) t = Some d.
Proof. exact push_then_get. Qed.
Print Assumptions C06_push_then_get.
Theorem C06_exact_name_first : forall idx t d, t <> "" -> resolve idx t = Some d -> index_get_tag idx t = Some d.
Proof. exact get_tag_exact_first. Qed.
Print Assumptions C06_exact_name_first.

(* the loops as they are written: TagDelete and ManifestDelete walk index.Manifests from the last index down to 0 and
   delete in place (Model/C06_Loops.v transliterates the indexing and slices.Delete).  For EVERY predicate and EVERY list the
   reverse loop never indexes out of range and leaves exactly the elements that do not match - which is what the model's
   tag_delete / manifest_delete (a filter) compute; the forward variant leaves the second of two adjacent matches.  The
   generated table says that every delete-while-iterating loop of scheme/ocidir is such a reverse loop. *)
Theorem C06_reverse_delete_loop_exact : forall (A : Type) (p : A -> bool) l, rev_delete p l = Some (filter (fun x => negb (p x)) l).
Proof. exact @rev_delete_exact. Qed.
Print Assumptions C06_reverse_delete_loop_exact.
Theorem C06_tag_delete_is_the_loop : forall idx t r, tag_delete idx t = Some r -> rev_delete (is_tag t) idx = Some r.
Proof. intros idx t r H. unfold tag_delete in H. destruct (existsb (is_tag t) idx); [|discriminate]. injection H as <-. apply rev_delete_exact. Qed.
Print Assumptions C06_tag_delete_is_the_loop.
Theorem C06_manifest_delete_is_the_loop : forall idx d, rev_delete (fun e => Nat.eqb (e_dig e) d) idx = Some (manifest_delete idx d).
Proof. intros. apply rev_delete_exact. Qed.
Print Assumptions C06_manifest_delete_is_the_loop.
Theorem C06_forward_delete_loop_refuted : exists (l : list nat), fwd_delete (Nat.eqb 7) l <> filter (fun x => negb (Nat.eqb 7 x)) l.
Proof. exact fwd_delete_refuted. Qed.
Print Assumptions C06_forward_delete_loop_refuted.
Theorem C06_all_delete_loops_reverse : forall x, In x delete_loops -> dl_reverse x = true.
Proof.
  assert (H : forallb dl_reverse delete_loops = true) by (vm_compute; reflexivity).
  intros x Hin. rewrite forallb_forall in H. exact (H x Hin).
Qed.
Print Assumptions C06_all_delete_loops_reverse.
Example C06_delete_loops_found : 2 <= List.length delete_loops. Proof. vm_compute. repeat constructor. Qed.

(* tags accepted by the reference grammar (no ':') are plain *)
Theorem C06_plain_tags : forall t, t <> "" -> no_colon t = true -> plain t.
Proof. exact plain_no_colon. Qed.
Print Assumptions C06_plain_tags.

(* tag listings are complete however the registry pages them *)
Theorem C06_paged_listing_complete : forall pages last, Forall (fun p => snd p = true) pages ->
  follow (pages ++ [(last, false)])%list = (List.concat (map fst pages) ++ last)%list.
Proof. exact follow_complete. Qed.
Print Assumptions C06_paged_listing_complete.

Example C06_nonvacuous :
  run (mkL [] []) [PutTag "a" 1; PutTag "b" 1; PutTag "a" 2; TagDel "b"; Head "a"; Head "b"; ManDel 2; Head "a"; List]
  = [ROk; ROk; ROk; ROk; RDig (Some 2); RDig None; ROk; RDig None; RList []].
Proof. reflexivity. Qed.
