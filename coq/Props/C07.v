(* Props/C07.v — C07 property theorems only. *)
From Coq Require Import List Arith Bool.
From Verif Require Import Model.C07_LayoutFS Proofs.C07.
Import ListNotations.

(* crash safety: for every reference relation, every valid starting layout, every list of file-system
   operations that follows the write discipline (however long: any history of API operations) and EVERY
   crash point k: the directory after the first k operations is a valid layout - marker absent or complete,
   index absent or complete JSON whose every entry's closure is present with matching content, every file
   under a digest name holding exactly that content *)
Theorem C07_crash_safe : forall refs f ops k, valid refs f -> accepted refs f ops = true -> valid refs (apply f (firstn k ops)).
Proof. exact crash_safe. Qed.
Print Assumptions C07_crash_safe.

(* tags change only at the single rename that installs a complete new index: every other operation - and so
   every crash point outside that instant - leaves every tag exactly as it was *)
Theorem C07_index_atomic : forall refs f o f', step refs f o = Some f' -> (forall n, o <> Rename (PTmp n) PIndex) -> f' PIndex = f PIndex.
Proof. exact index_atomic. Qed.
Print Assumptions C07_index_atomic.

(* the blob sequence of the code (temp file, write, rename) is within the discipline *)
Theorem C07_blob_put_accepted : forall refs f n d, f (PTmp n) = None -> accepted refs f (seq_blob_put n d) = true.
Proof. exact replace_blob_accepted. Qed.
Print Assumptions C07_blob_put_accepted.

(* writeIndex as written before the repair (truncate oci-layout, rewrite it, then the index): outside the
   discipline, and the crash state after its first operation is NOT a valid layout *)
Theorem C07_old_write_index_refuted : forall refs f n e, f PLayout = Some [TLayout] ->
  accepted refs f (seq_write_index_old n e) = false /\ ~ valid refs (apply f (firstn 1 (seq_write_index_old n e))).
Proof. intros. split; [apply old_write_index_rejected|now apply old_write_index_crash]. Qed.
Print Assumptions C07_old_write_index_refuted.

Example C07_nonvacuous :
  let refs := fun d => match d with 10 => [1; 2] | _ => [] end in
  let f0 : fs := fun _ => None in
  accepted refs f0 (seq_init 0 ++ seq_blob_put 1 1 ++ seq_blob_put 2 2 ++ seq_blob_put 3 10 ++ seq_write_index 4 [(10, 7)]
                    ++ seq_write_index 5 [] ++ [Unlink (PBlob 10); Unlink (PBlob 1)]) = true /\
  accepted refs f0 (seq_init 0 ++ seq_blob_put 3 10 ++ seq_write_index 4 [(10, 7)]) = false.
Proof. vm_compute. split; reflexivity. Qed.
