(* Props/C04.v — C04 property theorems only (shared model Model/C03_Copy.v). *)
From Coq Require Import List Arith Bool.
From Verif Require Import Model.C03_Copy Proofs.C03.
Import ListNotations.

(* no manifest is written before everything it references is at the target: for every graph, every accepted
   trace (all interleavings; faults and cancellation are tasks returning errors) and every write event in it *)
Theorem C04_children_first : forall (refs : dg -> list dg) tgt0 tag0 t1 d w t2 s', closed refs tgt0 ->
  (mrun refs (minit tgt0 tag0) (t1 ++ EPut d w :: t2) = Some s' \/ mrun refs (minit tgt0 tag0) (t1 ++ ETag d w :: t2) = Some s') ->
  exists s, mrun refs (minit tgt0 tag0) t1 = Some s /\ forall c, In c (refs d) -> In c (present s).
Proof. exact children_first. Qed.
Print Assumptions C04_children_first.

(* whatever prefix of the copy happened (process death, cancellation, fault at any point): what was written
   is a set of complete images *)
Theorem C04_prefix_closed_complete : forall (refs : dg -> list dg) tgt0 tag0 t1 t2 s', closed refs tgt0 ->
  mrun refs (minit tgt0 tag0) (t1 ++ t2) = Some s' ->
  exists s, mrun refs (minit tgt0 tag0) t1 = Some s /\ closed refs (present s).
Proof. exact prefix_closed. Qed.
Print Assumptions C04_prefix_closed_complete.

(* the requested tag is written last of all (the deferred finalFn phase, entered only when a referrer loop
   was detected, is marked by EFinal and excluded) *)
Theorem C04_tag_last : forall (refs : dg -> list dg) tgt0 tag0 t1 d w t2 s',
  mrun refs (minit tgt0 tag0) (t1 ++ ETag d w :: t2) = Some s' ->
  existsb is_final (t1 ++ t2) = false -> existsb is_write t2 = false.
Proof. exact tag_last. Qed.
Print Assumptions C04_tag_last.

(* a copy that fails or is cancelled before that final write leaves the tag as it was *)
Theorem C04_fail_keeps_tag : forall (refs : dg -> list dg) t s s', existsb is_tag t = false -> mrun refs s t = Some s' -> tag s' = tag s.
Proof. exact fail_keeps_tag. Qed.
Print Assumptions C04_fail_keeps_tag.

(* the wait loops as written before the repair let a cancelled child be forgotten: refuted by a witness *)
Theorem C04_old_wait_loop_refuted : exists rs, collect_old None rs = None /\ ~ Forall (fun r => r = None) rs.
Proof. exact collect_old_refuted. Qed.
Print Assumptions C04_old_wait_loop_refuted.
Theorem C04_wait_loop_sound : forall rs, collect None rs = None -> Forall (fun r => r = None) rs.
Proof. exact collect_sound. Qed.
Print Assumptions C04_wait_loop_sound.

Example C04_nonvacuous : (* the monitor rejects a parent written while a child was cancelled *)
  let refs := fun d => match d with 10 => [1; 2] | _ => [] end in
  mrun refs (minit [] None) [EBlob 1; ERet 1 None; ERet 2 (Some ECanceled); EPut 10 [(2, Some ECanceled); (1, None)]] = None.
Proof. vm_compute. reflexivity. Qed.
