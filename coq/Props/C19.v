(* Props/C19.v — C19 property theorems only. *)
From Coq Require Import List String Bool.
From Verif Require Import Gen.SandboxFns Model.C19_DryRun Proofs.C19.
Import ListNotations.
Open Scope string_scope.

(* generated table (translator): every state-changing RegClient call inside a sandbox function is preceded,
   at the top level of that function, by `if s.dryRun { ...; return }` *)
Theorem C19_all_mutating_gated : all_gated sandbox_calls = true.
Proof. vm_compute. reflexivity. Qed.
Print Assumptions C19_all_mutating_gated.
Example C19_table_nonempty : 5 <= List.length (filter sc_mutating sandbox_calls). Proof. vm_compute. repeat constructor. Qed.

(* for EVERY script (any finite sequence of API calls, hence any control flow) a dry run performs no
   state-changing RegClient call *)
Theorem C19_dry_no_mutation : forall calls, run_script sandbox_calls true calls = [].
Proof. intro calls. apply dry_run_no_mutation. exact C19_all_mutating_gated. Qed.
Print Assumptions C19_dry_no_mutation.

Theorem C19_dry_no_mutation_all_scripts : forall scripts, Forall (fun e => e = []) (run_all sandbox_calls true scripts).
Proof. intro scripts. apply dry_run_all_no_mutation. exact C19_all_mutating_gated. Qed.
Print Assumptions C19_dry_no_mutation_all_scripts.

(* a script that raises an error stops by itself: the other scripts' effects are the same *)
Theorem C19_script_error_local : forall dry a calls f1 f2 b,
  run_all sandbox_calls dry (a ++ (calls, f1) :: b) = run_all sandbox_calls dry (a ++ (calls, f2) :: b).
Proof. intros. apply script_error_local. Qed.
Print Assumptions C19_script_error_local.

(* non-vacuity: in a normal run the same scripts do mutate *)
Example C19_normal_run_mutates : run_script sandbox_calls false ["imageCopy"; "tagDelete"; "manifestHead"] = ["ImageCopy"; "TagDelete"].
Proof. vm_compute. reflexivity. Qed.

(* "read-only functions behave exactly as in a normal run": in the generated table no sandbox function that makes no
   state-changing RegClient call has a dry-run gate in front of any of its calls (so the mode cannot change what it does) *)
Definition fn_mutates (table : list sbcall) (fn : String.string) : bool :=
  existsb (fun c => String.eqb (sc_fn c) fn && sc_mutating c) table.
Theorem C19_read_only_functions_ungated : forall c, In c sandbox_calls -> fn_mutates sandbox_calls (sc_fn c) = false -> sc_gated c = false.
Proof.
  assert (H : forallb (fun c => implb (negb (fn_mutates sandbox_calls (sc_fn c))) (negb (sc_gated c))) sandbox_calls = true) by (vm_compute; reflexivity).
  intros c Hin Hm. rewrite forallb_forall in H. specialize (H c Hin). rewrite Hm in H. cbn in H. now destruct (sc_gated c).
Qed.
Print Assumptions C19_read_only_functions_ungated.
