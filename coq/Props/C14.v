(* Props/C14.v — C14 property theorems only (shared model Model/C03_Copy.v). *)
From Coq Require Import List Arith Bool.
From Verif Require Import Model.C03_Copy Proofs.C03.
Import ListNotations.

(* BlobCopy's ladder, all 32 configurations: a blob the target has is never fetched or uploaded; within one
   repository nothing at all happens; on one registry a granted mount replaces the transfer *)
Theorem C14_blob_copy_minimal : forall same_repo exists_tgt same_registry mount_granted inline,
  (exists_tgt = true -> has AGetSrc (blob_copy same_repo exists_tgt same_registry mount_granted inline) = false /\
                        has AUpload (blob_copy same_repo exists_tgt same_registry mount_granted inline) = false) /\
  (same_repo = true -> blob_copy same_repo exists_tgt same_registry mount_granted inline = []) /\
  (same_registry = true -> mount_granted = true ->
     has AGetSrc (blob_copy same_repo exists_tgt same_registry mount_granted inline) = false /\
     has AUpload (blob_copy same_repo exists_tgt same_registry mount_granted inline) = false).
Proof. exact blob_copy_minimal. Qed.
Print Assumptions C14_blob_copy_minimal.

(* however many parts of the image share a blob and however the tasks interleave: over a run without failed
   copies, each (target repository, digest) key is copied by at most one task - the others wait for it *)
Theorem C14_each_blob_once : forall t s k, all_ok t = true -> owner_count k s t <= 1.
Proof. exact owner_count_le1. Qed.
Print Assumptions C14_each_blob_once.

Example C14_nonvacuous :
  owner_count 7 (mkSeen [] []) [SAsk 7; SAsk 7; SAsk 8; SDone 7 true; SAsk 7; SDone 8 true] = 1.
Proof. reflexivity. Qed.
