(* Props/C14.v — C14 property theorems only (shared model Model/C03_Copy.v). *)
From Coq Require Import List Arith Bool.
From Verif Require Import Model.C03_Copy Model.C14_Head Proofs.C03 Proofs.C14h.
From Verif Require Proofs.Pins14.   (* pinned source conditions: re-checked whenever the source changes *)
Import ListNotations.

(* BlobCopy's ladder, all 32 configurations: a blob the target has is never fetched or uploaded; within one
   repository nothing at all happens; on one registry a granted mount replaces the transfer *)
Theorem C14_blob_copy_minimal : forall same_repo exists_tgt same_registry mount_granted inline,
  (exists_tgt = true -> has AGetSrc (blob_copy same_repo exists_tgt same_registry mount_granted inline) = false /\
                        has AUpload (blob_copy same_repo exists_tgt same_registry mount_granted inline) = false) /\
  (same_repo = true -> blob_copy same_repo exists_tgt same_registry mount_granted inline = []) /\
  (same_registry = true -> mount_granted = true ->
     has AGetSrc (blob_copy same_repo exists_tgt same_registry mount_granted inline) = false /\
     has AUpload (blob_copy same_repo exists_tgt same_registry mount_granted inline) = false).
Proof. exact blob_copy_minimal. Qed.
Print Assumptions C14_blob_copy_minimal.

(* however many parts of the image share a blob and however the tasks interleave: over a run without failed
   copies, each (target repository, digest) key is copied by at most one task - the others wait for it *)
Theorem C14_each_blob_once : forall t s k, all_ok t = true -> owner_count k s t <= 1.
Proof. exact owner_count_le1. Qed.
Print Assumptions C14_each_blob_once.

(* the ladder at the head of every manifest copy (imageCopyOpt, Model/C14_Head.v), for every target answer, every source
   digest and every option set: the copy is skipped only when the target's digest IS the source's; with the identical image
   at the target and default options there is one HEAD of the target, at most one HEAD of the source and no body is fetched;
   with referrers or digest tags requested an equal image manifest is not fetched again; a missing or differing manifest is
   always fetched *)
Theorem C14_skip_only_when_equal : forall tgt known src fast force refs dtags tl acts,
  known_ok known src -> head_ladder tgt known src fast force refs dtags tl = (acts, true) -> tgt = Some src.
Proof. exact skip_sound. Qed.
Print Assumptions C14_skip_only_when_equal.
Theorem C14_identical_image_skipped : forall d known, known_ok known d ->
  head_ladder (Some d) known d false false false false false = ([AHeadTgt], true) \/
  head_ladder (Some d) known d false false false false false = ([AHeadTgt; AHeadSrc], true).
Proof. exact identical_skipped. Qed.
Print Assumptions C14_identical_image_skipped.
Theorem C14_equal_manifest_not_refetched : forall d known refs dtags, known_ok known d -> refs || dtags = true ->
  ~ In AGetSrcMan (fst (head_ladder (Some d) known d false false refs dtags false)).
Proof. exact equal_image_body_not_refetched. Qed.
Print Assumptions C14_equal_manifest_not_refetched.
Theorem C14_differing_manifest_fetched : forall tgt known src fast force refs dtags tl,
  known_ok known src -> tgt <> Some src -> In AGetSrcMan (fst (head_ladder tgt known src fast force refs dtags tl)).
Proof. exact differing_fetched. Qed.
Print Assumptions C14_differing_manifest_fetched.

Example C14_nonvacuous :
  owner_count 7 (mkSeen [] []) [SAsk 7; SAsk 7; SAsk 8; SDone 7 true; SAsk 7; SDone 8 true] = 1.
Proof. reflexivity. Qed.
