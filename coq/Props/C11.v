(* Props/C11.v — C11 property theorems only. *)
From Coq Require Import List Arith Bool.
From Verif Require Import Model.C11_Creds Proofs.C11.
Import ListNotations.

(* confinement, for the credentials function that answers only for the registry's own host: whatever the servers do -
   any sequence of requests to any hosts (the registry, mirrors with their own Auth, redirect targets, direct URLs),
   401 challenges of any kind from any of them at any position, token requests - every transmission of a registry's
   user/password or identity token goes to that registry's own host or to a token endpoint that the registry itself
   named in a Bearer challenge *)
Theorem C11_confined : forall acts, monitor [] (run false [] acts) = true.
Proof. exact confined. Qed.
Print Assumptions C11_confined.

(* the credentials function of the code (it ignores the host it is asked about) is refuted: a host that is not the
   registry challenges with Basic and receives the registry's credentials; with Bearer, the endpoint it names does *)
Theorem C11_code_creds_fn_refuted :
  let o := mkO 1 10 true false in
  monitor [] (run true [] [AChallenge o 20 KBasic; ARequest o 20]) = false /\
  monitor [] (run true [] [AChallenge o 20 (KBearer 30); AToken o 20]) = false.
Proof. split; reflexivity. Qed.

(* no challenge, no credentials: nothing is sent to a host that has not asked *)
Theorem C11_silent_without_challenge : forall old acts,
  (forall a, In a acts -> match a with AChallenge _ _ _ => False | _ => True end) -> run old [] acts = [].
Proof. exact silent_without_challenge. Qed.
Print Assumptions C11_silent_without_challenge.

(* requests the client builds itself use https unless TLS is disabled for that host *)
Theorem C11_scheme : forall t, scheme_https t = false <-> t = TLSDisabled.
Proof. intros []; cbn; split; congruence. Qed.
Print Assumptions C11_scheme.

(* the URL scheme a request leaves with (Model/C11_Scheme.v): built from the host configuration, or a server-supplied URL /
   redirect Location pointing back at the registry's own host - for a host configured for TLS (enabled or insecure) it is
   https; limiting the upgrade of an http Location to tls: enabled is refuted for tls: insecure *)
From Verif Require Import Model.C11_Scheme Proofs.C11s.
Theorem C11_own_host_never_cleartext : forall t given,
  t <> TLSDisabled -> (given = None \/ exists h, given = Some (h, true)) -> sent_https t given = true.
Proof. exact own_host_never_cleartext. Qed.
Print Assumptions C11_own_host_never_cleartext.
Theorem C11_upgrade_for_enabled_only_refuted : exists t given, t <> TLSDisabled /\ (exists h, given = Some (h, true)) /\ sent_https_enabled_only t given = false.
Proof. exact enabled_only_refuted. Qed.
Print Assumptions C11_upgrade_for_enabled_only_refuted.

Example C11_nonvacuous :
  let r := mkO 1 10 true false in let m := mkO 2 11 false true in
  run false [] [ARequest r 10; AChallenge r 10 (KBearer 12); AToken r 10; ARequest r 10; ARequest m 11; AChallenge m 11 KBasic; ARequest m 11;
                AChallenge m 11 (KBearer 13); AToken m 11; ARequest r 20; AChallenge r 20 KBasic; ARequest r 20; AChallenge r 10 KBasic; ARequest r 10]
  = [SChal 10 (KBearer 12); SCred 10 12; SChal 11 KBasic; SChal 11 (KBearer 13); SCred 11 13; SChal 20 KBasic; SChal 10 KBasic; SCred 10 10].
Proof. vm_compute. reflexivity. Qed.
