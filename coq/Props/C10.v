(* Props/C10.v — C10 property theorems only. *)
From Coq Require Import List Arith Bool Permutation.
From Verif Require Import Model.C10_Referrers Proofs.C10.
Import ListNotations.

(* for every assignment of subject / artifact type / annotations to digests, every back end (registry with the
   referrers API, registry with the client-managed fallback tag, OCI layout), response cache on or off, and EVERY
   history of pushes, referrer-aware deletions and listings with any filter, starting from an empty repository:
   every listing of a subject returns, without duplicates, exactly the stored manifests that name the subject and
   match the filter - none lost, none left over after deletion, the cache never stale *)
Theorem C10_list_exact : forall inf b uc ops, all_ok inf b uc init ops.
Proof. intros. apply run_all_ok, init_inv. Qed.
Print Assumptions C10_list_exact.

(* Add / Delete of the fallback index are set operations: idempotent add, delete removes every occurrence *)
Theorem C10_add_delete_set : forall l d x,
  (In x (rl_add l d) <-> In x l \/ x = d) /\ rl_add (rl_add l d) d = rl_add l d /\
  (forall l', rl_del l d = Some l' -> (In x l' <-> In x l /\ x <> d)) /\ (rl_del l d = None -> ~ In d l).
Proof.
  intros l d x. split; [apply rl_add_In|]. split; [|split; [intros l' H; now apply (proj1 (rl_del_some _ _ _ H))|apply rl_del_none]].
  unfold rl_add at 1. assert (H : memn d (rl_add l d) = true) by (apply memn_In, rl_add_In; now right). now rewrite H.
Qed.
Print Assumptions C10_add_delete_set.

(* concurrency: any number of updates of one fallback tag that each hold the lock from their read to their write, under
   EVERY interleaving of their steps that runs them all to completion, leave the value that some serial order of the
   same updates leaves *)
Theorem C10_locked_updates_serialize : forall v us sched s',
  Forall (fun p => fst p = true) us -> crun (cinit v us) sched = Some s' -> finished s' = true ->
  exists order, Permutation order (map snd us) /\ val s' = fold_left apply_upd order v.
Proof. exact locked_rmw_serial. Qed.
Print Assumptions C10_locked_updates_serialize.

(* ... and when every digest is touched by at most one of them, that value is the same for every order:
   the initial referrers minus the deleted plus the added - no update is lost *)
Theorem C10_no_lost_update : forall v us sched s',
  Forall (fun p => fst p = true) us -> NoDup (map touched (map snd us)) ->
  crun (cinit v us) sched = Some s' -> finished s' = true ->
  forall d, In d (val s') <-> (In d v /\ ~ In (UDel d) (map snd us)) \/ In (UAdd d) (map snd us).
Proof.
  intros v us sched s' Hl Hn Hr Hf d. destruct (locked_rmw_serial v us sched s' Hl Hr Hf) as (order & Hp & ->).
  rewrite fold_updates_spec by (eapply Permutation_NoDup; [apply Permutation_map, Permutation_sym, Hp|exact Hn]).
  assert (Hin : forall u, In u order <-> In u (map snd us)) by (intro u; split; apply Permutation_in; [exact Hp|now apply Permutation_sym]).
  rewrite !Hin. tauto.
Qed.
Print Assumptions C10_no_lost_update.

(* the deletion as coded before the repair took no lock: refuted - a push that runs between its read and its write is lost *)
Theorem C10_unlocked_delete_refuted : exists sched s', crun (cinit [1] [(false, UDel 1); (true, UAdd 2)]) sched = Some s' /\ finished s' = true /\ ~ In 2 (val s').
Proof. exists [0; 0; 1; 1; 1; 1; 0; 0]. eexists. split; [vm_compute; reflexivity|]. split; [reflexivity|]. intros []. Qed.

Example C10_nonvacuous :
  let inf := fun d => match d with 1 => mkInfo 100 1 [(1, 1)] | 2 => mkInfo 100 2 [] | 3 => mkInfo 101 1 [] | _ => mkInfo 0 0 [] end in
  snd (run inf BTag true init [Put 1; Put 2; Put 3; List 100 (mkF 0 []); List 100 (mkF 1 []); Del 1; List 100 (mkF 0 []); Del 2; List 100 (mkF 0 []); Put 1; Put 1; List 100 (mkF 0 [(1, 1)])])
  = [ROk; ROk; ROk; RList [1; 2]; RList [1]; ROk; RList [2]; ROk; RList []; ROk; ROk; RList [1]] /\
  exists s', crun (cinit [5] [(true, UDel 5); (true, UAdd 6); (true, UAdd 7)]) [1; 0; 1; 2; 1; 1; 0; 0; 0; 2; 2; 2] = None /\
             crun (cinit [5] [(true, UDel 5); (true, UAdd 6); (true, UAdd 7)]) [1; 1; 1; 1; 0; 0; 0; 0; 2; 2; 2; 2] = Some s' /\ val s' = [6; 7].
Proof. split; [vm_compute; reflexivity|]. eexists. split; [vm_compute; reflexivity|]. split; vm_compute; reflexivity. Qed.
