(* Props/C01.v — C01 property theorems only. *)
From Coq Require Import List ZArith Bool.
From Verif Require Import Model.C01_BlobRead Model.C01_Resume Proofs.C01 Proofs.C01r.
From Verif Require Proofs.Pins01.   (* pinned source conditions: re-checked whenever the source changes *)
Import ListNotations.
Open Scope Z_scope.

(* For EVERY underlying reader (any state machine: corrupted, truncated, over-long, substituted or
   wrongly stitched streams, io.EOF together with data, errors), every hash function, every sequence of
   caller buffer sizes and rewinds: a Read that returns a clean io.EOF has, since the start or the last
   successful rewind, accumulated bytes that hash to the descriptor's (valid) digest g and, when the
   descriptor states a size, number exactly that many. *)
Theorem C01_clean_eof_sound :
  forall (byte digest S : Type) (H : list byte -> digest) (deqb : digest -> digest -> bool),
  (forall a b, deqb a b = true -> a = b) ->
  forall (uread : S -> nat -> list byte * uev * S) (useek0 : S -> option S) (g : digest) (size0 : Z) (s : S) (ops : list op),
  Forall (fun a => H a = g /\ (size0 > 0 -> Z.of_nat (length a) = size0))
         (clean_accs byte digest S H deqb uread useek0 (init byte digest S size0 (Some g) s) ops).
Proof. intros. apply clean_accs_sound; [assumption|apply init_inv]. Qed.
Print Assumptions C01_clean_eof_sound.

(* the same when the reader is built from a registry response: Content-Length / Docker-Content-Digest
   headers (chosen by the server) never replace a valid digest or a stated size given by the caller *)
Theorem C01_clean_eof_sound_with_headers :
  forall (byte digest S : Type) (H : list byte -> digest) (deqb : digest -> digest -> bool),
  (forall a b, deqb a b = true -> a = b) ->
  forall (uread : S -> nat -> list byte * uev * S) (useek0 : S -> option S) (g : digest) (size0 : Z)
         (hdr : option (Z * option digest)) (s : S) (ops : list op),
  Forall (fun a => H a = g /\ (size0 > 0 -> Z.of_nat (length a) = size0))
         (clean_accs byte digest S H deqb uread useek0 (new_reader byte digest S size0 (DValid _ g) hdr s) ops).
Proof. intros. apply clean_accs_sound; [assumption|apply new_reader_Inv]. Qed.
Print Assumptions C01_clean_eof_sound_with_headers.

(* the accumulator the check is made on is exactly what the caller was handed since the last rewind *)
Theorem C01_acc_is_delivered :
  forall (byte digest S : Type) (H : list byte -> digest) (deqb : digest -> digest -> bool),
  (forall a b, deqb a b = true -> a = b) ->
  forall (uread : S -> nat -> list byte * uev * S) (useek0 : S -> option S) (g : digest) (size0 : Z) (s : S) (ops : list op),
  let r := run byte digest S H deqb uread useek0 (init byte digest S size0 (Some g) s) ops in
  acc _ _ _ (snd r) = delivered byte [] (fst r).
Proof. intros. subst r. now apply (acc_is_delivered byte digest S H deqb H0 uread useek0 g size0 ops _ (init_inv _ _ _ g size0 s)). Qed.
Print Assumptions C01_acc_is_delivered.

(* LimitRead: at most Limit+1 bytes pass per call, and the call that crosses the limit errors *)
Theorem C01_limit_read_bound :
  forall (byte S : Type) (uread : S -> nat -> list byte * uev * S) lim s n bs oe lim' s',
  (forall s0 k, (length (fst (fst (uread s0 k))) <= k)%nat) -> 0 <= lim ->
  limit_read byte S uread lim s n = (bs, oe, lim', s') ->
  Z.of_nat (length bs) <= lim + 1 /\ (Z.of_nat (length bs) > lim -> oe = None) /\ lim' = lim - Z.of_nat (length bs).
Proof. intros. eapply limit_read_bound; eassumption. Qed.
Print Assumptions C01_limit_read_bound.

(* ---- the resume layer under a registry read (reghttp Resp.Read / Resp.next, one host): completeness, so that the
   soundness theorems above are not vacuous.  A registry that serves the right bytes from the requested offset (whole
   length announced on an unranged request, Content-Range on a ranged one) but cuts any of the first k bodies short,
   at ANY offset, as EOF or unexpected EOF, with k + (the host's backoff count) below the retry limit: for every blob,
   every expectation (descriptor size or none) and every caller with non-empty buffers that keeps reading, the caller
   receives exactly the blob, then EOF. *)
Theorem C01_resume_complete : forall (byte : Type) (c : list byte) srv limit eager k b0 expect bufs,
  honest byte c srv k -> (b0 + k < limit)%nat -> (expect = Z.of_nat (length c) \/ expect = 0) ->
  Forall (fun n => (0 < n)%nat) bufs -> (length c + k < length bufs)%nat ->
  exists s s' l, open srv limit expect b0 = (NOk, s, [None]) /\ drain srv limit eager s bufs = (c, Some UEOF, s', l).
Proof. exact resume_complete. Qed.
Print Assumptions C01_resume_complete.

(* ... and whatever the caller does (any buffer sizes, stopping anywhere), what it has been handed is a prefix of the
   blob and the read has not failed: the stitching of resumed bodies is exact *)
Theorem C01_resume_stitching_exact : forall (byte : Type) (c : list byte) srv limit eager k b0 expect bufs,
  honest byte c srv k -> (b0 + k < limit)%nat -> (expect = Z.of_nat (length c) \/ expect = 0) ->
  exists s out r s' l, open srv limit expect b0 = (NOk, s, [None]) /\ drain srv limit eager s bufs = (out, r, s', l) /\
    ((r = None /\ exists tl, c = out ++ tl) \/ (r = Some UEOF /\ out = c)).
Proof. exact resume_safe. Qed.
Print Assumptions C01_resume_stitching_exact.

Example C01_resume_nonvacuous : honest nat demo_blob demo_srv 2 /\ (0 + 2 < 4)%nat.
Proof. split; [exact demo_honest|repeat constructor]. Qed.
