(* Props/C02.v — C02 property theorems only. *)
From Coq Require Import List Arith Bool.
From Verif Require Import Model.C02_Manifest Proofs.C02.
Import ListNotations.

(* fetch: for every hash function, encoder / decoder, body and combination of expected digests and media types, a manifest
   is returned only if its raw bytes hash (in the algorithm of the expectation) to the first expected digest available -
   descriptor, then reference, then header -; the digest and size it reports are those of the raw bytes, the raw bytes are
   kept as they are (so a push sends exactly them), and the media type is the one the body declares when it declares one *)
Theorem C02_fetch_exact : forall (bytes value : Type) hash len parse body_mt detect e_desc e_ref e_hdr mt_desc mt_hdr (r : bytes) (m : man bytes value),
  new bytes value hash len parse body_mt detect e_desc e_ref e_hdr mt_desc mt_hdr r = Some m ->
  Inv bytes value hash len parse m /\ pushed bytes value m = r /\
  (forall a d, first_expected e_desc e_ref e_hdr = Some (a, d) -> alg _ _ m = a /\ hash a r = d) /\
  (first_expected e_desc e_ref e_hdr = None -> alg _ _ m = 0) /\
  (body_mt r <> 0 -> mt _ _ m = body_mt r).
Proof. intros. unfold pushed. eapply new_spec; eauto. Qed.
Print Assumptions C02_fetch_exact.

(* the order of the sources: a reference digest is never overridden by the registry's header *)
Theorem C02_reference_before_header : forall e_ref e_hdr, first_expected None (Some e_ref) e_hdr = Some e_ref.
Proof. reflexivity. Qed.

(* edits: for every program of setter calls (any functions on the struct), given an encoder whose output the decoder
   maps back to the value, the equation holds again after every step: the reported digest and size are those of the
   serialisation that will be pushed, which parses back to the value the getters return; algorithm and media type stay *)
Theorem C02_edits_exact : forall (bytes value : Type) hash len marshal parse (fs : list (value -> value)) (m : man bytes value),
  (forall t v, parse t (marshal v) = Some v) ->
  Inv bytes value hash len parse m ->
  let m' := edits bytes value hash len marshal fs m in
  Inv bytes value hash len parse m' /\ val _ _ m' = fold_left (fun v f => f v) fs (val _ _ m) /\ alg _ _ m' = alg _ _ m /\ mt _ _ m' = mt _ _ m.
Proof. intros bytes value hash len marshal parse fs m Hrt HI. split; [now apply edits_inv|apply edits_val]. Qed.
Print Assumptions C02_edits_exact.

Example C02_nonvacuous :
  let hash := fun a r => a * 100 + r in let parse := fun (t r : nat) => if Nat.eqb t 0 then None else Some r in
  (* reference digest wrong, header right: rejected; reference right, header wrong: accepted under the reference's digest *)
  new nat nat hash (fun _ => 7) parse (fun _ => 1) (fun _ => 0) None (Some (0, 2)) (Some (0, 1)) 0 1 1 = None /\
  new nat nat hash (fun _ => 7) parse (fun _ => 1) (fun _ => 0) None (Some (1, 101)) (Some (0, 2)) 0 1 1 = Some (mkMan nat nat 1 1 101 7 1 1) /\
  dg _ _ (edits nat nat hash (fun _ => 7) (fun v => v) [fun v => v + 1; fun v => v * 2] (mkMan nat nat 1 1 101 7 1 1)) = 104.
Proof. repeat split. Qed.

(* generated table (translator extract/setters.go, regenerated from types/manifest on every run): every method that
   stores into a field of a manifest struct ends in `return m.updateDesc()` - the step the edit theorem above models
   as "edit the struct, then recompute raw body, digest and size" - or (schema1 SetOrig) assigns raw body and
   descriptor itself from one marshalled slice; and every updateDesc has the shape marshal -> rawBody -> desc{digest
   of that slice, length of that slice} *)
From Verif Require Import Gen.ManifestSetters.
Theorem C02_all_setters_funnel : forall s, In s manifest_setters -> st_content s = true -> st_funnel s = true \/ st_inline s = true.
Proof.
  assert (H : forallb (fun s => implb (st_content s) (st_funnel s || st_inline s)) manifest_setters = true) by (vm_compute; reflexivity).
  intros s Hin Hc. rewrite forallb_forall in H. specialize (H s Hin). rewrite Hc in H. cbn in H. now apply Bool.orb_prop in H.
Qed.
Print Assumptions C02_all_setters_funnel.
Theorem C02_update_desc_shape : forall p, In p update_desc_shapes -> snd p = true.
Proof.
  assert (H : forallb (fun p : String.string * bool => snd p) update_desc_shapes = true) by (vm_compute; reflexivity).
  intros p Hin. rewrite forallb_forall in H. exact (H p Hin).
Qed.
Print Assumptions C02_update_desc_shape.
Example C02_setter_table_nonempty : 15 <= List.length manifest_setters /\ 5 <= List.length update_desc_shapes.
Proof. split; vm_compute; repeat constructor. Qed.
