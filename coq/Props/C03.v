(* Props/C03.v — C03 property theorems only (shared model Model/C03_Copy.v). *)
From Coq Require Import List Arith Bool.
From Verif Require Import Model.C03_Copy Proofs.C03.
Import ListNotations.

(* For EVERY image graph (refs arbitrary: any nesting depth, sharing, artifacts), every target state that holds
   complete images only, every interleaving of the copy tasks (any accepted event trace): when the task of
   the root returned nil, every object reachable from the root - at any depth - is at the target. *)
Theorem C03_copy_complete : forall (refs : dg -> list dg) tgt0 tag0 t s root,
  closed refs tgt0 -> mrun refs (minit tgt0 tag0) t = Some s -> In (root, None) (rets s) ->
  forall n x, In x (reach refs n root) -> In x (present s).
Proof. exact complete. Qed.
Print Assumptions C03_copy_complete.

(* and the tag then names the root: the tag write is an event of the root manifest *)
Theorem C03_tag_is_root : forall (refs : dg -> list dg) s d w s', mstep refs s (ETag d w) = Some s' -> tag s' = Some d /\ In d (present s').
Proof.
  intros refs s d w s'. cbn. destruct (_ && _); [|discriminate]. intro H; injection H as <-. cbn. auto.
Qed.
Print Assumptions C03_tag_is_root.

(* a parent continues only when every child result it waited for was nil (the repaired loop) *)
Theorem C03_collect_sound : forall rs, collect None rs = None -> Forall (fun r => r = None) rs.
Proof. exact collect_sound. Qed.
Print Assumptions C03_collect_sound.

(* an index entry of a media type the client does not know that the source serves as a manifest (an OCI artifact
   manifest): its result is the result of its image copy, whatever a blob copy of the same digest would answer - a
   failure or cancellation inside the nested copy is never replaced by the success of a blob copy; an entry that
   could not be fetched under a cancelled context reports the cancellation.  The pre-repair rule (any error of the
   image copy falls back to the blob copy) is refuted: a cancelled image copy and a successful blob copy gave nil *)
Theorem C03_unknown_entry_not_masked : forall ctx img blob,
  entry_unknown true ctx img blob = img /\ entry_unknown false true img blob = Some ECanceled.
Proof. intros. split; reflexivity. Qed.
Print Assumptions C03_unknown_entry_not_masked.
Theorem C03_unknown_entry_old_refuted : exists img blob, img <> None /\ entry_unknown_old img blob = None.
Proof. exists (Some ECanceled), None. split; [discriminate|reflexivity]. Qed.
Print Assumptions C03_unknown_entry_old_refuted.

Example C03_nonvacuous :
  let refs := fun d => match d with 10 => [1; 2] | 20 => [10; 11] | 11 => [2; 3] | _ => [] end in
  exists s, mrun refs (minit [2] None)
    [EBlob 1; ERet 1 None; ERet 2 None; EPut 10 [(2, None); (1, None)]; ERet 10 None; EBlob 3; ERet 3 None;
     EPut 11 [(2, None); (3, None)]; ERet 11 None; ETag 20 [(11, None); (10, None)]; ERet 20 None] = Some s /\
    In (20, None) (rets s) /\ tag s = Some 20.
Proof. eexists. split; [vm_compute; reflexivity|]. split; [now left|reflexivity]. Qed.
