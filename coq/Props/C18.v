(* Props/C18.v — C18 property theorems only. *)
From Coq Require Import List Arith Bool.
From Verif Require Import Model.C18_Sync Proofs.C18.
Import ListNotations.

(* filterList keeps, in order, exactly the names that some allow expression matches (all, when there is none) and no deny
   expression matches - for every matching relation and every list *)
Theorem C18_filter_exact : forall matches ad l, filter_list matches ad l = filter (selected matches ad) l.
Proof. exact filter_list_spec. Qed.
Print Assumptions C18_filter_exact.

Section Post.
  Variable matches : nat -> nat -> bool.
  Variables (ad : allowdeny) (backup : option (nat -> nat)) (src : list src_tag) (tgt : tmap).
  Hypothesis tags_distinct : NoDup (map t_tag src).
  (* backup names are not names of source tags (otherwise the result depends on the order of the tags) *)
  Hypothesis backups_apart : forall b t1 t2, backup = Some b -> In t1 src -> In t2 src -> b (t_tag t1) <> t_tag t2.

  Lemma single t x act : In t src -> selected matches ad (t_tag t) = true ->
    (forall t', In t' src -> t' <> t -> forall b, backup = Some b -> x <> b (t_tag t')) -> (forall t', In t' src -> t' <> t -> x <> t_tag t') ->
    sync_repo matches act backup ad src tgt x = process_ref act backup tgt t x.
  Proof.
    intros Hin Hsel Hb Hx. unfold sync_repo. fold (visited matches ad src).
    apply fold_single; [apply visited_spec; auto|apply filter_nodup', (nodup_map_inj t_tag), tags_distinct|].
    intros t' Ht' Hne. apply visited_spec in Ht' as [Ht' _]. split; [split; [now apply Hx|apply (nodup_tags src); auto]|].
    intros b Hbk. split; [now apply (Hb t')|]. intro E. symmetry in E. revert E. eapply backups_apart; eauto.
  Qed.

  (* every selected source tag whose media type is accepted names, at the target, the source digest (or the digest of the
     configured platform); it is left alone only when it already named the source digest *)
  Theorem C18_selected_synced : forall t, In t src -> selected matches ad (t_tag t) = true -> t_media_ok t = true ->
    let tgt' := sync_repo matches ASync backup ad src tgt in
    tgt' (t_tag t) = Some (want t) \/ (tgt' (t_tag t) = Some (t_digest t) /\ tgt (t_tag t) = Some (t_digest t)).
  Proof.
    intros t Hin Hsel Hm. cbv zeta. rewrite (single t (t_tag t) ASync Hin Hsel).
    - apply process_ref_result. exact Hm.
    - intros t' Ht' Hne b Hb E. symmetry in E. revert E. eapply backups_apart; eauto.
    - intros t' Ht' Hne. apply (nodup_tags src); auto.
  Qed.

  (* nothing else is touched: a name that is neither a selected source tag nor the backup name of one keeps its digest
     (tags excluded by the filters, target tags without a source counterpart) *)
  Theorem C18_untouched : forall act x,
    (forall t, In t src -> selected matches ad (t_tag t) = true -> x <> t_tag t /\ forall b, backup = Some b -> x <> b (t_tag t)) ->
    sync_repo matches act backup ad src tgt x = tgt x.
  Proof.
    intros act x H. unfold sync_repo. fold (visited matches ad src). apply fold_frame.
    - intros t Ht. apply visited_spec in Ht as [Ht Hs]. now apply H.
    - intros t b Ht Hb. apply visited_spec in Ht as [Ht Hs]. destruct (H t Ht Hs) as [_ H2]. now apply H2.
  Qed.

  (* the image a target tag pointed to is under the backup name once the tag has been overwritten *)
  Theorem C18_backup_kept : forall t b old, In t src -> selected matches ad (t_tag t) = true -> t_media_ok t = true -> backup = Some b ->
    (forall t1 t2, In t1 src -> In t2 src -> t1 <> t2 -> b (t_tag t1) <> b (t_tag t2)) ->
    tgt (t_tag t) = Some old -> old <> t_digest t -> old <> want t ->
    sync_repo matches ASync backup ad src tgt (b (t_tag t)) = Some old.
  Proof.
    intros t b old Hin Hsel Hm Hb Hinj Hold H1 H2. rewrite (single t (b (t_tag t)) ASync Hin Hsel).
    - destruct (process_ref_result backup tgt t Hm) as [_ H]. apply (H old b); auto; eapply backups_apart; eauto.
    - intros t' Ht' Hne b' Hb'. rewrite Hb in Hb'. inversion Hb'; subst. apply Hinj; auto.
    - intros t' Ht' Hne. eapply backups_apart; eauto.
  Qed.

  (* a check-only run writes nothing *)
  Theorem C18_check_writes_nothing : sync_repo matches ACheck backup ad src tgt = tgt.
  Proof. unfold sync_repo. apply fold_check. Qed.
End Post.
Print Assumptions C18_selected_synced.
Print Assumptions C18_untouched.
Print Assumptions C18_backup_kept.
Print Assumptions C18_check_writes_nothing.

(* an idle run: when every source tag is already in place at the target (it names the source image, or the configured
   platform's image, or its media type is excluded), a run of any kind writes nothing - no copy and no backup *)
From Verif Require Import Proofs.C18i.
Theorem C18_idle_run_writes_nothing : forall matches act backup ad src tgt,
  (forall t, In t src -> in_place tgt t) -> sync_repo matches act backup ad src tgt = tgt.
Proof. exact idle_run_writes_nothing. Qed.
Print Assumptions C18_idle_run_writes_nothing.

Example C18_nonvacuous :
  let matches := fun f t => match f with 1 => Nat.leb 10 t && Nat.leb t 19 | 2 => Nat.eqb t 12 | _ => false end in
  let src := [mkT 11 101 true None; mkT 12 102 true None; mkT 13 103 false None; mkT 14 104 true (Some 140); mkT 25 105 true None] in
  let tgt := fun x => match x with 11 => Some 101 | 14 => Some 999 | 25 => Some 7 | 40 => Some 8 | _ => None end in
  let r := sync_repo matches ASync (Some (fun t => 1000 + t)) (mkAD [1] [2]) src tgt in
  filter_list matches (mkAD [1] [2]) [11; 12; 13; 14; 25] = [11; 13; 14] /\
  map r [11; 12; 13; 14; 25; 40; 1014] = [Some 101; None; None; Some 140; Some 7; Some 8; Some 999].
Proof. split; reflexivity. Qed.
