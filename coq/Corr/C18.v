(* Corr/C18.v — the tag map of every selected target repository after a run of the regsync binary must be the map the
   model computes from the source tags, the filters (as a matching table) and the tag map before. *)
From Coq Require Import List Arith Bool.
From Verif Require Import Model.C18_Sync.
Import ListNotations.

Record case := mkCase {
  c_act : action; c_match : list (nat * nat); c_allow : list nat; c_deny : list nat;
  c_hasbackup : bool; c_backup : list (nat * nat); c_src : list src_tag; c_before : list (nat * nat); c_names : nat; c_after : list (nat * nat)
}.

Fixpoint lookup (t : list (nat * nat)) (k : nat) : option nat :=
  match t with [] => None | (a, b) :: r => if Nat.eqb a k then Some b else lookup r k end.
Definition on_eqb (a b : option nat) : bool := match a, b with None, None => true | Some x, Some y => Nat.eqb x y | _, _ => false end.

Definition check (c : case) : bool :=
  let matches := fun f t => existsb (fun p => Nat.eqb (fst p) f && Nat.eqb (snd p) t) (c_match c) in
  let backup := if c_hasbackup c then Some (fun t => match lookup (c_backup c) t with Some b => b | None => 0 end) else None in
  let r := sync_repo matches (c_act c) backup (mkAD (c_allow c) (c_deny c)) (c_src c) (lookup (c_before c)) in
  forallb (fun k => on_eqb (r k) (lookup (c_after c) k)) (seq 1 (c_names c)).

Fixpoint mismatches_from (i : nat) (cs : list case) : list nat :=
  match cs with
  | [] => []
  | c :: cs' => if check c then mismatches_from (S i) cs' else i :: mismatches_from (S i) cs'
  end.
Definition mismatches := mismatches_from 0.
