(* Corr/C15.v — correspondence runner for the reference parser *)
From Coq Require Import List String Ascii Bool.
From Verif Require Import Base.StrX Model.C15_Ref.
Import ListNotations.
Open Scope string_scope.

(* observed: None = rejected; Some (scheme, registry, repository, tag, digest, path, commonName) *)
Record obs := mkObs { o_scheme : string; o_reg : string; o_repo : string; o_tag : string; o_dig : string; o_path : string; o_cn : string }.

Inductive case :=
| CParse (s : string) (o : option obs)
| CSet (s : string) (newtag newdig : string) (cn_tag cn_dig cn_add : string).

Definition seqb (a : str) (b : string) : bool := str_eqb a (of_string b).

Definition check (c : case) : bool :=
  match c with
  | CParse s o =>
      match parse (of_string s), o with
      | None, None => true
      | Some r, Some o =>
          seqb (scheme r) (o_scheme o) && seqb (registry r) (o_reg o) && seqb (repository r) (o_repo o) &&
          seqb (tag r) (o_tag o) && seqb (digest r) (o_dig o) && seqb (path r) (o_path o) &&
          seqb (print r) (o_cn o)
      | _, _ => false
      end
  | CSet s t d c1 c2 c3 =>
      match parse (of_string s) with
      | Some r => seqb (print (set_tag r (of_string t))) c1 && seqb (print (set_digest r (of_string d))) c2 &&
                  seqb (print (add_digest r (of_string d))) c3
      | None => false
      end
  end.

Fixpoint mismatches_from (i : nat) (cs : list case) : list nat :=
  match cs with
  | [] => []
  | c :: cs' => if check c then mismatches_from (S i) cs' else i :: mismatches_from (S i) cs'
  end.
Definition mismatches := mismatches_from 0.
