(* Corr/C01.v — correspondence runner: scripted underlying reader, identity "hash" *)
From Coq Require Import List ZArith NArith Bool.
From Verif Require Import Base.StrX Model.C01_BlobRead Model.C01_Resume.
Import ListNotations.

Definition bytes := list N.
(* scripted reader: remaining script, original script, seekable *)
Definition script := list (bytes * uev).
Definition S := (script * script * bool)%type.

Definition sread (s : S) (n : nat) : bytes * uev * S :=
  let '(cur, orig, sk) := s in
  match cur with
  | [] => ([], UEOF, s)
  | (bs, e) :: rest =>
      if Nat.leb (length bs) n then (bs, e, (rest, orig, sk))
      else (firstn n bs, UMore, ((skipn n bs, e) :: rest, orig, sk))
  end.
Definition sseek (s : S) : option S :=
  let '(_, orig, sk) := s in if sk then Some (orig, orig, sk) else None.

Definition beqb (a b : bytes) : bool := list_eqb N.eqb a b.
Definition Hid (b : bytes) : bytes := b.

Definition ev_code (e : ev) : nat :=
  match e with More => 0 | CleanEOF => 1 | EShort => 2 | EExceeded => 3 | EDigest => 4 | EOther => 5 end%nat.

(* observed: for a read (returned bytes, event code); for a seek 6 = ok / 7 = failed with no bytes *)
Record case := mkCase { c_size : Z; c_dig : ddesc bytes; c_hdr : option (Z * option bytes); c_script : script; c_seekable : bool;
                        c_ops : list op; c_obs : list (bytes * nat) }.

Definition out_code (o : out N) : bytes * nat :=
  match o with ORd _ bs e => (bs, ev_code e) | OSk _ true => ([], 6%nat) | OSk _ false => ([], 7%nat) end.

Definition check (c : case) : bool :=
  let s0 : S := (c_script c, c_script c, c_seekable c) in
  let '(outs, _) := run N bytes S Hid beqb sread sseek (new_reader N bytes S (c_size c) (c_dig c) (c_hdr c) s0) (c_ops c) in
  list_eqb (fun a b => beqb (fst a) (fst b) && Nat.eqb (snd a) (snd b)) (map out_code outs) (c_obs c).

(* ---- registry reads: BReader (NewReader with the first response's headers) over the resume layer over a scripted registry ---- *)
Record att := mkAtt { a_drop : Z; a_good : bool; a_honor : bool; a_skew : Z; a_nocr : bool; a_cld : Z }.
Definition att_default := mkAtt (-1) false true 0 false 0.
Record rcase := mkRC { rc_content : bytes; rc_served : bytes; rc_atts : list att; rc_size : Z; rc_dig : ddesc bytes;
                       rc_hdr : option (Z * option bytes); rc_limit : nat; rc_ops : list nat;
                       rc_obs : list (bytes * nat); rc_ranges : list (option Z) }.

(* the scripted registry of the harness (props/c01: handler of kind "reg") *)
Definition rsrv (c : rcase) (k : nat) (rg : option (Z * Z)) : reply N :=
  let a := nth k (rc_atts c) att_default in
  let stream := if a_good a then rc_content c else rc_served c in
  let '(start, cr) :=
    match rg with
    | Some (s, _) => if a_honor a then (Z.to_nat (Z.max 0 (Z.min (s + a_skew a) (Z.of_nat (length stream)))), negb (a_nocr a)) else (O, false)
    | None => (O, false)
    end in
  let body := skipn start stream in
  let dropped := (0 <=? a_drop a) && (a_drop a <? Z.of_nat (length body)) in
  RpOk (Some (Z.of_nat (length body) + a_cld a)) cr
       (if dropped then firstn (Z.to_nat (a_drop a)) body else body) (if dropped then EndUnexpected else EndEOF).

Definition RS := (rst N * list (option (Z * Z)))%type.
Definition rread (c : rcase) (s : RS) (n : nat) : bytes * uev * RS :=
  let '(bs, e, s', l) := read (rsrv c) (rc_limit c) (fun _ => false) (fst s) n in (bs, e, (s', snd s ++ l)).
Definition zopt_eqb (a b : option Z) : bool :=
  match a, b with Some x, Some y => Z.eqb x y | None, None => true | _, _ => false end.
Definition obs_eqb := list_eqb (fun a b : bytes * nat => beqb (fst a) (fst b) && Nat.eqb (snd a) (snd b)).

Definition rcheck (c : rcase) : bool :=
  match open (rsrv c) (rc_limit c) (rc_size c) 0 with
  | (NOk, s0, l0) =>
      let '(outs, x) := run N bytes RS Hid beqb (rread c) (fun _ => None)
                            (new_reader N bytes RS (rc_size c) (rc_dig c) (rc_hdr c) (s0, l0)) (map ORead (rc_ops c)) in
      obs_eqb (map out_code outs) (rc_obs c) &&
      list_eqb zopt_eqb (map (option_map fst) (snd (us _ _ _ x))) (rc_ranges c)
  | (_, _, l0) =>   (* BlobGet itself failed: nothing was read *)
      match rc_obs c with [] => list_eqb zopt_eqb (map (option_map fst) l0) (rc_ranges c) | _ => false end
  end.

Inductive xcase := XS (c : case) | XR (r : rcase).
Definition xcheck (x : xcase) : bool := match x with XS c => check c | XR r => rcheck r end.

Fixpoint mismatches_from (i : nat) (cs : list xcase) : list nat :=
  match cs with
  | [] => []
  | c :: cs' => if xcheck c then mismatches_from (Datatypes.S i) cs' else i :: mismatches_from (Datatypes.S i) cs'
  end.
Definition mismatches := mismatches_from 0.
