(* Corr/C01.v — correspondence runner: scripted underlying reader, identity "hash" *)
From Coq Require Import List ZArith NArith Bool.
From Verif Require Import Base.StrX Model.C01_BlobRead.
Import ListNotations.

Definition bytes := list N.
(* scripted reader: remaining script, original script, seekable *)
Definition script := list (bytes * uev).
Definition S := (script * script * bool)%type.

Definition sread (s : S) (n : nat) : bytes * uev * S :=
  let '(cur, orig, sk) := s in
  match cur with
  | [] => ([], UEOF, s)
  | (bs, e) :: rest =>
      if Nat.leb (length bs) n then (bs, e, (rest, orig, sk))
      else (firstn n bs, UMore, ((skipn n bs, e) :: rest, orig, sk))
  end.
Definition sseek (s : S) : option S :=
  let '(_, orig, sk) := s in if sk then Some (orig, orig, sk) else None.

Definition beqb (a b : bytes) : bool := list_eqb N.eqb a b.
Definition Hid (b : bytes) : bytes := b.

Definition ev_code (e : ev) : nat :=
  match e with More => 0 | CleanEOF => 1 | EShort => 2 | EExceeded => 3 | EDigest => 4 | EOther => 5 end%nat.

(* observed: for a read (returned bytes, event code); for a seek 6 = ok / 7 = failed with no bytes *)
Record case := mkCase { c_size : Z; c_dig : ddesc bytes; c_hdr : option (Z * option bytes); c_script : script; c_seekable : bool;
                        c_ops : list op; c_obs : list (bytes * nat) }.

Definition out_code (o : out N) : bytes * nat :=
  match o with ORd _ bs e => (bs, ev_code e) | OSk _ true => ([], 6%nat) | OSk _ false => ([], 7%nat) end.

Definition check (c : case) : bool :=
  let s0 : S := (c_script c, c_script c, c_seekable c) in
  let '(outs, _) := run N bytes S Hid beqb sread sseek (new_reader N bytes S (c_size c) (c_dig c) (c_hdr c) s0) (c_ops c) in
  list_eqb (fun a b => beqb (fst a) (fst b) && Nat.eqb (snd a) (snd b)) (map out_code outs) (c_obs c).

Fixpoint mismatches_from (i : nat) (cs : list case) : list nat :=
  match cs with
  | [] => []
  | c :: cs' => if check c then mismatches_from (Datatypes.S i) cs' else i :: mismatches_from (Datatypes.S i) cs'
  end.
Definition mismatches := mismatches_from 0.
