(* Corr/C16.v — correspondence runner: evaluates the model on cases observed from the Go
   implementation and lists the indices on which they disagree. *)
From Coq Require Import List String ZArith Bool.
From Verif Require Import Base.StrX Model.C16_Platform.
Import ListNotations.
Open Scope string_scope.

Definition plat_eqb (a b : plat) : bool :=
  (arch a =? arch b) && (os a =? os b) && (osver a =? osver b) && (variant a =? variant b) &&
  list_eqb String.eqb (osfeat a) (osfeat b) && list_eqb String.eqb (feat a) (feat b).

Definition opt_eqb {A} (e : A -> A -> bool) (a b : option A) : bool :=
  match a, b with Some x, Some y => e x y | None, None => true | _, _ => false end.

Inductive case :=
| CSearch (host : plat) (dl : list (option plat)) (obs : option nat)
| CPair (host t p : plat) (ocompat omatch obetter : bool)
| CParse (loc : plat) (s : string) (obs : option plat) (printed : string).

Definition check (c : case) : bool :=
  match c with
  | CSearch h dl obs => opt_eqb Nat.eqb (search h dl) obs
  | CPair h t p oc om ob =>
      Bool.eqb (compatible h t) oc && Bool.eqb (match_ h t) om && Bool.eqb (better_n (normalize h) t p) ob
  | CParse loc s obs pr =>
      opt_eqb plat_eqb (parse loc s) obs &&
      match parse loc s with Some p => print p =? pr | None => true end
  end.

Fixpoint mismatches_from (i : nat) (cs : list case) : list nat :=
  match cs with
  | [] => []
  | c :: cs' => if check c then mismatches_from (S i) cs' else i :: mismatches_from (S i) cs'
  end.
Definition mismatches := mismatches_from 0.
