(* Corr/C03.v — correspondence runner for image copy: the event trace reconstructed from what the target
   received must be accepted by the monitor; a successful copy must end with the root's closure present;
   every blob transfer must follow BlobCopy's ladder. *)
From Coq Require Import List Arith Bool.
From Verif Require Import Base.StrX Model.C03_Copy.
Import ListNotations.

Record blobobs := mkB { b_same_repo : bool; b_exists : bool; b_same_reg : bool; b_mount : bool; b_inline : bool; b_got : bool; b_uploaded : bool; b_mounted : bool }.
Record case := mkCase { c_refs : list (nat * list nat); c_tgt0 : list nat; c_trace : list ev; c_success : bool; c_root : nat;
                        c_blobs : list blobobs }.

Fixpoint lookup_refs (t : list (nat * list nat)) (d : nat) : list nat :=
  match t with [] => [] | (k, v) :: t' => if Nat.eqb k d then v else lookup_refs t' d end.

Definition blob_ok (b : blobobs) : bool :=
  let plan := blob_copy (b_same_repo b) (b_exists b) (b_same_reg b) (b_mount b) (b_inline b) in
  let has a := existsb (fun x => match a, x with AMount, AMount | AGetSrc, AGetSrc | AUpload, AUpload => true | _, _ => false end) plan in
  Bool.eqb (has AGetSrc) (b_got b) && Bool.eqb (has AUpload) (b_uploaded b) && Bool.eqb ((has AMount) && b_mount b) (b_mounted b).

Definition check (c : case) : bool :=
  let refs := lookup_refs (c_refs c) in
  match mrun refs (minit (c_tgt0 c) None) (c_trace c) with
  | None => false
  | Some s =>
      (negb (c_success c) || forallb (fun x => memd x (present s)) (reach refs 6 (c_root c))) &&
      forallb blob_ok (c_blobs c)
  end.

(* the head ladder of the root manifest copy (Model/C14_Head.v): requests observed for the tagged source/target manifest *)
From Verif Require Import Model.C14_Head.
Definition hcode (a : hact) : nat := match a with AHeadTgt => 0 | AHeadSrc => 1 | AGetSrcMan => 2 end.
Fixpoint nat_list_eqb (a b : list nat) : bool :=
  match a, b with [], [] => true | x :: a', y :: b' => Nat.eqb x y && nat_list_eqb a' b' | _, _ => false end.
Inductive xcase :=
| XC (c : case)
| XH (tgt known : option nat) (src : nat) (fast force refs dtags tl : bool) (obs : list nat) (skipped : bool).
Definition xcheck (x : xcase) : bool :=
  match x with
  | XC c => check c
  | XH tgt known src fast force refs dtags tl obs skipped =>
      let '(acts, sk) := head_ladder tgt known src fast force refs dtags tl in
      nat_list_eqb (map hcode acts) obs && Bool.eqb sk skipped
  end.

Fixpoint mismatches_from (i : nat) (cs : list xcase) : list nat :=
  match cs with
  | [] => []
  | c :: cs' => if xcheck c then mismatches_from (S i) cs' else i :: mismatches_from (S i) cs'
  end.
Definition mismatches := mismatches_from 0.
