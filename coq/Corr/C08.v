(* Corr/C08.v — every Close observed on the implementation must have kept exactly the files the model's sweep keeps
   (or all of them when no collection ran); every lock-table trace must have swept exactly where the model does. *)
From Coq Require Import List Arith Bool.
From Verif Require Import Model.C08_GC.
Import ListNotations.

Inductive case :=
| CGC (files : list nat) (content : list (nat * node)) (idx : list nat) (swept : bool) (kept : list nat)
| CLock (gc : bool) (evs : list lev) (obs : list bool).

Fixpoint lookup (t : list (nat * node)) (d : nat) : node :=
  match t with [] => NBlob | (k, v) :: t' => if Nat.eqb k d then v else lookup t' d end.
Fixpoint nats_eqb (a b : list nat) : bool :=
  match a, b with [], [] => true | x :: a', y :: b' => Nat.eqb x y && nats_eqb a' b' | _, _ => false end.
Fixpoint bools_eqb (a b : list bool) : bool :=
  match a, b with [], [] => true | x :: a', y :: b' => Bool.eqb x y && bools_eqb a' b' | _, _ => false end.

(* the sweep decisions of a trace: one boolean per Close *)
Fixpoint decisions (gc : bool) (s : lst) (t : list lev) : list bool :=
  match t with
  | [] => []
  | Close :: r => let s' := lstep gc s Close in
                  negb (Nat.eqb (length (swept_under s')) (length (swept_under s))) :: decisions gc s' r
  | e :: r => decisions gc (lstep gc s e) r
  end.

Definition check (c : case) : bool :=
  match c with
  | CGC files content idx swept kept =>
      let s := mkStore files (lookup content) in
      if swept then nats_eqb kept (sweep (length files + 2) s idx) else nats_eqb kept files
  | CLock gc evs obs => bools_eqb (decisions gc (mkL 0 false [] []) evs) obs
  end.

Fixpoint mismatches_from (i : nat) (cs : list case) : list nat :=
  match cs with
  | [] => []
  | c :: cs' => if check c then mismatches_from (S i) cs' else i :: mismatches_from (S i) cs'
  end.
Definition mismatches := mismatches_from 0.
