(* Corr/C11.v — the requests, challenges and token requests the model hosts saw are fed to the model of the code as it is
   (credentials function ignoring the host); the set of (registry, destination) pairs for which it predicts a
   credential transmission must be the set the hosts observed. *)
From Coq Require Import List Arith Bool.
From Verif Require Import Model.C11_Creds.
Import ListNotations.

(* c_seq: the operations of the case issue one request at a time.  Image copy does not: a request that was already in
   flight when a challenge arrived is observed after it, without credentials, and the sequential model then predicts a
   transmission that did not happen.  The direction that matters for the property - every transmission the hosts
   observed is one the model predicts - is required of every case, the converse of the sequential ones *)
Record case := mkCase { c_acts : list act; c_obs : list (nat * nat); c_seq : bool }.

Definition pairs (l : list sent) : list (nat * nat) := flat_map (fun s => match s with SCred o d => [(o, d)] | _ => [] end) l.
Definition mem2 (p : nat * nat) (l : list (nat * nat)) : bool := existsb (fun q => Nat.eqb (fst p) (fst q) && Nat.eqb (snd p) (snd q)) l.
Definition subset2 (a b : list (nat * nat)) : bool := forallb (fun p => mem2 p b) a.
Definition check (c : case) : bool :=
  let m := pairs (run true [] (c_acts c)) in subset2 (c_obs c) m && (negb (c_seq c) || subset2 m (c_obs c)).

Fixpoint mismatches_from (i : nat) (cs : list case) : list nat :=
  match cs with
  | [] => []
  | c :: cs' => if check c then mismatches_from (S i) cs' else i :: mismatches_from (S i) cs'
  end.
Definition mismatches := mismatches_from 0.
