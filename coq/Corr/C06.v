(* Corr/C06.v — correspondence runner for the layout index *)
From Coq Require Import List String Arith Bool.
From Verif Require Import Base.StrX Model.C06_Tags.
Import ListNotations.
Open Scope string_scope.

(* observed results use the same [res] type; digests are small numbers assigned by the harness *)
(* mkReg: a history on a registry repository that starts empty, against the abstract map itself *)
Inductive case :=
| mkCase (c_idx : list entry) (c_files : list nat) (c_ops : list op) (c_obs : list res)
| mkReg (ops : list op) (obs : list res).

Definition res_eqb (a b : res) : bool :=
  match a, b with
  | RDig x, RDig y => match x, y with Some p, Some q => Nat.eqb p q | None, None => true | _, _ => false end
  | RBool x, RBool y => Bool.eqb x y
  | RList x, RList y => list_eqb String.eqb x y
  | ROk, ROk => true
  | RErr, RErr => true
  | _, _ => false
  end.

Definition check (c : case) : bool :=
  match c with
  | mkCase c_idx c_files c_ops c_obs => list_eqb res_eqb (run (mkL c_idx c_files) c_ops) c_obs
  | mkReg ops obs => list_eqb res_eqb (spec_run (mkS [] []) ops) obs
  end.

Fixpoint mismatches_from (i : nat) (cs : list case) : list nat :=
  match cs with
  | [] => []
  | c :: cs' => if check c then mismatches_from (S i) cs' else i :: mismatches_from (S i) cs'
  end.
Definition mismatches := mismatches_from 0.
