(* Corr/C02.v — every call of manifest.New / ManifestGet made on the implementation must have accepted or rejected, and
   reported algorithm, digest, size and media type, as the model does on the same expectations. *)
From Coq Require Import List Arith Bool.
From Verif Require Import Model.C02_Manifest.
Import ListNotations.

(* instantiation: the one body is byte string 1 of length 7; digests are algorithm*100 + bytes *)
Definition hash (a r : nat) : nat := a * 100 + r.
Definition len (_ : nat) : nat := 7.
Definition supported (m : nat) : bool := match m with 1 | 2 | 3 | 4 | 5 | 6 | 8 => true | _ => false end.

Inductive case :=
| CNew (e_desc e_ref e_hdr : option (nat * nat)) (mt_desc mt_hdr body_mt detected : nat) (parses : bool)
       (obs : option (nat * nat * nat * nat * bool)).

Definition check (c : case) : bool :=
  match c with
  | CNew e_desc e_ref e_hdr mt_desc mt_hdr bmt det parses obs =>
      let parse := fun (m _ : nat) => if parses && supported m then Some 1 else None in
      match new nat nat hash len parse (fun _ => bmt) (fun _ => det) e_desc e_ref e_hdr mt_desc mt_hdr 1, obs with
      | None, None => true
      | Some m, Some (a, d, s, t, rawp) =>
          Nat.eqb (alg _ _ m) a && Nat.eqb (dg _ _ m) d && Nat.eqb (size _ _ m) s && Nat.eqb (mt _ _ m) t && rawp
      | _, _ => false
      end
  end.

Fixpoint mismatches_from (i : nat) (cs : list case) : list nat :=
  match cs with
  | [] => []
  | c :: cs' => if check c then mismatches_from (S i) cs' else i :: mismatches_from (S i) cs'
  end.
Definition mismatches := mismatches_from 0.
