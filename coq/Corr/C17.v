(* Corr/C17.v — correspondence runner: the model is stepped with the events the harness observed on the
   real pqueue and must reproduce the hook snapshot (ordered active and queued lists) after each. *)
From Coq Require Import List Arith Bool.
From Verif Require Import Base.StrX Model.C17_PQueue.
Import ListNotations.

Record obs := mkObs { o_q : nat; o_ev : event; o_chk : bool; o_active : list nat; o_queued : list nat }.
Record case := mkCase { c_max : list nat; c_trace : list obs }.

Definition leqb := list_eqb Nat.eqb.

Fixpoint upd {A} (i : nat) (x : A) (l : list A) : list A :=
  match i, l with
  | _, [] => []
  | 0, _ :: l' => x :: l'
  | S i', y :: l' => y :: upd i' x l'
  end.

Fixpoint replay (qs : list q) (t : list obs) : bool :=
  match t with
  | [] => true
  | o :: t' =>
      match nth_error qs (o_q o) with
      | None => false
      | Some s =>
          enabled s (o_ev o) &&
          let s' := fst (step s (o_ev o)) in
          (negb (o_chk o) || (leqb (active s') (o_active o) && leqb (queued s') (o_queued o))) &&
          (length (active s') <=? qmax s') &&
          replay (upd (o_q o) s' qs) t'
      end
  end.

Definition check (c : case) : bool := replay (map init (c_max c)) (c_trace c).

Fixpoint mismatches_from (i : nat) (cs : list case) : list nat :=
  match cs with
  | [] => []
  | c :: cs' => if check c then mismatches_from (S i) cs' else i :: mismatches_from (S i) cs'
  end.
Definition mismatches := mismatches_from 0.
