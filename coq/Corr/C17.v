(* Corr/C17.v — correspondence runner: the model is stepped with the events the harness observed on the
   real pqueue and must reproduce the hook snapshot (ordered active and queued lists) after each. *)
From Coq Require Import List Arith Bool.
From Verif Require Import Base.StrX Model.C17_PQueue Model.C17_Multi.
Import ListNotations.

Record obs := mkObs { o_q : nat; o_ev : event; o_chk : bool; o_active : list nat; o_queued : list nat }.
(* scripted AcquireMulti scenario against the composed model: caller 0 is the AcquireMulti call, every other caller
   is one filler slot; the snapshot of every queue must be reproduced exactly at each stable point *)
Inductive mstep :=
| MStep (x : nat)            (* one critical section of caller x *)
| MRun (x : nat)             (* caller x runs until it blocks or holds everything *)
| MFin (x : nat)             (* caller x runs to the end (release function included) *)
| MObs (snaps : list (list nat * list nat)) (mst : nat).   (* observed queues; state of caller 0: 1 waiting, 2 holding all, 3 done *)

Inductive case :=
| mkCase (c_max : list nat) (c_trace : list obs)
| mkMulti (maxes : list nat) (wants : list (list nat)) (script : list mstep).

Definition leqb := list_eqb Nat.eqb.

Fixpoint upd {A} (i : nat) (x : A) (l : list A) : list A :=
  match i, l with
  | _, [] => []
  | 0, _ :: l' => x :: l'
  | S i', y :: l' => y :: upd i' x l'
  end.

Fixpoint replay (qs : list q) (t : list obs) : bool :=
  match t with
  | [] => true
  | o :: t' =>
      match nth_error qs (o_q o) with
      | None => false
      | Some s =>
          enabled s (o_ev o) &&
          let s' := fst (step s (o_ev o)) in
          (negb (o_chk o) || (leqb (active s') (o_active o) && leqb (queued s') (o_queued o))) &&
          (length (active s') <=? qmax s') &&
          replay (upd (o_q o) s' qs) t'
      end
  end.

Fixpoint snaps_ok (s : sys) (k : nat) (snaps : list (list nat * list nat)) : bool :=
  match snaps with
  | [] => true
  | (a, w) :: r => leqb (active (qs s k)) a && leqb (queued (qs s k)) w && snaps_ok s (S k) r
  end.
Definition mst_ok (s : sys) (m : nat) : bool :=
  match st (cs s 0), m with
  | CWait _, 1 => true
  | CHold, 2 => true
  | CDone, 3 => true
  | _, _ => false
  end.
Fixpoint mreplay (s : sys) (sc : list mstep) : bool :=
  match sc with
  | [] => true
  | MStep x :: r => match cstep s x 0 with Some s' => mreplay s' r | None => false end
  | MRun x :: r => mreplay (run_caller 64 s x true) r
  | MFin x :: r => mreplay (run_caller 64 s x false) r
  | MObs snaps m :: r => snaps_ok s 0 snaps && mst_ok s m && mreplay s r
  end.

Definition check (c : case) : bool :=
  match c with
  | mkCase c_max c_trace => replay (map init c_max) c_trace
  | mkMulti maxes wants script => mreplay (init_sys maxes wants) script
  end.

Fixpoint mismatches_from (i : nat) (cs : list case) : list nat :=
  match cs with
  | [] => []
  | c :: cs' => if check c then mismatches_from (S i) cs' else i :: mismatches_from (S i) cs'
  end.
Definition mismatches := mismatches_from 0.
