(* Corr/C12.v — correspondence runner for Resp.next *)
From Coq Require Import List Arith Bool ZArith.
From Verif Require Import Base.StrX Gen.StatusClass Model.C12_Retry Model.C12_Backoff.
Import ListNotations.

(* observed: hosts attempted in order; result code 0 = success at host (second component), 1 = retry limit,
   2 = all requests failed *)
(* mkBackoff: a series of requests to one host; the (backoff count, success count) pairs the hook showed at every
   request must be those of the bookkeeping model *)
Inductive case :=
| mkCase (c_limit : nat) (c_ignore : bool) (c_nomirrors : bool) (c_mirrors : list host) (c_up : host)
         (c_replies : list reply) (c_attempts : list nat) (c_res : nat * nat)
| mkBackoff (limit : nat) (events : list bev) (counters : list (nat * nat))
(* mkOrder: the host the next request went to first, given which hosts are waiting for a release time *)
| mkOrder (now : Z) (hosts : list bhost) (first : nat).

Definition res_code (r : result) : nat * nat :=
  match r with Success h => (0, h) | RetryLimit => (1, 0) | AllFailed => (2, 0) | OutOfFuel => (9, 0) end.

Definition pair_eqb (a b : nat * nat) : bool := Nat.eqb (fst a) (fst b) && Nat.eqb (snd a) (snd b).
Definition check (c : case) : bool :=
  match c with
  | mkCase c_limit c_ignore c_nomirrors c_mirrors c_up c_replies c_attempts c_res =>
      let '(tr, r) := do_request c_limit c_ignore c_nomirrors c_mirrors c_up c_replies in
      list_eqb Nat.eqb tr c_attempts && Nat.eqb (fst (res_code r)) (fst c_res) && Nat.eqb (snd (res_code r)) (snd c_res)
  | mkBackoff limit events counters => list_eqb pair_eqb (bcounters limit b0 events) counters
  | mkOrder now hosts first => match sort_bhosts now hosts with h :: _ => Nat.eqb (h_id (bh h)) first | [] => false end
  end.

Fixpoint mismatches_from (i : nat) (cs : list case) : list nat :=
  match cs with
  | [] => []
  | c :: cs' => if check c then mismatches_from (S i) cs' else i :: mismatches_from (S i) cs'
  end.
Definition mismatches := mismatches_from 0.
