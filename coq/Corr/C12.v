(* Corr/C12.v — correspondence runner for Resp.next *)
From Coq Require Import List Arith Bool.
From Verif Require Import Base.StrX Gen.StatusClass Model.C12_Retry.
Import ListNotations.

(* observed: hosts attempted in order; result code 0 = success at host (second component), 1 = retry limit,
   2 = all requests failed *)
Record case := mkCase { c_limit : nat; c_ignore : bool; c_nomirrors : bool; c_mirrors : list host; c_up : host;
                        c_replies : list reply; c_attempts : list nat; c_res : nat * nat }.

Definition res_code (r : result) : nat * nat :=
  match r with Success h => (0, h) | RetryLimit => (1, 0) | AllFailed => (2, 0) | OutOfFuel => (9, 0) end.

Definition check (c : case) : bool :=
  let '(tr, r) := do_request (c_limit c) (c_ignore c) (c_nomirrors c) (c_mirrors c) (c_up c) (c_replies c) in
  list_eqb Nat.eqb tr (c_attempts c) && Nat.eqb (fst (res_code r)) (fst (c_res c)) && Nat.eqb (snd (res_code r)) (snd (c_res c)).

Fixpoint mismatches_from (i : nat) (cs : list case) : list nat :=
  match cs with
  | [] => []
  | c :: cs' => if check c then mismatches_from (S i) cs' else i :: mismatches_from (S i) cs'
  end.
Definition mismatches := mismatches_from 0.
