(* Corr/C09.v — every import the implementation performed into a registry must have produced exactly the uploads and
   manifest pushes (or the failure) the model produces on the same archive; every export must have written the
   digests in the order of the model's walk. *)
From Coq Require Import List Arith Bool.
From Verif Require Import Model.C09_Import.
From Coq Require String.
From Verif Require Model.C15_Ref Proofs.C09t.
Import ListNotations.

Inductive case :=
| CImp (es : list entry) (lok : bool) (ix : list (nat * cls * nat)) (cont : list (nat * node)) (dk : list dimg) (empty : nat)
       (q : sel) (bp mp : list nat) (obs : option (list ev))
| CExp (cont : list (nat * node)) (root : nat) (order : list nat)
| CTag (ref_text repo_tag_obs : String.string).   (* export reference (a registry reference) and the RepoTags entry written *)

Fixpoint lookup (t : list (nat * node)) (d : nat) : node :=
  match t with [] => NBlob | (k, v) :: t' => if Nat.eqb k d then v else lookup t' d end.
Fixpoint nats_eqb (a b : list nat) : bool :=
  match a, b with [], [] => true | x :: a', y :: b' => Nat.eqb x y && nats_eqb a' b' | _, _ => false end.
Definition on_eqb (a b : option nat) : bool :=
  match a, b with None, None => true | Some x, Some y => Nat.eqb x y | _, _ => false end.
Fixpoint ons_eqb (a b : list (option nat)) : bool :=
  match a, b with [], [] => true | x :: a', y :: b' => on_eqb x y && ons_eqb a' b' | _, _ => false end.
Definition ev_eqb (a b : ev) : bool :=
  match a, b with
  | EvBlob x, EvBlob y | EvPut x, EvPut y | EvTag x, EvTag y | EvDConfig x, EvDConfig y | EvDLayer x, EvDLayer y => Nat.eqb x y
  | EvDMan c l, EvDMan c' l' => on_eqb c c' && ons_eqb l l'
  | _, _ => false
  end.
Fixpoint evs_eqb (a b : list ev) : bool :=
  match a, b with [], [] => true | x :: a', y :: b' => ev_eqb x y && evs_eqb a' b' | _, _ => false end.

Definition check (c : case) : bool :=
  match c with
  | CImp es lok ix cont dk empty q bp mp obs =>
      let a := mkArch es lok ix (lookup cont) dk empty in
      match import (length es + 4) a q bp mp, obs with
      | Some (inl evs), Some o => evs_eqb evs o
      | Some (inr _), None => true
      | _, _ => false
      end
  | CExp cont root order => nats_eqb (export (length cont + 2) (lookup cont) [] (XMan root)) order
  | CTag rt obs =>
      match C15_Ref.parse (C15_Ref.of_string rt) with
      | Some r => C15_Ref.str_eqb (C09t.repo_tag r) (C15_Ref.of_string obs)
      | None => false
      end
  end.

Fixpoint mismatches_from (i : nat) (cs : list case) : list nat :=
  match cs with
  | [] => []
  | c :: cs' => if check c then mismatches_from (S i) cs' else i :: mismatches_from (S i) cs'
  end.
Definition mismatches := mismatches_from 0.
