(* Corr/C20.v — correspondence runner for path cleaning and destination computation *)
From Coq Require Import List String Ascii Bool.
From Verif Require Import Base.StrX Model.C15_Ref Model.C20_Paths.
Import ListNotations.
Open Scope string_scope.

Inductive case :=
| CClean (s : string) (o : string)                       (* path.Clean *)
| CJoin (a b : string) (o : string)                      (* filepath.Join(a, b) *)
| CArtifact (outdir title enc : string) (unpack strip : bool) (target : string)  (* regctl artifact get: file/dir written *)
| CExtract (dir name : string) (o : string)              (* archive.Extract destination of one entry *)
| CDigest (d : string) (valid : bool).                   (* digest.Validate *)

Definition seqb (a : str) (b : string) : bool := str_eqb a (of_string b).

Definition check (c : case) : bool :=
  match c with
  | CClean s o => seqb (clean (of_string s)) o
  | CJoin a b o => seqb (join [of_string a; of_string b]) o
  | CArtifact od t e u st tgt => seqb (d_target (artifact_dest (of_string od) (of_string t) (of_string e) u st)) tgt
  | CExtract d n o => seqb (extract_dest (of_string d) (of_string n)) o
  | CDigest d v => Bool.eqb (match digest_valid (of_string d) with Some _ => true | None => false end) v
  end.

Fixpoint mismatches_from (i : nat) (cs : list case) : list nat :=
  match cs with
  | [] => []
  | c :: cs' => if check c then mismatches_from (S i) cs' else i :: mismatches_from (S i) cs'
  end.
Definition mismatches := mismatches_from 0.
