(* Corr/C13.v — the layers and the history of every image the implementation produced, identified by provenance (which
   original layer / history entry each one derives from), must be what the model's rewriting produces from the same
   marks. *)
From Coq Require Import List Arith Bool.
From Verif Require Import Model.C13_Mod.
Import ListNotations.

Record case := mkCase { c_norig : nat; c_hist : list (bool * nat); c_nohist : bool; c_deleted : list nat; c_nadded : nat; c_layers : list nat; c_histobs : list nat }.

Fixpoint nats_eqb (a b : list nat) : bool :=
  match a, b with [], [] => true | x :: a', y :: b' => Nat.eqb x y && nats_eqb a' b' | _, _ => false end.
Definition entries (c : case) : list entry :=
  map (fun i => mkE (if existsb (Nat.eqb i) (c_deleted c) then MDeleted else MUnchanged) 0 0) (seq 0 (c_norig c)) ++
  map (fun j => mkE MAdded (100 + j) (100 + j)) (seq 0 (c_nadded c)).
Definition check (c : case) : bool :=
  let lds := map (fun i => (S i, S i)) (seq 0 (c_norig c)) in
  let hs := map (fun p => mkHi (fst p) (snd p)) (c_hist c) in
  if c_nohist c then
    (* no history in the config: only the layers are rewritten *)
    match rew (entries c) lds (map (fun i => mkHi false (S i)) (seq 0 (c_norig c))) with
    | Some (o, _) => nats_eqb (map fst o) (c_layers c)
    | None => false
    end
  else
    match rew (entries c) lds hs with
    | Some (o, h) => nats_eqb (map fst o) (c_layers c) && nats_eqb (map h_id h) (c_histobs c)
    | None => false
    end.

(* rebase-only runs: the image has layers 1..n with the history the generator wrote; the old base is its first layer with
   the history up to and including that layer's line; the new base is one layer (id 900) with one history line (id 900) *)
From Verif Require Import Model.C13_Rebase.
Fixpoint upto_first_layer (h : list (bool * nat)) : list (bool * nat) :=
  match h with
  | [] => []
  | e :: h' => if fst e then e :: upto_first_layer h' else [e]
  end.
Definition check_rebase (n : nat) (hist : list (bool * nat)) (lay ho : list nat) : bool :=
  let ids := map S (seq 0 n) in
  match rebase nat nat nat Nat.eqb Nat.eqb Nat.eqb (mkImg _ _ _ ids ids hist)
               (mkImg _ _ _ (firstn 1 ids) (firstn 1 ids) (upto_first_layer hist)) (mkImg _ _ _ [900] [900] [(false, 900)]) with
  | Some r => nats_eqb (layers _ _ _ r) lay && nats_eqb (map snd (history _ _ _ r)) ho
  | None => false
  end.

Inductive xcase := XM (c : case) | XRB (n : nat) (hist : list (bool * nat)) (lay ho : list nat).
Definition xcheck (x : xcase) : bool := match x with XM c => check c | XRB n h l o => check_rebase n h l o end.

Fixpoint mismatches_from (i : nat) (cs : list xcase) : list nat :=
  match cs with
  | [] => []
  | c :: cs' => if xcheck c then mismatches_from (S i) cs' else i :: mismatches_from (S i) cs'
  end.
Definition mismatches := mismatches_from 0.
