(* Corr/C07.v — the mutating system calls traced from the implementation, normalised by the harness, must be
   within the write discipline when started from the (abstracted) directory the operation found. *)
From Coq Require Import List Arith Bool.
From Verif Require Import Base.StrX Model.C07_LayoutFS.
Import ListNotations.

Record case := mkCase { c_refs : list (nat * list nat); c_marker : bool; c_index : option (list (nat * nat)); c_blobs : list nat; c_ops : list fsop }.

Fixpoint lookup_refs (t : list (nat * list nat)) (d : nat) : list nat :=
  match t with [] => [] | (k, v) :: t' => if Nat.eqb k d then v else lookup_refs t' d end.

Definition fs0 (c : case) : fs := fun p =>
  match p with
  | PLayout => if c_marker c then Some [TLayout] else None
  | PIndex => match c_index c with Some e => Some [TIndex e] | None => None end
  | PBlob d => if existsb (Nat.eqb d) (c_blobs c) then Some [TBlob d] else None
  | PTmp _ => None
  end.

Definition check (c : case) : bool := accepted (lookup_refs (c_refs c)) (fs0 c) (c_ops c).

Fixpoint mismatches_from (i : nat) (cs : list case) : list nat :=
  match cs with
  | [] => []
  | c :: cs' => if check c then mismatches_from (S i) cs' else i :: mismatches_from (S i) cs'
  end.
Definition mismatches := mismatches_from 0.
