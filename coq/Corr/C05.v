(* Corr/C05.v — correspondence runner for the chunked upload loop *)
From Coq Require Import List ZArith NArith Bool Arith.
From Verif Require Import Base.StrX Model.C05_Upload Model.C05_Chunk.
Import ListNotations.
Open Scope Z_scope.

(* observed: success?, error class (0 none/other, 1 offsets, 2 digest, 3 size), PATCH log *)
(* mkLayout: a BlobPut into an OCI layout: observed success, and whether a file now exists under the digest of the stream *)
Inductive case :=
| mkCase (c_stream : bytes) (c_cap : nat) (c_held : bytes) (c_script : list sact)
         (c_declared : option bytes) (c_dsize : Z) (c_ok : bool) (c_err : nat) (c_log : list (Z * Z))
| mkLayout (stream : bytes) (declared : option bytes) (dsize : Z) (ok : bool) (stored : bool)
| mkChunk (host_chunk minsize len first : Z).   (* a registry announcing OCI-Chunk-Min-Length: length of the first PATCH *)

Definition err_code (o : outcome) : nat :=
  match o with EMismatchOffsets => 1 | EDigest => 2 | ESize => 3 | OutOfFuel => 9 | _ => 0 end%nat.

Definition pair_eqb (a b : Z * Z) : bool := (fst a =? fst b) && (snd a =? snd b).

Definition check (c : case) : bool :=
  match c with
  | mkCase c_stream c_cap c_held c_script c_declared c_dsize c_ok c_err c_log =>
      let fuel := (length c_stream + length c_script + 20)%nat in
      let '(o, committed, lg) := upload fuel c_stream c_cap c_held c_script c_declared c_dsize in
      let ok := match o with Done => true | _ => false end in
      Bool.eqb ok c_ok && (ok || Nat.eqb (err_code o) c_err) && list_eqb pair_eqb lg c_log &&
      (negb ok || match committed with Some b => beq b c_stream | None => false end)
  | mkLayout stream declared dsize ok stored =>
      let '(r, st) := layout_put declared dsize stream [] in
      let mok := match r with LOk _ _ => true | _ => false end in
      Bool.eqb mok ok && Bool.eqb (existsb (fun p => beq (fst p) stream) st) stored
  | mkChunk hc m len first => (first =? first_chunk hc 1048576 1073741824 m len)%Z   (* defaultBlobChunk, defaultBlobChunkLimit *)
  end.

Fixpoint mismatches_from (i : nat) (cs : list case) : list nat :=
  match cs with
  | [] => []
  | c :: cs' => if check c then mismatches_from (S i) cs' else i :: mismatches_from (S i) cs'
  end.
Definition mismatches := mismatches_from 0.
