(* Corr/C05.v — correspondence runner for the chunked upload loop *)
From Coq Require Import List ZArith NArith Bool Arith.
From Verif Require Import Base.StrX Model.C05_Upload.
Import ListNotations.
Open Scope Z_scope.

(* observed: success?, error class (0 none/other, 1 offsets, 2 digest, 3 size), PATCH log *)
Record case := mkCase { c_stream : bytes; c_cap : nat; c_held : bytes; c_script : list sact;
                        c_declared : option bytes; c_dsize : Z; c_ok : bool; c_err : nat; c_log : list (Z * Z) }.

Definition err_code (o : outcome) : nat :=
  match o with EMismatchOffsets => 1 | EDigest => 2 | ESize => 3 | OutOfFuel => 9 | _ => 0 end%nat.

Definition pair_eqb (a b : Z * Z) : bool := (fst a =? fst b) && (snd a =? snd b).

Definition check (c : case) : bool :=
  let fuel := (length (c_stream c) + length (c_script c) + 20)%nat in
  let '(o, committed, lg) := upload fuel (c_stream c) (c_cap c) (c_held c) (c_script c) (c_declared c) (c_dsize c) in
  let ok := match o with Done => true | _ => false end in
  Bool.eqb ok (c_ok c) && (ok || Nat.eqb (err_code o) (c_err c)) && list_eqb pair_eqb lg (c_log c) &&
  (negb ok || match committed with Some b => beq b (c_stream c) | None => false end).

Fixpoint mismatches_from (i : nat) (cs : list case) : list nat :=
  match cs with
  | [] => []
  | c :: cs' => if check c then mismatches_from (S i) cs' else i :: mismatches_from (S i) cs'
  end.
Definition mismatches := mismatches_from 0.
