(* Corr/C10.v — every result of a history run on the implementation must be the model's result (listings compared as
   multisets: the registry's order is its own) *)
From Coq Require Import List Arith Bool.
From Verif Require Import Model.C10_Referrers.
Import ListNotations.

Record case := mkCase { c_backend : backend; c_cache : bool; c_info : list (nat * info); c_ops : list op; c_obs : list res }.

Fixpoint lookup (t : list (nat * info)) (d : nat) : info :=
  match t with [] => mkInfo 0 0 [] | (k, v) :: t' => if Nat.eqb k d then v else lookup t' d end.
Fixpoint insert (x : nat) (l : list nat) : list nat :=
  match l with [] => [x] | y :: r => if Nat.leb x y then x :: l else y :: insert x r end.
Definition sortn (l : list nat) : list nat := fold_right insert [] l.
Fixpoint nats_eqb (a b : list nat) : bool :=
  match a, b with [], [] => true | x :: a', y :: b' => Nat.eqb x y && nats_eqb a' b' | _, _ => false end.
Definition res_eqb (a b : res) : bool :=
  match a, b with
  | ROk, ROk | RErr, RErr => true
  | RList x, RList y => nats_eqb (sortn x) (sortn y)
  | _, _ => false
  end.
Fixpoint ress_eqb (a b : list res) : bool :=
  match a, b with [], [] => true | x :: a', y :: b' => res_eqb x y && ress_eqb a' b' | _, _ => false end.

Definition check (c : case) : bool :=
  ress_eqb (snd (run (lookup (c_info c)) (c_backend c) (c_cache c) init (c_ops c))) (c_obs c).

Fixpoint mismatches_from (i : nat) (cs : list case) : list nat :=
  match cs with
  | [] => []
  | c :: cs' => if check c then mismatches_from (S i) cs' else i :: mismatches_from (S i) cs'
  end.
Definition mismatches := mismatches_from 0.
