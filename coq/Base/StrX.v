(* Base/StrX.v — small executable string helpers shared by the models (no proofs of
   properties here; a few characterising lemmas only). *)
From Coq Require Import List String Ascii ZArith Bool Lia NArith.
Import ListNotations.
Open Scope string_scope.

(* byte-level construction used by generated case files: strings with non-printable bytes
   are emitted as [bs [n1; n2; ...]] *)
Fixpoint bs (l : list N) : string :=
  match l with [] => EmptyString | n :: l' => String (ascii_of_N n) (bs l') end.

Definition ch_eqb (a b : ascii) : bool := Ascii.eqb a b.

Fixpoint split_aux (sep : ascii) (cur : string -> string) (s : string) : list string :=
  match s with
  | EmptyString => [cur EmptyString]
  | String c s' => if Ascii.eqb c sep then cur EmptyString :: split_aux sep (fun x => x) s'
                   else split_aux sep (fun x => cur (String c x)) s'
  end.
(* Go strings.Split(s, sep) for a one-byte separator: always at least one element *)
Definition split (sep : ascii) (s : string) : list string := split_aux sep (fun x => x) s.

Fixpoint join (sep : string) (l : list string) : string :=
  match l with
  | [] => ""
  | [x] => x
  | x :: l' => x ++ sep ++ join sep l'
  end.

Definition is_digit (c : ascii) : bool :=
  let n := N_of_ascii c in (48 <=? n)%N && (n <=? 57)%N.
Definition is_lower (c : ascii) : bool :=
  let n := N_of_ascii c in (97 <=? n)%N && (n <=? 122)%N.
Definition is_upper (c : ascii) : bool :=
  let n := N_of_ascii c in (65 <=? n)%N && (n <=? 90)%N.
Definition to_lower_c (c : ascii) : ascii :=
  if is_upper c then ascii_of_N (N_of_ascii c + 32) else c.
Fixpoint to_lower (s : string) : string :=
  match s with EmptyString => EmptyString | String c s' => String (to_lower_c c) (to_lower s') end.

Fixpoint all_chars (p : ascii -> bool) (s : string) : bool :=
  match s with EmptyString => true | String c s' => p c && all_chars p s' end.

Fixpoint digits_val (acc : Z) (s : string) : Z :=
  match s with
  | EmptyString => acc
  | String c s' => digits_val (acc * 10 + Z.of_N (N_of_ascii c - 48)) s'
  end.

(* Go strconv.Atoi on a 64-bit platform: optional sign, one or more decimal digits, error on
   anything else (base 10 accepts no underscores) and on overflow of int64. *)
Definition atoi (s : string) : option Z :=
  let '(neg, body) :=
    match s with
    | String "+" r => (false, r)
    | String "-" r => (true, r)
    | _ => (false, s)
    end in
  match body with
  | EmptyString => None
  | _ => if all_chars is_digit body then
           let v := digits_val 0 body in
           let v' := if neg then (- v)%Z else v in
           if ((-9223372036854775808 <=? v') && (v' <=? 9223372036854775807))%Z then Some v' else None
         else None
  end.

Definition trim_prefix (p s : string) : string :=
  if String.prefix p s then String.substring (String.length p) (String.length s - String.length p) s else s.

Definition str_in (s : string) (l : list string) : bool := existsb (String.eqb s) l.

Fixpoint list_eqb {A} (eqb : A -> A -> bool) (a b : list A) : bool :=
  match a, b with
  | [], [] => true
  | x :: a', y :: b' => eqb x y && list_eqb eqb a' b'
  | _, _ => false
  end.

Lemma list_eqb_refl {A} (eqb : A -> A -> bool) (Hr : forall x, eqb x x = true) l : list_eqb eqb l l = true.
Proof. induction l as [|x l IH]; cbn; [reflexivity|]. now rewrite Hr, IH. Qed.

(* hex decoding used by generated case files: parsing one string literal is much faster than a list of
   numerals *)
Definition hexval (c : ascii) : N :=
  let n := N_of_ascii c in
  if (48 <=? n)%N && (n <=? 57)%N then (n - 48)%N else if (97 <=? n)%N && (n <=? 102)%N then (n - 87)%N else 0%N.
Fixpoint hx (s : string) : list N :=
  match s with
  | String a (String b r) => (hexval a * 16 + hexval b)%N :: hx r
  | _ => []
  end.
Definition hs (s : string) : string := bs (hx s).
