(* Proofs/C06l.v — the reverse delete loop removes exactly the matching elements and never indexes out of range;
   the forward loop does not. *)
From Coq Require Import List Arith Bool Lia.
From Verif Require Import Model.C06_Loops.
Import ListNotations.

Section L.
  Context {A : Type} (p : A -> bool).
  Let np := fun x => negb (p x).

  Lemma nth_error_mid (pre post : list A) x : nth_error (pre ++ x :: post) (length pre) = Some x.
  Proof. induction pre as [|y pre IH]; [reflexivity|exact IH]. Qed.
  Lemma delete_at_mid (pre post : list A) x : delete_at (length pre) (pre ++ x :: post) = pre ++ post.
  Proof. induction pre as [|y pre IH]; [reflexivity|]. cbn. now rewrite IH. Qed.

  Lemma rev_loop_spec : forall pre post, rev_loop p (length pre) (pre ++ post) = Some (filter np pre ++ post).
  Proof.
    induction pre as [|x pre IH] using rev_ind; intros post; [reflexivity|].
    rewrite app_length, Nat.add_comm. cbn [length plus rev_loop]. rewrite <- app_assoc. cbn [app].
    rewrite nth_error_mid. destruct (p x) eqn:E.
    - rewrite delete_at_mid, IH, filter_app. cbn [filter]. replace (np x) with false by (unfold np; now rewrite E).
      now rewrite app_nil_r.
    - rewrite IH, filter_app. cbn [filter]. replace (np x) with true by (unfold np; now rewrite E).
      now rewrite <- app_assoc.
  Qed.

  Theorem rev_delete_exact (l : list A) : rev_delete p l = Some (filter np l).
  Proof. unfold rev_delete. rewrite <- (app_nil_r l) at 2. rewrite rev_loop_spec. now rewrite app_nil_r. Qed.
End L.

(* the forward loop leaves the second of two adjacent matching elements *)
Theorem fwd_delete_refuted : exists (l : list nat), fwd_delete (Nat.eqb 7) l <> filter (fun x => negb (Nat.eqb 7 x)) l.
Proof. exists [1; 7; 7; 2]. vm_compute. discriminate. Qed.
