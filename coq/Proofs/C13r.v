(* Proofs/C13r.v — rebase keeps layers, diff_ids and history aligned and keeps every layer paired with its diff_id *)
From Coq Require Import List Arith Bool Lia.
From Verif Require Import Model.C13_Rebase.
Import ListNotations.

Section P.
  Variables L D H : Type.
  Variable leqb : L -> L -> bool.
  Variable deqb : D -> D -> bool.
  Variable heqb : H -> H -> bool.

  Notation img := (img L D H).
  Notation nonempty := (nonempty H).

  Lemma nonempty_app (a b : list (bool * H)) : nonempty (a ++ b) = nonempty a + nonempty b.
  Proof. unfold C13_Rebase.nonempty. now rewrite filter_app, app_length. Qed.

  Lemma prefix_len {A} (eqb : A -> A -> bool) : forall p l, prefix_eqb eqb p l = true -> length p <= length l.
  Proof. induction p as [|x p IH]; intros [|y l] Hp; cbn in *; try lia; try discriminate. apply andb_prop in Hp as [_ Hp]. apply IH in Hp. lia. Qed.

  (* a history prefix that agrees entry by entry on the empty-layer flag has the same number of layer entries *)
  Lemma prefix_nonempty : forall p l, prefix_eqb (hist_eqb H heqb) p l = true -> nonempty (firstn (length p) l) = nonempty p.
  Proof.
    induction p as [|x p IH]; intros [|y l] Hp; cbn in *; try reflexivity; try discriminate.
    apply andb_prop in Hp as [Hxy Hp]. unfold hist_eqb in Hxy. apply andb_prop in Hxy as [Hf _]. apply Bool.eqb_prop in Hf.
    specialize (IH l Hp). unfold C13_Rebase.nonempty in *. cbn [filter]. rewrite Hf. destruct (negb (fst y)); cbn [length]; lia.
  Qed.

  Theorem rebase_aligned (i old new r : img) :
    aligned L D H i -> rebase L D H leqb deqb heqb i old new = Some r -> aligned L D H r.
  Proof.
    intros [Hld Hh] Hr. unfold rebase in Hr.
    destruct (prefix_eqb leqb (layers _ _ _ old) (layers _ _ _ i)) eqn:P1; [|discriminate].
    destruct (prefix_eqb (hist_eqb H heqb) (history _ _ _ old) (history _ _ _ i)) eqn:P2; [|discriminate].
    destruct (Nat.eqb (length (layers _ _ _ old)) (nonempty (history _ _ _ old))) eqn:E1; [|discriminate].
    destruct (Nat.eqb (length (layers _ _ _ old)) (length (diffids _ _ _ old))) eqn:E2; [|discriminate].
    destruct (prefix_eqb deqb (diffids _ _ _ old) (diffids _ _ _ i)) eqn:P3; [|discriminate].
    destruct (Nat.eqb (length (layers _ _ _ new)) (nonempty (history _ _ _ new))) eqn:E3; [|discriminate].
    destruct (Nat.eqb (length (diffids _ _ _ new)) (nonempty (history _ _ _ new))) eqn:E4; [|discriminate].
    cbn in Hr. injection Hr as <-.
    apply Nat.eqb_eq in E1, E2, E3, E4.
    pose proof (prefix_len leqb _ _ P1) as L1. pose proof (prefix_len deqb _ _ P3) as L3.
    pose proof (prefix_nonempty _ _ P2) as N2.
    assert (Hsplit : nonempty (history _ _ _ i) = nonempty (firstn (length (history _ _ _ old)) (history _ _ _ i)) + nonempty (skipn (length (history _ _ _ old)) (history _ _ _ i))).
    { rewrite <- nonempty_app. now rewrite firstn_skipn. }
    unfold aligned; cbn [layers diffids history]. rewrite !app_length, !skipn_length, nonempty_app. split; lia.
  Qed.

  Lemma skipn_combine {A B} : forall (a : list A) (b : list B) n, skipn n (combine a b) = combine (skipn n a) (skipn n b).
  Proof. induction a as [|x a IH]; intros [|y b] [|n]; cbn; try reflexivity; [now destruct (skipn n a)|apply IH]. Qed.
  Lemma combine_app_eq {A B} : forall (a c : list A) (b d : list B), length a = length b -> combine (a ++ c) (b ++ d) = combine a b ++ combine c d.
  Proof. induction a as [|x a IH]; intros c [|y b] d Hl; cbn in *; try lia; [reflexivity|]. f_equal. apply IH. lia. Qed.

  (* every layer of the result keeps its own diff_id: the new base's pairs, then the image's pairs beyond the old base *)
  Theorem rebase_pairs (i old new r : img) :
    rebase L D H leqb deqb heqb i old new = Some r ->
    combine (layers _ _ _ r) (diffids _ _ _ r) =
    combine (layers _ _ _ new) (diffids _ _ _ new) ++ skipn (length (layers _ _ _ old)) (combine (layers _ _ _ i) (diffids _ _ _ i)).
  Proof.
    intros Hr. unfold rebase in Hr.
    destruct (prefix_eqb leqb (layers _ _ _ old) (layers _ _ _ i)) eqn:P1; [|discriminate].
    destruct (prefix_eqb (hist_eqb H heqb) (history _ _ _ old) (history _ _ _ i)) eqn:P2; [|discriminate].
    destruct (Nat.eqb (length (layers _ _ _ old)) (nonempty (history _ _ _ old))) eqn:E1; [|discriminate].
    destruct (Nat.eqb (length (layers _ _ _ old)) (length (diffids _ _ _ old))) eqn:E2; [|discriminate].
    destruct (prefix_eqb deqb (diffids _ _ _ old) (diffids _ _ _ i)) eqn:P3; [|discriminate].
    destruct (Nat.eqb (length (layers _ _ _ new)) (nonempty (history _ _ _ new))) eqn:E3; [|discriminate].
    destruct (Nat.eqb (length (diffids _ _ _ new)) (nonempty (history _ _ _ new))) eqn:E4; [|discriminate].
    cbn in Hr. injection Hr as <-. cbn [layers diffids].
    apply Nat.eqb_eq in E1, E2, E3, E4.
    rewrite combine_app_eq by lia. rewrite skipn_combine. now rewrite <- E2.
  Qed.
End P.

(* cutting the history by the NEW base's length breaks the alignment as soon as the two bases differ in history length *)
Theorem rebase_newlen_refuted : exists (i old new r : img nat nat nat),
  aligned nat nat nat i /\ rebase_newlen nat nat nat Nat.eqb Nat.eqb Nat.eqb i old new = Some r /\ ~ aligned nat nat nat r.
Proof.
  (* image: a two-layer base + one layer of its own; new base: squashed into one layer *)
  exists (mkImg _ _ _ [1; 2; 9] [11; 12; 19] [(false, 1); (false, 2); (false, 9)]),
         (mkImg _ _ _ [1; 2] [11; 12] [(false, 1); (false, 2)]),
         (mkImg _ _ _ [5] [15] [(false, 5)]).
  eexists. split; [split; reflexivity|]. split; [vm_compute; reflexivity|].
  unfold aligned; cbn. intros [_ Hc]. vm_compute in Hc. discriminate.
Qed.
