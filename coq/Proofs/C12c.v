(* Proofs/C12c.v — all passes of one logical request together stay within the attempt budget *)
From Coq Require Import List Arith Bool Lia.
From Verif Require Import Model.C12_Retry Model.C12_Reissue Proofs.C12.
Import ListNotations.

Theorem reissues_bound : forall passes fuel limit ignore retry0,
  length (reissues fuel limit ignore retry0 passes) <= S limit - retry0.
Proof.
  induction passes as [|p rest IH]; intros fuel limit ignore retry0; cbn [reissues]; [cbn; lia|].
  set (a := fst (next_loop fuel limit ignore (mkSt (p_hosts p) (p_cur p) retry0 (p_boff p)) (p_replies p))).
  pose proof (next_loop_bound fuel limit ignore (mkSt (p_hosts p) (p_cur p) retry0 (p_boff p)) (p_replies p)) as Ha.
  cbn [retry] in Ha. fold a in Ha.
  specialize (IH fuel limit ignore (retry0 + length a)). rewrite app_length. lia.
Qed.
