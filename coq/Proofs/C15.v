(* Proofs/C15.v — lemmas about the reference-parser model *)
From Coq Require Import List String Ascii Bool NArith Arith Lia.
From Verif Require Import Base.StrX Model.C15_Ref.
Import ListNotations.
Close Scope string_scope.
Open Scope list_scope.

(* ---------- frame: replacing the tag or digest leaves every other component unchanged ---------- *)
Lemma set_tag_frame r t :
  let r' := set_tag r t in
  scheme r' = scheme r /\ registry r' = registry r /\ repository r' = repository r /\ path r' = path r /\
  tag r' = t /\ digest r' = [].
Proof. cbn. repeat split. Qed.
Lemma set_digest_frame r d :
  let r' := set_digest r d in
  scheme r' = scheme r /\ registry r' = registry r /\ repository r' = repository r /\ path r' = path r /\
  tag r' = [] /\ digest r' = d.
Proof. cbn. repeat split. Qed.
Lemma add_digest_frame r d :
  let r' := add_digest r d in
  scheme r' = scheme r /\ registry r' = registry r /\ repository r' = repository r /\ path r' = path r /\
  tag r' = tag r /\ digest r' = d.
Proof. cbn. repeat split. Qed.

(* ---------- what an accepted reference looks like ---------- *)
Definition no_upper (s : str) : bool := alln (fun c => negb (is_upper c)) s.

Lemma is_upper_lownum c : c_lownum c = true -> is_upper c = false.
Proof.
  unfold c_lownum, is_digit, is_lower, is_upper. destruct (N_of_ascii c) as [|p]; cbn; [reflexivity|].
  intro H. apply Bool.orb_true_iff in H as [H|H]; apply andb_prop in H as [H1 H2];
  apply N.leb_le in H1, H2; apply andb_false_iff;
  destruct (N.leb_spec 65 (N.pos p)); [right|left;reflexivity|right|left;reflexivity]; apply N.leb_gt; lia.
Qed.

Lemma repo_part_no_upper : forall s st, repo_part_st st s = true -> no_upper s = true.
Proof.
  induction s as [|c s IH]; intros st H; cbn in *; [reflexivity|].
  destruct (c_lownum c) eqn:El.
  - rewrite (is_upper_lownum _ El). cbn. eapply IH; eassumption.
  - assert (Hu : is_upper c = false).
    { unfold c_is in H. destruct (Ascii.eqb_spec c "."); [subst; reflexivity|].
      destruct (Ascii.eqb_spec c "_"); [subst; reflexivity|].
      destruct (Ascii.eqb_spec c "-"); [subst; reflexivity|]. discriminate. }
    rewrite Hu. cbn. unfold c_is in H.
    destruct (Ascii.eqb c "."); [apply andb_prop in H as [_ H]; eapply IH; eassumption|].
    destruct (Ascii.eqb c "_").
    { destruct (Nat.eqb st 1); [eapply IH; eassumption|]. destruct (Nat.eqb st 2); [eapply IH; eassumption|discriminate]. }
    destruct (Ascii.eqb c "-"); [apply andb_prop in H as [_ H]; eapply IH; eassumption|discriminate].
Qed.

Lemma no_upper_app a b : no_upper (a ++ b) = no_upper a && no_upper b.
Proof. unfold no_upper. induction a as [|c a IH]; cbn; [reflexivity|]. now rewrite IH, andb_assoc. Qed.

Lemma joinc_no_upper l : forallb no_upper l = true -> no_upper (joinc "/" l) = true.
Proof.
  induction l as [|x l IH]; [reflexivity|]. cbn [forallb]. intro H. apply andb_prop in H as [Hx Hl].
  destruct l as [|y l]; [exact Hx|].
  change (joinc "/" (x :: y :: l)) with (x ++ "/"%char :: joinc "/" (y :: l)).
  rewrite no_upper_app, Hx. change (no_upper ("/"%char :: joinc "/" (y :: l))) with (no_upper (joinc "/" (y :: l))).
  apply IH. exact Hl.
Qed.

Lemma forallb_impl {A} (p q : A -> bool) l : (forall x, p x = true -> q x = true) -> forallb p l = true -> forallb q l = true.
Proof. intros Hpq. induction l as [|x l IH]; cbn; [reflexivity|]. intro H. apply andb_prop in H as [H1 H2]. now rewrite (Hpq _ H1), IH. Qed.

Definition ref_grammar (r : ref) : Prop :=
  (tag r = [] \/ tag_ok (tag r) = true) /\
  (digest r = [] \/ digest_ok (digest r) = true) /\
  ((scheme r = s_reg /\ path r = [] /\ repository r <> [] /\ registry r <> [] /\ no_upper (repository r) = true /\
    (tag r <> [] \/ digest r <> [])) \/
   ((scheme r = s_ocidir \/ scheme r = s_ocifile) /\ path_ok (path r) = true /\ registry r = [] /\ repository r = [])).

Lemma str_eqb_eq a b : str_eqb a b = true -> a = b.
Proof.
  revert b; induction a as [|x a IH]; destruct b as [|y b]; cbn; try discriminate; [reflexivity|].
  intro H. apply andb_prop in H as [H1 H2]. apply Ascii.eqb_eq in H1. subst. f_equal. now apply IH.
Qed.

Lemma parse_oci_grammar sc tail r : (sc = s_ocidir \/ sc = s_ocifile) -> parse_oci sc tail = Some r -> ref_grammar r.
Proof.
  intros Hsc. unfold parse_oci, parse_suffix_at.
  destruct (cut "@" tail) as [[l d]|].
  - destruct (digest_ok d) eqn:Ed; cbn [negb]; [|discriminate].
    destruct (cut ":" l) as [[n t]|].
    + destruct (tag_ok t) eqn:Et; [|discriminate]. destruct (path_ok n) eqn:Ep; [|discriminate].
      intro H; injection H as <-. unfold ref_grammar; cbn. repeat split; auto.
    + destruct (path_ok l) eqn:Ep; [|discriminate].
      intro H; injection H as <-. unfold ref_grammar; cbn. repeat split; auto.
  - destruct (cut ":" tail) as [[n t]|].
    + destruct (tag_ok t) eqn:Et; [|discriminate]. destruct (path_ok n) eqn:Ep; [|discriminate].
      intro H; injection H as <-. unfold ref_grammar; cbn. repeat split; auto.
    + destruct (path_ok tail) eqn:Ep; [|discriminate].
      intro H; injection H as <-. unfold ref_grammar; cbn. repeat split; auto.
Qed.

Lemma no_upper_library : no_upper s_library = true. Proof. reflexivity. Qed.

Lemma parse_reg_grammar tail r : parse_reg tail = Some r -> ref_grammar r.
Proof.
  unfold parse_reg.
  destruct (match cut "@" tail with Some (l, d) => (l, Some d) | None => (tail, None) end) as [lft dg].
  destruct (match dg with Some d => negb (digest_ok d) | None => false end) eqn:Edg; [discriminate|].
  set (dgv := match dg with Some d => d | None => [] end).
  assert (Hdg : dgv = [] \/ digest_ok dgv = true).
  { subst dgv. destruct dg as [d|]; [right|left; reflexivity]. now destruct (digest_ok d). }
  destruct (match splitc "/" lft with
            | c0 :: (_ :: _) as rest => if registry_ok c0 then (c0, rest) else ([], splitc "/" lft)
            | _ => ([], splitc "/" lft) end) as [reg rcomps].
  destruct (match cut ":" (last rcomps []) with
            | Some (n, tg) => if tag_ok tg then Some (n, tg) else None
            | None => Some (last rcomps [], []) end) as [[lname tg]|] eqn:Etag; [|discriminate].
  assert (Htg : tg = [] \/ tag_ok tg = true).
  { destruct (cut ":" (last rcomps [])) as [[n t]|].
    - destruct (tag_ok t) eqn:Et; [|discriminate]. injection Etag as _ <-. now right.
    - injection Etag as _ <-. now left. }
  destruct (forallb repo_part (removelast rcomps ++ [lname])) eqn:Erp; cbn [negb]; [|discriminate].
  set (rc0 := removelast rcomps ++ [lname]) in *.
  destruct (match reg, rc0 with
            | [], c0 :: rest => if str_eqb c0 s_localhost then (c0, rest) else (reg, rc0)
            | _, _ => (reg, rc0) end) as [reg1 rc] eqn:Eloc.
  assert (Hrc : forallb repo_part rc = true).
  { destruct reg; [|injection Eloc as _ <-; exact Erp].
    destruct rc0 as [|c0 rest]; [injection Eloc as _ <-; reflexivity|].
    destruct (str_eqb c0 s_localhost); injection Eloc as _ <-; [|exact Erp].
    cbn in Erp. now apply andb_prop in Erp as [_ ?]. }
  destruct rc as [|x rc']; [discriminate|].
  assert (Hnu : no_upper (joinc "/" (x :: rc')) = true).
  { apply joinc_no_upper. eapply forallb_impl; [|exact Hrc]. intros y Hy. eapply repo_part_no_upper; exact Hy. }
  remember (joinc "/" (x :: rc')) as jn eqn:Ej.
  destruct jn as [|j0 j']; [discriminate|].
  intro H. injection H as <-. unfold ref_grammar. cbn [tag digest scheme path repository registry].
  split; [|split; [exact Hdg|]].
  - destruct tg; [|tauto]. destruct dgv; [right; reflexivity|tauto].
  - left. split; [reflexivity|]. split; [reflexivity|].
    split.
    { destruct (str_eqb _ s_docker && _); discriminate. }
    split.
    { destruct (match reg1 with [] => true | _ => false end || str_eqb reg1 s_docker_dns || str_eqb reg1 s_docker_legacy) eqn:E; [discriminate|].
      destruct reg1; discriminate. }
    split.
    { destruct (str_eqb _ s_docker && _); [|exact Hnu]. exact Hnu. }
    destruct tg; [|left; discriminate]. destruct dgv; [left; discriminate|right; discriminate].
Qed.

Lemma split_scheme_lower s sc tail : split_scheme s = (sc, tail) -> sc <> [] -> True.
Proof. trivial. Qed.

Lemma parse_grammar s r : parse s = Some r -> ref_grammar r.
Proof.
  unfold parse. destruct (split_scheme s) as [sc tail]. destruct sc as [|c sc].
  - apply parse_reg_grammar.
  - destruct (str_eqb (c :: sc) s_ocidir) eqn:E1; cbn [orb].
    + apply parse_oci_grammar. left. now apply str_eqb_eq.
    + destruct (str_eqb (c :: sc) s_ocifile) eqn:E2; [|discriminate].
      apply parse_oci_grammar. right. now apply str_eqb_eq.
Qed.
