(* Proofs/C07.v — the ocidir write discipline keeps the layout valid after every prefix *)
From Coq Require Import List Arith Bool Lia.
From Verif Require Import Model.C07_LayoutFS.
Import ListNotations.

Lemma path_eqb_refl p : path_eqb p p = true.
Proof. destruct p; cbn; auto using Nat.eqb_refl. Qed.

Section P.
  Variable refs : nat -> list nat.
  Notation closure_ok := (closure_ok refs).
  Notation guard := (guard refs).
  Notation step := (step refs).
  Notation run := (run refs).

  Definition valid (f : fs) : Prop :=
    (f PLayout = None \/ f PLayout = Some [TLayout]) /\
    (f PIndex = None \/ exists e, f PIndex = Some [TIndex e] /\ closure_ok f e = true) /\
    (forall d c, f (PBlob d) = Some c -> c = [TBlob d]).

  Lemma closure_mono f f' e : (forall d, complete f d = true -> complete f' d = true) ->
    closure_ok f e = true -> closure_ok f' e = true.
  Proof.
    intros Hm. unfold C07_LayoutFS.closure_ok. rewrite !forallb_forall. intros H x Hx.
    specialize (H x Hx). rewrite forallb_forall in *. intros y Hy. apply Hm. now apply H.
  Qed.

  (* operations that only touch temporary files leave everything named untouched *)
  Lemma valid_tmp f f' : valid f -> f' PLayout = f PLayout -> f' PIndex = f PIndex -> (forall d, f' (PBlob d) = f (PBlob d)) -> valid f'.
  Proof.
    intros (Hl & Hi & Hb) El Ei Eb. split; [now rewrite El|]. split.
    - rewrite Ei. destruct Hi as [Hi|(e & He & Hc)]; [now left|right]. exists e. split; [exact He|].
      eapply closure_mono; [|exact Hc]. intros d. unfold complete. now rewrite Eb.
    - intros d c. rewrite Eb. apply Hb.
  Qed.

  Lemma step_valid f o f' : valid f -> step f o = Some f' -> valid f'.
  Proof.
    intros Hv. unfold C07_LayoutFS.step. destruct (guard f o) eqn:Eg; [|discriminate]. intro H; injection H as <-.
    pose proof Hv as (Hl & Hi & Hb).
    destruct o as [p|p t|a b|p]; cbn [C07_LayoutFS.guard apply1] in *.
    - (* Create *) destruct p as [| |d|n]; try discriminate. apply (valid_tmp f); auto.
    - (* Write *) destruct p as [| |d|n]; try discriminate.
      destruct (f (PTmp n)) as [[|x l]|] eqn:Ef; try discriminate. apply (valid_tmp f); auto.
    - (* Rename *) destruct a as [| |d|n]; try discriminate.
      destruct b as [| |d|m]; try discriminate.
      + (* -> oci-layout *)
        destruct (f (PTmp n)) as [[|[| |] [|y l]]|] eqn:Ef; try discriminate.
        split; [right; reflexivity|]. split.
        * cbn. destruct Hi as [Hi|(e & He & Hc)]; [now left|right]. exists e. split; [exact He|].
          eapply closure_mono; [|exact Hc]. intros d. unfold complete. cbn. auto.
        * intros d c. cbn. apply Hb.
      + (* -> index.json *)
        destruct (f (PTmp n)) as [[|[|e|] [|y l]]|] eqn:Ef; try discriminate.
        split; [cbn; exact Hl|]. split.
        * right. exists e. split; [reflexivity|]. eapply closure_mono; [|exact Eg]. intros d. unfold complete. cbn. auto.
        * intros d c. cbn. apply Hb.
      + (* -> blob *)
        unfold tok_eqb_blob in Eg. destruct (f (PTmp n)) as [[|[| |x] [|y l]]|] eqn:Ef; try discriminate.
        apply Nat.eqb_eq in Eg. subst x.
        assert (Hm : forall x, complete f x = true -> complete (upd (upd f (PBlob d) (Some [TBlob d])) (PTmp n) None) x = true).
        { intros x Hx. unfold complete, upd. cbn. destruct (Nat.eqb_spec x d); [subst; cbn; apply Nat.eqb_refl|exact Hx]. }
        split; [cbn; exact Hl|]. split.
        * cbn. destruct Hi as [Hi|(e & He & Hc)]; [now left|right]. exists e. split; [exact He|]. eapply closure_mono; [exact Hm|exact Hc].
        * intros x c. unfold upd. cbn. destruct (Nat.eqb_spec x d); [subst; intro H; now injection H as <-|apply Hb].
    - (* Unlink *) destruct p as [| |d|n]; try discriminate.
      + apply negb_true_iff in Eg.
        split; [cbn; exact Hl|]. split.
        * cbn. destruct Hi as [Hi|(e & He & Hc)]; [now left|right]. exists e. split; [exact He|].
          unfold C07_LayoutFS.closure_ok in *. rewrite forallb_forall in *. intros en Hen. specialize (Hc en Hen).
          rewrite forallb_forall in *. intros x Hx. specialize (Hc x Hx). unfold complete, upd. cbn.
          destruct (Nat.eqb_spec x d) as [->|]; [|exact Hc].
          exfalso. unfold index_of in Eg. rewrite He in Eg. unfold memn in Eg.
          assert (Hin : existsb (Nat.eqb d) (flat_map (fun e0 => reach refs DEPTH (fst e0)) e) = true).
          { apply existsb_exists. exists d. split; [apply in_flat_map; exists en; auto|apply Nat.eqb_refl]. }
          congruence.
        * intros x c. unfold upd. cbn. destruct (Nat.eqb_spec x d); [discriminate|apply Hb].
      + apply (valid_tmp f); auto.
  Qed.

  Lemma run_valid : forall ops f f', valid f -> run f ops = Some f' -> valid f'.
  Proof.
    induction ops as [|o ops IH]; intros f f' Hv; cbn; [intro H; now injection H as <-|].
    destruct (step f o) as [f1|] eqn:Es; [|discriminate]. apply IH. eapply step_valid; eauto.
  Qed.

  Lemma run_app : forall a b f f', run f (a ++ b) = Some f' -> exists f1, run f a = Some f1 /\ run f1 b = Some f'.
  Proof.
    induction a as [|o a IH]; intros b f f'; cbn; [intro H; now exists f|].
    destruct (step f o) as [f1|]; [apply IH|discriminate].
  Qed.

  Lemma run_is_apply : forall ops f f', run f ops = Some f' -> f' = apply f ops.
  Proof.
    induction ops as [|o ops IH]; intros f f'; cbn; [intro H; now injection H as <-|].
    unfold C07_LayoutFS.step. destruct (guard f o); [|discriminate]. apply IH.
  Qed.

  (* crash safety: after ANY prefix of an accepted operation list the directory is a valid layout *)
  Lemma crash_safe f ops k : valid f -> accepted refs f ops = true -> valid (apply f (firstn k ops)).
  Proof.
    intros Hv Ha. unfold accepted in Ha. destruct (run f ops) as [f'|] eqn:Er; [|discriminate].
    rewrite <- (firstn_skipn k ops) in Er. apply run_app in Er as (f1 & H1 & _).
    rewrite <- (run_is_apply _ _ _ H1). eapply run_valid; eauto.
  Qed.

  (* the index - hence every tag - changes only at the rename that installs a complete new index *)
  Lemma index_atomic f o f' : step f o = Some f' -> (forall n, o <> Rename (PTmp n) PIndex) -> f' PIndex = f PIndex.
  Proof.
    unfold C07_LayoutFS.step. destruct (guard f o) eqn:Eg; [|discriminate]. intro H; injection H as <-. intro Hn.
    destruct o as [p|p t|a b|p]; cbn [C07_LayoutFS.guard apply1] in *.
    - destruct p; try discriminate. reflexivity.
    - destruct p; try discriminate. destruct (f (PTmp n)); [reflexivity|reflexivity].
    - destruct a as [| |d|n]; try discriminate. destruct b as [| |d|m]; try discriminate.
      + destruct (f (PTmp n)); [reflexivity|reflexivity].
      + exfalso. now apply (Hn n).
      + destruct (f (PTmp n)); reflexivity.
    - destruct p; try discriminate; reflexivity.
  Qed.

  (* the sequences the code issues are accepted *)
  Lemma replace_blob_accepted f n d : f (PTmp n) = None -> accepted refs f (seq_blob_put n d) = true.
  Proof.
    intro Hn. unfold accepted, seq_blob_put, seq_replace. cbn [C07_LayoutFS.run]. unfold C07_LayoutFS.step at 1. cbn [C07_LayoutFS.guard]. rewrite Hn. cbn [apply1].
    unfold C07_LayoutFS.step at 1. cbn [C07_LayoutFS.guard]. unfold upd at 1. rewrite path_eqb_refl. cbn [apply1].
    unfold upd at 1. rewrite path_eqb_refl. unfold C07_LayoutFS.step. cbn [C07_LayoutFS.guard]. unfold upd at 1. rewrite path_eqb_refl. cbn. now rewrite Nat.eqb_refl.
  Qed.

  (* the pre-repair writeIndex is rejected at its first operation, and for a good reason: the state after
     that operation is not a valid layout *)
  Lemma old_write_index_rejected f n e : accepted refs f (seq_write_index_old n e) = false.
  Proof. reflexivity. Qed.
  Lemma old_write_index_crash f n e : f PLayout = Some [TLayout] -> ~ valid (apply f (firstn 1 (seq_write_index_old n e))).
  Proof.
    intros _ (Hl & _). cbn in Hl. unfold upd in Hl. cbn in Hl. destruct Hl; discriminate.
  Qed.
End P.
