(* Proofs/C01r.v — the body-resume layer (Model/C01_Resume.v) against a registry that serves the right bytes and
   honours Range, but may cut any of the first k bodies short at any offset: the stitching is exact, the read never
   fails, every read makes progress, and the caller ends with exactly the blob. *)
From Coq Require Import List ZArith Bool Arith Lia.
From Verif Require Import Model.C01_BlobRead Model.C01_Resume.
Import ListNotations.
Local Open Scope Z_scope.

Section P.
  Variable byte : Type.
  Variable c : list byte.                      (* the blob *)
  Variable srv : nat -> option (Z * Z) -> reply byte.
  Variable limit : nat.
  Variable eager : nat -> bool.
  Variable k : nat.                            (* only attempts numbered below k may be cut short *)
  Variable b0 : nat.                           (* the host's backoff count when the read starts *)

  Let L := Z.of_nat (length c).
  Definition start_of (rg : option (Z * Z)) : nat := match rg with None => O | Some (a, _) => Z.to_nat a end.

  (* the registry: right bytes from the requested offset, Content-Length of the whole blob on an unranged request,
     Content-Range on a ranged one; a body may stop early (as EOF or unexpected EOF) only on attempts below k, and a
     complete body ends with EOF *)
  Definition honest : Prop :=
    forall att rg, exists cl j e,
      srv att rg = RpOk cl true (firstn j (skipn (start_of rg) c)) e /\
      (rg = None -> cl = Some L) /\
      e <> EndOther /\ ((j < length (skipn (start_of rg) c))%nat -> (att < k)%nat) /\
      ((length (skipn (start_of rg) c) <= j)%nat -> e = EndEOF).

  Hypothesis Hsrv : honest.
  Hypothesis Hbudget : (b0 + k < limit)%nat.

  Notation rst := (rst byte) (only parsing).

  Definition Inv (s : rst) (out : list byte) : Prop :=
    r_alive s = true /\ r_done s = false /\ r_max s = L /\
    r_cur s = Z.of_nat (length out) /\ r_end s <> EndOther /\
    (exists rest, c = out ++ r_body s ++ rest /\ (rest <> [] -> (r_att s <= k)%nat) /\ (rest = [] -> r_end s = EndEOF)) /\
    r_retry s = r_att s /\ (1 <= r_att s)%nat /\ (r_boff s + 1 <= b0 + r_att s)%nat.

  Definition measure (s : rst) (out : list byte) : nat := (length c - length out) + (k + 1 - r_att s).

  Lemma firstn_skipn_app (l : list byte) a b : firstn a l ++ firstn b (skipn a l) = firstn (a + b) l.
  Proof.
    revert l b; induction a as [|a IH]; intros l b; [reflexivity|].
    destruct l as [|x l]; [now rewrite !firstn_nil|]. cbn. now rewrite IH.
  Qed.

  Lemma skipn_len_app (a b : list byte) : skipn (length a) (a ++ b) = b.
  Proof. induction a as [|x a IH]; [reflexivity|exact IH]. Qed.

  (* one pass of Resp.next against the honest registry, on a live host within the attempt budget *)
  Lemma next_honest (s : rst) (out X : list byte) :
    r_alive s = true -> (r_retry s <= limit)%nat ->
    r_cur s = Z.of_nat (length out) -> c = out ++ X ->
    (r_max s = L \/ (r_cur s = 0 /\ r_max s = 0)) ->
    exists body rest e,
      X = body ++ rest /\ e <> EndOther /\ (rest <> [] -> (r_att s < k)%nat) /\ (rest = [] -> e = EndEOF) /\
      next srv limit (fuel_of limit) s =
        (NOk, mkR (r_cur s) L (S (r_retry s)) (S (r_att s)) (r_boff s) true false body e, [range_of s]).
  Proof.
    intros Ha Hr Hc HX Hm.
    assert (Hlen : (length out <= length c)%nat) by (rewrite HX, app_length; lia).
    destruct (Hsrv (r_att s) (range_of s)) as (cl & j & e & Hs & Hcl & He & Hj & Hfull).
    assert (Hst : start_of (range_of s) = length out \/ (range_of s = None /\ (0 < r_cur s) /\ r_max s <= 0)).
    { unfold range_of. destruct (0 <? r_cur s) eqn:E1; cbn [andb].
      - destruct (0 <? r_max s) eqn:E2.
        + left. cbn [start_of]. rewrite Hc. apply Nat2Z.id.
        + right. split; [reflexivity|]. split; lia.
      - left. cbn [start_of]. assert (r_cur s = 0) by lia. destruct out; [reflexivity|]. cbn [length] in Hc. lia. }
    destruct Hst as [Hst|(Hn & Hpos & Hmx)].
    2:{ destruct Hm as [Hm|[Hm _]]; [|lia].
        exfalso. rewrite Hm in Hmx. unfold L in *. assert (H0 : length out = 0%nat) by lia.
        rewrite H0 in Hc. cbn in Hc. lia. }
    rewrite Hst in Hs, Hj, Hfull. rewrite HX, skipn_len_app in Hs, Hj, Hfull.
    exists (firstn j X), (skipn j X), e. split; [symmetry; apply firstn_skipn|]. split; [exact He|].
    split.
    { intros Hne. apply Hj. destruct (Nat.lt_ge_cases j (length X)) as [Hlt|Hge]; [exact Hlt|].
      exfalso. apply Hne. now apply skipn_all2. }
    split.
    { intros Hnil. apply Hfull. destruct (Nat.lt_ge_cases j (length X)) as [Hlt|Hge]; [|exact Hge].
      exfalso. assert (Hl : length (skipn j X) = 0%nat) by (rewrite Hnil; reflexivity). rewrite skipn_length in Hl. lia. }
    unfold fuel_of. cbn [next]. rewrite Ha. cbn [negb].
    replace (limit <? r_retry s)%nat with false by (symmetry; apply Nat.ltb_ge; lia).
    rewrite Hs.
    destruct (r_cur s =? 0) eqn:E0.
    - assert (Hrg : range_of s = None) by (unfold range_of; replace (0 <? r_cur s) with false by (symmetry; apply Z.ltb_ge; lia); reflexivity).
      rewrite (Hcl Hrg).
      destruct Hm as [Hm|[_ Hm]]; rewrite Hm.
      + destruct (0 <? L) eqn:EL; [rewrite Z.eqb_refl|]; reflexivity.
      + cbn. reflexivity.
    - assert (Hm' : r_max s = L) by (destruct Hm as [Hm|[Hm _]]; [exact Hm|lia]). rewrite Hm'.
      destruct (range_of s); reflexivity.
  Qed.

  (* Client.Do against the honest registry *)
  Lemma open_honest (expect : Z) : expect = L \/ expect = 0 ->
    exists s, open srv limit expect b0 = (NOk, s, [None]) /\ Inv s [].
  Proof.
    intros He. unfold open.
    set (s0 := mkR 0 expect 0 0 b0 true false [] EndEOF).
    assert (Hm : r_max s0 = L \/ (r_cur s0 = 0 /\ r_max s0 = 0)).
    { destruct He as [->| ->]; [left; reflexivity|right; split; reflexivity]. }
    destruct (next_honest s0 [] c eq_refl (Nat.le_0_l _) eq_refl eq_refl Hm) as (body & rest & e & HX & He' & Hj & Hfull & Hn).
    cbn [r_cur r_retry r_att r_boff s0] in Hn. change (range_of s0) with (@None (Z * Z)) in Hn.
    eexists. split; [exact Hn|].
    unfold Inv; cbn. repeat split; try reflexivity; try lia; try exact He'.
    exists rest. split; [exact HX|]. split; [intros Hne; specialize (Hj Hne); cbn in Hj; lia|exact Hfull].
  Qed.

  (* one Read *)
  Lemma read_honest (s : rst) (out : list byte) (n : nat) : Inv s out ->
    exists bs e s' l, read srv limit eager s n = (bs, e, s', l) /\
      ((e = UMore /\ Inv s' (out ++ bs) /\ ((0 < n)%nat -> (measure s' (out ++ bs) < measure s out)%nat)) \/
       (e = UEOF /\ out ++ bs = c /\ r_done s' = true)).
  Proof.
    intros (Ha & Hd & Hm & Hc & He & (rest2 & HX & Hk & Hfl) & Hr & H1 & Hb).
    unfold read. rewrite Hd. remember (r_end s) as e0 eqn:Ee0 in *.
    set (bs := firstn n (r_body s)). set (rest := skipn n (r_body s)).
    assert (Hbody : r_body s = bs ++ rest) by (symmetry; apply firstn_skipn).
    assert (HX' : c = (out ++ bs) ++ rest ++ rest2) by (rewrite HX, Hbody, <- !app_assoc; reflexivity).
    assert (Hlc : length c = (length out + length bs + length rest + length rest2)%nat) by (rewrite HX', !app_length; lia).
    assert (Hcur : r_cur s + Z.of_nat (length bs) = Z.of_nat (length (out ++ bs))) by (rewrite app_length, Hc; lia).
    assert (Hmore : forall s1, s1 = mkR (r_cur s + Z.of_nat (length bs)) (r_max s) (r_retry s) (r_att s) (r_boff s) (r_alive s) false rest e0 ->
              (rest <> [] \/ bs <> []) ->
              Inv s1 (out ++ bs) /\ ((0 < n)%nat -> (measure s1 (out ++ bs) < measure s out)%nat)).
    { intros s1 -> Hne. split.
      - unfold Inv; cbn. repeat split; try assumption; try lia. exists rest2. split; [exact HX'|split; [exact Hk|exact Hfl]].
      - intros Hn. unfold measure; cbn. rewrite app_length.
        assert (0 < length bs)%nat.
        { destruct Hne as [Hne|Hne]; [|destruct bs; [congruence|cbn; lia]].
          unfold bs. rewrite firstn_length. assert (n < length (r_body s))%nat; [|lia].
          destruct (Nat.lt_ge_cases n (length (r_body s))) as [Hlt|Hge]; [exact Hlt|].
          exfalso. apply Hne. unfold rest. now apply skipn_all2. }
        lia. }
    destruct rest as [|x rest'] eqn:Erest.
    2:{ (* bytes are left in the body *)
        cbn [negb]. eexists _, _, _, _. split; [reflexivity|]. left. split; [reflexivity|].
        apply Hmore; [reflexivity|left; discriminate]. }
    destruct (match bs with [] => true | _ :: _ => eager (r_att s) end) eqn:Eend.
    2:{ (* the last bytes arrive without the end-of-body signal *)
        cbn [negb]. eexists _, _, _, _. split; [reflexivity|]. left. split; [reflexivity|].
        apply Hmore; [reflexivity|right; intro Hb0; rewrite Hb0 in Eend; discriminate]. }
    cbn [negb].
    destruct (r_max s <=? r_cur s + Z.of_nat (length bs)) eqn:Emax.
    - (* everything expected has been handed out *)
      assert (rest2 = []).
      { destruct rest2; [reflexivity|]. exfalso. rewrite Hm in Emax. unfold L in Emax. cbn [length] in Hlc. lia. }
      subst rest2. rewrite (Hfl eq_refl).
      eexists _, _, _, _; split; [reflexivity|]; right; split; [reflexivity|]; split; [|reflexivity].
      rewrite HX'; cbn; now rewrite app_nil_r.
    - (* short body: register a backoff, resume *)
      assert (Hr2 : rest2 <> []).
      { intro H0. subst rest2. rewrite Hm in Emax. unfold L in Emax. cbn [length] in Hlc. lia. }
      specialize (Hk Hr2).
      replace (limit <=? S (r_boff s))%nat with false by (symmetry; apply Nat.leb_gt; lia).
      assert (HX2 : c = (out ++ bs) ++ rest2) by (rewrite HX'; reflexivity).
      destruct e0; [| |congruence].
      {
      set (s2 := mkR (r_cur s + Z.of_nat (length bs)) (r_max s) (r_retry s) (r_att s) (S (r_boff s)) (r_alive s) false (@nil byte) EndEOF).
      assert (P1 : r_alive s2 = true) by exact Ha.
      assert (P2 : (r_retry s2 <= limit)%nat) by (cbn; lia).
      assert (P3 : r_cur s2 = Z.of_nat (length (out ++ bs))) by exact Hcur.
      assert (P4 : r_max s2 = L \/ (r_cur s2 = 0 /\ r_max s2 = 0)) by (left; exact Hm).
      destruct (next_honest s2 (out ++ bs) rest2 P1 P2 P3 HX2 P4) as (body & rest3 & e & Hsplit & He3 & Hj & Hfull & Hn).
      rewrite Hn. cbn [s2 r_cur r_retry r_att r_boff].
      eexists _, _, _, _; split; [reflexivity|]; left; split; [reflexivity|]; split;
         [unfold Inv; cbn; repeat split; try assumption; try lia;
          exists rest3; split; [rewrite HX2, Hsplit; reflexivity|split; [intro Hne; specialize (Hj Hne); cbn in Hj; lia|exact Hfull]]
         |intros _; unfold measure; cbn; rewrite app_length; lia].
      }
      {
      set (s2 := mkR (r_cur s + Z.of_nat (length bs)) (r_max s) (r_retry s) (r_att s) (S (r_boff s)) (r_alive s) false (@nil byte) EndUnexpected).
      assert (P1 : r_alive s2 = true) by exact Ha.
      assert (P2 : (r_retry s2 <= limit)%nat) by (cbn; lia).
      assert (P3 : r_cur s2 = Z.of_nat (length (out ++ bs))) by exact Hcur.
      assert (P4 : r_max s2 = L \/ (r_cur s2 = 0 /\ r_max s2 = 0)) by (left; exact Hm).
      destruct (next_honest s2 (out ++ bs) rest2 P1 P2 P3 HX2 P4) as (body & rest3 & e & Hsplit & He3 & Hj & Hfull & Hn).
      rewrite Hn. cbn [s2 r_cur r_retry r_att r_boff].
      eexists _, _, _, _; split; [reflexivity|]; left; split; [reflexivity|]; split;
         [unfold Inv; cbn; repeat split; try assumption; try lia;
          exists rest3; split; [rewrite HX2, Hsplit; reflexivity|split; [intro Hne; specialize (Hj Hne); cbn in Hj; lia|exact Hfull]]
         |intros _; unfold measure; cbn; rewrite app_length; lia].
      }
  Qed.

  (* any caller: the read never fails and never hands out a wrong byte *)
  Theorem drain_safe : forall bufs (s : rst) out, Inv s out ->
    exists rest r s' l, drain srv limit eager s bufs = (rest, r, s', l) /\
      ((r = None /\ Inv s' (out ++ rest)) \/ (r = Some UEOF /\ out ++ rest = c)).
  Proof.
    induction bufs as [|n bufs IH]; intros s out HI; cbn [drain].
    - eexists _, _, _, _. split; [reflexivity|]. left. split; [reflexivity|]. now rewrite app_nil_r.
    - destruct (read_honest s out n HI) as (bs & e & s1 & l & Hr & [(-> & HI1 & _)|(-> & Hc & _)]); rewrite Hr.
      + destruct (IH s1 (out ++ bs) HI1) as (rest & r & s2 & l2 & Hd & Hres). rewrite Hd.
        eexists _, _, _, _. split; [reflexivity|]. rewrite app_assoc. exact Hres.
      + eexists _, _, _, _. split; [reflexivity|]. right. split; [reflexivity|exact Hc].
  Qed.

  (* a caller that keeps reading with non-empty buffers gets exactly the blob and then EOF *)
  Theorem drain_complete : forall bufs (s : rst) out, Inv s out -> Forall (fun n => (0 < n)%nat) bufs ->
    (measure s out < length bufs)%nat ->
    exists rest s' l, drain srv limit eager s bufs = (rest, Some UEOF, s', l) /\ out ++ rest = c.
  Proof.
    induction bufs as [|n bufs IH]; intros s out HI Hpos Hlen; cbn [drain length] in *; [lia|].
    inversion Hpos as [|? ? Hn Hpos']; subst.
    destruct (read_honest s out n HI) as (bs & e & s1 & l & Hr & [(-> & HI1 & Hms)|(-> & Hc & _)]); rewrite Hr.
    - specialize (Hms Hn).
      destruct (IH s1 (out ++ bs) HI1 Hpos' ltac:(lia)) as (rest & s2 & l2 & Hd & Hres). rewrite Hd.
      eexists _, _, _. split; [reflexivity|]. now rewrite app_assoc.
    - eexists _, _, _. split; [reflexivity|exact Hc].
  Qed.
End P.

(* ---- for ANY registry: the re-requests of a resumed read draw on the attempt budget of the logical request ---- *)
Section Budget.
  Variable byte : Type.
  Variable srv : nat -> option (Z * Z) -> reply byte.
  Variable limit : nat.
  Variable eager : nat -> bool.

  Definition Q (s : rst byte) : Prop := r_retry s = r_att s /\ (r_att s <= limit + 1)%nat.

  Lemma next_budget : forall fuel (s : rst byte) r s' l, next srv limit fuel s = (r, s', l) -> Q s ->
    Q s' /\ r_att s' = (r_att s + length l)%nat.
  Proof.
    induction fuel as [|f IH]; intros s r s' l H HQ; cbn [next] in H.
    - injection H as <- <- <-. split; [exact HQ|cbn; lia].
    - destruct HQ as [Hr Ha].
      destruct (negb (r_alive s)); [injection H as <- <- <-; split; [split; assumption|cbn; lia]|].
      destruct (limit <? r_retry s)%nat eqn:El; [injection H as <- <- <-; split; [split; assumption|cbn; lia]|].
      apply Nat.ltb_ge in El.
      assert (Hagain : forall s2, Q s2 -> r_att s2 = S (r_att s) ->
                (let '(r0, s3, l0) := next srv limit f s2 in (r0, s3, range_of s :: l0)) = (r, s', l) ->
                Q s' /\ r_att s' = (r_att s + length l)%nat).
      { intros s2 HQ2 Ha2 H2. destruct (next srv limit f s2) as [[r0 s3] l0] eqn:En. injection H2 as <- <- <-.
        destruct (IH _ _ _ _ En HQ2) as [HQ3 Hc3]. split; [exact HQ3|]. cbn [length]. lia. }
      assert (Hopen : forall m body e,
                (NOk, mkR (r_cur s) m (S (r_retry s)) (S (r_att s)) (r_boff s) true false body e, [range_of s]) = (r, s', l) ->
                Q s' /\ r_att s' = (r_att s + length l)%nat).
      { intros m body e H2. injection H2 as <- <- <-. split; [split; cbn; lia|cbn; lia]. }
      destruct (srv (r_att s) (range_of s)) as [b d|cl cr body e].
      + apply Hagain in H; [exact H|split; cbn; lia|reflexivity].
      + destruct (if r_cur s =? 0 then cl else None) as [c0|].
        * destruct (0 <? r_max s); [destruct (r_max s =? c0)|].
          -- now apply Hopen in H.
          -- apply Hagain in H; [exact H|split; cbn; lia|reflexivity].
          -- now apply Hopen in H.
        * destruct (range_of s) as [rg|] eqn:Erg.
          -- destruct cr; [now apply Hopen in H|]. apply Hagain in H; [exact H|split; cbn; lia|reflexivity].
          -- now apply Hopen in H.
  Qed.

  Lemma read_budget (s : rst byte) n bs e s' l : read srv limit eager s n = (bs, e, s', l) -> Q s ->
    Q s' /\ r_att s' = (r_att s + length l)%nat.
  Proof.
    unfold read. intros H HQ.
    assert (Hsame : forall x y z w a d b bd en, (bs, e, s', l) = (x, y, mkR z w (r_retry s) (r_att s) a b d bd en, @nil (option (Z * Z))) ->
              Q s' /\ r_att s' = (r_att s + length l)%nat).
    { intros. injection H0 as -> -> -> ->. split; [exact HQ|cbn; lia]. }
    destruct (r_done s). { injection H as <- <- <- <-. split; [exact HQ|cbn; lia]. }
    destruct (negb _). { symmetry in H. now apply Hsame in H. }
    destruct (r_end s) eqn:Ee.
    3:{ symmetry in H. now apply Hsame in H. }
    all: destruct (r_max s <=? _); [symmetry in H; now apply Hsame in H|];
         destruct (limit <=? _)%nat; [symmetry in H; now apply Hsame in H|];
         match type of H with context [next srv limit ?f ?s2] => destruct (next srv limit f s2) as [[r0 s3] l0] eqn:En end;
         assert (HQ2 : Q (mkR (r_cur s + Z.of_nat (length (firstn n (r_body s)))) (r_max s) (r_retry s) (r_att s) (S (r_boff s)) (r_alive s) false [] (r_end s))) by exact HQ;
         rewrite Ee in HQ2; destruct (next_budget _ _ _ _ _ En HQ2) as [HQ3 Hc3]; cbn [r_att] in Hc3;
         destruct r0; injection H as <- <- <- <-; (split; [exact HQ3|exact Hc3]).
  Qed.

  (* Client.Do followed by any sequence of reads: at most limit + 1 requests were sent for the logical request *)
  Theorem resumed_read_attempts_bounded : forall expect boff0 bufs r0 s0 l0 out r s' l,
    open srv limit expect boff0 = (r0, s0, l0) -> drain srv limit eager s0 bufs = (out, r, s', l) ->
    (length l0 + length l <= limit + 1)%nat.
  Proof.
    intros expect boff0 bufs r0 s0 l0 out r s' l Ho Hd.
    assert (HQ0 : Q (mkR 0 expect 0 0 boff0 true false (@nil byte) EndEOF)) by (split; cbn; lia).
    destruct (next_budget _ _ _ _ _ Ho HQ0) as [HQ1 Hc1]. cbn [r_att] in Hc1.
    assert (Hgen : forall bufs s out r s' l, drain srv limit eager s bufs = (out, r, s', l) -> Q s -> Q s' /\ r_att s' = (r_att s + length l)%nat).
    { clear. induction bufs as [|n bufs IH]; intros s out r s' l H HQ; cbn [drain] in H.
      - injection H as <- <- <- <-. split; [exact HQ|cbn; lia].
      - destruct (read srv limit eager s n) as [[[bs e] s1] l1] eqn:Er.
        destruct (read_budget _ _ _ _ _ _ Er HQ) as [HQ1 Hc1].
        destruct e; try (injection H as <- <- <- <-; split; [exact HQ1|exact Hc1]).
        destruct (drain srv limit eager s1 bufs) as [[[o2 r2] s2] l2] eqn:Ed. injection H as <- <- <- <-.
        destruct (IH _ _ _ _ _ Ed HQ1) as [HQ2 Hc2]. split; [exact HQ2|]. rewrite app_length. lia. }
    destruct (Hgen _ _ _ _ _ _ Hd HQ1) as [[_ Hle] Hc2]. lia.
  Qed.
End Budget.


(* ---- Client.Do + reads, against the honest registry ---- *)
Theorem resume_complete (byte : Type) (c : list byte) srv limit eager k b0 expect bufs :
  honest byte c srv k -> (b0 + k < limit)%nat -> (expect = Z.of_nat (length c) \/ expect = 0) ->
  Forall (fun n => (0 < n)%nat) bufs -> (length c + k < length bufs)%nat ->
  exists s s' l, open srv limit expect b0 = (NOk, s, [None]) /\ drain srv limit eager s bufs = (c, Some UEOF, s', l).
Proof.
  intros Hh Hb He Hpos Hlen.
  destruct (open_honest byte c srv limit k b0 Hh Hb expect He) as (s & Ho & HI).
  assert (Hm : (measure byte c k s [] < length bufs)%nat).
  { unfold measure. destruct HI as (_ & _ & _ & _ & _ & _ & _ & H1 & _). cbn [length]. lia. }
  destruct (drain_complete byte c srv limit eager k b0 Hh Hb bufs s [] HI Hpos Hm) as (rest & s' & l & Hd & Hc).
  cbn in Hc. subst rest. now exists s, s', l.
Qed.

Theorem resume_safe (byte : Type) (c : list byte) srv limit eager k b0 expect bufs :
  honest byte c srv k -> (b0 + k < limit)%nat -> (expect = Z.of_nat (length c) \/ expect = 0) ->
  exists s out r s' l, open srv limit expect b0 = (NOk, s, [None]) /\ drain srv limit eager s bufs = (out, r, s', l) /\
    ((r = None /\ exists tl, c = out ++ tl) \/ (r = Some UEOF /\ out = c)).
Proof.
  intros Hh Hb He.
  destruct (open_honest byte c srv limit k b0 Hh Hb expect He) as (s & Ho & HI).
  destruct (drain_safe byte c srv limit eager k b0 Hh Hb bufs s [] HI) as (rest & r & s' & l & Hd & Hres).
  exists s, rest, r, s', l. split; [exact Ho|]. split; [exact Hd|].
  destruct Hres as [(-> & HI')|(-> & Hc)]; [left|right; split; [reflexivity|exact Hc]].
  split; [reflexivity|]. destruct HI' as (_ & _ & _ & _ & _ & (rest2 & HX & _ & _) & _). cbn in HX. now exists (r_body s' ++ rest2).
Qed.

(* the hypotheses are satisfiable: a registry that cuts the first two bodies after 3 bytes each *)
Definition demo_blob : list nat := [10; 11; 12; 13; 14; 15; 16; 17]%nat.
Definition demo_srv (att : nat) (rg : option (Z * Z)) : reply nat :=
  let rem := skipn (start_of rg) demo_blob in
  let cut := (att <? 2)%nat && (3 <? length rem)%nat in
  RpOk (match rg with None => Some 8 | _ => None end) true (if cut then firstn 3 rem else rem) (if cut then EndUnexpected else EndEOF).
Lemma demo_honest : honest nat demo_blob demo_srv 2.
Proof.
  intros att rg. unfold demo_srv. set (rem := skipn (start_of rg) demo_blob).
  destruct ((att <? 2)%nat && (3 <? length rem)%nat) eqn:E.
  - apply andb_prop in E as [E1 E2]. apply Nat.ltb_lt in E1, E2.
    exists (match rg with None => Some 8 | _ => None end), 3%nat, EndUnexpected. split; [reflexivity|]. split; [intros ->; reflexivity|].
    split; [discriminate|]. split; [intros _; exact E1|]. intros Hge. lia.
  - exists (match rg with None => Some 8 | _ => None end), (length rem), EndEOF. split; [now rewrite firstn_all|]. split; [intros ->; reflexivity|].
    split; [discriminate|]. split; [intros Hlt; lia|reflexivity].
Qed.
Example demo_run :
  let '(_, s, _) := open demo_srv 4 8 0 in
  let '(out, r, _, l) := drain demo_srv 4 (fun _ => false) s [2; 2; 2; 2; 2; 2; 2; 2; 2; 2; 2]%nat in
  (out, r, l) = (demo_blob, Some UEOF, [Some (3, 8); Some (6, 8)]).
Proof. vm_compute. reflexivity. Qed.
