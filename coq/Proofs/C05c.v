(* Proofs/C05c.v — the chunk size honours the minimum a registry announces *)
From Coq Require Import ZArith Bool Lia.
From Verif Require Import Model.C05_Chunk.
Local Open Scope Z_scope.

Theorem chunk_honours_minimum hc d lim m : 0 < d -> m <= lim -> m <= buf_size (raise hc d lim m) d.
Proof.
  intros Hd Hm. unfold raise, buf_size.
  destruct (0 <? hc) eqn:E1, (hc <? m) eqn:E2, (hc <=? 0) eqn:E3, (d <? m) eqn:E4; cbn [andb orb];
    repeat match goal with |- context [if ?c then _ else _] => destruct c eqn:? end; lia.
Qed.

Theorem raise_never_lowers hc d lim m : 0 < hc -> hc <= lim -> hc <= raise hc d lim m.
Proof.
  intros H1 H2. unfold raise.
  destruct (0 <? hc) eqn:E1, (hc <? m) eqn:E2, (hc <=? 0) eqn:E3, (d <? m) eqn:E4; cbn [andb orb]; lia.
Qed.

Theorem raise_bounded hc d lim m : hc <= lim -> raise hc d lim m <= lim.
Proof.
  intros H. unfold raise.
  destruct (0 <? hc) eqn:E1, (hc <? m) eqn:E2, (hc <=? 0) eqn:E3, (d <? m) eqn:E4; cbn [andb orb]; lia.
Qed.

(* comparing against max(host setting, default) leaves a host configured below the default under the minimum *)
Theorem raise_max_refuted : exists hc d lim m, 0 < d /\ m <= lim /\ buf_size (raise_max hc d lim m) d < m.
Proof. exists 16, 1048576, 1073741824, 32. vm_compute. repeat split; congruence. Qed.
