(* Proofs/C14h.v — the head ladder of imageCopyOpt *)
From Coq Require Import List Arith Bool Lia.
From Verif Require Import Model.C14_Head.
Import ListNotations.

Definition known_ok (known : option nat) (src : nat) : Prop := match known with Some k => k = src | None => True end.

(* the copy is skipped only when the target's digest IS the source's digest *)
Theorem skip_sound tgt known src fast force refs dtags tl acts :
  known_ok known src -> head_ladder tgt known src fast force refs dtags tl = (acts, true) -> tgt = Some src.
Proof.
  unfold head_ladder, known_ok. intros Hk H.
  destruct tgt as [t|]; cbn in H.
  - destruct (fast || negb force && negb refs && negb dtags).
    + destruct known as [k|]; cbn in H.
      * destruct (Nat.eqb k t) eqn:E; [apply Nat.eqb_eq in E; congruence|].
        destruct (negb (Nat.eqb k t) || force || tl); discriminate.
      * destruct (Nat.eqb src t) eqn:E; [apply Nat.eqb_eq in E; congruence|].
        destruct (negb (Nat.eqb src t) || force || tl); discriminate.
    + destruct known as [k|]; cbn in H.
      * destruct (negb (Nat.eqb k t) || force || tl); discriminate.
      * destruct (negb force); cbn in H; [destruct (negb (Nat.eqb src t) || force || tl)|]; discriminate.
  - destruct known; discriminate.
Qed.

(* identical image already at the target, default options: one HEAD of the target, at most one HEAD of the source,
   no manifest body fetched, nothing copied *)
Theorem identical_skipped d known :
  known_ok known d ->
  head_ladder (Some d) known d false false false false false = ([AHeadTgt], true) \/
  head_ladder (Some d) known d false false false false false = ([AHeadTgt; AHeadSrc], true).
Proof.
  unfold known_ok, head_ladder. intros Hk. destruct known as [k|]; cbn.
  - subst k. rewrite Nat.eqb_refl. now left.
  - rewrite Nat.eqb_refl. now right.
Qed.

(* referrers or digest tags requested, the image manifest itself is already there: its body is not fetched again *)
Theorem equal_image_body_not_refetched d known refs dtags :
  known_ok known d -> refs || dtags = true ->
  ~ In AGetSrcMan (fst (head_ladder (Some d) known d false false refs dtags false)).
Proof.
  unfold known_ok, head_ladder. intros Hk Ho.
  assert (Hp : false || negb false && negb refs && negb dtags = false) by (destruct refs, dtags; try reflexivity; discriminate).
  rewrite Hp. destruct known as [k|]; cbn.
  - subst k. rewrite Nat.eqb_refl. cbn. intros [H|[]]; discriminate.
  - rewrite Nat.eqb_refl. cbn. intros [H|[H|[]]]; discriminate.
Qed.

(* the body is always fetched when the target lacks the manifest or holds another one *)
Theorem differing_fetched tgt known src fast force refs dtags tl :
  known_ok known src -> tgt <> Some src -> In AGetSrcMan (fst (head_ladder tgt known src fast force refs dtags tl)).
Proof.
  unfold known_ok, head_ladder. intros Hk Hne.
  destruct tgt as [t|].
  - assert (Hts : Nat.eqb src t = false) by (apply Nat.eqb_neq; congruence).
    destruct (fast || negb force && negb refs && negb dtags); destruct known as [k|]; cbn; try subst k; rewrite ?Hts; cbn;
      try (destruct (negb force); cbn; rewrite ?Hts; cbn); repeat ((left; reflexivity) || right).
  - destruct known; cbn; repeat ((left; reflexivity) || right).
Qed.
