(* Proofs/C10.v — sequential exactness of referrer listings on all back ends; atomicity of the locked read-modify-write *)
From Coq Require Import List Arith Bool Lia Permutation.
From Verif Require Import Model.C10_Referrers.
Import ListNotations.

Lemma memn_In x l : memn x l = true <-> In x l.
Proof. unfold memn. rewrite existsb_exists. split; [intros (y & Hy & E); apply Nat.eqb_eq in E; now subst|intro H; exists x; split; [exact H|apply Nat.eqb_refl]]. Qed.
Lemma memn_false x l : memn x l = false <-> ~ In x l.
Proof. rewrite <- memn_In. destruct (memn x l); split; congruence. Qed.

Lemma filter_ne_In (l : list nat) d x : In x (filter (fun y => negb (Nat.eqb y d)) l) <-> In x l /\ x <> d.
Proof. rewrite filter_In. destruct (Nat.eqb_spec x d); cbn; split; intros [H1 H2]; split; auto; congruence. Qed.
Lemma filter_nodup {A} (f : A -> bool) l : NoDup l -> NoDup (filter f l).
Proof. induction 1 as [|x l Hx Hn IH]; cbn; [constructor|]. destruct (f x); [constructor; [rewrite filter_In; tauto|exact IH]|exact IH]. Qed.
Lemma app1_nodup (l : list nat) d : NoDup l -> ~ In d l -> NoDup (l ++ [d]).
Proof.
  induction 1 as [|y l Hy Hn IH]; intro Hd; cbn; [constructor; [intros []|constructor]|].
  constructor; [|apply IH; intro; apply Hd; now right]. intro Hi. apply in_app_or in Hi as [Hi|[E|[]]]; [contradiction|subst; apply Hd; now left].
Qed.

Lemma rl_add_In l d x : In x (rl_add l d) <-> In x l \/ x = d.
Proof. unfold rl_add. destruct (memn d l) eqn:E; [apply memn_In in E; split; [auto|intros [H|E0]; [exact H|subst; exact E]]|]. rewrite in_app_iff. cbn. intuition. Qed.
Lemma rl_add_nodup l d : NoDup l -> NoDup (rl_add l d).
Proof. unfold rl_add. destruct (memn d l) eqn:E; [auto|]. apply memn_false in E. intro. now apply app1_nodup. Qed.
Lemma rl_del_some l d l' : rl_del l d = Some l' -> (forall x, In x l' <-> In x l /\ x <> d) /\ (NoDup l -> NoDup l').
Proof. unfold rl_del. destruct (memn d l); [|discriminate]. intro H; inversion H; subst. split; [intro x; apply filter_ne_In|apply filter_nodup]. Qed.
Lemma rl_del_none l d : rl_del l d = None -> ~ In d l.
Proof. unfold rl_del. destruct (memn d l) eqn:E; [discriminate|]. intros _. now apply memn_false. Qed.

Lemma mget_mdel_eq {A} k (m : list (nat * A)) : mget k (mdel k m) = None.
Proof. induction m as [|[a v] m IH]; cbn; [reflexivity|]. destruct (Nat.eqb_spec a k); cbn; [exact IH|]. destruct (Nat.eqb_spec a k); [contradiction|exact IH]. Qed.
Lemma mget_mdel_neq {A} k k' (m : list (nat * A)) : k <> k' -> mget k' (mdel k m) = mget k' m.
Proof.
  intro Hn. induction m as [|[a v] m IH]; cbn; [reflexivity|]. destruct (Nat.eqb_spec a k) as [->|Ha]; cbn.
  - destruct (Nat.eqb_spec k k'); [contradiction|exact IH].
  - destruct (Nat.eqb_spec a k'); [reflexivity|exact IH].
Qed.
Lemma mget_mset_eq {A} k (v : A) m : mget k (mset k v m) = Some v.
Proof. unfold mset. cbn. now rewrite Nat.eqb_refl. Qed.
Lemma mget_mset_neq {A} k k' (v : A) m : k <> k' -> mget k' (mset k v m) = mget k' m.
Proof. intro Hn. unfold mset. cbn. destruct (Nat.eqb_spec k k'); [contradiction|now apply mget_mdel_neq]. Qed.

Section Seq.
  Variable inf : nat -> info.
  Variable b : backend.
  Variable uc : bool.

  Definition answer (s : state) (x : nat) : list nat := match b with BApi => api_answer inf s x | _ => tag_of s x end.
  Definition exact (s : state) (x : nat) (l : list nat) : Prop := NoDup l /\ forall d, In d l <-> In d (live s) /\ subj (inf d) = x.

  Definition Inv (s : state) : Prop :=
    NoDup (live s) /\
    (b <> BApi -> forall x, x <> 0 -> exact s x (tag_of s x)) /\
    (forall x l, x <> 0 -> mget x (cache s) = Some l -> l = answer s x) /\
    (b = BDir -> cache s = []).

  Lemma answer_exact s x : Inv s -> x <> 0 -> exact s x (answer s x).
  Proof.
    intros (Hl & Ht & _ & _) Hx. unfold answer. destruct b eqn:Eb; [|apply Ht; [discriminate|exact Hx]|apply Ht; [discriminate|exact Hx]].
    unfold api_answer. split; [now apply filter_nodup|]. intro d. rewrite filter_In, Nat.eqb_eq. tauto.
  Qed.

  Definition ok_res (s : state) (o : op) (r : res) : Prop :=
    match o with
    | List x f => x <> 0 -> exists l, r = RList l /\ NoDup l /\ forall d, In d l <-> (In d (live s) /\ subj (inf d) = x /\ matches inf f d = true)
    | _ => True
    end.

  Lemma store_In l d x : In x (store l d) <-> In x l \/ x = d. Proof. apply rl_add_In. Qed.
  Lemma store_nodup l d : NoDup l -> NoDup (store l d). Proof. apply rl_add_nodup. Qed.
  Lemma unstore_In l d x : In x (unstore l d) <-> In x l /\ x <> d. Proof. apply filter_ne_In. Qed.

  Lemma tag_of_mset s x l y : tag_of (mkS (live s) (mset x l (tags s)) (cache s)) y = if Nat.eqb x y then l else tag_of s y.
  Proof. unfold tag_of. cbn [tags]. destruct (Nat.eqb_spec x y) as [->|Hn]; [now rewrite mget_mset_eq|now rewrite mget_mset_neq]. Qed.

  Lemma matches_type f d : matches inf f d = true -> Nat.eqb (f_type f) 0 = false -> Nat.eqb (atype (inf d)) (f_type f) = true.
  Proof. unfold matches. intros H Hz. apply andb_true_iff in H as [H _]. rewrite Hz in H. exact H. Qed.

  Lemma step_ok s o : Inv s -> ok_res s o (snd (step inf b uc s o)).
  Proof.
    intro HI. destruct o as [d|d|x f]; cbn [ok_res]; auto. intro Hx.
    cbn [step].
    assert (Hans := answer_exact s x HI Hx).
    set (hit := match b with BDir => None | _ => if uc then mget x (cache s) else None end).
    assert (Hhit : forall l, hit = Some l -> l = answer s x).
    { intros l Hl. destruct HI as (_ & _ & Hc & _). apply Hc; [exact Hx|]. unfold hit in Hl. destruct b; [|destruct uc; [exact Hl|discriminate]..|discriminate].
      destruct uc; [exact Hl|discriminate]. }
    destruct hit as [l|] eqn:Eh.
    - rewrite (Hhit l eq_refl). cbn [snd]. eexists. split; [reflexivity|]. destruct Hans as [Hn Hm].
      split; [now apply filter_nodup|]. intro d. rewrite filter_In, Hm. tauto.
    - cbn [snd]. eexists. split; [reflexivity|]. unfold answer in Hans. destruct Hans as [Hn Hm].
      destruct b.
      + destruct (Nat.eqb (f_type f) 0) eqn:Ez.
        * split; [now apply filter_nodup|]. intro d. rewrite filter_In, Hm. tauto.
        * split; [now apply filter_nodup, filter_nodup|]. intro d. rewrite !filter_In, Hm. split; [tauto|]. intros (H1 & H2 & H3). repeat split; auto. now apply matches_type.
      + split; [now apply filter_nodup|]. intro d. rewrite filter_In, Hm. tauto.
      + split; [now apply filter_nodup|]. intro d. rewrite filter_In, Hm. tauto.
  Qed.

  Lemma filter_store (p : nat -> bool) l d : p d = false -> filter p (store l d) = filter p l.
  Proof. intro Hp. unfold store. destruct (memn d l); [reflexivity|]. rewrite filter_app. cbn. rewrite Hp. apply app_nil_r. Qed.
  Lemma filter_unstore (p : nat -> bool) l d : p d = false -> filter p (unstore l d) = filter p l.
  Proof.
    intro Hp. unfold unstore. induction l as [|y l IH]; cbn; [reflexivity|]. destruct (Nat.eqb_spec y d) as [->|Hn]; cbn.
    - rewrite Hp. exact IH.
    - destruct (p y); [f_equal|]; exact IH.
  Qed.

  (* the fallback index of subject x replaced by l (removed when empty), everything else as it was *)
  Definition retag (s : state) (x : nat) (l : list nat) : list (nat * list nat) := match l with [] => mdel x (tags s) | _ => mset x l (tags s) end.
  Lemma tag_of_retag s lv c x l y : tag_of (mkS lv (retag s x l) c) y = if Nat.eqb x y then l else tag_of s y.
  Proof.
    unfold tag_of, retag. cbn [tags]. destruct (Nat.eqb_spec x y) as [->|Hn].
    - destruct l; [now rewrite mget_mdel_eq|now rewrite mget_mset_eq].
    - destruct l; [now rewrite mget_mdel_neq|now rewrite mget_mset_neq].
  Qed.
  Lemma tag_of_mset' s lv c x l y : tag_of (mkS lv (mset x l (tags s)) c) y = if Nat.eqb x y then l else tag_of s y.
  Proof. unfold tag_of. cbn [tags]. destruct (Nat.eqb_spec x y) as [->|Hn]; [now rewrite mget_mset_eq|now rewrite mget_mset_neq]. Qed.

  Lemma step_inv s o : Inv s -> Inv (fst (step inf b uc s o)).
  Proof.
    intros (Hl & Ht & Hc & Hd). unfold Inv, exact in *. destruct o as [d|d|x f]; cbn [step]; cbv zeta.
    - (* Put *)
      set (x := subj (inf d)). destruct (Nat.eqb_spec x 0) as [Hx0|Hx0].
      + cbn [fst]. split; [now apply store_nodup|]. split; [|split; [|exact Hd]].
        * intros Hb y Hy. destruct (Ht Hb y Hy) as [Hn Hm]. unfold tag_of in *. cbn [tags live]. split; [exact Hn|].
          intro e. rewrite Hm, store_In. split; [tauto|]. intros [[H| -> ] H2]; [tauto|]. fold x in H2. congruence.
        * intros y l Hy Hg. cbn [cache] in Hg. rewrite (Hc y l Hy Hg). unfold answer, api_answer, tag_of. cbn [live tags]. destruct b; try reflexivity.
          symmetry. apply filter_store. fold x. destruct (Nat.eqb_spec x y); [congruence|reflexivity].
      + assert (Hlive : forall y e, y <> x -> (In e (store (live s) d) /\ subj (inf e) = y <-> In e (live s) /\ subj (inf e) = y)).
        { intros y e Hy. rewrite store_In. split; [|tauto]. intros [[H| -> ] H2]; [tauto|]. fold x in H2. congruence. }
        destruct b eqn:Eb; cbn [fst].
        * split; [now apply store_nodup|]. split; [intro; congruence|]. split; [|discriminate].
          intros y l Hy Hg. cbn [cache] in Hg. destruct (Nat.eq_dec x y) as [->|Hn]; [rewrite mget_mdel_eq in Hg; discriminate|].
          rewrite mget_mdel_neq in Hg by exact Hn. rewrite (Hc y l Hy Hg). unfold answer, api_answer. rewrite Eb. cbn [live].
          symmetry. apply filter_store. fold x. destruct (Nat.eqb_spec x y); [congruence|reflexivity].
        * set (l := rl_add (tag_of s x) d).
          assert (Hex : exact (mkS (store (live s) d) (mset x l (tags s)) (if uc then mset x l (cache s) else mdel x (cache s))) x l).
          { unfold exact. destruct (Ht ltac:(discriminate) x Hx0) as [Hn Hm]. split; [now apply rl_add_nodup|]. intro e. unfold l. rewrite rl_add_In, Hm. cbn [live]. rewrite store_In.
            split; [intros [[H1 H2]| -> ]; [tauto|split; [now right|reflexivity]]|intros [[H| -> ] H2]; [left; tauto|now right]]. }
          split; [now apply store_nodup|]. split; [|split; [|discriminate]].
          -- intros _ y Hy. rewrite tag_of_mset'. destruct (Nat.eqb_spec x y) as [<-|Hn]; [exact Hex|].
             destruct (Ht ltac:(discriminate) y Hy) as [Hn' Hm]. split; [exact Hn'|]. intro e. cbn [live]. rewrite Hm. symmetry. apply Hlive. congruence.
          -- intros y l0 Hy Hg. unfold answer. rewrite Eb, tag_of_mset'. cbn [cache] in Hg. destruct (Nat.eqb_spec x y) as [<-|Hn].
             ++ destruct uc; [rewrite mget_mset_eq in Hg; congruence|rewrite mget_mdel_eq in Hg; discriminate].
             ++ assert (Hg' : mget y (cache s) = Some l0) by (destruct uc; [rewrite mget_mset_neq in Hg by exact Hn|rewrite mget_mdel_neq in Hg by exact Hn]; exact Hg).
                rewrite (Hc y l0 Hy Hg'). unfold answer. now rewrite Eb.
        * set (l := rl_add (tag_of s x) d).
          split; [now apply store_nodup|]. split; [|split; [|intros _; now apply Hd]].
          -- intros _ y Hy. rewrite tag_of_mset'. destruct (Nat.eqb_spec x y) as [<-|Hn].
             ++ destruct (Ht ltac:(discriminate) x Hx0) as [Hn Hm]. split; [now apply rl_add_nodup|]. intro e. unfold l. rewrite rl_add_In, Hm. cbn [live]. rewrite store_In.
                split; [intros [[H1 H2]| -> ]; [tauto|split; [now right|reflexivity]]|intros [[H| -> ] H2]; [left; tauto|now right]].
             ++ destruct (Ht ltac:(discriminate) y Hy) as [Hn' Hm]. split; [exact Hn'|]. intro e. cbn [live]. rewrite Hm. symmetry. apply Hlive. congruence.
          -- intros y l0 Hy Hg. cbn [cache] in Hg. rewrite (Hd eq_refl) in Hg. discriminate.
    - (* Del *)
      destruct (memn d (live s)) eqn:Em; cbn [negb]; [|cbn [fst]; exact (conj Hl (conj Ht (conj Hc Hd)))].
      apply memn_In in Em. set (x := subj (inf d)).
      assert (Hlive : forall y e, y <> x -> (In e (unstore (live s) d) /\ subj (inf e) = y <-> In e (live s) /\ subj (inf e) = y)).
      { intros y e Hy. rewrite unstore_In. split; [tauto|]. intros [H1 H2]. repeat split; auto. intros ->. fold x in H2. congruence. }
      assert (Hun : NoDup (unstore (live s) d)) by now apply filter_nodup.
      destruct (Nat.eqb_spec x 0) as [Hx0|Hx0].
      + cbn [fst]. split; [exact Hun|]. split; [|split; [|exact Hd]].
        * intros Hb y Hy. destruct (Ht Hb y Hy) as [Hn Hm]. unfold tag_of in *. cbn [tags live]. split; [exact Hn|].
          intro e. rewrite Hm. symmetry. apply Hlive. congruence.
        * intros y l Hy Hg. cbn [cache] in Hg. rewrite (Hc y l Hy Hg). unfold answer, api_answer, tag_of. cbn [live tags]. destruct b; try reflexivity.
          symmetry. apply filter_unstore. fold x. destruct (Nat.eqb_spec x y); [congruence|reflexivity].
      + destruct b eqn:Eb.
        * cbn [fst]. split; [exact Hun|]. split; [intro; congruence|]. split; [|discriminate].
          intros y l Hy Hg. cbn [cache] in Hg. destruct (Nat.eq_dec x y) as [->|Hn]; [rewrite mget_mdel_eq in Hg; discriminate|].
          rewrite mget_mdel_neq in Hg by exact Hn. rewrite (Hc y l Hy Hg). unfold answer, api_answer. rewrite Eb. cbn [live].
          symmetry. apply filter_unstore. fold x. destruct (Nat.eqb_spec x y); [congruence|reflexivity].
        * destruct (Ht ltac:(discriminate) x Hx0) as [Hn Hm].
          destruct (rl_del (tag_of s x) d) as [l|] eqn:Er; [|exfalso; apply rl_del_none in Er; apply Er, Hm; auto].
          destruct (rl_del_some _ _ _ Er) as [Hin Hnd]. cbn [fst]. fold (retag s x l).
          split; [exact Hun|]. split; [|split; [|discriminate]].
          -- intros _ y Hy. rewrite tag_of_retag. destruct (Nat.eqb_spec x y) as [<-|Hne].
             ++ split; [now apply Hnd|]. intro e. rewrite Hin, Hm. cbn [live]. rewrite unstore_In. tauto.
             ++ destruct (Ht ltac:(discriminate) y Hy) as [Hn' Hm']. split; [exact Hn'|]. intro e. cbn [live]. rewrite Hm'. symmetry. apply Hlive. congruence.
          -- intros y l0 Hy Hg. unfold answer. rewrite Eb, tag_of_retag. cbn [cache] in Hg. destruct (Nat.eqb_spec x y) as [<-|Hne]; [rewrite mget_mdel_eq in Hg; discriminate|].
             rewrite mget_mdel_neq in Hg by exact Hne. rewrite (Hc y l0 Hy Hg). unfold answer. now rewrite Eb.
        * destruct (Ht ltac:(discriminate) x Hx0) as [Hn Hm].
          destruct (rl_del (tag_of s x) d) as [l|] eqn:Er; [|exfalso; apply rl_del_none in Er; apply Er, Hm; auto].
          destruct (rl_del_some _ _ _ Er) as [Hin Hnd]. cbn [fst]. fold (retag s x l).
          split; [exact Hun|]. split; [|split; [|intros _; cbn [cache]; rewrite (Hd eq_refl); reflexivity]].
          -- intros _ y Hy. rewrite tag_of_retag. destruct (Nat.eqb_spec x y) as [<-|Hne].
             ++ split; [now apply Hnd|]. intro e. rewrite Hin, Hm. cbn [live]. rewrite unstore_In. tauto.
             ++ destruct (Ht ltac:(discriminate) y Hy) as [Hn' Hm']. split; [exact Hn'|]. intro e. cbn [live]. rewrite Hm'. symmetry. apply Hlive. congruence.
          -- intros y l0 Hy Hg. cbn [cache] in Hg. rewrite (Hd eq_refl) in Hg. discriminate.
    - (* List *)
      match goal with |- context [match ?h with Some _ => _ | None => _ end] => destruct h as [l|] eqn:Eh end; cbn [fst]; [exact (conj Hl (conj Ht (conj Hc Hd)))|].
      match goal with |- context [if ?c then mset x ?l (cache s) else cache s] => set (cacheable := c); set (ans := l) end.
      assert (Hans : ans = answer s x) by (unfold ans, answer; destruct b; reflexivity).
      split; [exact Hl|]. split; [exact Ht|]. split.
      + intros y l0 Hy Hg. cbn [cache] in Hg. change (answer (mkS (live s) (tags s) (if cacheable then mset x ans (cache s) else cache s)) y) with (answer s y).
        destruct cacheable; [|now apply Hc]. destruct (Nat.eq_dec x y) as [->|Hn]; [rewrite mget_mset_eq in Hg; congruence|].
        rewrite mget_mset_neq in Hg by exact Hn. now apply Hc.
      + intro Hb. cbn [cache]. unfold cacheable. rewrite Hb. now apply Hd.
  Qed.

  Fixpoint all_ok (s : state) (ops : list op) : Prop :=
    match ops with [] => True | o :: r => ok_res s o (snd (step inf b uc s o)) /\ all_ok (fst (step inf b uc s o)) r end.
  Lemma run_all_ok : forall ops s, Inv s -> all_ok s ops.
  Proof. induction ops as [|o r IH]; intros s HI; cbn; [exact I|]. split; [now apply step_ok|apply IH; now apply step_inv]. Qed.
  Lemma init_inv : Inv init.
  Proof. unfold Inv, init, exact, tag_of. cbn. repeat split; try constructor; try tauto; try discriminate; try (intros [[] _]). Qed.
End Seq.

(* ---------- the locked read-modify-write: any interleaving equals some serial order ---------- *)
Definition pend (l : list thread) : list upd := flat_map (fun t => if Nat.leb (pc t) 2 then [t_upd t] else []) l.

Lemma nth_set_th_eq : forall l i t t0, nth_error l i = Some t0 -> nth_error (set_th i t l) i = Some t.
Proof. induction l as [|x l IH]; intros [|i] t t0 H; cbn in *; try discriminate; [reflexivity|eapply IH; eauto]. Qed.
Lemma nth_set_th_neq : forall l i j t, i <> j -> nth_error (set_th i t l) j = nth_error l j.
Proof. induction l as [|x l IH]; intros [|i] [|j] t H; cbn; try reflexivity; [contradiction|apply IH; congruence]. Qed.
Lemma pend_same : forall l i t t', nth_error l i = Some t -> Nat.leb (pc t) 2 = Nat.leb (pc t') 2 -> t_upd t' = t_upd t -> pend (set_th i t' l) = pend l.
Proof.
  induction l as [|x l IH]; intros [|i] t t' H Hp Hu; cbn in *; try discriminate.
  - inversion H; subst. rewrite Hp, Hu. reflexivity.
  - f_equal. eapply IH; eauto.
Qed.
Lemma pend_leave : forall l i t t', nth_error l i = Some t -> Nat.leb (pc t) 2 = true -> Nat.leb (pc t') 2 = false ->
  Permutation (t_upd t :: pend (set_th i t' l)) (pend l).
Proof.
  induction l as [|x l IH]; intros [|i] t t' H Hp Hp'; cbn in *; try discriminate.
  - inversion H; subst. rewrite Hp, Hp'. reflexivity.
  - destruct (Nat.leb (pc x) 2); cbn; [rewrite perm_swap; constructor|]; eapply IH; eauto.
Qed.

Definition locked_all (s : cstate) : Prop := forall j t, nth_error (ths s) j = Some t -> uses_lock t = true.
Definition CI (v0 : list nat) (U : list upd) (s : cstate) (applied : list upd) : Prop :=
  val s = fold_left apply_upd applied v0 /\
  Permutation (applied ++ pend (ths s)) U /\
  (forall j t, nth_error (ths s) j = Some t -> (1 <= pc t <= 3 <-> holder s = Some j)) /\
  (forall j t, nth_error (ths s) j = Some t -> pc t = 2 -> loc t = val s) /\
  locked_all s.

Lemma cstep_CI v0 U s applied i s' : CI v0 U s applied -> cstep s i = Some s' -> exists applied', CI v0 U s' applied'.
Proof.
  intros (HA & HB & HC & HD & HE) Hs. unfold cstep in Hs. destruct (nth_error (ths s) i) as [t|] eqn:Et; [|discriminate].
  assert (Hlk := HE i t Et).
  destruct (pc t) as [|[|[|[|n]]]] eqn:Epc; [| | | |discriminate].
  - (* take the lock *)
    rewrite Hlk in Hs. destruct (holder s) eqn:Eh; [discriminate|]. inversion Hs; subst; clear Hs. exists applied. unfold CI, locked_all. cbn [val holder ths].
    split; [exact HA|]. split; [erewrite pend_same; eauto; rewrite Epc; reflexivity|]. split; [|split].
    + intros j t' Hj. destruct (Nat.eq_dec i j) as [<-|Hn].
      * erewrite nth_set_th_eq in Hj by eauto. inversion Hj; subst. cbn. split; [reflexivity|lia].
      * rewrite nth_set_th_neq in Hj by exact Hn. split; [intro Hp; apply (HC j t' Hj) in Hp; congruence|intro H; inversion H; congruence].
    + intros j t' Hj Hp. destruct (Nat.eq_dec i j) as [<-|Hn].
      * erewrite nth_set_th_eq in Hj by eauto. inversion Hj; subst. discriminate.
      * rewrite nth_set_th_neq in Hj by exact Hn. now apply (HD j t').
    + intros j t' Hj. destruct (Nat.eq_dec i j) as [<-|Hn]; [erewrite nth_set_th_eq in Hj by eauto; inversion Hj; reflexivity|rewrite nth_set_th_neq in Hj by exact Hn; eapply HE; eauto].
  - (* read *)
    inversion Hs; subst; clear Hs. exists applied. unfold CI, locked_all. cbn [val holder ths].
    assert (Hh : holder s = Some i) by (apply (HC i t Et); lia).
    split; [exact HA|]. split; [erewrite pend_same; eauto; rewrite Epc; reflexivity|]. split; [|split].
    + intros j t' Hj. destruct (Nat.eq_dec i j) as [<-|Hn].
      * erewrite nth_set_th_eq in Hj by eauto. inversion Hj; subst. cbn. split; [intro; exact Hh|lia].
      * rewrite nth_set_th_neq in Hj by exact Hn. apply (HC j t' Hj).
    + intros j t' Hj Hp. destruct (Nat.eq_dec i j) as [<-|Hn].
      * erewrite nth_set_th_eq in Hj by eauto. inversion Hj; subst. reflexivity.
      * rewrite nth_set_th_neq in Hj by exact Hn. now apply (HD j t').
    + intros j t' Hj. destruct (Nat.eq_dec i j) as [<-|Hn]; [erewrite nth_set_th_eq in Hj by eauto; inversion Hj; subst; cbn; (exact Hlk || reflexivity)|rewrite nth_set_th_neq in Hj by exact Hn; eapply HE; eauto].
  - (* write *)
    inversion Hs; subst; clear Hs. exists (applied ++ [t_upd t]). unfold CI, locked_all. cbn [val holder ths].
    assert (Hh : holder s = Some i) by (apply (HC i t Et); lia).
    assert (Hloc : loc t = val s) by now apply (HD i t Et).
    split; [rewrite fold_left_app; cbn; now rewrite <- HA, Hloc|]. split; [|split; [|split]].
    + rewrite <- HB, <- app_assoc. apply Permutation_app_head. cbn. eapply pend_leave; eauto; rewrite Epc; reflexivity.
    + intros j t' Hj. destruct (Nat.eq_dec i j) as [<-|Hn].
      * erewrite nth_set_th_eq in Hj by eauto. inversion Hj; subst. cbn. split; [intro; exact Hh|lia].
      * rewrite nth_set_th_neq in Hj by exact Hn. apply (HC j t' Hj).
    + intros j t' Hj Hp. destruct (Nat.eq_dec i j) as [<-|Hn].
      * erewrite nth_set_th_eq in Hj by eauto. inversion Hj; subst. discriminate.
      * rewrite nth_set_th_neq in Hj by exact Hn. exfalso. assert (holder s = Some j) by (apply (HC j t' Hj); lia). congruence.
    + intros j t' Hj. destruct (Nat.eq_dec i j) as [<-|Hn]; [erewrite nth_set_th_eq in Hj by eauto; inversion Hj; subst; cbn; (exact Hlk || reflexivity)|rewrite nth_set_th_neq in Hj by exact Hn; eapply HE; eauto].
  - (* release *)
    rewrite Hlk in Hs. inversion Hs; subst; clear Hs. exists applied. unfold CI, locked_all. cbn [val holder ths].
    assert (Hh : holder s = Some i) by (apply (HC i t Et); lia).
    split; [exact HA|]. split; [erewrite pend_same; eauto; rewrite Epc; reflexivity|]. split; [|split].
    + intros j t' Hj. destruct (Nat.eq_dec i j) as [<-|Hn].
      * erewrite nth_set_th_eq in Hj by eauto. inversion Hj; subst. cbn. split; [lia|discriminate].
      * rewrite nth_set_th_neq in Hj by exact Hn. split; [intro Hp; exfalso; assert (holder s = Some j) by (now apply (HC j t' Hj)); congruence|discriminate].
    + intros j t' Hj Hp. destruct (Nat.eq_dec i j) as [<-|Hn].
      * erewrite nth_set_th_eq in Hj by eauto. inversion Hj; subst. discriminate.
      * rewrite nth_set_th_neq in Hj by exact Hn. now apply (HD j t').
    + intros j t' Hj. destruct (Nat.eq_dec i j) as [<-|Hn]; [erewrite nth_set_th_eq in Hj by eauto; inversion Hj; subst; cbn; (exact Hlk || reflexivity)|rewrite nth_set_th_neq in Hj by exact Hn; eapply HE; eauto].
Qed.

Lemma crun_CI v0 U : forall sched s applied s', CI v0 U s applied -> crun s sched = Some s' -> exists applied', CI v0 U s' applied'.
Proof.
  induction sched as [|i r IH]; intros s applied s' HI Hr; cbn in Hr; [inversion Hr; subst; eauto|].
  destruct (cstep s i) as [s1|] eqn:Es; [|discriminate]. destruct (cstep_CI _ _ _ _ _ _ HI Es) as (a1 & H1). eapply IH; eauto.
Qed.

Lemma pend_init us : pend (map (fun p : bool * upd => mkT (fst p) (snd p) 0 []) us) = map snd us.
Proof. induction us as [|p us IH]; [reflexivity|]. unfold pend in *. cbn [map flat_map pc t_upd Nat.leb app]. now rewrite IH. Qed.
Lemma pend_finished l : forallb (fun t => Nat.eqb (pc t) 4) l = true -> pend l = [].
Proof. induction l as [|t l IH]; [reflexivity|]. cbn [forallb]. intro H. apply andb_true_iff in H as [H1 H2]. apply Nat.eqb_eq in H1. unfold pend in *. cbn [flat_map]. rewrite H1. cbn [Nat.leb app]. now apply IH. Qed.

Theorem locked_rmw_serial v us sched s' :
  Forall (fun p => fst p = true) us -> crun (cinit v us) sched = Some s' -> finished s' = true ->
  exists order, Permutation order (map snd us) /\ val s' = fold_left apply_upd order v.
Proof.
  intros Hall Hr Hf.
  assert (H0 : CI v (map snd us) (cinit v us) []).
  { unfold CI, cinit, locked_all. cbn [val holder ths app]. split; [reflexivity|]. split; [now rewrite pend_init|].
    assert (Hnth : forall j t, nth_error (map (fun p : bool * upd => mkT (fst p) (snd p) 0 []) us) j = Some t -> pc t = 0 /\ uses_lock t = true).
    { intros j t Hj. rewrite nth_error_map in Hj. destruct (nth_error us j) as [p|] eqn:Ep; [|discriminate]. inversion Hj; subst. cbn. split; [reflexivity|].
      rewrite Forall_forall in Hall. apply Hall. eapply nth_error_In; eauto. }
    split; [intros j t Hj; destruct (Hnth j t Hj) as [Hp _]; rewrite Hp; split; [lia|discriminate]|].
    split; [intros j t Hj Hp; destruct (Hnth j t Hj) as [Hp' _]; congruence|intros j t Hj; now destruct (Hnth j t Hj)]. }
  destruct (crun_CI _ _ _ _ _ _ H0 Hr) as (applied & HA & HB & _).
  exists applied. split; [|exact HA]. unfold finished in Hf. rewrite (pend_finished _ Hf), app_nil_r in HB. exact HB.
Qed.

(* with every digest touched by at most one update, the outcome does not depend on the serial order *)
Definition touched (u : upd) : nat := match u with UAdd d | UDel d => d end.
Lemma apply_upd_In l u d : In d (apply_upd l u) <-> match u with UAdd a => In d l \/ d = a | UDel a => In d l /\ d <> a end.
Proof.
  destruct u as [a|a]; cbn [apply_upd]; [apply rl_add_In|].
  destruct (rl_del l a) as [l'|] eqn:E.
  - destruct (rl_del_some _ _ _ E) as [H _]. apply H.
  - apply rl_del_none in E. split; [intro H; split; [exact H|intros ->; contradiction]|tauto].
Qed.
Lemma fold_updates_spec : forall order v, NoDup (map touched order) ->
  forall d, In d (fold_left apply_upd order v) <-> (In d v /\ ~ In (UDel d) order) \/ In (UAdd d) order.
Proof.
  induction order as [|u order IH]; intros v Hn d; cbn [fold_left]; [cbn; tauto|].
  inversion Hn as [|? ? Hu Hn']; subst. rewrite (IH _ Hn'), apply_upd_In.
  assert (Hnot : forall w, In w order -> touched w <> touched u) by (intros w Hw E; apply Hu; rewrite <- E; now apply in_map).
  destruct u as [a|a]; cbn [In touched] in *.
  - split.
    + intros [[[H| ->] H2]|H]; [left; split; [exact H|intros [E|E]; [discriminate|contradiction]]|right; now left|right; now right].
    + intros [[H H2]|[E|H]]; [left; split; [now left|intro; apply H2; now right]|inversion E; subst; left; split; [now right|intro Hd; apply (Hnot _ Hd); reflexivity]|right; exact H].
  - split.
    + intros [[[H H1] H2]|H]; [left; split; [exact H|intros [E|E]; [inversion E; congruence|contradiction]]|right; now right].
    + intros [[H H2]|[E|H]]; [left; split; [split; [exact H|intros ->; apply H2; now left]|intro; apply H2; now right]|discriminate|right; exact H].
Qed.
