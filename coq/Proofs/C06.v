(* Proofs/C06.v — the layout index implements a tag->digest map *)
From Coq Require Import List String Ascii Arith Bool Lia.
From Verif Require Import Base.StrX Model.C06_Tags.
Import ListNotations.
Open Scope string_scope.
Open Scope list_scope.

(* exact-name resolution *)
Definition named (t : string) (e : entry) : bool := e_name e =? t.
Definition resolve (idx : list entry) (t : string) : option dig :=
  match find (named t) idx with Some e => Some (e_dig e) | None => None end.
Definition names (idx : list entry) : list string := filter (fun n => negb (n =? "")) (map e_name idx).
Arguments names : simpl never.

(* a plain tag: not empty, never the ":x" suffix host of another tag, unchanged by the TagList strip *)
Definition plain (t : string) : Prop := t <> "" /\ (forall x, sfx t x = false) /\ after_last_colon t = t.
Definition wf (idx : list entry) : Prop :=
  (forall e, In e idx -> e_name e = "" \/ plain (e_name e)) /\ NoDup (names idx).

Lemma eqb_neq' a b : a <> b -> (a =? b) = false. Proof. apply String.eqb_neq. Qed.

Lemma get_tag_resolve idx t : wf idx -> t <> "" -> index_get_tag idx t = resolve idx t.
Proof.
  intros [Hp _] Ht. unfold index_get_tag, resolve.
  assert (E1 : forall l, find (fun e => negb (e_name e =? "") && (e_name e =? t)) l = find (named t) l).
  { induction l as [|e l IH]; cbn; [reflexivity|]. unfold named at 1.
    destruct (String.eqb_spec (e_name e) t) as [->|Hn]; [rewrite (eqb_neq' _ _ Ht); reflexivity|].
    rewrite andb_false_r. exact IH. }
  rewrite E1. destruct (find (named t) idx); [reflexivity|].
  assert (E2 : find (fun e => negb (e_name e =? "") && sfx (e_name e) t) idx = None).
  { clear E1. induction idx as [|e l IH]; cbn; [reflexivity|].
    destruct (Hp e (or_introl eq_refl)) as [->|(_ & Hs & _)]; cbn; [|rewrite Hs, andb_false_r]; apply IH; intros; apply Hp; now right. }
  now rewrite E2.
Qed.

(* ---------- index_set ---------- *)
Lemma names_cons e l : names (e :: l) = if e_name e =? "" then names l else e_name e :: names l.
Proof. unfold names. cbn [map filter]. destruct (e_name e =? ""); reflexivity. Qed.

Lemma names_filter_in p l n : In n (names (filter p l)) -> In n (names l).
Proof.
  induction l as [|e l IH]; cbn [filter]; [auto|]. rewrite (names_cons e l).
  destruct (p e); [rewrite names_cons|]; destruct (e_name e =? ""); cbn [In]; auto. intros [H|H]; auto.
Qed.
Lemma names_filter_nodup p l : NoDup (names l) -> NoDup (names (filter p l)).
Proof.
  induction l as [|e l IH]; cbn [filter]; [auto|]. rewrite (names_cons e l). intro H.
  destruct (p e); [rewrite names_cons|]; destruct (e_name e =? ""); auto; inversion H; subst; auto.
  constructor; auto. intro Hc. now apply names_filter_in in Hc.
Qed.
Lemma resolve_filter p l t : (forall e, In e l -> named t e = true -> p e = true) -> resolve (filter p l) t = resolve l t.
Proof.
  unfold resolve. induction l as [|e l IH]; cbn; intro H; [reflexivity|].
  destruct (named t e) eqn:En.
  - rewrite (H e (or_introl eq_refl) En). cbn. now rewrite En.
  - destruct (p e); cbn; rewrite ?En; apply IH; intros; apply H; auto.
Qed.
Lemma resolve_none_filter p l t : (forall e, In e l -> named t e = true -> p e = false) -> resolve (filter p l) t = None.
Proof.
  unfold resolve. induction l as [|e l IH]; cbn; intro H; [reflexivity|].
  destruct (p e) eqn:Ep; cbn.
  - destruct (named t e) eqn:En; [rewrite (H e (or_introl eq_refl) En) in Ep; discriminate|]. apply IH; intros; apply H; auto.
  - apply IH; intros; apply H; auto.
Qed.
Lemma resolve_not_in l t : ~ In t (names l) -> t <> "" -> resolve l t = None.
Proof.
  unfold resolve. induction l as [|e l IH]; cbn; intros Hn Ht; [reflexivity|]. rewrite names_cons in Hn. unfold named at 1.
  destruct (String.eqb_spec (e_name e) t) as [E|E].
  - exfalso. rewrite E, (eqb_neq' _ _ Ht) in Hn. apply Hn. now left.
  - apply IH; [|exact Ht]. destruct (e_name e =? ""); cbn in Hn; tauto.
Qed.
Lemma resolve_in l t : resolve l t <> None -> t <> "" -> In t (names l).
Proof.
  intros H Ht. destruct (in_dec string_dec t (names l)) as [Hi|Hi]; [exact Hi|]. now rewrite resolve_not_in in H.
Qed.

Lemma set_go_spec t d : forall idx r, t <> "" -> index_set_go t d idx = Some r ->
  resolve r t = Some d /\
  (forall t', t' <> "" -> t' <> t -> resolve r t' = resolve idx t') /\
  (forall n, In n (names r) <-> n = t \/ In n (names idx)) /\
  (NoDup (names idx) -> NoDup (names r)) /\
  (forall e, In e r -> e = mkE d t \/ In e idx).
Proof.
  induction idx as [|e idx IH]; intros r Ht Hs; cbn in Hs; [discriminate|].
  destruct (set_match t d e) eqn:Em.
  - injection Hs as <-. set (p := fun x => negb (set_match t d x)).
    assert (Hpt : forall x, In x idx -> named t x = true -> p x = false).
    { intros x _ Hx. unfold p, set_match, named in *. rewrite Hx, (eqb_neq' _ _ Ht). cbn. now rewrite orb_true_r. }
    assert (Hpo : forall t' x, t' <> "" -> t' <> t -> In x idx -> named t' x = true -> p x = true).
    { intros t' x Ht' Hne _ Hx. unfold p, set_match, named in *. apply String.eqb_eq in Hx. rewrite Hx.
      rewrite (eqb_neq' _ _ Ht'), (eqb_neq' _ _ Hne). cbn. now rewrite andb_false_r. }
    repeat split.
    + unfold resolve. cbn. unfold named. cbn. now rewrite String.eqb_refl.
    + intros t' Ht' Hne. unfold resolve at 1. cbn. unfold named at 1. cbn. rewrite (eqb_neq' t t') by congruence.
      change (resolve (filter p idx) t' = resolve (e :: idx) t'). rewrite resolve_filter by (intros; eapply Hpo; eauto).
      unfold resolve. cbn [find]. destruct (named t' e) eqn:En; [|reflexivity].
      exfalso. unfold named in En. apply String.eqb_eq in En. unfold set_match in Em.
      rewrite En, (eqb_neq' _ _ Ht'), (eqb_neq' _ _ Hne) in Em. cbn in Em. now rewrite andb_false_r in Em.
    + rewrite names_cons. cbn [e_name]. rewrite (eqb_neq' _ _ Ht). intros [H|H]; [now left|].
      right. apply names_filter_in in H. rewrite names_cons. destruct (e_name e =? ""); [exact H|now right].
    + rewrite !names_cons. cbn [e_name]. rewrite (eqb_neq' _ _ Ht). intros [->|H]; [now left|].
      destruct (string_dec n t) as [->|Hn]; [now left|]. right.
      assert (Hn0 : In n (names idx)).
      { destruct (e_name e =? "") eqn:E0; [exact H|]. destruct H as [H|H]; [|exact H].
        exfalso. unfold set_match in Em. rewrite E0 in Em. cbn in Em. rewrite (eqb_neq' _ _ Ht) in Em. cbn in Em.
        apply String.eqb_eq in Em. congruence. }
      clear -Hn0 Hn Ht. unfold p. induction idx as [|x idx IH]; [exact Hn0|]. rewrite names_cons in Hn0. cbn.
      destruct (e_name x =? "") eqn:E0.
      * destruct (negb (set_match t d x)); rewrite ?names_cons, ?E0; auto.
      * destruct Hn0 as [E|Hi].
        -- unfold set_match. rewrite E0, E, (eqb_neq' _ _ Ht), (eqb_neq' n t Hn). cbn. rewrite names_cons, E0, E. now left.
        -- destruct (negb (set_match t d x)); rewrite ?names_cons, ?E0; [right|]; auto.
    + intro Hnd. rewrite names_cons. cbn [e_name]. rewrite (eqb_neq' _ _ Ht). constructor.
      * intro Hc.
        revert Hc. clear -Ht Hpt. unfold p. induction idx as [|x idx IH]; cbn [filter]; [unfold names; cbn; tauto|].
        assert (Hpt' : forall x0, In x0 idx -> named t x0 = true -> p x0 = false) by (intros x0 Hx0; apply Hpt; now right).
        destruct (negb (set_match t d x)) eqn:Ex; [|now apply IH].
        rewrite names_cons. destruct (e_name x =? "") eqn:E0; [now apply IH|].
        intros [E|Hin]; [|revert Hin; now apply IH].
        assert (Hnm : named t x = true) by (unfold named; rewrite E; apply String.eqb_refl).
        specialize (Hpt x (or_introl eq_refl) Hnm). unfold p in Hpt. now rewrite Ex in Hpt.
      * apply names_filter_nodup. rewrite names_cons in Hnd. destruct (e_name e =? ""); [exact Hnd|now inversion Hnd].
    + intros x [<-|Hx]; [now left|]. right. right. apply filter_In in Hx. tauto.
  - destruct (index_set_go t d idx) as [r0|] eqn:E0; [|discriminate]. injection Hs as <-.
    destruct (IH r0 Ht eq_refl) as (H1 & H2 & H3 & H4 & H5).
    assert (Hne : named t e = false).
    { unfold named. unfold set_match in Em. rewrite (eqb_neq' _ _ Ht) in Em. cbn in Em. apply orb_false_iff in Em. tauto. }
    repeat split.
    + unfold resolve. cbn. rewrite Hne. exact H1.
    + intros t' Ht' Hn. unfold resolve. cbn. destruct (named t' e); [reflexivity|]. apply H2; auto.
    + rewrite !names_cons. destruct (e_name e =? ""); [apply H3|]. intros [H|H]; [right; now left|]. apply H3 in H. destruct H; [now left|right; now right].
    + rewrite !names_cons. destruct (e_name e =? ""); [apply H3|]. intros [H|[H|H]]; [right; apply H3; now left|now left|right; apply H3; now right].
    + rewrite !names_cons. destruct (e_name e =? "") eqn:Ee; [exact H4|]. intro Hnd. inversion Hnd; subst. constructor; [|auto].
      intro Hc. apply H3 in Hc as [Hc|Hc]; [|tauto]. unfold named in Hne. rewrite Hc, String.eqb_refl in Hne. discriminate.
    + intros x [<-|Hx]; [right; now left|]. apply H5 in Hx. destruct Hx; [now left|right; now right].
Qed.

Lemma set_go_none t d : forall idx, index_set_go t d idx = None -> forall e, In e idx -> set_match t d e = false.
Proof.
  induction idx as [|x idx IH]; cbn; intros H e He; [destruct He|].
  destruct (set_match t d x) eqn:Em; [discriminate|]. destruct (index_set_go t d idx); [discriminate|].
  destruct He as [<-|He]; [exact Em|now apply IH].
Qed.

Lemma resolve_app l1 l2 t : resolve (l1 ++ l2) t = match resolve l1 t with Some d => Some d | None => resolve l2 t end.
Proof. unfold resolve. induction l1 as [|e l IH]; cbn; [reflexivity|]. destruct (named t e); [reflexivity|exact IH]. Qed.
Lemma names_app l1 l2 : names (l1 ++ l2) = names l1 ++ names l2.
Proof. unfold names. now rewrite map_app, filter_app. Qed.

Lemma index_set_spec idx t d : t <> "" ->
  resolve (index_set idx t d) t = Some d /\
  (forall t', t' <> "" -> t' <> t -> resolve (index_set idx t d) t' = resolve idx t') /\
  (forall n, In n (names (index_set idx t d)) <-> n = t \/ In n (names idx)) /\
  (NoDup (names idx) -> NoDup (names (index_set idx t d))) /\
  (forall e, In e (index_set idx t d) -> e = mkE d t \/ In e idx).
Proof.
  intro Ht. unfold index_set. destruct (index_set_go t d idx) as [r|] eqn:E; [now apply set_go_spec|].
  pose proof (set_go_none _ _ _ E) as Hn.
  assert (Hnt : ~ In t (names idx)).
  { intro Hc. unfold names in Hc. apply filter_In in Hc as [Hc _]. apply in_map_iff in Hc as (e & He & Hi).
    specialize (Hn e Hi). unfold set_match in Hn. rewrite He, String.eqb_refl, (eqb_neq' _ _ Ht) in Hn. cbn in Hn. destruct (Nat.eqb (e_dig e) d); cbn in Hn; discriminate. }
  repeat split.
  - rewrite resolve_app, (resolve_not_in _ _ Hnt Ht). unfold resolve, named. cbn. now rewrite String.eqb_refl.
  - intros t' Ht' Hne. rewrite resolve_app. destruct (resolve idx t'); [reflexivity|].
    unfold resolve, named. cbn. now rewrite (eqb_neq' t t') by congruence.
  - rewrite names_app. intro H. apply in_app_or in H as [H|H]; [now right|]. unfold names in H. cbn in H.
    rewrite (eqb_neq' _ _ Ht) in H. cbn in H. destruct H as [H|[]]. now left.
  - rewrite names_app. intros [->|H]; apply in_or_app; [right|now left]. unfold names. cbn. rewrite (eqb_neq' _ _ Ht). now left.
  - intro Hnd. rewrite names_app. unfold names at 2. cbn. rewrite (eqb_neq' _ _ Ht). cbn.
    apply (NoDup_Add (a:=t) (l:=names idx)); [rewrite <- (app_nil_r (names idx)) at 1; apply Add_app|split; assumption].
  - intros e He. apply in_app_or in He as [He|[<-|[]]]; auto.
Qed.

(* ---------- untagged push ---------- *)
Lemma set_untagged idx d :
  (forall t', t' <> "" -> resolve (index_set idx "" d) t' = resolve idx t') /\
  names (index_set idx "" d) = names idx /\
  (forall e, In e (index_set idx "" d) -> e = mkE d "" \/ In e idx).
Proof.
  unfold index_set.
  assert (Hm : forall e, set_match "" d e = true -> e_name e = "").
  { intros e H. unfold set_match in H. cbn in H. rewrite orb_false_r in H. apply andb_prop in H as [H _]. now apply String.eqb_eq in H. }
  assert (G : forall idx r, index_set_go "" d idx = Some r ->
     (forall t', t' <> "" -> resolve r t' = resolve idx t') /\ names r = names idx /\ (forall e, In e r -> e = mkE d "" \/ In e idx)).
  { clear idx. induction idx as [|e idx IH]; intros r Hs; cbn in Hs; [discriminate|].
    destruct (set_match "" d e) eqn:Em.
    - injection Hs as <-. pose proof (Hm _ Em) as He.
      assert (Hf : forall x, In x idx -> e_name x <> "" -> negb (set_match "" d x) = true).
      { intros x _ Hx. destruct (set_match "" d x) eqn:E; [now apply Hm in E|reflexivity]. }
      repeat split.
      + intros t' Ht'. unfold resolve. cbn [find].
        assert (N1 : named t' (mkE d "") = false) by (unfold named; cbn [e_name]; apply eqb_neq'; congruence).
        assert (N2 : named t' e = false) by (unfold named; rewrite He; apply eqb_neq'; congruence).
        rewrite N1, N2.
        change (resolve (filter (fun x => negb (set_match "" d x)) idx) t' = resolve idx t').
        apply resolve_filter. intros x Hx Hn. apply Hf; [exact Hx|]. unfold named in Hn. apply String.eqb_eq in Hn. congruence.
      + rewrite !names_cons. cbn [e_name]. rewrite He. cbn.
        clear -Hm. induction idx as [|x idx IH]; [reflexivity|]. cbn [filter]. rewrite names_cons.
        destruct (set_match "" d x) eqn:E; cbn [negb].
        * rewrite (Hm _ E). cbn. exact IH.
        * rewrite names_cons. now rewrite IH.
      + intros x [<-|Hx]; [now left|]. apply filter_In in Hx. right. right. tauto.
    - destruct (index_set_go "" d idx) as [r0|]; [|discriminate]. injection Hs as <-.
      destruct (IH r0 eq_refl) as (H1 & H2 & H3). repeat split.
      + intros t' Ht'. unfold resolve. cbn [find]. destruct (named t' e); [reflexivity|]. now apply H1.
      + now rewrite !names_cons, H2.
      + intros x [<-|Hx]; [right; now left|]. apply H3 in Hx. destruct Hx; [now left|right; now right]. }
  destruct (index_set_go "" d idx) as [r|] eqn:E; [now apply G|].
  repeat split.
  - intros t' Ht'. rewrite resolve_app. destruct (resolve idx t'); [reflexivity|]. unfold resolve. cbn [find].
    assert (N1 : named t' (mkE d "") = false) by (unfold named; cbn [e_name]; apply eqb_neq'; congruence). now rewrite N1.
  - rewrite names_app. unfold names at 2. cbn. apply app_nil_r.
  - intros e He. apply in_app_or in He as [He|[<-|[]]]; auto.
Qed.

(* ---------- tag delete ---------- *)
Lemma is_tag_named t e : t <> "" -> is_tag t e = named t e.
Proof. intro Ht. unfold is_tag, named. destruct (String.eqb_spec (e_name e) t) as [->|]; [now rewrite (eqb_neq' _ _ Ht)|apply andb_false_r]. Qed.

Lemma tag_delete_spec idx t : t <> "" ->
  match tag_delete idx t with
  | None => resolve idx t = None
  | Some r => resolve idx t <> None /\ resolve r t = None /\
              (forall t', t' <> "" -> t' <> t -> resolve r t' = resolve idx t') /\
              (forall n, In n (names r) <-> In n (names idx) /\ n <> t) /\
              (NoDup (names idx) -> NoDup (names r)) /\ (forall e, In e r -> In e idx)
  end.
Proof.
  intro Ht. unfold tag_delete.
  assert (Hex : existsb (is_tag t) idx = true <-> resolve idx t <> None).
  { unfold resolve. induction idx as [|e idx IH]; cbn [existsb find]; [split; [discriminate|congruence]|].
    rewrite (is_tag_named _ _ Ht). destruct (named t e); cbn [orb]; [split; [discriminate|reflexivity]|exact IH]. }
  destruct (existsb (is_tag t) idx) eqn:E.
  - split; [now apply Hex|]. set (p := fun e => negb (is_tag t e)).
    change (filter (fun e => negb (is_tag t e)) idx) with (filter p idx).
    split; [|split; [|split; [|split]]].
    + apply resolve_none_filter. intros e _ Hn. unfold p. now rewrite (is_tag_named _ _ Ht), Hn.
    + intros t' Ht' Hne. apply resolve_filter. intros e _ Hn. unfold p, is_tag. unfold named in Hn. apply String.eqb_eq in Hn.
      rewrite Hn, (eqb_neq' t' t Hne). now rewrite andb_false_r.
    + intro n. split.
      * intro H. split; [eapply names_filter_in; exact H|]. intros ->.
        assert (Hr : resolve (filter p idx) t = None) by (apply resolve_none_filter; intros e _ Hn; unfold p; now rewrite (is_tag_named _ _ Ht), Hn).
        destruct (in_dec string_dec t (names (filter p idx))) as [Hi|Hi]; [|tauto].
        clear -Hi Hr Ht. unfold resolve in Hr. induction (filter p idx) as [|x l IH]; [destruct Hi|].
        rewrite names_cons in Hi. cbn in Hr. unfold named at 1 in Hr.
        destruct (String.eqb_spec (e_name x) t) as [Ex|Ex]; [discriminate|].
        destruct (e_name x =? ""); [now apply IH|]. destruct Hi as [Hi|Hi]; [congruence|now apply IH].
      * intros [Hi Hn]. clear -Hi Hn. unfold p. induction idx as [|x idx IH]; [exact Hi|]. rewrite names_cons in Hi. cbn [filter].
        destruct (e_name x =? "") eqn:E0.
        -- destruct (negb (is_tag t x)); rewrite ?names_cons, ?E0; auto.
        -- destruct Hi as [E|Hi].
           ++ unfold is_tag. rewrite E0, E, (eqb_neq' n t Hn). cbn. rewrite names_cons, E0, E. now left.
           ++ destruct (negb (is_tag t x)); rewrite ?names_cons, ?E0; [right|]; auto.
    + apply names_filter_nodup.
    + intros e He. apply filter_In in He. tauto.
  - destruct (resolve idx t) eqn:Er; [|reflexivity]. exfalso. assert (H : Some d <> None) by discriminate. apply Hex in H. discriminate.
Qed.

(* ---------- manifest delete ---------- *)
Lemma find_unique t : forall idx e, NoDup (names idx) -> t <> "" -> In e idx -> named t e = true -> find (named t) idx = Some e.
Proof.
  induction idx as [|x idx IH]; intros e Hnd Ht He Hn; [destruct He|]. cbn.
  destruct (named t x) eqn:Ex.
  - destruct He as [->|He]; [reflexivity|]. exfalso. rewrite names_cons in Hnd. unfold named in *. apply String.eqb_eq in Ex, Hn.
    rewrite Ex, (eqb_neq' _ _ Ht) in Hnd. inversion Hnd; subst. apply H1. unfold names. apply filter_In. split.
    + apply in_map_iff. exists e. auto.
    + now rewrite (eqb_neq' _ _ Ht).
  - destruct He as [->|He]; [congruence|]. apply IH; auto. rewrite names_cons in Hnd. destruct (e_name x =? ""); [exact Hnd|now inversion Hnd].
Qed.

Lemma manifest_delete_spec idx d t : NoDup (names idx) -> t <> "" ->
  resolve (manifest_delete idx d) t =
    match resolve idx t with Some d' => if Nat.eqb d' d then None else Some d' | None => None end.
Proof.
  intros Hnd Ht. unfold manifest_delete. set (p := fun e => negb (Nat.eqb (e_dig e) d)).
  unfold resolve at 2. destruct (find (named t) idx) as [e|] eqn:Ef.
  - apply find_some in Ef as Hf. destruct Hf as [Hi Hn].
    destruct (Nat.eqb (e_dig e) d) eqn:Ed.
    + apply resolve_none_filter. intros x Hx Hxn. rewrite (find_unique t idx x Hnd Ht Hx Hxn) in Ef. injection Ef as ->. unfold p. now rewrite Ed.
    + rewrite resolve_filter; [unfold resolve; now rewrite Ef|].
      intros x Hx Hxn. rewrite (find_unique t idx x Hnd Ht Hx Hxn) in Ef. injection Ef as ->. unfold p. now rewrite Ed.
  - apply resolve_none_filter. intros x Hx Hxn. exfalso. eapply find_none in Ef; [|exact Hx]. congruence.
Qed.

(* ---------- the specification side ---------- *)
Lemma lookup_put m t d t' : lookup ((t, d) :: filter (fun p => negb (fst p =? t)) m) t' =
  if t =? t' then Some d else lookup m t'.
Proof.
  unfold lookup. cbn [find fst snd]. destruct (String.eqb_spec t t') as [->|Hn]; [reflexivity|].
  induction m as [|[k v] m IH]; cbn; [reflexivity|]. destruct (String.eqb_spec k t) as [->|Hk]; cbn.
  - rewrite (eqb_neq' _ _ Hn). exact IH.
  - destruct (k =? t'); [reflexivity|exact IH].
Qed.
Lemma lookup_del m t t' : lookup (filter (fun p => negb (fst p =? t)) m) t' = if t =? t' then None else lookup m t'.
Proof.
  unfold lookup. induction m as [|[k v] m IH]; cbn; [now destruct (t =? t')|].
  destruct (String.eqb_spec k t) as [->|Hk]; cbn.
  - destruct (String.eqb_spec t t'); [exact IH|exact IH].
  - destruct (String.eqb_spec k t') as [->|]; [now rewrite (eqb_neq' t t') by congruence|exact IH].
Qed.
Lemma lookup_in m t : lookup m t <> None <-> In t (map fst m).
Proof.
  unfold lookup. induction m as [|[k v] m IH]; cbn; [split; [congruence|tauto]|].
  destruct (String.eqb_spec k t) as [->|Hk]; [split; [now left|discriminate]|]. rewrite IH. split; [now right|]. intros [H|H]; [congruence|exact H].
Qed.
Lemma lookup_mdel m d t : NoDup (map fst m) ->
  lookup (filter (fun p => negb (Nat.eqb (snd p) d)) m) t =
  match lookup m t with Some d' => if Nat.eqb d' d then None else Some d' | None => None end.
Proof.
  unfold lookup. induction m as [|[k v] m IH]; cbn; intro Hnd; [reflexivity|]. inversion Hnd as [|? ? Hk Hm]; subst.
  destruct (String.eqb_spec k t) as [->|Hkt].
  - destruct (Nat.eqb v d) eqn:Ev; cbn; [|rewrite String.eqb_refl; cbn; now rewrite ?Ev].
    assert (Hn : find (fun p => fst p =? t) (filter (fun p => negb (Nat.eqb (snd p) d)) m) = None).
    { clear -Hk. induction m as [|[k' v'] m IH]; cbn; [reflexivity|]. cbn in Hk.
      destruct (negb (Nat.eqb v' d)); cbn; [destruct (String.eqb_spec k' t); [tauto|]|]; apply IH; tauto. }
    unfold dig in *. rewrite Hn. now rewrite ?Ev.
  - destruct (negb (Nat.eqb v d)); cbn; [rewrite (eqb_neq' _ _ Hkt)|]; now apply IH.
Qed.

(* membership is unaffected by dedup and sort *)
Lemma insert_sorted_in s l x : In x (insert_sorted s l) <-> x = s \/ In x l.
Proof.
  induction l as [|y l IH]; cbn; [intuition|]. destruct (String.leb s y); cbn; [intuition|]. rewrite IH. intuition.
Qed.
Lemma sort_in l x : In x (sort_strings l) <-> In x l.
Proof. unfold sort_strings. induction l as [|y l IH]; cbn; [tauto|]. rewrite insert_sorted_in, IH. intuition. Qed.
Lemma str_in_In x l : str_in x l = true <-> In x l.
Proof.
  unfold str_in. rewrite existsb_exists. split; [intros (y & Hy & E); apply String.eqb_eq in E; now subst|].
  intro H. exists x. split; [exact H|apply String.eqb_refl].
Qed.
Lemma dedup_in : forall l seen x, In x (dedup l seen) <-> In x l /\ ~ In x seen.
Proof.
  induction l as [|y l IH]; intros seen x; cbn; [tauto|].
  destruct (str_in y seen) eqn:E.
  - apply str_in_In in E. rewrite IH. split; [tauto|]. intros [[->|H] Hn]; tauto.
  - assert (Hy : ~ In y seen) by (intro Hc; apply str_in_In in Hc; congruence).
    cbn. rewrite IH. cbn. split.
    + intros [->|[H Hn]]; [tauto|tauto].
    + intros [[->|H] Hn]; [now left|]. destruct (string_dec y x) as [->|Hne]; [now left|right; tauto].
Qed.
Lemma listing_in l x : In x (sort_strings (dedup l [])) <-> In x l.
Proof. rewrite sort_in, dedup_in. cbn. tauto. Qed.

Lemma tag_list_in idx x : wf idx -> In x (tag_list idx) <-> In x (names idx).
Proof.
  intros [Hp _]. unfold tag_list. rewrite listing_in. unfold names.
  induction idx as [|e idx IH]; cbn; [tauto|].
  assert (Hp' : forall e0, In e0 idx -> e_name e0 = "" \/ plain (e_name e0)) by (intros; apply Hp; now right).
  destruct (Hp e (or_introl eq_refl)) as [E|(Hne & _ & Ha)].
  - rewrite E. cbn. now apply IH.
  - rewrite (eqb_neq' _ _ Hne). cbn. rewrite Ha, (IH Hp'). tauto.
Qed.

(* ---------- refinement ---------- *)
Lemma names_resolve idx t : In t (names idx) <-> t <> "" /\ resolve idx t <> None.
Proof.
  split.
  - intro Hi. assert (Ht : t <> "") by (unfold names in Hi; apply filter_In in Hi as [_ Hi]; intros ->; discriminate).
    split; [exact Ht|]. intro Hc. revert Hi. apply (fun H => H). intro Hi.
    unfold resolve in Hc. induction idx as [|e idx IH]; [destruct Hi|]. rewrite names_cons in Hi. cbn [find] in Hc.
    unfold named at 1 in Hc. destruct (String.eqb_spec (e_name e) t) as [E|E]; [discriminate|].
    destruct (e_name e =? ""); [now apply IH|]. destruct Hi as [Hi|Hi]; [congruence|now apply IH].
  - intros [Ht Hr]. now apply resolve_in.
Qed.

Definition R (l : layout) (s : spec) : Prop :=
  l_files l = s_mans s /\ wf (l_idx l) /\
  (forall t, t <> "" -> resolve (l_idx l) t = lookup (s_tags s) t) /\
  (forall t, In t (map fst (s_tags s)) -> t <> "") /\
  NoDup (map fst (s_tags s)).

Lemma names_iff l s t : R l s -> In t (names (l_idx l)) <-> In t (map fst (s_tags s)).
Proof.
  intros (_ & _ & Hres & Hne & _). rewrite names_resolve, <- lookup_in. split.
  - intros [Ht Hr]. now rewrite <- Hres.
  - intro Hl. assert (Ht : t <> "") by (apply Hne; now apply lookup_in). split; [exact Ht|now rewrite Hres].
Qed.

Definition op_ok (o : op) : Prop :=
  match o with PutTag t _ | TagDel t | Head t => plain t | _ => True end.

Definition res_equiv (a b : res) : Prop :=
  match a, b with
  | RList x, RList y => forall t, In t x <-> In t y
  | _, _ => a = b
  end.

Lemma map_fst_filter_nodup {B} (p : string * B -> bool) m : NoDup (map fst m) -> NoDup (map fst (filter p m)).
Proof.
  induction m as [|[k v] m IH]; cbn; intro H; [constructor|]. inversion H; subst.
  destruct (p (k, v)); cbn; [constructor|]; auto. intro Hc. apply H2. apply in_map_iff in Hc as (q & Hq & Hi). apply filter_In in Hi as [Hi _].
  apply in_map_iff. now exists q.
Qed.
Lemma map_fst_filter_in {B} (p : string * B -> bool) m t : In t (map fst (filter p m)) -> In t (map fst m).
Proof. intro Hc. apply in_map_iff in Hc as (q & Hq & Hi). apply filter_In in Hi as [Hi _]. apply in_map_iff. now exists q. Qed.

Lemma step_refines l s o : R l s -> op_ok o ->
  R (fst (step l o)) (fst (spec_step s o)) /\ res_equiv (snd (step l o)) (snd (spec_step s o)).
Proof.
  intros HR Hok. pose proof HR as (Hf & Hwf & Hres & Hne & Hnd). pose proof Hwf as [Hpl Hndn].
  destruct o as [t d|d|d|t|d|t|d|]; cbn [step spec_step].
  - (* PutTag *)
    destruct Hok as (Ht & Hsf & Hal). destruct (index_set_spec (l_idx l) t d Ht) as (H1 & H2 & H3 & H4 & H5).
    cbn [fst snd]. split; [|reflexivity]. unfold R; cbn [l_idx l_files s_tags s_mans].
    split; [now rewrite Hf|]. split; [split; [|now apply H4]|].
    { intros e He. apply H5 in He as [->|He]; [right; cbn; repeat split; auto|now apply Hpl]. }
    split; [|split].
    + intros t' Ht'. rewrite lookup_put. destruct (String.eqb_spec t t') as [<-|Hn]; [exact H1|]. rewrite H2 by congruence. now apply Hres.
    + cbn [map fst]. intros t' [<-|Hi]; [exact Ht|]. apply Hne. eapply map_fst_filter_in; exact Hi.
    + cbn [map fst]. constructor; [|now apply map_fst_filter_nodup].
      intro Hc. apply in_map_iff in Hc as (q & Hq & Hi). apply filter_In in Hi as [_ Hi]. rewrite Hq, String.eqb_refl in Hi. discriminate.
  - (* PutDigest *)
    destruct (set_untagged (l_idx l) d) as (H1 & H2 & H3). cbn [fst snd]. split; [|reflexivity].
    unfold R; cbn [l_idx l_files s_tags s_mans].
    split; [now rewrite Hf|]. split; [split; [|now rewrite H2]|].
    { intros e He. apply H3 in He as [->|He]; [now left|now apply Hpl]. }
    split; [|split; [exact Hne|exact Hnd]].
    intros t Ht. rewrite H1 by exact Ht. now apply Hres.
  - (* PutChild *)
    cbn [fst snd]. split; [|reflexivity]. unfold R; cbn [l_idx l_files s_tags s_mans].
    split; [now rewrite Hf|]. split; [exact Hwf|]. split; [exact Hres|split; [exact Hne|exact Hnd]].
  - (* TagDel *)
    destruct Hok as (Ht & _). pose proof (tag_delete_spec (l_idx l) t Ht) as Hd. rewrite <- (Hres t Ht).
    destruct (tag_delete (l_idx l) t) as [r|].
    + destruct Hd as (Hsome & Hnone & Hfr & Hn & Hndp & Hsub).
      destruct (resolve (l_idx l) t) as [dd|] eqn:Er; [|congruence]. cbn [fst snd]. split; [|reflexivity].
      unfold R; cbn [l_idx l_files s_tags s_mans].
      split; [exact Hf|]. split; [split; [intros e He; apply Hpl; now apply Hsub|now apply Hndp]|].
      split; [|split].
      * intros t' Ht'. rewrite lookup_del. destruct (String.eqb_spec t t') as [<-|Hn']; [exact Hnone|]. rewrite Hfr by congruence. now apply Hres.
      * intros t' Hi. apply Hne. eapply map_fst_filter_in; exact Hi.
      * now apply map_fst_filter_nodup.
    + rewrite Hd. cbn [fst snd]. split; [exact HR|reflexivity].
  - (* ManDel *)
    rewrite <- Hf. destruct (memd d (l_files l)); cbn [fst snd]; [|split; [exact HR|reflexivity]].
    split; [|reflexivity]. unfold R; cbn [l_idx l_files s_tags s_mans].
    split; [now rewrite Hf|]. split; [split|].
    { intros e He. apply Hpl. unfold manifest_delete in He. apply filter_In in He. tauto. }
    { now apply names_filter_nodup. }
    split; [|split].
    + intros t Ht. rewrite manifest_delete_spec by assumption. rewrite lookup_mdel by assumption. now rewrite Hres.
    + intros t' Hi. apply Hne. eapply map_fst_filter_in; exact Hi.
    + now apply map_fst_filter_nodup.
  - (* Head *)
    destruct Hok as (Ht & _). cbn [fst snd]. split; [exact HR|]. cbn. rewrite (get_tag_resolve _ _ Hwf Ht), (Hres t Ht), Hf. reflexivity.
  - (* GetDig *)
    cbn [fst snd]. split; [exact HR|]. cbn. now rewrite Hf.
  - (* List *)
    cbn [fst snd]. split; [exact HR|]. cbn. intro t. rewrite (tag_list_in _ _ Hwf), listing_in. now apply names_iff.
Qed.

Lemma run_refines : forall ops l s, R l s -> Forall op_ok ops -> Forall2 res_equiv (run l ops) (spec_run s ops).
Proof.
  induction ops as [|o ops IH]; intros l s HR Hok; cbn; [constructor|]. inversion Hok; subst.
  destruct (step_refines l s o HR H1) as [HR' He].
  destruct (step l o) as [l' x]. destruct (spec_step s o) as [s' y]. cbn in *. constructor; [exact He|now apply IH].
Qed.

Lemma R_empty : R (mkL [] []) (mkS [] []).
Proof. unfold R, wf; cbn. repeat split; auto; try constructor; try tauto. Qed.

(* ---------- plain tags: non-empty strings without ':' ---------- *)
Definition no_colon (s : string) : bool := negb (existsb (fun x => Ascii.eqb x ":") (list_ascii_of_string s)).

Lemma has_suffix_colon : forall s suf, has_suffix s (String ":" suf) = true -> no_colon s = false.
Proof.
  induction s as [|c s IH]; intros suf H; cbn in H; [discriminate|].
  unfold no_colon. cbn. apply orb_prop in H as [H|H].
  - destruct (Ascii.eqb c ":") eqn:Ec; [reflexivity|discriminate].
  - apply IH in H. unfold no_colon in H. apply negb_false_iff in H. rewrite H. now rewrite orb_true_r.
Qed.
Lemma after_last_colon_id s : no_colon s = true -> after_last_colon s = s.
Proof.
  unfold no_colon. induction s as [|c s IH]; cbn; [reflexivity|]. intro H. apply negb_true_iff in H. apply orb_false_iff in H as [Hc Hs].
  rewrite Hs, Hc. reflexivity.
Qed.
Lemma plain_no_colon t : t <> "" -> no_colon t = true -> plain t.
Proof.
  intros Ht Hn. repeat split; [exact Ht| |now apply after_last_colon_id].
  intro x. unfold sfx. destruct (has_suffix t (":" ++ x)) eqn:E; [|reflexivity]. apply has_suffix_colon in E. congruence.
Qed.

(* ---------- the loop as written before the repair loses an adjacent duplicate ---------- *)
Lemma old_loop_refuted : exists idx t, In (mkE 2 t) (tag_delete_skip t idx false).
Proof. exists [mkE 1 "t"; mkE 2 "t"], "t". cbn. now left. Qed.
(* the repaired loop removes every entry of that name, whatever the layout *)
Lemma tag_delete_all idx t r e : tag_delete idx t = Some r -> In e r -> is_tag t e = false.
Proof. unfold tag_delete. destruct (existsb (is_tag t) idx); [|discriminate]. intro H; injection H as <-. intro He. apply filter_In in He as [_ He]. now apply negb_true_iff in He. Qed.

(* ---------- paging: Link rel=next is followed until a page without it ---------- *)
Fixpoint follow (pages : list (list string * bool)) : list string :=
  match pages with
  | [] => []
  | (ts, next) :: rest => ts ++ (if next then follow rest else [])
  end.
Lemma follow_complete : forall pages last, Forall (fun p => snd p = true) pages ->
  follow (pages ++ [(last, false)]) = List.concat (map fst pages) ++ last.
Proof.
  induction pages as [|[ts nx] pages IH]; intros last H; cbn; [now rewrite app_nil_r|].
  inversion H; subst. cbn in H2. subst nx. rewrite IH by assumption. now rewrite app_assoc.
Qed.

(* the lookup the client does (exact ref.name first, then the "<anything>:tag" fallback) answers with the exact
   entry whenever there is one - in ANY index, also a foreign one that holds full image names *)
Lemma get_tag_exact_first idx t d : t <> "" -> resolve idx t = Some d -> index_get_tag idx t = Some d.
Proof.
  intros Ht. unfold resolve, index_get_tag.
  assert (E : find (fun e => negb (e_name e =? "") && (e_name e =? t)) idx = find (named t) idx).
  { induction idx as [|e l IH]; [reflexivity|]. cbn [find]. unfold named at 1.
    destruct (e_name e =? t) eqn:Et.
    - apply String.eqb_eq in Et. rewrite Et. rewrite (eqb_neq' _ _ Ht). reflexivity.
    - rewrite andb_false_r. exact IH. }
  rewrite E. destruct (find (named t) idx); [tauto|discriminate].
Qed.
Lemma push_then_get idx t d : t <> "" -> index_get_tag (index_set idx t d) t = Some d.
Proof. intros Ht. apply get_tag_exact_first; [exact Ht|]. now destruct (index_set_spec idx t d Ht) as (H1 & _). Qed.
