From Coq Require Import List Arith Bool.
From Verif Require Import Model.C10_Window.
Import ListNotations.

Lemma reg_list_op {A} (s : st A) : reg (fst (list_op s)) = reg s.
Proof. unfold list_op. destruct (cache s); reflexivity. Qed.
Lemma reg_lists {A} n : forall s : st A, reg (lists n s) = reg s.
Proof. induction n as [|n IH]; intros s; cbn [lists]; [reflexivity|]. rewrite IH. apply reg_list_op. Qed.

(* the slot dropped once the request is done: whatever was listed meanwhile, the next listing is the registry's list *)
Theorem drop_after_fresh {A} (b : bool) (u : list A -> list A) (i j : nat) (s : st A) :
  snd (list_op (update b true u i j s)) = u (reg s) /\ reg (update b true u i j s) = u (reg s).
Proof.
  unfold update. cbn [drop list_op cache reg snd].
  rewrite reg_lists. cbn [reg]. rewrite reg_lists.
  destruct b; cbn [drop reg]; split; reflexivity.
Qed.

(* dropped only before the request is sent: one listing in flight caches the old list and it is what the next listing answers *)
Theorem drop_before_only_refuted :
  exists (u : list nat -> list nat) (s : st nat), snd (list_op (update true false u 1 0 s)) <> u (reg s).
Proof. exists (fun l => 7 :: l), (mkSt [1] (Some [1])). vm_compute. discriminate. Qed.

(* later listings keep answering the stale list *)
Theorem drop_before_only_stays_stale :
  forall n, snd (list_op (lists n (update true false (fun l => 7 :: l) 1 0 (mkSt [1] None)))) = [1].
Proof.
  intros n. assert (H : update true false (fun l => 7 :: l) 1 0 (mkSt [1] None) = mkSt [7; 1] (Some [1])) by reflexivity.
  rewrite H. clear H. induction n as [|n IH]; [reflexivity|]. cbn [lists]. exact IH.
Qed.
