(* Proofs/C05.v — what a successful chunked upload has committed *)
From Coq Require Import List ZArith NArith Bool Arith Lia.
From Verif Require Import Model.C05_Upload.
Import ListNotations.
Open Scope Z_scope.

Lemma beq_eq : forall a b, beq a b = true -> a = b.
Proof.
  induction a as [|x a IH]; destruct b as [|y b]; cbn; try discriminate; [reflexivity|].
  intro H. apply andb_prop in H as [H1 H2]. apply N.eqb_eq in H1. subst. f_equal. now apply IH.
Qed.
Lemma beq_refl a : beq a a = true.
Proof. induction a as [|x a IH]; cbn; [reflexivity|]. now rewrite N.eqb_refl, IH. Qed.

Section Inv.
  Variable stream : bytes.

  (* what has been read plus what is left is the caller's stream; once the final (short) read happened
     nothing is left; the buffer always ends where reading stopped; after the first PATCH the client's idea of
     the next offset is what the registry holds *)
  Definition Inv (c : cst) : Prop :=
    digested c ++ rest c = stream /\
    (final c = true -> rest c = []) /\
    bufStart c + zlen (buf c) = zlen (digested c) /\
    (0 < bcap c)%nat /\ (length (buf c) <= bcap c)%nat /\
    chunkSize c = zlen (buf c) /\
    (log c = [] \/ chunkStart c = zlen (sdata c)) /\
    (log c = [] -> chunkStart c = 0).

  Lemma zlen_app a b : zlen (a ++ b) = zlen a + zlen b.
  Proof. unfold zlen. rewrite app_length. lia. Qed.

  Lemma read_full_inv c : Inv c -> Inv (read_full c).
  Proof.
    intros (H1 & H2 & H3 & H4 & H5 & H5b & H6 & H7). unfold read_full, Inv; cbn [digested rest final bufStart buf bcap log chunkStart chunkSize sdata].
    set (n := Nat.min (bcap c) (length (rest c))).
    assert (Hfl : length (firstn n (rest c)) = n) by (rewrite firstn_length; subst n; lia).
    split; [rewrite <- app_assoc, firstn_skipn; exact H1|].
    split.
    { destruct (Nat.ltb_spec n (bcap c)) as [Hl|Hl].
      - intros _. assert (Hn : n = length (rest c)) by (subst n; lia). rewrite Hn. apply skipn_all.
      - intro Hf. rewrite (H2 Hf). now destruct n. }
    split; [rewrite zlen_app, <- H3; reflexivity|].
    split; [exact H4|]. split; [rewrite Hfl; subst n; lia|].
    split; [unfold zlen; now rewrite Hfl|]. split; [exact H6|exact H7].
  Qed.

  Lemma read_ahead_inv : forall fuel c, Inv c -> Inv (read_ahead fuel c).
  Proof.
    induction fuel as [|f IH]; intros c H; cbn [read_ahead]; [exact H|].
    destruct ((chunkStart c >=? bufStart c + zlen (buf c)) && negb (final c)); [apply IH; now apply read_full_inv|exact H].
  Qed.

  Lemma reslice_inv c : Inv c -> Inv (reslice c).
  Proof.
    intros (H1 & H2 & H3 & H4 & H5 & H5b & H6 & H7). unfold reslice.
    destruct ((chunkStart c >? bufStart c) && (chunkStart c <? bufStart c + zlen (buf c))) eqn:E; [|repeat split; auto].
    apply andb_prop in E as [E1 E2]. apply Z.gtb_lt in E1. apply Z.ltb_lt in E2.
    unfold Inv; cbn [digested rest final bufStart buf bcap log chunkStart chunkSize sdata].
    set (k := Z.to_nat (chunkStart c - bufStart c)).
    assert (Hk : (k < length (buf c))%nat) by (unfold zlen in E2; subst k; lia).
    split; [exact H1|]. split; [exact H2|].
    split; [unfold zlen; rewrite skipn_length; unfold zlen in H3; subst k; lia|].
    split; [lia|]. split; [rewrite skipn_length; lia|]. split; [reflexivity|]. split; [exact H6|].
    intro Hl. specialize (H7 Hl). lia.
  Qed.

  Lemma patch_inv c c' o : Inv c -> patch c = (c', o) -> Inv c' /\ log c' <> [].
  Proof.
    intros (H1 & H2 & H3 & H4 & H5 & H5b & H6 & H7). unfold patch.
    destruct (negb (chunkStart c =? zlen (sdata c))) eqn:Eo.
    - intro H; injection H as <- _. split; [|discriminate]. unfold Inv; cbn. repeat split; auto. intro; discriminate.
    - apply negb_false_iff in Eo. apply Z.eqb_eq in Eo.
      destruct (script c) as [|[| |k|] s'].
      + intro H; injection H as <- _. split; [|discriminate]. unfold Inv; cbn. repeat split; auto. intro; discriminate.
      + intro H; injection H as <- _. split; [|discriminate]. unfold Inv; cbn. repeat split; auto. intro; discriminate.
      + intro H; injection H as <- _. split; [|discriminate]. unfold Inv; cbn. repeat split; auto; [|intro; discriminate].
        right. rewrite zlen_app, <- Eo, H5b. reflexivity.
      + destruct (firstn k (buf c)); intro H; injection H as <- _; (split; [|discriminate]); unfold Inv; cbn; repeat split; auto; intro; discriminate.
      + intro H; injection H as <- _. split; [|discriminate]. unfold Inv; cbn. repeat split; auto. intro; discriminate.
  Qed.

  Lemma iterate_inv c c' o : Inv c -> iterate c = (c', o) -> Inv c'.
  Proof.
    intros HI. unfold iterate.
    set (c1 := reslice (read_ahead (S (length (rest c))) c)).
    assert (H1 : Inv c1) by (apply reslice_inv, read_ahead_inv, HI).
    destruct ((chunkSize c1 >? 0) && negb (chunkStart c1 =? bufStart c1)); [intro H; now injection H as <- _|].
    destruct (chunkSize c1 >? 0); [intro H; now destruct (patch_inv _ _ _ H1 H)|intro H; now injection H as <- _].
  Qed.

  Lemma iterate_not_done c c' o : iterate c = (c', o) -> o <> Done.
  Proof.
    unfold iterate. set (c1 := reslice _).
    destruct ((chunkSize c1 >? 0) && negb (chunkStart c1 =? bufStart c1)); [intro H; injection H as _ <-; discriminate|].
    destruct (chunkSize c1 >? 0); [|intro H; injection H as _ <-; discriminate].
    unfold patch. destruct (negb (chunkStart c1 =? zlen (sdata c1))).
    - intro H; injection H as _ <-. destruct (Nat.ltb _ _); discriminate.
    - destruct (script c1) as [|[| |k|] s']; try (intro H; injection H as _ <-; discriminate).
      destruct (firstn k (buf c1)); intro H; injection H as _ <-; [discriminate|destruct (Nat.ltb _ _); discriminate].
  Qed.

  Lemma loop_inv : forall fuel c c' o, Inv c -> loop fuel c = (c', o) -> Inv c' /\ (o = Done -> continue c' = false).
  Proof.
    induction fuel as [|f IH]; intros c c' o HI; cbn [loop]; [intro H; injection H as <- <-; split; [exact HI|discriminate]|].
    destruct (continue c) eqn:Ec; [|intro H; injection H as <- <-; split; [exact HI|intros _; exact Ec]].
    destruct (iterate c) as [c1 o1] eqn:Ei. pose proof (iterate_inv _ _ _ HI Ei) as H1.
    pose proof (iterate_not_done _ _ _ Ei) as Hnd.
    destruct o1; try (intro H; injection H as <- <-; split; [exact H1|discriminate]); [|congruence].
    intro H. eapply IH; [exact H1|exact H].
  Qed.

  Lemma init_inv cap held sc : (0 < cap)%nat -> Inv (init stream cap held sc).
  Proof. intro Hc. unfold Inv, init; cbn. repeat split; auto; try lia. Qed.
End Inv.

(* success commits exactly the caller's stream; the size the client reports is its length *)
Lemma upload_commit_exact fuel stream cap held sc declared dsize b lg : (0 < cap)%nat ->
  upload fuel stream cap held sc declared dsize = (Done, Some b, lg) ->
  b = stream /\ (declared <> None -> declared = Some stream) /\ (dsize <> 0 -> dsize = zlen stream).
Proof.
  intros Hc. unfold upload. destruct (loop fuel (init stream cap held sc)) as [c o] eqn:El.
  destruct (loop_inv stream _ _ _ _ (init_inv stream cap held sc Hc) El) as [(H1 & H2 & H3 & H4 & H5 & H5b & H6 & H7) Hd].
  destruct o; try discriminate.
  specialize (Hd eq_refl). unfold continue in Hd. apply orb_false_iff in Hd as [Hf Hcs].
  apply negb_false_iff in Hf. apply Z.ltb_ge in Hcs.
  assert (Hdig : digested c = stream) by (rewrite <- H1, (H2 Hf); symmetry; apply app_nil_r).
  destruct (finish declared dsize c) eqn:Ef; try discriminate.
  destruct (beq (sdata c) (digested c)) eqn:Eb; [|discriminate].
  apply beq_eq in Eb. intro H; injection H as <- _.
  split; [congruence|].
  unfold finish in Ef.
  assert (Hsz : (negb (dsize =? 0) && negb (chunkStart c =? dsize)) = false).
  { destruct declared as [g|]; [destruct (negb (beq g (digested c))); [discriminate|]|];
    destruct (negb (dsize =? 0) && negb (chunkStart c =? dsize)); [discriminate|reflexivity|discriminate|reflexivity]. }
  split.
  - intros Hn. destruct declared as [g|]; [|congruence]. destruct (beq g (digested c)) eqn:Eg; cbn in Ef; [|discriminate].
    apply beq_eq in Eg. congruence.
  - intro Hz. apply andb_false_iff in Hsz as [Hs|Hs]; [apply negb_false_iff, Z.eqb_eq in Hs; congruence|].
    apply negb_false_iff, Z.eqb_eq in Hs. rewrite <- Hs.
    destruct H6 as [Hl|Hcs2].
    + (* no PATCH was sent: nothing was read beyond an empty stream *)
      rewrite (H7 Hl) in *. rewrite H3, Hdig in Hcs. unfold zlen in *. lia.
    + rewrite Hcs2, Eb, Hdig. reflexivity.
Qed.

(* ---------- a conforming registry: every well-formed upload succeeds ---------- *)
Definition accepting (sc : list sact) : bool := forallb (fun a => match a with SAccept | SReloc => true | _ => false end) sc.

Definition J (c : cst) : Prop :=
  accepting (script c) = true /\ chunkStart c = zlen (sdata c) /\ bufStart c + zlen (buf c) = chunkStart c /\
  sdata c = digested c /\ retry c = 0%nat /\ (0 < bcap c)%nat /\ (final c = true -> rest c = []).

Lemma zlen_app' a b : zlen (a ++ b) = zlen a + zlen b.
Proof. unfold zlen. rewrite app_length. lia. Qed.

Lemma accepting_tl sc : accepting sc = true -> accepting (tl sc) = true.
Proof. destruct sc as [|a sc]; cbn; [auto|]. intro H. apply andb_prop in H. tauto. Qed.

Lemma read_ahead_stop : forall k c, ((chunkStart c >=? bufStart c + zlen (buf c)) && negb (final c)) = false -> read_ahead k c = c.
Proof. intros [|k] c H; cbn [read_ahead]; [reflexivity|now rewrite H]. Qed.

(* one iteration from a state in which everything sent so far is stored and more may be read *)
Lemma iterate_J c : J c -> final c = false ->
  exists c', iterate c = (c', Running) /\ J c' /\ digested c' ++ rest c' = digested c ++ rest c /\
             ((rest c <> [] -> (length (rest c') < length (rest c))%nat) /\ (rest c = [] -> final c' = true /\ rest c' = [])).
Proof.
  destruct c as [rs dg bs bf cap cs csz fin rt sd sc lg]. unfold J. cbn [script chunkStart sdata bufStart buf digested retry bcap final rest].
  intros (Ha & Hcs & Hbs & Hsd & Hrt & Hcap & Hfin) Hf. subst fin rt sd.
  unfold iterate. cbn [rest].
  (* the read-ahead reads one buffer and stops *)
  set (c0 := mkC rs dg bs bf cap cs csz false 0 dg sc lg).
  assert (E0 : read_ahead (S (length rs)) c0 = read_full c0).
  { cbn [read_ahead]. unfold c0 at 1 2 3 4. cbn [chunkStart bufStart buf final].
    replace (cs >=? bs + zlen bf) with true by (symmetry; apply Z.geb_le; lia). cbn [andb negb].
    apply read_ahead_stop. unfold read_full, c0. cbn [chunkStart bufStart buf final bcap rest].
    set (n := Nat.min cap (length rs)).
    assert (Hl : zlen (firstn n rs) = Z.of_nat n) by (unfold zlen; rewrite firstn_length; subst n; f_equal; lia).
    rewrite Hl. destruct (Nat.ltb_spec n cap) as [Hlt|Hge]; cbn [negb]; [apply andb_false_r|].
    rewrite andb_true_r, Z.geb_leb. apply Z.leb_gt. assert (0 < n)%nat by (subst n; destruct rs; cbn in *; try lia; lia). lia. }
  rewrite E0. unfold read_full, c0. cbn [chunkStart bufStart buf final bcap rest digested retry sdata script log].
  set (n := Nat.min cap (length rs)). set (got := firstn n rs).
  assert (Hl : zlen got = Z.of_nat n) by (unfold zlen, got; rewrite firstn_length; subst n; f_equal; lia).
  unfold reslice. cbn [chunkStart bufStart buf]. replace (cs >? bs + zlen bf) with false by (rewrite Z.gtb_ltb; symmetry; apply Z.ltb_ge; lia). cbn [andb].
  cbn [chunkSize chunkStart bufStart].
  destruct (Nat.eq_dec n 0) as [Hn0|Hn0].
  - (* nothing left: the short read marks the end *)
    assert (Hrs : rs = []) by (subst n; destruct rs; [reflexivity|cbn in Hn0; lia]).
    rewrite Hn0. cbn [Z.of_nat Z.gtb Z.compare andb]. eexists. split; [reflexivity|]. subst rs. cbn [firstn skipn length Nat.min] in *.
    assert (Hcap' : (0 <? cap)%nat = true) by (apply Nat.ltb_lt; lia).
    unfold J. cbn [script chunkStart sdata bufStart buf digested retry bcap final rest]. subst n got. cbn [Nat.min firstn] in *.
    replace (Nat.min cap 0) with 0%nat by lia. cbn [firstn skipn]. rewrite Hcap'. rewrite !app_nil_r.
    change (zlen []) with 0. repeat split; auto; try lia; intro H; congruence.
  - assert (Hgt : Z.of_nat n >? 0 = true) by (apply Z.gtb_lt; lia). rewrite Hgt. cbn [andb].
    replace (cs =? bs + zlen bf) with true by (symmetry; apply Z.eqb_eq; lia). cbn [negb].
    unfold patch. cbn [buf chunkStart sdata log script rest digested bufStart bcap chunkSize final retry].
    replace (cs =? zlen dg) with true by (symmetry; apply Z.eqb_eq; lia). cbn [negb].
    assert (Hnle : (n <= length rs)%nat) by (subst n; lia).
    assert (Hrsne : rs <> []) by (intro E; subst rs; subst n; cbn in Hn0; rewrite Nat.min_0_r in Hn0; lia).
    assert (Hsk : (length (skipn n rs) < length rs)%nat) by (rewrite skipn_length; lia).
    assert (Hfs : got ++ skipn n rs = rs) by (unfold got; apply firstn_skipn).
    assert (Hlast : (if (n <? cap)%nat then true else false) = true -> skipn n rs = []).
    { destruct (Nat.ltb_spec n cap) as [Hlt|Hge]; [|discriminate]. intros _. assert (n = length rs) by (subst n; lia). rewrite H. apply skipn_all. }
    destruct sc as [|[| |k|] sc']; cbn in Ha; try discriminate.
    all: eexists; split; [reflexivity|]; unfold J; cbn [script chunkStart sdata bufStart buf digested retry bcap final rest tl].
    all: split; [repeat split; auto; try (rewrite zlen_app'; lia)|].
    all: split; [rewrite <- app_assoc, Hfs; reflexivity|split; [intros _; exact Hsk|intro E; contradiction]].
Qed.

Lemma continue_final c : J c -> final c = true -> continue c = false.
Proof. intros (_ & _ & Hb & _) Hf. unfold continue. rewrite Hf. cbn. apply Z.ltb_ge. lia. Qed.
Lemma continue_more c : final c = false -> continue c = true.
Proof. intro Hf. unfold continue. now rewrite Hf. Qed.

Lemma loop_J : forall n c, J c -> (length (rest c) <= n)%nat ->
  exists c', loop (n + 2) c = (c', Done) /\ J c' /\ digested c' = digested c ++ rest c /\ rest c' = [].
Proof.
  induction n as [|n IH]; intros c HJ Hn.
  - (* nothing left to read *)
    assert (Hr : rest c = []) by (destruct (rest c); [reflexivity|cbn in Hn; lia]).
    destruct (final c) eqn:Ef.
    + exists c. cbn [Nat.add loop]. rewrite (continue_final c HJ Ef). rewrite Hr, app_nil_r. auto.
    + destruct (iterate_J c HJ Ef) as (c1 & Hi & HJ1 & Hd & _ & Hlast). destruct (Hlast Hr) as [Hf1 Hr1].
      exists c1. cbn [Nat.add loop]. rewrite (continue_more c Ef), Hi. rewrite (continue_final c1 HJ1 Hf1).
      rewrite Hr1, app_nil_r in Hd. auto.
  - destruct (final c) eqn:Ef.
    + exists c. cbn [Nat.add loop]. rewrite (continue_final c HJ Ef). destruct HJ as (H1 & H2 & H3 & H4 & H5 & H6 & H7).
      rewrite (H7 Ef), app_nil_r. unfold J. auto 10.
    + destruct (iterate_J c HJ Ef) as (c1 & Hi & HJ1 & Hd & Hless & Hlast).
      change (S n + 2)%nat with (S (n + 2)). cbn [loop]. rewrite (continue_more c Ef), Hi.
      destruct (rest c) as [|x r] eqn:Er.
      * destruct (Hlast eq_refl) as [Hf1 Hr1]. exists c1. replace (n + 2)%nat with (S (n + 1)) by lia. cbn [loop].
        rewrite (continue_final c1 HJ1 Hf1). rewrite Hr1, !app_nil_r in Hd. rewrite ?app_nil_r. split; [reflexivity|]. split; [exact HJ1|]. split; [exact Hd|exact Hr1].
      * assert (Hl1 : (length (rest c1) <= n)%nat) by (specialize (Hless ltac:(discriminate)); cbn in *; lia).
        destruct (IH c1 HJ1 Hl1) as (c' & Hloop & HJ' & Hd' & Hr'). exists c'. rewrite Hloop. split; [reflexivity|]. split; [exact HJ'|]. split; [now rewrite Hd', Hd|exact Hr'].
Qed.

Lemma init_J stream cap sc : (0 < cap)%nat -> accepting sc = true -> J (init stream cap [] sc).
Proof. intros Hc Ha. unfold J, init. cbn. repeat split; auto; discriminate. Qed.

Theorem conforming_succeeds stream cap sc declared dsize : (0 < cap)%nat -> accepting sc = true ->
  (declared = None \/ declared = Some stream) -> (dsize = 0 \/ dsize = zlen stream) ->
  exists lg, upload (length stream + 2) stream cap [] sc declared dsize = (Done, Some stream, lg).
Proof.
  intros Hc Ha Hd Hs. destruct (loop_J (length stream) (init stream cap [] sc) (init_J stream cap sc Hc Ha)) as (c' & Hl & HJ & Hdg & Hr); [cbn; lia|].
  unfold upload. rewrite Hl. cbn [digested rest init] in Hdg. cbn in Hdg.
  destruct HJ as (_ & Hcs & _ & Hsd & _).
  assert (Hfin : finish declared dsize c' = Done).
  { unfold finish. rewrite Hdg. destruct Hd as [->| ->].
    - destruct Hs as [->| ->]; cbn; [reflexivity|]. rewrite Hcs, Hsd, Hdg, Z.eqb_refl. now destruct (zlen stream =? 0).
    - rewrite beq_refl. cbn. destruct Hs as [->| ->]; cbn; [reflexivity|]. rewrite Hcs, Hsd, Hdg, Z.eqb_refl. now destruct (zlen stream =? 0). }
  rewrite Hfin, Hsd, beq_refl, Hdg. eauto.
Qed.
