(* Proofs/C05.v — what a successful chunked upload has committed *)
From Coq Require Import List ZArith NArith Bool Arith Lia.
From Verif Require Import Model.C05_Upload.
Import ListNotations.
Open Scope Z_scope.

Lemma beq_eq : forall a b, beq a b = true -> a = b.
Proof.
  induction a as [|x a IH]; destruct b as [|y b]; cbn; try discriminate; [reflexivity|].
  intro H. apply andb_prop in H as [H1 H2]. apply N.eqb_eq in H1. subst. f_equal. now apply IH.
Qed.
Lemma beq_refl a : beq a a = true.
Proof. induction a as [|x a IH]; cbn; [reflexivity|]. now rewrite N.eqb_refl, IH. Qed.

Section Inv.
  Variable stream : bytes.

  (* what has been read plus what is left is the caller's stream; once the final (short) read happened
     nothing is left; the buffer always ends where reading stopped; after the first PATCH the client's idea of
     the next offset is what the registry holds *)
  Definition Inv (c : cst) : Prop :=
    digested c ++ rest c = stream /\
    (final c = true -> rest c = []) /\
    bufStart c + zlen (buf c) = zlen (digested c) /\
    (0 < bcap c)%nat /\ (length (buf c) <= bcap c)%nat /\
    (0 < chunkSize c -> chunkSize c = zlen (buf c)) /\
    (log c = [] \/ chunkStart c = zlen (sdata c)) /\
    (log c = [] -> chunkStart c = 0).

  Lemma zlen_app a b : zlen (a ++ b) = zlen a + zlen b.
  Proof. unfold zlen. rewrite app_length. lia. Qed.

  Lemma read_full_inv c : Inv c -> Inv (read_full c).
  Proof.
    intros (H1 & H2 & H3 & H4 & H5 & H5b & H6 & H7). unfold read_full, Inv; cbn [digested rest final bufStart buf bcap log chunkStart chunkSize sdata].
    set (n := Nat.min (bcap c) (length (rest c))).
    assert (Hfl : length (firstn n (rest c)) = n) by (rewrite firstn_length; subst n; lia).
    split; [rewrite <- app_assoc, firstn_skipn; exact H1|].
    split.
    { destruct (Nat.ltb_spec n (bcap c)) as [Hl|Hl].
      - intros _. assert (Hn : n = length (rest c)) by (subst n; lia). rewrite Hn. apply skipn_all.
      - intro Hf. rewrite (H2 Hf). now destruct n. }
    split; [rewrite zlen_app, <- H3; reflexivity|].
    split; [exact H4|]. split; [rewrite Hfl; subst n; lia|].
    split; [intros _; unfold zlen; now rewrite Hfl|]. split; [exact H6|exact H7].
  Qed.

  Lemma read_ahead_inv : forall fuel c, Inv c -> Inv (read_ahead fuel c).
  Proof.
    induction fuel as [|f IH]; intros c H; cbn [read_ahead]; [exact H|].
    destruct ((chunkStart c >=? bufStart c + zlen (buf c)) && negb (final c)); [apply IH; now apply read_full_inv|exact H].
  Qed.

  Lemma reslice_inv c : Inv c -> Inv (reslice c).
  Proof.
    intros (H1 & H2 & H3 & H4 & H5 & H5b & H6 & H7). unfold reslice.
    destruct ((chunkStart c >? bufStart c) && (chunkStart c <? bufStart c + zlen (buf c))) eqn:E; [|repeat split; auto].
    apply andb_prop in E as [E1 E2]. apply Z.gtb_lt in E1. apply Z.ltb_lt in E2.
    unfold Inv; cbn [digested rest final bufStart buf bcap log chunkStart chunkSize sdata].
    set (k := Z.to_nat (chunkStart c - bufStart c)).
    assert (Hk : (k < length (buf c))%nat) by (unfold zlen in E2; subst k; lia).
    split; [exact H1|]. split; [exact H2|].
    split; [unfold zlen; rewrite skipn_length; unfold zlen in H3; subst k; lia|].
    split; [lia|]. split; [rewrite skipn_length; lia|]. split; [intros _; reflexivity|]. split; [exact H6|].
    intro Hl. specialize (H7 Hl). lia.
  Qed.

  Lemma settle_inv c : Inv c -> Inv (settle c).
  Proof.
    intros (H1 & H2 & H3 & H4 & H5 & H5b & H6 & H7). unfold settle.
    destruct (final c && (chunkStart c >=? bufStart c + zlen (buf c))); [|repeat split; auto].
    unfold Inv; cbn [digested rest final bufStart buf bcap log chunkStart chunkSize sdata]. repeat split; auto. intro; lia.
  Qed.

  Lemma patch_inv c c' o : Inv c -> 0 < chunkSize c -> patch c = (c', o) -> Inv c' /\ log c' <> [].
  Proof.
    intros (H1 & H2 & H3 & H4 & H5 & H5b & H6 & H7) Hcs. specialize (H5b Hcs). unfold patch.
    destruct (negb (chunkStart c =? zlen (sdata c))) eqn:Eo.
    - intro H; injection H as <- _. split; [|discriminate]. unfold Inv; cbn. repeat split; auto. intro; discriminate.
    - apply negb_false_iff in Eo. apply Z.eqb_eq in Eo.
      destruct (script c) as [|[| |k|] s'].
      + intro H; injection H as <- _. split; [|discriminate]. unfold Inv; cbn. repeat split; auto. intro; discriminate.
      + intro H; injection H as <- _. split; [|discriminate]. unfold Inv; cbn. repeat split; auto. intro; discriminate.
      + intro H; injection H as <- _. split; [|discriminate]. unfold Inv; cbn. repeat split; auto; [|intro; discriminate].
        right. rewrite zlen_app, <- Eo, H5b. reflexivity.
      + destruct (firstn k (buf c)); intro H; injection H as <- _; (split; [|discriminate]); unfold Inv; cbn; repeat split; auto; intro; discriminate.
      + intro H; injection H as <- _. split; [|discriminate]. unfold Inv; cbn. repeat split; auto. intro; discriminate.
  Qed.

  Lemma iterate_inv c c' o : Inv c -> iterate c = (c', o) -> Inv c'.
  Proof.
    intros HI. unfold iterate.
    set (c1 := settle (reslice (read_ahead (S (length (rest c))) c))).
    assert (H1 : Inv c1) by (apply settle_inv, reslice_inv, read_ahead_inv, HI).
    destruct ((chunkSize c1 >? 0) && negb (chunkStart c1 =? bufStart c1)); [intro H; now injection H as <- _|].
    destruct (chunkSize c1 >? 0) eqn:Ecs; [intro H; apply Z.gtb_lt in Ecs; now destruct (patch_inv _ _ _ H1 Ecs H)|intro H; now injection H as <- _].
  Qed.

  Lemma iterate_not_done c c' o : iterate c = (c', o) -> o <> Done.
  Proof.
    unfold iterate. set (c1 := settle _).
    destruct ((chunkSize c1 >? 0) && negb (chunkStart c1 =? bufStart c1)); [intro H; injection H as _ <-; discriminate|].
    destruct (chunkSize c1 >? 0); [|intro H; injection H as _ <-; discriminate].
    unfold patch. destruct (negb (chunkStart c1 =? zlen (sdata c1))).
    - intro H; injection H as _ <-. destruct (Nat.ltb _ _); discriminate.
    - destruct (script c1) as [|[| |k|] s']; try (intro H; injection H as _ <-; discriminate).
      destruct (firstn k (buf c1)); intro H; injection H as _ <-; [discriminate|destruct (Nat.ltb _ _); discriminate].
  Qed.

  Lemma loop_inv : forall fuel c c' o, Inv c -> loop fuel c = (c', o) -> Inv c' /\ (o = Done -> continue c' = false).
  Proof.
    induction fuel as [|f IH]; intros c c' o HI; cbn [loop]; [intro H; injection H as <- <-; split; [exact HI|discriminate]|].
    destruct (continue c) eqn:Ec; [|intro H; injection H as <- <-; split; [exact HI|intros _; exact Ec]].
    destruct (iterate c) as [c1 o1] eqn:Ei. pose proof (iterate_inv _ _ _ HI Ei) as H1.
    pose proof (iterate_not_done _ _ _ Ei) as Hnd.
    destruct o1; try (intro H; injection H as <- <-; split; [exact H1|discriminate]); [|congruence].
    intro H. eapply IH; [exact H1|exact H].
  Qed.

  Lemma init_inv cap held sc : (0 < cap)%nat -> Inv (init stream cap held sc).
  Proof. intro Hc. unfold Inv, init; cbn. repeat split; auto; try lia. Qed.
End Inv.

(* success commits exactly the caller's stream; the size the client reports is its length *)
Lemma upload_commit_exact fuel stream cap held sc declared dsize b lg : (0 < cap)%nat ->
  upload fuel stream cap held sc declared dsize = (Done, Some b, lg) ->
  b = stream /\ (declared <> None -> declared = Some stream) /\ (dsize <> 0 -> dsize = zlen stream).
Proof.
  intros Hc. unfold upload. destruct (loop fuel (init stream cap held sc)) as [c o] eqn:El.
  destruct (loop_inv stream _ _ _ _ (init_inv stream cap held sc Hc) El) as [(H1 & H2 & H3 & H4 & H5 & H5b & H6 & H7) Hd].
  destruct o; try discriminate.
  specialize (Hd eq_refl). unfold continue in Hd. apply orb_false_iff in Hd as [Hf Hcs].
  apply negb_false_iff in Hf. apply Z.ltb_ge in Hcs.
  assert (Hdig : digested c = stream) by (rewrite <- H1, (H2 Hf); symmetry; apply app_nil_r).
  destruct (finish declared dsize c) eqn:Ef; try discriminate.
  destruct (beq (sdata c) (digested c)) eqn:Eb; [|discriminate].
  apply beq_eq in Eb. intro H; injection H as <- _.
  split; [congruence|].
  unfold finish in Ef.
  assert (Hsz : (negb (dsize =? 0) && negb (chunkStart c =? dsize)) = false).
  { destruct declared as [g|]; [destruct (negb (beq g (digested c))); [discriminate|]|];
    destruct (negb (dsize =? 0) && negb (chunkStart c =? dsize)); [discriminate|reflexivity|discriminate|reflexivity]. }
  split.
  - intros Hn. destruct declared as [g|]; [|congruence]. destruct (beq g (digested c)) eqn:Eg; cbn in Ef; [|discriminate].
    apply beq_eq in Eg. congruence.
  - intro Hz. apply andb_false_iff in Hsz as [Hs|Hs]; [apply negb_false_iff, Z.eqb_eq in Hs; congruence|].
    apply negb_false_iff, Z.eqb_eq in Hs. rewrite <- Hs.
    destruct H6 as [Hl|Hcs2].
    + (* no PATCH was sent: nothing was read beyond an empty stream *)
      rewrite (H7 Hl) in *. rewrite H3, Hdig in Hcs. unfold zlen in *. lia.
    + rewrite Hcs2, Eb, Hdig. reflexivity.
Qed.

(* ---------- a conforming registry: every well-formed upload succeeds ---------- *)
Definition accepting (sc : list sact) : bool := forallb (fun a => match a with SAccept | SReloc => true | _ => false end) sc.
Definition is_drop (a : sact) : bool := match a with SDrop _ => true | _ => false end.
Definition drops (sc : list sact) : nat := length (filter is_drop sc).

Lemma zlen_app' a b : zlen (a ++ b) = zlen a + zlen b.
Proof. unfold zlen. rewrite app_length. lia. Qed.
Lemma zlen_nonneg a : 0 <= zlen a. Proof. unfold zlen. lia. Qed.
Lemma zlen_nil_iff a : zlen a = 0 <-> a = [].
Proof. unfold zlen. destruct a; cbn; split; intro H; try reflexivity; try discriminate; lia. Qed.
Lemma zlen_firstn k (a : bytes) : (k <= length a)%nat -> zlen (firstn k a) = Z.of_nat k.
Proof. intro H. unfold zlen. rewrite firstn_length. f_equal. lia. Qed.
Lemma zlen_skipn k (a : bytes) : zlen (skipn k a) = zlen a - Z.of_nat (Nat.min k (length a)).
Proof. unfold zlen. rewrite skipn_length. lia. Qed.

(* two prefixes of one list *)
Lemma prefix_same {A} (a b x y : list A) : a ++ x = b ++ y -> length a = length b -> a = b /\ x = y.
Proof.
  revert b; induction a as [|h a IH]; intros [|h' b] H Hl; cbn in *; try discriminate; [now split|].
  injection H as -> H. destruct (IH b H ltac:(lia)) as [-> ->]. now split.
Qed.
Lemma prefix_longer {A} (a b x y : list A) : a ++ x = b ++ y -> (length a <= length b)%nat -> exists m, b = a ++ m /\ x = m ++ y.
Proof.
  revert b; induction a as [|h a IH]; intros b H Hl; cbn in *; [exists b; now split|].
  destruct b as [|h' b]; cbn in *; [lia|]. injection H as -> H. destruct (IH b H ltac:(lia)) as (m & -> & ->). exists m. now split.
Qed.

Lemma split3 {A} (a b1 b2 r b : list A) : b = b1 ++ b2 -> (a ++ b1) ++ b2 ++ r = (a ++ b) ++ r.
Proof. intros ->. now rewrite <- !app_assoc. Qed.

Section Succeeds.
  Variable stream : bytes.

  Definition Budget (c : cst) : Prop := (retry c + drops (script c) <= retry_limit)%nat.

  (* reading invariant: what was read plus what is left is the stream; the buffer is the tail of what was read; the
     client never has to go back before the buffer *)
  Definition R (c : cst) : Prop :=
    digested c ++ rest c = stream /\ (final c = true -> rest c = []) /\
    (exists pre, digested c = pre ++ buf c /\ zlen pre = bufStart c) /\
    (0 < bcap c)%nat /\ (length (buf c) <= bcap c)%nat /\ bufStart c <= chunkStart c.
  Definition CS (c : cst) : Prop := chunkSize c = zlen (buf c).

  (* in step with the registry: it holds a prefix of the stream and the client knows how long it is *)
  Definition Sync (c : cst) : Prop := (exists post, sdata c ++ post = stream) /\ chunkStart c = zlen (sdata c).

  Definition same_session (c c' : cst) : Prop :=
    chunkStart c' = chunkStart c /\ sdata c' = sdata c /\ script c' = script c /\ retry c' = retry c /\ log c' = log c.

  Lemma read_full_R c : R c -> chunkStart c >= bufStart c + zlen (buf c) -> final c = false ->
    R (read_full c) /\ CS (read_full c) /\ same_session c (read_full c) /\
    (final (read_full c) = false -> (length (rest (read_full c)) < length (rest c))%nat) /\
    (rest c = [] -> final (read_full c) = true).
  Proof.
    intros (H1 & H2 & (pre & Hp & Hz) & H4 & H4b & H5) Hge Hf. unfold read_full.
    set (n := Nat.min (bcap c) (length (rest c))).
    assert (Hfl : length (firstn n (rest c)) = n) by (rewrite firstn_length; subst n; lia).
    split; [|split; [unfold CS; cbn [chunkSize buf]; unfold zlen; now rewrite Hfl|split; [|split]]].
    - unfold R; cbn [digested rest final bufStart buf bcap chunkStart chunkSize].
      split; [rewrite <- app_assoc, firstn_skipn; exact H1|]. split.
      { destruct (Nat.ltb_spec n (bcap c)) as [Hl|Hl]; [|congruence].
        intros _. assert (Hn : n = length (rest c)) by (subst n; lia). rewrite Hn. apply skipn_all. }
      split; [exists (pre ++ buf c); split; [now rewrite Hp|rewrite zlen_app'; lia]|].
      split; [exact H4|]. split; [rewrite Hfl; subst n; lia|lia].
    - unfold same_session. cbn. auto.
    - cbn [final rest]. destruct (Nat.ltb_spec n (bcap c)) as [Hl|Hl]; [discriminate|]. intros _. rewrite skipn_length. subst n. lia.
    - intro Hr. cbn [final]. subst n. rewrite Hr. cbn [length]. rewrite Nat.min_0_r. destruct (Nat.ltb_spec 0 (bcap c)); [reflexivity|lia].
  Qed.

  Lemma read_ahead_R : forall fuel c, R c -> (length (rest c) < fuel)%nat ->
    let c' := read_ahead fuel c in
    R c' /\ (CS c -> CS c') /\ same_session c c' /\ (chunkStart c' < bufStart c' + zlen (buf c') \/ final c' = true) /\
    (final c = true \/ chunkStart c < bufStart c + zlen (buf c) -> c' = c) /\
    (length (rest c') <= length (rest c))%nat.
  Proof.
    induction fuel as [|f IH]; intros c HR Hfuel; [lia|]. cbn [read_ahead].
    destruct ((chunkStart c >=? bufStart c + zlen (buf c)) && negb (final c)) eqn:E.
    - apply andb_prop in E as [E1 E2]. apply Z.geb_le in E1. apply negb_true_iff in E2.
      destruct (read_full_R c HR ltac:(lia) E2) as (HR1 & HC1 & Hs1 & Hless & Hlast).
      destruct (final (read_full c)) eqn:Ef1.
      + (* the read was short: the loop stops *)
        assert (Estop : read_ahead f (read_full c) = read_full c).
        { destruct f; cbn [read_ahead]; [reflexivity|]. rewrite Ef1. now rewrite andb_false_r. }
        rewrite Estop. split; [exact HR1|]. split; [intros _; exact HC1|]. split; [exact Hs1|]. split; [now right|]. split.
        * intros [H|H]; [congruence|lia].
        * unfold read_full. cbn [rest]. rewrite skipn_length. lia.
      + specialize (Hless eq_refl).
        destruct (IH (read_full c) HR1 ltac:(lia)) as (HR2 & HC2 & Hs2 & Hstop & _ & Hle).
        split; [exact HR2|]. split; [intros _; now apply HC2|]. split.
        { destruct Hs1 as (a1 & a2 & a3 & a4 & a5), Hs2 as (b1 & b2 & b3 & b4 & b5). unfold same_session. repeat split; congruence. }
        split; [exact Hstop|]. split; [intros [H|H]; [congruence|lia]|lia].
    - split; [exact HR|]. split; [auto|]. split; [unfold same_session; auto|].
      apply andb_false_iff in E. split.
      + destruct E as [E|E]; [left; rewrite Z.geb_leb in E; apply Z.leb_gt in E; lia|right; now apply negb_false_iff in E].
      + split; [reflexivity|lia].
  Qed.

  Lemma reslice_R c : R c -> bufStart c < chunkStart c < bufStart c + zlen (buf c) ->
    R (reslice c) /\ CS (reslice c) /\ same_session c (reslice c) /\ bufStart (reslice c) = chunkStart c /\ 0 < zlen (buf (reslice c)) /\
    final (reslice c) = final c /\ rest (reslice c) = rest c.
  Proof.
    intros (H1 & H2 & (pre & Hp & Hz) & H4 & H4b & H5) [Hlo Hhi]. unfold reslice.
    assert (E : (chunkStart c >? bufStart c) && (chunkStart c <? bufStart c + zlen (buf c)) = true).
    { apply andb_true_intro. split; [apply Z.gtb_lt; lia|apply Z.ltb_lt; lia]. }
    rewrite E. set (k := Z.to_nat (chunkStart c - bufStart c)).
    assert (Hk : (k < length (buf c))%nat) by (unfold zlen in Hhi; subst k; lia).
    split; [|split; [reflexivity|split; [unfold same_session; cbn; auto|split; [reflexivity|split; [|split; reflexivity]]]]].
    - unfold R; cbn [digested rest final bufStart buf bcap chunkStart chunkSize].
      split; [exact H1|]. split; [exact H2|]. split.
      { exists (pre ++ firstn k (buf c)). split; [rewrite <- app_assoc, firstn_skipn; exact Hp|].
        rewrite zlen_app', zlen_firstn by lia. subst k. lia. }
      split; [lia|]. split; [rewrite skipn_length; lia|lia].
    - cbn [buf]. rewrite zlen_skipn. unfold zlen. lia.
  Qed.

  Definition M (c : cst) : nat := (Z.to_nat (zlen stream - chunkStart c) + (if final c then 0 else 1))%nat.

  (* one iteration from a state in step with the registry in which the loop continues *)
  Lemma iterate_sync c : R c -> Sync c -> Budget c -> continue c = true -> CS c ->
    exists c', iterate c = (c', Running) /\ R c' /\ Sync c' /\ Budget c' /\ (continue c' = true -> CS c') /\ (M c' < M c)%nat.
  Proof.
    intros HR [[post Hpost] Hcs] HB Hcont HCS. unfold iterate.
    destruct (read_ahead_R (S (length (rest c))) c HR ltac:(lia)) as (HR1 & HC1 & Hs1 & Hstop & Hsame & Hle).
    set (c1 := read_ahead (S (length (rest c))) c) in *. specialize (HC1 HCS).
    destruct Hs1 as (S1 & S2 & S3 & S4 & S5).
    assert (Hfin1 : final c = true -> c1 = c) by (intro H; apply Hsame; now left).
    assert (Hcle : chunkStart c <= zlen stream) by (rewrite Hcs, <- Hpost, zlen_app'; pose proof (zlen_nonneg post); lia).
    destruct (Z_lt_ge_dec (chunkStart c1) (bufStart c1 + zlen (buf c1))) as [Hin|Hout].
    - (* something to send *)
      assert (Hlo1 : bufStart c1 <= chunkStart c1) by apply HR1.
      assert (Hc2 : exists c2, reslice c1 = c2 /\ R c2 /\ CS c2 /\ same_session c1 c2 /\ bufStart c2 = chunkStart c2 /\ 0 < zlen (buf c2) /\
                               final c2 = final c1 /\ rest c2 = rest c1).
      { destruct (Z.eq_dec (bufStart c1) (chunkStart c1)) as [Heq|Hne].
        - exists c1. split.
          + unfold reslice. replace (chunkStart c1 >? bufStart c1) with false by (symmetry; rewrite Z.gtb_ltb; apply Z.ltb_ge; lia). reflexivity.
          + split; [exact HR1|]. split; [exact HC1|]. split; [unfold same_session; auto|]. split; [exact Heq|]. split; [lia|split; reflexivity].
        - destruct (reslice_R c1 HR1 ltac:(lia)) as (Ha & Ha' & Hb & Hc & Hd & He & Hf). eexists. split; [reflexivity|].
          split; [exact Ha|]. split; [exact Ha'|]. split; [exact Hb|]. destruct Hb as (Hb1 & _). split; [congruence|]. split; [exact Hd|split; assumption]. }
      destruct Hc2 as (c2 & -> & HR2 & HC2 & (T1 & T2 & T3 & T4 & T5) & Hb2 & Hl2 & Hf2 & Hr2).
      assert (Hset : settle c2 = c2).
      { unfold settle. replace (chunkStart c2 >=? bufStart c2 + zlen (buf c2)) with false; [now rewrite andb_false_r|].
        symmetry. rewrite Z.geb_leb. apply Z.leb_gt. lia. }
      rewrite Hset. unfold CS in HC2.
      destruct HR2 as (K1 & K2 & (pre & Hp & Hz) & K4 & K4b & K5).
      assert (Hgt : chunkSize c2 >? 0 = true) by (apply Z.gtb_lt; lia). rewrite Hgt. cbn [andb].
      replace (chunkStart c2 =? bufStart c2) with true by (symmetry; apply Z.eqb_eq; lia). cbn [negb].
      assert (Hsd2 : sdata c2 = sdata c) by congruence.
      assert (Hcs2 : chunkStart c2 = zlen (sdata c2)) by congruence.
      assert (Hpre : pre = sdata c2).
      { assert (E : pre ++ (buf c2 ++ rest c2) = sdata c ++ post) by (rewrite app_assoc, <- Hp, K1; symmetry; exact Hpost).
        apply prefix_same in E; [destruct E as [E _]; congruence|]. unfold zlen in *. rewrite <- Hsd2. lia. }
      unfold patch. replace (chunkStart c2 =? zlen (sdata c2)) with true by (symmetry; apply Z.eqb_eq; exact Hcs2). cbn [negb].
      assert (Hsc : script c2 = script c) by congruence. assert (Hrt : retry c2 = retry c) by congruence.
      assert (Hfull : (sdata c2 ++ buf c2) ++ rest c2 = stream) by (rewrite <- Hpre, <- Hp; exact K1).
      assert (Hcsc : chunkStart c2 = chunkStart c) by congruence.
      assert (Mle : forall c', chunkStart c' > chunkStart c -> chunkStart c' <= zlen stream -> final c' = final c2 -> (M c' < M c)%nat).
      { intros c' Hgt' Hle' Hf'. unfold M. rewrite Hf', Hf2.
        destruct (final c) eqn:Efc; [rewrite (Hfin1 eq_refl), Efc; lia|]. destruct (final c1); lia. }
      assert (Hlen_all : zlen (sdata c2) + zlen (buf c2) <= zlen stream).
      { rewrite <- Hfull, !zlen_app'. pose proof (zlen_nonneg (rest c2)). lia. }
      unfold Budget in HB. rewrite <- Hsc, <- Hrt in HB.
      assert (HRout : forall sd rt sc' lg' cs', bufStart c2 <= cs' ->
                R (mkC (rest c2) (digested c2) (bufStart c2) (buf c2) (bcap c2) cs' (chunkSize c2) (final c2) rt sd sc' lg')).
      { intros. unfold R; cbn [digested rest final bufStart buf bcap chunkStart chunkSize]. repeat split; auto. exists pre; now split. }
      destruct (script c2) as [|[| |k|] s'] eqn:Esc; rewrite ?Esc in HB; unfold drops in *; cbn [filter is_drop length] in HB.
      + eexists. split; [reflexivity|]. split; [apply HRout; rewrite zlen_app'; lia|].
        unfold Sync, Budget, CS, drops; cbn [buf chunkStart chunkSize sdata script retry tl final].
        split; [split; [exists (rest c2); exact Hfull|reflexivity]|]. split; [cbn; lia|]. split; [intros _; exact HC2|].
        apply Mle; cbn [chunkStart final]; [rewrite zlen_app'; lia|rewrite zlen_app'; lia|reflexivity].
      + eexists. split; [reflexivity|]. split; [apply HRout; rewrite zlen_app'; lia|].
        unfold Sync, Budget, CS, drops; cbn [buf chunkStart chunkSize sdata script retry tl final].
        split; [split; [exists (rest c2); exact Hfull|reflexivity]|]. split; [cbn [filter is_drop length] in *; lia|]. split; [intros _; exact HC2|].
        apply Mle; cbn [chunkStart final]; [rewrite zlen_app'; lia|rewrite zlen_app'; lia|reflexivity].
      + eexists. split; [reflexivity|]. split; [apply HRout; lia|].
        unfold Sync, Budget, CS, drops; cbn [buf chunkStart chunkSize sdata script retry tl final].
        split; [split; [exists (rest c2); exact Hfull|rewrite zlen_app'; lia]|]. split; [cbn [filter is_drop length] in *; lia|]. split; [intros _; exact HC2|].
        apply Mle; cbn [chunkStart final]; [lia|lia|reflexivity].
      + destruct (firstn k (buf c2)) as [|b0 kept'] eqn:Ek.
        * eexists. split; [reflexivity|]. rewrite app_nil_r. split; [apply HRout; rewrite zlen_app'; lia|].
          unfold Sync, Budget, CS, drops; cbn [buf chunkStart chunkSize sdata script retry tl final].
          split; [split; [exists (rest c2); exact Hfull|reflexivity]|]. split; [cbn [filter is_drop length] in *; lia|]. split; [intros _; exact HC2|].
          apply Mle; cbn [chunkStart final]; [rewrite zlen_app'; lia|rewrite zlen_app'; lia|reflexivity].
        * assert (Hkept : buf c2 = (b0 :: kept') ++ skipn k (buf c2)) by (rewrite <- Ek; symmetry; apply firstn_skipn).
          assert (Hnolimit : Nat.ltb retry_limit (S (retry c2)) = false) by (apply Nat.ltb_ge; lia).
          rewrite Hnolimit.
          assert (Hzk : 0 < zlen (b0 :: kept') <= zlen (buf c2)).
          { split; [unfold zlen; cbn; lia|]. assert (E : zlen (buf c2) = zlen (b0 :: kept') + zlen (skipn k (buf c2))) by (rewrite <- zlen_app', <- Hkept; reflexivity). pose proof (zlen_nonneg (skipn k (buf c2))). lia. }
          eexists. split; [reflexivity|]. split; [apply HRout; rewrite zlen_app'; lia|].
          unfold Sync, Budget, CS, drops; cbn [buf chunkStart chunkSize sdata script retry tl final].
          split; [split; [exists (skipn k (buf c2) ++ rest c2); rewrite <- Hfull; now apply split3|reflexivity]|].
          split; [cbn [filter is_drop length] in *; lia|]. split; [intros _; exact HC2|].
          apply Mle; cbn [chunkStart final]; [rewrite zlen_app'; lia|rewrite zlen_app'; lia|reflexivity].
      + eexists. split; [reflexivity|]. split; [apply HRout; rewrite zlen_app'; lia|].
        unfold Sync, Budget, CS, drops; cbn [buf chunkStart chunkSize sdata script retry tl final].
        split; [split; [exists (rest c2); exact Hfull|reflexivity]|]. split; [cbn [filter is_drop length] in *; lia|]. split; [intros _; exact HC2|].
        apply Mle; cbn [chunkStart final]; [rewrite zlen_app'; lia|rewrite zlen_app'; lia|reflexivity].
    - (* everything read is acknowledged: this was the last (possibly empty) read *)
      destruct Hstop as [Hlt|Hf1]; [lia|].
      assert (Hfc : final c = false).
      { destruct (final c) eqn:Efc; [|reflexivity]. rewrite (Hfin1 eq_refl) in Hout. unfold continue in Hcont. rewrite Efc in Hcont. cbn in Hcont. apply Z.ltb_lt in Hcont. lia. }
      assert (Hres : reslice c1 = c1).
      { unfold reslice. replace (chunkStart c1 <? bufStart c1 + zlen (buf c1)) with false by (symmetry; apply Z.ltb_ge; lia). now rewrite andb_false_r. }
      rewrite Hres. unfold settle. rewrite Hf1. replace (chunkStart c1 >=? bufStart c1 + zlen (buf c1)) with true by (symmetry; apply Z.geb_le; lia). cbn [andb].
      cbn [chunkSize]. cbn [Z.gtb Z.compare andb]. eexists. split; [reflexivity|].
      destruct HR1 as (K1 & K2 & K3 & K4 & K4b & K5).
      unfold R, Sync, Budget, CS, M, continue; cbn [digested rest final bufStart buf bcap chunkStart chunkSize sdata script retry].
      split; [repeat split; auto|]. split; [split; [exists post; congruence|congruence]|].
      split; [unfold Budget in HB; rewrite S3, S4; exact HB|]. split.
      + cbn [negb orb]. intro H. apply Z.ltb_lt in H. lia.
      + rewrite Hfc, S1. lia.
  Qed.

  Lemma loop_sync : forall n c, R c -> Sync c -> Budget c -> (continue c = true -> CS c) -> (M c <= n)%nat ->
    exists c', (forall k, loop (S n + k) c = (c', Done)) /\ R c' /\ Sync c' /\ continue c' = false.
  Proof.
    induction n as [|n IH]; intros c HR HS HB HC HM.
    - destruct (continue c) eqn:Ec.
      + destruct (iterate_sync c HR HS HB Ec (HC eq_refl)) as (c1 & _ & _ & _ & _ & _ & Hlt). lia.
      + exists c. split; [intro k; cbn [Nat.add loop]; now rewrite Ec|auto].
    - destruct (continue c) eqn:Ec.
      + destruct (iterate_sync c HR HS HB Ec (HC eq_refl)) as (c1 & Hi & HR1 & HS1 & HB1 & HC1 & Hlt).
        destruct (IH c1 HR1 HS1 HB1 HC1 ltac:(lia)) as (c' & Hl & HR' & HS' & Hc').
        exists c'. split; [|auto]. intro k. change (S (S n) + k)%nat with (S (S n + k)). cbn [loop]. rewrite Ec, Hi. apply Hl.
      + exists c. split; [intro k; cbn [Nat.add loop]; now rewrite Ec|auto].
  Qed.

  (* at the exit everything read has been acknowledged: the registry holds the stream *)
  Lemma exit_complete c : R c -> Sync c -> continue c = false ->
    digested c = stream /\ sdata c = stream /\ chunkStart c = zlen stream.
  Proof.
    intros (K1 & K2 & (pre & Hp & Hz) & _ & _ & K5) [[post Hpost] Hcs] Hc.
    unfold continue in Hc. apply orb_false_iff in Hc as [Hf Hge]. apply negb_false_iff in Hf. apply Z.ltb_ge in Hge.
    assert (Hd : digested c = stream) by (rewrite <- K1, (K2 Hf); symmetry; apply app_nil_r).
    assert (Hl : zlen stream <= zlen (sdata c)).
    { rewrite <- Hd, Hp, zlen_app'. lia. }
    assert (Hpn : post = []).
    { apply zlen_nil_iff. pose proof (zlen_nonneg post). assert (zlen (sdata c) + zlen post = zlen stream) by (rewrite <- zlen_app', Hpost; reflexivity). lia. }
    subst post. rewrite app_nil_r in Hpost. split; [exact Hd|]. split; [exact Hpost|]. now rewrite Hcs, Hpost.
  Qed.

  Lemma init_R cap held sc : (0 < cap)%nat -> R (init stream cap held sc) /\ CS (init stream cap held sc).
  Proof.
    intro Hc. unfold R, CS, init; cbn. split; [|reflexivity]. split; [reflexivity|]. split; [discriminate|].
    split; [exists []; now split|]. split; [exact Hc|]. split; lia.
  Qed.

  (* the session already holds a non-empty prefix (the failed single-request PUT left it): the first PATCH is answered
     416 + Range and puts the client in step *)
  Lemma first_iterate cap h0 held' tail sc : (0 < cap)%nat -> stream = (h0 :: held') ++ tail -> (1 + drops sc <= retry_limit)%nat ->
    exists c1, iterate (init stream cap (h0 :: held') sc) = (c1, Running) /\ R c1 /\ Sync c1 /\ Budget c1 /\ CS c1 /\ (M c1 <= length stream)%nat.
  Proof.
    intros Hc Hst HB. set (c0 := init stream cap (h0 :: held') sc). destruct (init_R cap (h0 :: held') sc Hc) as [HR0 HC0]. fold c0 in HR0, HC0.
    unfold iterate.
    destruct (read_ahead_R (S (length (rest c0))) c0 HR0 ltac:(lia)) as (HR1 & HC1 & (S1 & S2 & S3 & S4 & S5) & Hstop & _ & _).
    set (c1 := read_ahead (S (length (rest c0))) c0) in *. specialize (HC1 HC0).
    assert (Hs0 : chunkStart c1 = 0) by (rewrite S1; reflexivity).
    destruct HR1 as (K1 & K2 & (pre & Hp & Hz) & K4 & K4b & K5).
    assert (Hb0 : bufStart c1 = 0) by (pose proof (zlen_nonneg pre); lia).
    assert (Hpre : pre = []) by (apply zlen_nil_iff; lia). subst pre. cbn [app] in Hp.
    assert (Hne : stream <> []) by (rewrite Hst; discriminate).
    assert (Hin : 0 < zlen (buf c1)).
    { destruct Hstop as [H|H]; [lia|]. rewrite <- Hp. assert (Hd : digested c1 = stream) by (rewrite <- K1, (K2 H); symmetry; apply app_nil_r).
      rewrite Hd. destruct stream; [congruence|unfold zlen; cbn; lia]. }
    assert (Hres : reslice c1 = c1).
    { unfold reslice. replace (chunkStart c1 >? bufStart c1) with false by (symmetry; rewrite Z.gtb_ltb; apply Z.ltb_ge; lia). reflexivity. }
    rewrite Hres.
    assert (Hset : settle c1 = c1).
    { unfold settle. replace (chunkStart c1 >=? bufStart c1 + zlen (buf c1)) with false; [now rewrite andb_false_r|]. symmetry. rewrite Z.geb_leb. apply Z.leb_gt. lia. }
    rewrite Hset. unfold CS in HC1.
    replace (chunkSize c1 >? 0) with true by (symmetry; apply Z.gtb_lt; lia). cbn [andb].
    replace (chunkStart c1 =? bufStart c1) with true by (symmetry; apply Z.eqb_eq; lia). cbn [negb].
    unfold patch. rewrite S2. change (sdata c0) with (h0 :: held').
    replace (chunkStart c1 =? zlen (h0 :: held')) with false by (symmetry; apply Z.eqb_neq; rewrite Hs0; unfold zlen; cbn; lia). cbn [negb].
    rewrite S4. change (retry c0) with 0%nat. change (Nat.ltb retry_limit 1) with false.
    eexists. split; [reflexivity|].
    unfold R, Sync, Budget, CS, M; cbn [digested rest final bufStart buf bcap chunkStart chunkSize sdata script retry].
    split; [repeat split; auto; [exists []; now split|rewrite Hb0; apply zlen_nonneg]|].
    split; [split; [exists tail; now symmetry|reflexivity]|]. split; [rewrite S3; exact HB|]. split; [exact HC1|].
    rewrite Hst at 1. rewrite zlen_app'. assert (0 < zlen (h0 :: held')) by (unfold zlen; cbn; lia).
    assert (Hlen : length stream = (length (h0 :: held') + length tail)%nat) by (rewrite Hst, app_length; reflexivity).
    unfold zlen in *. destruct (final c1); lia.
  Qed.
End Succeeds.

(* the general statement: any prefix already held by the session (fall-back from the single-request upload), any
   script of accepted, relocated, early-201 and dropped-after-k-bytes requests within the retry budget *)
Theorem spec_conforming_succeeds stream cap held tail sc declared dsize : (0 < cap)%nat -> stream = held ++ tail ->
  (drops sc + (match held with [] => 0 | _ => 1 end) <= retry_limit)%nat ->
  (declared = None \/ declared = Some stream) -> (dsize = 0 \/ dsize = zlen stream) ->
  forall k, exists lg, upload (length stream + 3 + k) stream cap held sc declared dsize = (Done, Some stream, lg).
Proof.
  intros Hc Hst HB Hd Hs k.
  assert (Hloop : exists c', loop (length stream + 3 + k) (init stream cap held sc) = (c', Done) /\
                             digested c' = stream /\ sdata c' = stream /\ chunkStart c' = zlen stream).
  { destruct held as [|h0 held'].
    - destruct (init_R stream cap [] sc Hc) as [HR0 HC0].
      assert (HS0 : Sync stream (init stream cap [] sc)) by (split; [exists stream; reflexivity|reflexivity]).
      assert (HB0 : Budget (init stream cap [] sc)) by (unfold Budget, init; cbn [retry script]; lia).
      assert (HM0 : (M stream (init stream cap [] sc) <= length stream + 1)%nat) by (unfold M, zlen; cbn; lia).
      destruct (loop_sync stream _ _ HR0 HS0 HB0 (fun _ => HC0) HM0) as (c' & Hl & HR' & HS' & Hc').
      exists c'. split; [|now apply exit_complete]. replace (length stream + 3 + k)%nat with (S (length stream + 1) + (1 + k))%nat by lia. apply Hl.
    - destruct (first_iterate stream cap h0 held' tail sc Hc Hst ltac:(lia)) as (c1 & Hi & HR1 & HS1 & HB1 & HC1 & HM1).
      destruct (loop_sync stream _ _ HR1 HS1 HB1 (fun _ => HC1) HM1) as (c' & Hl & HR' & HS' & Hc').
      exists c'. split; [|now apply exit_complete].
      replace (length stream + 3 + k)%nat with (S (S (length stream) + (1 + k)))%nat by lia. cbn [loop].
      assert (Ec : continue (init stream cap (h0 :: held') sc) = true) by reflexivity. rewrite Ec, Hi. apply Hl. }
  destruct Hloop as (c' & Hl & Hdg & Hsd & Hcs).
  unfold upload. rewrite Hl.
  assert (Hfin : finish declared dsize c' = Done).
  { unfold finish. rewrite Hdg. destruct Hd as [->| ->].
    - destruct Hs as [->| ->]; cbn; [reflexivity|]. rewrite Hcs, Z.eqb_refl. now destruct (zlen stream =? 0).
    - rewrite beq_refl. cbn. destruct Hs as [->| ->]; cbn; [reflexivity|]. rewrite Hcs, Z.eqb_refl. now destruct (zlen stream =? 0). }
  rewrite Hfin, Hsd, Hdg, beq_refl. eauto.
Qed.

Lemma accepting_no_drops sc : accepting sc = true -> drops sc = 0%nat.
Proof.
  unfold drops. induction sc as [|a sc IH]; [reflexivity|]. cbn [accepting forallb]. intro H. apply andb_prop in H as [Ha Hs].
  destruct a; try discriminate; cbn [filter is_drop]; now apply IH.
Qed.

Theorem conforming_succeeds stream cap sc declared dsize : (0 < cap)%nat -> accepting sc = true ->
  (declared = None \/ declared = Some stream) -> (dsize = 0 \/ dsize = zlen stream) ->
  exists lg, upload (length stream + 3) stream cap [] sc declared dsize = (Done, Some stream, lg).
Proof.
  intros Hc Ha Hd Hs. replace (length stream + 3)%nat with (length stream + 3 + 0)%nat by lia.
  apply (spec_conforming_succeeds stream cap [] stream sc); auto. rewrite (accepting_no_drops _ Ha). cbn. unfold retry_limit. lia.
Qed.

(* ---------- OCI-layout destination ---------- *)
Lemma layout_put_exact declared dsize stream store d size store' :
  layout_put declared dsize stream store = (LOk d size, store') ->
  d = stream /\ size = zlen stream /\ store' = (stream, stream) :: store /\
  (declared <> None -> declared = Some stream) /\ (0 < dsize -> dsize = zlen stream).
Proof.
  unfold layout_put. destruct declared as [g|].
  - destruct (beq g stream) eqn:Eg; cbn [negb]; [|discriminate]. apply beq_eq in Eg. subst g.
    destruct ((0 <? dsize) && negb (zlen stream =? dsize)) eqn:E; [discriminate|].
    intro H; injection H as <- <- <-. repeat split; auto.
    intro Hd. apply andb_false_iff in E as [E|E]; [apply Z.ltb_ge in E; lia|apply negb_false_iff, Z.eqb_eq in E; congruence].
  - destruct ((0 <? dsize) && negb (zlen stream =? dsize)) eqn:E; [discriminate|].
    intro H; injection H as <- <- <-. repeat split; auto; try congruence.
    intro Hd. apply andb_false_iff in E as [E|E]; [apply Z.ltb_ge in E; lia|apply negb_false_iff, Z.eqb_eq in E; congruence].
Qed.
Lemma layout_put_fail declared dsize stream store r store' :
  layout_put declared dsize stream store = (r, store') -> (forall d n, r <> LOk d n) -> store' = store.
Proof.
  unfold layout_put. destruct declared as [g|].
  - destruct (negb (beq g stream)); [intro H; now injection H as _ <-|].
    destruct ((0 <? dsize) && negb (zlen stream =? dsize)); [intro H; now injection H as _ <-|].
    intro H; injection H as <- _. intro Hn. exfalso. eapply Hn; reflexivity.
  - destruct ((0 <? dsize) && negb (zlen stream =? dsize)); [intro H; now injection H as _ <-|].
    intro H; injection H as <- _. intro Hn. exfalso. eapply Hn; reflexivity.
Qed.
Lemma layout_put_mismatch g dsize stream store :
  (g <> stream \/ (0 < dsize /\ dsize <> zlen stream)) ->
  forall d n, fst (layout_put (Some g) dsize stream store) <> LOk d n.
Proof.
  intros Hm d n H. destruct (layout_put (Some g) dsize stream store) as [r st] eqn:E. cbn in H. subst r.
  destruct (layout_put_exact _ _ _ _ _ _ _ E) as (_ & _ & _ & Hd & Hs).
  destruct Hm as [Hg|[Hz Hl]]; [specialize (Hd ltac:(discriminate)); congruence|auto].
Qed.
Lemma layout_put_succeeds declared dsize stream store :
  (declared = None \/ declared = Some stream) -> (dsize <= 0 \/ dsize = zlen stream) ->
  layout_put declared dsize stream store = (LOk stream (zlen stream), (stream, stream) :: store).
Proof.
  intros Hd Hs. unfold layout_put.
  assert (E : (0 <? dsize) && negb (zlen stream =? dsize) = false).
  { destruct Hs as [Hs|Hs]; [replace (0 <? dsize) with false by (symmetry; apply Z.ltb_ge; lia); reflexivity|].
    rewrite Hs, Z.eqb_refl. apply andb_false_r. }
  destruct Hd as [->| ->]; [now rewrite E|]. now rewrite beq_refl, E.
Qed.
