(* Proofs/C05.v — what a successful chunked upload has committed *)
From Coq Require Import List ZArith NArith Bool Arith Lia.
From Verif Require Import Model.C05_Upload.
Import ListNotations.
Open Scope Z_scope.

Lemma beq_eq : forall a b, beq a b = true -> a = b.
Proof.
  induction a as [|x a IH]; destruct b as [|y b]; cbn; try discriminate; [reflexivity|].
  intro H. apply andb_prop in H as [H1 H2]. apply N.eqb_eq in H1. subst. f_equal. now apply IH.
Qed.
Lemma beq_refl a : beq a a = true.
Proof. induction a as [|x a IH]; cbn; [reflexivity|]. now rewrite N.eqb_refl, IH. Qed.

Section Inv.
  Variable stream : bytes.

  (* what has been read plus what is left is the caller's stream; once the final (short) read happened
     nothing is left; the buffer always ends where reading stopped; after the first PATCH the client's idea of
     the next offset is what the registry holds *)
  Definition Inv (c : cst) : Prop :=
    digested c ++ rest c = stream /\
    (final c = true -> rest c = []) /\
    bufStart c + zlen (buf c) = zlen (digested c) /\
    (0 < bcap c)%nat /\ (length (buf c) <= bcap c)%nat /\
    chunkSize c = zlen (buf c) /\
    (log c = [] \/ chunkStart c = zlen (sdata c)) /\
    (log c = [] -> chunkStart c = 0).

  Lemma zlen_app a b : zlen (a ++ b) = zlen a + zlen b.
  Proof. unfold zlen. rewrite app_length. lia. Qed.

  Lemma read_full_inv c : Inv c -> Inv (read_full c).
  Proof.
    intros (H1 & H2 & H3 & H4 & H5 & H5b & H6 & H7). unfold read_full, Inv; cbn [digested rest final bufStart buf bcap log chunkStart chunkSize sdata].
    set (n := Nat.min (bcap c) (length (rest c))).
    assert (Hfl : length (firstn n (rest c)) = n) by (rewrite firstn_length; subst n; lia).
    split; [rewrite <- app_assoc, firstn_skipn; exact H1|].
    split.
    { destruct (Nat.ltb_spec n (bcap c)) as [Hl|Hl].
      - intros _. assert (Hn : n = length (rest c)) by (subst n; lia). rewrite Hn. apply skipn_all.
      - intro Hf. rewrite (H2 Hf). now destruct n. }
    split; [rewrite zlen_app, <- H3; reflexivity|].
    split; [exact H4|]. split; [rewrite Hfl; subst n; lia|].
    split; [unfold zlen; now rewrite Hfl|]. split; [exact H6|exact H7].
  Qed.

  Lemma read_ahead_inv : forall fuel c, Inv c -> Inv (read_ahead fuel c).
  Proof.
    induction fuel as [|f IH]; intros c H; cbn [read_ahead]; [exact H|].
    destruct ((chunkStart c >=? bufStart c + zlen (buf c)) && negb (final c)); [apply IH; now apply read_full_inv|exact H].
  Qed.

  Lemma reslice_inv c : Inv c -> Inv (reslice c).
  Proof.
    intros (H1 & H2 & H3 & H4 & H5 & H5b & H6 & H7). unfold reslice.
    destruct ((chunkStart c >? bufStart c) && (chunkStart c <? bufStart c + zlen (buf c))) eqn:E; [|repeat split; auto].
    apply andb_prop in E as [E1 E2]. apply Z.gtb_lt in E1. apply Z.ltb_lt in E2.
    unfold Inv; cbn [digested rest final bufStart buf bcap log chunkStart chunkSize sdata].
    set (k := Z.to_nat (chunkStart c - bufStart c)).
    assert (Hk : (k < length (buf c))%nat) by (unfold zlen in E2; subst k; lia).
    split; [exact H1|]. split; [exact H2|].
    split; [unfold zlen; rewrite skipn_length; unfold zlen in H3; subst k; lia|].
    split; [lia|]. split; [rewrite skipn_length; lia|]. split; [reflexivity|]. split; [exact H6|].
    intro Hl. specialize (H7 Hl). lia.
  Qed.

  Lemma patch_inv c c' o : Inv c -> patch c = (c', o) -> Inv c' /\ log c' <> [].
  Proof.
    intros (H1 & H2 & H3 & H4 & H5 & H5b & H6 & H7). unfold patch.
    destruct (negb (chunkStart c =? zlen (sdata c))) eqn:Eo.
    - intro H; injection H as <- _. split; [|discriminate]. unfold Inv; cbn. repeat split; auto. intro; discriminate.
    - apply negb_false_iff in Eo. apply Z.eqb_eq in Eo.
      destruct (script c) as [|[| |k|] s'].
      + intro H; injection H as <- _. split; [|discriminate]. unfold Inv; cbn. repeat split; auto. intro; discriminate.
      + intro H; injection H as <- _. split; [|discriminate]. unfold Inv; cbn. repeat split; auto. intro; discriminate.
      + intro H; injection H as <- _. split; [|discriminate]. unfold Inv; cbn. repeat split; auto; [|intro; discriminate].
        right. rewrite zlen_app, <- Eo, H5b. reflexivity.
      + destruct (firstn k (buf c)); intro H; injection H as <- _; (split; [|discriminate]); unfold Inv; cbn; repeat split; auto; intro; discriminate.
      + intro H; injection H as <- _. split; [|discriminate]. unfold Inv; cbn. repeat split; auto. intro; discriminate.
  Qed.

  Lemma iterate_inv c c' o : Inv c -> iterate c = (c', o) -> Inv c'.
  Proof.
    intros HI. unfold iterate.
    set (c1 := reslice (read_ahead (S (length (rest c))) c)).
    assert (H1 : Inv c1) by (apply reslice_inv, read_ahead_inv, HI).
    destruct ((chunkSize c1 >? 0) && negb (chunkStart c1 =? bufStart c1)); [intro H; now injection H as <- _|].
    destruct (chunkSize c1 >? 0); [intro H; now destruct (patch_inv _ _ _ H1 H)|intro H; now injection H as <- _].
  Qed.

  Lemma iterate_not_done c c' o : iterate c = (c', o) -> o <> Done.
  Proof.
    unfold iterate. set (c1 := reslice _).
    destruct ((chunkSize c1 >? 0) && negb (chunkStart c1 =? bufStart c1)); [intro H; injection H as _ <-; discriminate|].
    destruct (chunkSize c1 >? 0); [|intro H; injection H as _ <-; discriminate].
    unfold patch. destruct (negb (chunkStart c1 =? zlen (sdata c1))).
    - intro H; injection H as _ <-. destruct (Nat.ltb _ _); discriminate.
    - destruct (script c1) as [|[| |k|] s']; try (intro H; injection H as _ <-; discriminate).
      destruct (firstn k (buf c1)); intro H; injection H as _ <-; [discriminate|destruct (Nat.ltb _ _); discriminate].
  Qed.

  Lemma loop_inv : forall fuel c c' o, Inv c -> loop fuel c = (c', o) -> Inv c' /\ (o = Done -> continue c' = false).
  Proof.
    induction fuel as [|f IH]; intros c c' o HI; cbn [loop]; [intro H; injection H as <- <-; split; [exact HI|discriminate]|].
    destruct (continue c) eqn:Ec; [|intro H; injection H as <- <-; split; [exact HI|intros _; exact Ec]].
    destruct (iterate c) as [c1 o1] eqn:Ei. pose proof (iterate_inv _ _ _ HI Ei) as H1.
    pose proof (iterate_not_done _ _ _ Ei) as Hnd.
    destruct o1; try (intro H; injection H as <- <-; split; [exact H1|discriminate]); [|congruence].
    intro H. eapply IH; [exact H1|exact H].
  Qed.

  Lemma init_inv cap held sc : (0 < cap)%nat -> Inv (init stream cap held sc).
  Proof. intro Hc. unfold Inv, init; cbn. repeat split; auto; try lia. Qed.
End Inv.

(* success commits exactly the caller's stream; the size the client reports is its length *)
Lemma upload_commit_exact fuel stream cap held sc declared dsize b lg : (0 < cap)%nat ->
  upload fuel stream cap held sc declared dsize = (Done, Some b, lg) ->
  b = stream /\ (declared <> None -> declared = Some stream) /\ (dsize <> 0 -> dsize = zlen stream).
Proof.
  intros Hc. unfold upload. destruct (loop fuel (init stream cap held sc)) as [c o] eqn:El.
  destruct (loop_inv stream _ _ _ _ (init_inv stream cap held sc Hc) El) as [(H1 & H2 & H3 & H4 & H5 & H5b & H6 & H7) Hd].
  destruct o; try discriminate.
  specialize (Hd eq_refl). unfold continue in Hd. apply orb_false_iff in Hd as [Hf Hcs].
  apply negb_false_iff in Hf. apply Z.ltb_ge in Hcs.
  assert (Hdig : digested c = stream) by (rewrite <- H1, (H2 Hf); symmetry; apply app_nil_r).
  destruct (finish declared dsize c) eqn:Ef; try discriminate.
  destruct (beq (sdata c) (digested c)) eqn:Eb; [|discriminate].
  apply beq_eq in Eb. intro H; injection H as <- _.
  split; [congruence|].
  unfold finish in Ef.
  assert (Hsz : (negb (dsize =? 0) && negb (chunkStart c =? dsize)) = false).
  { destruct declared as [g|]; [destruct (negb (beq g (digested c))); [discriminate|]|];
    destruct (negb (dsize =? 0) && negb (chunkStart c =? dsize)); [discriminate|reflexivity|discriminate|reflexivity]. }
  split.
  - intros Hn. destruct declared as [g|]; [|congruence]. destruct (beq g (digested c)) eqn:Eg; cbn in Ef; [|discriminate].
    apply beq_eq in Eg. congruence.
  - intro Hz. apply andb_false_iff in Hsz as [Hs|Hs]; [apply negb_false_iff, Z.eqb_eq in Hs; congruence|].
    apply negb_false_iff, Z.eqb_eq in Hs. rewrite <- Hs.
    destruct H6 as [Hl|Hcs2].
    + (* no PATCH was sent: nothing was read beyond an empty stream *)
      rewrite (H7 Hl) in *. rewrite H3, Hdig in Hcs. unfold zlen in *. lia.
    + rewrite Hcs2, Eb, Hdig. reflexivity.
Qed.
