(* Proofs/C18.v — filterList is the allow/deny filter; the postcondition of a repository sync *)
From Coq Require Import List Arith Bool Lia.
From Verif Require Import Model.C18_Sync.
Import ListNotations.

Section P.
  Variable matches : nat -> nat -> bool.
  Notation filter_list := (filter_list matches).
  Notation selected := (selected matches).

  Definition mark (p : nat -> bool) (x : nat) : option nat := if p x then Some x else None.

  Lemma combine_map {A B} (h : A -> B) l : combine l (map h l) = map (fun x => (x, h x)) l.
  Proof. induction l as [|x l IH]; cbn; [reflexivity|now rewrite IH]. Qed.

  Lemma allow_fold : forall fs (p : nat -> bool) l,
    fold_left (fun r f => map (fun q : nat * option nat => match snd q with Some x => Some x | None => if matches f (fst q) then Some (fst q) else None end) (combine l r)) fs (map (mark p) l)
    = map (mark (fun x => p x || existsb (fun f => matches f x) fs)) l.
  Proof.
    induction fs as [|f fs IH]; intros p l; cbn [fold_left existsb].
    - apply map_ext. intro x. unfold mark. now rewrite orb_false_r.
    - rewrite combine_map, map_map. cbn [fst snd].
      rewrite (map_ext _ (mark (fun x => p x || matches f x))).
      + rewrite IH. apply map_ext. intro x. unfold mark. now rewrite orb_assoc.
      + intro x. unfold mark. destruct (p x); cbn; [reflexivity|]. destruct (matches f x); reflexivity.
  Qed.
  Lemma deny_fold : forall fs (p : nat -> bool) l,
    fold_left (fun r f => map (fun o => match o with Some x => if matches f x then None else Some x | None => None end) r) fs (map (mark p) l)
    = map (mark (fun x => p x && negb (existsb (fun f => matches f x) fs))) l.
  Proof.
    induction fs as [|f fs IH]; intros p l; cbn [fold_left existsb].
    - apply map_ext. intro x. unfold mark. now rewrite andb_true_r.
    - rewrite map_map. rewrite (map_ext _ (mark (fun x => p x && negb (matches f x)))).
      + rewrite IH. apply map_ext. intro x. unfold mark. now rewrite negb_orb, andb_assoc.
      + intro x. unfold mark. destruct (p x); cbn; [|reflexivity]. destruct (matches f x); reflexivity.
  Qed.
  Lemma compress p l : flat_map (fun o : option nat => match o with Some x => [x] | None => [] end) (map (mark p) l) = filter p l.
  Proof. induction l as [|x l IH]; cbn; [reflexivity|]. unfold mark at 1. destruct (p x); cbn; now rewrite IH. Qed.

  Theorem filter_list_spec ad l : filter_list ad l = filter (selected ad) l.
  Proof.
    unfold C18_Sync.filter_list, C18_Sync.selected. destruct (allow ad) as [|f fs] eqn:Ea.
    - change (map Some l) with (map (mark (fun _ => true)) l). rewrite deny_fold, compress. reflexivity.
    - change (map (fun _ : nat => None) l) with (map (mark (fun _ => false)) l).
      rewrite (allow_fold (f :: fs) (fun _ => false) l), deny_fold, compress. reflexivity.
  Qed.

  (* ---------- the repository loop ---------- *)
  Notation process_ref := (process_ref).
  Lemma upd_same m k v : upd m k v k = Some v. Proof. unfold upd. now rewrite Nat.eqb_refl. Qed.
  Lemma upd_other m k v x : x <> k -> upd m k v x = m x. Proof. unfold upd. intro H. destruct (Nat.eqb_spec x k); [contradiction|reflexivity]. Qed.

  (* what one tag does to the target: only its own name and its backup name can change *)
  Lemma process_ref_frame act backup tgt t x : x <> t_tag t -> (forall b, backup = Some b -> x <> b (t_tag t)) -> process_ref act backup tgt t x = tgt x.
  Proof.
    intros Hx Hb. unfold C18_Sync.process_ref.
    destruct (match tgt (t_tag t) with Some d => Nat.eqb d (t_digest t) | None => false end); [reflexivity|].
    destruct (match act, tgt (t_tag t) with AMissing, Some _ => true | _, _ => false end); [reflexivity|].
    destruct (negb (t_media_ok t)); [reflexivity|].
    destruct (match tgt (t_tag t), t_platform t with Some d, Some p => Nat.eqb d p | _, _ => false end); [reflexivity|].
    destruct act; try reflexivity; rewrite upd_other by exact Hx; destruct (tgt (t_tag t)), backup; try reflexivity; apply upd_other; now apply Hb.
  Qed.
  Lemma process_ref_check backup tgt t : process_ref ACheck backup tgt t = tgt.
  Proof.
    unfold C18_Sync.process_ref.
    destruct (match tgt (t_tag t) with Some d => Nat.eqb d (t_digest t) | None => false end); [reflexivity|].
    cbn. destruct (negb (t_media_ok t)); [reflexivity|].
    destruct (match tgt (t_tag t), t_platform t with Some d, Some p => Nat.eqb d p | _, _ => false end); reflexivity.
  Qed.
  (* a sync of one tag whose media type is accepted: afterwards the tag names the source's digest or the platform's *)
  Lemma process_ref_result backup tgt t : t_media_ok t = true ->
    let tgt' := process_ref ASync backup tgt t in
    (tgt' (t_tag t) = Some (want t) \/ (tgt' (t_tag t) = Some (t_digest t) /\ tgt (t_tag t) = Some (t_digest t))) /\
    (forall old b, tgt (t_tag t) = Some old -> old <> t_digest t -> old <> want t -> backup = Some b -> b (t_tag t) <> t_tag t -> tgt' (b (t_tag t)) = Some old).
  Proof.
    intro Hm. unfold C18_Sync.process_ref. rewrite Hm. cbn [negb].
    destruct (tgt (t_tag t)) as [cur|] eqn:Ec.
    - destruct (Nat.eqb_spec cur (t_digest t)) as [->|Hne]; [split; [right; auto|intros old b E H1; inversion E; congruence]|].
      destruct (t_platform t) as [p|] eqn:Ep.
      + destruct (Nat.eqb_spec cur p) as [->|Hnp].
        * split; [left; unfold want; now rewrite Ep|]. intros old b E H1 H2. inversion E; subst. unfold want in H2. rewrite Ep in H2. congruence.
        * split; [left; apply upd_same|]. intros old b E H1 H2 Hb Hbt. inversion E; subst. rewrite upd_other by exact Hbt. apply upd_same.
      + split; [left; apply upd_same|]. intros old b E H1 H2 Hb Hbt. inversion E; subst. rewrite upd_other by exact Hbt. apply upd_same.
    - split; [left; destruct (t_platform t); apply upd_same|]. intros old b E. discriminate.
  Qed.

  Lemma fold_frame act backup : forall ts tgt x, (forall t, In t ts -> x <> t_tag t) -> (forall t b, In t ts -> backup = Some b -> x <> b (t_tag t)) ->
    fold_left (process_ref act backup) ts tgt x = tgt x.
  Proof.
    induction ts as [|t ts IH]; intros tgt x H1 H2; cbn [fold_left]; [reflexivity|].
    rewrite IH; [|intros t' Ht; apply H1; now right|intros t' b Ht; apply H2; now right].
    apply process_ref_frame; [apply H1; now left|intros b Hb; eapply H2; eauto; now left].
  Qed.
  Lemma fold_check backup : forall ts tgt, fold_left (process_ref ACheck backup) ts tgt = tgt.
  Proof. induction ts as [|t ts IH]; intro tgt; cbn [fold_left]; [reflexivity|]. now rewrite process_ref_check. Qed.

  Lemma process_ref_local act backup tgtA tgtB t x : tgtA (t_tag t) = tgtB (t_tag t) -> tgtA x = tgtB x ->
    process_ref act backup tgtA t x = process_ref act backup tgtB t x.
  Proof.
    intros Ht Hx. unfold C18_Sync.process_ref. rewrite <- Ht.
    destruct (match tgtA (t_tag t) with Some d => Nat.eqb d (t_digest t) | None => false end); [exact Hx|].
    destruct (match act, tgtA (t_tag t) with AMissing, Some _ => true | _, _ => false end); [exact Hx|].
    destruct (negb (t_media_ok t)); [exact Hx|].
    destruct (match tgtA (t_tag t), t_platform t with Some d, Some p => Nat.eqb d p | _, _ => false end); [exact Hx|].
    destruct act; [|exact Hx|]; unfold upd; destruct (Nat.eqb x (t_tag t)); try reflexivity;
      destruct (tgtA (t_tag t)) as [cur|], backup as [bf|]; try exact Hx; destruct (Nat.eqb x (bf (t_tag t))); auto.
  Qed.

  (* in the loop, a key that only one tag can touch ends with what that tag's step makes of the initial state *)
  Lemma fold_single act backup : forall ts tgt t x, In t ts -> NoDup ts ->
    (forall t', In t' ts -> t' <> t -> (x <> t_tag t' /\ t_tag t <> t_tag t') /\ (forall b, backup = Some b -> x <> b (t_tag t') /\ t_tag t <> b (t_tag t'))) ->
    fold_left (process_ref act backup) ts tgt x = process_ref act backup tgt t x.
  Proof.
    induction ts as [|h ts IH]; intros tgt t x Hin Hnd Hoth; [destruct Hin|]. cbn [fold_left].
    inversion Hnd as [|? ? Hh Hnd']; subst. destruct Hin as [->|Hin].
    - apply fold_frame.
      + intros t' Ht'. apply Hoth; [now right|intros ->; contradiction].
      + intros t' b Ht' Hb. eapply Hoth; eauto; [now right|intros ->; contradiction].
    - assert (Hne : h <> t) by (intros ->; contradiction).
      rewrite (IH _ t x Hin Hnd'); [|intros t' Ht' Hn; apply Hoth; [now right|exact Hn]].
      destruct (Hoth h (or_introl eq_refl) Hne) as [[H1 H2] H3].
      apply process_ref_local; apply process_ref_frame; auto; intros b Hb; apply (H3 b Hb).
  Qed.

  (* the tags the loop visits *)
  Definition visited (ad : allowdeny) (src : list src_tag) : list src_tag :=
    filter (fun t => memb (t_tag t) (filter_list ad (map t_tag src))) src.
  Lemma memb_In x l : memb x l = true <-> In x l.
  Proof. unfold memb. rewrite existsb_exists. split; [intros (y & Hy & E); apply Nat.eqb_eq in E; now subst|intro H; exists x; split; [exact H|apply Nat.eqb_refl]]. Qed.
  Lemma visited_spec ad src t : In t (visited ad src) <-> In t src /\ selected ad (t_tag t) = true.
  Proof.
    unfold visited. rewrite filter_In, memb_In, filter_list_spec, filter_In. split; [tauto|]. intros [H1 H2]. repeat split; auto. now apply in_map.
  Qed.
  Lemma nodup_map_inj {A B} (f : A -> B) l : NoDup (map f l) -> NoDup l.
  Proof. induction l as [|x l IH]; cbn; intro H; [constructor|]. inversion H; subst. constructor; [intro Hi; apply H2; now apply in_map|now apply IH]. Qed.
  Lemma filter_nodup' {A} (f : A -> bool) l : NoDup l -> NoDup (filter f l).
  Proof. induction 1 as [|x l Hx Hn IH]; cbn; [constructor|]. destruct (f x); [constructor; [rewrite filter_In; tauto|exact IH]|exact IH]. Qed.
  Lemma nodup_tags src t1 t2 : NoDup (map t_tag src) -> In t1 src -> In t2 src -> t1 <> t2 -> t_tag t1 <> t_tag t2.
  Proof.
    induction src as [|x src IH]; cbn; intros Hn H1 H2 Hne; [destruct H1|]. inversion Hn as [|? ? Hx Hn']; subst.
    destruct H1 as [->|H1], H2 as [->|H2]; try congruence.
    - intro E. apply Hx. rewrite E. now apply in_map.
    - intro E. apply Hx. rewrite <- E. now apply in_map.
    - now apply IH.
  Qed.
End P.
