(* Proofs/C12b.v — spacing of the requests sent to a host that is backing off *)
From Coq Require Import List ZArith Bool Arith Lia.
From Verif Require Import Model.C12_Backoff.
Import ListNotations.
Local Open Scope Z_scope.

Section Backoff.
  Variables dinit dmax : Z.
  Variable limit : nat.

  (* r = the time the previous request to this host was sent *)
  Definition Binv (s : bst) (r : Z) : Prop :=
    ((0 < bcur s)%nat -> blast s <> None) /\ (forall l, blast s = Some l -> r <= l).

  (* every clock reading is taken after the previous request was sent (one request at a time per host) *)
  Fixpoint clocked (s : bst) (r : Z) (es : list bev) : Prop :=
    match es with
    | [] => True
    | EGet now :: rest => r <= now /\ clocked (fst (bget dinit dmax now s)) (snd (bget dinit dmax now s)) rest
    | EFail now ra :: rest => r <= now /\ clocked (fst (bset limit now ra s)) r rest
    | EOk :: rest => clocked (bok limit s) r rest
    end.

  (* what the property asks: a request to a host that is backing off is sent no earlier than the previous one plus
     the configured delay for the current count, and never before the clock reading at which it was released *)
  Fixpoint spaced (s : bst) (r : Z) (es : list bev) : Prop :=
    match es with
    | [] => True
    | EGet now :: rest =>
        let t := snd (bget dinit dmax now s) in
        ((0 < bcur s)%nat -> r + delay dinit dmax (bcur s) <= t) /\ now <= t /\ spaced (fst (bget dinit dmax now s)) t rest
    | EFail now ra :: rest => spaced (fst (bset limit now ra s)) r rest
    | EOk :: rest => spaced (bok limit s) r rest
    end.

  Lemma bget_inv s r now : Binv s r -> r <= now ->
    let t := snd (bget dinit dmax now s) in
    Binv (fst (bget dinit dmax now s)) t /\ now <= t /\ ((0 < bcur s)%nat -> r + delay dinit dmax (bcur s) <= t).
  Proof.
    intros [H1 H2] Hr. unfold bget. destruct (bcur s) as [|c] eqn:Ec.
    - destruct (blast s) as [l|] eqn:El.
      + destruct (Z.ltb_spec l now) as [Hs|Hs]; cbn [fst snd bcur blast]; unfold Binv; cbn [bcur blast].
        * split; [split; [intro Hx; exfalso; lia|intros ? H; discriminate H]|]. split; [lia|intro Hx; exfalso; lia].
        * split; [split; [intro Hx; exfalso; lia|intros l' H; injection H as <-; lia]|]. split; [lia|intro Hx; exfalso; lia].
      + cbn [fst snd bcur blast]; unfold Binv; cbn [bcur blast]. split; [split; [intro Hx; exfalso; lia|intros ? H; discriminate H]|]. split; [lia|intro Hx; exfalso; lia].
    - cbn [fst snd bcur blast]; unfold Binv; cbn [bcur blast]. destruct (blast s) as [l|] eqn:El; [|exfalso; apply H1; [lia|reflexivity]].
      specialize (H2 l eq_refl). split; [split; [intros _; discriminate|intros l' H; injection H as <-; lia]|]. split; [lia|intros _; lia].
  Qed.

  Lemma bset_inv s r now ra : Binv s r -> r <= now -> Binv (fst (bset limit now ra s)) r.
  Proof.
    intros [H1 H2] Hr. unfold bset. destruct (Z.ltb_spec 0 ra) as [Hra|Hra]; cbn [fst bcur blast].
    - split; [intros _; discriminate|]. intros l' H. destruct (blast s) as [l|] eqn:El.
      + specialize (H2 l eq_refl). destruct (Z.ltb_spec l (now + ra)); injection H as <-; lia.
      + injection H as <-. lia.
    - split; [intros _; destruct (blast s); discriminate|]. intros l' H. destruct (blast s) as [l|] eqn:El; [apply H2; exact H|injection H as <-; lia].
  Qed.

  Lemma bok_inv s r : Binv s r -> Binv (bok limit s) r.
  Proof.
    intros [H1 H2]. unfold bok. destruct (bcur s) as [|c] eqn:Ec; [split; [rewrite Ec; intro Hx; exfalso; lia|exact H2]|].
    unfold Binv. destruct ((reset_count <? S (breset s))%nat || (limit <? S c)%nat); cbn [bcur blast].
    - split; [intro Hc; destruct c; [exfalso; lia|apply H1; lia]|]. intros l H. destruct c; [discriminate|now apply H2].
    - split; [intros _; apply H1; lia|exact H2].
  Qed.

  Theorem spacing : forall es s r, Binv s r -> clocked s r es -> spaced s r es.
  Proof.
    induction es as [|e es IH]; intros s r HI Hc; [exact I|]. destruct e as [now|now ra|]; cbn [clocked spaced] in *.
    - destruct Hc as [Hr Hc]. destruct (bget_inv s r now HI Hr) as (HI' & Hn & Hd). split; [exact Hd|]. split; [exact Hn|]. now apply IH.
    - destruct Hc as [Hr Hc]. apply IH; [now apply bset_inv|exact Hc].
    - apply IH; [now apply bok_inv|exact Hc].
  Qed.

  Lemma b0_inv r : Binv b0 r.
  Proof. split; [cbn; lia|intros l H; discriminate H]. Qed.

  (* the server-requested delay: after a failure that carried Retry-After, the next request is sent no earlier than
     the clock reading of the failure plus that delay *)
  Lemma delay_nonneg c : 0 <= dinit -> 0 <= dmax -> 0 <= delay dinit dmax c.
  Proof. intros H1 H2. unfold delay. assert (0 <= 2 ^ Z.of_nat c) by (apply Z.pow_nonneg; lia). apply Z.min_glb; [nia|lia]. Qed.

  Theorem retry_after_respected s r now ra now2 : 0 <= dinit -> 0 <= dmax -> Binv s r -> r <= now -> 0 < ra -> now <= now2 ->
    now + ra <= snd (bget dinit dmax now2 (fst (bset limit now ra s))).
  Proof.
    intros Hdi Hdm [H1 H2] Hr Hra Hn. unfold bset. destruct (Z.ltb_spec 0 ra); [|lia]. cbn [fst].
    set (l' := match blast s with Some l => if l <? now + ra then now + ra else l | None => now + ra end).
    assert (Hl : now + ra <= l') by (subst l'; destruct (blast s) as [l|]; [destruct (Z.ltb_spec l (now + ra)); lia|lia]).
    unfold bget. cbn [bcur blast]. destruct (bcur s) as [|c].
    - destruct (Z.ltb_spec l' now2); cbn [snd]; lia.
    - cbn [snd]. pose proof (delay_nonneg (S c) Hdi Hdm). lia.
  Qed.
End Backoff.

(* ---------- hosts that are backing off are offered after the others ---------- *)
Section Order.
  Variable now : Z.
  Definition split_ok (l : list bhost) : Prop :=
    exists a b, l = a ++ b /\ Forall (fun h => waiting now h = false) a /\ Forall (fun h => waiting now h = true) b.

  Lemma insert_in_ready h a b : waiting now h = false -> Forall (fun x => waiting now x = true) b ->
    exists a', insert_bhost now h (a ++ b) = a' ++ b /\ (Forall (fun x => waiting now x = false) a -> Forall (fun x => waiting now x = false) a').
  Proof.
    intros Hh Hb. induction a as [|x a IH]; cbn [app insert_bhost].
    - destruct b as [|y b]; [exists [h]; split; [reflexivity|intros _; repeat constructor; exact Hh]|].
      inversion Hb as [|? ? Hy Hb']; subst. cbn [insert_bhost]. unfold bhost_le. rewrite Hh, Hy. cbn [orb].
      unfold waiting in Hh, Hy. apply Z.ltb_ge in Hh. apply Z.ltb_lt in Hy.
      replace (bh_last h <=? bh_last y) with true by (symmetry; apply Z.leb_le; lia).
      exists [h]. split; [reflexivity|intros _; repeat constructor; now apply Z.ltb_ge].
    - destruct (bhost_le now h x).
      + exists (h :: x :: a). split; [reflexivity|]. intro Ha. constructor; [exact Hh|exact Ha].
      + destruct IH as (a' & E & Hf). exists (x :: a'). split; [cbn; now rewrite E|].
        intro Ha. inversion Ha; subst. constructor; [assumption|now apply Hf].
  Qed.

  Lemma insert_in_waiting h a b : waiting now h = true -> Forall (fun x => waiting now x = false) a ->
    exists b', insert_bhost now h (a ++ b) = a ++ b' /\ (Forall (fun x => waiting now x = true) b -> Forall (fun x => waiting now x = true) b').
  Proof.
    intros Hh Ha. induction a as [|x a IH]; cbn [app insert_bhost].
    - exists (insert_bhost now h b). split; [reflexivity|]. intro Hb. induction b as [|y b IHb]; cbn [insert_bhost]; [repeat constructor; exact Hh|].
      inversion Hb; subst. destruct (bhost_le now h y); constructor; auto.
    - inversion Ha as [|? ? Hx Ha']; subst. unfold bhost_le at 1. rewrite Hh. cbn [orb].
      unfold waiting in Hh, Hx. apply Z.ltb_lt in Hh. apply Z.ltb_ge in Hx.
      replace (bh_last h <=? bh_last x) with false by (symmetry; apply Z.leb_gt; lia).
      destruct (IH Ha') as (b' & E & Hf). exists b'. split; [now rewrite E|exact Hf].
  Qed.

  Theorem waiting_hosts_last : forall l, split_ok (sort_bhosts now l).
  Proof.
    induction l as [|h l IH]; cbn [sort_bhosts fold_right]; [exists [], []; repeat split; constructor|].
    fold (sort_bhosts now l). destruct IH as (a & b & -> & Ha & Hb).
    destruct (waiting now h) eqn:Hh.
    - destruct (insert_in_waiting h a b Hh Ha) as (b' & -> & Hf). exists a, b'. auto.
    - destruct (insert_in_ready h a b Hh Hb) as (a' & -> & Hf). exists a', b. auto.
  Qed.
End Order.
