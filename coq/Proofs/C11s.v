(* Proofs/C11s.v — nothing leaves for the registry's own host in clear text when the host is configured for TLS *)
From Coq Require Import Bool.
From Verif Require Import Model.C11_Creds Model.C11_Scheme.

Theorem own_host_never_cleartext t given :
  t <> TLSDisabled -> (given = None \/ exists h, given = Some (h, true)) -> sent_https t given = true.
Proof.
  intros Ht [-> | [h ->]]; cbn.
  - destruct t; [reflexivity|reflexivity|congruence].
  - destruct t; [| |congruence]; destruct h; reflexivity.
Qed.

Theorem enabled_only_refuted : exists t given, t <> TLSDisabled /\ (exists h, given = Some (h, true)) /\ sent_https_enabled_only t given = false.
Proof. exists TLSInsecure, (Some (true, true)). split; [discriminate|]. split; [now exists true|reflexivity]. Qed.
