(* Proofs/C12.v — bounded attempts, termination, mirrors, transient faults *)
From Coq Require Import List Arith ZArith Bool Lia Sorted Permutation.
From Verif Require Import Gen.StatusClass Model.C12_Retry.
Import ListNotations.

Lemma remove_nth_incl {A} i (l : list A) x : In x (remove_nth i l) -> In x l.
Proof. revert i; induction l as [|y l IH]; intros [|i]; cbn; auto. intros [H|H]; auto. right. eapply IH; eauto. Qed.

Lemma advance_retry limit ignore s c h r : retry (advance limit ignore s c h r) = S (retry s).
Proof. unfold advance. destruct (classify r) as [[bo dr] rh]. cbv zeta. destruct (fst _); [reflexivity|]. destruct rh; reflexivity. Qed.
Lemma advance_hosts limit ignore s c h r x : In x (hosts (advance limit ignore s c h r)) -> In x (hosts s).
Proof.
  unfold advance. destruct (classify r) as [[bo dr] rh]. cbv zeta. destruct (fst _); cbn [hosts]; [apply remove_nth_incl|].
  destruct rh; cbn; auto.
Qed.

(* one logical request makes at most retryLimit+1 attempts, counting what it had already used *)
Lemma next_loop_bound : forall fuel limit ignore s replies,
  length (fst (next_loop fuel limit ignore s replies)) <= S limit - retry s.
Proof.
  induction fuel as [|fuel IH]; intros limit ignore s replies; cbn [next_loop]; [cbn; lia|].
  destruct (hosts s) as [|h0 hs] eqn:Eh; [cbn [fst length]; lia|].
  destruct (Nat.ltb_spec limit (retry s)); [cbn [fst length]; lia|].
  destruct (nth_error (h0 :: hs) _) as [h|]; [|cbn [fst length]; lia].
  destruct (match replies with [] => ROk | r :: _ => r end) eqn:Er; [cbn [fst length]; lia| |].
  all: cbn [fst length]; match goal with |- context [next_loop _ ?l ?ig ?s' ?rest] =>
         let Hx := fresh in pose proof (IH l ig s' rest) as Hx; rewrite advance_retry in Hx; lia end.
Qed.

(* the loop always terminates: retryLimit+2 iterations suffice whatever the replies *)
Lemma next_loop_fuel : forall fuel limit ignore s replies,
  S limit - retry s < fuel -> snd (next_loop fuel limit ignore s replies) <> OutOfFuel.
Proof.
  induction fuel as [|fuel IH]; intros limit ignore s replies Hf; [lia|]. cbn [next_loop].
  destruct (hosts s) as [|h0 hs] eqn:Eh; [discriminate|].
  destruct (Nat.ltb_spec limit (retry s)); [discriminate|].
  destruct (nth_error (h0 :: hs) _) as [h|]; [|discriminate].
  destruct (match replies with [] => ROk | r :: _ => r end) eqn:Er; [discriminate| |].
  all: cbn [snd]; apply IH; rewrite advance_retry; lia.
Qed.

(* every attempt goes to one of the hosts the request started with *)
Lemma next_loop_hosts : forall fuel limit ignore s replies a,
  In a (fst (next_loop fuel limit ignore s replies)) -> In a (map h_id (hosts s)).
Proof.
  induction fuel as [|fuel IH]; intros limit ignore s replies a; cbn [next_loop]; [intros []|].
  destruct (hosts s) as [|h0 hs] eqn:Eh; [intros []|].
  destruct (Nat.ltb_spec limit (retry s)); [intros []|].
  destruct (nth_error (h0 :: hs) _) as [h|] eqn:En; [|intros []].
  assert (Hh : In (h_id h) (map h_id (h0 :: hs))) by (apply in_map; eapply nth_error_In; exact En).
  destruct (match replies with [] => ROk | r :: _ => r end) eqn:Er; cbn [fst]; [intros [<-|[]]; exact Hh| |].
  all: intros [<-|Hi]; [exact Hh|]; apply IH in Hi; apply in_map_iff in Hi as (x & <- & Hx);
       apply advance_hosts in Hx; rewrite Eh in Hx; now apply in_map.
Qed.

(* ---------- ordering of hosts ---------- *)
Lemma insert_host_perm h l : Permutation (h :: l) (insert_host h l).
Proof. induction l as [|x l IH]; cbn; [reflexivity|]. destruct (host_le h x); [reflexivity|]. rewrite perm_swap. now constructor. Qed.
Lemma sort_hosts_perm l : Permutation l (sort_hosts l).
Proof. unfold sort_hosts. induction l as [|x l IH]; cbn; [constructor|]. rewrite <- insert_host_perm. now constructor. Qed.

Lemma host_le_total a b : host_le a b = true \/ host_le b a = true.
Proof.
  unfold host_le. rewrite (Nat.eqb_sym (h_prio b)). destruct (Nat.eqb_spec (h_prio a) (h_prio b)).
  - destruct (h_upstream a), (h_upstream b); cbn; auto.
  - destruct (Nat.ltb_spec (h_prio a) (h_prio b)); [auto|]. right. apply Nat.ltb_lt. lia.
Qed.
Lemma host_le_trans a b c : host_le a b = true -> host_le b c = true -> host_le a c = true.
Proof.
  unfold host_le.
  destruct (Nat.eqb_spec (h_prio a) (h_prio b)) as [E1|E1], (Nat.eqb_spec (h_prio b) (h_prio c)) as [E2|E2], (Nat.eqb_spec (h_prio a) (h_prio c)) as [E3|E3];
    intros H1 H2; try (apply Nat.ltb_lt in H1); try (apply Nat.ltb_lt in H2); try lia; try (apply Nat.ltb_lt; lia).
  destruct (h_upstream a), (h_upstream b), (h_upstream c); cbn in *; congruence.
Qed.
Lemma insert_host_sorted h l : Sorted (fun a b => host_le a b = true) l -> Sorted (fun a b => host_le a b = true) (insert_host h l).
Proof.
  induction l as [|x l IH]; cbn; intro Hs; [repeat constructor|].
  destruct (host_le h x) eqn:E; [constructor; [exact Hs|constructor; exact E]|].
  inversion Hs as [|? ? Hs' Hhd]; subst. constructor; [now apply IH|].
  destruct l as [|y l]; cbn; [constructor; destruct (host_le_total h x); congruence|].
  destruct (host_le h y); constructor; [destruct (host_le_total h x); congruence|now inversion Hhd].
Qed.
Lemma sort_hosts_sorted l : Sorted (fun a b => host_le a b = true) (sort_hosts l).
Proof. unfold sort_hosts. induction l as [|x l IH]; cbn; [constructor|now apply insert_host_sorted]. Qed.

(* NoMirrors: the only host is the registry named in the reference *)
Lemma nomirrors_only_upstream limit ignore mirrors up replies a :
  In a (fst (do_request limit ignore true mirrors up replies)) -> a = h_id up.
Proof.
  unfold do_request. intro H. apply next_loop_hosts in H. cbn in H. destruct H as [H|[]]. now symmetry.
Qed.

(* ---------- transient faults fewer than the limit are absorbed ---------- *)
Definition transient (r : reply) : Prop := classify r = (true, false, false).

Lemma get_set_boff h v b : get_boff h (set_boff h v b) = v.
Proof. induction b as [|[k w] b IH]; cbn; [now rewrite Nat.eqb_refl|]. destruct (Nat.eqb_spec k h); cbn; [subst; now rewrite Nat.eqb_refl|]. destruct (Nat.eqb_spec k h); [congruence|exact IH]. Qed.

Lemma transient_absorbed_gen up : forall trs fuel limit c i b,
  Forall transient trs -> get_boff (h_id up) b + length trs < limit -> i + length trs <= limit -> length trs < fuel ->
  next_loop fuel limit false (mkSt [up] c i b) trs = (repeat (h_id up) (S (length trs)), Success (h_id up)).
Proof.
  induction trs as [|r trs IH]; intros fuel limit c i b Ht Hb Hi Hf; destruct fuel as [|fuel]; try (cbn in Hf; lia); cbn [next_loop hosts length retry cur].
  - destruct (Nat.ltb_spec limit i); [cbn in *; lia|].
    assert (Hc : (if 1 <=? c then 0 else c) = 0) by (destruct c; reflexivity). rewrite Hc. reflexivity.
  - destruct (Nat.ltb_spec limit i); [cbn in *; lia|].
    assert (Hc : (if 1 <=? c then 0 else c) = 0) by (destruct c; reflexivity). rewrite Hc. cbn [nth_error tl].
    inversion Ht as [|? ? Hr Hrest]; subst.
    destruct r as [| |code acc ra]; [unfold transient in Hr; cbn in Hr; discriminate| |].
    + unfold advance. rewrite Hr. cbv zeta. cbn [fst snd boff hosts retry].
      destruct (Nat.leb_spec limit (S (get_boff (h_id up) b))); [cbn in Hb; lia|]. cbn [fst snd].
      rewrite IH; [reflexivity|exact Hrest|rewrite get_set_boff; cbn in Hb; lia|cbn in Hi; lia|cbn in Hf; lia].
    + unfold advance. rewrite Hr. cbv zeta. cbn [fst snd boff hosts retry].
      destruct ra.
      * cbn [fst snd]. rewrite IH; [reflexivity|exact Hrest|cbn in Hb; lia|cbn in Hi; lia|cbn in Hf; lia].
      * destruct (Nat.leb_spec limit (S (get_boff (h_id up) b))); [cbn in Hb; lia|]. cbn [fst snd].
        rewrite IH; [reflexivity|exact Hrest|rewrite get_set_boff; cbn in Hb; lia|cbn in Hi; lia|cbn in Hf; lia].
Qed.
