(* Proofs/C18i.v — a run that finds every selected tag already in place writes nothing: no copy and no backup *)
From Coq Require Import List Arith Bool.
From Verif Require Import Model.C18_Sync.
Import ListNotations.

(* the target tag already names the source image, or the configured platform's image, or the media type is excluded *)
Definition in_place (tgt : tmap) (t : src_tag) : Prop :=
  tgt (t_tag t) = Some (t_digest t) \/ (exists p, t_platform t = Some p /\ tgt (t_tag t) = Some p) \/ t_media_ok t = false.

Lemma process_ref_idle act backup tgt t : in_place tgt t -> process_ref act backup tgt t = tgt.
Proof.
  intros H. unfold process_ref.
  destruct (tgt (t_tag t)) as [d|] eqn:Ec.
  - unfold in_place in H. rewrite Ec in H. destruct (Nat.eqb d (t_digest t)) eqn:E1; [reflexivity|].
    assert (Hrest : (if negb (t_media_ok t) then tgt
                     else if match t_platform t with Some p => Nat.eqb d p | None => false end then tgt
                     else match act with
                          | ACheck => tgt
                          | _ => upd match backup with Some b => upd tgt (b (t_tag t)) d | None => tgt end (t_tag t) (want t)
                          end) = tgt).
    { destruct (negb (t_media_ok t)) eqn:Em; [reflexivity|].
      destruct (t_platform t) as [p|] eqn:Ep.
      - destruct (Nat.eqb d p) eqn:E2; [reflexivity|]. exfalso.
        destruct H as [H|[(p' & Hp & H)|H]].
        + injection H as ->. now rewrite Nat.eqb_refl in E1.
        + injection Hp as <-. injection H as ->. now rewrite Nat.eqb_refl in E2.
        + rewrite H in Em. discriminate.
      - exfalso. destruct H as [H|[(p' & Hp & _)|H]]; [injection H as ->; now rewrite Nat.eqb_refl in E1|discriminate|rewrite H in Em; discriminate]. }
    destruct act; [exact Hrest|exact Hrest|reflexivity].
  - unfold in_place in H. rewrite Ec in H. assert (Hm : t_media_ok t = false).
    { destruct H as [H|[(p & _ & H)|H]]; [discriminate|discriminate|exact H]. }
    rewrite Hm. cbn. destruct act; reflexivity.
Qed.

Section Idle.
  Variable matches : nat -> nat -> bool.
  Theorem idle_run_writes_nothing act backup ad src tgt :
    (forall t, In t src -> in_place tgt t) -> sync_repo matches act backup ad src tgt = tgt.
  Proof.
    intros H. unfold sync_repo.
    assert (G : forall l, (forall t, In t l -> In t src) -> fold_left (process_ref act backup) l tgt = tgt).
    { induction l as [|t l IH]; intros Hl; [reflexivity|]. cbn [fold_left].
      rewrite process_ref_idle; [apply IH; intros x Hx; apply Hl; now right|apply H, Hl; now left]. }
    apply G. intros t Ht. apply filter_In in Ht. exact (proj1 Ht).
  Qed.
End Idle.
