(* Proofs/C02.v — the descriptor equation at fetch and after any program of edits *)
From Coq Require Import List Arith Bool.
From Verif Require Import Model.C02_Manifest.
Import ListNotations.

Section P.
  Variables bytes value : Type.
  Variable hash : nat -> bytes -> nat.
  Variable len : bytes -> nat.
  Variable marshal : value -> bytes.
  Variable parse : nat -> bytes -> option value.
  Variable body_mt : bytes -> nat.
  Variable detect : bytes -> nat.
  Notation man := (man bytes value).

  Definition Inv (m : man) : Prop :=
    dg _ _ m = hash (alg _ _ m) (raw _ _ m) /\ size _ _ m = len (raw _ _ m) /\ parse (mt _ _ m) (raw _ _ m) = Some (val _ _ m).

  Lemma new_spec e_desc e_ref e_hdr mt_desc mt_hdr r m :
    new bytes value hash len parse body_mt detect e_desc e_ref e_hdr mt_desc mt_hdr r = Some m ->
    Inv m /\ raw _ _ m = r /\
    (forall a d, first_expected e_desc e_ref e_hdr = Some (a, d) -> alg _ _ m = a /\ hash a r = d) /\
    (first_expected e_desc e_ref e_hdr = None -> alg _ _ m = 0) /\
    (body_mt r <> 0 -> mt _ _ m = body_mt r).
  Proof.
    unfold new. set (e := first_expected e_desc e_ref e_hdr).
    set (m0 := if Nat.eqb mt_desc 0 then mt_hdr else mt_desc).
    set (mm := if Nat.eqb m0 0 then (if Nat.eqb (body_mt r) 0 then detect r else body_mt r) else m0).
    destruct (parse mm r) as [v|] eqn:Ep; [|discriminate].
    destruct (negb (Nat.eqb (body_mt r) 0) && negb (Nat.eqb (body_mt r) mm)) eqn:Emt; [discriminate|].
    assert (Hmt : body_mt r <> 0 -> mm = body_mt r).
    { intro Hb. apply andb_false_iff in Emt as [E|E]; apply negb_false_iff, Nat.eqb_eq in E; congruence. }
    destruct e as [[a d']|] eqn:Ee.
    - destruct (Nat.eqb_spec d' (hash a r)) as [->|]; [|discriminate]. intro H; inversion H; subst; cbn.
      split; [unfold Inv; cbn; auto|]. split; [reflexivity|]. split; [intros a0 d0 E0; inversion E0; subst; auto|]. split; [discriminate|exact Hmt].
    - intro H; inversion H; subst; cbn.
      split; [unfold Inv; cbn; auto|]. split; [reflexivity|]. split; [discriminate|]. split; [reflexivity|exact Hmt].
  Qed.

  Hypothesis round_trip : forall t v, parse t (marshal v) = Some v.

  Lemma set_inv f m : Inv (set bytes value hash len marshal f m).
  Proof. unfold Inv, set. cbn. repeat split; auto. Qed.
  Lemma set_keeps f m : alg _ _ (set bytes value hash len marshal f m) = alg _ _ m /\ mt _ _ (set bytes value hash len marshal f m) = mt _ _ m /\
                        val _ _ (set bytes value hash len marshal f m) = f (val _ _ m).
  Proof. unfold set. cbn. auto. Qed.
  Lemma edits_inv : forall fs m, Inv m -> Inv (edits bytes value hash len marshal fs m).
  Proof. induction fs as [|f fs IH]; intros m HI; cbn; [exact HI|]. apply IH, set_inv. Qed.
  Lemma edits_val : forall fs m, val _ _ (edits bytes value hash len marshal fs m) = fold_left (fun v f => f v) fs (val _ _ m) /\
                                 alg _ _ (edits bytes value hash len marshal fs m) = alg _ _ m /\ mt _ _ (edits bytes value hash len marshal fs m) = mt _ _ m.
  Proof. induction fs as [|f fs IH]; intro m; cbn; [auto|]. destruct (IH (set bytes value hash len marshal f m)) as (H1 & H2 & H3). cbn in *. auto. Qed.
End P.
