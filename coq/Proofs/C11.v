(* Proofs/C11.v — confinement of credentials for the credentials function that honours the host *)
From Coq Require Import List Arith Bool Lia.
From Verif Require Import Model.C11_Creds.
Import ListNotations.

Lemma find_h_spec oid host basic hs h : find_h oid host basic hs = Some h -> In h hs /\ h_owner h = oid /\ h_host h = host /\ is_basic (h_kind h) = basic.
Proof.
  induction hs as [|x hs IH]; cbn; [discriminate|].
  destruct (Nat.eqb_spec (h_owner x) oid); cbn; [|intro H; apply IH in H; tauto].
  destruct (Nat.eqb_spec (h_host x) host); cbn; [|intro H; apply IH in H; tauto].
  destruct (Bool.eqb (is_basic (h_kind x)) basic) eqn:E; [|intro H; apply IH in H; tauto].
  intro H; inversion H; subst. apply eqb_prop in E. auto.
Qed.

Lemma named_mono c chals from realm : named chals from realm = true -> named (c :: chals) from realm = true.
Proof. unfold named. cbn. intro H. rewrite H. apply orb_true_r. Qed.
Lemma named_head chals from realm : named ((from, KBearer realm) :: chals) from realm = true.
Proof. unfold named. cbn. now rewrite !Nat.eqb_refl. Qed.

(* every bearer handler was created from a challenge of its own host that named its realm *)
Definition HInv (chals : list (nat * kind)) (hs : list handler) : Prop :=
  forall h realm, In h hs -> h_kind h = KBearer realm -> named chals (h_host h) realm = true.

Lemma confined_gen : forall acts hs chals, HInv chals hs -> monitor chals (run false hs acts) = true.
Proof.
  induction acts as [|a acts IH]; intros hs chals HI; [reflexivity|]. cbn [run].
  destruct a as [o from k|o dest|o from]; cbn [step].
  - (* challenge *)
    cbn [app monitor]. apply IH. intros h realm Hin Hk.
    destruct (find_h (o_id o) from (is_basic k) hs) eqn:Ef.
    + apply named_mono. now apply HI.
    + apply in_app_or in Hin as [Hin|[<-|[]]]; [apply named_mono; now apply HI|]. cbn in *. subst k. apply named_head.
  - (* request *)
    unfold on_request. destruct (find_h (o_id o) dest true hs); [|cbn; now apply IH].
    unfold creds_for. cbn [orb]. destruct (Nat.eqb_spec (o_reg o) dest) as [<-|]; cbn [andb]; [|cbn; now apply IH].
    destruct (o_userpass o); cbn [app monitor allowed]; [rewrite Nat.eqb_refl; cbn; now apply IH|now apply IH].
  - (* token request *)
    unfold on_token. destruct (find_h (o_id o) from false hs) as [h|] eqn:Ef; [|cbn; now apply IH].
    destruct (find_h_spec _ _ _ _ _ Ef) as (Hin & _ & Hh & _).
    destruct (h_kind h) as [|realm] eqn:Ek; [cbn; now apply IH|].
    unfold creds_for. cbn [orb]. destruct (Nat.eqb_spec (o_reg o) from) as [E|]; cbn [andb]; [|cbn; now apply IH].
    destruct (o_userpass o || o_idtoken o); cbn [app monitor allowed]; [|now apply IH].
    rewrite E, <- Hh, (HI h realm Hin Ek), orb_true_r. cbn. now apply IH.
Qed.

Lemma confined acts : monitor [] (run false [] acts) = true.
Proof. apply confined_gen. intros h realm []. Qed.

(* nothing is sent before some host has challenged *)
Lemma silent_without_challenge old : forall acts, (forall a, In a acts -> match a with AChallenge _ _ _ => False | _ => True end) -> run old [] acts = [].
Proof.
  induction acts as [|a acts IH]; intro H; [reflexivity|]. cbn [run]. destruct a as [o f k|o d|o f]; [exfalso; apply (H _ (or_introl eq_refl))| |]; cbn; apply IH; intros x Hx; apply H; now right.
Qed.
