(* Proofs/C01.v — soundness of BReader.Read/Seek over an arbitrary underlying reader *)
From Coq Require Import List ZArith Bool Lia.
From Verif Require Import Model.C01_BlobRead.
Import ListNotations.
Open Scope Z_scope.

Section Proofs.
  Variables byte digest S : Type.
  Variable H : list byte -> digest.
  Variable deqb : digest -> digest -> bool.
  Hypothesis deqb_eq : forall a b, deqb a b = true -> a = b.
  Variable uread : S -> nat -> list byte * uev * S.
  Variable useek0 : S -> option S.

  Notation st := (st byte digest S).
  Notation breader_read := (breader_read byte digest S H deqb uread).
  Notation step := (step byte digest S H deqb uread useek0).
  Notation run := (run byte digest S H deqb uread useek0).

  (* the descriptor the caller asked with: a valid digest g and a size (0 = unknown) *)
  Variable g : digest.
  Variable size0 : Z.

  Definition Inv (x : st) : Prop :=
    ddig _ _ _ x = Some g /\ (size0 > 0 -> dsize _ _ _ x = size0) /\ rb _ _ _ x = Z.of_nat (length (acc _ _ _ x)).

  Lemma limit_read_bytes lim s n bs oe lim' s' :
    limit_read byte S uread lim s n = (bs, oe, lim', s') -> True.
  Proof. trivial. Qed.

  Lemma read_inv x n bs e x' : Inv x -> breader_read x n = (bs, e, x') ->
    Inv x' /\ acc _ _ _ x' = acc _ _ _ x ++ bs /\
    (e = CleanEOF -> H (acc _ _ _ x') = g /\ (size0 > 0 -> Z.of_nat (length (acc _ _ _ x')) = size0)).
  Proof.
    intros (Hd & Hs & Hr) Hb. unfold breader_read in Hb.
    set (pr := if lim_on _ _ _ x then limit_read byte S uread (lim _ _ _ x) (us _ _ _ x) n
               else let '(bs, e, s') := uread (us _ _ _ x) n in (bs, Some e, lim _ _ _ x, s')) in Hb.
    destruct pr as [[[bs0 oe] lim'] s'].
    assert (Hlen : rb _ _ _ x + Z.of_nat (length bs0) = Z.of_nat (length (acc _ _ _ x ++ bs0))) by (rewrite app_length; lia).
    destruct oe as [[| |]|].
    - injection Hb as <- <- <-. cbn. unfold Inv; cbn. repeat split; auto; discriminate.
    - (* EOF *)
      rewrite Hd in Hb.
      destruct (dsize _ _ _ x =? 0) eqn:E0.
      + destruct (deqb g (H (acc _ _ _ x ++ bs0))) eqn:Eg; injection Hb as <- <- <-; cbn; unfold Inv; cbn.
        * apply Z.eqb_eq in E0. repeat split; auto; try (intro; specialize (Hs ltac:(assumption)); lia).
          symmetry. now apply deqb_eq.
        * apply Z.eqb_eq in E0. repeat split; auto; try discriminate. intro Hp. specialize (Hs Hp). lia.
      + destruct (rb _ _ _ x + Z.of_nat (length bs0) <? dsize _ _ _ x) eqn:E1.
        * destruct (deqb g (H (acc _ _ _ x ++ bs0))); injection Hb as <- <- <-; cbn; unfold Inv; cbn; repeat split; auto; discriminate.
        * destruct (rb _ _ _ x + Z.of_nat (length bs0) >? dsize _ _ _ x) eqn:E2.
          -- destruct (deqb g (H (acc _ _ _ x ++ bs0))); injection Hb as <- <- <-; cbn; unfold Inv; cbn; repeat split; auto; discriminate.
          -- destruct (deqb g (H (acc _ _ _ x ++ bs0))) eqn:Eg; injection Hb as <- <- <-; cbn; unfold Inv; cbn.
             ++ repeat split; auto. symmetry; now apply deqb_eq.
                intro Hp. specialize (Hs Hp). apply Z.ltb_ge in E1. rewrite Z.gtb_ltb in E2. apply Z.ltb_ge in E2. lia.
             ++ repeat split; auto; discriminate.
    - injection Hb as <- <- <-. cbn. unfold Inv; cbn. repeat split; auto; discriminate.
    - injection Hb as <- <- <-. cbn. unfold Inv; cbn. repeat split; auto; discriminate.
  Qed.

  Lemma seek_inv x ok x' : Inv x -> seek0 byte digest S useek0 x = (ok, x') ->
    Inv x' /\ (ok = true -> acc _ _ _ x' = []) /\ (ok = false -> x' = x).
  Proof.
    intros (Hd & Hs & Hr). unfold seek0. destruct (useek0 (us _ _ _ x)); intro Hq; injection Hq as <- <-.
    - unfold Inv; cbn. repeat split; auto. discriminate.
    - unfold Inv. repeat split; auto. discriminate.
  Qed.

  (* accumulators at the reads that ended in a clean EOF *)
  Fixpoint clean_accs (x : st) (ops : list op) : list (list byte) :=
    match ops with
    | [] => []
    | o :: ops' =>
        let '(r, x') := step x o in
        (match r with ORd _ _ CleanEOF => [acc _ _ _ x'] | _ => [] end) ++ clean_accs x' ops'
    end.

  Lemma clean_accs_sound : forall ops x, Inv x ->
    Forall (fun a => H a = g /\ (size0 > 0 -> Z.of_nat (length a) = size0)) (clean_accs x ops).
  Proof.
    induction ops as [|o ops IH]; intros x Hx; cbn [clean_accs]; [constructor|].
    destruct o as [n|]; unfold C01_BlobRead.step.
    - destruct (breader_read x n) as [[bs e] x'] eqn:Hb.
      destruct (read_inv _ _ _ _ _ Hx Hb) as (Hx' & _ & Hc).
      apply Forall_app. split; [|now apply IH].
      destruct e; try constructor; [now apply Hc|constructor].
    - destruct (seek0 byte digest S useek0 x) as [ok x'] eqn:Hsk.
      destruct (seek_inv _ _ _ Hx Hsk) as (Hx' & _). cbn. now apply IH.
  Qed.

  (* what the caller has been handed since the last successful rewind *)
  Fixpoint delivered (cur : list byte) (outs : list (out byte)) : list byte :=
    match outs with
    | [] => cur
    | ORd _ bs _ :: r => delivered (cur ++ bs) r
    | OSk _ true :: r => delivered [] r
    | OSk _ false :: r => delivered cur r
    end.

  Lemma acc_is_delivered : forall ops x, Inv x ->
    acc _ _ _ (snd (run x ops)) = delivered (acc _ _ _ x) (fst (run x ops)).
  Proof.
    induction ops as [|o ops IH]; intros x Hx; cbn [C01_BlobRead.run]; [reflexivity|].
    destruct o as [n|]; unfold C01_BlobRead.step.
    - destruct (breader_read x n) as [[bs e] x'] eqn:Hb.
      destruct (read_inv _ _ _ _ _ Hx Hb) as (Hx' & Ha & _).
      specialize (IH x' Hx'). destruct (run x' ops) as [rs x'']. cbn in *. now rewrite IH, Ha.
    - destruct (seek0 byte digest S useek0 x) as [ok x'] eqn:Hsk.
      destruct (seek_inv _ _ _ Hx Hsk) as (Hx' & Ht & Hf).
      specialize (IH x' Hx'). destruct (run x' ops) as [rs x'']. cbn in *. rewrite IH.
      destruct ok; [now rewrite Ht|now rewrite Hf].
  Qed.

  Lemma init_inv s : Inv (init byte digest S size0 (Some g) s).
  Proof. unfold Inv, init; cbn. repeat split; auto. Qed.

  (* response headers never override a valid digest or a stated size given by the caller *)
  Lemma new_reader_inv hdr s : size0 > 0 -> new_reader byte digest S size0 (DValid _ g) hdr s = init byte digest S size0 (Some g) s.
  Proof.
    intro Hp. unfold new_reader, new_reader_desc. destruct hdr as [[hs hd]|]; [|reflexivity].
    destruct (Z.eqb_spec size0 0); [lia|reflexivity].
  Qed.
  Lemma new_reader_Inv hdr s : Inv (new_reader byte digest S size0 (DValid _ g) hdr s).
  Proof.
    unfold new_reader, new_reader_desc, Inv. destruct hdr as [[hs hd]|]; cbn; repeat split; auto.
    intro Hp. destruct (Z.eqb_spec size0 0); [lia|reflexivity].
  Qed.
  Lemma new_reader_digest hdr s : ddig _ _ _ (new_reader byte digest S size0 (DValid _ g) hdr s) = Some g.
  Proof. unfold new_reader, new_reader_desc. destruct hdr as [[hs hd]|]; reflexivity. Qed.

  (* LimitRead never lets more than Limit+1 bytes through per call, and reports an error on the call
     that crosses the limit *)
  Lemma limit_read_bound lim s n bs oe lim' s' :
    (forall s0 k, (length (fst (fst (uread s0 k))) <= k)%nat) -> 0 <= lim ->
    limit_read byte S uread lim s n = (bs, oe, lim', s') ->
    Z.of_nat (length bs) <= lim + 1 /\ (Z.of_nat (length bs) > lim -> oe = None) /\ lim' = lim - Z.of_nat (length bs).
  Proof.
    intros Hc Hl. unfold limit_read. destruct (Z.ltb_spec lim 0); [lia|].
    set (n' := if Z.of_nat n >? lim + 1 then Z.to_nat (lim + 1) else n).
    pose proof (Hc s n') as Hn. destruct (uread s n') as [[bs0 e] s0]. cbn in Hn.
    assert (Hn' : Z.of_nat n' <= lim + 1).
    { subst n'. destruct (Z.gtb_spec (Z.of_nat n) (lim + 1)); lia. }
    destruct (Z.ltb_spec (lim - Z.of_nat (length bs0)) 0); intro Hq; injection Hq as <- <- <- <-; repeat split; try lia; auto.
  Qed.
End Proofs.
