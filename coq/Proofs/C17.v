(* Proofs/C17.v — invariant of the throttle monitor *)
From Coq Require Import List Arith Bool Lia Permutation.
From Verif Require Import Model.C17_PQueue.
Import ListNotations.

Lemma mem_In x l : mem x l = true <-> In x l.
Proof.
  unfold mem. rewrite existsb_exists. split.
  - intros (y & Hy & E). apply Nat.eqb_eq in E. now subst.
  - intro H. exists x. split; [exact H|apply Nat.eqb_refl].
Qed.
Lemma mem_false x l : mem x l = false <-> ~ In x l.
Proof. rewrite <- mem_In. destruct (mem x l); split; congruence. Qed.

Lemma remove1_perm x l : In x l -> Permutation l (x :: remove1 x l).
Proof.
  induction l as [|z l IH]; cbn; [tauto|]. destruct (Nat.eqb_spec x z); [subst; reflexivity|].
  intros [H|H]; [congruence|]. rewrite (IH H) at 1. apply perm_swap.
Qed.
Lemma remove_at_perm {A} i (l : list A) w : nth_error l i = Some w -> Permutation l (w :: remove_at i l).
Proof.
  revert i; induction l as [|z l IH]; intros [|i] He; cbn in *; try discriminate.
  - injection He as <-. reflexivity.
  - rewrite (IH i He) at 1. apply perm_swap.
Qed.

Definition Inv (s : q) : Prop :=
  0 < qmax s /\ NoDup (active s ++ queued s) /\ length (active s) <= qmax s /\
  (queued s <> [] -> length (active s) = qmax s).

Lemma release_inv s x pick s' w : Inv s -> In x (active s) -> release s x pick = (s', w) ->
  Inv s' /\ ~ In x (active s' ++ queued s') /\
  (queued s <> [] -> exists v, w = Some v /\ In v (queued s) /\ length (active s') = qmax s' /\
                               S (length (queued s')) = length (queued s)) /\
  (queued s = [] -> w = None /\ queued s' = [] /\ S (length (active s')) = length (active s)) /\ qmax s' = qmax s.
Proof.
  intros (Hm & Hn & Hle & Hfull) Hx. unfold release.
  assert (Hmem : mem x (active s) = true) by now apply mem_In.
  rewrite Hmem.
  pose proof (remove1_perm x _ Hx) as Hp.
  assert (Hlen : length (active s) = S (length (remove1 x (active s)))) by (rewrite (Permutation_length Hp); reflexivity).
  (* NoDup (x :: remove1 x active ++ queued) *)
  assert (Hn1 : NoDup (x :: remove1 x (active s) ++ queued s)).
  { eapply Permutation_NoDup; [|exact Hn]. change (x :: remove1 x (active s) ++ queued s) with ((x :: remove1 x (active s)) ++ queued s).
    now apply Permutation_app_tail. }
  inversion Hn1 as [|? ? Hxn Hn2]; subst.
  destruct (queued s) as [|q0 qs] eqn:Eq.
  - intro H; injection H as <- <-. repeat split; cbn [qmax active queued]; auto; try lia; try congruence.
  - specialize (Hfull ltac:(discriminate)).
    destruct (Nat.leb_spec (qmax s) (length (remove1 x (active s)))); [lia|].
    set (i := if 1 <? length (q0 :: qs) then Nat.min pick (length (q0 :: qs) - 1) else 0).
    assert (Hi : i < length (q0 :: qs)) by (subst i; destruct (1 <? length (q0 :: qs)); cbn; lia).
    destruct (nth_error (q0 :: qs) i) as [v|] eqn:En; [|apply nth_error_None in En; lia].
    intro Hr; injection Hr as <- <-. cbn [qmax active queued].
    pose proof (remove_at_perm i _ v En) as Hq.
    assert (Hql : length (q0 :: qs) = S (length (remove_at i (q0 :: qs)))) by (rewrite (Permutation_length Hq); reflexivity).
    assert (Hperm : Permutation (remove1 x (active s) ++ q0 :: qs) ((remove1 x (active s) ++ [v]) ++ remove_at i (q0 :: qs))).
    { rewrite <- app_assoc. apply Permutation_app_head. cbn. exact Hq. }
    assert (Hal : length (remove1 x (active s) ++ [v]) = qmax s) by (rewrite app_length; cbn; lia).
    split; [unfold Inv; cbn [qmax active queued]; split; [exact Hm|split; [|split; [lia|intros _; exact Hal]]]|].
    { eapply Permutation_NoDup; [exact Hperm|exact Hn2]. }
    split.
    { intro Hc. apply Hxn. eapply Permutation_in; [symmetry; exact Hperm|exact Hc]. }
    split.
    { intros _. exists v. split; [reflexivity|]. split; [eapply Permutation_in; [symmetry; exact Hq|now left]|]. split; [exact Hal|lia]. }
    split; [discriminate|reflexivity].
Qed.

Lemma nodup_snoc_l (a b : list id) x : NoDup (a ++ b) -> ~ In x (a ++ b) -> NoDup ((a ++ [x]) ++ b).
Proof.
  intros Hn Hx. eapply Permutation_NoDup; [|constructor; [exact Hx|exact Hn]].
  rewrite <- app_assoc. cbn. apply Permutation_middle.
Qed.
Lemma nodup_snoc_r (a b : list id) x : NoDup (a ++ b) -> ~ In x (a ++ b) -> NoDup (a ++ (b ++ [x])).
Proof.
  intros Hn Hx. eapply Permutation_NoDup; [|constructor; [exact Hx|exact Hn]].
  rewrite app_assoc. apply Permutation_cons_append.
Qed.

Lemma step_inv s e : Inv s -> enabled s e = true -> Inv (fst (step s e)).
Proof.
  intros HI He. pose proof HI as (Hm & Hn & Hle & Hfull).
  destruct e as [x|x|x pick|x pick]; cbn [enabled] in He; cbn [step].
  - apply andb_prop in He as [Ha Hq]. apply negb_true_iff in Ha, Hq. apply mem_false in Ha, Hq.
    assert (Hx : ~ In x (active s ++ queued s)) by (intro Hc; apply in_app_or in Hc; tauto).
    destruct (Nat.ltb_spec (length (active s) + length (queued s)) (qmax s)); cbn; unfold Inv; cbn.
    + repeat split; auto.
      * now apply nodup_snoc_l.
      * rewrite app_length. cbn. lia.
      * intro Hqn. specialize (Hfull Hqn). lia.
    + repeat split; auto.
      * now apply nodup_snoc_r.
      * intros _. destruct (queued s) as [|q0 qs] eqn:Eq; [cbn in *; lia|]. apply Hfull. discriminate.
  - apply andb_prop in He as [Ha Hq]. apply negb_true_iff in Ha, Hq. apply mem_false in Ha, Hq.
    assert (Hx : ~ In x (active s ++ queued s)) by (intro Hc; apply in_app_or in Hc; tauto).
    destruct (Nat.ltb_spec (length (active s) + length (queued s)) (qmax s)); cbn; [|exact HI]. unfold Inv; cbn.
    repeat split; auto.
    + now apply nodup_snoc_l.
    + rewrite app_length. cbn. lia.
    + intro Hqn. specialize (Hfull Hqn). lia.
  - apply mem_In in He. destruct (release s x pick) as [s' w] eqn:Er. cbn.
    now destruct (release_inv _ _ _ _ _ HI He Er) as (H1 & _).
  - destruct (mem x (queued s)) eqn:Eq.
    + cbn. apply mem_In in Eq. unfold Inv; cbn.
      pose proof (remove1_perm x _ Eq) as Hp.
      assert (Hn1 : NoDup (x :: active s ++ remove1 x (queued s))).
      { eapply Permutation_NoDup; [|exact Hn]. rewrite (Permutation_app_head (active s) Hp). symmetry. apply Permutation_middle. }
      inversion Hn1; subst. repeat split; auto.
      intro Hne. apply Hfull. intro Hc. rewrite Hc in Eq. destruct Eq.
    + cbn in He. apply mem_In in He. destruct (release s x pick) as [s' w] eqn:Er. cbn.
      now destruct (release_inv _ _ _ _ _ HI He Er) as (H1 & _).
Qed.

Lemma init_inv m : Inv (init m).
Proof. unfold Inv, init; cbn. repeat split; try constructor; try lia; [destruct (m =? 0) eqn:E; [lia|apply Nat.eqb_neq in E; lia]|congruence]. Qed.

Lemma run_inv : forall es s s', Inv s -> run s es = Some s' -> Inv s'.
Proof.
  induction es as [|e es IH]; intros s s' HI Hr; cbn in Hr; [now injection Hr as <-|].
  destruct (enabled s e) eqn:Ee; [|discriminate]. eapply IH; [|exact Hr]. now apply step_inv.
Qed.

(* a cancelled waiter is in neither list afterwards *)
Lemma cancel_clean s x pick : Inv s -> enabled s (Cancel x pick) = true ->
  let s' := fst (step s (Cancel x pick)) in ~ In x (active s' ++ queued s') /\ Inv s'.
Proof.
  intros HI He. split; [|now apply step_inv]. cbn [step] in *. cbn [enabled] in He.
  pose proof HI as (Hm & Hn & Hle & Hfull).
  destruct (mem x (queued s)) eqn:Eq.
  - cbn. apply mem_In in Eq. pose proof (remove1_perm x _ Eq) as Hp.
    assert (Hn1 : NoDup (x :: active s ++ remove1 x (queued s))).
    { eapply Permutation_NoDup; [|exact Hn]. rewrite (Permutation_app_head (active s) Hp). symmetry. apply Permutation_middle. }
    now inversion Hn1.
  - cbn in He. apply mem_In in He. destruct (release s x pick) as [s' w] eqn:Er. cbn.
    now destruct (release_inv _ _ _ _ _ HI He Er) as (_ & H2 & _).
Qed.

(* ---------- AcquireMulti: one attempt ---------- *)
Lemma try_rest_spec : forall fuel i n lockI try acq, n - i <= fuel ->
  let r := try_rest fuel i n lockI try acq in
  match snd r with
  | None => fst r = acq ++ filter (fun j => negb (Nat.eqb j lockI)) (seq i (n - i)) /\ forall j, i <= j < n -> j <> lockI -> try j = true
  | Some k => i <= k < n /\ k <> lockI /\ try k = false /\ fst r = acq ++ filter (fun j => negb (Nat.eqb j lockI)) (seq i (k - i))
  end.
Proof.
  induction fuel as [|f IH]; intros i n lockI try acq Hf; cbn [try_rest].
  - assert (n - i = 0) by lia. cbn. rewrite H. cbn. rewrite app_nil_r. split; [reflexivity|intros j Hj; lia].
  - destruct (Nat.leb_spec n i) as [Hle|Hlt].
    + cbn. replace (n - i) with 0 by lia. cbn. rewrite app_nil_r. split; [reflexivity|intros j Hj; lia].
    + replace (n - i) with (S (n - S i)) by lia. cbn [seq filter].
      destruct (Nat.eqb_spec i lockI) as [->|Hne].
      * specialize (IH (S lockI) n lockI try acq ltac:(lia)). cbv zeta in IH. destruct (snd (try_rest f (S lockI) n lockI try acq)) as [k|] eqn:Es.
        -- destruct IH as (A & B & C & D). split; [lia|]. split; [exact B|]. split; [exact C|].
           rewrite D. replace (k - lockI) with (S (k - S lockI)) by lia. cbn [seq filter]. rewrite Nat.eqb_refl. reflexivity.
        -- destruct IH as (A & B). cbn [negb]. split; [exact A|]. intros j Hj Hjl. apply B; lia.
      * destruct (try i) eqn:Et.
        -- specialize (IH (S i) n lockI try (acq ++ [i]) ltac:(lia)). cbv zeta in IH. destruct (snd (try_rest f (S i) n lockI try (acq ++ [i]))) as [k|] eqn:Es.
           ++ destruct IH as (A & B & C & D). split; [lia|]. split; [exact B|]. split; [exact C|].
              rewrite D, <- app_assoc. replace (k - i) with (S (k - S i)) by lia. cbn [seq filter]. destruct (Nat.eqb_spec i lockI); [contradiction|reflexivity].
           ++ destruct IH as (A & B). cbn [negb]. destruct (Nat.eqb_spec i lockI); [contradiction|]. cbn [negb]. rewrite A, <- app_assoc. split; [reflexivity|].
              intros j Hj Hjl. destruct (Nat.eq_dec j i) as [->|]; [exact Et|apply B; lia].
        -- cbn. split; [lia|]. split; [exact Hne|]. split; [exact Et|]. replace (i - i) with 0 by lia. cbn. now rewrite app_nil_r.
Qed.

Lemma filter_notin (x : nat) l : ~ In x l -> filter (fun j => negb (Nat.eqb j x)) l = l.
Proof. induction l as [|y l IH]; cbn; intro H; [reflexivity|]. destruct (Nat.eqb_spec y x); [exfalso; apply H; now left|cbn; f_equal; apply IH; intro; apply H; now right]. Qed.
Lemma perm_extract (x : nat) l : NoDup l -> In x l -> Permutation l (x :: filter (fun j => negb (Nat.eqb j x)) l).
Proof.
  induction l as [|y l IH]; intros Hn Hi; [destruct Hi|]. inversion Hn as [|? ? Hy Hn']; subst. cbn.
  destruct (Nat.eqb_spec y x) as [->|Hne]; cbn.
  - rewrite filter_notin by exact Hy. reflexivity.
  - destruct Hi as [E|Hi]; [congruence|]. rewrite perm_swap. constructor. now apply IH.
Qed.


(* a failed attempt gives back exactly the slots it had taken, each once *)
Lemma backoff_releases_exactly n lockI try acq k : lockI < n -> attempt n lockI try = (acq, Some k) -> Permutation (cleanup lockI k) acq.
Proof.
  intros Hl H. unfold attempt in H. pose proof (try_rest_spec n 0 n lockI try [lockI] ltac:(lia)) as S. cbv zeta in S. rewrite H in S. cbn [fst snd] in S.
  destruct S as (A & B & C & D). rewrite Nat.sub_0_r in D. subst acq. unfold cleanup. cbn [app].
  destruct (Nat.ltb_spec k lockI) as [Hlt|Hge].
  - rewrite filter_notin by (rewrite in_seq; lia). cbn [app]. constructor. symmetry. apply Permutation_rev.
  - cbn [app]. rewrite <- Permutation_rev. apply perm_extract; [apply seq_NoDup|rewrite in_seq; lia].
Qed.
(* a successful attempt holds every queue exactly once *)
Lemma success_holds_all n lockI try acq : lockI < n -> attempt n lockI try = (acq, None) -> Permutation acq (seq 0 n).
Proof.
  intros Hl H. unfold attempt in H. pose proof (try_rest_spec n 0 n lockI try [lockI] ltac:(lia)) as S. cbv zeta in S. rewrite H in S. cbn [fst snd] in S.
  destruct S as (A & _). rewrite Nat.sub_0_r in A. subst acq. cbn [app]. symmetry. apply perm_extract; [apply seq_NoDup|rewrite in_seq; lia].
Qed.
(* the queue the next attempt waits on is one that could not be had, never the one just waited on *)
Lemma backoff_target n lockI try acq k : attempt n lockI try = (acq, Some k) -> k < n /\ k <> lockI /\ try k = false.
Proof.
  intro H. unfold attempt in H. pose proof (try_rest_spec n 0 n lockI try [lockI] ltac:(lia)) as S. cbv zeta in S. rewrite H in S. cbn [fst snd] in S. tauto.
Qed.
(* the cleanup as written in the seeded change C17-A (the blocking slot is forgotten when the failed index is lower):
   refuted - the slot of the queue waited on stays taken *)
Definition cleanup_forgetful (lockI i : nat) : list nat := rev (seq 0 i).
Lemma forgetful_leaks : exists n lockI try acq k, lockI < n /\ attempt n lockI try = (acq, Some k) /\ ~ Permutation (cleanup_forgetful lockI k) acq.
Proof.
  exists 3, 2, (fun j => Nat.eqb j 0), [2; 0], 1. split; [lia|]. split; [reflexivity|]. cbn. intro H. apply Permutation_length in H. discriminate.
Qed.
