From Coq Require Import List Arith Bool Lia.
From Verif Require Import Model.C17_Step.
Import ListNotations.

Lemma disciplined_inv : forall es s, disciplined (held s) es = true -> lost s = 0 -> in_use s = (if held s then 1 else 0) ->
  let s' := srun es s in lost s' = 0 /\ in_use s' = (if held s' then 1 else 0).
Proof.
  induction es as [|e es IH]; intros s Hd Hl Hu; cbn [srun fold_left]; [now split|].
  destruct e; cbn [disciplined] in Hd; apply andb_true_iff in Hd as [Hh Hd].
  - apply negb_true_iff in Hh. apply (IH (sstep s SAcq)); cbn [sstep held lost in_use]; [exact Hd|exact Hl|]. rewrite Hu, Hh. reflexivity.
  - apply (IH (sstep s SRel)); unfold sstep; rewrite Hh; cbn [held lost in_use]; [exact Hd|exact Hl|]. rewrite Hu, Hh. reflexivity.
Qed.

(* a disciplined step never frees a slot it does not hold and accounts for exactly the slot it holds *)
Theorem disciplined_exact : forall es, disciplined false es = true ->
  lost (srun es sinit) = 0 /\ in_use (srun es sinit) = (if held (srun es sinit) then 1 else 0).
Proof. intros es H. apply (disciplined_inv es sinit); [exact H|reflexivity|reflexivity]. Qed.

(* release, then the deferred release again (seeded C17-F): a slot of another step is freed *)
Theorem double_release_refuted : lost (srun [SAcq; SRel; SRel] sinit) = 1.
Proof. reflexivity. Qed.
